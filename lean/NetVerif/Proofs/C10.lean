import NetVerif.Proofs.Lemmas.FlowHistory
import NetVerif.Proofs.Lemmas.FlowMonitor
/-!
C10 — HTTP/2 inbound flow-control credit is never leaked.

Part A (mechanism, `http2/flow.go`): for every history of `inflow.take` / `inflow.add`
from `init n0` nothing is lost or invented, the peer's view of the window is exactly
`avail`, no WINDOW_UPDATE lifts it above 2^31-1 (the model panics exactly where the Go
code does), and the only credit ever withheld is the `inflowMinRefresh` batching residue.
Part B (monitor): every trace accepted by `Model.FlowMonitor` satisfies the wire-level
statement; the literal statement ("back to its configured size") is false of the code
(`full_false`, batching residue by design) and `holds_partial` states what does hold.
-/
namespace NetVerif.Proofs.C10
open NetVerif.Model.Flow NetVerif.Proofs.Flow

/-- **Conservation.** For every operation history from `init n0` (any sizes, any order,
refused takes included): `avail + unsent + Σ accepted = n0 + Σ returned`; the peer's view
`n0 − Σ accepted + Σ WINDOW_UPDATE` equals `avail`; the withheld credit equals `unsent`. -/
theorem inflow_conservation (n0 : Int) (h0 : 0 ≤ n0) (h1 : n0 ≤ maxWindow) (ops : List Op) (s : Ledger)
    (h : (Ledger.start n0).run ops = some s) :
    s.f.avail + s.f.unsent + s.taken = n0 + s.added ∧
    n0 - s.taken + s.sent = s.f.avail ∧
    s.added - s.sent = s.f.unsent := by
  have i := inv_run n0 ops _ s (inv_start n0 h0 h1) h
  exact ⟨i.cons, i.view, i.held⟩

/-- **No window above 2^31-1.** Along every history the advertised window (`peak` is its
running maximum) and `avail + unsent` stay within [0, 2^31-1]; all int32 fields stay in range. -/
theorem window_never_exceeds_max (n0 : Int) (h0 : 0 ≤ n0) (h1 : n0 ≤ maxWindow) (ops : List Op) (s : Ledger)
    (h : (Ledger.start n0).run ops = some s) :
    s.peak ≤ maxWindow ∧ s.f.avail ≤ s.peak ∧ 0 ≤ s.f.avail ∧ 0 ≤ s.f.unsent ∧ s.f.avail + s.f.unsent ≤ maxWindow := by
  have i := inv_run n0 ops _ s (inv_start n0 h0 h1) h
  have w := i.wf
  unfold Inflow.WF at w
  exact ⟨i.peak.2, i.peak.1, w.1, w.2.1, w.2.2⟩

/-- The model panics exactly where `inflow.add` does: negative update, or an update that
would make `avail + unsent` exceed 2^31-1. A history aborts (`none`) iff some `add` does. -/
theorem add_panics_iff (f : Inflow) (n : Int) :
    f.add n = none ↔ n < 0 ∨ f.avail + f.unsent + n > maxWindow := add_none_iff f n

/-- Everything a successful `add` does (see `Proofs.Flow.add_spec`). -/
theorem add_exact (f f' : Inflow) (n r : Int) (h : f.add n = some (r, f')) :
    0 ≤ n ∧
    f'.avail + f'.unsent = f.avail + f.unsent + n ∧
    f'.avail + f'.unsent ≤ maxWindow ∧
    f'.avail = f.avail + r ∧
    ((r = 0 ∧ f'.unsent = f.unsent + n ∧ f'.unsent < inflowMinRefresh ∧ f'.unsent < f'.avail) ∨
     (r = f.unsent + n ∧ f'.unsent = 0 ∧ ¬ (r < inflowMinRefresh ∧ r < f.avail))) := add_spec f f' n r h

/-- After every `add`: the residue is below both batching bounds (or nothing is withheld). -/
theorem residue_after_add (f f' : Inflow) (n r : Int) (h : f.add n = some (r, f')) :
    f'.unsent = 0 ∨ (f'.unsent < inflowMinRefresh ∧ f'.unsent < f'.avail) := add_residue f f' n r h

/-- **Quiescence (mechanism level).** In a history that never hands back more than it
received, once everything received has been returned the peer's view is
`n0 − unsent` and `unsent` is a batching residue. -/
theorem quiescent_residue (n0 : Int) (h0 : 0 < n0) (h1 : n0 ≤ maxWindow) (ops : List Op) (s : Ledger)
    (hc : NoOverRefund (Ledger.start n0) ops)
    (h : (Ledger.start n0).run ops = some s) (hq : s.added = s.taken) :
    s.f.avail = n0 - s.f.unsent ∧
    (s.f.unsent = 0 ∨ (s.f.unsent < inflowMinRefresh ∧ s.f.unsent < s.f.avail)) := by
  have i := inv_run n0 ops _ s (inv_start n0 (by omega) h1) h
  have q0 : QInv (Ledger.start n0) := by
    refine ⟨by simp [Ledger.start], fun _ => Or.inl ?_⟩
    simp [Ledger.start, Inflow.new, Inflow.init]
  have q := qinv_run n0 ops _ s (inv_start n0 (by omega) h1) q0 hc h
  refine ⟨?_, q.2 hq⟩
  have := i.cons
  omega

/-! #### non-vacuity -/
example : (Ledger.start 65535).run [.take 100, .add 100] = some ⟨⟨65435, 100⟩, 100, 100, 0, 65535⟩ := by decide
example : (Ledger.start 65535).run [.take 65535, .add 65535] = some ⟨⟨65535, 0⟩, 65535, 65535, 65535, 65535⟩ := by decide
example : (Ledger.start 2147483647).run [.add 1] = none := by decide
example : NoOverRefund (Ledger.start 65535) [.take 100, .add 100] := by
  simp [NoOverRefund, Ledger.step, Ledger.start, Inflow.new, Inflow.init, Inflow.take, Inflow.add, maxWindow, inflowMinRefresh]

/-! ## Part B — the trace monitor -/

open NetVerif.Model.FlowMonitor NetVerif.Proofs.FlowMon

/-- A WINDOW_UPDATE(0) is only accepted if the resulting peer view is ≤ 2^31-1 and not above
the configured size. -/
theorem monitor_wu_checked (fc : Option Nat) (m m' : Mon) (n : Int) (h : obsStep fc m (.wu 0 n) = .ok m') :
    m'.conn = m.conn + n ∧ m'.conn ≤ maxWindow ∧ m'.sumWU = m.sumWU + n ∧ m'.conn ≤ m'.configured := by
  simp only [obsStep, if_true] at h
  split at h
  · cases h
  · split at h
    · cases h
    · cases h
      dsimp only
      refine ⟨rfl, ?_, rfl, ?_⟩ <;> omega

/-- **No receive window above 2^31-1 on any accepted trace**, at every line boundary: the
connection window and every stream window; and the monitor's connection window is literally
`65535 + Σ WINDOW_UPDATE(0) − Σ DATA within the windows` (the peer's view). -/
theorem monitor_windows_bounded (pre suf : List Line) (m : Mon) (h : run Mon.init (pre ++ suf) = .ok m) :
    ∃ mp, run Mon.init pre = .ok mp ∧ mp.conn ≤ maxWindow ∧ (∀ s ∈ mp.streams, s.win ≤ maxWindow) ∧
      mp.conn = initialWindowSize + mp.sumWU - mp.sumData := by
  obtain ⟨mp, h1, _⟩ := run_append pre suf Mon.init m h
  have i := run_inv pre Mon.init mp minv_init h1
  exact ⟨mp, h1, i.conn_le, fun s hs => (i.streams s hs).1, i.ghost⟩

/-- Credit withheld at a quiescent point, from the peer's side. -/
def Residue (m : Mon) : Int := m.configured - m.conn

/-- **C10.holds_partial.** Whenever the monitor accepts a `quiesce` line on a live connection,
the peer's view `65535 + Σ WINDOW_UPDATE − Σ DATA` equals `configured − residue` with
`0 ≤ residue`, and `residue = 0` or `residue < inflowMinRefresh ∧ residue < window`.
Outside the excluded region (`residue = 0`) the view is exactly the configured size.
(Before the `closeStream` repair the statement carried a second excluded region, the bytes
refunded twice; it is gone: such a history is now rejected, see `overRefund_rejected`.) -/
theorem holds_partial (m m' : Mon) (obs : List Obs) (hm : MInv m)
    (h : liveLine m .quiesce obs = .ok m') (hd : m'.dead = false) :
    initialWindowSize + m'.sumWU - m'.sumData = m'.configured - Residue m' ∧
    0 ≤ Residue m' ∧
    (Residue m' = 0 ∨ (Residue m' < inflowMinRefresh ∧ Residue m' < m'.conn)) ∧
    (Residue m' = 0 → initialWindowSize + m'.sumWU - m'.sumData = m'.configured) := by
  have hi := liveLine_inv m m' .quiesce obs hm h
  have hg := hi.ghost
  unfold liveLine at h
  simp only [actStep] at h
  by_cases hdead : m.dead = true
  · simp only [hdead, if_true] at h
    cases h
    rw [hd] at hdead
    cases hdead
  · simp only [hdead] at h
    cases hf : obsFold none m obs with
    | error e => simp only [hf] at h; cases h
    | ok m1 =>
      simp only [hf, finishLine] at h
      by_cases hr : (m1.dead || residueOK m1) = true
      · simp only [hr, if_true] at h
        cases h
        dsimp only at hd hg ⊢
        unfold Residue
        dsimp only
        rw [hd] at hr
        simp only [Bool.false_or, residueOK, Bool.and_eq_true, Bool.or_eq_true, decide_eq_true_eq] at hr
        omega
      · simp only [hr] at h
        by_cases hneg : m1.configured - m1.conn < 0 <;> simp [hneg] at h

/-- The literal statement: on every accepted trace, at `quiesce` on a live connection the
peer's view of the connection window is back to the configured size. -/
def FullStatement : Prop :=
  ∀ (tr : List Line) (m : Mon), run Mon.init (tr ++ [⟨.quiesce, []⟩]) = .ok m → m.dead = false →
    initialWindowSize + m.sumWU - m.sumData = m.configured

/-- Witness (by design): one 100-byte body read to EOF — no WINDOW_UPDATE is owed
(corpus/C10/witness.rigs.ops case 0 is this trace recorded from the real server). -/
def witnessResidue : List Line :=
  [⟨.reset 1048576 1048576, [.set 1048576, .wu 0 983041, .other]⟩,
   ⟨.hdr 1 (-1) false, []⟩,
   ⟨.data 1 100 (-1) true, []⟩,
   ⟨.read 1, [.rd 1 100]⟩,
   ⟨.read 1, [.rd 1 0, .other]⟩,
   ⟨.hexit 1, [.other]⟩]

theorem witnessResidue_accepted :
    ∃ m, run Mon.init (witnessResidue ++ [⟨.quiesce, []⟩]) = .ok m ∧ m.dead = false ∧
      initialWindowSize + m.sumWU - m.sumData = m.configured - 100 :=
  ⟨_, rfl, rfl, by decide⟩

/-- **C10.full_false.** The literal statement is false of the code as it is (batching residue). -/
theorem full_false : ¬ FullStatement := by
  intro h
  obtain ⟨m, h1, h2, h4⟩ := witnessResidue_accepted
  have := h witnessResidue m h1 h2
  omega

/-! #### regression: the repaired `closeStream` double refund (corpus/C10 case 1).
48000 buffered bytes, the peer resets the stream. The unpatched server refunded 48000 at
`closeStream`, let the handler read the 48000 bytes and refunded them again. -/

/-- The trace the unpatched server produced: rejected at the second WINDOW_UPDATE. -/
def overRefundOld : List Line :=
  [⟨.reset 1048576 1048576, [.set 1048576, .wu 0 983041, .other]⟩,
   ⟨.hdr 1 (-1) false, []⟩,
   ⟨.data 1 16000 (-1) false, []⟩,
   ⟨.data 1 16000 (-1) false, []⟩,
   ⟨.data 1 16000 (-1) false, []⟩,
   ⟨.crst 1, [.wu 0 48000]⟩,
   ⟨.read 1, [.rd 1 48000, .wu 0 48000]⟩]

theorem overRefund_rejected : run Mon.init overRefundOld = .error "conn-window-above-configured" := rfl

/-- The trace of the repaired server for the same script: the read after the reset returns
nothing, and at quiescence the peer's view is exactly the configured size. -/
example : ∃ m, run Mon.init (overRefundOld.take 6 ++
      [⟨.read 1, [.rd 1 0, .other]⟩, ⟨.hexit 1, []⟩, ⟨.quiesce, []⟩]) = .ok m ∧ m.dead = false ∧
      initialWindowSize + m.sumWU - m.sumData = m.configured :=
  ⟨_, rfl, rfl, by decide⟩

/-! #### graceful shutdown: DATA on streams opened after the GOAWAY is discarded, and every byte of
it — payload, padding and the pad-length byte — is charged to and must come back on the
connection window (corpus/C10/witness.rigs.ops case 4; seeded change c10b refunded `len(f.Data())`). -/

/-- A stream opened after the graceful GOAWAY is charged the full flow-controlled length
(`flowLen` = payload + padding + 1) on the connection window only. -/
theorem discarded_after_goaway_charged (m : Mon) (sid : Nat) (len pad : Int) (es : Bool) (st : StreamSt)
    (hv : ¬ (len < 0 ∨ pad < -1)) (hf : findStream m.streams sid = some st) (hs : st.status = .closed)
    (hfit : ¬ flowLen len pad > m.conn) :
    (dataAct m sid len pad es).m.conn = m.conn - flowLen len pad ∧
    (dataAct m sid len pad es).m.sumData = m.sumData + flowLen len pad ∧
    (dataAct m sid len pad es).expectFC = none := by
  unfold dataAct
  simp [hv, hf, hs, connOnlyAct, hfit]

def goAwayPrefix : List Line :=
  [⟨.reset 1048576 1048576, [.set 1048576, .wu 0 983041, .other]⟩,
   ⟨.hdr 1 (-1) false, []⟩,
   ⟨.shutdown 3, [.goaway 0]⟩,
   ⟨.hdr 5 (-1) false, []⟩]

/-- 40 padded frames of 100+155+1 bytes, all refunded: accepted, view back to configured. -/
example : ∃ m, run Mon.init (goAwayPrefix ++ List.replicate 16 ⟨.data 5 100 155 false, []⟩ ++
      [⟨.data 5 100 155 false, [.wu 0 4352]⟩, ⟨.quiesce, [.other]⟩]) = .ok m ∧ m.dead = false ∧
      initialWindowSize + m.sumWU - m.sumData = m.configured :=
  ⟨_, rfl, rfl, by decide⟩

/-- only the payload refunded (17·100 of 17·256 bytes): rejected as a leak. -/
example : run Mon.init (goAwayPrefix ++ List.replicate 17 ⟨.data 5 100 155 false, []⟩ ++
      List.replicate 24 ⟨.data 5 100 155 false, []⟩ ++
      [⟨.data 5 100 155 false, [.wu 0 4200]⟩, ⟨.quiesce, [.other]⟩]) = .error "credit-leak" := rfl

end NetVerif.Proofs.C10
