import NetVerif.Proofs.Lemmas.FlowHistory
import NetVerif.Model.FlowMonitor
/-!
C10 — HTTP/2 inbound flow-control credit is never leaked.

Part A (mechanism, `http2/flow.go`): for every history of `inflow.take` / `inflow.add`
from `init n0` nothing is lost or invented, the peer's view of the window is exactly
`avail`, no WINDOW_UPDATE lifts it above 2^31-1 (the model panics exactly where the Go
code does), and the only credit ever withheld is the `inflowMinRefresh` batching residue.
Part B (monitor): every trace accepted by `Model.FlowMonitor` satisfies the wire-level
statement; the literal statement ("back to its configured size") is false of the unchanged
code (`full_false`) and `holds_partial` states what does hold.
-/
namespace NetVerif.Proofs.C10
open NetVerif.Model.Flow NetVerif.Proofs.Flow

/-- **Conservation.** For every operation history from `init n0` (any sizes, any order,
refused takes included): `avail + unsent + Σ accepted = n0 + Σ returned`; the peer's view
`n0 − Σ accepted + Σ WINDOW_UPDATE` equals `avail`; the withheld credit equals `unsent`. -/
theorem inflow_conservation (n0 : Int) (h0 : 0 ≤ n0) (h1 : n0 ≤ maxWindow) (ops : List Op) (s : Ledger)
    (h : (Ledger.start n0).run ops = some s) :
    s.f.avail + s.f.unsent + s.taken = n0 + s.added ∧
    n0 - s.taken + s.sent = s.f.avail ∧
    s.added - s.sent = s.f.unsent := by
  have i := inv_run n0 ops _ s (inv_start n0 h0 h1) h
  exact ⟨i.cons, i.view, i.held⟩

/-- **No window above 2^31-1.** Along every history the advertised window (`peak` is its
running maximum) and `avail + unsent` stay within [0, 2^31-1]; all int32 fields stay in range. -/
theorem window_never_exceeds_max (n0 : Int) (h0 : 0 ≤ n0) (h1 : n0 ≤ maxWindow) (ops : List Op) (s : Ledger)
    (h : (Ledger.start n0).run ops = some s) :
    s.peak ≤ maxWindow ∧ s.f.avail ≤ s.peak ∧ 0 ≤ s.f.avail ∧ 0 ≤ s.f.unsent ∧ s.f.avail + s.f.unsent ≤ maxWindow := by
  have i := inv_run n0 ops _ s (inv_start n0 h0 h1) h
  have w := i.wf
  unfold Inflow.WF at w
  exact ⟨i.peak.2, i.peak.1, w.1, w.2.1, w.2.2⟩

/-- The model panics exactly where `inflow.add` does: negative update, or an update that
would make `avail + unsent` exceed 2^31-1. A history aborts (`none`) iff some `add` does. -/
theorem add_panics_iff (f : Inflow) (n : Int) :
    f.add n = none ↔ n < 0 ∨ f.avail + f.unsent + n > maxWindow := add_none_iff f n

/-- Everything a successful `add` does (see `Proofs.Flow.add_spec`). -/
theorem add_exact (f f' : Inflow) (n r : Int) (h : f.add n = some (r, f')) :
    0 ≤ n ∧
    f'.avail + f'.unsent = f.avail + f.unsent + n ∧
    f'.avail + f'.unsent ≤ maxWindow ∧
    f'.avail = f.avail + r ∧
    ((r = 0 ∧ f'.unsent = f.unsent + n ∧ f'.unsent < inflowMinRefresh ∧ f'.unsent < f'.avail) ∨
     (r = f.unsent + n ∧ f'.unsent = 0 ∧ ¬ (r < inflowMinRefresh ∧ r < f.avail))) := add_spec f f' n r h

/-- After every `add`: the residue is below both batching bounds (or nothing is withheld). -/
theorem residue_after_add (f f' : Inflow) (n r : Int) (h : f.add n = some (r, f')) :
    f'.unsent = 0 ∨ (f'.unsent < inflowMinRefresh ∧ f'.unsent < f'.avail) := add_residue f f' n r h

/-- **Quiescence (mechanism level).** In a history that never hands back more than it
received, once everything received has been returned the peer's view is
`n0 − unsent` and `unsent` is a batching residue. -/
theorem quiescent_residue (n0 : Int) (h0 : 0 < n0) (h1 : n0 ≤ maxWindow) (ops : List Op) (s : Ledger)
    (hc : NoOverRefund (Ledger.start n0) ops)
    (h : (Ledger.start n0).run ops = some s) (hq : s.added = s.taken) :
    s.f.avail = n0 - s.f.unsent ∧
    (s.f.unsent = 0 ∨ (s.f.unsent < inflowMinRefresh ∧ s.f.unsent < s.f.avail)) := by
  have i := inv_run n0 ops _ s (inv_start n0 (by omega) h1) h
  have q0 : QInv (Ledger.start n0) := by
    refine ⟨by simp [Ledger.start], fun _ => Or.inl ?_⟩
    simp [Ledger.start, Inflow.new, Inflow.init]
  have q := qinv_run n0 ops _ s (inv_start n0 (by omega) h1) q0 hc h
  refine ⟨?_, q.2 hq⟩
  have := i.cons
  omega

/-! #### non-vacuity -/
example : (Ledger.start 65535).run [.take 100, .add 100] = some ⟨⟨65435, 100⟩, 100, 100, 0, 65535⟩ := by decide
example : (Ledger.start 65535).run [.take 65535, .add 65535] = some ⟨⟨65535, 0⟩, 65535, 65535, 65535, 65535⟩ := by decide
example : (Ledger.start 2147483647).run [.add 1] = none := by decide
example : NoOverRefund (Ledger.start 65535) [.take 100, .add 100] := by
  simp [NoOverRefund, Ledger.step, Ledger.start, Inflow.new, Inflow.init, Inflow.take, Inflow.add, maxWindow, inflowMinRefresh]

end NetVerif.Proofs.C10
