import NetVerif.Model.DavProps
import NetVerif.Gen.C47
/-!
C47 — WebDAV dead properties round-trip through PROPPATCH and PROPFIND.
Theorems on the model of memFSNode.Patch/DeadProps and prop.go's patch/props logic.
The XML layer is tied by the HTTP-level differential run, not proved.
-/
namespace NetVerif.Proofs.C47
open NetVerif.Model.DavProps

/-! ### The map -/

theorem lookup_append (n : PName) (a b : Dead) :
    lookup n (a ++ b) = match lookup n a with | some v => some v | none => lookup n b := by
  induction a with
  | nil => simp [lookup]
  | cons e a ih =>
    obtain ⟨m, v⟩ := e
    by_cases h : m = n <;> simp [lookup, h, ih]

theorem lookup_erase_self (n : PName) (d : Dead) : lookup n (erase n d) = none := by
  induction d with
  | nil => simp [erase, lookup]
  | cons e d ih =>
    obtain ⟨m, v⟩ := e
    by_cases h : m = n <;> simp [erase, h, lookup, ih]

theorem lookup_erase_ne (n m : PName) (d : Dead) (h : m ≠ n) : lookup m (erase n d) = lookup m d := by
  induction d with
  | nil => simp [erase, lookup]
  | cons e d ih =>
    obtain ⟨k, v⟩ := e
    by_cases hk : k = n
    · subst hk
      have : ¬ k = m := fun e => h e.symm
      simp [erase, lookup, this, ih]
    · by_cases hm : k = m
      · subst hm; simp [erase, hk, lookup]
      · simp [erase, hk, lookup, hm, ih]

/-- set then find returns the stored value -/
theorem lookup_put_self (n : PName) (v : String) (d : Dead) : lookup n (put n v d) = some v := by
  simp [put, lookup_append, lookup_erase_self, lookup]

/-- setting one name leaves every other name untouched -/
theorem lookup_put_ne (n m : PName) (v : String) (d : Dead) (h : m ≠ n) :
    lookup m (put n v d) = lookup m d := by
  have : ¬ n = m := fun e => h e.symm
  simp [put, lookup_append, lookup_erase_ne n m d h, lookup, this]
  cases lookup m d <;> rfl

/-- Effect of one (remove?, name, value) on the lookup of `n`. -/
theorem lookup_applyOp (n : PName) (d : Dead) (op : POp) :
    lookup n (applyOp d op) =
      if op.2.1 = n then (if op.1 then none else some op.2.2) else lookup n d := by
  obtain ⟨rm, m, v⟩ := op
  by_cases h : m = n
  · subst h
    cases rm <;> simp [applyOp, lookup_erase_self, lookup_put_self]
  · have h' : n ≠ m := fun e => h e.symm
    cases rm <;> simp [applyOp, h, lookup_erase_ne m n d h', lookup_put_ne m n v d h']

/-- What the sequence of patch properties leaves for `n`: decided by the LAST property naming `n`. -/
def lastWrite (n : PName) : List POp → Option (Option String)
  | [] => none
  | op :: ops =>
    match lastWrite n ops with
    | some r => some r
    | none => if op.2.1 = n then some (if op.1 then none else some op.2.2) else none

/-- **General history theorem**: after any sequence of set/remove properties (any number of
PROPPATCH requests, any grouping), the value found for `n` is the one written by the last property
naming `n` (absent if that was a remove), or the previous value if `n` was never named. -/
theorem lookup_foldl_applyOp (n : PName) (ops : List POp) (d : Dead) :
    lookup n (ops.foldl applyOp d) =
      match lastWrite n ops with
      | some r => r
      | none => lookup n d := by
  induction ops generalizing d with
  | nil => simp [lastWrite]
  | cons op ops ih =>
    simp only [List.foldl_cons, ih, lastWrite]
    cases hlw : lastWrite n ops with
    | some r => simp
    | none =>
      simp only [lookup_applyOp]
      by_cases h : op.2.1 = n <;> simp [h]

/-! ### PROPPATCH / PROPFIND decision logic -/

theorem flatten_single (rm : Bool) (n : PName) (v : String) :
    flatten [{ remove := rm, props := [(n, v)] }] = [(rm, n, v)] := by
  simp [flatten]

/-- **Set then find**: a PROPPATCH setting a non-protected property succeeds with a single 200
propstat, and the map then holds exactly that value for the name. -/
theorem patch_set_then_lookup (live : List LiveRow) (d : Dead) (n : PName) (v : String)
    (hn : isLive live n = false) :
    patch live d [{ remove := false, props := [(n, v)] }] = ([(200, [n])], put n v d) ∧
    lookup n (put n v d) = some v := by
  refine ⟨?_, lookup_put_self n v d⟩
  simp [patch, flatten_single, hn, patchNode, applyOp]

/-- … and a subsequent PROPFIND of that name reports it under 200 with the stored value. -/
theorem props_after_set (live : List LiveRow) (d : Dead) (isDir : Bool) (n : PName) (v : String) :
    props live (put n v d) isDir [n] = [(200, [(n, some v)])] := by
  simp [props, lookup_put_self, makePropstats]

/-- **Remove**: a PROPPATCH remove of a non-protected name succeeds and the property is gone;
PROPFIND then reports 404 for it. -/
theorem patch_remove_then_props (live : List LiveRow) (d : Dead) (isDir : Bool) (n : PName) (v : String)
    (hn : isLive live n = false) :
    patch live d [{ remove := true, props := [(n, v)] }] = ([(200, [n])], erase n d) ∧
    props live (erase n d) isDir [n] = [(404, [(n, none)])] := by
  have hf : liveFindable live isDir n = false := by
    unfold isLive at hn
    unfold liveFindable
    simp only [List.any_eq_false] at hn ⊢
    intro r hr
    have := hn r hr
    simp at this ⊢
    intro a b
    exact absurd b (this a)
  constructor
  · simp [patch, flatten_single, hn, patchNode, applyOp]
  · simp [props, lookup_erase_self, hf, makePropstats]

/-- **Protected (live) names are refused**: if any property of the request names a live property,
nothing is modified, the live names are reported 403 and no propstat says 200. -/
theorem patch_live_refused (live : List LiveRow) (d : Dead) (ps : List Patch)
    (h : ((flatten ps).map (fun o => o.2.1)).any (isLive live) = true) :
    (patch live d ps).2 = d ∧ ∀ s ∈ (patch live d ps).1, s.1 ≠ 200 := by
  simp only [patch, h, ↓reduceIte, true_and]
  intro s hs
  have hne : ((flatten ps).map (fun o => o.2.1)).filter (isLive live) ≠ [] := by
    intro he
    rw [List.any_eq_true] at h
    obtain ⟨x, hx, hl⟩ := h
    have : x ∈ ((flatten ps).map (fun o => o.2.1)).filter (isLive live) := by
      exact List.mem_filter.mpr ⟨hx, hl⟩
    rw [he] at this
    simp at this
  unfold makePropstats at hs
  simp only at hs
  cases hf : (List.filter (isLive live) (List.map (fun o => o.2.1) (flatten ps))) with
  | nil => exact absurd hf hne
  | cons a l =>
    rw [hf] at hs
    by_cases hy : (List.filter (fun n => !isLive live n) (List.map (fun o => o.2.1) (flatten ps))).isEmpty
    · simp [hy] at hs; rw [hs]; simp
    · simp [hy] at hs; rcases hs with rfl | rfl <;> simp

/-- PROPPATCH without protected names applies the whole sequence; combined with
`lookup_foldl_applyOp` this gives the value of every name after any request. -/
theorem patch_applies (live : List LiveRow) (d : Dead) (ps : List Patch)
    (h : ((flatten ps).map (fun o => o.2.1)).any (isLive live) = false) :
    patch live d ps = ([(200, (flatten ps).map (fun o => o.2.1))], (flatten ps).foldl applyOp d) := by
  simp [patch, h, patchNode]

/-- A name that is not requested to change keeps its value across any PROPPATCH. -/
theorem patch_frame (live : List LiveRow) (d : Dead) (ps : List Patch) (n : PName)
    (hn : ∀ o ∈ flatten ps, o.2.1 ≠ n) : lookup n (patch live d ps).2 = lookup n d := by
  unfold patch
  simp only
  split
  · rfl
  · simp only [patchNode, lookup_foldl_applyOp]
    have : lastWrite n (flatten ps) = none := by
      generalize flatten ps = ops at hn
      induction ops with
      | nil => rfl
      | cons o ops ih =>
        have h1 := hn o (by simp)
        have h2 := ih (fun o' ho' => hn o' (by simp [ho']))
        simp [lastWrite, h2, h1]
    rw [this]

/-! ### Tie to the source: the regenerated whitelist is the RFC 4918 §15 list the proofs are about -/

theorem gen_liveProps_names :
    Gen.C47.liveProps.map (fun r => (r.1, r.2.1)) =
      [("DAV:", "creationdate"), ("DAV:", "displayname"), ("DAV:", "getcontentlanguage"),
       ("DAV:", "getcontentlength"), ("DAV:", "getcontenttype"), ("DAV:", "getetag"),
       ("DAV:", "getlastmodified"), ("DAV:", "lockdiscovery"), ("DAV:", "resourcetype"),
       ("DAV:", "supportedlock")] ∧ Gen.C47.statusFailedDependency = 424 := by decide

/-- every live row is in the `DAV:` namespace, so no property of another namespace is ever refused -/
theorem gen_live_only_dav (n : PName) (h : n.1 ≠ "DAV:") : isLive Gen.C47.liveProps n = false := by
  unfold isLive
  simp only [List.any_eq_false]
  intro r hr
  have : r.1 = "DAV:" := by
    simp [Gen.C47.liveProps] at hr
    rcases hr with rfl | rfl | rfl | rfl | rfl | rfl | rfl | rfl | rfl | rfl <;> rfl
  simp [this]
  intro e
  exact absurd e.symm h

/-! ### Non-vacuity -/
example : isLive Gen.C47.liveProps ("urn:x", "author") = false := by decide
example : isLive Gen.C47.liveProps ("DAV:", "getetag") = true := by decide
example : (patch Gen.C47.liveProps [] [{ remove := false, props := [(("urn:x", "a"), "t61")] },
    { remove := true, props := [(("urn:x", "b"), "-")] }]).2 = [(("urn:x", "a"), "t61")] := by decide

end NetVerif.Proofs.C47
