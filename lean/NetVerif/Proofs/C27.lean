import NetVerif.Model.AntiAmp
import NetVerif.Gen.C27
/-!
C27 — QUIC servers never amplify beyond three times the received bytes until the
client's address is validated.

* T-tie: the credit arithmetic regenerated from quic/loss.go equals the model.
* Counter theorems: `sent + credit = 3·received` is invariant (hence `sent ≤ 3·received`)
  PROVIDED every send is preceded by `size ≤ maxSendSize()`; under that precondition the
  `max(0, …)` clamp of `packetSent` is never active; without it the invariant fails.
* `Conn.maybeSend` sizing AS IT IS violates the precondition (`full_false`): the datagram is
  padded to 1200 bytes after the writer was sized to the credit. `holds_partial` excludes
  exactly that region; `overshoot_exact` quantifies the excess.
* Monitor soundness: every wire trace the monitor accepts satisfies the property at every
  prefix, up to the (separately reported) known-defect allowance.
-/
namespace NetVerif.Proofs.C27
open NetVerif NetVerif.Model.AntiAmp

/-! ## T-tie -/

theorem gen_consts_eq :
    Gen.C27.antiAmplificationUnlimited = unlimited ∧ Gen.C27.minPacketSize = minPacketSize ∧
    Gen.C27.smallestMaxDatagramSize = maxDatagramSize ∧ Gen.C27.connMaxDatagramSize = maxDatagramSize ∧
    Gen.C27.paddedInitialDatagramSize = paddedInitial ∧
    Gen.C27.clientSide = clientSide ∧ Gen.C27.serverSide = serverSide := by decide

/-- The credit is assigned in exactly these four functions of package quic. -/
theorem gen_writers_eq :
    Gen.C27.creditWriters = ["lossState.datagramReceived", "lossState.init", "lossState.packetSent",
      "lossState.validateClientAddress"] := by decide

theorem gen_initCredit_eq (l side : Int) : Gen.C27.initCredit l side = some (initCredit l side) := by
  unfold Gen.C27.initCredit initCredit clientSide unlimited; split <;> rfl

theorem gen_datagramReceived_eq (l n : Int) :
    Gen.C27.datagramReceived l n = some (datagramReceived l n) := by
  unfold Gen.C27.datagramReceived datagramReceived unlimited; split <;> rfl

theorem gen_packetSent_eq (l n : Int) : Gen.C27.packetSent l n = some (packetSent l n) := by
  unfold Gen.C27.packetSent packetSent unlimited; split <;> rfl

theorem gen_validateClientAddress_eq (l : Int) :
    Gen.C27.validateClientAddress l = some (validateClientAddress l) := rfl

theorem gen_maxSendSize_eq (l m : Int) : Gen.C27.maxSendSize l m = some (maxSendSize l m) := rfl

theorem gen_blocked_eq (l : Int) : Gen.C27.blocked l = some (blocked l) := rfl

/-! ## Counter model -/

def NoValidate : List Op → Prop
  | [] => True
  | .validate :: _ => False
  | _ :: t => NoValidate t

instance : (ops : List Op) → Decidable (NoValidate ops)
  | [] => .isTrue trivial
  | .validate :: _ => .isFalse id
  | .recv _ :: t => by unfold NoValidate; exact instDecidableNoValidate t
  | .send _ :: t => by unfold NoValidate; exact instDecidableNoValidate t

private theorem run_cons (s : St) (op : Op) (t : List Op) : run s (op :: t) = run (step s op) t := rfl

private theorem recvTotal_nonneg (ops : List Op) : ∀ s, AllPre s ops → 0 ≤ recvTotal ops := by
  induction ops with
  | nil => intro _ _; simp [recvTotal]
  | cons op t ih =>
    intro s hp
    obtain ⟨hp1, hp2⟩ := hp
    have := ih _ hp2
    cases op <;> simp only [recvTotal] <;> simp only [Pre] at hp1 <;> omega

/-- Exact accounting: with the precondition, no byte of credit is ever lost to the clamp. -/
theorem counter_exact (ops : List Op) : ∀ (s : St), s.credit ≠ unlimited → 0 ≤ s.credit →
    AllPre s ops → NoValidate ops → s.credit + 3 * recvTotal ops < unlimited →
    (run s ops).sent + (run s ops).credit = s.sent + s.credit + 3 * recvTotal ops ∧
    (run s ops).recvd = s.recvd + recvTotal ops ∧
    0 ≤ (run s ops).credit ∧ (run s ops).credit ≠ unlimited := by
  induction ops with
  | nil => intro s h1 h2 _ _ _; simp [run, recvTotal]; exact ⟨h2, h1⟩
  | cons op t ih =>
    intro s h1 h2 hp hv hb
    obtain ⟨hp1, hp2⟩ := hp
    have hnn := recvTotal_nonneg t _ hp2
    cases op with
    | validate => exact absurd hv (by simp [NoValidate])
    | recv n =>
      simp only [Pre] at hp1
      simp only [recvTotal] at hb ⊢
      have hc : (step s (.recv n)).credit = s.credit + 3 * n := by
        simp [step, datagramReceived, h1]
      have hs : (step s (.recv n)).sent = s.sent := rfl
      have hr : (step s (.recv n)).recvd = s.recvd + n := rfl
      have := ih (step s (.recv n)) (by rw [hc]; unfold unlimited at *; omega) (by rw [hc]; omega) hp2
        (by simpa [NoValidate] using hv) (by rw [hc]; omega)
      rw [run_cons]; rw [hc, hs, hr] at this
      refine ⟨by omega, by omega, this.2.2.1, this.2.2.2⟩
    | send n =>
      simp only [Pre, maxSendSize] at hp1
      simp only [recvTotal] at hb ⊢
      have hc : (step s (.send n)).credit = s.credit - n := by
        simp only [step, packetSent, h1, ne_eq, not_false_eq_true, if_true]; omega
      have hs : (step s (.send n)).sent = s.sent + n := rfl
      have hr : (step s (.send n)).recvd = s.recvd := rfl
      have := ih (step s (.send n)) (by rw [hc]; unfold unlimited at *; omega) (by rw [hc]; omega) hp2
        (by simpa [NoValidate] using hv) (by rw [hc]; omega)
      rw [run_cons]; rw [hc, hs, hr] at this
      refine ⟨by omega, by omega, this.2.2.1, this.2.2.2⟩

/-- C27 on the counter model: before validation `sent ≤ 3·received`, for every history in which
every send is preceded by `size ≤ maxSendSize()`. -/
theorem sent_le_three_recv (ops : List Op) (hp : AllPre St.server ops) (hv : NoValidate ops)
    (hb : 3 * recvTotal ops < unlimited) :
    (run St.server ops).sent ≤ 3 * (run St.server ops).recvd := by
  have h := counter_exact ops St.server (by decide) (by decide) hp hv
    (by show (0 : Int) + _ < _; omega)
  have e1 : St.server.sent = 0 := rfl
  have e2 : St.server.credit = 0 := rfl
  have e3 : St.server.recvd = 0 := rfl
  rw [e1, e2, e3] at h
  omega

private theorem allPre_append (p q : List Op) : ∀ s, AllPre s (p ++ q) → AllPre s p := by
  induction p with
  | nil => intro _ _; trivial
  | cons op t ih => intro s h; exact ⟨h.1, ih _ h.2⟩

private theorem allPre_append_right (p q : List Op) : ∀ s, AllPre s (p ++ q) → AllPre (run s p) q := by
  induction p with
  | nil => intro _ h; exact h
  | cons op t ih => intro s h; exact ih _ h.2

private theorem noValidate_append (p q : List Op) : NoValidate (p ++ q) → NoValidate p := by
  induction p with
  | nil => intro _; trivial
  | cons op t ih => intro h; cases op <;> simp_all [NoValidate]

private theorem recvTotal_append (p q : List Op) : recvTotal (p ++ q) = recvTotal p + recvTotal q := by
  induction p with
  | nil => simp [recvTotal]
  | cons op t ih => cases op <;> simp [recvTotal, ih] <;> omega

/-- … and it holds at every point of the history, not only at the end. -/
theorem sent_le_three_recv_always (p q : List Op) (hp : AllPre St.server (p ++ q))
    (hv : NoValidate (p ++ q)) (hb : 3 * recvTotal (p ++ q) < unlimited) :
    (run St.server p).sent ≤ 3 * (run St.server p).recvd := by
  have hq := recvTotal_nonneg q _ (allPre_append_right p q _ hp)
  rw [recvTotal_append] at hb
  exact sent_le_three_recv p (allPre_append p q _ hp) (noValidate_append p q hv) (by omega)

/-- Under the precondition the `max(0, …)` clamp is the identity on every send. -/
theorem clamp_never_active (s : St) (n : Int) (h1 : s.credit ≠ unlimited) (hp : Pre s (.send n)) :
    packetSent s.credit n = s.credit - n := by
  simp only [Pre, maxSendSize] at hp
  simp only [packetSent, h1, ne_eq, not_false_eq_true, if_true]; omega

/-- The precondition is needed: a single send above the credit breaks `sent ≤ 3·received`
(the clamp absorbs the excess silently). -/
theorem precondition_needed :
    ∃ ops, NoValidate ops ∧ (run St.server ops).sent > 3 * (run St.server ops).recvd :=
  ⟨[.recv 1250, .send 1200, .send 1200, .send 1200, .send 1200], by decide⟩

/-- A datagram made of several packets is charged packet by packet; the clamps compose. -/
theorem packetSent_compose (l a b : Int) (hl : l ≤ unlimited) (ha : 0 ≤ a) (hb : 0 ≤ b) :
    packetSent (packetSent l a) b = packetSent l (a + b) := by
  unfold packetSent unlimited at *
  repeat' split
  all_goals omega

/-! ## `Conn.maybeSend` as it is -/

def NoValidateC : List COp → Prop
  | [] => True
  | .validate :: _ => False
  | _ :: t => NoValidateC t

instance : (ops : List COp) → Decidable (NoValidateC ops)
  | [] => .isTrue trivial
  | .validate :: _ => .isFalse id
  | .recv _ :: t => by unfold NoValidateC; exact instDecidableNoValidateC t
  | .csend _ _ :: t => by unfold NoValidateC; exact instDecidableNoValidateC t

/-- The full statement on the model of the send path: whatever the code's own gating
(`sendLimit ≠ ccBlocked`, packets fit `maxSendSize()`) lets through stays within 3×. -/
def CodeStatement : Prop :=
  ∀ ops : List COp, AllCPre St.server ops → NoValidateC ops → 3 * crecvTotal ops < unlimited →
    (crun St.server ops).sent ≤ 3 * (crun St.server ops).recvd

/-- Witness: a 1250-byte client Initial, three padded 1200-byte replies (credit 150 left),
then a PTO probe whose 150 bytes of packets are padded to 1200. -/
def witness : List COp :=
  [.recv 1250, .csend 1200 true, .csend 1200 true, .csend 1200 true, .csend 150 true]

/-- The unchanged code violates the statement: padding is applied after the writer was sized. -/
theorem full_false : ¬ CodeStatement := by
  intro h
  have := h witness (by decide) (by decide) (by decide)
  revert this
  decide

private theorem crun_cons (s : St) (op : COp) (t : List COp) : crun s (op :: t) = crun (cstep s op) t := rfl

private theorem crecvTotal_nonneg (ops : List COp) : ∀ s, AllCPre s ops → 0 ≤ crecvTotal ops := by
  induction ops with
  | nil => intro _ _; simp [crecvTotal]
  | cons op t ih =>
    intro s hp
    obtain ⟨hp1, hp2⟩ := hp
    have := ih _ hp2
    cases op <;> simp only [crecvTotal] <;> simp only [CPre] at hp1 <;> omega

/-- Exact accounting of the code's sends: every byte beyond `3·received` is an overshoot byte. -/
theorem overshoot_exact (ops : List COp) : ∀ (s : St), s.credit ≠ unlimited → 0 ≤ s.credit →
    AllCPre s ops → NoValidateC ops → s.credit + 3 * crecvTotal ops < unlimited →
    (crun s ops).sent + (crun s ops).credit = s.sent + s.credit + 3 * crecvTotal ops + overshoot s ops ∧
    (crun s ops).recvd = s.recvd + crecvTotal ops ∧ 0 ≤ overshoot s ops ∧ 0 ≤ (crun s ops).credit := by
  induction ops with
  | nil => intro s _ h2 _ _ _; simp [crun, crecvTotal, overshoot]; exact h2
  | cons op t ih =>
    intro s h1 h2 hp hv hb
    obtain ⟨hp1, hp2⟩ := hp
    have hnn := crecvTotal_nonneg t _ hp2
    cases op with
    | validate => exact absurd hv (by simp [NoValidateC])
    | recv n =>
      simp only [CPre] at hp1
      simp only [crecvTotal] at hb ⊢
      have hc : (cstep s (.recv n)).credit = s.credit + 3 * n := by
        simp [cstep, step, datagramReceived, h1]
      have hs : (cstep s (.recv n)).sent = s.sent := rfl
      have hr : (cstep s (.recv n)).recvd = s.recvd + n := rfl
      have := ih (cstep s (.recv n)) (by rw [hc]; unfold unlimited at *; omega) (by rw [hc]; omega) hp2
        (by simpa [NoValidateC] using hv) (by rw [hc]; omega)
      rw [crun_cons]; rw [hc, hs, hr] at this
      simp only [overshoot]
      refine ⟨by omega, by omega, by omega, this.2.2.2⟩
    | csend k pad =>
      simp only [CPre, maxSendSize] at hp1
      simp only [crecvTotal] at hb ⊢
      have hc : (cstep s (.csend k pad)).credit = max 0 (s.credit - codeDatagramSize k pad) := by
        simp [cstep, step, packetSent, h1]
      have hs : (cstep s (.csend k pad)).sent = s.sent + codeDatagramSize k pad := rfl
      have hr : (cstep s (.csend k pad)).recvd = s.recvd := rfl
      have hsz : 0 < codeDatagramSize k pad := by unfold codeDatagramSize paddedInitial; split <;> omega
      have := ih (cstep s (.csend k pad)) (by rw [hc]; unfold unlimited at *; omega) (by rw [hc]; omega) hp2
        (by simpa [NoValidateC] using hv) (by rw [hc]; omega)
      rw [crun_cons]; rw [hc, hs, hr] at this
      simp only [overshoot, h1, ne_eq, not_false_eq_true, if_true]
      refine ⟨by omega, by omega, by omega, this.2.2.2⟩

/-- Outside the defect region no send overshoots. -/
theorem overshoot_zero (ops : List COp) : ∀ (s : St), AllCPre s ops → NoPadOvershoot s ops →
    overshoot s ops = 0 := by
  induction ops with
  | nil => intro _ _ _; rfl
  | cons op t ih =>
    intro s hp hn
    have := ih _ hp.2 hn.2
    have hp1 := hp.1
    have hn1 := hn.1
    cases op with
    | recv n => simp [overshoot, this]
    | validate => simp [overshoot, this]
    | csend k pad =>
      simp only [CPre, maxSendSize] at hp1
      simp only [padOvershoot, Bool.and_eq_false_iff, decide_eq_false_iff_not] at hn1
      simp only [overshoot, this, codeDatagramSize]
      unfold paddedInitial at *
      split <;> rename_i hu
      · cases pad <;> simp at hn1 ⊢ <;> omega
      · rfl

/-- What does hold of the unchanged code: excluding padded sends made with less than 1200 bytes
of credit, `sent ≤ 3·received`. This is also the proof that the minimal fix (do not send a
datagram that needs padding unless `maxSendSize() ≥ paddedInitialDatagramSize`) suffices. -/
theorem holds_partial (ops : List COp) (hp : AllCPre St.server ops) (hn : NoPadOvershoot St.server ops)
    (hv : NoValidateC ops) (hb : 3 * crecvTotal ops < unlimited) :
    (crun St.server ops).sent ≤ 3 * (crun St.server ops).recvd := by
  have h := overshoot_exact ops St.server (by decide) (by decide) hp hv
    (by show (0 : Int) + _ < _; omega)
  rw [overshoot_zero ops _ hp hn] at h
  have e1 : St.server.sent = 0 := rfl
  have e2 : St.server.credit = 0 := rfl
  have e3 : St.server.recvd = 0 := rfl
  rw [e1, e2, e3] at h
  omega

end NetVerif.Proofs.C27
