import NetVerif.Model.AntiAmp
import NetVerif.Gen.C27
/-!
C27 — QUIC servers never amplify beyond three times the received bytes until the
client's address is validated.

* T-tie: the credit arithmetic regenerated from quic/loss.go equals the model.
* Counter theorems: `sent + credit = 3·received` is invariant (hence `sent ≤ 3·received`)
  PROVIDED every send is preceded by `size ≤ maxSendSize()`; under that precondition the
  `max(0, …)` clamp of `packetSent` is never active; without it the invariant fails.
* `Conn.maybeSend` sizing satisfies the precondition (`holds`): since the repair of
  `padded-initial-exceeds-credit` a datagram that needs padding to 1200 bytes is only built
  when `maxSendSize()` covers it. The pre-repair witness is kept as an `example`: the repaired
  code cannot perform its last send.
* Monitor soundness: every wire trace the monitor accepts satisfies the property at every
  prefix (no allowance).
-/
namespace NetVerif.Proofs.C27
open NetVerif NetVerif.Model.AntiAmp

/-! ## T-tie -/

theorem gen_consts_eq :
    Gen.C27.antiAmplificationUnlimited = unlimited ∧ Gen.C27.minPacketSize = minPacketSize ∧
    Gen.C27.smallestMaxDatagramSize = maxDatagramSize ∧ Gen.C27.connMaxDatagramSize = maxDatagramSize ∧
    Gen.C27.paddedInitialDatagramSize = paddedInitial ∧
    Gen.C27.clientSide = clientSide ∧ Gen.C27.serverSide = serverSide := by decide

/-- The credit is assigned in exactly these four functions of package quic. -/
theorem gen_writers_eq :
    Gen.C27.creditWriters = ["lossState.datagramReceived", "lossState.init", "lossState.packetSent",
      "lossState.validateClientAddress"] := by decide

theorem gen_initCredit_eq (l side : Int) : Gen.C27.initCredit l side = some (initCredit l side) := by
  unfold Gen.C27.initCredit initCredit clientSide unlimited; split <;> rfl

theorem gen_datagramReceived_eq (l n : Int) :
    Gen.C27.datagramReceived l n = some (datagramReceived l n) := by
  unfold Gen.C27.datagramReceived datagramReceived unlimited; split <;> rfl

theorem gen_packetSent_eq (l n : Int) : Gen.C27.packetSent l n = some (packetSent l n) := by
  unfold Gen.C27.packetSent packetSent unlimited; split <;> rfl

theorem gen_validateClientAddress_eq (l : Int) :
    Gen.C27.validateClientAddress l = some (validateClientAddress l) := rfl

theorem gen_maxSendSize_eq (l m : Int) : Gen.C27.maxSendSize l m = some (maxSendSize l m) := rfl

theorem gen_blocked_eq (l : Int) : Gen.C27.blocked l = some (blocked l) := rfl

/-! ## Counter model -/

def NoValidate : List Op → Prop
  | [] => True
  | .validate :: _ => False
  | _ :: t => NoValidate t

instance : (ops : List Op) → Decidable (NoValidate ops)
  | [] => .isTrue trivial
  | .validate :: _ => .isFalse id
  | .recv _ :: t => by unfold NoValidate; exact instDecidableNoValidate t
  | .send _ :: t => by unfold NoValidate; exact instDecidableNoValidate t

private theorem run_cons (s : St) (op : Op) (t : List Op) : run s (op :: t) = run (step s op) t := rfl

private theorem recvTotal_nonneg (ops : List Op) : ∀ s, AllPre s ops → 0 ≤ recvTotal ops := by
  induction ops with
  | nil => intro _ _; simp [recvTotal]
  | cons op t ih =>
    intro s hp
    obtain ⟨hp1, hp2⟩ := hp
    have := ih _ hp2
    cases op <;> simp only [recvTotal] <;> simp only [Pre] at hp1 <;> omega

/-- Exact accounting: with the precondition, no byte of credit is ever lost to the clamp. -/
theorem counter_exact (ops : List Op) : ∀ (s : St), s.credit ≠ unlimited → 0 ≤ s.credit →
    AllPre s ops → NoValidate ops → s.credit + 3 * recvTotal ops < unlimited →
    (run s ops).sent + (run s ops).credit = s.sent + s.credit + 3 * recvTotal ops ∧
    (run s ops).recvd = s.recvd + recvTotal ops ∧
    0 ≤ (run s ops).credit ∧ (run s ops).credit ≠ unlimited := by
  induction ops with
  | nil => intro s h1 h2 _ _ _; simp [run, recvTotal]; exact ⟨h2, h1⟩
  | cons op t ih =>
    intro s h1 h2 hp hv hb
    obtain ⟨hp1, hp2⟩ := hp
    have hnn := recvTotal_nonneg t _ hp2
    cases op with
    | validate => exact absurd hv (by simp [NoValidate])
    | recv n =>
      simp only [Pre] at hp1
      simp only [recvTotal] at hb ⊢
      have hc : (step s (.recv n)).credit = s.credit + 3 * n := by
        simp [step, datagramReceived, h1]
      have hs : (step s (.recv n)).sent = s.sent := rfl
      have hr : (step s (.recv n)).recvd = s.recvd + n := rfl
      have := ih (step s (.recv n)) (by rw [hc]; unfold unlimited at *; omega) (by rw [hc]; omega) hp2
        (by simpa [NoValidate] using hv) (by rw [hc]; omega)
      rw [run_cons]; rw [hc, hs, hr] at this
      refine ⟨by omega, by omega, this.2.2.1, this.2.2.2⟩
    | send n =>
      simp only [Pre, maxSendSize] at hp1
      simp only [recvTotal] at hb ⊢
      have hc : (step s (.send n)).credit = s.credit - n := by
        simp only [step, packetSent, h1, ne_eq, not_false_eq_true, if_true]; omega
      have hs : (step s (.send n)).sent = s.sent + n := rfl
      have hr : (step s (.send n)).recvd = s.recvd := rfl
      have := ih (step s (.send n)) (by rw [hc]; unfold unlimited at *; omega) (by rw [hc]; omega) hp2
        (by simpa [NoValidate] using hv) (by rw [hc]; omega)
      rw [run_cons]; rw [hc, hs, hr] at this
      refine ⟨by omega, by omega, this.2.2.1, this.2.2.2⟩

/-- C27 on the counter model: before validation `sent ≤ 3·received`, for every history in which
every send is preceded by `size ≤ maxSendSize()`. -/
theorem sent_le_three_recv (ops : List Op) (hp : AllPre St.server ops) (hv : NoValidate ops)
    (hb : 3 * recvTotal ops < unlimited) :
    (run St.server ops).sent ≤ 3 * (run St.server ops).recvd := by
  have h := counter_exact ops St.server (by decide) (by decide) hp hv
    (by show (0 : Int) + _ < _; omega)
  have e1 : St.server.sent = 0 := rfl
  have e2 : St.server.credit = 0 := rfl
  have e3 : St.server.recvd = 0 := rfl
  rw [e1, e2, e3] at h
  omega

private theorem allPre_append (p q : List Op) : ∀ s, AllPre s (p ++ q) → AllPre s p := by
  induction p with
  | nil => intro _ _; trivial
  | cons op t ih => intro s h; exact ⟨h.1, ih _ h.2⟩

private theorem allPre_append_right (p q : List Op) : ∀ s, AllPre s (p ++ q) → AllPre (run s p) q := by
  induction p with
  | nil => intro _ h; exact h
  | cons op t ih => intro s h; exact ih _ h.2

private theorem noValidate_append (p q : List Op) : NoValidate (p ++ q) → NoValidate p := by
  induction p with
  | nil => intro _; trivial
  | cons op t ih => intro h; cases op <;> simp_all [NoValidate]

private theorem recvTotal_append (p q : List Op) : recvTotal (p ++ q) = recvTotal p + recvTotal q := by
  induction p with
  | nil => simp [recvTotal]
  | cons op t ih => cases op <;> simp [recvTotal, ih] <;> omega

/-- … and it holds at every point of the history, not only at the end. -/
theorem sent_le_three_recv_always (p q : List Op) (hp : AllPre St.server (p ++ q))
    (hv : NoValidate (p ++ q)) (hb : 3 * recvTotal (p ++ q) < unlimited) :
    (run St.server p).sent ≤ 3 * (run St.server p).recvd := by
  have hq := recvTotal_nonneg q _ (allPre_append_right p q _ hp)
  rw [recvTotal_append] at hb
  exact sent_le_three_recv p (allPre_append p q _ hp) (noValidate_append p q hv) (by omega)

/-- Under the precondition the `max(0, …)` clamp is the identity on every send. -/
theorem clamp_never_active (s : St) (n : Int) (h1 : s.credit ≠ unlimited) (hp : Pre s (.send n)) :
    packetSent s.credit n = s.credit - n := by
  simp only [Pre, maxSendSize] at hp
  simp only [packetSent, h1, ne_eq, not_false_eq_true, if_true]; omega

/-- The precondition is needed: a single send above the credit breaks `sent ≤ 3·received`
(the clamp absorbs the excess silently). -/
theorem precondition_needed :
    ∃ ops, NoValidate ops ∧ (run St.server ops).sent > 3 * (run St.server ops).recvd :=
  ⟨[.recv 1250, .send 1200, .send 1200, .send 1200, .send 1200], by decide⟩

/-- A datagram made of several packets is charged packet by packet; the clamps compose. -/
theorem packetSent_compose (l a b : Int) (hl : l ≤ unlimited) (ha : 0 ≤ a) (hb : 0 ≤ b) :
    packetSent (packetSent l a) b = packetSent l (a + b) := by
  unfold packetSent unlimited at *
  repeat' split
  all_goals omega

/-! ## `Conn.maybeSend` as it is -/

def NoValidateC : List COp → Prop
  | [] => True
  | .validate :: _ => False
  | _ :: t => NoValidateC t

instance : (ops : List COp) → Decidable (NoValidateC ops)
  | [] => .isTrue trivial
  | .validate :: _ => .isFalse id
  | .recv _ :: t => by unfold NoValidateC; exact instDecidableNoValidateC t
  | .csend _ _ :: t => by unfold NoValidateC; exact instDecidableNoValidateC t

/-- The full statement on the model of the send path: whatever the code's own gating
(`sendLimit ≠ ccBlocked`, packets fit `maxSendSize()`) lets through stays within 3×. -/
def CodeStatement : Prop :=
  ∀ ops : List COp, AllCPre St.server ops → NoValidateC ops → 3 * crecvTotal ops < unlimited →
    (crun St.server ops).sent ≤ 3 * (crun St.server ops).recvd

/-- The pre-repair witness: a 1250-byte client Initial, three padded 1200-byte replies (credit 150
left), then a PTO probe whose 150 bytes of packets are padded to 1200. -/
def witness : List COp :=
  [.recv 1250, .csend 1200 true, .csend 1200 true, .csend 1200 true, .csend 150 true]

/-- A send of the code model is a send of the counter model of the size on the wire. -/
def toOp : COp → Op
  | .recv n => .recv n
  | .csend k pad => .send (codeDatagramSize k pad)
  | .validate => .validate

private theorem cstep_eq (s : St) (op : COp) : cstep s op = step s (toOp op) := by cases op <;> rfl

private theorem crun_eq (ops : List COp) : ∀ s, crun s ops = run s (ops.map toOp) := by
  induction ops with
  | nil => intro _; rfl
  | cons op t ih => intro s; simp only [crun, run, List.foldl, List.map] at *; rw [cstep_eq]; exact ih _

/-- The code's own gating implies the precondition of the counter theorem. -/
theorem cpre_pre (s : St) (op : COp) (h : CPre s op) : Pre s (toOp op) := by
  cases op with
  | recv n => exact h
  | validate => trivial
  | csend k pad =>
    simp only [CPre] at h
    obtain ⟨_, hk, hm, hp⟩ := h
    simp only [toOp, Pre, codeDatagramSize]
    unfold paddedInitial at *
    cases pad <;> simp at hp ⊢ <;> omega

private theorem allCPre_allPre (ops : List COp) : ∀ s, AllCPre s ops → AllPre s (ops.map toOp) := by
  induction ops with
  | nil => intro _ _; trivial
  | cons op t ih => intro s h; exact ⟨cpre_pre s op h.1, by rw [← cstep_eq]; exact ih _ h.2⟩

private theorem noValidateC_map (ops : List COp) : NoValidateC ops → NoValidate (ops.map toOp) := by
  induction ops with
  | nil => intro _; trivial
  | cons op t ih => intro h; cases op <;> simp_all [NoValidateC, NoValidate, toOp]

private theorem crecvTotal_map (ops : List COp) : recvTotal (ops.map toOp) = crecvTotal ops := by
  induction ops with
  | nil => rfl
  | cons op t ih => cases op <;> simp [recvTotal, crecvTotal, toOp, ih]

/-- C27 on the model of the send path, full strength: whatever `Conn.maybeSend`'s gating lets
through before validation stays within three times the bytes received. -/
theorem holds : CodeStatement := by
  intro ops hp hv hb
  rw [crun_eq]
  exact sent_le_three_recv _ (allCPre_allPre ops _ hp) (noValidateC_map ops hv) (by rw [crecvTotal_map]; exact hb)

/-- Exact accounting of the code's sends: no byte of credit is lost to the clamp. -/
theorem code_exact (ops : List COp) (hp : AllCPre St.server ops) (hv : NoValidateC ops)
    (hb : 3 * crecvTotal ops < unlimited) :
    (crun St.server ops).sent + (crun St.server ops).credit = 3 * (crun St.server ops).recvd := by
  rw [crun_eq]
  have h := counter_exact _ St.server (by decide) (by decide) (allCPre_allPre ops _ hp) (noValidateC_map ops hv)
    (by rw [crecvTotal_map]; show (0 : Int) + _ < _; omega)
  have e1 : St.server.sent = 0 := rfl
  have e2 : St.server.credit = 0 := rfl
  have e3 : St.server.recvd = 0 := rfl
  rw [e1, e2, e3] at h
  omega

/-! ## Wire monitor soundness -/

/-- Bytes received from address `a` in a trace (specification-level sum, independent of the monitor). -/
def recvOf (a : Nat) : List Ev → Int
  | [] => 0
  | .recv b n _ _ :: t => (if b = a then n else 0) + recvOf a t
  | _ :: t => recvOf a t

/-- Bytes sent to address `a` in a trace. -/
def sentOf (a : Nat) : List Ev → Int
  | [] => 0
  | .send b n _ _ _ :: t => (if b = a then n else 0) + sentOf a t
  | _ :: t => sentOf a t

/-- Some datagram from `a` carried a genuine Handshake packet. -/
def hsOf (a : Nat) : List Ev → Bool
  | [] => false
  | .recv b _ _ h :: t => (decide (b = a) && h) || hsOf a t
  | _ :: t => hsOf a t

/-- The monitor's invariant. -/
def Inv (m : Mon) : Prop := ∀ a, m.validated a = false → m.sent a ≤ 3 * m.recvd a

theorem inv_init : Inv Mon.init := by intro a _; simp [Mon.init]

set_option linter.unusedSimpArgs false in
private theorem mstep_facts (m m' : Mon) (e : Ev) (h : mstep m e = .ok m') (a : Nat) :
    m'.sent a = m.sent a + sentOf a [e] ∧ m'.recvd a = m.recvd a + recvOf a [e] ∧
    m'.hs a = (m.hs a || hsOf a [e]) ∧
    (m'.validated a = true → m.validated a = true ∨ m'.hs a = true) ∧
    (Inv m → m'.validated a = false → m'.sent a ≤ 3 * m'.recvd a) := by
  cases e with
  | recv b n r hs =>
    simp only [mstep] at h
    split at h
    · cases h
    · rename_i hn
      cases r <;> simp only at h
      all_goals (repeat' split at h)
      all_goals (try cases h)
      all_goals (simp only [bump, setB, sentOf, recvOf, hsOf, Inv] at *; grind)
  | send b n byConn c k =>
    simp only [mstep] at h
    repeat' split at h
    all_goals (try cases h)
    all_goals (simp only [bump, setB, sentOf, recvOf, hsOf, Inv] at *; grind)
  | validated =>
    simp only [mstep] at h
    repeat' split at h
    all_goals (try cases h)
    all_goals (simp only [bump, setB, sentOf, recvOf, hsOf, Inv] at *; grind)
  | cred c =>
    simp only [mstep] at h
    repeat' split at h
    all_goals (try cases h)
    all_goals (simp only [bump, setB, sentOf, recvOf, hsOf, Inv] at *; grind)

private theorem sentOf_cons (a : Nat) (e : Ev) (t : List Ev) : sentOf a (e :: t) = sentOf a [e] + sentOf a t := by
  cases e <;> simp [sentOf]

private theorem recvOf_cons (a : Nat) (e : Ev) (t : List Ev) : recvOf a (e :: t) = recvOf a [e] + recvOf a t := by
  cases e <;> simp [recvOf]

private theorem hsOf_cons (a : Nat) (e : Ev) (t : List Ev) : hsOf a (e :: t) = (hsOf a [e] || hsOf a t) := by
  cases e <;> simp [hsOf]

/-- Validation was legitimate: the address had sent a genuine Handshake packet. -/
def Legit (m : Mon) : Prop := ∀ a, m.validated a = true → m.hs a = true

/-- Everything the monitor's state says after an accepted trace, in terms of the trace itself. -/
theorem mrun_facts (evs : List Ev) : ∀ m m', mrun m evs = .ok m' → Inv m → Legit m →
    Inv m' ∧ Legit m' ∧ ∀ a, m'.sent a = m.sent a + sentOf a evs ∧ m'.recvd a = m.recvd a + recvOf a evs ∧
      m'.hs a = (m.hs a || hsOf a evs) := by
  induction evs with
  | nil =>
    intro m m' h hi hl
    simp only [mrun] at h; cases h
    exact ⟨hi, hl, fun a => by simp [sentOf, recvOf, hsOf]⟩
  | cons e t ih =>
    intro m m' h hi hl
    simp only [mrun] at h
    split at h
    · rename_i m1 h1
      have f := mstep_facts m m1 e h1
      have hi1 : Inv m1 := fun a hv => (f a).2.2.2.2 hi hv
      have hl1 : Legit m1 := by
        intro a hv
        rcases (f a).2.2.2.1 hv with h0 | h0
        · rw [(f a).2.2.1, hl a h0]; rfl
        · exact h0
      obtain ⟨hi', hl', g⟩ := ih m1 m' h hi1 hl1
      refine ⟨hi', hl', fun a => ?_⟩
      obtain ⟨g1, g2, g4⟩ := g a
      obtain ⟨f1, f2, f4, _, _⟩ := f a
      rw [sentOf_cons, recvOf_cons, hsOf_cons]
      refine ⟨by omega, by omega, ?_⟩
      rw [g4, f4, Bool.or_assoc]
    · cases h

/-- Soundness of the monitor (V-tie): in an accepted trace, every address that has not been validated
has been sent at most three times what was received from it. -/
theorem monitor_sound (evs : List Ev) (m : Mon) (h : mrun Mon.init evs = .ok m) (a : Nat)
    (hv : m.validated a = false) : sentOf a evs ≤ 3 * recvOf a evs := by
  obtain ⟨hi, _, g⟩ := mrun_facts evs _ _ h inv_init (by intro a h; simp [Mon.init] at h)
  have := hi a hv
  obtain ⟨g1, g2, _⟩ := g a
  simp only [Mon.init] at g1 g2
  omega

/-- Validation is only accepted after a genuine Handshake packet from that address. -/
theorem validated_legit (evs : List Ev) (m : Mon) (h : mrun Mon.init evs = .ok m) (a : Nat)
    (hv : m.validated a = true) : hsOf a evs = true := by
  obtain ⟨_, hl, g⟩ := mrun_facts evs _ _ h inv_init (by intro a h; simp [Mon.init] at h)
  have := hl a hv
  rw [(g a).2.2] at this
  simpa [Mon.init] using this

/-- Acceptance is prefix-closed, so the property holds at every point of the trace. -/
theorem mrun_append (p q : List Ev) : ∀ m m', mrun m (p ++ q) = .ok m' →
    ∃ mp, mrun m p = .ok mp ∧ mrun mp q = .ok m' := by
  induction p with
  | nil => intro m m' h; exact ⟨m, rfl, h⟩
  | cons e t ih =>
    intro m m' h
    simp only [List.cons_append, mrun] at h ⊢
    split at h
    · rename_i m1 h1
      exact ih m1 m' h
    · cases h

/-- The property itself on accepted traces: if the monitor accepts a trace, then at EVERY prefix at
which address `a` is not yet validated, `Σ sent to a ≤ 3 · Σ received from a`. -/
theorem accepted_trace_property (p q : List Ev) (m : Mon) (h : mrun Mon.init (p ++ q) = .ok m) (a : Nat) :
    ∃ mp, mrun Mon.init p = .ok mp ∧ (mp.validated a = false → sentOf a p ≤ 3 * recvOf a p) := by
  obtain ⟨mp, h1, _⟩ := mrun_append p q _ _ h
  exact ⟨mp, h1, fun hv => monitor_sound p mp h1 a hv⟩

/-- The monitor's credit bookkeeping is the counter model: an accepted connection send within the
precondition leaves exactly `credit - n`. -/
theorem monitor_send_exact (m m' : Mon) (a : Nat) (n c k : Int) (h : mstep m (.send a n true c k) = .ok m')
    (hu : m.credit ≠ unlimited) (hp : n ≤ maxSendSize m.credit maxDatagramSize) :
    m'.credit = m.credit - n ∧ c = m.credit - n := by
  have hn : ¬ n < 0 := by intro hn; simp [mstep, hn] at h
  have hps : packetSent m.credit n = m.credit - n := by
    simp only [packetSent, hu, ne_eq, not_false_eq_true, if_true, maxSendSize] at *; omega
  simp only [mstep] at h
  repeat' split at h
  all_goals (try cases h)
  all_goals grind

/-! ## Non-vacuity -/

instance (s : St) (op : Op) : Decidable (Pre s op) := by cases op <;> unfold Pre <;> infer_instance
instance : (s : St) → (ops : List Op) → Decidable (AllPre s ops)
  | _, [] => .isTrue trivial
  | s, op :: rest => by
    unfold AllPre
    have := instDecidableAllPre (step s op) rest
    infer_instance
example : AllPre St.server [.recv 1250, .send 1200, .send 1200, .send 1200, .send 150] ∧
    NoValidate [.recv 1250, .send 1200, .send 1200, .send 1200, .send 150] := by decide
/-- The pre-repair witness is no longer a behaviour of the code: its last send (150 bytes of packets
padded to 1200 with 150 bytes of credit) fails the gating; the history up to there satisfies the bound. -/
example : ¬ AllCPre St.server witness := by decide
example : AllCPre St.server witness.dropLast ∧ NoValidateC witness.dropLast ∧
    (crun St.server witness.dropLast).sent ≤ 3 * (crun St.server witness.dropLast).recvd := by decide
example : AllCPre St.server [.recv 1200, .csend 1200 true, .csend 1200 true, .csend 1200 true] := by decide
/-- With 150 bytes of credit left the repaired code may still send an unpadded datagram. -/
example : AllCPre St.server [.recv 1250, .csend 1200 true, .csend 1200 true, .csend 1200 true, .csend 150 false] := by
  decide
/-- The repaired traces of corpus/C27 are accepted. -/
example : (match mrun Mon.init [.recv 0 1250 .new false, .send 0 1200 true 2550 500, .send 0 1200 true 1350 500,
    .send 0 1200 true 150 500, .send 0 140 true 10 140] with | .ok _ => "ok" | .error e => e) = "ok" := by decide
/-- The pre-repair trace of the real server is rejected: a padded datagram beyond the credit. -/
example : (match mrun Mon.init [.recv 0 1250 .new false, .send 0 1200 true 2550 500, .send 0 1200 true 1350 500,
    .send 0 1200 true 150 500, .send 0 1200 true 0 150] with | .ok _ => "ok" | .error e => e) = "send-exceeds-credit" := by
  decide
example : (match mrun Mon.init [.recv 0 1200 .new false, .send 0 1200 true 2400 700, .send 0 1201 true 1199 1201] with
    | .ok _ => "ok" | .error e => e) = "send-exceeds-credit" := by decide

end NetVerif.Proofs.C27
