import NetVerif.Model.AntiAmp
import NetVerif.Gen.C27
/-!
C27 — QUIC servers never amplify beyond three times the received bytes until the
client's address is validated.

* T-tie: the credit arithmetic regenerated from quic/loss.go equals the model.
* Counter theorems: `sent + credit = 3·received` is invariant (hence `sent ≤ 3·received`)
  PROVIDED every send is preceded by `size ≤ maxSendSize()`; under that precondition the
  `max(0, …)` clamp of `packetSent` is never active; without it the invariant fails.
* `Conn.maybeSend` sizing AS IT IS violates the precondition (`full_false`): the datagram is
  padded to 1200 bytes after the writer was sized to the credit. `holds_partial` excludes
  exactly that region; `overshoot_exact` quantifies the excess.
* Monitor soundness: every wire trace the monitor accepts satisfies the property at every
  prefix, up to the (separately reported) known-defect allowance.
-/
namespace NetVerif.Proofs.C27
open NetVerif NetVerif.Model.AntiAmp

/-! ## T-tie -/

theorem gen_consts_eq :
    Gen.C27.antiAmplificationUnlimited = unlimited ∧ Gen.C27.minPacketSize = minPacketSize ∧
    Gen.C27.smallestMaxDatagramSize = maxDatagramSize ∧ Gen.C27.connMaxDatagramSize = maxDatagramSize ∧
    Gen.C27.paddedInitialDatagramSize = paddedInitial ∧
    Gen.C27.clientSide = clientSide ∧ Gen.C27.serverSide = serverSide := by decide

/-- The credit is assigned in exactly these four functions of package quic. -/
theorem gen_writers_eq :
    Gen.C27.creditWriters = ["lossState.datagramReceived", "lossState.init", "lossState.packetSent",
      "lossState.validateClientAddress"] := by decide

theorem gen_initCredit_eq (l side : Int) : Gen.C27.initCredit l side = some (initCredit l side) := by
  unfold Gen.C27.initCredit initCredit clientSide unlimited; split <;> rfl

theorem gen_datagramReceived_eq (l n : Int) :
    Gen.C27.datagramReceived l n = some (datagramReceived l n) := by
  unfold Gen.C27.datagramReceived datagramReceived unlimited; split <;> rfl

theorem gen_packetSent_eq (l n : Int) : Gen.C27.packetSent l n = some (packetSent l n) := by
  unfold Gen.C27.packetSent packetSent unlimited; split <;> rfl

theorem gen_validateClientAddress_eq (l : Int) :
    Gen.C27.validateClientAddress l = some (validateClientAddress l) := rfl

theorem gen_maxSendSize_eq (l m : Int) : Gen.C27.maxSendSize l m = some (maxSendSize l m) := rfl

theorem gen_blocked_eq (l : Int) : Gen.C27.blocked l = some (blocked l) := rfl

/-! ## Counter model -/

def NoValidate : List Op → Prop
  | [] => True
  | .validate :: _ => False
  | _ :: t => NoValidate t

instance : (ops : List Op) → Decidable (NoValidate ops)
  | [] => .isTrue trivial
  | .validate :: _ => .isFalse id
  | .recv _ :: t => by unfold NoValidate; exact instDecidableNoValidate t
  | .send _ :: t => by unfold NoValidate; exact instDecidableNoValidate t

private theorem run_cons (s : St) (op : Op) (t : List Op) : run s (op :: t) = run (step s op) t := rfl

private theorem recvTotal_nonneg (ops : List Op) : ∀ s, AllPre s ops → 0 ≤ recvTotal ops := by
  induction ops with
  | nil => intro _ _; simp [recvTotal]
  | cons op t ih =>
    intro s hp
    obtain ⟨hp1, hp2⟩ := hp
    have := ih _ hp2
    cases op <;> simp only [recvTotal] <;> simp only [Pre] at hp1 <;> omega

/-- Exact accounting: with the precondition, no byte of credit is ever lost to the clamp. -/
theorem counter_exact (ops : List Op) : ∀ (s : St), s.credit ≠ unlimited → 0 ≤ s.credit →
    AllPre s ops → NoValidate ops → s.credit + 3 * recvTotal ops < unlimited →
    (run s ops).sent + (run s ops).credit = s.sent + s.credit + 3 * recvTotal ops ∧
    (run s ops).recvd = s.recvd + recvTotal ops ∧
    0 ≤ (run s ops).credit ∧ (run s ops).credit ≠ unlimited := by
  induction ops with
  | nil => intro s h1 h2 _ _ _; simp [run, recvTotal]; exact ⟨h2, h1⟩
  | cons op t ih =>
    intro s h1 h2 hp hv hb
    obtain ⟨hp1, hp2⟩ := hp
    have hnn := recvTotal_nonneg t _ hp2
    cases op with
    | validate => exact absurd hv (by simp [NoValidate])
    | recv n =>
      simp only [Pre] at hp1
      simp only [recvTotal] at hb ⊢
      have hc : (step s (.recv n)).credit = s.credit + 3 * n := by
        simp [step, datagramReceived, h1]
      have hs : (step s (.recv n)).sent = s.sent := rfl
      have hr : (step s (.recv n)).recvd = s.recvd + n := rfl
      have := ih (step s (.recv n)) (by rw [hc]; unfold unlimited at *; omega) (by rw [hc]; omega) hp2
        (by simpa [NoValidate] using hv) (by rw [hc]; omega)
      rw [run_cons]; rw [hc, hs, hr] at this
      refine ⟨by omega, by omega, this.2.2.1, this.2.2.2⟩
    | send n =>
      simp only [Pre, maxSendSize] at hp1
      simp only [recvTotal] at hb ⊢
      have hc : (step s (.send n)).credit = s.credit - n := by
        simp only [step, packetSent, h1, ne_eq, not_false_eq_true, if_true]; omega
      have hs : (step s (.send n)).sent = s.sent + n := rfl
      have hr : (step s (.send n)).recvd = s.recvd := rfl
      have := ih (step s (.send n)) (by rw [hc]; unfold unlimited at *; omega) (by rw [hc]; omega) hp2
        (by simpa [NoValidate] using hv) (by rw [hc]; omega)
      rw [run_cons]; rw [hc, hs, hr] at this
      refine ⟨by omega, by omega, this.2.2.1, this.2.2.2⟩

/-- C27 on the counter model: before validation `sent ≤ 3·received`, for every history in which
every send is preceded by `size ≤ maxSendSize()`. -/
theorem sent_le_three_recv (ops : List Op) (hp : AllPre St.server ops) (hv : NoValidate ops)
    (hb : 3 * recvTotal ops < unlimited) :
    (run St.server ops).sent ≤ 3 * (run St.server ops).recvd := by
  have h := counter_exact ops St.server (by decide) (by decide) hp hv
    (by show (0 : Int) + _ < _; omega)
  have e1 : St.server.sent = 0 := rfl
  have e2 : St.server.credit = 0 := rfl
  have e3 : St.server.recvd = 0 := rfl
  rw [e1, e2, e3] at h
  omega

private theorem allPre_append (p q : List Op) : ∀ s, AllPre s (p ++ q) → AllPre s p := by
  induction p with
  | nil => intro _ _; trivial
  | cons op t ih => intro s h; exact ⟨h.1, ih _ h.2⟩

private theorem allPre_append_right (p q : List Op) : ∀ s, AllPre s (p ++ q) → AllPre (run s p) q := by
  induction p with
  | nil => intro _ h; exact h
  | cons op t ih => intro s h; exact ih _ h.2

private theorem noValidate_append (p q : List Op) : NoValidate (p ++ q) → NoValidate p := by
  induction p with
  | nil => intro _; trivial
  | cons op t ih => intro h; cases op <;> simp_all [NoValidate]

private theorem recvTotal_append (p q : List Op) : recvTotal (p ++ q) = recvTotal p + recvTotal q := by
  induction p with
  | nil => simp [recvTotal]
  | cons op t ih => cases op <;> simp [recvTotal, ih] <;> omega

/-- … and it holds at every point of the history, not only at the end. -/
theorem sent_le_three_recv_always (p q : List Op) (hp : AllPre St.server (p ++ q))
    (hv : NoValidate (p ++ q)) (hb : 3 * recvTotal (p ++ q) < unlimited) :
    (run St.server p).sent ≤ 3 * (run St.server p).recvd := by
  have hq := recvTotal_nonneg q _ (allPre_append_right p q _ hp)
  rw [recvTotal_append] at hb
  exact sent_le_three_recv p (allPre_append p q _ hp) (noValidate_append p q hv) (by omega)

/-- Under the precondition the `max(0, …)` clamp is the identity on every send. -/
theorem clamp_never_active (s : St) (n : Int) (h1 : s.credit ≠ unlimited) (hp : Pre s (.send n)) :
    packetSent s.credit n = s.credit - n := by
  simp only [Pre, maxSendSize] at hp
  simp only [packetSent, h1, ne_eq, not_false_eq_true, if_true]; omega

/-- The precondition is needed: a single send above the credit breaks `sent ≤ 3·received`
(the clamp absorbs the excess silently). -/
theorem precondition_needed :
    ∃ ops, NoValidate ops ∧ (run St.server ops).sent > 3 * (run St.server ops).recvd :=
  ⟨[.recv 1250, .send 1200, .send 1200, .send 1200, .send 1200], by decide⟩

/-- A datagram made of several packets is charged packet by packet; the clamps compose. -/
theorem packetSent_compose (l a b : Int) (hl : l ≤ unlimited) (ha : 0 ≤ a) (hb : 0 ≤ b) :
    packetSent (packetSent l a) b = packetSent l (a + b) := by
  unfold packetSent unlimited at *
  repeat' split
  all_goals omega

/-! ## `Conn.maybeSend` as it is -/

def NoValidateC : List COp → Prop
  | [] => True
  | .validate :: _ => False
  | _ :: t => NoValidateC t

instance : (ops : List COp) → Decidable (NoValidateC ops)
  | [] => .isTrue trivial
  | .validate :: _ => .isFalse id
  | .recv _ :: t => by unfold NoValidateC; exact instDecidableNoValidateC t
  | .csend _ _ :: t => by unfold NoValidateC; exact instDecidableNoValidateC t

/-- The full statement on the model of the send path: whatever the code's own gating
(`sendLimit ≠ ccBlocked`, packets fit `maxSendSize()`) lets through stays within 3×. -/
def CodeStatement : Prop :=
  ∀ ops : List COp, AllCPre St.server ops → NoValidateC ops → 3 * crecvTotal ops < unlimited →
    (crun St.server ops).sent ≤ 3 * (crun St.server ops).recvd

/-- Witness: a 1250-byte client Initial, three padded 1200-byte replies (credit 150 left),
then a PTO probe whose 150 bytes of packets are padded to 1200. -/
def witness : List COp :=
  [.recv 1250, .csend 1200 true, .csend 1200 true, .csend 1200 true, .csend 150 true]

/-- The unchanged code violates the statement: padding is applied after the writer was sized. -/
theorem full_false : ¬ CodeStatement := by
  intro h
  have := h witness (by decide) (by decide) (by decide)
  revert this
  decide

private theorem crun_cons (s : St) (op : COp) (t : List COp) : crun s (op :: t) = crun (cstep s op) t := rfl

private theorem crecvTotal_nonneg (ops : List COp) : ∀ s, AllCPre s ops → 0 ≤ crecvTotal ops := by
  induction ops with
  | nil => intro _ _; simp [crecvTotal]
  | cons op t ih =>
    intro s hp
    obtain ⟨hp1, hp2⟩ := hp
    have := ih _ hp2
    cases op <;> simp only [crecvTotal] <;> simp only [CPre] at hp1 <;> omega

/-- Exact accounting of the code's sends: every byte beyond `3·received` is an overshoot byte. -/
theorem overshoot_exact (ops : List COp) : ∀ (s : St), s.credit ≠ unlimited → 0 ≤ s.credit →
    AllCPre s ops → NoValidateC ops → s.credit + 3 * crecvTotal ops < unlimited →
    (crun s ops).sent + (crun s ops).credit = s.sent + s.credit + 3 * crecvTotal ops + overshoot s ops ∧
    (crun s ops).recvd = s.recvd + crecvTotal ops ∧ 0 ≤ overshoot s ops ∧ 0 ≤ (crun s ops).credit := by
  induction ops with
  | nil => intro s _ h2 _ _ _; simp [crun, crecvTotal, overshoot]; exact h2
  | cons op t ih =>
    intro s h1 h2 hp hv hb
    obtain ⟨hp1, hp2⟩ := hp
    have hnn := crecvTotal_nonneg t _ hp2
    cases op with
    | validate => exact absurd hv (by simp [NoValidateC])
    | recv n =>
      simp only [CPre] at hp1
      simp only [crecvTotal] at hb ⊢
      have hc : (cstep s (.recv n)).credit = s.credit + 3 * n := by
        simp [cstep, step, datagramReceived, h1]
      have hs : (cstep s (.recv n)).sent = s.sent := rfl
      have hr : (cstep s (.recv n)).recvd = s.recvd + n := rfl
      have := ih (cstep s (.recv n)) (by rw [hc]; unfold unlimited at *; omega) (by rw [hc]; omega) hp2
        (by simpa [NoValidateC] using hv) (by rw [hc]; omega)
      rw [crun_cons]; rw [hc, hs, hr] at this
      simp only [overshoot]
      refine ⟨by omega, by omega, by omega, this.2.2.2⟩
    | csend k pad =>
      simp only [CPre, maxSendSize] at hp1
      simp only [crecvTotal] at hb ⊢
      have hc : (cstep s (.csend k pad)).credit = max 0 (s.credit - codeDatagramSize k pad) := by
        simp [cstep, step, packetSent, h1]
      have hs : (cstep s (.csend k pad)).sent = s.sent + codeDatagramSize k pad := rfl
      have hr : (cstep s (.csend k pad)).recvd = s.recvd := rfl
      have hsz : 0 < codeDatagramSize k pad := by unfold codeDatagramSize paddedInitial; split <;> omega
      have := ih (cstep s (.csend k pad)) (by rw [hc]; unfold unlimited at *; omega) (by rw [hc]; omega) hp2
        (by simpa [NoValidateC] using hv) (by rw [hc]; omega)
      rw [crun_cons]; rw [hc, hs, hr] at this
      simp only [overshoot, h1, ne_eq, not_false_eq_true, if_true]
      refine ⟨by omega, by omega, by omega, this.2.2.2⟩

/-- Outside the defect region no send overshoots. -/
theorem overshoot_zero (ops : List COp) : ∀ (s : St), AllCPre s ops → NoPadOvershoot s ops →
    overshoot s ops = 0 := by
  induction ops with
  | nil => intro _ _ _; rfl
  | cons op t ih =>
    intro s hp hn
    have := ih _ hp.2 hn.2
    have hp1 := hp.1
    have hn1 := hn.1
    cases op with
    | recv n => simp [overshoot, this]
    | validate => simp [overshoot, this]
    | csend k pad =>
      simp only [CPre, maxSendSize] at hp1
      simp only [padOvershoot, Bool.and_eq_false_iff, decide_eq_false_iff_not] at hn1
      simp only [overshoot, this, codeDatagramSize]
      unfold paddedInitial at *
      split <;> rename_i hu
      · cases pad <;> simp at hn1 ⊢ <;> omega
      · rfl

/-- What does hold of the unchanged code: excluding padded sends made with less than 1200 bytes
of credit, `sent ≤ 3·received`. This is also the proof that the minimal fix (do not send a
datagram that needs padding unless `maxSendSize() ≥ paddedInitialDatagramSize`) suffices. -/
theorem holds_partial (ops : List COp) (hp : AllCPre St.server ops) (hn : NoPadOvershoot St.server ops)
    (hv : NoValidateC ops) (hb : 3 * crecvTotal ops < unlimited) :
    (crun St.server ops).sent ≤ 3 * (crun St.server ops).recvd := by
  have h := overshoot_exact ops St.server (by decide) (by decide) hp hv
    (by show (0 : Int) + _ < _; omega)
  rw [overshoot_zero ops _ hp hn] at h
  have e1 : St.server.sent = 0 := rfl
  have e2 : St.server.credit = 0 := rfl
  have e3 : St.server.recvd = 0 := rfl
  rw [e1, e2, e3] at h
  omega

/-! ## Wire monitor soundness -/

/-- Bytes received from address `a` in a trace (specification-level sum, independent of the monitor). -/
def recvOf (a : Nat) : List Ev → Int
  | [] => 0
  | .recv b n _ _ :: t => (if b = a then n else 0) + recvOf a t
  | _ :: t => recvOf a t

/-- Bytes sent to address `a` in a trace. -/
def sentOf (a : Nat) : List Ev → Int
  | [] => 0
  | .send b n _ _ _ :: t => (if b = a then n else 0) + sentOf a t
  | _ :: t => sentOf a t

/-- Some datagram from `a` carried a genuine Handshake packet. -/
def hsOf (a : Nat) : List Ev → Bool
  | [] => false
  | .recv b _ _ h :: t => (decide (b = a) && h) || hsOf a t
  | _ :: t => hsOf a t

/-- The monitor's invariant. -/
def Inv (m : Mon) : Prop := ∀ a, m.validated a = false → m.sent a ≤ 3 * m.recvd a + m.over a

theorem inv_init : Inv Mon.init := by intro a _; simp [Mon.init]

set_option linter.unusedSimpArgs false in
private theorem mstep_facts (m m' : Mon) (e : Ev) (h : mstep m e = .ok m') (a : Nat) :
    m'.sent a = m.sent a + sentOf a [e] ∧ m'.recvd a = m.recvd a + recvOf a [e] ∧
    m.over a ≤ m'.over a ∧ m'.hs a = (m.hs a || hsOf a [e]) ∧
    (m'.validated a = true → m.validated a = true ∨ m'.hs a = true) ∧
    (Inv m → m'.validated a = false → m'.sent a ≤ 3 * m'.recvd a + m'.over a) := by
  cases e with
  | recv b n r hs =>
    simp only [mstep] at h
    split at h
    · cases h
    · rename_i hn
      cases r <;> simp only at h
      all_goals (repeat' split at h)
      all_goals (try cases h)
      all_goals (simp only [bump, setB, sentOf, recvOf, hsOf, Inv, knownOvershoot, Bool.and_eq_true, decide_eq_true_eq] at *; grind)
  | send b n byConn c k =>
    simp only [mstep] at h
    repeat' split at h
    all_goals (try cases h)
    all_goals (simp only [bump, setB, sentOf, recvOf, hsOf, Inv, knownOvershoot, Bool.and_eq_true, decide_eq_true_eq] at *; grind)
  | validated =>
    simp only [mstep] at h
    repeat' split at h
    all_goals (try cases h)
    all_goals (simp only [bump, setB, sentOf, recvOf, hsOf, Inv, knownOvershoot, Bool.and_eq_true, decide_eq_true_eq] at *; grind)
  | cred c =>
    simp only [mstep] at h
    repeat' split at h
    all_goals (try cases h)
    all_goals (simp only [bump, setB, sentOf, recvOf, hsOf, Inv, knownOvershoot, Bool.and_eq_true, decide_eq_true_eq] at *; grind)

private theorem sentOf_cons (a : Nat) (e : Ev) (t : List Ev) : sentOf a (e :: t) = sentOf a [e] + sentOf a t := by
  cases e <;> simp [sentOf]

private theorem recvOf_cons (a : Nat) (e : Ev) (t : List Ev) : recvOf a (e :: t) = recvOf a [e] + recvOf a t := by
  cases e <;> simp [recvOf]

private theorem hsOf_cons (a : Nat) (e : Ev) (t : List Ev) : hsOf a (e :: t) = (hsOf a [e] || hsOf a t) := by
  cases e <;> simp [hsOf]

/-- Validation was legitimate: the address had sent a genuine Handshake packet. -/
def Legit (m : Mon) : Prop := ∀ a, m.validated a = true → m.hs a = true

/-- Everything the monitor's state says after an accepted trace, in terms of the trace itself. -/
theorem mrun_facts (evs : List Ev) : ∀ m m', mrun m evs = .ok m' → Inv m → Legit m →
    Inv m' ∧ Legit m' ∧ ∀ a, m'.sent a = m.sent a + sentOf a evs ∧ m'.recvd a = m.recvd a + recvOf a evs ∧
      m.over a ≤ m'.over a ∧ m'.hs a = (m.hs a || hsOf a evs) := by
  induction evs with
  | nil =>
    intro m m' h hi hl
    simp only [mrun] at h; cases h
    exact ⟨hi, hl, fun a => by simp [sentOf, recvOf, hsOf]⟩
  | cons e t ih =>
    intro m m' h hi hl
    simp only [mrun] at h
    split at h
    · rename_i m1 h1
      have f := mstep_facts m m1 e h1
      have hi1 : Inv m1 := fun a hv => (f a).2.2.2.2.2 hi hv
      have hl1 : Legit m1 := by
        intro a hv
        rcases (f a).2.2.2.2.1 hv with h0 | h0
        · rw [(f a).2.2.2.1, hl a h0]; rfl
        · exact h0
      obtain ⟨hi', hl', g⟩ := ih m1 m' h hi1 hl1
      refine ⟨hi', hl', fun a => ?_⟩
      obtain ⟨g1, g2, g3, g4⟩ := g a
      obtain ⟨f1, f2, f3, f4, _, _⟩ := f a
      rw [sentOf_cons, recvOf_cons, hsOf_cons]
      refine ⟨by omega, by omega, by omega, ?_⟩
      rw [g4, f4, Bool.or_assoc]
    · cases h

/-- Soundness of the monitor (V-tie): in an accepted trace, every address that has not been validated
has been sent at most three times what was received from it, plus the known-defect allowance the
monitor reported separately (`over`, zero unless a padded Initial exceeded the credit). -/
theorem monitor_sound (evs : List Ev) (m : Mon) (h : mrun Mon.init evs = .ok m) (a : Nat)
    (hv : m.validated a = false) : sentOf a evs ≤ 3 * recvOf a evs + m.over a := by
  obtain ⟨hi, _, g⟩ := mrun_facts evs _ _ h inv_init (by intro a h; simp [Mon.init] at h)
  have := hi a hv
  obtain ⟨g1, g2, _, _⟩ := g a
  simp only [Mon.init] at g1 g2
  omega

/-- Validation is only accepted after a genuine Handshake packet from that address. -/
theorem validated_legit (evs : List Ev) (m : Mon) (h : mrun Mon.init evs = .ok m) (a : Nat)
    (hv : m.validated a = true) : hsOf a evs = true := by
  obtain ⟨_, hl, g⟩ := mrun_facts evs _ _ h inv_init (by intro a h; simp [Mon.init] at h)
  have := hl a hv
  rw [(g a).2.2.2] at this
  simpa [Mon.init] using this

/-- Acceptance is prefix-closed, so the property holds at every point of the trace. -/
theorem mrun_append (p q : List Ev) : ∀ m m', mrun m (p ++ q) = .ok m' →
    ∃ mp, mrun m p = .ok mp ∧ mrun mp q = .ok m' := by
  induction p with
  | nil => intro m m' h; exact ⟨m, rfl, h⟩
  | cons e t ih =>
    intro m m' h
    simp only [List.cons_append, mrun] at h ⊢
    split at h
    · rename_i m1 h1
      exact ih m1 m' h
    · cases h

/-- The property itself on accepted traces: if the monitor accepts a trace and reports no known-defect
overshoot for address `a`, then at EVERY prefix at which `a` is not yet validated,
`Σ sent to a ≤ 3 · Σ received from a`. -/
theorem accepted_trace_property (p q : List Ev) (m : Mon) (h : mrun Mon.init (p ++ q) = .ok m) (a : Nat)
    (ho : m.over a = 0) :
    ∃ mp, mrun Mon.init p = .ok mp ∧ (mp.validated a = false → sentOf a p ≤ 3 * recvOf a p) := by
  obtain ⟨mp, h1, h2⟩ := mrun_append p q _ _ h
  refine ⟨mp, h1, fun hv => ?_⟩
  have s := monitor_sound p mp h1 a hv
  obtain ⟨hi, hl, _⟩ := mrun_facts p _ _ h1 inv_init (by intro a h; simp [Mon.init] at h)
  obtain ⟨_, _, g⟩ := mrun_facts q _ _ h2 hi hl
  have g3 := (g a).2.2.1
  obtain ⟨_, _, g0⟩ := mrun_facts p _ _ h1 inv_init (by intro a h; simp [Mon.init] at h)
  have g03 := (g0 a).2.2.1
  simp only [Mon.init] at g03
  omega

/-- The monitor's credit bookkeeping is the counter model: an accepted connection send within the
precondition leaves exactly `credit - n`. -/
theorem monitor_send_exact (m m' : Mon) (a : Nat) (n c k : Int) (h : mstep m (.send a n true c k) = .ok m')
    (hu : m.credit ≠ unlimited) (hp : n ≤ maxSendSize m.credit maxDatagramSize) :
    m'.credit = m.credit - n ∧ c = m.credit - n := by
  have hn : ¬ n < 0 := by intro hn; simp [mstep, hn] at h
  have hps : packetSent m.credit n = m.credit - n := by
    simp only [packetSent, hu, ne_eq, not_false_eq_true, if_true, maxSendSize] at *; omega
  simp only [mstep] at h
  repeat' split at h
  all_goals (try cases h)
  all_goals grind

/-! ## Non-vacuity -/

instance (s : St) (op : Op) : Decidable (Pre s op) := by cases op <;> unfold Pre <;> infer_instance
instance : (s : St) → (ops : List Op) → Decidable (AllPre s ops)
  | _, [] => .isTrue trivial
  | s, op :: rest => by
    unfold AllPre
    have := instDecidableAllPre (step s op) rest
    infer_instance
instance : (s : St) → (ops : List COp) → Decidable (NoPadOvershoot s ops)
  | _, [] => .isTrue trivial
  | s, op :: rest => by
    unfold NoPadOvershoot
    have := instDecidableNoPadOvershoot (cstep s op) rest
    infer_instance

example : AllPre St.server [.recv 1250, .send 1200, .send 1200, .send 1200, .send 150] ∧
    NoValidate [.recv 1250, .send 1200, .send 1200, .send 1200, .send 150] := by decide
example : AllCPre St.server witness ∧ NoValidateC witness ∧ 3 * crecvTotal witness < unlimited := by decide
example : AllCPre St.server [.recv 1200, .csend 1200 true, .csend 1200 true, .csend 1200 true] ∧
    NoPadOvershoot St.server [.recv 1200, .csend 1200 true, .csend 1200 true, .csend 1200 true] := by
  decide
/-- The witness trace of the real code (corpus/C27) is accepted with a non-zero allowance. -/
example : (match mrun Mon.init [.recv 0 1250 .new false, .send 0 1200 true 2550 500, .send 0 1200 true 1350 500,
    .send 0 1200 true 150 500, .send 0 1200 true 0 150] with | .ok m => m.over 0 | .error _ => -1) = 1050 := by decide
example : (match mrun Mon.init [.recv 0 1200 .new false, .send 0 1200 true 2400 700, .send 0 1201 true 1199 1201] with
    | .ok _ => "ok" | .error e => e) = "send-exceeds-credit" := by decide

/-- A full 1200-byte datagram of packets (nothing padded) with less credit is NOT excused. -/
example : (match mrun Mon.init [.recv 0 1250 .new false, .send 0 1200 true 2550 500, .send 0 1200 true 1350 500,
    .send 0 1200 true 150 500, .send 0 1200 true 0 1200] with | .ok _ => "ok" | .error e => e) = "send-exceeds-credit" := by
  decide

end NetVerif.Proofs.C27
