import NetVerif.Model.HtmlTok
import NetVerif.Gen.C39
import NetVerif.Model.HtmlTokExact
import NetVerif.Proofs.Lemmas.HtmlTokExact
import NetVerif.Proofs.Lemmas.HtmlTokMaxBuf
import NetVerif.Proofs.Lemmas.HtmlTokFinal
/-!
C39 — HTML tokenization is lossless; MaxBuf bound.

Part A: the cursor discipline (spans chained end-to-start, raw = consumed
slice) implies `concat raws = input[start : final cursor]`; the monitor run by
the V-tie on every recorded token accepts only runs with that discipline, hence
only lossless runs (with the final open tag as the one exception clause).
Part B: counter invariant of `readByte`'s buffer machine.
-/
namespace NetVerif.Proofs.C39
open NetVerif.Model.HtmlTok

/-! ## Part A -/

theorem slice_append (inp : List Nat) (a b c : Nat) (hab : a ≤ b) (hbc : b ≤ c) :
    slice inp a b ++ slice inp b c = slice inp a c := by
  unfold slice
  have h1 : c - a = (b - a) + (c - b) := by omega
  have h2 : inp.drop b = (inp.drop a).drop (b - a) := by
    rw [List.drop_drop]; congr 1; omega
  rw [h1, List.take_add, h2]

theorem finalCursor_ge (c : Nat) (spans : List (Nat × Nat)) (h : Chained c spans) :
    c ≤ finalCursor c spans := by
  induction spans generalizing c with
  | nil => simp [finalCursor]
  | cons s rest ih =>
    obtain ⟨a, b⟩ := s
    simp only [Chained] at h
    simp only [finalCursor]
    have := ih b h.2.2
    omega

/-- The cursor discipline makes the raws a partition of `inp[c : final cursor]`. -/
theorem concat_raws_eq_slice (inp : List Nat) (c : Nat) (spans : List (Nat × Nat))
    (h : Chained c spans) :
    (raws inp spans).flatten = slice inp c (finalCursor c spans) := by
  induction spans generalizing c with
  | nil => simp [raws, finalCursor, slice]
  | cons s rest ih =>
    obtain ⟨a, b⟩ := s
    simp only [Chained] at h
    obtain ⟨rfl, hab, hr⟩ := h
    have := ih b hr
    simp only [raws, List.map_cons, List.flatten_cons, finalCursor] at this ⊢
    rw [this]
    exact slice_append inp a b _ hab (finalCursor_ge b rest hr)

/-- Losslessness: a chained run from 0 that ends at the end of the input
reproduces the input. -/
theorem lossless_of_chained (inp : List Nat) (spans : List (Nat × Nat))
    (h : Chained 0 spans) (hend : finalCursor 0 spans = inp.length) :
    (raws inp spans).flatten = inp := by
  rw [concat_raws_eq_slice inp 0 spans h, hend]
  simp [slice]

/-- …and a run that stops early (ErrBufferExceeded, open tag) reproduces a prefix. -/
theorem prefix_of_chained (inp : List Nat) (spans : List (Nat × Nat)) (h : Chained 0 spans) :
    (raws inp spans).flatten = inp.take (finalCursor 0 spans) := by
  rw [concat_raws_eq_slice inp 0 spans h]
  simp [slice]

theorem stripPrefix_iff (p l r : List Nat) : stripPrefix p l = some r ↔ l = p ++ r := by
  induction p generalizing l with
  | nil => simp [stripPrefix, eq_comm]
  | cons a p ih =>
    cases l with
    | nil => simp [stripPrefix]
    | cons b l =>
      simp only [stripPrefix]
      split
      · rename_i hab
        subst hab
        simp [ih]
      · rename_i hab
        simp only [List.cons_append, List.cons.injEq, reduceCtorEq, false_iff, not_and]
        intro h; exact absurd h.symm hab

/-- What one accepted token guarantees. -/
theorem stepTok_sound (m m' : Mon) (t : Tok) (h : stepTok m t = .ok m') :
    m.rest = t.raw ++ m'.rest ∧ m'.maxBuf = m.maxBuf ∧ t.raw ≠ [] ∧
    t.ty ≠ ttError ∧ t.ty ≤ ttDoctype ∧
    (m.maxBuf > 0 → t.raw.length ≤ rawBound m.maxBuf t ∧ t.cap ≤ capBound m.maxBuf) := by
  unfold stepTok at h
  split at h
  · simp at h
  · rename_i hty
    split at h
    · simp at h
    · rename_i hne
      split at h
      · simp at h
      · rename_i rest' hs
        split at h
        · simp at h
        · rename_i hb
          split at h
          · simp at h
          · rename_i hc
            simp only [Except.ok.injEq] at h
            subst h
            have := (stripPrefix_iff _ _ _).1 hs
            refine ⟨this, rfl, hne, ?_, ?_, ?_⟩
            · omega
            · omega
            · intro hm; constructor <;> omega

/-- Token-by-token acceptance gives a partition of the consumed input. -/
theorem stepToks_sound (m m' : Mon) (toks : List Tok) (h : stepToks m toks = .ok m') :
    m.rest = (toks.map (·.raw)).flatten ++ m'.rest ∧ m'.maxBuf = m.maxBuf ∧
    (∀ t ∈ toks, t.raw ≠ [] ∧ t.ty ≠ ttError ∧ t.ty ≤ ttDoctype ∧
      (m.maxBuf > 0 → t.raw.length ≤ rawBound m.maxBuf t ∧ t.cap ≤ capBound m.maxBuf)) := by
  induction toks generalizing m with
  | nil =>
    simp only [stepToks, Except.ok.injEq] at h
    subst h
    simp
  | cons t ts ih =>
    simp only [stepToks] at h
    split at h
    · simp at h
    · rename_i m1 h1
      obtain ⟨a1, a2, a3, a4, a5, a6⟩ := stepTok_sound m m1 t h1
      obtain ⟨b1, b2, b3⟩ := ih m1 h
      refine ⟨?_, ?_, ?_⟩
      · simp [a1, b1]
      · rw [b2, a2]
      · intro t' ht'
        simp only [List.mem_cons] at ht'
        rcases ht' with rfl | ht'
        · exact ⟨a3, a4, a5, a6⟩
        · have := b3 t' ht'
          rw [a2] at this
          exact this

/-- The statement of C39's first sentence on a recorded run: the raws of the
returned tokens, followed by the `Raw()` of the final ErrorToken (empty, or a
tag still open at the end — the documented exception) and by the input not yet
tokenized (empty at EOF), are exactly the input. -/
def LosslessRun (inp : List Nat) (toks : List Tok) (k : EndKind) (errRaw tail : List Nat) : Prop :=
  inp = (toks.map (·.raw)).flatten ++ errRaw ++ tail ∧
  (errRaw = [] ∨ openTagLike errRaw = true) ∧
  (k = .eof → tail = [])

/-- MaxBuf clause on a recorded run. -/
def BoundedRun (mb : Nat) (toks : List Tok) (errRaw : List Nat) : Prop :=
  mb > 0 → (∀ t ∈ toks, t.raw.length ≤ rawBound mb t ∧ t.cap ≤ capBound mb) ∧ errRaw.length ≤ mb

/-- Every run the monitor accepts is lossless and bounded (V-tie soundness). -/
theorem checkRun_sound (mb : Nat) (inp : List Nat) (toks : List Tok) (k : EndKind)
    (errRaw tail : List Nat) (h : checkRun mb inp toks k errRaw tail = true) :
    LosslessRun inp toks k errRaw tail ∧ BoundedRun mb toks errRaw ∧
    (∀ t ∈ toks, t.raw ≠ [] ∧ t.ty ≠ ttError ∧ t.ty ≤ ttDoctype) := by
  unfold checkRun at h
  split at h
  · simp at h
  · rename_i m hm
    obtain ⟨a1, a2, a3⟩ := stepToks_sound _ m toks hm
    simp only at a1 a2 a3
    split at h
    · simp at h
    · rename_i he
      unfold stepEnd at he
      split at he
      · simp at he
      · rename_i h1
        split at he
        · simp at he
        · rename_i h2
          split at he
          · simp at he
          · rename_i h3
            split at he
            · simp at he
            · rename_i h4
              split at he
              · simp at he
              · rename_i h5
                simp only [ne_eq, Decidable.not_not] at h1
                refine ⟨⟨?_, ?_, ?_⟩, ?_, ?_⟩
                · rw [a1, h1]; simp
                · by_cases hr : errRaw = []
                  · exact Or.inl hr
                  · right
                    cases hb : openTagLike errRaw with
                    | true => rfl
                    | false => exact absurd ⟨hr, hb⟩ h2
                · intro hk
                  by_cases ht : tail = []
                  · exact ht
                  · exact absurd ⟨hk, ht⟩ h3
                · intro hmb
                  refine ⟨fun t ht => (a3 t ht).2.2.2 hmb, ?_⟩
                  rw [a2] at h5
                  omega
                · intro t ht
                  exact ⟨(a3 t ht).1, (a3 t ht).2.1, (a3 t ht).2.2.1⟩

/-- Spans (absolute offsets) of a token list starting at cursor `c`. -/
def spansOf : Nat → List Tok → List (Nat × Nat)
  | _, [] => []
  | c, t :: ts => (c, c + t.raw.length) :: spansOf (c + t.raw.length) ts

theorem chained_spansOf (c : Nat) (toks : List Tok) : Chained c (spansOf c toks) := by
  induction toks generalizing c with
  | nil => simp [spansOf, Chained]
  | cons t ts ih => simp [spansOf, Chained, ih]

/-- The monitor's local condition *is* the cursor discipline: in an accepted
run every token's raw is the slice of the input at its span, and the spans are
chained from 0. -/
theorem accepted_raws_are_slices (pre rest : List Nat) (mb : Nat) (toks : List Tok) (m' : Mon)
    (h : stepToks { maxBuf := mb, rest := rest } toks = .ok m') :
    raws (pre ++ rest) (spansOf pre.length toks) = toks.map (·.raw) := by
  induction toks generalizing pre rest with
  | nil => simp [spansOf, raws]
  | cons t ts ih =>
    simp only [stepToks] at h
    split at h
    · simp at h
    · rename_i m1 h1
      obtain ⟨a1, a2, _⟩ := stepTok_sound _ m1 t h1
      simp only at a1 a2
      have hm1 : m1 = { maxBuf := mb, rest := m1.rest } := by cases m1; simp_all
      rw [hm1] at h
      have := ih (pre ++ t.raw) m1.rest h
      simp only [spansOf, raws, List.map_cons, List.cons.injEq]
      constructor
      · rw [a1]; simp [slice]
      · rw [a1]
        simp only [raws, List.length_append, List.append_assoc] at this
        exact this

/-! ## Part B: readByte's buffer machine -/

/-- The counter invariant. -/
def BufInv (mb : Nat) (b : Buf) : Prop :=
  b.start ≤ b.stop ∧ b.stop ≤ b.len ∧ b.len ≤ b.cap ∧ initCap ≤ b.cap ∧
  (mb > 0 → (b.exceeded = false → b.stop - b.start < mb) ∧
            b.stop - b.start ≤ mb ∧
            b.cap ≤ max initCap (4 * mb))

theorem bufInv_init (mb : Nat) : BufInv mb Buf.init := by
  simp [BufInv, Buf.init, initCap]; omega

theorem bufInv_step (mb : Nat) (b : Buf) (op : BufOp) (hinv : BufInv mb b)
    (hen : op.enabled b = true) : BufInv mb (b.step mb op) := by
  obtain ⟨h1, h2, h3, h4, h5⟩ := hinv
  cases op with
  | refill n =>
    simp only [BufOp.enabled, Bool.and_eq_true, Bool.not_eq_true', decide_eq_true_eq] at hen
    obtain ⟨hex, hen⟩ := hen
    simp only [Buf.step, BufInv]
    unfold capAfter growCond growCap at *
    simp only [decide_eq_true_eq] at *
    refine ⟨by omega, by omega, ?_, ?_, ?_⟩
    · split <;> split at hen <;> omega
    · split <;> omega
    · intro hm
      obtain ⟨h6, h7, h8⟩ := h5 hm
      refine ⟨by simpa using h6, by simpa using h7, ?_⟩
      have := h6 hex
      split
      · simp only [initCap] at *; omega
      · exact h8
  | advance =>
    simp only [BufOp.enabled, Bool.and_eq_true, Bool.not_eq_true', decide_eq_true_eq] at hen
    obtain ⟨hex, hen⟩ := hen
    simp only [Buf.step, BufInv, exceededCond]
    refine ⟨by omega, by omega, h3, h4, ?_⟩
    intro hm
    obtain ⟨h6, h7, h8⟩ := h5 hm
    have := h6 hex
    simp only [decide_eq_false_iff_not, not_and, Nat.not_le]
    refine ⟨fun h => by have := h hm; omega, by omega, h8⟩
  | unread k =>
    simp only [BufOp.enabled, decide_eq_true_eq] at hen
    simp only [Buf.step, BufInv]
    refine ⟨by omega, by omega, h3, h4, ?_⟩
    intro hm
    obtain ⟨h6, h7, h8⟩ := h5 hm
    exact ⟨fun h => by have := h6 h; omega, by omega, h8⟩
  | newToken =>
    simp only [Buf.step, BufInv]
    refine ⟨by omega, h2, h3, h4, ?_⟩
    intro hm
    obtain ⟨h6, h7, h8⟩ := h5 hm
    exact ⟨fun _ => by omega, by omega, h8⟩

theorem bufInv_run (mb : Nat) (b b' : Buf) (ops : List BufOp) (hinv : BufInv mb b)
    (h : Buf.run mb b ops = some b') : BufInv mb b' := by
  induction ops generalizing b with
  | nil => simp only [Buf.run, Option.some.injEq] at h; subst h; exact hinv
  | cons op ops ih =>
    simp only [Buf.run] at h
    split at h
    · rename_i hen
      exact ih _ (bufInv_step mb b op hinv hen) h
    · simp at h

/-- MaxBuf as a counter invariant: along any execution of the buffer machine
from the initial state, the bytes held for the current token never exceed
`maxBuf`, stay strictly below it while no error is pending, and the buffer
capacity stays below `max 4096 (4·maxBuf)`. -/
theorem maxBuf_counter_invariant (mb : Nat) (ops : List BufOp) (b : Buf) (hmb : mb > 0)
    (h : Buf.run mb Buf.init ops = some b) :
    b.stop - b.start ≤ mb ∧ b.cap ≤ max 4096 (4 * mb) ∧
    (b.exceeded = false → b.stop - b.start < mb) := by
  obtain ⟨_, _, _, _, h5⟩ := bufInv_run mb _ b ops (bufInv_init mb) h
  obtain ⟨h6, h7, h8⟩ := h5 hmb
  exact ⟨h7, h8, h6⟩

/-- The limit is attained (and then the machine stops reading). -/
theorem maxBuf_bound_tight :
    ∃ ops b, Buf.run 2 Buf.init ops = some b ∧ b.stop - b.start = 2 ∧ b.exceeded = true ∧
      (BufOp.advance).enabled b = false := by
  refine ⟨[.refill 10, .advance, .advance], ?_⟩
  exact ⟨_, rfl, rfl, rfl, rfl⟩

/-! ### T-tie: the machine's arithmetic is the regenerated arithmetic of readByte -/

theorem gen_initCap_eq : Gen.C39.initCap = initCap := rfl
theorem gen_growCond_eq : Gen.C39.growCond = growCond := rfl
theorem gen_growCap_eq (c d : Nat) : Gen.C39.growCap c d = growCap c := rfl
theorem gen_growLen_eq (c d : Nat) : Gen.C39.growLen c d = d := rfl
theorem gen_compact_eq (d : Nat) : Gen.C39.compact d = (0, d) := rfl
theorem gen_dOf_eq (b : Buf) : Gen.C39.dOf b.start b.stop = b.stop - b.start := rfl
theorem gen_exceededCond_eq : Gen.C39.exceededCond = exceededCond := rfl
theorem gen_refillCond_eq (b : Buf) (n : Nat) (h : (BufOp.refill n).enabled b = true) :
    Gen.C39.refillCond b.stop b.len = true := by
  simp only [BufOp.enabled, Bool.and_eq_true, decide_eq_true_eq] at h
  simp [Gen.C39.refillCond, h.2.1]

/-! ### Non-vacuity -/

example : Chained 0 [(0, 3), (3, 3), (3, 7)] := by simp [Chained]
example : checkRun 0 [60, 97, 62, 120] [⟨ttStartTag, [60, 97, 62], 4096⟩, ⟨ttText, [120], 4096⟩] .eof [] [] = true := by decide
example : checkRun 0 [120, 60, 97, 32] [⟨ttText, [120], 4096⟩] .eof [60, 97, 32] [] = true := by decide
example : checkRun 0 [120, 60, 97, 32] [⟨ttText, [120], 4096⟩] .eof [] [] = false := by decide
example : checkRun 3 [120, 121, 122, 60] [⟨ttText, [120, 121, 122], 4096⟩] .maxbuf [] [60] = true := by decide
example : checkRun 2 [120, 121, 122, 60] [⟨ttText, [120, 121, 122], 4096⟩] .maxbuf [] [60] = false := by decide
example : (Buf.run 3 Buf.init [.refill 10, .advance, .advance, .newToken, .advance]).isSome = true := by decide

/-! ## Part C: the exact model of `Next` (D-tied to the real tokenizer) -/

section Exact
open NetVerif.Model.HtmlTokExact
open NetVerif.Proofs.Lemmas.HtmlTokExact (next_frame)

/-- Every token starts where the previous one stopped. -/
def StartsAt : Nat → List TokSpan → Prop
  | _, [] => True
  | c, t :: ts => t.start = c ∧ StartsAt t.stop ts

theorem runLoop_startsAt (f : Nat) (z : Z) (acc : List TokSpan) :
    ∃ rest, (runLoop f z acc).1 = acc.reverse ++ rest ∧ StartsAt z.rawEnd rest := by
  induction f generalizing z acc with
  | zero => exact ⟨[], by simp [runLoop], trivial⟩
  | succ f ih =>
    simp only [runLoop]
    split
    · exact ⟨[], by simp, trivial⟩
    · obtain ⟨rest, h1, h2⟩ := ih (next z).2 ({ ty := (next z).1, start := (next z).2.rawStart, stop := (next z).2.rawEnd } :: acc)
      refine ⟨{ ty := (next z).1, start := (next z).2.rawStart, stop := (next z).2.rawEnd } :: rest, ?_, ?_⟩
      · rw [h1]; simp
      · exact ⟨(next_frame z).1, h2⟩

/-- In the exact model of `Tokenizer.Next`, for every input, context tag, MaxBuf,
CDATA setting and reader error: the raw spans of the returned tokens are chained
from offset 0 (no gaps, no overlaps between consecutive tokens). -/
theorem exact_tokens_chained (z0 : Z) : StartsAt z0.rawEnd (tokenizeAll z0).1 := by
  obtain ⟨rest, h1, h2⟩ := runLoop_startsAt (z0.inp.size + 2) z0 []
  simp only [List.reverse_nil, List.nil_append] at h1
  unfold tokenizeAll
  rw [h1]; exact h2

/-- The ErrorToken, too, starts where the last token stopped. -/
theorem exact_error_token_starts_at_cursor (z : Z) : (next z).2.rawStart = z.rawEnd := (next_frame z).1

/-- `raw.start ≤ raw.end` for every token: the no-panic invariant of the Go code
(`z.raw.end` is never moved before `z.raw.start`, `z.buf[z.raw.start:z.raw.end]` is a valid slice). -/
def SpanOrder (toks : List TokSpan) : Prop := ∀ t ∈ toks, t.start ≤ t.stop

theorem chained_of_startsAt (c : Nat) (toks : List TokSpan) (h : StartsAt c toks) (ho : SpanOrder toks) :
    Chained c (toks.map fun t => (t.start, t.stop)) := by
  induction toks generalizing c with
  | nil => trivial
  | cons t ts ih =>
    simp only [StartsAt] at h
    simp only [List.map_cons, Chained]
    exact ⟨h.1, ho t (by simp), ih t.stop h.2 (fun t' ht' => ho t' (by simp [ht']))⟩

section Run
open NetVerif.Proofs.Lemmas.HtmlTokSpan (Ok next_span)
open NetVerif.Proofs.Lemmas.HtmlTokFuel (rem fo_next good_next GoodResult OpenTag)
open NetVerif.Proofs.Lemmas.HtmlTokMaxBuf (Between next_bound)

/-- where the cursor is after the listed tokens -/
def lastStop : Nat → List TokSpan → Nat
  | c, [] => c
  | _, t :: ts => lastStop t.stop ts

theorem lastStop_eq_finalCursor (c : Nat) (toks : List TokSpan) :
    lastStop c toks = finalCursor c (toks.map fun t => (t.start, t.stop)) := by
  induction toks generalizing c with
  | nil => rfl
  | cons t ts ih => simp only [lastStop, List.map_cons, finalCursor]; exact ih _

/-- Everything that is true of a complete run of the exact model. -/
structure RunFacts (z : Z) (acc : List TokSpan) (res : List TokSpan × Z) : Prop where
  fuel : res.2.fuelOut = z.fuelOut
  ex : ∃ rest zl, res.1 = acc.reverse ++ rest ∧ StartsAt z.rawEnd rest ∧
        (∀ t ∈ rest, t.start < t.stop ∧ t.stop ≤ z.inp.size) ∧
        Ok zl ∧ Between zl ∧ zl.inp = z.inp ∧ zl.rawEnd = lastStop z.rawEnd rest ∧
        res.2 = (next zl).2 ∧ (next zl).1 = 0

theorem runLoop_facts (f : Nat) (z : Z) (acc : List TokSpan) (h : Ok z) (hb : Between z) (hf : rem z < f) :
    RunFacts z acc (runLoop f z acc) := by
  induction f generalizing z acc with
  | zero => omega
  | succ f ih =>
    have hfo := fo_next z h
    have hfr := next_frame z
    have hsp := next_span z h
    have hg := good_next z h
    have hbd := (next_bound z hb).1
    simp only [runLoop]
    split
    · rename_i hty
      exact ⟨hfo, [], z, by simp, trivial, by simp, h, hb, rfl, rfl, rfl, hty⟩
    · rename_i hty
      have hne := hg.1 hty
      have hrem : rem (next z).2 < f := by
        have h1 : z.rawEnd + 1 ≤ (next z).2.rawEnd := by rw [← hfr.1]; omega
        have h2 := hsp.2.1
        have h3 : rem z < f + 1 := hf
        unfold rem at *
        rw [hfr.2.1] at h2 ⊢
        omega
      obtain ⟨ifuel, rest, zl, e1, e2, e3, e4, e5, e6, e7, e8, e9⟩ :=
        ih (next z).2 ({ ty := (next z).1, start := (next z).2.rawStart, stop := (next z).2.rawEnd } :: acc) hsp.2 hbd hrem
      refine ⟨ifuel.trans hfo, { ty := (next z).1, start := (next z).2.rawStart, stop := (next z).2.rawEnd } :: rest,
        zl, ?_, ?_, ?_, e4, e5, e6.trans hfr.2.1, ?_, e8, e9⟩
      · rw [e1]; simp
      · exact ⟨hfr.1, e2⟩
      · intro t ht
        simp only [List.mem_cons] at ht
        rcases ht with rfl | ht
        · exact ⟨hne, by have := hsp.2.1; rw [hfr.2.1] at this; exact this⟩
        · have := e3 t ht; rw [hfr.2.1] at this; exact this
      · simp only [lastStop]; exact e7

theorem ok_newTokenizer (inp ctx : List Nat) (mb : Nat) (cdata : Bool) (fe : Err) (hfe : fe = .eof ∨ fe = .other) :
    Ok (newTokenizer inp ctx mb cdata fe) ∧ Between (newTokenizer inp ctx mb cdata fe) ∧
    rem (newTokenizer inp ctx mb cdata fe) < (newTokenizer inp ctx mb cdata fe).inp.size + 2 ∧
    (newTokenizer inp ctx mb cdata fe).rawEnd = 0 ∧ (newTokenizer inp ctx mb cdata fe).fuelOut = false ∧
    (newTokenizer inp ctx mb cdata fe).inp.toList = inp := by
  refine ⟨⟨by simp [newTokenizer], ?_⟩, ⟨by simpa [newTokenizer] using hfe, fun h => by simp [newTokenizer] at h⟩,
    ?_, by simp [newTokenizer], by simp [newTokenizer], by simp [newTokenizer]⟩
  · rcases hfe with e | e <;> simp [newTokenizer, e]
  · unfold rem; omega

/-- **Fuel sufficiency**: the exact model never raises its out-of-fuel marker — every
loop of `Next` (and the driver loop over `Next`) terminates within the fuel it is given,
for every input. -/
theorem exact_fuel_never_out (inp ctx : List Nat) (mb : Nat) (cdata : Bool) (fe : Err)
    (hfe : fe = .eof ∨ fe = .other) :
    (tokenizeAll (newTokenizer inp ctx mb cdata fe)).2.fuelOut = false := by
  obtain ⟨h1, h2, h3, h4, h5, h6⟩ := ok_newTokenizer inp ctx mb cdata fe hfe
  have := (runLoop_facts _ _ [] h1 h2 h3).fuel
  unfold tokenizeAll
  rw [this]; exact h5

/-- **Span order** (the Go no-panic invariant) for every token of every run; tokens are non-empty. -/
theorem exact_span_order (inp ctx : List Nat) (mb : Nat) (cdata : Bool) (fe : Err)
    (hfe : fe = .eof ∨ fe = .other) :
    ∀ t ∈ (tokenizeAll (newTokenizer inp ctx mb cdata fe)).1, t.start < t.stop ∧ t.stop ≤ inp.length := by
  obtain ⟨h1, h2, h3, h4, h5, h6⟩ := ok_newTokenizer inp ctx mb cdata fe hfe
  obtain ⟨_, rest, zl, e1, e2, e3, _⟩ := runLoop_facts _ _ [] h1 h2 h3
  unfold tokenizeAll
  rw [e1]
  intro t ht
  simp only [List.reverse_nil, List.nil_append] at ht
  have := e3 t ht
  have hl : (newTokenizer inp ctx mb cdata fe).inp.size = inp.length := by simp [newTokenizer]
  rw [hl] at this; exact this

/-- **Losslessness of the exact model, full strength**: for every input the
concatenation of the raws of the returned tokens is the input up to the cursor. -/
theorem exact_lossless (inp ctx : List Nat) (mb : Nat) (cdata : Bool) (fe : Err)
    (hfe : fe = .eof ∨ fe = .other) :
    let toks := (tokenizeAll (newTokenizer inp ctx mb cdata fe)).1
    (raws inp (toks.map fun t => (t.start, t.stop))).flatten = inp.take (lastStop 0 toks) := by
  intro toks
  have hch := exact_tokens_chained (newTokenizer inp ctx mb cdata fe)
  have h4 : (newTokenizer inp ctx mb cdata fe).rawEnd = 0 := (ok_newTokenizer inp ctx mb cdata fe hfe).2.2.2.1
  rw [h4] at hch
  have ho : SpanOrder toks := fun t ht => Nat.le_of_lt (exact_span_order inp ctx mb cdata fe hfe t ht).1
  rw [lastStop_eq_finalCursor]
  exact prefix_of_chained inp _ (chained_of_startsAt 0 toks hch ho)

theorem getD_toList (a : Array Nat) (i : Nat) (h : i < a.size) : a.getD i 0 = a.toList[i]'(by simpa using h) := by
  simp [Array.getD, h]

theorem openTagLike_of_OpenTag (inp : Array Nat) (a b : Nat) (hb : b ≤ inp.size) (h : OpenTag inp a b) :
    openTagLike (slice inp.toList a b) = true := by
  obtain ⟨h1, h2, h3⟩ := h
  have hl : inp.toList.length = inp.size := by simp
  have ha0 : a < inp.toList.length := by omega
  have ha1 : a + 1 < inp.toList.length := by omega
  have e0 := getD_toList inp a (by omega)
  have e1 := getD_toList inp (a + 1) (by omega)
  unfold slice
  obtain ⟨k, hk⟩ : ∃ k, b - a = k + 2 := ⟨b - a - 2, by omega⟩
  rw [hk, List.drop_eq_getElem_cons ha0, List.drop_eq_getElem_cons ha1]
  simp only [List.take_succ_cons]
  rw [← e0, ← e1, h2]
  have il : ∀ c, NetVerif.Model.HtmlTok.isLetter c = NetVerif.Model.HtmlTokExact.isLetter c := fun _ => rfl
  unfold openTagLike
  rcases h3 with h3 | ⟨h3, h4, h5⟩
  · simp [il]; left; simpa using h3
  · have ha2 : a + 2 < inp.toList.length := by omega
    have e2 := getD_toList inp (a + 2) (by omega)
    obtain ⟨k', hk'⟩ : ∃ k', k = k' + 1 := ⟨k - 1, by omega⟩
    rw [hk', List.drop_eq_getElem_cons ha2]
    simp only [List.take_succ_cons]
    rw [← e2]
    simp [il, h3]; right; simpa using h5

/-- **C39's losslessness clause on the exact model, with the exception stated precisely.**
For every input (any context tag, MaxBuf, CDATA setting, reader error), with `errRaw` the
`Raw()` of the final ErrorToken:
* the raws of the returned tokens followed by `errRaw` are exactly the input up to the cursor;
* `errRaw` is empty, or it is the tag that was still open: it begins `<`letter or `</`letter;
* unless tokenization stopped with ErrBufferExceeded, the cursor is the end of the input,
  so `input = concat raws ++ errRaw`: nothing but a final unterminated tag is ever omitted. -/
theorem exact_lossless_with_exception (inp ctx : List Nat) (mb : Nat) (cdata : Bool) (fe : Err)
    (hfe : fe = .eof ∨ fe = .other) :
    let res := tokenizeAll (newTokenizer inp ctx mb cdata fe)
    let errRaw := slice inp res.2.rawStart res.2.rawEnd
    (raws inp (res.1.map fun t => (t.start, t.stop))).flatten ++ errRaw = inp.take res.2.rawEnd ∧
    (errRaw = [] ∨ openTagLike errRaw = true) ∧
    (res.2.err ≠ .exceeded → res.2.err ≠ .none → res.2.rawEnd = inp.length) := by
  intro res errRaw
  obtain ⟨h1, h2, h3, h4, h5, h6⟩ := ok_newTokenizer inp ctx mb cdata fe hfe
  obtain ⟨_, rest, zl, e1, e2, e3, e4, e5, e6, e7, e8, e9⟩ := runLoop_facts _ _ [] h1 h2 h3
  have hres1 : res.1 = rest := by
    show (tokenizeAll _).1 = rest
    unfold tokenizeAll; rw [e1]; simp
  have hres2 : res.2 = (next zl).2 := e8
  have hl : (newTokenizer inp ctx mb cdata fe).inp.size = inp.length := by simp [newTokenizer]
  have hfr := next_frame zl
  have hsp := next_span zl e4
  have hgood := (good_next zl e4).2 e9
  have hbd := (next_bound zl e5).1
  have hstart : res.2.rawStart = lastStop 0 res.1 := by rw [hres2, hfr.1, e7, h4, hres1]
  have hle : res.2.rawStart ≤ res.2.rawEnd := by rw [hres2]; exact hsp.1
  have hsz : res.2.rawEnd ≤ inp.length := by
    rw [hres2]; have := hsp.2.1; rw [hfr.2.1, e6, hl] at this; exact this
  have hinp : (next zl).2.inp.toList = inp := by rw [hfr.2.1, e6, h6]
  refine ⟨?_, ?_, ?_⟩
  · have hloss := exact_lossless inp ctx mb cdata fe hfe
    simp only at hloss
    show (raws inp (res.1.map fun t => (t.start, t.stop))).flatten ++ slice inp res.2.rawStart res.2.rawEnd = _
    rw [hloss, ← hstart]
    have : inp.take res.2.rawStart = slice inp 0 res.2.rawStart := by simp [slice]
    rw [this, slice_append inp 0 _ _ (Nat.zero_le _) hle]
    simp [slice]
  · rcases hgood with hg | hg
    · left
      show slice inp res.2.rawStart res.2.rawEnd = []
      rw [hres2, hg]; simp [slice]
    · right
      show openTagLike (slice inp res.2.rawStart res.2.rawEnd) = true
      rw [hres2, ← hinp]
      have hg' : OpenTag (next zl).2.inp (next zl).2.rawStart (next zl).2.rawEnd := by rw [hfr.2.1]; exact hg
      exact openTagLike_of_OpenTag _ _ _ hsp.2.1 hg'
  · intro hne hnn
    have := hbd.fin (by rw [← hres2]; exact hnn) (by rw [← hres2]; exact hne)
    rw [hfr.2.1, e6, hl, ← hres2] at this
    omega

end Run

/-- The MaxBuf clause of C39 on the exact model: no returned token is longer than the limit. -/
def MaxBufStatement : Prop :=
  ∀ (inp ctx : List Nat) (mb : Nat) (cdata : Bool) (fe : Err), (fe = .eof ∨ fe = .other) → mb > 0 →
    ∀ t ∈ (tokenizeAll (newTokenizer inp ctx mb cdata fe)).1, t.stop - t.start ≤ mb

open NetVerif.Proofs.Lemmas.HtmlTokMaxBuf (Between next_bound) in
theorem runLoop_bound (mb f : Nat) (z : Z) (acc : List TokSpan) (hb : Between z) (hmb : z.maxBuf = mb)
    (hpos : mb > 0) (hacc : ∀ t ∈ acc, t.stop - t.start ≤ mb) :
    ∀ t ∈ (runLoop f z acc).1, t.stop - t.start ≤ mb := by
  induction f generalizing z acc with
  | zero => simpa [runLoop] using hacc
  | succ f ih =>
    simp only [runLoop]
    split
    · simpa using hacc
    · obtain ⟨hb', hle⟩ := next_bound z hb
      have hm' : (next z).2.maxBuf = mb := by rw [(next_frame z).2.2, hmb]
      apply ih (next z).2 _ hb' hm'
      intro t ht
      simp only [List.mem_cons] at ht
      rcases ht with rfl | ht
      · simp only []
        have := hle (by omega)
        omega
      · exact hacc t ht

/-- **MaxBuf, full strength on the exact model** (after the upstream fix in
readMarkupDeclaration): for every input, context tag, CDATA setting and reader
error, with `SetMaxBuf(mb)`, `mb > 0`, no token returned by `Next` has
`len(Raw()) > mb`. -/
theorem maxBuf_statement_holds : MaxBufStatement := by
  intro inp ctx mb cdata fe hfe hpos
  unfold tokenizeAll
  apply runLoop_bound mb _ _ [] ?_ ?_ hpos (by simp)
  · constructor
    · simpa [newTokenizer] using hfe
    · intro h; simp [newTokenizer] at h
  · simp [newTokenizer]

open NetVerif.Proofs.Lemmas.HtmlTokMaxBuf (Between next_bound) in
/-- …and neither has the final ErrorToken (nor any token of any later call). -/
theorem exact_every_next_within_maxBuf (z : Z) (hb : Between z) (hpos : z.maxBuf > 0) :
    (next z).2.rawEnd - (next z).2.rawStart ≤ z.maxBuf := by
  have := (next_bound z hb).2 (by rw [(next_frame z).2.2]; exact hpos)
  rw [(next_frame z).2.2] at this
  exact this

def doctypeInput : List Nat := [60, 33, 68, 79, 67, 84, 89, 80, 69, 32, 104, 116, 109, 108, 62]  -- "<!DOCTYPE html>"

/-- The old witness of finding `maxbuf-overshoot-markup-decl` (`<!DOCTYPE html>`
with `SetMaxBuf(5)` used to give `Raw() = "<!DOCT"`, 6 bytes; 7 with AllowCDATA)
now satisfies the statement: the bogus comment stops at the limit. -/
example : (tokenizeAll (newTokenizer doctypeInput [] 5 false .eof)).1 = [⟨5, 0, 5⟩] := by decide +kernel
example : (tokenizeAll (newTokenizer doctypeInput [] 5 true .eof)).1 = [⟨5, 0, 5⟩] := by decide +kernel

/-- without a limit the same input is one Doctype token covering everything -/
example : (tokenizeAll (newTokenizer doctypeInput [] 0 false .eof)).1 = [⟨6, 0, 15⟩] := by decide +kernel
/-- `<a>x</a` : StartTag, Text, and the unterminated end tag is the ErrorToken's raw -/
example : (tokenizeAll (newTokenizer [60, 97, 62, 120, 60, 47, 97] [] 0 false .eof)).1 = [⟨2, 0, 3⟩, ⟨1, 3, 4⟩] := by
  decide +kernel
example : (tokenizeAll (newTokenizer [60, 97, 62, 120, 60, 47, 97] [] 0 false .eof)).2.rawEnd = 7 := by decide +kernel

end Exact

end NetVerif.Proofs.C39
