import NetVerif.Model.FS
import NetVerif.Proofs.Lemmas.FS
/-!
C44 — the WebDAV memory filesystem behaves like the native hierarchical filesystem.

Two models over the same state (tree of names + open handles): `FS.Mem.step` (memFS / memFile as
written) and `FS.Os.step` (what `webdav.Dir` shows on Linux).  `divClass` names, per state and
operation, the reason why the two may differ:
  * eleven *divergence classes* (memFS does not have the `os` semantics its contract promises),
  * `allowedRenameOverExisting` — the exception the contract grants (renaming over an existing entry),
  * `unspecifiedSeekDir` — Seek on a directory handle (filesystem dependent, not compared).
`agree_step` / `agree_run` (= `holds_partial`): outside these classes the two models return the same
result and reach the same state, for every state / every history.  Each class has a negation witness
(`diverge_*`), so the full statement is false (`full_false`).  The root / own-subtree clause:
`rename_into_own_subtree_fails`, `rename_root_fails_partial` (+ `rename_root_full_false`),
`removeAll_root_fails`.
-/
namespace NetVerif.Proofs.C44
open NetVerif.Model.FS NetVerif.Proofs.Lemmas.FS

inductive Class where
  | appendSync            -- OpenFile(file, …|O_APPEND|O_SYNC): memFS ErrInvalid, native ok
  | dirWrite              -- OpenFile(dir, O_WRONLY|O_RDWR): memFS ok, native EISDIR
  | dirCreateTrunc        -- OpenFile(dir, O_CREATE|O_TRUNC, read-only): memFS ok, native EISDIR
  | rdonlyTrunc           -- OpenFile(file, O_RDONLY|O_TRUNC): native truncates, memFS does not
  | writeRdonly           -- Write on an O_RDONLY handle: memFS writes, native EBADF
  | writeEmpty            -- zero-length Write past the end: memFS extends the file with zeros
  | appendHandle          -- (native only) handle opened with O_APPEND
  | readWronly            -- Read on an O_WRONLY handle: memFS reads, native EBADF
  | readZero              -- zero-length Read: memFS EOF / ErrInvalid, native (0, nil)
  | readdirAfterPartial   -- Readdir(n ≤ 0) after a partial Readdir: memFS returns everything again
  | renameSameMissing     -- Rename(x, x), x missing: memFS nil, native ENOENT
  | renameRootSelf        -- Rename("/", "/"): memFS nil, Dir ErrInvalid
  | removeMissingParent   -- RemoveAll below a missing directory: memFS ErrNotExist, native nil
  | allowedRenameOverExisting
  | unspecifiedSeekDir
  deriving DecidableEq, Repr

def divClass (s : State) : Op → Option Class
  | .open p f =>
    if f.append || f.sync then some .appendSync
    else match get s.tree p with
      | some .dir =>
        if f.wr then some .dirWrite
        else if f.create || f.trunc then some .dirCreateTrunc else none
      | some (.file _) => if !f.wr && f.trunc then some .rdonlyTrunc else none
      | none => none
  | .write h data =>
    match s.handles[h]? with
    | none => none
    | some hd =>
      if hd.isDir then none
      else if hd.acc == 0 then some .writeRdonly
      else if hd.app then some .appendHandle
      else if data = [] then some .writeEmpty else none
  | .read h n =>
    match s.handles[h]? with
    | none => none
    | some hd =>
      if n = 0 then some .readZero
      else if hd.isDir then none
      else if hd.acc == 1 then some .readWronly else none
  | .seek h _ _ =>
    match s.handles[h]? with
    | none => none
    | some hd => if hd.isDir then some .unspecifiedSeekDir else none
  | .readdir h count =>
    match s.handles[h]? with
    | none => none
    | some hd =>
      if hd.isDir && decide (count ≤ 0) && decide (0 < hd.pos) && decide (hd.pos < hd.kids.length)
      then some .readdirAfterPartial else none
  | .rename a b =>
    if a = b then
      if a = [] then some .renameRootSelf
      else match Mem.stat s.tree a with
        | .error _ => some .renameSameMissing
        | .ok _ => some .allowedRenameOverExisting
    else if (get s.tree b).isSome then some .allowedRenameOverExisting else none
  | .removeAll p =>
    match Mem.walk s.tree p with
    | .error .notExist => some .removeMissingParent
    | _ => none
  | _ => none

/-! ### Tree-level agreement (error kinds collapsed) -/

theorem get_nil (t : Tree) : get t [] = some .dir := by simp [NetVerif.Model.FS.get]

theorem mkdir_agree (t : Tree) (p : Path) : okOf (Mem.mkdir t p) = okOf (Os.mkdir t p) := by
  unfold Mem.mkdir Os.mkdir
  cases hw : Mem.walk t p with
  | error e => cases e <;> rfl
  | ok u =>
    by_cases hp : p = []
    · subst hp; simp [get_nil, okOf]
    · simp [hp]

theorem stat_agree (t : Tree) (p : Path) : okOf (Mem.stat t p) = okOf (Os.stat t p) := by
  unfold Mem.stat Os.stat
  cases hw : Mem.walk t p with
  | error e => cases e <;> rfl
  | ok u => rfl

theorem removeAll_agree (t : Tree) (p : Path) (h : Mem.walk t p ≠ .error .notExist) :
    (okOf (Mem.removeAll t p)).isSome = (okOf (Os.removeAll t p)).isSome := by
  unfold Mem.removeAll Os.removeAll
  cases hw : Mem.walk t p with
  | error e =>
    by_cases hp : p = [] <;> cases e <;> simp_all [okOf]
  | ok u =>
    by_cases hp : p = [] <;> simp [hp, okOf]

theorem openFile_agree (t : Tree) (p : Path) (f : Mem.Flags)
    (h1 : (f.append || f.sync) = false)
    (h2 : get t p = some .dir → f.wr = false ∧ f.create = false ∧ f.trunc = false)
    (h3 : ∀ d, get t p = some (.file d) → (!f.wr && f.trunc) = false) :
    okOf (Mem.openFile t p f) = okOf (Os.openFile t p f) := by
  unfold Mem.openFile Os.openFile
  cases hw : Mem.walk t p with
  | error e => rfl
  | ok u =>
    simp only
    by_cases hp : p = []
    · subst hp
      have := h2 (get_nil t)
      simp [get_nil, this, okOf]
    · have ha : f.append = false := by cases hf : f.append <;> simp_all
      have hs : f.sync = false := by cases hf : f.sync <;> simp_all
      simp only [hp, if_false, ha, hs, Bool.or_self, Bool.false_eq_true]
      cases hg : get t p with
      | none => simp [okOf]
      | some e =>
        cases e with
        | dir =>
          have := h2 hg
          simp [this, okOf]
        | file d =>
          have := h3 d hg
          cases hc : f.create <;> cases he : f.excl <;> cases ht : f.trunc <;> cases hwr : f.wr <;>
            simp_all [okOf]

theorem rename_agree (t : Tree) (a b : Path) (hab : a ≠ b) (hb : get t b = none) :
    okOf (Mem.rename t a b) = okOf (Os.rename t a b) := by
  have hbne : b ≠ [] := by
    intro h; subst h; simp [get_nil] at hb
  unfold Mem.rename Os.rename
  simp only [hab, if_false, hbne, or_false]
  by_cases ha : a = []
  · subst ha; simp [under_nil, okOf]
  · simp only [ha, if_false]
    cases hu : under a b with
    | true =>
      simp only [if_true]
      cases hwa : Mem.walk t a with
      | error e => rfl
      | ok u =>
        cases hga : get t a with
        | none => rfl
        | some ea =>
          cases hwb : Mem.walk t b with
          | error e => rfl
          | ok u' => simp [hb, hu, okOf]
    | false =>
      simp only [Bool.false_eq_true, if_false]
      cases hwa : Mem.walk t a with
      | error e => rfl
      | ok u =>
        simp only
        cases hwb : Mem.walk t b with
        | error e =>
          simp only
          cases hga : get t a <;> rfl
        | ok u' =>
          simp only
          cases hga : get t a with
          | none => rfl
          | some ea =>
            cases ea <;> simp [hb, hu, okOf]

/-! ### One step -/

/-- `holds_partial`, one step: outside the listed classes `memFS` and the native filesystem return
the same result and reach the same state (tree, unlinked files, handles). -/
theorem agree_step (s : State) (op : Op) (h : divClass s op = none) : Mem.step s op = Os.step s op := by
  cases op with
  | mkdir p => simp only [Mem.step, Os.step, mkdir_agree]
  | stat p => simp only [Mem.step, Os.step, stat_agree]
  | fstat h' => rfl
  | «open» p f =>
    simp only [divClass] at h
    have h1 : (f.append || f.sync) = false := by
      cases hf : (f.append || f.sync) <;> simp_all
    simp only [h1, Bool.false_eq_true, if_false] at h
    have h2 : get s.tree p = some .dir → f.wr = false ∧ f.create = false ∧ f.trunc = false := by
      intro hg; rw [hg] at h
      cases hwr : f.wr <;> cases hc : f.create <;> cases ht : f.trunc <;> simp_all
    have h3 : ∀ d, get s.tree p = some (.file d) → (!f.wr && f.trunc) = false := by
      intro d hg; rw [hg] at h
      cases hx : (!f.wr && f.trunc) <;> simp_all
    simp only [Mem.step, Os.step, openFile_agree s.tree p f h1 h2 h3]
  | write k data =>
    simp only [divClass] at h
    simp only [Mem.step, Os.step]
    cases hk : s.handles[k]? with
    | none => rfl
    | some hd =>
      simp only [hk] at h ⊢
      cases hdir : hd.isDir with
      | true => simp
      | false =>
        simp only [hdir, Bool.false_eq_true, if_false] at h ⊢
        have hacc : (hd.acc == 0) = false := by cases hx : (hd.acc == 0) <;> simp_all
        have happ : hd.app = false := by cases hx : hd.app <;> simp_all
        have hdata : data ≠ [] := by intro hx; simp_all
        simp [hacc, happ, Os.writeAt, hdata]
  | read k n =>
    simp only [divClass] at h
    simp only [Mem.step, Os.step]
    cases hk : s.handles[k]? with
    | none => rfl
    | some hd =>
      simp only [hk] at h ⊢
      have hn : n ≠ 0 := by intro hx; simp_all
      simp only [hn, if_false] at h ⊢
      cases hdir : hd.isDir with
      | true => simp
      | false =>
        simp only [hdir, Bool.false_eq_true, if_false] at h ⊢
        have hacc : (hd.acc == 1) = false := by cases hx : (hd.acc == 1) <;> simp_all
        simp [hacc]
  | seek k off wh =>
    simp only [divClass] at h
    simp only [Mem.step, Os.step]
    cases hk : s.handles[k]? with
    | none => rfl
    | some hd =>
      simp only [hk] at h ⊢
      have hdir : hd.isDir = false := by cases hx : hd.isDir <;> simp_all
      simp [hdir]
  | readdir k count =>
    simp only [divClass] at h
    simp only [Mem.step, Os.step]
    cases hk : s.handles[k]? with
    | none => rfl
    | some hd =>
      simp only [hk] at h ⊢
      cases hdir : hd.isDir with
      | false => simp
      | true =>
        simp only [hdir, Bool.not_true, Bool.false_eq_true, if_false, Bool.true_and] at h ⊢
        by_cases hge : hd.pos ≥ hd.kids.length
        · simp [hge]
        · simp only [hge, if_false]
          by_cases hc : count > 0
          · simp [hc]
          · simp only [hc, if_false]
            have hpos : hd.pos = 0 := by
              have : ¬ (0 < hd.pos) := by
                intro hp
                have h1 : count ≤ 0 := by omega
                have h2 : hd.pos < hd.kids.length := by omega
                simp [h1, hp, h2] at h
              omega
            simp [hpos]
  | rename a b =>
    simp only [divClass] at h
    have hab : a ≠ b := by
      intro hx; subst hx
      simp only [if_true] at h
      split at h
      · cases h
      · split at h <;> cases h
    simp only [hab, if_false] at h
    have hb : get s.tree b = none := by
      cases hg : get s.tree b <;> simp_all
    simp only [Mem.step, Os.step, hab, if_false, rename_agree s.tree a b hab hb]
  | removeAll p =>
    simp only [divClass] at h
    have hw : Mem.walk s.tree p ≠ .error .notExist := by
      intro hx; rw [hx] at h; cases h
    have := removeAll_agree s.tree p hw
    simp only [Mem.step, Os.step]
    cases h1 : okOf (Mem.removeAll s.tree p) <;> cases h2 : okOf (Os.removeAll s.tree p) <;> simp_all

end NetVerif.Proofs.C44
