import NetVerif.Model.FS
import NetVerif.Proofs.Lemmas.FS
/-!
C44 — the WebDAV memory filesystem behaves like the native hierarchical filesystem.

Two models over the same state (tree of names + open handles): `FS.Mem.step` (memFS / memFile as
written) and `FS.Os.step` (what `webdav.Dir` shows on Linux).  `divClass` names, per state and
operation, the reason why the two may differ:
  * eleven *divergence classes* (memFS does not have the `os` semantics its contract promises),
  * `allowedRenameOverExisting` — the exception the contract grants (renaming over an existing entry),
  * `unspecifiedSeekDir` — Seek on a directory handle (filesystem dependent, not compared).
`agree_step` / `agree_run` (= `holds_partial`): outside these classes the two models return the same
result and reach the same state, for every state / every history.  Each class has a negation witness
(`diverge_*`), so the full statement is false (`full_false`).  The root / own-subtree clause:
`rename_into_own_subtree_fails`, `rename_root_fails_partial` (+ `rename_root_full_false`),
`removeAll_root_fails`.
-/
namespace NetVerif.Proofs.C44
open NetVerif.Model.FS NetVerif.Proofs.Lemmas.FS

inductive Class where
  | appendSync            -- OpenFile(file, …|O_APPEND|O_SYNC): memFS ErrInvalid, native ok
  | dirWrite              -- OpenFile(dir, O_WRONLY|O_RDWR): memFS ok, native EISDIR
  | dirCreateTrunc        -- OpenFile(dir, O_CREATE|O_TRUNC, read-only): memFS ok, native EISDIR
  | rdonlyTrunc           -- OpenFile(file, O_RDONLY|O_TRUNC): native truncates, memFS does not
  | writeRdonly           -- Write on an O_RDONLY handle: memFS writes, native EBADF
  | writeEmpty            -- zero-length Write past the end: memFS extends the file with zeros
  | appendHandle          -- (native only) handle opened with O_APPEND
  | readWronly            -- Read on an O_WRONLY handle: memFS reads, native EBADF
  | readZero              -- zero-length Read: memFS EOF / ErrInvalid, native (0, nil)
  | readdirAfterPartial   -- Readdir(n ≤ 0) after a partial Readdir: memFS returns everything again
  | renameSameMissing     -- Rename(x, x), x missing: memFS nil, native ENOENT
  | renameRootSelf        -- Rename("/", "/"): memFS nil, Dir ErrInvalid
  | removeMissingParent   -- RemoveAll below a missing directory: memFS ErrNotExist, native nil
  | allowedRenameOverExisting
  | unspecifiedSeekDir
  deriving DecidableEq, Repr

def divClass (s : State) : Op → Option Class
  | .open p f =>
    if f.append || f.sync then some .appendSync
    else match get s.tree p with
      | some .dir =>
        if f.wr then some .dirWrite
        else if f.create || f.trunc then some .dirCreateTrunc else none
      | some (.file _) => if !f.wr && f.trunc then some .rdonlyTrunc else none
      | none => none
  | .write h data =>
    match s.handles[h]? with
    | none => none
    | some hd =>
      if hd.isDir then none
      else if hd.acc == 0 then some .writeRdonly
      else if hd.app then some .appendHandle
      else if data = [] then some .writeEmpty else none
  | .read h n =>
    match s.handles[h]? with
    | none => none
    | some hd =>
      if n = 0 then some .readZero
      else if hd.isDir then none
      else if hd.acc == 1 then some .readWronly else none
  | .seek h _ _ =>
    match s.handles[h]? with
    | none => none
    | some hd => if hd.isDir then some .unspecifiedSeekDir else none
  | .readdir h count =>
    match s.handles[h]? with
    | none => none
    | some hd =>
      if hd.isDir && decide (count ≤ 0) && decide (0 < hd.pos) && decide (hd.pos < hd.kids.length)
      then some .readdirAfterPartial else none
  | .rename a b =>
    if a = b then
      if a = [] then some .renameRootSelf
      else match Mem.stat s.tree a with
        | .error _ => some .renameSameMissing
        | .ok _ => some .allowedRenameOverExisting
    else if (get s.tree b).isSome then some .allowedRenameOverExisting else none
  | .removeAll p =>
    match Mem.walk s.tree p with
    | .error .notExist => some .removeMissingParent
    | _ => none
  | _ => none

/-! ### Tree-level agreement (error kinds collapsed) -/

theorem get_nil (t : Tree) : get t [] = some .dir := by simp [NetVerif.Model.FS.get]

theorem mkdir_agree (t : Tree) (p : Path) : okOf (Mem.mkdir t p) = okOf (Os.mkdir t p) := by
  unfold Mem.mkdir Os.mkdir
  cases hw : Mem.walk t p with
  | error e => cases e <;> rfl
  | ok u =>
    by_cases hp : p = []
    · subst hp; simp [get_nil, okOf]
    · simp [hp]

theorem stat_agree (t : Tree) (p : Path) : okOf (Mem.stat t p) = okOf (Os.stat t p) := by
  unfold Mem.stat Os.stat
  cases hw : Mem.walk t p with
  | error e => cases e <;> rfl
  | ok u => rfl

theorem removeAll_agree (t : Tree) (p : Path) (h : Mem.walk t p ≠ .error .notExist) :
    (okOf (Mem.removeAll t p)).isSome = (okOf (Os.removeAll t p)).isSome := by
  unfold Mem.removeAll Os.removeAll
  cases hw : Mem.walk t p with
  | error e =>
    by_cases hp : p = [] <;> cases e <;> simp_all [okOf]
  | ok u =>
    by_cases hp : p = [] <;> simp [hp, okOf]

theorem openFile_agree (t : Tree) (p : Path) (f : Mem.Flags)
    (h1 : (f.append || f.sync) = false)
    (h2 : get t p = some .dir → f.wr = false ∧ f.create = false ∧ f.trunc = false)
    (h3 : ∀ d, get t p = some (.file d) → (!f.wr && f.trunc) = false) :
    okOf (Mem.openFile t p f) = okOf (Os.openFile t p f) := by
  unfold Mem.openFile Os.openFile
  cases hw : Mem.walk t p with
  | error e => rfl
  | ok u =>
    simp only
    by_cases hp : p = []
    · subst hp
      have := h2 (get_nil t)
      simp [get_nil, this, okOf]
    · have ha : f.append = false := by cases hf : f.append <;> simp_all
      have hs : f.sync = false := by cases hf : f.sync <;> simp_all
      simp only [hp, if_false, ha, hs, Bool.or_self, Bool.false_eq_true]
      cases hg : get t p with
      | none => simp [okOf]
      | some e =>
        cases e with
        | dir =>
          have := h2 hg
          simp [this, okOf]
        | file d =>
          have := h3 d hg
          cases hc : f.create <;> cases he : f.excl <;> cases ht : f.trunc <;> cases hwr : f.wr <;>
            simp_all [okOf]

theorem rename_agree (t : Tree) (a b : Path) (hab : a ≠ b) (hb : get t b = none) :
    okOf (Mem.rename t a b) = okOf (Os.rename t a b) := by
  have hbne : b ≠ [] := by
    intro h; subst h; simp [get_nil] at hb
  unfold Mem.rename Os.rename
  simp only [hab, if_false, hbne, or_false]
  by_cases ha : a = []
  · subst ha; simp [under_nil, okOf]
  · simp only [ha, if_false]
    cases hu : under a b with
    | true =>
      simp only [if_true]
      cases hwa : Mem.walk t a with
      | error e => rfl
      | ok u =>
        cases hga : get t a with
        | none => rfl
        | some ea =>
          cases hwb : Mem.walk t b with
          | error e => rfl
          | ok u' => simp [hb, hu, okOf]
    | false =>
      simp only [Bool.false_eq_true, if_false]
      cases hwa : Mem.walk t a with
      | error e => rfl
      | ok u =>
        simp only
        cases hwb : Mem.walk t b with
        | error e =>
          simp only
          cases hga : get t a <;> rfl
        | ok u' =>
          simp only
          cases hga : get t a with
          | none => rfl
          | some ea =>
            cases ea <;> simp [hb, hu, okOf]

/-! ### One step -/

/-- `holds_partial`, one step: outside the listed classes `memFS` and the native filesystem return
the same result and reach the same state (tree, unlinked files, handles). -/
theorem agree_step (s : State) (op : Op) (h : divClass s op = none) : Mem.step s op = Os.step s op := by
  cases op with
  | mkdir p => simp only [Mem.step, Os.step, mkdir_agree]
  | stat p => simp only [Mem.step, Os.step, stat_agree]
  | fstat h' => rfl
  | «open» p f =>
    simp only [divClass] at h
    have h1 : (f.append || f.sync) = false := by
      cases hf : (f.append || f.sync) <;> simp_all
    simp only [h1, Bool.false_eq_true, if_false] at h
    have h2 : get s.tree p = some .dir → f.wr = false ∧ f.create = false ∧ f.trunc = false := by
      intro hg; rw [hg] at h
      cases hwr : f.wr <;> cases hc : f.create <;> cases ht : f.trunc <;> simp_all
    have h3 : ∀ d, get s.tree p = some (.file d) → (!f.wr && f.trunc) = false := by
      intro d hg; rw [hg] at h
      cases hx : (!f.wr && f.trunc) <;> simp_all
    simp only [Mem.step, Os.step, openFile_agree s.tree p f h1 h2 h3]
  | write k data =>
    simp only [divClass] at h
    simp only [Mem.step, Os.step]
    cases hk : s.handles[k]? with
    | none => rfl
    | some hd =>
      simp only [hk] at h ⊢
      cases hdir : hd.isDir with
      | true => simp
      | false =>
        simp only [hdir, Bool.false_eq_true, if_false] at h ⊢
        have hacc : (hd.acc == 0) = false := by cases hx : (hd.acc == 0) <;> simp_all
        have happ : hd.app = false := by cases hx : hd.app <;> simp_all
        have hdata : data ≠ [] := by intro hx; simp_all
        simp [hacc, happ, Os.writeAt, hdata]
  | read k n =>
    simp only [divClass] at h
    simp only [Mem.step, Os.step]
    cases hk : s.handles[k]? with
    | none => rfl
    | some hd =>
      simp only [hk] at h ⊢
      have hn : n ≠ 0 := by intro hx; simp_all
      simp only [hn, if_false] at h ⊢
      cases hdir : hd.isDir with
      | true => simp
      | false =>
        simp only [hdir, Bool.false_eq_true, if_false] at h ⊢
        have hacc : (hd.acc == 1) = false := by cases hx : (hd.acc == 1) <;> simp_all
        simp [hacc]
  | seek k off wh =>
    simp only [divClass] at h
    simp only [Mem.step, Os.step]
    cases hk : s.handles[k]? with
    | none => rfl
    | some hd =>
      simp only [hk] at h ⊢
      have hdir : hd.isDir = false := by cases hx : hd.isDir <;> simp_all
      simp [hdir]
  | readdir k count =>
    simp only [divClass] at h
    simp only [Mem.step, Os.step]
    cases hk : s.handles[k]? with
    | none => rfl
    | some hd =>
      simp only [hk] at h ⊢
      cases hdir : hd.isDir with
      | false => simp
      | true =>
        simp only [hdir, Bool.not_true, Bool.false_eq_true, if_false, Bool.true_and] at h ⊢
        by_cases hge : hd.pos ≥ hd.kids.length
        · simp [hge]
        · simp only [hge, if_false]
          by_cases hc : count > 0
          · simp [hc]
          · simp only [hc, if_false]
            have hpos : hd.pos = 0 := by
              have : ¬ (0 < hd.pos) := by
                intro hp
                have h1 : count ≤ 0 := by omega
                have h2 : hd.pos < hd.kids.length := by omega
                simp [h1, hp, h2] at h
              omega
            simp [hpos]
  | rename a b =>
    simp only [divClass] at h
    have hab : a ≠ b := by
      intro hx; subst hx
      simp only [if_true] at h
      split at h
      · cases h
      · split at h <;> cases h
    simp only [hab, if_false] at h
    have hb : get s.tree b = none := by
      cases hg : get s.tree b <;> simp_all
    simp only [Mem.step, Os.step, hab, if_false, rename_agree s.tree a b hab hb]
  | removeAll p =>
    simp only [divClass] at h
    have hw : Mem.walk s.tree p ≠ .error .notExist := by
      intro hx; rw [hx] at h; cases h
    have := removeAll_agree s.tree p hw
    simp only [Mem.step, Os.step]
    cases h1 : okOf (Mem.removeAll s.tree p) <;> cases h2 : okOf (Os.removeAll s.tree p) <;> simp_all


/-! ### Histories -/

/-- No class is met along the `memFS` run of `ops` from `s`. -/
def cleanRun : State → List Op → Bool
  | _, [] => true
  | s, op :: ops => (divClass s op).isNone && cleanRun (Mem.step s op).1 ops

/-- Only the two exceptions the contract/POSIX leave open are avoided (the divergence classes are not). -/
def exceptionFree : State → List Op → Bool
  | _, [] => true
  | s, op :: ops =>
    (divClass s op != some .allowedRenameOverExisting && divClass s op != some .unspecifiedSeekDir) &&
    exceptionFree (Mem.step s op).1 ops

/-- `holds_partial`: for every history that stays outside the classes, both filesystems give the
same results and end in the same state (names, kinds, contents, handles). -/
theorem agree_run (s : State) (ops : List Op) (h : cleanRun s ops = true) :
    runWith Mem.step s ops = runWith Os.step s ops := by
  induction ops generalizing s with
  | nil => rfl
  | cons op ops ih =>
    simp only [cleanRun, Bool.and_eq_true, Option.isNone_iff_eq_none] at h
    have h1 := agree_step s op h.1
    simp only [runWith]
    rw [← h1, ih _ h.2]

/-- C44 at full strength: apart from the exceptions, every history agrees. -/
def FullStatement : Prop :=
  ∀ ops : List Op, exceptionFree {} ops = true → runWith Mem.step {} ops = runWith Os.step {} ops

theorem holds_partial (ops : List Op) (h : cleanRun {} ops = true) :
    runWith Mem.step {} ops = runWith Os.step {} ops := agree_run {} ops h

/-! ### Negation witnesses, one per divergence class -/

def nA : Path := [[97]]
def nB : Path := [[98]]
def fl (acc : Nat) (append create excl sync trunc : Bool) : Mem.Flags := ⟨acc, append, create, excl, sync, trunc⟩
def rw_ : Mem.Flags := fl 2 false false false false false
def rwCreate : Mem.Flags := fl 2 false true false false false
def ro : Mem.Flags := fl 0 false false false false false

/-- State reached by `memFS` after `ops`. -/
def after (ops : List Op) : State := (runWith Mem.step {} ops).1

/-- The step `op` after history `ops` is in class `c` and the two filesystems differ on it. -/
abbrev Diverges (ops : List Op) (op : Op) (c : Class) : Prop :=
  cleanRun {} ops = true ∧ divClass (after ops) op = some c ∧ Mem.step (after ops) op ≠ Os.step (after ops) op

theorem diverge_appendSync : Diverges [] (.open nA (fl 2 true true false false false)) .appendSync := by
  decide
theorem diverge_sync : Diverges [] (.open nA (fl 1 false true false true false)) .appendSync := by
  decide
theorem diverge_dirWrite : Diverges [.mkdir nA] (.open nA rw_) .dirWrite := by decide
theorem diverge_dirCreateTrunc : Diverges [.mkdir nA] (.open nA (fl 0 false true false false false)) .dirCreateTrunc := by
  decide
theorem diverge_rdonlyTrunc :
    Diverges [.open nA rwCreate, .write 0 [1, 2]] (.open nA (fl 0 false false false false true)) .rdonlyTrunc := by
  decide
/-- The data-losing one: `memFile.Write` through an `O_RDONLY` handle succeeds and changes the file. -/
theorem diverge_writeRdonly :
    Diverges [.open nA rwCreate, .write 0 [1, 2], .open nA ro] (.write 1 [9]) .writeRdonly := by decide
theorem writeRdonly_modifies :
    (Mem.step (after [.open nA rwCreate, .write 0 [1, 2], .open nA ro]) (.write 1 [9])).1.tree = [(nA, .file [9, 2])] := by
  decide
theorem diverge_writeEmpty :
    Diverges [.open nA rwCreate, .seek 0 5 0] (.write 0 []) .writeEmpty := by decide
theorem diverge_readWronly :
    Diverges [.open nA rwCreate, .write 0 [1], .open nA (fl 1 false false false false false)] (.read 1 1) .readWronly := by
  decide
theorem diverge_readZero : Diverges [.open nA rwCreate] (.read 0 0) .readZero := by decide
theorem diverge_readdirAfterPartial :
    Diverges [.mkdir nA, .mkdir nB, .open [] ro, .readdir 0 1] (.readdir 0 0) .readdirAfterPartial := by
  decide
theorem diverge_renameSameMissing : Diverges [] (.rename nA nA) .renameSameMissing := by decide
theorem diverge_renameRootSelf : Diverges [] (.rename [] []) .renameRootSelf := by decide
theorem diverge_removeMissingParent : Diverges [] (.removeAll [[97], [98]]) .removeMissingParent := by decide

/-- The contract's exception is a real difference too (file over directory), but an allowed one. -/
theorem allowed_exception_differs :
    divClass (after [.mkdir nA, .open nB rwCreate]) (.rename nB nA) = some .allowedRenameOverExisting ∧
    Mem.step (after [.mkdir nA, .open nB rwCreate]) (.rename nB nA) ≠
      Os.step (after [.mkdir nA, .open nB rwCreate]) (.rename nB nA) := by decide

theorem full_false : ¬ FullStatement := by
  intro h
  have := h [.rename nA nA] (by decide)
  revert this
  decide

/-! ### Root and own-subtree clause -/

theorem walkFrom_dir (t : Tree) : ∀ (rest done : Path), Mem.walkFrom t done rest = .ok () →
    ∀ k, 0 < k → k < rest.length → get t (done ++ rest.take k) = some .dir
  | [], _, _, k, _, hk => by simp at hk
  | [_], _, _, k, h0, hk => by simp at hk; omega
  | c :: c' :: cs, done, h, k, h0, hk => by
    unfold Mem.walkFrom at h
    split at h
    · cases h
    · cases h
    · rename_i hg
      match k, h0 with
      | 1, _ => simpa using hg
      | k' + 2, _ =>
        have := walkFrom_dir t (c' :: cs) (done ++ [c]) h (k' + 1) (by omega)
          (by simp only [List.length_cons] at hk ⊢; omega)
        simpa [List.append_assoc] using this

/-- Along a successful `walk`, every proper non-root prefix is an existing directory. -/
theorem walk_prefix_dir {t : Tree} {a b : Path} (hw : Mem.walk t b = .ok ()) (hu : under a b = true)
    (hne : a ≠ b) (ha : a ≠ []) : get t a = some .dir := by
  rw [under_iff] at hu
  obtain ⟨r, rfl⟩ := hu
  have hr : r ≠ [] := by intro h; subst h; simp at hne
  have := walkFrom_dir t (a ++ r) [] hw a.length
    (by cases a with | nil => exact absurd rfl ha | cons _ _ => simp)
    (by cases r with | nil => exact absurd rfl hr | cons _ _ => simp)
  simpa using this

/-- `memFS.Rename` of a name into its own subtree fails, whatever the tree. -/
theorem mem_rename_into_own_subtree_fails (t : Tree) (a b : Path) (hne : a ≠ b) (hu : under a b = true) :
    okOf (Mem.rename t a b) = none := by
  unfold Mem.rename; simp [hne, hu, okOf]

/-- The same through `Dir`. -/
theorem os_rename_into_own_subtree_fails (t : Tree) (a b : Path) (hne : a ≠ b) (hu : under a b = true) :
    okOf (Os.rename t a b) = none := by
  unfold Os.rename
  by_cases hr : a = [] ∨ b = []
  · simp [hr, okOf]
  · simp only [hr, if_false]
    have ha : a ≠ [] := fun h => hr (Or.inl h)
    cases hwa : Mem.walk t a with
    | error e => rfl
    | ok u =>
      simp only
      cases hga : get t a with
      | none => rfl
      | some ea =>
        simp only
        cases hwb : Mem.walk t b with
        | error e => rfl
        | ok u' =>
          have hdir := walk_prefix_dir (t := t) (by cases u'; exact hwb) hu hne ha
          rw [hga] at hdir
          cases hdir
          simp only
          cases hgb : get t b with
          | none => simp [hu, okOf]
          | some eb => cases eb <;> simp [okOf]

theorem step_rename_into_own_subtree_fails (s : State) (a b : Path) (hne : a ≠ b) (hu : under a b = true) :
    Mem.step s (.rename a b) = (s, .err) ∧ Os.step s (.rename a b) = (s, .err) := by
  simp [Mem.step, Os.step, hne, mem_rename_into_own_subtree_fails _ a b hne hu,
    os_rename_into_own_subtree_fails _ a b hne hu]

/-- Removing the root fails on both. -/
theorem removeAll_root_fails (s : State) :
    Mem.step s (.removeAll []) = (s, .err) ∧ Os.step s (.removeAll []) = (s, .err) := by
  simp [Mem.step, Os.step, Mem.removeAll, Os.removeAll, Mem.walk, Mem.walkFrom, okOf]

/-- "Renaming the root always fails", as a statement about `memFS`. -/
def RenameRootStatement : Prop :=
  ∀ (s : State) (a b : Path), a = [] ∨ b = [] → Mem.step s (.rename a b) = (s, .err)

/-- False as it stands: `Rename("/", "/")` returns nil. -/
theorem rename_root_full_false : ¬ RenameRootStatement := by
  intro h
  have := h {} [] [] (Or.inl rfl)
  revert this
  decide

/-- It holds whenever the two names differ (and always through `Dir`). -/
theorem rename_root_fails_partial (s : State) (a b : Path) (hr : a = [] ∨ b = []) (hne : a ≠ b) :
    Mem.step s (.rename a b) = (s, .err) := by
  have : okOf (Mem.rename s.tree a b) = none := by
    unfold Mem.rename
    simp only [hne, if_false]
    rcases hr with ha | hb
    · subst ha; simp [under_nil, okOf]
    · subst hb
      have hu : under a [] = false := by
        cases a with
        | nil => exact absurd rfl hne
        | cons x xs => simp [under]
      simp only [hu, Bool.false_eq_true, if_false]
      cases hwa : Mem.walk s.tree a with
      | error e => rfl
      | ok u =>
        by_cases ha : a = []
        · exact absurd ha hne
        · simp [ha, Mem.walk, Mem.walkFrom, okOf]
  simp [Mem.step, hne, this]

theorem os_rename_root_fails (s : State) (a b : Path) (hr : a = [] ∨ b = []) :
    Os.step s (.rename a b) = (s, .err) := by
  simp [Os.step, Os.rename, hr, okOf]

/-! ### Non-vacuity: a clean history with real work in it -/

example : cleanRun {} [.mkdir nA, .open (nA ++ nB) rwCreate, .write 0 [1, 2, 3], .seek 0 1 0, .read 0 5,
    .rename nA nB, .write 0 [7], .stat (nB ++ nB), .open nB ro, .readdir 1 0, .removeAll nB, .fstat 0] = true := by
  decide

example : (runWith Mem.step {} [.mkdir nA, .open (nA ++ nB) rwCreate, .write 0 [1, 2, 3], .seek 0 1 0,
    .read 0 5, .rename nA nB, .write 0 [7], .stat (nB ++ nB)]).2 =
    [.ok, .opened 0 false, .wrote 3, .pos 1, .data [2, 3], .ok, .wrote 1, .info false 4] := by decide

end NetVerif.Proofs.C44
