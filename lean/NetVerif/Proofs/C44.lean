import NetVerif.Model.FS
import NetVerif.Proofs.Lemmas.FS
/-!
C44 — the WebDAV memory filesystem behaves like the native hierarchical filesystem.

Two models over the same state (tree of names + open handles): `FS.Mem.step` (memFS / memFile as
written) and `FS.Os.step` (what `webdav.Dir` shows on Linux).  `divClass` names, per state and
operation, the reason why the two may still differ:
  * four *divergence classes* left unrepaired (known findings): a directory opened for writing
    (`dirWrite` — the package's own PROPPATCH opens collections `O_RDWR`), a directory opened read-only
    with `O_CREATE`/`O_TRUNC` (`dirCreateTrunc`), `O_RDONLY|O_TRUNC` on a file (`rdonlyTrunc`,
    unspecified by POSIX, Linux truncates);
  * `readdirSnapshot` (known finding): the first Readdir on a directory handle opened before the
    directory changed — memFile lists its open-time snapshot (documented design, copyFiles relies on it);
  * `allowedRenameOverExisting` — the exception the contract grants (renaming over an existing entry);
  * `unspecifiedSeekDir` — Seek on a directory handle (filesystem dependent, not compared).
`agree_step` / `agree_run` (= `holds_partial`): outside these classes the two models return the same
result and reach the same state, for every state / every history.  Each remaining class has a negation
witness (`diverge_*`), so the unrestricted statement is still false (`full_false`).  The root /
own-subtree clause holds in full: `step_rename_into_own_subtree_fails`, `rename_root_fails`,
`removeAll_root_fails`.
History: nine further classes (access mode ignored by Read/Write, Rename(x,x) of a missing name or of
the root, zero-length Read/Write, Readdir after a partial Readdir, RemoveAll below a missing directory,
O_APPEND/O_SYNC rejected) were repaired upstream; their witnesses are now `example`s of agreement and
regression inputs in `corpus/C44/`.
-/
namespace NetVerif.Proofs.C44
open NetVerif.Model.FS NetVerif.Proofs.Lemmas.FS

inductive Class where
  | dirWrite              -- OpenFile(dir, O_WRONLY|O_RDWR): memFS ok, native EISDIR
  | dirCreateTrunc        -- OpenFile(dir, O_CREATE|O_TRUNC, read-only): memFS ok, native EISDIR
  | rdonlyTrunc           -- OpenFile(file, O_RDONLY|O_TRUNC): native truncates, memFS does not
  | readdirSnapshot       -- first Readdir after the directory changed: memFS lists it as of OpenFile, native as of now
  | allowedRenameOverExisting
  | unspecifiedSeekDir
  | unspecifiedOffsetLimit -- offsets beyond the native filesystem's maximum (memFS: up to what a slice can hold)
  deriving DecidableEq, Repr

def divClass (s : State) : Op → Option Class
  | .open p f =>
    match get s.tree p with
    | some .dir =>
      if f.wr then some .dirWrite
      else if f.create || f.trunc then some .dirCreateTrunc else none
    | some (.file _) => if !f.wr && f.trunc then some .rdonlyTrunc else none
    | none => none
  | .seek h off whence =>
    match s.handles[h]? with
    | none => none
    | some hd =>
      if hd.isDir then some .unspecifiedSeekDir
      else match seekPos (fileData s hd).length hd.pos off whence with
        | some np => if np > osMaxOffset then some .unspecifiedOffsetLimit else none
        | none => none
  | .write h data =>
    match s.handles[h]? with
    | none => none
    | some hd =>
      if (if hd.app then (fileData s hd).length else hd.pos) + data.length > osMaxOffset
      then some .unspecifiedOffsetLimit else none
  | .readdir h _ =>
    match s.handles[h]? with
    | none => none
    | some hd =>
      if hd.isDir && !hd.listed && decide (liveKids s hd ≠ some hd.kids) then some .readdirSnapshot else none
  | .rename _ b => if (get s.tree b).isSome then some .allowedRenameOverExisting else none
  | _ => none

/-! ### Tree-level agreement (error kinds collapsed) -/

theorem get_nil (t : Tree) : get t [] = some .dir := by simp [NetVerif.Model.FS.get]

theorem mkdir_agree (t : Tree) (p : Path) : okOf (Mem.mkdir t p) = okOf (Os.mkdir t p) := by
  unfold Mem.mkdir Os.mkdir
  cases hw : Mem.walk t p with
  | error e => cases e <;> rfl
  | ok u =>
    by_cases hp : p = []
    · subst hp; simp [get_nil, okOf]
    · simp [hp]

theorem stat_agree (t : Tree) (p : Path) : okOf (Mem.stat t p) = okOf (Os.stat t p) := by
  unfold Mem.stat Os.stat
  cases hw : Mem.walk t p with
  | error e => cases e <;> rfl
  | ok u => rfl

theorem removeAll_agree (t : Tree) (p : Path) :
    okOf (Mem.removeAll t p) = okOf (Os.removeAll t p) := by
  unfold Mem.removeAll Os.removeAll
  cases hw : Mem.walk t p with
  | error e =>
    by_cases hp : p = []
    · subst hp; simp [Mem.walk, Mem.walkFrom] at hw
    · cases e <;> simp [hp, okOf]
  | ok u =>
    by_cases hp : p = [] <;> simp [hp, okOf]

theorem openFile_agree (t : Tree) (p : Path) (f : Mem.Flags)
    (h2 : get t p = some .dir → f.wr = false ∧ f.create = false ∧ f.trunc = false)
    (h3 : ∀ d, get t p = some (.file d) → (!f.wr && f.trunc) = false) :
    okOf (Mem.openFile t p f) = okOf (Os.openFile t p f) := by
  unfold Mem.openFile Os.openFile
  cases hw : Mem.walk t p with
  | error e => rfl
  | ok u =>
    simp only
    by_cases hp : p = []
    · subst hp
      have := h2 (get_nil t)
      simp [get_nil, this, okOf]
    · simp only [hp, if_false]
      cases hg : get t p with
      | none => simp [okOf]
      | some e =>
        cases e with
        | dir =>
          have := h2 hg
          simp [this, okOf]
        | file d =>
          have := h3 d hg
          cases hc : f.create <;> cases he : f.excl <;> cases ht : f.trunc <;> cases hwr : f.wr <;>
            simp_all [okOf]

theorem rename_agree (t : Tree) (a b : Path) (hb : get t b = none) :
    okOf (Mem.rename t a b) = okOf (Os.rename t a b) := by
  have hbne : b ≠ [] := by
    intro h; subst h; simp [get_nil] at hb
  unfold Mem.rename Os.rename
  simp only [hbne, or_false]
  by_cases ha : a = []
  · subst ha
    have : ([] : Path) ≠ b := fun h => hbne h.symm
    simp [under_nil, okOf, this]
  · simp only [ha, if_false]
    by_cases hab : a = b
    · subst hab
      simp only [ne_eq, not_true_eq_false, false_and, if_false]
      cases hwa : Mem.walk t a with
      | error e => rfl
      | ok u => simp [hb, okOf]
    · cases hu : under a b with
      | true =>
        simp only [ne_eq, hab, not_false_eq_true, true_and, if_true]
        cases hwa : Mem.walk t a with
        | error e => rfl
        | ok u =>
          cases hga : get t a with
          | none => rfl
          | some ea =>
            cases hwb : Mem.walk t b with
            | error e => rfl
            | ok u' => simp [hb, hu, okOf]
      | false =>
        simp only [ne_eq, hab, not_false_eq_true, true_and, Bool.false_eq_true, if_false]
        cases hwa : Mem.walk t a with
        | error e => rfl
        | ok u =>
          simp only
          cases hwb : Mem.walk t b with
          | error e =>
            simp only
            cases hga : get t a <;> rfl
          | ok u' =>
            simp only
            cases hga : get t a with
            | none => rfl
            | some ea =>
              cases ea <;> simp [hb, hu, hab, okOf]

/-! ### One step -/

/-- `holds_partial`, one step: outside the listed classes `memFS` and the native filesystem return
the same result and reach the same state (tree, unlinked files, handles). -/
theorem agree_step (s : State) (op : Op) (h : divClass s op = none) : Mem.step s op = Os.step s op := by
  cases op with
  | mkdir p => simp only [Mem.step, Os.step, mkdir_agree]
  | stat p => simp only [Mem.step, Os.step, stat_agree]
  | fstat h' => rfl
  | write k data =>
    simp only [divClass] at h
    simp only [Mem.step, Os.step]
    cases hk : s.handles[k]? with
    | none => rfl
    | some hd =>
      simp only [hk] at h ⊢
      have hlim : ¬ ((if hd.app then (fileData s hd).length else hd.pos) + data.length > osMaxOffset) := by
        intro hx; simp [hx] at h
      have hlim2 : ¬ ((if hd.app then (fileData s hd).length else hd.pos) + data.length > memMaxAlloc) := by
        unfold osMaxOffset at hlim; unfold memMaxAlloc; omega
      simp [hlim, hlim2]
  | read k n => rfl
  | readdir k count =>
    simp only [divClass] at h
    simp only [Mem.step, Os.step]
    cases hk : s.handles[k]? with
    | none => rfl
    | some hd =>
      simp only [hk] at h ⊢
      cases hdir : hd.isDir with
      | false => simp
      | true =>
        simp only [hdir, Bool.not_true, Bool.false_eq_true, if_false, Bool.true_and] at h ⊢
        cases hl : hd.listed with
        | true => simp
        | false =>
          have : liveKids s hd = some hd.kids := by
            cases hx : decide (liveKids s hd ≠ some hd.kids) <;> simp_all
          simp [this]
  | removeAll p => simp only [Mem.step, Os.step, removeAll_agree]
  | «open» p f =>
    simp only [divClass] at h
    have h2 : get s.tree p = some .dir → f.wr = false ∧ f.create = false ∧ f.trunc = false := by
      intro hg; rw [hg] at h
      cases hwr : f.wr <;> cases hc : f.create <;> cases ht : f.trunc <;> simp_all
    have h3 : ∀ d, get s.tree p = some (.file d) → (!f.wr && f.trunc) = false := by
      intro d hg; rw [hg] at h
      cases hx : (!f.wr && f.trunc) <;> simp_all
    simp only [Mem.step, Os.step, openFile_agree s.tree p f h2 h3]
  | seek k off wh =>
    simp only [divClass] at h
    simp only [Mem.step, Os.step]
    cases hk : s.handles[k]? with
    | none => rfl
    | some hd =>
      simp only [hk] at h ⊢
      have hdir : hd.isDir = false := by cases hx : hd.isDir <;> simp_all
      simp only [hdir, Bool.false_eq_true, if_false] at h ⊢
      cases hsp : seekPos (fileData s hd).length hd.pos off wh with
      | none => rfl
      | some np =>
        simp only [hsp] at h ⊢
        have : ¬ np > osMaxOffset := by intro hx; simp [hx] at h
        simp [this]
  | rename a b =>
    simp only [divClass] at h
    have hb : get s.tree b = none := by
      cases hg : get s.tree b <;> simp_all
    simp only [Mem.step, Os.step, rename_agree s.tree a b hb]

/-! ### Histories -/

/-- No class is met along the `memFS` run of `ops` from `s`. -/
def cleanRun : State → List Op → Bool
  | _, [] => true
  | s, op :: ops => (divClass s op).isNone && cleanRun (Mem.step s op).1 ops

/-- Only the two exceptions the contract/POSIX leave open are avoided (the divergence classes are not). -/
def exceptionFree : State → List Op → Bool
  | _, [] => true
  | s, op :: ops =>
    (divClass s op != some .allowedRenameOverExisting && divClass s op != some .unspecifiedSeekDir &&
      divClass s op != some .unspecifiedOffsetLimit) &&
    exceptionFree (Mem.step s op).1 ops

/-- `holds_partial`: for every history that stays outside the classes, both filesystems give the
same results and end in the same state (names, kinds, contents, handles). -/
theorem agree_run (s : State) (ops : List Op) (h : cleanRun s ops = true) :
    runWith Mem.step s ops = runWith Os.step s ops := by
  induction ops generalizing s with
  | nil => rfl
  | cons op ops ih =>
    simp only [cleanRun, Bool.and_eq_true, Option.isNone_iff_eq_none] at h
    have h1 := agree_step s op h.1
    simp only [runWith]
    rw [← h1, ih _ h.2]

/-- C44 at full strength: apart from the exceptions, every history agrees. -/
def FullStatement : Prop :=
  ∀ ops : List Op, exceptionFree {} ops = true → runWith Mem.step {} ops = runWith Os.step {} ops

theorem holds_partial (ops : List Op) (h : cleanRun {} ops = true) :
    runWith Mem.step {} ops = runWith Os.step {} ops := agree_run {} ops h

/-! ### Negation witnesses, one per divergence class -/

def nA : Path := [[97]]
def nB : Path := [[98]]
def fl (acc : Nat) (append create excl sync trunc : Bool) : Mem.Flags := ⟨acc, append, create, excl, sync, trunc⟩
def rw_ : Mem.Flags := fl 2 false false false false false
def rwCreate : Mem.Flags := fl 2 false true false false false
def ro : Mem.Flags := fl 0 false false false false false

/-- State reached by `memFS` after `ops`. -/
def after (ops : List Op) : State := (runWith Mem.step {} ops).1

/-- The step `op` after history `ops` is in class `c` and the two filesystems differ on it. -/
abbrev Diverges (ops : List Op) (op : Op) (c : Class) : Prop :=
  cleanRun {} ops = true ∧ divClass (after ops) op = some c ∧ Mem.step (after ops) op ≠ Os.step (after ops) op

theorem diverge_dirWrite : Diverges [.mkdir nA] (.open nA rw_) .dirWrite := by decide
theorem diverge_dirCreateTrunc : Diverges [.mkdir nA] (.open nA (fl 0 false true false false false)) .dirCreateTrunc := by
  decide
theorem diverge_rdonlyTrunc :
    Diverges [.open nA rwCreate, .write 0 [1, 2]] (.open nA (fl 0 false false false false true)) .rdonlyTrunc := by
  decide

/-- The open-time snapshot: a directory opened before `Mkdir /b` still lists only `/a` on memFS. -/
theorem diverge_readdirSnapshot :
    Diverges [.mkdir nA, .open [] ro, .mkdir nB] (.readdir 0 0) .readdirSnapshot := by decide

/-! Former divergences, repaired upstream: the two filesystems now agree on the old witnesses. -/

/-- The step `op` after history `ops` lies outside every class and both filesystems agree on it. -/
abbrev Agrees (ops : List Op) (op : Op) : Prop :=
  cleanRun {} ops = true ∧ divClass (after ops) op = none ∧ Mem.step (after ops) op = Os.step (after ops) op

/-- `O_APPEND`, `O_SYNC`: accepted. -/
example : Agrees [] (.open nA (fl 2 true true false false false)) := by decide
example : Agrees [] (.open nA (fl 1 false true false true false)) := by decide
/-- Appending writes go to the end whatever the offset. -/
example : (runWith Mem.step {} [.open nA rwCreate, .write 0 [1, 2], .open nA (fl 1 true false false false false),
    .write 1 [3], .seek 0 0 0, .read 0 9]).2 =
    [.opened 0 false, .wrote 2, .opened 1 false, .wrote 1, .pos 0, .data [1, 2, 3]] := by decide
/-- Write through an `O_RDONLY` handle: refused, file unchanged. -/
example : Agrees [.open nA rwCreate, .write 0 [1, 2], .open nA ro] (.write 1 [9]) := by decide
example : Mem.step (after [.open nA rwCreate, .write 0 [1, 2], .open nA ro]) (.write 1 [9]) =
    (after [.open nA rwCreate, .write 0 [1, 2], .open nA ro], .err) := by decide
/-- Zero-length Write past the end: nothing happens. -/
example : Agrees [.open nA rwCreate, .seek 0 5 0] (.write 0 []) := by decide
/-- Read through an `O_WRONLY` handle: refused. -/
example : Agrees [.open nA rwCreate, .write 0 [1], .open nA (fl 1 false false false false false)] (.read 1 1) := by
  decide
/-- Zero-length Read: `(0, nil)`. -/
example : Agrees [.open nA rwCreate] (.read 0 0) := by decide
/-- Readdir(0) after a partial Readdir: the remaining entries. -/
example : Agrees [.mkdir nA, .mkdir nB, .open [] ro, .readdir 0 1] (.readdir 0 0) := by decide
/-- Rename(x, x) of a missing name, of the root: errors. -/
example : Agrees [] (.rename nA nA) := by decide
example : Mem.step {} (.rename [] []) = ({}, .err) ∧ Os.step {} (.rename [] []) = ({}, .err) := by decide
example : Mem.step {} (.rename nA nA) = ({}, .err) := by decide
/-- RemoveAll below a missing directory: nil. -/
example : Agrees [] (.removeAll [[97], [98]]) := by decide

/-- The contract's exception is a real difference too (file over directory), but an allowed one. -/
theorem allowed_exception_differs :
    divClass (after [.mkdir nA, .open nB rwCreate]) (.rename nB nA) = some .allowedRenameOverExisting ∧
    Mem.step (after [.mkdir nA, .open nB rwCreate]) (.rename nB nA) ≠
      Os.step (after [.mkdir nA, .open nB rwCreate]) (.rename nB nA) := by decide

theorem full_false : ¬ FullStatement := by
  intro h
  have := h [.mkdir nA, .open nA rw_] (by decide)
  revert this
  decide

/-! ### Holes read as zeros -/

/-- A Write at or beyond the end of the contents leaves the old contents, then zeros up to the
offset, then the new bytes — whatever was in the file (or in its buffer) before a truncation.  Both
`Mem.step` and `Os.step` write through `Mem.writeAt`. -/
theorem writeAt_hole (data p : List Nat) (pos : Nat) (h : data.length ≤ pos) :
    (Mem.writeAt data pos p).1 = data ++ List.replicate (pos - data.length) 0 ++ p := by
  unfold Mem.writeAt
  have : ¬ pos < data.length := by omega
  simp [this]

/-- After `O_TRUNC` (contents `[]`), a Write of `p` at offset `pos` gives `pos` zeros then `p`. -/
theorem writeAt_after_trunc (p : List Nat) (pos : Nat) :
    (Mem.writeAt [] pos p).1 = List.replicate pos 0 ++ p := by
  simpa using writeAt_hole [] p pos (by simp)

/-- The seeded-change scenario in the model: write, truncate through a second handle, seek inside the
old length, write: the hole is zeros on both filesystems. -/
example : (runWith Mem.step {} [.open nA rwCreate, .write 0 [88, 88, 88, 88, 88], .open nA (fl 2 false false false false true),
    .seek 1 4 0, .write 1 [97], .seek 0 0 0, .read 0 40]).2.getLast? = some (.data [0, 0, 0, 0, 97]) := by decide

/-! ### Huge offsets and names of Stat -/

/-- A Write that would need a hole no slice can hold fails ("file too large") instead of panicking;
formerly `make` panicked. -/
example : (runWith Mem.step {} [.open nA rwCreate, .seek 0 4611686018427387904 0, .write 0 [120], .fstat 0]).2 =
    [.opened 0 false, .pos 4611686018427387904, .err, .info false 0 none] := by decide

/-- `Stat` names the entry by the last component of the cleaned path (`/` for the root): the driver
cleans `/a/b/..` to `[a]`, so the name is `a`, never `..`. -/
theorem stat_name (s : State) (p : Path) (isDir : Bool) (size : Nat) (name : Option Name)
    (h : (Mem.step s (.stat p)).2 = .info isDir size name) : name = some (p.getLast?.getD [47]) := by
  simp only [Mem.step] at h
  cases hs : okOf (Mem.stat s.tree p) with
  | none => simp [hs, statRes] at h
  | some e => cases e <;> simp [hs, statRes] at h <;> exact h.2.2.symm

/-! ### Root and own-subtree clause -/

theorem walkFrom_dir (t : Tree) : ∀ (rest done : Path), Mem.walkFrom t done rest = .ok () →
    ∀ k, 0 < k → k < rest.length → get t (done ++ rest.take k) = some .dir
  | [], _, _, k, _, hk => by simp at hk
  | [_], _, _, k, h0, hk => by simp at hk; omega
  | c :: c' :: cs, done, h, k, h0, hk => by
    unfold Mem.walkFrom at h
    split at h
    · cases h
    · cases h
    · rename_i hg
      match k, h0 with
      | 1, _ => simpa using hg
      | k' + 2, _ =>
        have := walkFrom_dir t (c' :: cs) (done ++ [c]) h (k' + 1) (by omega)
          (by simp only [List.length_cons] at hk ⊢; omega)
        simpa [List.append_assoc] using this

/-- Along a successful `walk`, every proper non-root prefix is an existing directory. -/
theorem walk_prefix_dir {t : Tree} {a b : Path} (hw : Mem.walk t b = .ok ()) (hu : under a b = true)
    (hne : a ≠ b) (ha : a ≠ []) : get t a = some .dir := by
  rw [under_iff] at hu
  obtain ⟨r, rfl⟩ := hu
  have hr : r ≠ [] := by intro h; subst h; simp at hne
  have := walkFrom_dir t (a ++ r) [] hw a.length
    (by cases a with | nil => exact absurd rfl ha | cons _ _ => simp)
    (by cases r with | nil => exact absurd rfl hr | cons _ _ => simp)
  simpa using this

/-- `memFS.Rename` of a name into its own subtree fails, whatever the tree. -/
theorem mem_rename_into_own_subtree_fails (t : Tree) (a b : Path) (hne : a ≠ b) (hu : under a b = true) :
    okOf (Mem.rename t a b) = none := by
  unfold Mem.rename; simp [hne, hu, okOf]

/-- The same through `Dir`. -/
theorem os_rename_into_own_subtree_fails (t : Tree) (a b : Path) (hne : a ≠ b) (hu : under a b = true) :
    okOf (Os.rename t a b) = none := by
  unfold Os.rename
  by_cases hr : a = [] ∨ b = []
  · simp [hr, okOf]
  · simp only [hr, if_false]
    have ha : a ≠ [] := fun h => hr (Or.inl h)
    cases hwa : Mem.walk t a with
    | error e => rfl
    | ok u =>
      simp only
      cases hga : get t a with
      | none => rfl
      | some ea =>
        simp only
        cases hwb : Mem.walk t b with
        | error e => rfl
        | ok u' =>
          have hdir := walk_prefix_dir (t := t) (by cases u'; exact hwb) hu hne ha
          rw [hga] at hdir
          cases hdir
          simp only
          cases hgb : get t b with
          | none => simp [hu, okOf]
          | some eb => cases eb <;> simp [okOf]

theorem step_rename_into_own_subtree_fails (s : State) (a b : Path) (hne : a ≠ b) (hu : under a b = true) :
    Mem.step s (.rename a b) = (s, .err) ∧ Os.step s (.rename a b) = (s, .err) := by
  simp [Mem.step, Os.step, mem_rename_into_own_subtree_fails _ a b hne hu,
    os_rename_into_own_subtree_fails _ a b hne hu]

/-- Removing the root fails on both. -/
theorem removeAll_root_fails (s : State) :
    Mem.step s (.removeAll []) = (s, .err) ∧ Os.step s (.removeAll []) = (s, .err) := by
  simp [Mem.step, Os.step, Mem.removeAll, Os.removeAll, Mem.walk, Mem.walkFrom, okOf]

/-- Renaming from or to the root always fails (also `Rename("/", "/")`, which used to return nil). -/
theorem rename_root_fails (s : State) (a b : Path) (hr : a = [] ∨ b = []) :
    Mem.step s (.rename a b) = (s, .err) := by
  have : okOf (Mem.rename s.tree a b) = none := by
    unfold Mem.rename
    rcases hr with ha | hb
    · subst ha
      by_cases hb : ([] : Path) = b
      · subst hb; simp [Mem.walk, Mem.walkFrom, okOf]
      · simp [hb, under_nil, okOf]
    · subst hb
      by_cases ha : a = []
      · subst ha; simp [Mem.walk, Mem.walkFrom, okOf]
      · have hu : under a [] = false := by
          cases a with
          | nil => exact absurd rfl ha
          | cons x xs => simp [under]
        simp only [hu, Bool.false_eq_true, and_false, if_false]
        cases hwa : Mem.walk s.tree a with
        | error e => rfl
        | ok u => simp [ha, Mem.walk, Mem.walkFrom, okOf]
  simp [Mem.step, this]

theorem os_rename_root_fails (s : State) (a b : Path) (hr : a = [] ∨ b = []) :
    Os.step s (.rename a b) = (s, .err) := by
  simp [Os.step, Os.rename, hr, okOf]

/-! ### Non-vacuity: a clean history with real work in it -/

example : cleanRun {} [.mkdir nA, .open (nA ++ nB) rwCreate, .write 0 [1, 2, 3], .seek 0 1 0, .read 0 5,
    .rename nA nB, .write 0 [7], .stat (nB ++ nB), .open nB ro, .readdir 1 0, .removeAll nB, .fstat 0] = true := by
  decide

example : (runWith Mem.step {} [.mkdir nA, .open (nA ++ nB) rwCreate, .write 0 [1, 2, 3], .seek 0 1 0,
    .read 0 5, .rename nA nB, .write 0 [7], .stat (nB ++ nB)]).2 =
    [.ok, .opened 0 false, .wrote 3, .pos 1, .data [2, 3], .ok, .wrote 1, .info false 4 (some [98])] := by decide

end NetVerif.Proofs.C44
