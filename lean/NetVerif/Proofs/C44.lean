import NetVerif.Model.FS
