/- C60, part 2: RFC 4884 multipart bodies WITH extensions (object loop, extension header checksum,
   marshalMultipartMessageBody / parseMultipartMessageBody round trip). -/
import NetVerif.Proofs.C60
namespace NetVerif.Proofs.C60
open NetVerif NetVerif.Model.Icmp

/-! ### RFC 4884 extension objects: marshal / parse of one object -/

def LabelWF (l : MplsLabel) : Prop :=
  0 ≤ l.label ∧ l.label < 1048576 ∧ 0 ≤ l.tc ∧ l.tc < 8 ∧ 0 ≤ l.ttl ∧ l.ttl < 256

theorem labels_succ (fuel : Nat) (b : List Nat) :
    parseMPLS.labels (fuel + 1) b =
      if b.length ≥ 4 then
        ({ label := ((b.getD 0 0 * 4096 + b.getD 1 0 * 16 + b.getD 2 0 / 16 : Nat) : Int), tc := ((b.getD 2 0 / 2 % 8 : Nat) : Int),
           s := b.getD 2 0 % 2 == 1, ttl := ((b.getD 3 0 : Nat) : Int) } : MplsLabel) :: parseMPLS.labels fuel (b.drop 4)
      else [] := by
  rw [parseMPLS.labels]

theorem label_roundtrip (l : MplsLabel) (h : LabelWF l) (rest : List Nat) (fuel : Nat) :
    parseMPLS.labels (fuel + 1) (mplsLabelBytes l ++ rest) = l :: parseMPLS.labels fuel rest := by
  obtain ⟨h1, h2, h3, h4, h5, h6⟩ := h
  rw [labels_succ]
  have hl : (mplsLabelBytes l ++ rest).length ≥ 4 := by simp [mplsLabelBytes]
  rw [if_pos hl]
  have hd : (mplsLabelBytes l ++ rest).drop 4 = rest := by simp [mplsLabelBytes]
  rw [hd]
  congr 1
  cases l with
  | mk label tc s ttl =>
    simp only at h1 h2 h3 h4 h5 h6
    simp only [mplsLabelBytes, u8, List.cons_append, List.nil_append, List.getD_cons_zero, List.getD_cons_succ,
      MplsLabel.mk.injEq]
    refine ⟨by cases s <;> simp <;> omega, by cases s <;> simp <;> omega, ?_, by omega⟩
    cases s <;> simp <;> omega

theorem labels_roundtrip (ls : List MplsLabel) (h : ∀ l ∈ ls, LabelWF l) :
    ∀ fuel, ls.length ≤ fuel → parseMPLS.labels fuel (ls.flatMap mplsLabelBytes) = ls := by
  induction ls with
  | nil =>
    intro fuel _
    cases fuel with
    | zero => rfl
    | succ k => unfold parseMPLS.labels; simp
  | cons l r ih =>
    intro fuel hf
    cases fuel with
    | zero => simp at hf
    | succ k =>
      simp only [List.flatMap_cons]
      rw [label_roundtrip l (h l (by simp)) _ k, ih (fun x hx => h x (by simp [hx])) k (by simpa using hf)]

theorem flatMap_labels_length (ls : List MplsLabel) : (ls.flatMap mplsLabelBytes).length = 4 * ls.length := by
  induction ls with
  | nil => rfl
  | cons l r ih => simp [List.flatMap_cons, mplsLabelBytes, ih]; omega


/-- An extension object that the codec represents faithfully: its bytes have the announced length and
`parseExtensions`' object loop reads it back. -/
structure ObjOK (proto : Nat) (e : Ext) : Prop where
  len_eq : (e.bytes proto).length = e.len proto
  len_ge : 4 ≤ e.len proto
  wf : BytesWF (e.bytes proto)
  parse : ∀ (fuel : Nat) (tail : List Nat),
    parseObjects (fuel + 1) (e.bytes proto ++ tail) = (parseObjects fuel tail).map (e :: ·)

theorem parseObjects_succ (fuel : Nat) (b : List Nat) :
    parseObjects (fuel + 1) b =
      if b.length ≥ 4 then
        (if 4 > rd16 b ∨ rd16 b > b.length then some []
         else
          match (if b.getD 2 0 = classMPLSLabelStack then some (parseMPLS (b.take (rd16 b)))
                 else if b.getD 2 0 = classInterfaceInfo then parseInfo (b.take (rd16 b))
                 else if b.getD 2 0 = classInterfaceIdent then parseIdent (b.take (rd16 b))
                 else some (.raw (b.take (rd16 b)))) with
          | none => none
          | some e =>
            match parseObjects fuel (b.drop (rd16 b)) with
            | none => none
            | some es => some (e :: es))
      else some [] := by
  rw [parseObjects]
  rfl

theorem parseObjects_nil (fuel : Nat) : parseObjects fuel [] = some [] := by
  cases fuel with
  | zero => rfl
  | succ k => rw [parseObjects_succ]; simp

/-- **MPLS label stack objects** (class 1, type 1, fields within their widths). -/
theorem objOK_mpls (proto : Nat) (ls : List MplsLabel) (hwf : ∀ l ∈ ls, LabelWF l) (hk : ls.length ≤ 16000) :
    ObjOK proto (.mpls 1 1 ls) := by
  have hlen : (Ext.bytes proto (.mpls 1 1 ls)).length = 4 + 4 * ls.length := by
    have := flatMap_labels_length ls
    simp only [Ext.bytes, be16, List.length_append, List.length_cons, List.length_nil, this]
  have hb : Ext.bytes proto (.mpls 1 1 ls) =
      be16 ((4 + 4 * ls.length : Nat) : Int) ++ ([1, 1] ++ ls.flatMap mplsLabelBytes) := by
    simp [Ext.bytes, classMPLSLabelStack, typeIncomingMPLSLabelStack]
  have hrd : ∀ tail, rd16 (Ext.bytes proto (.mpls 1 1 ls) ++ tail) = 4 + 4 * ls.length := by
    intro tail
    rw [hb, List.append_assoc]
    have := be16_rd16 ((4 + 4 * ls.length : Nat) : Int) (by omega) (by omega) (([1, 1] ++ ls.flatMap mplsLabelBytes) ++ tail)
    omega
  refine ⟨by rw [hlen]; rfl, by show 4 ≤ 4 + 4 * ls.length; omega, ?_, ?_⟩
  · intro b hbm
    rw [hb] at hbm
    simp only [List.mem_append, be16, List.mem_cons, List.mem_flatMap, List.not_mem_nil, or_false] at hbm
    rcases hbm with (h | h) | (h | h) | ⟨l, hl, h⟩
    · omega
    · omega
    · omega
    · omega
    · obtain ⟨h1, h2, h3, h4, h5, h6⟩ := hwf l hl
      simp only [mplsLabelBytes, u8, List.mem_cons, List.not_mem_nil, or_false] at h
      rcases h with h | h | h | h
      · omega
      · omega
      · rw [h]; cases l.s <;> simp <;> omega
      · omega
  · intro fuel tail
    rw [parseObjects_succ]
    have hl4 : (Ext.bytes proto (.mpls 1 1 ls) ++ tail).length ≥ 4 := by rw [List.length_append, hlen]; omega
    rw [if_pos hl4, hrd tail]
    have hnot : ¬ (4 > 4 + 4 * ls.length ∨ 4 + 4 * ls.length > (Ext.bytes proto (.mpls 1 1 ls) ++ tail).length) := by
      rw [List.length_append, hlen]; omega
    rw [if_neg hnot]
    have htake : (Ext.bytes proto (.mpls 1 1 ls) ++ tail).take (4 + 4 * ls.length) = Ext.bytes proto (.mpls 1 1 ls) := by
      rw [← hlen, List.take_left]
    have hdrop : (Ext.bytes proto (.mpls 1 1 ls) ++ tail).drop (4 + 4 * ls.length) = tail := by
      rw [← hlen, List.drop_left]
    have hcls : (Ext.bytes proto (.mpls 1 1 ls) ++ tail).getD 2 0 = classMPLSLabelStack := by
      rw [hb]; simp [be16, classMPLSLabelStack]
    rw [if_pos hcls, htake, hdrop]
    have hp : parseMPLS (Ext.bytes proto (.mpls 1 1 ls)) = .mpls 1 1 ls := by
      unfold parseMPLS
      have g2 : (Ext.bytes proto (.mpls 1 1 ls)).getD 2 0 = 1 := by rw [hb]; simp [be16]
      have g3 : (Ext.bytes proto (.mpls 1 1 ls)).getD 3 0 = 1 := by rw [hb]; simp [be16]
      have d4 : (Ext.bytes proto (.mpls 1 1 ls)).drop 4 = ls.flatMap mplsLabelBytes := by rw [hb]; simp [be16]
      rw [g2, g3, d4, hlen, labels_roundtrip ls hwf _ (by omega)]
      rfl
    rw [hp]
    cases parseObjects fuel tail <;> rfl

theorem parseObjects_flat (proto : Nat) (exts : List Ext) (h : ∀ e ∈ exts, ObjOK proto e) :
    ∀ fuel, exts.length ≤ fuel → parseObjects fuel (exts.flatMap (Ext.bytes proto)) = some exts := by
  induction exts with
  | nil => intro fuel _; exact parseObjects_nil fuel
  | cons e r ih =>
    intro fuel hf
    cases fuel with
    | zero => simp at hf
    | succ k =>
      simp only [List.flatMap_cons]
      rw [(h e (by simp)).parse k _, ih (fun x hx => h x (by simp [hx])) k (by simpa using hf)]
      rfl


/-! ### `marshalMultipartMessageBody` with extensions, explicitly -/

theorem set_append_length {α} (pre : List α) (x y : α) (post : List α) :
    (pre ++ x :: post).set pre.length y = pre ++ y :: post := by
  induction pre with
  | nil => rfl
  | cons a p ih => simp [ih]

theorem writeExts_flat (proto : Nat) (exts : List Ext)
    (h : ∀ e ∈ exts, (e.bytes proto).length = e.len proto) :
    ∀ (pre post : List Nat),
      writeExts proto (pre ++ zeros ((exts.map (Ext.len proto)).sum) ++ post) pre.length exts =
        pre ++ exts.flatMap (Ext.bytes proto) ++ post := by
  induction exts with
  | nil => intro pre post; simp [writeExts, zeros]
  | cons e r ih =>
    intro pre post
    have he := h e (by simp)
    simp only [List.map_cons, List.sum_cons, writeExts, List.flatMap_cons]
    rw [zeros_add]
    have e1 : pre ++ (zeros (e.len proto) ++ zeros ((r.map (Ext.len proto)).sum)) ++ post =
        pre ++ zeros (e.len proto) ++ (zeros ((r.map (Ext.len proto)).sum) ++ post) := by simp
    rw [e1, copyAt_exact pre (zeros (e.len proto)) (e.bytes proto) _ (by simp [zeros, he])]
    have e2 : pre.length + e.len proto = (pre ++ e.bytes proto).length := by simp [he]
    have e3 : pre ++ e.bytes proto ++ (zeros ((r.map (Ext.len proto)).sum) ++ post) =
        (pre ++ e.bytes proto) ++ zeros ((r.map (Ext.len proto)).sum) ++ post := by simp
    rw [e2, e3, ih (fun x hx => h x (by simp [hx]))]
    simp

theorem checksum_zero_of_valid (b : List Nat) (hwf : BytesWF b) (hv : Valid1071 b) : checksum b = 0 := by
  obtain ⟨f, hc, f1, f2, f3⟩ := checksum_spec b hwf
  obtain ⟨v1, v2⟩ := hv
  rw [hc]
  omega

/-- The extension header the code writes (version 2, checksum over header and objects) passes
`validExtensionHeader`. -/
theorem validHdr (E : List Nat) (hwf : BytesWF E) :
    validExtensionHeader (32 :: 0 :: (checksum (32 :: 0 :: 0 :: 0 :: E) % 256) ::
      (checksum (32 :: 0 :: 0 :: 0 :: E) / 256 % 256) :: E) = true := by
  have hpre : BytesWF ([32, 0] ++ 0 :: 0 :: E) := by
    intro b hb
    simp only [List.cons_append, List.nil_append, List.mem_cons] at hb
    rcases hb with h | h | h | h | h
    all_goals first | omega | exact hwf b h
  have hv := checksum_rfc1071 [32, 0] E (by rfl) hpre
  rw [xorCsumAt_zero] at hv
  have hc256 : checksum ([32, 0] ++ 0 :: 0 :: E) < 65536 := by unfold checksum; omega
  have hwf2 : BytesWF ([32, 0] ++ (checksum ([32, 0] ++ 0 :: 0 :: E) % 256) ::
      (checksum ([32, 0] ++ 0 :: 0 :: E) / 256 % 256) :: E) := by
    intro b hb
    simp only [List.cons_append, List.nil_append, List.mem_cons] at hb
    rcases hb with h | h | h | h | h
    all_goals first | omega | exact hwf b h
  have hz := checksum_zero_of_valid _ hwf2 hv
  simp only [List.cons_append, List.nil_append] at hz hc256
  generalize checksum (32 :: 0 :: 0 :: 0 :: E) = c at *
  unfold validExtensionHeader
  simp only [List.getD_cons_zero, List.drop_succ_cons, List.drop_zero, rd16, List.getD_cons_succ, extensionVersion]
  by_cases hs : (c % 256 * 256 + c / 256 % 256 != 0) = true
  · rw [if_pos hs, hz]; decide
  · rw [if_neg hs]
    have hs0 : c % 256 * 256 + c / 256 % 256 = 0 := by
      cases hq : c % 256 * 256 + c / 256 % 256 with
      | zero => rfl
      | succ k => exfalso; apply hs; simp [hq]
    rw [hs0]; decide


/-- Original datagram zero-padded to the RFC 4884 length. -/
def padded (proto : Nat) (data : List Nat) : List Nat :=
  data ++ zeros (origDatagramLen proto data.length - data.length)

theorem padded_length (proto : Nat) (data : List Nat) (hp : proto = protocolICMP ∨ proto = protocolIPv6ICMP) :
    (padded proto data).length = origDatagramLen proto data.length := by
  have := origDatagramLen_spec data.length
  unfold padded
  simp only [List.length_append, zeros, List.length_replicate]
  rcases hp with h | h <;> subst h <;> omega

def extBytes (proto : Nat) (exts : List Ext) : List Nat := exts.flatMap (Ext.bytes proto)

/-- The extension structure: header (version 2, checksum) and objects. -/
def extStruct (proto : Nat) (exts : List Ext) : List Nat :=
  32 :: 0 :: (checksum (32 :: 0 :: 0 :: 0 :: extBytes proto exts) % 256) ::
    (checksum (32 :: 0 :: 0 :: 0 :: extBytes proto exts) / 256 % 256) :: extBytes proto exts

theorem extLen_pos (proto : Nat) (exts : List Ext) (hne : exts ≠ []) (hok : ∀ e ∈ exts, ObjOK proto e) :
    0 < (exts.map (Ext.len proto)).sum := by
  cases exts with
  | nil => exact absurd rfl hne
  | cons e r =>
    have := (hok e (by simp)).len_ge
    simp only [List.map_cons, List.sum_cons]
    omega

theorem extBytes_length (proto : Nat) (exts : List Ext) (hok : ∀ e ∈ exts, ObjOK proto e) :
    (extBytes proto exts).length = (exts.map (Ext.len proto)).sum := by
  induction exts with
  | nil => rfl
  | cons e r ih =>
    simp only [extBytes, List.flatMap_cons, List.length_append, List.map_cons, List.sum_cons]
    rw [(hok e (by simp)).len_eq]
    have := ih (fun x hx => hok x (by simp [hx]))
    simp only [extBytes] at this
    rw [this]

/-- **`marshalMultipartMessageBody` with extensions**: 4 leading octets carrying the length attribute,
the zero-padded datagram, the extension structure. -/
theorem marshalMultipart_ext (proto : Nat) (hp : proto = protocolICMP ∨ proto = protocolIPv6ICMP)
    (data : List Nat) (exts : List Ext) (hne : exts ≠ []) (hok : ∀ e ∈ exts, ObjOK proto e) :
    marshalMultipart proto true data exts =
      (if proto = protocolICMP then [0, origDatagramLen proto data.length / 4 % 256, 0, 0]
       else [origDatagramLen proto data.length / 8 % 256, 0, 0, 0]) ++
      padded proto data ++ extStruct proto exts := by
  have hL := extLen_pos proto exts hne hok
  have hEl := extBytes_length proto exts hok
  have hD := padded_length proto data hp
  have hspec := origDatagramLen_spec data.length
  have hnD : data.length ≤ origDatagramLen proto data.length := by
    rcases hp with h | h <;> subst h <;> omega
  unfold marshalMultipart
  rw [multipartLens_ext proto data exts hL]
  simp only
  have hlen : exts.length > 0 := by
    cases exts with
    | nil => exact absurd rfl hne
    | cons _ _ => simp
  rw [if_pos hlen]
  generalize hDd : origDatagramLen proto data.length = D at *
  generalize hLd : (exts.map (Ext.len proto)).sum = L at *
  -- step 1: copy the datagram
  have z1 : zeros (4 + 4 + D + L) = zeros 4 ++ zeros data.length ++ (zeros (D - data.length) ++ zeros 4 ++ zeros L) := by
    rw [show 4 + 4 + D + L = 4 + (data.length + ((D - data.length) + (4 + L))) by omega]
    simp only [zeros_add]; simp
  have hz4 : (zeros 4).length = 4 := by simp [zeros]
  have c1 := copyAt_exact (zeros 4) (zeros data.length) data (zeros (D - data.length) ++ zeros 4 ++ zeros L) (by simp [zeros])
  rw [hz4] at c1
  rw [z1, c1]
  -- step 2: version nibble
  have s0 : zeros 4 ++ data ++ (zeros (D - data.length) ++ zeros 4 ++ zeros L) =
      (zeros 4 ++ padded proto data) ++ 0 :: ([0, 0, 0] ++ zeros L) := by
    unfold padded; rw [hDd]; simp [zeros]
  have hpre : (zeros 4 ++ padded proto data).length = 4 + D := by simp [hD, hz4]
  rw [s0, ← hpre, set_append_length]
  -- step 3: objects
  have s1 : (zeros 4 ++ padded proto data) ++ (extensionVersion * 16) :: ([0, 0, 0] ++ zeros L) =
      ((zeros 4 ++ padded proto data) ++ [32, 0, 0, 0]) ++ zeros L ++ [] := by simp [extensionVersion]
  have hpre2 : (zeros 4 ++ padded proto data).length + 4 = ((zeros 4 ++ padded proto data) ++ [32, 0, 0, 0]).length := by simp; omega
  rw [s1, hpre2, ← hLd, writeExts_flat proto exts (fun e he => (hok e he).len_eq)]
  -- step 4: checksum of the extension structure
  have s2 : (zeros 4 ++ padded proto data ++ [32, 0, 0, 0] ++ exts.flatMap (Ext.bytes proto) ++ []) =
      (zeros 4 ++ padded proto data) ++ (32 :: 0 :: 0 :: 0 :: extBytes proto exts) := by simp [extBytes]
  rw [s2, List.drop_left]
  have s3 : (zeros 4 ++ padded proto data) ++ (32 :: 0 :: 0 :: 0 :: extBytes proto exts) =
      ((zeros 4 ++ padded proto data) ++ [32, 0]) ++ 0 :: 0 :: extBytes proto exts := by simp
  have hpre3 : (zeros 4 ++ padded proto data).length + 2 = ((zeros 4 ++ padded proto data) ++ [32, 0]).length := by simp; omega
  rw [s3, hpre3, xorCsumAt_zero]
  -- step 5: length attribute
  rcases hp with h | h
  · subst h
    simp [extStruct, zeros, protocolICMP]
  · subst h
    have hne6 : ¬ (protocolIPv6ICMP = protocolICMP) := by decide
    simp [extStruct, zeros, hne6]


theorem extBytes_wf (proto : Nat) (exts : List Ext) (hok : ∀ e ∈ exts, ObjOK proto e) : BytesWF (extBytes proto exts) := by
  intro b hb
  simp only [extBytes, List.mem_flatMap] at hb
  obtain ⟨e, he, hbe⟩ := hb
  exact (hok e he).wf b hbe

theorem exts_length_le (proto : Nat) (exts : List Ext) (hok : ∀ e ∈ exts, ObjOK proto e) :
    exts.length ≤ (exts.map (Ext.len proto)).sum := by
  induction exts with
  | nil => simp
  | cons e r ih =>
    have := (hok e (by simp)).len_ge
    have := ih (fun x hx => hok x (by simp [hx]))
    simp only [List.length_cons, List.map_cons, List.sum_cons]
    omega

/-- **`parseMultipartMessageBody` reads back what `marshalMultipartMessageBody` wrote** (padded datagram and
the extension objects), whatever the two unused leading octets are. -/
theorem parseMultipart_ext (proto typ : Nat) (hp : proto = protocolICMP ∨ proto = protocolIPv6ICMP)
    (hx : isExtEchoRequest proto typ = false) (data : List Nat) (exts : List Ext) (hne : exts ≠ [])
    (hok : ∀ e ∈ exts, ObjOK proto e)
    (h0 h1 h2 h3 : Nat)
    (hl : (if proto = protocolICMP then 4 * h1 else if proto = protocolIPv6ICMP then 8 * h0 else 0) =
      origDatagramLen proto data.length) :
    parseMultipart proto typ (h0 :: h1 :: h2 :: h3 :: (padded proto data ++ extStruct proto exts)) =
      (padded proto data, exts) := by
  have hL := extLen_pos proto exts hne hok
  have hEl := extBytes_length proto exts hok
  have hD := padded_length proto data hp
  have hspec := origDatagramLen_spec data.length
  have hD128 : 128 ≤ origDatagramLen proto data.length := by
    rcases hp with h | h <;> subst h <;> omega
  have hL4 : 4 ≤ (exts.map (Ext.len proto)).sum := by
    cases exts with
    | nil => exact absurd rfl hne
    | cons e r =>
      have := (hok e (by simp)).len_ge
      simp only [List.map_cons, List.sum_cons]; omega
  have hXl : (extStruct proto exts).length = 4 + (exts.map (Ext.len proto)).sum := by
    simp [extStruct, hEl]; omega
  unfold parseMultipart
  simp only [List.getD_cons_zero, List.getD_cons_succ, hl, List.length_cons, List.drop_succ_cons, List.drop_zero,
    List.length_append, hD, hXl]
  have hne4 : ¬ (origDatagramLen proto data.length + (4 + (exts.map (Ext.len proto)).sum) + 1 + 1 + 1 + 1 = 4) := by omega
  rw [if_neg hne4]
  have hpe : parseExtensions proto typ (padded proto data ++ extStruct proto exts) (origDatagramLen proto data.length) =
      some (exts, origDatagramLen proto data.length) := by
    unfold parseExtensions
    simp only [hx, Bool.false_eq_true, if_false, List.length_append, hD, hXl]
    have c1 : ¬ (128 > origDatagramLen proto data.length ∨
        origDatagramLen proto data.length + 8 > origDatagramLen proto data.length + (4 + (exts.map (Ext.len proto)).sum)) := by omega
    simp only [c1, if_false]
    have c2 : ¬ (origDatagramLen proto data.length + 8 > origDatagramLen proto data.length + (4 + (exts.map (Ext.len proto)).sum)) := by omega
    simp only [c2, if_false]
    have hdrop : (padded proto data ++ extStruct proto exts).drop (origDatagramLen proto data.length) = extStruct proto exts := by
      rw [← hD, List.drop_left]
    have hvalid : validExtensionHeader (extStruct proto exts) = true :=
      validHdr (extBytes proto exts) (extBytes_wf proto exts hok)
    rw [hdrop, hvalid]
    simp only [Bool.not_true, Bool.false_eq_true, if_false]
    have hdrop2 : (padded proto data ++ extStruct proto exts).drop (origDatagramLen proto data.length + 4) = extBytes proto exts := by
      rw [← hD, ← List.drop_drop, List.drop_left]
      simp [extStruct]
    rw [hdrop2]
    have := parseObjects_flat proto exts hok (origDatagramLen proto data.length + (4 + (exts.map (Ext.len proto)).sum))
      (by have := exts_length_le proto exts hok; omega)
    simp only [extBytes]
    rw [this]
  rw [hpe]
  simp only
  rw [← hD, List.take_left]


/-- The length attribute fits its octet. -/
def lengthAttrFits (proto : Nat) (data : List Nat) : Prop :=
  if proto = protocolICMP then origDatagramLen proto data.length / 4 < 256
  else origDatagramLen proto data.length / 8 < 256

theorem lengthAttrOK_of_fits (proto : Nat) (hp : proto = protocolICMP ∨ proto = protocolIPv6ICMP)
    (data : List Nat) (exts : List Ext) (hL : 0 < (exts.map (Ext.len proto)).sum)
    (hfit : lengthAttrFits proto data) : lengthAttrOK proto data exts = true := by
  unfold lengthAttrOK lengthAttrFits at *
  rw [multipartLens_ext proto data exts hL]
  have hne6 : ¬ (protocolIPv6ICMP = protocolICMP) := by decide
  rcases hp with h | h <;> subst h <;> simp [hne6] at hfit ⊢ <;> omega

/-- **The repaired range check**: when the length attribute does not fit its octet, `Marshal` refuses
(`errInvalidBody`) instead of emitting a message that cannot be parsed back. -/
theorem lengthAttr_rejected (proto : Nat) (hp : proto = protocolICMP ∨ proto = protocolIPv6ICMP)
    (data : List Nat) (exts : List Ext) (hL : 0 < (exts.map (Ext.len proto)).sum)
    (hfit : ¬ lengthAttrFits proto data) :
    Body.marshal proto (.dstUnreach data exts) = none ∧ Body.marshal proto (.timeExceeded data exts) = none := by
  have hno : lengthAttrOK proto data exts = false := by
    unfold lengthAttrOK lengthAttrFits at *
    rw [multipartLens_ext proto data exts hL]
    have hne6 : ¬ (protocolIPv6ICMP = protocolICMP) := by decide
    have hlen : exts.length > 0 := by
      cases exts with
      | nil => simp at hL
      | cons _ _ => simp
    rcases hp with h | h <;> subst h <;> simp [hne6, hlen] at hfit ⊢ <;> omega
  constructor <;> simp [Body.marshal, hno]

theorem lenAttr_v4 (data : List Nat) (hfit : lengthAttrFits protocolICMP data) (h0 : Nat) :
    (if protocolICMP = protocolICMP then 4 * (origDatagramLen protocolICMP data.length / 4 % 256)
     else if protocolICMP = protocolIPv6ICMP then 8 * h0 else 0) = origDatagramLen protocolICMP data.length := by
  have hspec := origDatagramLen_spec data.length
  unfold lengthAttrFits at hfit
  simp only [if_true] at hfit ⊢
  omega

theorem lenAttr_v6 (data : List Nat) (hfit : lengthAttrFits protocolIPv6ICMP data) (h1 : Nat) :
    (if protocolIPv6ICMP = protocolICMP then 4 * h1
     else if protocolIPv6ICMP = protocolIPv6ICMP then 8 * (origDatagramLen protocolIPv6ICMP data.length / 8 % 256) else 0) =
      origDatagramLen protocolIPv6ICMP data.length := by
  have hspec := origDatagramLen_spec data.length
  unfold lengthAttrFits at hfit
  have hne6 : ¬ (protocolIPv6ICMP = protocolICMP) := by decide
  simp only [hne6, if_false, if_true] at hfit ⊢
  omega

/-- **Destination unreachable WITH extensions** (ICMPv4 and ICMPv6): the parsed message carries the
zero-padded datagram (RFC 4884 padding is not distinguishable from data) and exactly the extensions. -/
theorem dstUnreach_ext_roundtrip (proto typ : Nat) (ht : typ < 256) (hk : parserKind proto typ = .du)
    (code : Int) (hc : 0 ≤ code ∧ code < 256) (data : List Nat) (exts : List Ext) (hne : exts ≠ [])
    (hok : ∀ e ∈ exts, ObjOK proto e) (hval : validExtensions proto typ exts = true) (hfit : lengthAttrFits proto data) :
    ∃ wire, (mkMsg proto typ code (.dstUnreach data exts)).marshal none = some wire ∧
      (parseMessage proto wire).map (fun m => (m.proto, m.typ, m.code, m.body)) =
        some (proto, typ, code, .dstUnreach (padded proto data) exts) := by
  have hcases := kind_du_cases proto typ hk
  have hp : proto = protocolICMP ∨ proto = protocolIPv6ICMP := by
    rcases hcases with h | h
    · exact Or.inl h.1
    · exact Or.inr h.1
  have hty : (if proto = protocolICMP then v4DstUnreach else v6DstUnreach) = typ := by
    rcases hcases with ⟨h1, h2⟩ | ⟨h1, h2⟩ <;> subst h1 h2 <;> decide
  have hL := extLen_pos proto exts hne hok
  apply roundtrip_of proto typ hp ht code hc _ _ (marshalMultipart proto true data exts)
  · unfold bodyBytes mkMsg
    simp only [Body.len, Body.marshal, hty, hval, lengthAttrOK_of_fits proto hp data exts hL hfit]
    rw [multipartLens_ext proto data exts hL]
    simp
  · rw [marshalMultipart_ext proto hp data exts hne hok]
    unfold parseBody
    rw [hk]
    have hlen4 : ¬ (((if proto = protocolICMP then [0, origDatagramLen proto data.length / 4 % 256, 0, 0]
        else [origDatagramLen proto data.length / 8 % 256, 0, 0, 0]) ++ padded proto data ++ extStruct proto exts).length < 4) := by
      split <;> simp
    simp only [hlen4, if_false]
    have hx := kind_not_xreq proto typ (Or.inl hk)
    rcases hp with h | h
    · subst h
      simp only [if_true, List.cons_append, List.nil_append, List.append_assoc]
      rw [parseMultipart_ext protocolICMP typ (Or.inl rfl) hx data exts hne hok 0 _ 0 0
        (lenAttr_v4 data hfit 0)]
    · subst h
      have hne6 : ¬ (protocolIPv6ICMP = protocolICMP) := by decide
      simp only [hne6, if_false, List.cons_append, List.nil_append, List.append_assoc]
      rw [parseMultipart_ext protocolIPv6ICMP typ (Or.inr rfl) hx data exts hne hok _ 0 0 0
        (lenAttr_v6 data hfit 0)]

/-- **Time exceeded WITH extensions** (ICMPv4 and ICMPv6): the parsed message carries the
zero-padded datagram (RFC 4884 padding is not distinguishable from data) and exactly the extensions. -/
theorem timeExceeded_ext_roundtrip (proto typ : Nat) (ht : typ < 256) (hk : parserKind proto typ = .te)
    (code : Int) (hc : 0 ≤ code ∧ code < 256) (data : List Nat) (exts : List Ext) (hne : exts ≠ [])
    (hok : ∀ e ∈ exts, ObjOK proto e) (hval : validExtensions proto typ exts = true) (hfit : lengthAttrFits proto data) :
    ∃ wire, (mkMsg proto typ code (.timeExceeded data exts)).marshal none = some wire ∧
      (parseMessage proto wire).map (fun m => (m.proto, m.typ, m.code, m.body)) =
        some (proto, typ, code, .timeExceeded (padded proto data) exts) := by
  have hcases := kind_te_cases proto typ hk
  have hp : proto = protocolICMP ∨ proto = protocolIPv6ICMP := by
    rcases hcases with h | h
    · exact Or.inl h.1
    · exact Or.inr h.1
  have hty : (if proto = protocolICMP then v4TimeExceeded else v6TimeExceeded) = typ := by
    rcases hcases with ⟨h1, h2⟩ | ⟨h1, h2⟩ <;> subst h1 h2 <;> decide
  have hL := extLen_pos proto exts hne hok
  apply roundtrip_of proto typ hp ht code hc _ _ (marshalMultipart proto true data exts)
  · unfold bodyBytes mkMsg
    simp only [Body.len, Body.marshal, hty, hval, lengthAttrOK_of_fits proto hp data exts hL hfit]
    rw [multipartLens_ext proto data exts hL]
    simp
  · rw [marshalMultipart_ext proto hp data exts hne hok]
    unfold parseBody
    rw [hk]
    have hlen4 : ¬ (((if proto = protocolICMP then [0, origDatagramLen proto data.length / 4 % 256, 0, 0]
        else [origDatagramLen proto data.length / 8 % 256, 0, 0, 0]) ++ padded proto data ++ extStruct proto exts).length < 4) := by
      split <;> simp
    simp only [hlen4, if_false]
    have hx := kind_not_xreq proto typ (Or.inr (Or.inl hk))
    rcases hp with h | h
    · subst h
      simp only [if_true, List.cons_append, List.nil_append, List.append_assoc]
      rw [parseMultipart_ext protocolICMP typ (Or.inl rfl) hx data exts hne hok 0 _ 0 0
        (lenAttr_v4 data hfit 0)]
    · subst h
      have hne6 : ¬ (protocolIPv6ICMP = protocolICMP) := by decide
      simp only [hne6, if_false, List.cons_append, List.nil_append, List.append_assoc]
      rw [parseMultipart_ext protocolIPv6ICMP typ (Or.inr rfl) hx data exts hne hok _ 0 0 0
        (lenAttr_v6 data hfit 0)]

/-- **Parameter problem (ICMPv4) WITH extensions.** -/
theorem paramProb_v4_ext_roundtrip (typ : Nat) (ht : typ < 256) (hk : parserKind protocolICMP typ = .pp)
    (code ptr : Int) (hc : 0 ≤ code ∧ code < 256) (hptr : 0 ≤ ptr ∧ ptr < 256) (data : List Nat) (exts : List Ext)
    (hne : exts ≠ []) (hok : ∀ e ∈ exts, ObjOK protocolICMP e)
    (hval : validExtensions protocolICMP v4ParamProb exts = true) (hfit : lengthAttrFits protocolICMP data) :
    ∃ wire, (mkMsg protocolICMP typ code (.paramProb ptr data exts)).marshal none = some wire ∧
      (parseMessage protocolICMP wire).map (fun m => (m.proto, m.typ, m.code, m.body)) =
        some (protocolICMP, typ, code, .paramProb ptr (padded protocolICMP data) exts) := by
  have hL := extLen_pos protocolICMP exts hne hok
  apply roundtrip_of protocolICMP typ (Or.inl rfl) ht code hc _ _ ((marshalMultipart protocolICMP true data exts).set 0 (u8 ptr))
  · unfold bodyBytes mkMsg
    simp only [Body.len, Body.marshal, hval, lengthAttrOK_of_fits protocolICMP (Or.inl rfl) data exts hL hfit]
    rw [multipartLens_ext protocolICMP data exts hL]
    simp
  · rw [marshalMultipart_ext protocolICMP (Or.inl rfl) data exts hne hok]
    unfold parseBody
    rw [hk]
    simp only [if_true, List.cons_append, List.nil_append, List.append_assoc, List.set_cons_zero, List.length_cons]
    have hlen4 : ¬ ((padded protocolICMP data ++ extStruct protocolICMP exts).length + 1 + 1 + 1 + 1 < 4) := by omega
    have hne6 : ¬ (protocolICMP = protocolIPv6ICMP) := by decide
    simp only [hlen4, if_false, hne6]
    have hx := kind_not_xreq protocolICMP typ (Or.inr (Or.inr hk))
    rw [parseMultipart_ext protocolICMP typ (Or.inl rfl) hx data exts hne hok (u8 ptr) _ 0 0
      (lenAttr_v4 data hfit (u8 ptr))]
    have := u8_id ptr hptr.1 hptr.2
    simp [this]

/-- Corollary for MPLS label stacks, the extension RFC 4950 defines for these messages. -/
theorem dstUnreach_mpls_roundtrip (proto typ : Nat) (ht : typ < 256) (hk : parserKind proto typ = .du)
    (code : Int) (hc : 0 ≤ code ∧ code < 256) (data : List Nat) (stacks : List (List MplsLabel))
    (hne : stacks ≠ []) (hwf : ∀ ls ∈ stacks, (∀ l ∈ ls, LabelWF l) ∧ ls.length ≤ 16000)
    (hfit : lengthAttrFits proto data) :
    ∃ wire, (mkMsg proto typ code (.dstUnreach data (stacks.map (fun ls => Ext.mpls 1 1 ls)))).marshal none = some wire ∧
      (parseMessage proto wire).map (fun m => (m.proto, m.typ, m.code, m.body)) =
        some (proto, typ, code, .dstUnreach (padded proto data) (stacks.map (fun ls => Ext.mpls 1 1 ls))) := by
  apply dstUnreach_ext_roundtrip proto typ ht hk code hc data _ (by
      cases stacks with
      | nil => exact absurd rfl hne
      | cons a r => simp) ?_ ?_ hfit
  · intro e he
    simp only [List.mem_map] at he
    obtain ⟨ls, hls, rfl⟩ := he
    exact objOK_mpls proto ls (hwf ls hls).1 (hwf ls hls).2
  · have hcases := kind_du_cases proto typ hk
    have hall : (stacks.map (fun ls => Ext.mpls 1 1 ls)).all
        (fun e => match e with | .mpls .. => true | .info .. => true | .raw .. => true | _ => false) = true := by
      simp [List.all_eq_true]
    unfold validExtensions
    rcases hcases with ⟨h1, h2⟩ | ⟨h1, h2⟩ <;> subst h1 h2 <;> simp [hall, protocolICMP, protocolIPv6ICMP, v4DstUnreach, v6DstUnreach, v4TimeExceeded, v4ParamProb, v6TimeExceeded]

/-- **InterfaceIdent by index** (RFC 8335, class 3 type 2) is represented faithfully. -/
theorem objOK_identIndex (proto : Nat) (index : Int) (h : 0 ≤ index ∧ index < 4294967296) :
    ObjOK proto (.ident 3 2 [] index 0 []) := by
  have hb : Ext.bytes proto (.ident 3 2 [] index 0 []) = [0, 8, 3, 2] ++ be32 index := by
    simp [Ext.bytes, identLen, typeInterfaceByName, typeInterfaceByIndex, be16, classInterfaceIdent, u8]
  have hl : (be32 index).length = 4 := by simp [be32]
  refine ⟨by rw [hb]; simp [hl, Ext.len, identLen, typeInterfaceByName, typeInterfaceByIndex],
    by simp [Ext.len, identLen, typeInterfaceByName, typeInterfaceByIndex], ?_, ?_⟩
  · intro b hbm
    rw [hb] at hbm
    simp only [List.mem_append, List.mem_cons, List.not_mem_nil, or_false, be32] at hbm
    rcases hbm with (h1 | h1 | h1 | h1) | (h1 | h1 | h1 | h1) <;> omega
  · intro fuel tail
    rw [parseObjects_succ, hb]
    have e := be32_rd32 index h.1 h.2 []
    simp only [List.append_nil] at e
    simp [rd16, be32, classMPLSLabelStack, classInterfaceInfo, classInterfaceIdent, parseIdent,
      typeInterfaceByName, typeInterfaceByIndex, rd32] at e ⊢
    rw [if_neg (by omega)]
    have hv : max (index / 16777216 % 256) 0 * 16777216 + max (index / 65536 % 256) 0 * 65536 +
        max (index / 256 % 256) 0 * 256 + max (index % 256) 0 = index := by omega
    rw [hv]
    cases parseObjects fuel tail <;> rfl

end NetVerif.Proofs.C60
