import NetVerif.Proofs.Lemmas.HpackEnc
import NetVerif.Gen.C01
/-!
C01 — HPACK encode/decode round-trips every header list, across arbitrary interleavings of
`SetMaxDynamicTableSize` / `SetMaxDynamicTableSizeLimit` between header blocks.

Models: `Model.HpackEnc` (encoder, this property) paired with `Model.Hpack` (decoder, C02/C03).
A history is a list of `Block`s (size calls made before the block, then its fields); the encoder
performs one `Write` per field, the decoder is fed these writes and `Close`d at the end of the block
(`Sys.block`). The decoder is `NewDecoder(4096)` + `SetAllowedMaxDynamicTableSize(A)`.

Main results
* `roundtrip_history : RoundtripStatement` — the property at full strength: for every history of
  blocks with arbitrary size calls between blocks, the decoder (allowed maximum `A` ≥ every limit
  used) emits exactly the written fields, in order, with names, values and `Sensitive` flags, and
  reports no error. The simulation invariant is `Sim`: the encoder's table is the *newest part*
  (`<+:` on the newest-first lists) of the decoder's table — equality is not invariant, because
  `SetMaxDynamicTableSizeLimit` followed by a raise shrinks only the encoder — plus the
  `minSize`/`maxSize` bookkeeping of the pending update(s).
* History: the unrepaired `Decoder.Write` cleared `firstField` after ANY representation, so the second
  of the two table size updates the encoder emits after a lower-then-raise (RFC 7541 §4.2) was
  rejected whenever the decoder's table was non-empty (finding `c01-double-size-update-rejected`,
  repaired in /repo; `witnessHistory` is the old counterexample, now an `example` of the statement).
* `block_any_chunking` (in `Proofs/C01Chunks.lean`): any fragmentation of a block's bytes.
* T-tie obligations on the regenerated index literal of the static table: `static_index_is_lastIdx`.
-/
namespace NetVerif.Proofs.C01
open NetVerif.Model.Hpack NetVerif.Model.HpackEnc
open NetVerif.Proofs.Lemmas.HpackEnc
open NetVerif.Proofs.Lemmas.Hpack
open NetVerif.Model
open NetVerif

/-! ### T-tie: regenerated constants and the static search index -/

theorem gen_consts_eq :
    Gen.C01.uint32Max = uint32Max ∧ Gen.C01.initialHeaderTableSize = initialHeaderTableSize := by
  decide

/-! ### Hypotheses on inputs -/

/-- Go strings are byte strings; `HeaderField.Size()` does not wrap (`uint32`). -/
def FieldOK (f : Field) : Prop :=
  Proofs.C04.Bytes f.name ∧ Proofs.C04.Bytes f.value ∧ f.name.length + f.value.length + 32 < 2 ^ 32

/-! ### The simulation invariant -/

/-- Encoder/decoder relation between representations. `A` is the decoder's allowed maximum. -/
structure Sim (A : Nat) (e : Encoder) (d : DecCore) : Prop where
  pre : e.dyn.ents <+: d.dyn.ents
  esz : SizeOK e.dyn
  dsz : SizeOK d.dyn
  efit : e.dyn.size ≤ e.dyn.maxSize
  dfit : d.dyn.size ≤ d.dyn.maxSize
  cfg : DecCfg d
  allowed : d.dyn.allowedMaxSize = A
  dmaxle : d.dyn.maxSize ≤ A
  maxle : e.dyn.maxSize ≤ e.maxSizeLimit
  limle : e.maxSizeLimit ≤ A
  sync : e.tableSizeUpdate = false → e.dyn.maxSize ≤ d.dyn.maxSize
  minInv : e.dyn.size ≤ e.minSize
  minReset : e.tableSizeUpdate = false → e.minSize = uint32Max

theorem Sim.setFF {A : Nat} {e : Encoder} {d : DecCore} (h : Sim A e d) (b : Bool) :
    Sim A e { d with firstField := b } :=
  ⟨h.pre, h.esz, h.dsz, h.efit, h.dfit, ⟨h.cfg.str, h.cfg.emit⟩, h.allowed, h.dmaxle, h.maxle, h.limle, h.sync,
    h.minInv, h.minReset⟩

theorem field_eta (f : Field) (hs : f.sensitive = false) : ({ name := f.name, value := f.value } : Field) = f := by
  cases f; simp_all

theorem field_eta' (f : Field) (b : Bool) (hs : f.sensitive = b) :
    ({ name := f.name, value := f.value, sensitive := b } : Field) = f := by
  cases f; simp_all

/-! ### One field representation -/

/-- The representation of `f` (no pending table size update) is read back as `f`, and the
invariant is kept. -/
theorem writeRepr_sim (A : Nat) (e : Encoder) (d : DecCore) (f : Field) (rest : Bytes)
    (hs : Sim A e d) (hu : e.tableSizeUpdate = false) (hf : FieldOK f) (hA : A ≤ uint32Max) :
    ∃ d', parseRepr d ((e.writeRepr f).2 ++ rest) = .ok d' rest (some f) ∧
      rest.length < ((e.writeRepr f).2 ++ rest).length ∧
      Sim A (e.writeRepr f).1 d' ∧ (e.writeRepr f).1.tableSizeUpdate = false := by
  obtain ⟨hnb, hvb, hsize⟩ := hf
  have hspec := searchTable_spec e d f hs.pre
  have hA' : A < 2 ^ 32 := by unfold uint32Max at hA; omega
  -- every index the decoder can resolve is small
  have hidx : ∀ i en, d.at i = some en → i < 2 ^ 62 := by
    intro i en h
    have h1 := at_le d i en h
    have h2 := sizeSum_ge d.dyn.ents
    have h3 := hs.dsz
    unfold SizeOK at h3
    have h4 := hs.dfit
    have h5 := hs.dmaxle
    rw [staticTable_length] at h1
    omega
  unfold Encoder.writeRepr
  simp only
  by_cases hm : (e.searchTable f).2 = true
  · -- indexed
    obtain ⟨hsens, hne, hat⟩ := hspec.1 hm
    simp only [hm, ↓reduceIte]
    refine ⟨d, ?_, ?_, hs, hu⟩
    · rw [parseRepr_indexed d hs.cfg _ _ rest hat (hidx _ _ hat)]
      simp only [field_eta f hsens]
    · have := appendVarInt_ne_nil 7 128 (e.searchTable f).1
      unfold appendIndexed
      cases h : appendVarInt 7 128 (e.searchTable f).1 with
      | nil => exact absurd h this
      | cons a t => simp; omega
  · have hm' : (e.searchTable f).2 = false := by simpa using hm
    simp only [hm', Bool.false_eq_true, ↓reduceIte]
    -- the literal kind
    have key : ∀ (k : LitKind) (indexing : Bool), e.shouldIndex f = indexing →
        encodeTypeByte indexing f.sensitive = k.flag → (if indexing = true then 6 else 4) = k.n →
        k.it.sensitive = f.sensitive → (indexing = true ↔ k = .incr) →
        ∃ d', parseRepr d ((if (e.searchTable f).1 = 0 then appendNewName f indexing
            else appendIndexedName f (e.searchTable f).1 indexing) ++ rest) = .ok d' rest (some f) ∧
          rest.length < ((if (e.searchTable f).1 = 0 then appendNewName f indexing
            else appendIndexedName f (e.searchTable f).1 indexing) ++ rest).length ∧
          Sim A (if indexing = true then { e with dyn := e.dyn.add (f.name, f.value) } else e) d' ∧
          (if indexing = true then { e with dyn := e.dyn.add (f.name, f.value) } else e).tableSizeUpdate = false := by
      intro k indexing hsi hflag hn hsens hincr
      refine ⟨afterLiteral d k f.name f.value, ?_, ?_, ?_, ?_⟩
      · by_cases h0 : (e.searchTable f).1 = 0
        · simp only [h0, ↓reduceIte, appendNewName, hflag, List.cons_append, List.append_assoc]
          rw [parseRepr_literal_new d hs.cfg k f.name f.value rest (by omega) (by omega) hnb hvb, hsens,
            field_eta' f _ rfl]
        · obtain ⟨v, hat⟩ := hspec.2 hm' h0
          simp only [h0, ↓reduceIte, appendIndexedName, hflag, hn, List.append_assoc]
          rw [parseRepr_literal_idx d hs.cfg k _ (f.name, v) f.value rest (by omega) (hidx _ _ hat) hat (by omega) hvb,
            hsens, field_eta' f _ rfl]
      · by_cases h0 : (e.searchTable f).1 = 0
        · simp [h0, appendNewName]; omega
        · simp only [h0, ↓reduceIte, appendIndexedName, List.append_assoc, List.length_append]
          have := appendVarInt_ne_nil (if indexing = true then 6 else 4) (encodeTypeByte indexing f.sensitive)
            (e.searchTable f).1
          have : 0 < (appendVarInt (if indexing = true then 6 else 4) (encodeTypeByte indexing f.sensitive)
            (e.searchTable f).1).length := List.length_pos_iff.mpr this
          omega
      · cases k with
        | incr =>
          have hi : indexing = true := hincr.2 rfl
          subst hi
          simp only [↓reduceIte, afterLiteral]
          have hM := hs.sync hu
          have he := add_sizeOK e.dyn (f.name, f.value) hs.esz
          have hd := add_sizeOK d.dyn (f.name, f.value) hs.dsz
          have hmin := hs.minReset hu
          exact {
            pre := add_prefix e.dyn d.dyn _ hs.esz hs.dsz hs.pre hM
            esz := he.1
            dsz := hd.1
            efit := by rw [he.2.2.1]; exact he.2.1
            dfit := by show (d.dyn.add (f.name, f.value)).size ≤ (d.dyn.add (f.name, f.value)).maxSize
                       rw [hd.2.2.1]; exact hd.2.1
            cfg := ⟨hs.cfg.str, hs.cfg.emit⟩
            allowed := by show (d.dyn.add (f.name, f.value)).allowedMaxSize = A
                          rw [hd.2.2.2]; exact hs.allowed
            dmaxle := by show (d.dyn.add (f.name, f.value)).maxSize ≤ A
                         rw [hd.2.2.1]; exact hs.dmaxle
            maxle := by show (e.dyn.add (f.name, f.value)).maxSize ≤ e.maxSizeLimit
                        rw [he.2.2.1]; exact hs.maxle
            limle := hs.limle
            sync := by
              intro _
              show (e.dyn.add (f.name, f.value)).maxSize ≤ (d.dyn.add (f.name, f.value)).maxSize
              rw [he.2.2.1, hd.2.2.1]; exact hM
            minInv := by
              show (e.dyn.add (f.name, f.value)).size ≤ e.minSize
              have h1 := he.2.1
              have h2 := hs.maxle
              have h3 := hs.limle
              rw [hmin]; omega
            minReset := hs.minReset }
        | without =>
          have hi : indexing = false := by
            cases indexing with
            | false => rfl
            | true => exact absurd (hincr.1 rfl) (by decide)
          subst hi
          simpa [afterLiteral] using hs
        | never =>
          have hi : indexing = false := by
            cases indexing with
            | false => rfl
            | true => exact absurd (hincr.1 rfl) (by decide)
          subst hi
          simpa [afterLiteral] using hs
      · split <;> exact hu
    cases hsens : f.sensitive with
    | true =>
      have hsi : e.shouldIndex f = false := by simp [Encoder.shouldIndex, hsens]
      simp only [hsi]
      exact key .never false hsi (by simp [encodeTypeByte, hsens, LitKind.flag]) (by simp [LitKind.n])
        (by simp [LitKind.it, IndexType.sensitive, hsens]) (by simp)
    | false =>
      cases hsi : e.shouldIndex f with
      | true =>
        exact key .incr true hsi (by simp [encodeTypeByte, hsens, LitKind.flag]) (by simp [LitKind.n])
          (by simp [LitKind.it, IndexType.sensitive, hsens]) (by simp)
      | false =>
        exact key .without false hsi (by simp [encodeTypeByte, hsens, LitKind.flag]) (by simp [LitKind.n])
          (by simp [LitKind.it, IndexType.sensitive, hsens]) (by simp)

/-! ### The pending table size update -/

theorem Sim.afterRepr {A : Nat} {e : Encoder} {d : DecCore} (h : Sim A e d) (buf : Bytes) :
    Sim A e (afterRepr buf d) := by
  unfold Hpack.afterRepr
  split
  · exact h
  · exact h.setFF false

/-- The decoder applies a bound `v` the encoder's table already respects. -/
theorem sim_dec_setMax {A : Nat} {e : Encoder} {d : DecCore} (hs : Sim A e d) (v : Nat) (hv : v ≤ A)
    (hfit : e.dyn.size ≤ v) (e2 : Encoder) (hdyn : e2.dyn = e.dyn)
    (hlim : e2.maxSizeLimit = e.maxSizeLimit)
    (hsync : e2.tableSizeUpdate = false → e2.dyn.maxSize ≤ v) (hmin : e2.dyn.size ≤ e2.minSize)
    (hreset : e2.tableSizeUpdate = false → e2.minSize = uint32Max) :
    Sim A e2 { d with dyn := d.dyn.setMaxSize v } := by
  have hd := setMaxSize_sizeOK d.dyn v hs.dsz
  exact {
    pre := by rw [hdyn]; exact setMaxSize_prefix e.dyn d.dyn v hs.esz hs.dsz hs.pre hfit
    esz := by rw [hdyn]; exact hs.esz
    dsz := hd.1
    efit := by rw [hdyn]; exact hs.efit
    dfit := by show (d.dyn.setMaxSize v).size ≤ (d.dyn.setMaxSize v).maxSize
               rw [hd.2.2.2.1]; exact hd.2.1
    cfg := ⟨hs.cfg.str, hs.cfg.emit⟩
    allowed := by show (d.dyn.setMaxSize v).allowedMaxSize = A
                  rw [hd.2.2.2.2]; exact hs.allowed
    dmaxle := by show (d.dyn.setMaxSize v).maxSize ≤ A
                 rw [hd.2.2.2.1]; exact hv
    maxle := by rw [hdyn, hlim]; exact hs.maxle
    limle := by rw [hlim]; exact hs.limle
    sync := by
      intro hu
      show e2.dyn.maxSize ≤ (d.dyn.setMaxSize v).maxSize
      rw [hd.2.2.2.1]; exact hsync hu
    minInv := hmin
    minReset := hreset }

theorem appendTableSize_length (v : Nat) (rest : Bytes) : rest.length < (appendTableSize v ++ rest).length := by
  have := List.length_pos_iff.mpr (appendVarInt_ne_nil 5 32 v)
  unfold appendTableSize
  simp only [List.length_append]
  omega

/-- The `tableSizeUpdate` prologue of `WriteField` (one or two table size updates) is consumed by
the decoder's loop at the beginning of a block and re-establishes `maxSize` agreement. -/
theorem flush_sim (A : Nat) (e : Encoder) (d : DecCore) (par : Bool) (acc : List Field) (rest : Bytes)
    (hs : Sim A e d) (hA : A ≤ uint32Max) (hff : e.tableSizeUpdate = true → d.firstField = true) :
    ∃ d', loopG par d (e.flushUpdate.2 ++ rest) acc = loopG par d' rest acc ∧
      Sim A e.flushUpdate.1 d' ∧ e.flushUpdate.1.tableSizeUpdate = false := by
  have hA' : A < 2 ^ 32 := by unfold uint32Max at hA; omega
  have hmaxA : e.dyn.maxSize ≤ A := Nat.le_trans hs.maxle hs.limle
  unfold Encoder.flushUpdate
  cases hu : e.tableSizeUpdate with
  | false =>
    simp only [Bool.false_eq_true, ↓reduceIte, List.nil_append]
    exact ⟨d, rfl, hs, hu⟩
  | true =>
    simp only [↓reduceIte]
    have hsz1 : e.dyn.size ≤ uint32Max := by have := hs.efit; omega
    by_cases hlt : e.minSize < e.dyn.maxSize
    · -- two updates: the smallest size since the last update, then the final size
      simp only [hlt, ↓reduceIte, List.append_assoc]
      have s1 : Sim A e { d with dyn := d.dyn.setMaxSize e.minSize } :=
        sim_dec_setMax hs e.minSize (by omega) hs.minInv e rfl rfl (by intro h; rw [hu] at h; cases h)
          hs.minInv hs.minReset
      have p1 := parseRepr_sizeUpdate d e.minSize (appendTableSize e.dyn.maxSize ++ rest)
        (by rw [hs.allowed]; omega) (by omega) (Or.inl (hff hu))
      rw [loopG_step par d _ _ _ none acc p1 (appendTableSize_length _ _), afterRepr_update]
      have p2 := parseRepr_sizeUpdate { d with dyn := d.dyn.setMaxSize e.minSize }
        e.dyn.maxSize rest (by rw [s1.allowed]; exact hmaxA) (by omega) (Or.inl (hff hu))
      rw [loopG_step par _ _ _ _ none _ p2 (appendTableSize_length _ _), afterRepr_update]
      simp only [optToList, List.append_nil]
      refine ⟨_, rfl, ?_, by simp⟩
      exact sim_dec_setMax s1 e.dyn.maxSize hmaxA hs.efit _ rfl rfl (fun _ => Nat.le_refl _)
        (by show e.dyn.size ≤ uint32Max; exact hsz1) (fun _ => rfl)
    · -- one update
      simp only [hlt, ↓reduceIte, List.nil_append]
      have p1 := parseRepr_sizeUpdate d e.dyn.maxSize rest (by rw [hs.allowed]; exact hmaxA) (by omega)
        (Or.inl (hff hu))
      rw [loopG_step par d _ _ _ none acc p1 (appendTableSize_length _ _), afterRepr_update]
      simp only [optToList, List.append_nil]
      refine ⟨_, rfl, ?_, by simp⟩
      exact sim_dec_setMax hs e.dyn.maxSize hmaxA hs.efit _ rfl rfl (fun _ => Nat.le_refl _)
        (by show e.dyn.size ≤ uint32Max; exact hsz1) (fun _ => rfl)

/-! ### One `WriteField` / `Write` -/

/-- **One field**: the bytes of `WriteField f`, given to `Decoder.Write`, emit exactly `f`. -/
theorem writeField_sim (A : Nat) (e : Encoder) (d : Decoder) (f : Field)
    (hs : Sim A e d.toDecCore) (hsave : d.saveBuf = []) (hA : A ≤ uint32Max)
    (hff : e.tableSizeUpdate = true → d.firstField = true) (hf : FieldOK f) :
    ∃ d', d.write (e.writeField f).2 = (d', [f], none) ∧ Sim A (e.writeField f).1 d'.toDecCore ∧
      (e.writeField f).1.tableSizeUpdate = false ∧ d'.saveBuf = [] := by
  unfold Encoder.writeField
  simp only
  obtain ⟨d1, hl1, s1, hu1⟩ := flush_sim A e d.toDecCore true [] (e.flushUpdate.1.writeRepr f).2 hs hA hff
  obtain ⟨d2, hp2, hlen2, s2, hu2⟩ := writeRepr_sim A e.flushUpdate.1 d1 f [] s1 hu1 hf hA
  have hne : e.flushUpdate.2 ++ (e.flushUpdate.1.writeRepr f).2 ≠ [] := by
    intro h0
    have : (e.flushUpdate.1.writeRepr f).2 = [] := (List.append_eq_nil_iff.mp h0).2
    rw [this] at hlen2
    simp at hlen2
  rw [write_eq d _ hne, hsave, List.nil_append, hl1]
  rw [List.append_nil] at hp2 hlen2
  rw [loopG_step true d1 d2 _ [] (some f) [] hp2 hlen2, loopG_nil]
  refine ⟨{ toDecCore := Hpack.afterRepr (e.flushUpdate.1.writeRepr f).2 d2, saveBuf := [] }, ?_,
    s2.afterRepr _, hu2, rfl⟩
  simp [finishWrite, optToList]

/-- **One block**: consecutive `WriteField`s fed to consecutive `Write`s. -/
theorem writeFields_sim (A : Nat) (hA : A ≤ uint32Max) : ∀ (fs : List Field) (e : Encoder) (d : Decoder),
    Sim A e d.toDecCore → d.saveBuf = [] → (e.tableSizeUpdate = true → d.firstField = true) →
    (∀ f ∈ fs, FieldOK f) →
    ∃ d', runChunks true d (e.writeFields fs).2 = (d', fs, none) ∧ Sim A (e.writeFields fs).1 d'.toDecCore ∧
      d'.saveBuf = [] := by
  intro fs
  induction fs with
  | nil =>
    intro e d hs hsave _ _
    exact ⟨d, rfl, hs, hsave⟩
  | cons f fs ih =>
    intro e d hs hsave hff hok
    obtain ⟨d1, hw, s1, hu1, hsave1⟩ := writeField_sim A e d f hs hsave hA hff (hok f (by simp))
    obtain ⟨d2, hr, s2, hsave2⟩ := ih (e.writeField f).1 d1 s1 hsave1
      (by intro h; rw [hu1] at h; cases h) (fun g hg => hok g (by simp [hg]))
    refine ⟨d2, ?_, s2, hsave2⟩
    simp only [Encoder.writeFields, runChunks]
    have hw' : d.writeG true (e.writeField f).2 = (d1, [f], none) := hw
    rw [hw']
    simp only
    rw [hr]
    rfl

/-! ### Table size calls between blocks -/

theorem sizeOp_sim {A : Nat} {e : Encoder} {d : DecCore} (hs : Sim A e d) (op : SizeOp)
    (hop : ∀ v, op = .setLimit v → v ≤ A) : Sim A (e.sizeOp op) d := by
  cases op with
  | setMax v =>
    simp only [Encoder.sizeOp, Encoder.setMaxDynamicTableSize]
    generalize hv' : (if v > e.maxSizeLimit then e.maxSizeLimit else v) = v'
    have hv'le : v' ≤ e.maxSizeLimit := by rw [← hv']; split <;> omega
    have he := setMaxSize_sizeOK e.dyn v' hs.esz
    exact {
      pre := List.IsPrefix.trans (setMaxSize_ents_prefix e.dyn v') hs.pre
      esz := he.1
      dsz := hs.dsz
      efit := by show (e.dyn.setMaxSize v').size ≤ (e.dyn.setMaxSize v').maxSize
                 rw [he.2.2.2.1]; exact he.2.1
      dfit := hs.dfit
      cfg := hs.cfg
      allowed := hs.allowed
      dmaxle := hs.dmaxle
      maxle := by show (e.dyn.setMaxSize v').maxSize ≤ e.maxSizeLimit
                  rw [he.2.2.2.1]; exact hv'le
      limle := hs.limle
      sync := by intro h; cases h
      minInv := by
        show (e.dyn.setMaxSize v').size ≤ (if v' < e.minSize then v' else e.minSize)
        have h1 := he.2.1
        have h2 := he.2.2.1
        have h3 := hs.minInv
        split <;> omega
      minReset := by intro h; cases h }
  | setLimit v =>
    have hvA := hop v rfl
    simp only [Encoder.sizeOp, Encoder.setMaxDynamicTableSizeLimit]
    by_cases hgt : e.dyn.maxSize > v
    · simp only [hgt, ↓reduceIte]
      have he := setMaxSize_sizeOK e.dyn v hs.esz
      exact {
        pre := List.IsPrefix.trans (setMaxSize_ents_prefix e.dyn v) hs.pre
        esz := he.1
        dsz := hs.dsz
        efit := by show (e.dyn.setMaxSize v).size ≤ (e.dyn.setMaxSize v).maxSize
                   rw [he.2.2.2.1]; exact he.2.1
        dfit := hs.dfit
        cfg := hs.cfg
        allowed := hs.allowed
        dmaxle := hs.dmaxle
        maxle := by show (e.dyn.setMaxSize v).maxSize ≤ v
                    rw [he.2.2.2.1]; exact Nat.le_refl _
        limle := hvA
        sync := by intro h; cases h
        minInv := by
          show (e.dyn.setMaxSize v).size ≤ e.minSize
          have h2 := he.2.2.1
          have h3 := hs.minInv
          omega
        minReset := by intro h; cases h }
    · simp only [hgt, ↓reduceIte]
      exact {
        pre := hs.pre, esz := hs.esz, dsz := hs.dsz, efit := hs.efit, dfit := hs.dfit, cfg := hs.cfg,
        allowed := hs.allowed, dmaxle := hs.dmaxle
        maxle := by show e.dyn.maxSize ≤ v; omega
        limle := hvA
        sync := hs.sync, minInv := hs.minInv, minReset := hs.minReset }

theorem sizeOps_sim {A : Nat} : ∀ (ops : List SizeOp) {e : Encoder} {d : DecCore}, Sim A e d →
    (∀ v, SizeOp.setLimit v ∈ ops → v ≤ A) → Sim A (ops.foldl Encoder.sizeOp e) d := by
  intro ops
  induction ops with
  | nil => intro e d hs _; exact hs
  | cons op ops ih =>
    intro e d hs hop
    simp only [List.foldl_cons]
    exact ih (sizeOp_sim hs op (fun v hv => hop v (by simp [hv]))) (fun v hv => hop v (by simp [hv]))

theorem sizeOp_flag (e : Encoder) (op : SizeOp) (h : e.tableSizeUpdate = true) : (e.sizeOp op).tableSizeUpdate = true := by
  cases op with
  | setMax v => rfl
  | setLimit v =>
    simp only [Encoder.sizeOp, Encoder.setMaxDynamicTableSizeLimit]
    split
    · rfl
    · exact h

/-! ### Histories -/

/-- Encoder and decoder of one connection direction. -/
structure Sys where
  enc : Encoder
  dec : Decoder
  deriving Repr

/-- `NewEncoder`; `NewDecoder(4096)` + `SetAllowedMaxDynamicTableSize(A)`. -/
def Sys.init (A : Nat) : Sys :=
  { enc := Encoder.new, dec := (Decoder.new initialHeaderTableSize).setAllowedMaxDynamicTableSize A }

/-- One block: size calls, one `WriteField`/`Write` per field, `Close`.
Result: new state, the fields the decoder emitted, the decoder's error if any. -/
def Sys.block (s : Sys) (b : Block) : Sys × List Field × Option PErr :=
  let r := s.enc.encodeBlock b
  let w := runWrites s.dec r.2
  ({ enc := r.1, dec := w.1 }, w.2.1, w.2.2)

/-- A history: what the decoder reports per block. -/
def Sys.run : Sys → List Block → List (List Field × Option PErr)
  | _, [] => []
  | s, b :: bs => ((s.block b).2.1, (s.block b).2.2) :: Sys.run (s.block b).1 bs

/-- Hypotheses of the statement: byte strings of non-overflowing size; the decoder's bound `A`
covers every limit the encoder is given. -/
def HistOK (A : Nat) (h : List Block) : Prop :=
  (∀ b ∈ h, ∀ f ∈ b.fields, FieldOK f) ∧ (∀ b ∈ h, ∀ v, SizeOp.setLimit v ∈ b.pre → v ≤ A)

/-- State between blocks. -/
structure Between (A : Nat) (s : Sys) : Prop where
  sim : Sim A s.enc s.dec.toDecCore
  save : s.dec.saveBuf = []
  ff : s.dec.firstField = true

theorem init_between (A : Nat) (hA : initialHeaderTableSize ≤ A) : Between A (Sys.init A) := by
  refine ⟨?_, rfl, rfl⟩
  unfold initialHeaderTableSize at hA
  exact {
    pre := by exact List.prefix_refl _
    esz := show Encoder.new.dyn.size = sizeSum Encoder.new.dyn.ents from by decide
    dsz := by unfold SizeOK; rfl
    efit := show Encoder.new.dyn.size ≤ Encoder.new.dyn.maxSize from by decide
    dfit := Nat.zero_le _
    cfg := ⟨rfl, rfl⟩
    allowed := rfl
    dmaxle := hA
    maxle := show Encoder.new.dyn.maxSize ≤ Encoder.new.maxSizeLimit from by decide
    limle := hA
    sync := by intro _; exact (show Encoder.new.dyn.maxSize ≤ 4096 from by decide)
    minInv := show Encoder.new.dyn.size ≤ Encoder.new.minSize from by decide
    minReset := by intro _; rfl }

theorem block_sim (A : Nat) (hA : A ≤ uint32Max) (s : Sys) (b : Block) (hb : Between A s)
    (hf : ∀ f ∈ b.fields, FieldOK f) (hl : ∀ v, SizeOp.setLimit v ∈ b.pre → v ≤ A) :
    (s.block b).2 = (b.fields, none) ∧ Between A (s.block b).1 := by
  have s1 := sizeOps_sim b.pre hb.sim hl
  obtain ⟨d', hr, s2, hsave⟩ := writeFields_sim A hA b.fields (b.pre.foldl Encoder.sizeOp s.enc) s.dec s1 hb.save
    (fun _ => hb.ff) hf
  have hrun : runWrites s.dec ((b.pre.foldl Encoder.sizeOp s.enc).writeFields b.fields).2 =
      ({ d' with firstField := true }, b.fields, none) := by
    unfold runWrites runWritesG
    rw [hr]
    simp [Decoder.close, hsave]
  unfold Sys.block Encoder.encodeBlock
  simp only
  rw [hrun]
  exact ⟨rfl, s2.setFF true, hsave, rfl⟩

/-- **The property at full strength.** -/
def RoundtripStatement : Prop :=
  ∀ (A : Nat) (h : List Block), initialHeaderTableSize ≤ A → A ≤ uint32Max → HistOK A h →
    Sys.run (Sys.init A) h = h.map (fun b => (b.fields, none))

theorem run_sim (A : Nat) (hA : A ≤ uint32Max) : ∀ (h : List Block) (s : Sys), Between A s → HistOK A h →
    Sys.run s h = h.map (fun b => (b.fields, none)) := by
  intro h
  induction h with
  | nil => intro s _ _; rfl
  | cons b bs ih =>
    intro s hb hok
    have hblk := block_sim A hA s b hb (hok.1 b (by simp)) (hok.2 b (by simp))
    simp only [Sys.run, List.map_cons]
    rw [ih (s.block b).1 hblk.2 ⟨fun b' hb' => hok.1 b' (by simp [hb']), fun b' hb' => hok.2 b' (by simp [hb'])⟩]
    rw [show ((s.block b).2.1, (s.block b).2.2) = (s.block b).2 from rfl, hblk.1]

/-- **C01**: every history of header blocks with arbitrary `SetMaxDynamicTableSize` /
`SetMaxDynamicTableSizeLimit` calls between blocks decodes to exactly the fields written — same
order, names, values and `Sensitive` flags — without error. -/
theorem roundtrip_history : RoundtripStatement := fun A h hA0 hA hok =>
  run_sim A hA h (Sys.init A) (init_between A hA0) hok

/-! ### The former counterexample (regression) -/

def witnessField : Field := { name := [97], value := [98] }

/-- Write `a: b`; `SetMaxDynamicTableSize(34)`; `SetMaxDynamicTableSize(4096)`; write `a: b` again:
two table size updates with a non-empty table after the first (rejected before the repair). -/
def witnessHistory : List Block :=
  [{ fields := [witnessField] }, { pre := [.setMax 34, .setMax 4096], fields := [witnessField] }]

theorem witness_histOK : HistOK 4096 witnessHistory := by
  constructor
  · intro b hb f hf
    simp only [witnessHistory, List.mem_cons, List.not_mem_nil, or_false] at hb
    rcases hb with rfl | rfl <;>
    · simp only [List.mem_cons, List.not_mem_nil, or_false] at hf
      subst hf
      refine ⟨?_, ?_, by decide⟩ <;> (intro x hx; simp [witnessField] at hx; omega)
  · intro b hb v hv
    simp only [witnessHistory, List.mem_cons, List.not_mem_nil, or_false] at hb
    rcases hb with rfl | rfl <;> simp at hv

/-- Kernel evaluation of both models on the former counterexample: both blocks decode. -/
theorem witness_run :
    Sys.run (Sys.init 4096) witnessHistory = [([witnessField], none), ([witnessField], none)] := by
  decide +kernel

example : Sys.run (Sys.init 4096) witnessHistory = witnessHistory.map (fun b => (b.fields, none)) :=
  roundtrip_history 4096 witnessHistory (by decide) (by decide) witness_histOK

/-- The second block really carries two table size updates (`3f 03` = 34, `3f e1 1f` = 4096). -/
example : ((Encoder.new.writeField witnessField).1.setMaxDynamicTableSize 34 |>.setMaxDynamicTableSize 4096
    |>.writeField witnessField).2 = [63, 3, 63, 225, 31, 190] := by decide +kernel

/-! ### T-tie: the static table's search index (`static_table.go` literal maps) -/

def lookupN (m : List (List Nat × Nat)) (k : List Nat) : Nat :=
  match m.find? (fun p => p.1 == k) with
  | some p => p.2
  | none => 0

def lookupNV (m : List ((List Nat × List Nat) × Nat)) (k : List Nat × List Nat) : Nat :=
  match m.find? (fun p => p.1 == k) with
  | some p => p.2
  | none => 0

theorem byName_points_at_last :
    Gen.C01.byName.all (fun p => lastIdx (fun e => e.1 == p.1) staticTable == p.2) = true := by decide +kernel

theorem byName_covers :
    staticTable.all (fun e => Gen.C01.byName.any (fun p => p.1 == e.1)) = true := by decide +kernel

theorem byNameValue_points_at_last :
    Gen.C01.byNameValue.all (fun p => lastIdx (fun e => e.1 == p.1.1 && e.2 == p.1.2) staticTable == p.2) = true := by
  decide +kernel

theorem byNameValue_covers :
    staticTable.all (fun e => Gen.C01.byNameValue.any (fun p => p.1 == e)) = true := by decide +kernel

theorem mem_of_getElem? {α : Type} (l : List α) (i : Nat) (a : α) (h : l[i]? = some a) : a ∈ l :=
  List.mem_of_getElem? h

/-- **The literal index maps of `static_table.go` are the model's search function**: for every
field, `staticTable.byNameValue[{name,value}]` / `staticTable.byName[name]` (0 when absent) is the
position of the LAST static entry with that pair / name. -/
theorem static_index_is_lastIdx (f : Field) :
    lookupNV Gen.C01.byNameValue (f.name, f.value) = lastIdx (matchNV f) staticTable ∧
    lookupN Gen.C01.byName f.name = lastIdx (matchN f) staticTable := by
  constructor
  · unfold lookupNV
    cases hfind : Gen.C01.byNameValue.find? (fun p => p.1 == (f.name, f.value)) with
    | some p =>
      have hmem := List.mem_of_find?_eq_some hfind
      have hkey : p.1 = (f.name, f.value) := by simpa using List.find?_some hfind
      have := List.all_eq_true.mp byNameValue_points_at_last p hmem
      simp only [beq_iff_eq] at this
      show p.2 = _
      rw [← this]
      have hk1 : p.1.1 = f.name := by rw [hkey]
      have hk2 : p.1.2 = f.value := by rw [hkey]
      simp only [hk1, hk2]
      rfl
    | none =>
      simp only
      by_cases h0 : lastIdx (matchNV f) staticTable = 0
      · exact h0.symm
      · exfalso
        obtain ⟨e, hget, hpe⟩ := lastIdx_spec _ _ h0
        have hmem := mem_of_getElem? _ _ _ hget
        have he : e = (f.name, f.value) := (matchNV_iff f e).1 hpe
        have hc := List.all_eq_true.mp byNameValue_covers e hmem
        obtain ⟨p, hp, hpk⟩ := List.any_eq_true.mp hc
        have hnone := List.find?_eq_none.mp hfind p hp
        rw [he] at hpk
        exact hnone hpk
  · unfold lookupN
    cases hfind : Gen.C01.byName.find? (fun p => p.1 == f.name) with
    | some p =>
      have hmem := List.mem_of_find?_eq_some hfind
      have hkey : p.1 = f.name := by simpa using List.find?_some hfind
      have := List.all_eq_true.mp byName_points_at_last p hmem
      simp only [beq_iff_eq] at this
      show p.2 = _
      rw [← this, hkey]
      rfl
    | none =>
      simp only
      by_cases h0 : lastIdx (matchN f) staticTable = 0
      · exact h0.symm
      · exfalso
        obtain ⟨e, hget, hpe⟩ := lastIdx_spec _ _ h0
        have hmem := mem_of_getElem? _ _ _ hget
        have he : e.1 = f.name := (matchN_iff f e).1 hpe
        have hc := List.all_eq_true.mp byName_covers e hmem
        obtain ⟨p, hp, hpk⟩ := List.any_eq_true.mp hc
        have hnone := List.find?_eq_none.mp hfind p hp
        rw [he] at hpk
        exact hnone hpk

/-! ### Non-vacuity -/

/-- A history with size changes (encoder-only shrink, lower-then-raise), a sensitive field, a static
hit and a dynamic hit satisfies the hypotheses; its blocks decode to the input. -/
def sampleHistory : List Block :=
  [{ fields := [witnessField, { name := [58, 109, 101, 116, 104, 111, 100], value := [71, 69, 84] }] },
   { pre := [.setLimit 100, .setLimit 4096, .setMax 4096],
     fields := [witnessField, { name := [97], value := [99], sensitive := true }] },
   { pre := [.setMax 40, .setMax 200], fields := [witnessField] }]

example : Sys.run (Sys.init 4096) sampleHistory = sampleHistory.map (fun b => (b.fields, none)) := by decide +kernel
example : FieldOK witnessField := by
  refine ⟨?_, ?_, by decide⟩ <;> (intro x hx; simp [witnessField] at hx; omega)
example : Sim 4096 (Sys.init 4096).enc (Sys.init 4096).dec.toDecCore := (init_between 4096 (by decide)).sim

end NetVerif.Proofs.C01
