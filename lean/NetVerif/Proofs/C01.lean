import NetVerif.Model.HpackEnc
import NetVerif.Gen.C01
namespace NetVerif.Proofs.C01
open NetVerif.Model.Hpack NetVerif.Model.HpackEnc
open NetVerif

theorem gen_consts_eq : Gen.C01.uint32Max = uint32Max ∧ Gen.C01.initialHeaderTableSize = initialHeaderTableSize := by
  decide

end NetVerif.Proofs.C01
