import NetVerif.Proofs.Lemmas.HpackEnc
import NetVerif.Gen.C01
/-!
C01 — HPACK encode/decode round-trips every header list, across arbitrary interleavings of
`SetMaxDynamicTableSize` / `SetMaxDynamicTableSizeLimit` between header blocks.

Models: `Model.HpackEnc` (encoder, this property) paired with `Model.Hpack` (decoder, C02/C03).
A history is a list of `Block`s (size calls made before the block, then its fields); the encoder
performs one `Write` per field, the decoder is fed these writes and `Close`d at the end of the block
(`Sys.block`). The decoder is `NewDecoder(4096)` + `SetAllowedMaxDynamicTableSize(A)`.

Main results
* `RoundtripStatement` — the property at full strength (every history, `A` ≥ every limit used).
* `roundtrip_history_full_false` — it is FALSE for the code as it is: after a *lower-then-raise*
  (`SetMaxDynamicTableSize 34; SetMaxDynamicTableSize 4096`) the encoder emits two table size updates
  (RFC 7541 §4.2) and the decoder rejects the second one (`firstField` was cleared by the first)
  whenever its table is still non-empty. Finding `c01-double-size-update-rejected`.
* `roundtrip_history_holds_partial` — outside that region (`avoidsDefect`, a computable predicate
  on the joint run) every history round-trips exactly: fields, order, `Sensitive` flags, no error.
  The simulation invariant is `Sim`: the encoder's table is the *newest part* (`<+:` on the
  newest-first lists) of the decoder's table — equality is not invariant — plus the size bookkeeping.
* `defect_region_fails` — inside the region the decoder does fail (the exclusion is exact).
* `roundtrip_no_size_change`, `roundtrip_single_block` — corollaries without the region hypothesis.
* T-tie obligations on the regenerated index literal of the static table: `static_index_is_lastIdx`.
-/
namespace NetVerif.Proofs.C01
open NetVerif.Model.Hpack NetVerif.Model.HpackEnc
open NetVerif.Proofs.Lemmas.HpackEnc
open NetVerif.Proofs.Lemmas.Hpack
open NetVerif.Model
open NetVerif

/-! ### T-tie: regenerated constants and the static search index -/

theorem gen_consts_eq :
    Gen.C01.uint32Max = uint32Max ∧ Gen.C01.initialHeaderTableSize = initialHeaderTableSize := by
  decide

/-! ### Hypotheses on inputs -/

/-- Go strings are byte strings; `HeaderField.Size()` does not wrap (`uint32`). -/
def FieldOK (f : Field) : Prop :=
  Proofs.C04.Bytes f.name ∧ Proofs.C04.Bytes f.value ∧ f.name.length + f.value.length + 32 < 2 ^ 32

/-! ### The simulation invariant -/

/-- Encoder/decoder relation between representations. `A` is the decoder's allowed maximum. -/
structure Sim (A : Nat) (e : Encoder) (d : DecCore) : Prop where
  pre : e.dyn.ents <+: d.dyn.ents
  esz : SizeOK e.dyn
  dsz : SizeOK d.dyn
  efit : e.dyn.size ≤ e.dyn.maxSize
  dfit : d.dyn.size ≤ d.dyn.maxSize
  cfg : DecCfg d
  allowed : d.dyn.allowedMaxSize = A
  dmaxle : d.dyn.maxSize ≤ A
  maxle : e.dyn.maxSize ≤ e.maxSizeLimit
  limle : e.maxSizeLimit ≤ A
  sync : e.tableSizeUpdate = false → e.dyn.maxSize ≤ d.dyn.maxSize
  minInv : e.dyn.size ≤ e.minSize
  minReset : e.tableSizeUpdate = false → e.minSize = uint32Max

theorem Sim.setFF {A : Nat} {e : Encoder} {d : DecCore} (h : Sim A e d) (b : Bool) :
    Sim A e { d with firstField := b } :=
  ⟨h.pre, h.esz, h.dsz, h.efit, h.dfit, ⟨h.cfg.str, h.cfg.emit⟩, h.allowed, h.dmaxle, h.maxle, h.limle, h.sync,
    h.minInv, h.minReset⟩

theorem field_eta (f : Field) (hs : f.sensitive = false) : ({ name := f.name, value := f.value } : Field) = f := by
  cases f; simp_all

theorem field_eta' (f : Field) (b : Bool) (hs : f.sensitive = b) :
    ({ name := f.name, value := f.value, sensitive := b } : Field) = f := by
  cases f; simp_all

/-! ### One field representation -/

/-- The representation of `f` (no pending table size update) is read back as `f`, and the
invariant is kept. -/
theorem writeRepr_sim (A : Nat) (e : Encoder) (d : DecCore) (f : Field) (rest : Bytes)
    (hs : Sim A e d) (hu : e.tableSizeUpdate = false) (hf : FieldOK f) (hA : A ≤ uint32Max) :
    ∃ d', parseRepr d ((e.writeRepr f).2 ++ rest) = .ok d' rest (some f) ∧
      rest.length < ((e.writeRepr f).2 ++ rest).length ∧
      Sim A (e.writeRepr f).1 d' ∧ (e.writeRepr f).1.tableSizeUpdate = false := by
  obtain ⟨hnb, hvb, hsize⟩ := hf
  have hspec := searchTable_spec e d f hs.pre
  have hA' : A < 2 ^ 32 := by unfold uint32Max at hA; omega
  -- every index the decoder can resolve is small
  have hidx : ∀ i en, d.at i = some en → i < 2 ^ 62 := by
    intro i en h
    have h1 := at_le d i en h
    have h2 := sizeSum_ge d.dyn.ents
    have h3 := hs.dsz
    unfold SizeOK at h3
    have h4 := hs.dfit
    have h5 := hs.dmaxle
    rw [staticTable_length] at h1
    omega
  unfold Encoder.writeRepr
  simp only
  by_cases hm : (e.searchTable f).2 = true
  · -- indexed
    obtain ⟨hsens, hne, hat⟩ := hspec.1 hm
    simp only [hm, ↓reduceIte]
    refine ⟨d, ?_, ?_, hs, hu⟩
    · rw [parseRepr_indexed d hs.cfg _ _ rest hat (hidx _ _ hat)]
      simp only [field_eta f hsens]
    · have := appendVarInt_ne_nil 7 128 (e.searchTable f).1
      unfold appendIndexed
      cases h : appendVarInt 7 128 (e.searchTable f).1 with
      | nil => exact absurd h this
      | cons a t => simp
  · have hm' : (e.searchTable f).2 = false := by simpa using hm
    simp only [hm', Bool.false_eq_true, ↓reduceIte]
    -- the literal kind
    have key : ∀ (k : LitKind) (indexing : Bool), e.shouldIndex f = indexing →
        encodeTypeByte indexing f.sensitive = k.flag → (if indexing = true then 6 else 4) = k.n →
        k.it.sensitive = f.sensitive → (indexing = true ↔ k = .incr) →
        ∃ d', parseRepr d ((if (e.searchTable f).1 = 0 then appendNewName f indexing
            else appendIndexedName f (e.searchTable f).1 indexing) ++ rest) = .ok d' rest (some f) ∧
          rest.length < ((if (e.searchTable f).1 = 0 then appendNewName f indexing
            else appendIndexedName f (e.searchTable f).1 indexing) ++ rest).length ∧
          Sim A (if indexing = true then { e with dyn := e.dyn.add (f.name, f.value) } else e) d' ∧
          (if indexing = true then { e with dyn := e.dyn.add (f.name, f.value) } else e).tableSizeUpdate = false := by
      intro k indexing hsi hflag hn hsens hincr
      refine ⟨afterLiteral d k f.name f.value, ?_, ?_, ?_, ?_⟩
      · by_cases h0 : (e.searchTable f).1 = 0
        · simp only [h0, ↓reduceIte, appendNewName, hflag, List.cons_append, List.append_assoc]
          rw [parseRepr_literal_new d hs.cfg k f.name f.value rest (by omega) (by omega) hnb hvb, hsens,
            field_eta' f _ rfl]
        · obtain ⟨v, hat⟩ := hspec.2 hm' h0
          simp only [h0, ↓reduceIte, appendIndexedName, hflag, hn, List.append_assoc]
          rw [parseRepr_literal_idx d hs.cfg k _ (f.name, v) f.value rest (by omega) (hidx _ _ hat) hat (by omega) hvb,
            hsens, field_eta' f _ rfl]
      · by_cases h0 : (e.searchTable f).1 = 0
        · simp [h0, appendNewName]
        · simp only [h0, ↓reduceIte, appendIndexedName, List.append_assoc, List.length_append]
          have := appendVarInt_ne_nil (if indexing = true then 6 else 4) (encodeTypeByte indexing f.sensitive)
            (e.searchTable f).1
          have : 0 < (appendVarInt (if indexing = true then 6 else 4) (encodeTypeByte indexing f.sensitive)
            (e.searchTable f).1).length := List.length_pos_iff.mpr this
          omega
      · cases k with
        | incr =>
          have hi : indexing = true := hincr.2 rfl
          subst hi
          simp only [↓reduceIte, afterLiteral]
          have hM := hs.sync hu
          have he := add_sizeOK e.dyn (f.name, f.value) hs.esz
          have hd := add_sizeOK d.dyn (f.name, f.value) hs.dsz
          have hmin := hs.minReset hu
          exact {
            pre := add_prefix e.dyn d.dyn _ hs.esz hs.dsz hs.pre hM
            esz := he.1
            dsz := hd.1
            efit := by rw [he.2.2.1]; exact he.2.1
            dfit := by show (d.dyn.add (f.name, f.value)).size ≤ (d.dyn.add (f.name, f.value)).maxSize
                       rw [hd.2.2.1]; exact hd.2.1
            cfg := ⟨hs.cfg.str, hs.cfg.emit⟩
            allowed := by show (d.dyn.add (f.name, f.value)).allowedMaxSize = A
                          rw [hd.2.2.2]; exact hs.allowed
            dmaxle := by show (d.dyn.add (f.name, f.value)).maxSize ≤ A
                         rw [hd.2.2.1]; exact hs.dmaxle
            maxle := by show (e.dyn.add (f.name, f.value)).maxSize ≤ e.maxSizeLimit
                        rw [he.2.2.1]; exact hs.maxle
            limle := hs.limle
            sync := by
              intro _
              show (e.dyn.add (f.name, f.value)).maxSize ≤ (d.dyn.add (f.name, f.value)).maxSize
              rw [he.2.2.1, hd.2.2.1]; exact hM
            minInv := by
              show (e.dyn.add (f.name, f.value)).size ≤ e.minSize
              have h1 := he.2.1
              have h2 := hs.maxle
              have h3 := hs.limle
              rw [hmin]; omega
            minReset := hs.minReset }
        | without =>
          have hi : indexing = false := by
            cases indexing with
            | false => rfl
            | true => exact absurd (hincr.1 rfl) (by decide)
          subst hi
          simpa [afterLiteral] using hs
        | never =>
          have hi : indexing = false := by
            cases indexing with
            | false => rfl
            | true => exact absurd (hincr.1 rfl) (by decide)
          subst hi
          simpa [afterLiteral] using hs
      · split <;> exact hu
    cases hsens : f.sensitive with
    | true =>
      have hsi : e.shouldIndex f = false := by simp [Encoder.shouldIndex, hsens]
      simp only [hsi]
      exact key .never false hsi (by simp [encodeTypeByte, hsens, LitKind.flag]) (by simp [LitKind.n])
        (by simp [LitKind.it, IndexType.sensitive, hsens]) (by simp)
    | false =>
      cases hsi : e.shouldIndex f with
      | true =>
        exact key .incr true hsi (by simp [encodeTypeByte, hsens, LitKind.flag]) (by simp [LitKind.n])
          (by simp [LitKind.it, IndexType.sensitive, hsens]) (by simp)
      | false =>
        exact key .without false hsi (by simp [encodeTypeByte, hsens, LitKind.flag]) (by simp [LitKind.n])
          (by simp [LitKind.it, IndexType.sensitive, hsens]) (by simp)

end NetVerif.Proofs.C01
