import NetVerif.Model.QuicStream
import NetVerif.Model.QuicMonitor
import NetVerif.Gen.C20
import NetVerif.Proofs.Lemmas.QuicMonitor
import NetVerif.Proofs.Lemmas.QuicSendPath
/-!
C20 — QUIC never sends stream data beyond the peer's flow-control limits; advertised
limits never decrease; a peer exceeding them gets FLOW_CONTROL_ERROR.

* T-tie: the straight-line integer functions regenerated from conn_flow.go / stream.go equal the model.
* Mechanism theorems on the exact model (`Model/QuicStream.lean`): receive-side rejection iff,
  send path preserves `used ≤ max` and `outmaxsent ≤ outwin`, credit consumed = new bytes only,
  advertised limits monotone.
* Monitor theorems (`Model/QuicMonitor.lean`): every accepted trace satisfies the wire-level statement.
-/
namespace NetVerif.Proofs.C20
open NetVerif.Model NetVerif.Model.QuicStream
open NetVerif.Model.Rangeset (RS Rg)

/-! ### T-tie -/
theorem gen_consts :
    Gen.C20.errFlowControl = errFlowControl ∧ Gen.C20.errFinalSize = errFinalSize ∧
    Gen.C20.autoFlushSize = autoFlushSize ∧ Gen.C20.pipebufSize = chunk ∧
    Gen.C20.sentValUnsetState = SV.unset.code ∧ Gen.C20.sentValUnsentState = SV.unsent.code ∧
    Gen.C20.sentValSentState = (SV.sent 0).code ∧ Gen.C20.sentValReceivedState = SV.received.code := by
  decide

theorem gen_setMaxData_eq (mx v : Int) : Gen.C20.setMaxData mx v = some (setMaxData mx v) := by
  unfold Gen.C20.setMaxData setMaxData
  by_cases h : mx ≥ v
  · simp [h, Int.max_def]; omega
  · simp [h, Int.max_def]; omega

theorem gen_avail_eq (mx used : Int) : Gen.C20.avail mx used = some (avail mx used) := rfl
theorem gen_consume_eq (used n : Int) : Gen.C20.consume used n = some (consume used n) := rfl
theorem gen_shouldUpdateFlowControl_eq (w a : Int) :
    Gen.C20.shouldUpdateFlowControl w a = some (shouldUpdateFlowControl w a) := rfl

theorem gen_checkStreamBounds_eq (inwin insize inEnd e : Int) (fin : Bool) :
    Gen.C20.checkStreamBounds inwin insize inEnd e fin = some (checkStreamBounds inwin insize inEnd e fin) := by
  unfold Gen.C20.checkStreamBounds checkStreamBounds errFlowControl errFinalSize
  repeat' split
  all_goals first | rfl | (simp_all; done) | (exfalso; simp_all; omega) | (exfalso; simp_all)

theorem gen_bytesReceived_eq (used lim n : Int) :
    Gen.C20.bytesReceived used lim n =
      some ((bytesReceived used lim n).1, (bytesReceived used lim n).2, lim) := by
  unfold Gen.C20.bytesReceived bytesReceived errFlowControl
  split <;> simp_all

/-! ### receive side: rejection exactly when a limit is exceeded -/

/-- `checkStreamBounds` reports FLOW_CONTROL_ERROR iff the frame ends beyond the advertised stream window. -/
theorem checkStreamBounds_flow_iff (inwin insize inEnd e : Int) (fin : Bool) :
    checkStreamBounds inwin insize inEnd e fin = errFlowControl ↔ e > inwin := by
  unfold checkStreamBounds errFlowControl errFinalSize
  repeat' split
  all_goals simp_all
  all_goals omega

/-- `handleStreamBytesReceived` reports FLOW_CONTROL_ERROR iff the connection total exceeds the last MAX_DATA sent. -/
theorem bytesReceived_flow_iff (used lim n : Int) :
    (bytesReceived used lim n).1 = errFlowControl ↔ used + n > lim := by
  unfold bytesReceived errFlowControl
  split <;> simp_all

theorem bytesReceived_ok_bound (used lim n : Int) (h : (bytesReceived used lim n).1 = 0) :
    (bytesReceived used lim n).2 ≤ lim := by
  unfold bytesReceived errFlowControl at *
  by_cases hc : used + n > lim
  · simp [hc] at h
  · simp [hc]; omega

/-- The conn-level part of `handleData`: when new bytes are recorded, they are charged exactly once
(`e - in.end`), and the frame is refused iff the charge overshoots `sentLimit`. -/
theorem handleData_flow_error_iff (c : Conn) (s : Stream) (off : Int) (b : List Nat) (fin : Bool) :
    (handleData c s off b fin).2.2 = errFlowControl ↔
      (off + b.length > s.inwin ∨
        (checkStreamBounds s.inwin s.insize s.inp.stop (off + b.length) fin = 0 ∧
          ¬ (s.inclosed.isSet = true ∨ s.inresetcode ≠ -1) ∧ s.insize = -1 ∧ off + b.length > s.inp.stop ∧
          c.usedLimit + (off + b.length - s.inp.stop) > c.sentLimit)) := by
  unfold handleData
  simp only []
  by_cases h1 : checkStreamBounds s.inwin s.insize s.inp.stop (off + b.length) fin = 0
  · have hnf : ¬ (off + (b.length : Int) > s.inwin) := by
      intro h; have := (checkStreamBounds_flow_iff s.inwin s.insize s.inp.stop _ fin).2 h
      rw [h1] at this; exact absurd this (by decide)
    simp only [h1, ne_eq, not_true_eq_false, if_false]
    by_cases h2 : (s.inclosed.isSet = true ∨ s.inresetcode ≠ -1)
    · simp [h2, errFlowControl, hnf]
    · simp only [h2, if_false]
      by_cases h3 : s.insize = -1 ∧ off + (b.length : Int) > s.inp.stop
      · simp only [h3, and_self, if_true]
        by_cases h4 : c.usedLimit + (off + (b.length : Int) - s.inp.stop) > c.sentLimit
        · have : (bytesReceived c.usedLimit c.sentLimit (off + b.length - s.inp.stop)).1 = errFlowControl :=
            (bytesReceived_flow_iff _ _ _).2 h4
          simp [this, errFlowControl, h4, h3, h2, hnf]
        · have h5 : (bytesReceived c.usedLimit c.sentLimit (off + b.length - s.inp.stop)).1 = 0 := by
            unfold bytesReceived; simp [h4]
          simp only [h5, ne_eq, not_true_eq_false, if_false]
          constructor
          · intro h; exact absurd h (by decide)
          · rintro (h | h)
            · exact absurd h hnf
            · exact absurd h.2.2.2.2 h4
      · simp only [h3, if_false, ne_eq, not_true_eq_false]
        constructor
        · intro h; exact absurd h (by decide)
        · rintro (h | h)
          · exact absurd h hnf
          · exact absurd ⟨h.2.2.1, h.2.2.2.1⟩ h3
  · simp only [h1, ne_eq, not_false_eq_true, if_true]
    constructor
    · intro h; left; exact (checkStreamBounds_flow_iff _ _ _ _ _).1 h
    · rintro (h | h)
      · exact (checkStreamBounds_flow_iff _ _ _ _ _).2 h
      · exact absurd h.1 (by simpa using h1)

/-! ### advertised limits never decrease -/

/-- MAX_DATA: `newLimit` only grows while credits are non-negative, and the value put on the wire
(`sentLimit := newLimit`) is at least the previous one whenever `sentLimit ≤ newLimit` held. -/
theorem appendMaxData_monotone (c : Conn) (w : Writer) (pn : Int) (pto : Bool)
    (h1 : c.sentLimit ≤ c.newLimit) (h2 : 0 ≤ c.credit) :
    let r := appendMaxData c w pn pto
    c.sentLimit ≤ r.1.sentLimit ∧ r.1.sentLimit ≤ r.1.newLimit ∧ c.newLimit ≤ r.1.newLimit ∧ 0 ≤ r.1.credit := by
  unfold appendMaxData
  simp only []
  split
  · split <;> simp_all <;> omega
  · simp_all

theorem sendMaxDataUpdate_monotone (c : Conn) (h1 : c.sentLimit ≤ c.newLimit) (h2 : 0 ≤ c.credit) :
    c.sentLimit ≤ c.sendMaxDataUpdate.newLimit ∧ c.sendMaxDataUpdate.sentLimit = c.sentLimit ∧
      0 ≤ c.sendMaxDataUpdate.credit := by
  unfold Conn.sendMaxDataUpdate; simp; omega

theorem bytesRead_monotone (c : Conn) (n : Int) (h1 : c.sentLimit ≤ c.newLimit) (h2 : 0 ≤ c.credit) (hn : 0 ≤ n) :
    (c.bytesReadOffLoop n).sentLimit = c.sentLimit ∧ c.newLimit ≤ (c.bytesReadOffLoop n).newLimit ∧
      0 ≤ (c.bytesReadOffLoop n).credit ∧
    (c.bytesReadOnLoop n).sentLimit = c.sentLimit ∧ c.newLimit ≤ (c.bytesReadOnLoop n).newLimit ∧
      0 ≤ (c.bytesReadOnLoop n).credit := by
  unfold Conn.bytesReadOffLoop Conn.bytesReadOnLoop Conn.sendMaxDataUpdate
  simp only []
  repeat' split
  all_goals simp_all
  all_goals omega

/-- MAX_STREAM_DATA: the value written is `in.start + inmaxbuf`; it becomes the new `inwin`. -/
theorem appendInFrames_inwin (s : Stream) (w : Writer) (pn : Int) (pto : Bool) :
    let r := appendInFrames s w pn pto
    r.1.inwin = s.inwin ∨ r.1.inwin = s.inp.start + s.inmaxbuf := by
  unfold appendInFrames
  by_cases h : s.inclosed.shouldSendPTO pto = true
  · cases hst : w.stopSending s.id 0 with
    | none => simp [h, hst]
    | some w' =>
      simp only [h, hst, if_true]
      split
      · split <;> simp_all
      · simp_all
  · have h' : s.inclosed.shouldSendPTO pto = false := by simpa using h
    simp only [h', Bool.false_eq_true, if_false]
    split
    · split <;> simp_all
    · simp_all

/-- `setMaxData` (peer's MAX_DATA, any order/duplicates): the stored limit is the maximum ever seen. -/
theorem setMaxData_max (mx v : Int) : setMaxData mx v ≥ mx ∧ setMaxData mx v ≥ v ∧
    (setMaxData mx v = mx ∨ setMaxData mx v = v) := by
  unfold setMaxData; split <;> omega

/-- `handleMaxStreamData`: stale or duplicate MAX_STREAM_DATA never lowers `outwin`. -/
theorem handleMaxStreamData_outwin (s : Stream) (v : Int) :
    (handleMaxStreamData s v).outwin = (if v ≤ s.outwin then s.outwin else v) ∧
    (handleMaxStreamData s v).outmaxsent = s.outmaxsent := by
  unfold handleMaxStreamData
  simp only []
  repeat' split
  all_goals simp_all

/-! ### connection-level credit conservation (receive side, repaired code) -/

/-- bytes of a stream already handed back to connection-level flow control: what the application
consumed plus what `Read` parked in the fast-path buffer. -/
def returned (s : Stream) : Int := s.inp.start + s.inbuf.length

/-- what the peer has been or will be granted: the next MAX_DATA value plus pending credit -/
def granted (c : Conn) : Int := c.newLimit + c.credit

theorem granted_bytesRead (c : Conn) (n : Int) :
    granted (c.bytesReadOffLoop n) = granted c + n ∧ granted (c.bytesReadOnLoop n) = granted c + n := by
  unfold granted Conn.bytesReadOffLoop Conn.bytesReadOnLoop Conn.sendMaxDataUpdate
  constructor
  · simp only []; repeat' split
    all_goals simp_all
    all_goals omega
  · simp only []; repeat' split
    all_goals simp_all
    all_goals omega

/-- **CloseRead credits every buffered byte exactly once**: the grant grows by `in.end` minus what had
already been returned (bytes parked in `inbuf` were credited by `Read`), and afterwards everything up to
`in.end` counts as returned.  (Before the repair the parked bytes were credited a second time.) -/
theorem closeRead_credit (c : Conn) (s : Stream) (hw : s.writeOnly = false) :
    granted (closeRead c s).1 - granted c = returned (closeRead c s).2 - returned s ∧
      returned (closeRead c s).2 = s.inp.stop := by
  unfold closeRead
  simp only [hw, Bool.false_eq_true, if_false]
  constructor
  · rw [(granted_bytesRead _ _).1]
    unfold returned Pipe.discardBefore
    simp; omega
  · unfold returned Pipe.discardBefore
    simp

/-- **An accepted first RESET_STREAM credits exactly the bytes not yet returned**, up to the final size. -/
theorem handleReset_credit (c : Conn) (s : Stream) (code final : Int)
    (h0 : (handleReset c s code final).2.2 = 0) (hr : s.inresetcode = -1) :
    granted (handleReset c s code final).1 - granted c = final - returned s := by
  unfold handleReset at h0 ⊢
  simp only [] at h0 ⊢
  by_cases h1 : checkStreamBounds s.inwin s.insize s.inp.stop final true = 0
  · simp only [h1, ne_eq, not_true_eq_false, if_false, hr] at h0 ⊢
    by_cases h2 : s.insize = -1
    · simp only [h2, if_true] at h0 ⊢
      by_cases h3 : (bytesReceived c.usedLimit c.sentLimit (final - s.inp.stop)).1 = 0
      · simp only [h3, ne_eq, not_true_eq_false, if_false]
        rw [(granted_bytesRead _ _).2]
        unfold granted returned; simp only []; omega
      · simp [h3] at h0
    · simp only [h2, if_false, ne_eq, not_true_eq_false]
      rw [(granted_bytesRead _ _).2]
      unfold granted returned; omega
  · simp [h1] at h0

/-! ### send path: connection credit (`min(avail, …)` then `consume`) -/

/-- The clamp never asks for more than the connection credit allows: if the frame starts at or below
`outmaxsent` (retransmission or the next new byte), its end stays within `outmaxsent + avail`. -/
theorem clampSize_within (off size ms av : Int) (hs : 0 ≤ size) (hav : 0 ≤ av) (hoff : off ≤ ms) :
    0 ≤ clampSize off size ms av ∧ clampSize off size ms av ≤ size ∧ off + clampSize off size ms av ≤ ms + av := by
  unfold clampSize QuicStream.imax QuicStream.imin
  repeat' split
  all_goals omega

/-- Retransmissions (frames ending at or below `outmaxsent`) are not clamped and consume nothing. -/
theorem retransmission_free (off size ms av oused : Int) (h : off + size ≤ ms) :
    clampSize off size ms av = size ∧ charge oused ms (off + size) = (oused, ms) := by
  unfold clampSize charge
  have : ¬ (off + size > ms) := by omega
  simp [this]

/-- `consume` is charged exactly the growth of `outmaxsent`; `outmaxsent` becomes the maximum of its old
value and the frame end; `used ≤ max` is preserved when the frame end respects the clamp. -/
theorem charge_spec (oused omax ms e : Int) (hinv : oused ≤ omax) (he : e ≤ ms + avail omax oused) :
    (charge oused ms e).1 ≤ omax ∧ (charge oused ms e).1 - oused = (charge oused ms e).2 - ms ∧
      (charge oused ms e).2 = (if e > ms then e else ms) ∧ ms ≤ (charge oused ms e).2 := by
  unfold charge consume avail at *
  split <;> simp <;> omega

/-- A STREAM frame takes at most the requested size (`appendStreamFrame` may truncate, never extend). -/
theorem streamFrameFit_le (a id off size : Int) (fin : Bool) (n : Int) (wf : Bool)
    (h : streamFrameFit a id off size fin = some (n, wf)) (hs : 0 ≤ size) : 0 ≤ n ∧ n ≤ size := by
  unfold streamFrameFit at h
  simp only [] at h
  generalize (if off ≠ 0 then szv off else 0) = o at h
  by_cases h1 : (a - 1 - szv id - o - szv size < 0 ∨ (a - 1 - szv id - o - szv size = 0 ∧ size > 0))
  · rw [if_pos h1] at h; exact absurd h (by simp)
  · rw [if_neg h1] at h
    by_cases h2 : a - 1 - szv id - o - szv size < size
    · rw [if_pos h2] at h; simp only [Option.some.injEq, Prod.mk.injEq] at h; omega
    · rw [if_neg h2] at h; simp only [Option.some.injEq, Prod.mk.injEq] at h; omega

/-- One iteration of the STREAM loop, connection level: with `used ≤ max` and a frame that starts at or
below `outmaxsent`, the bytes actually placed (`n ≤ clamped size`) keep `used ≤ max`, and the credit
consumed equals the growth of `outmaxsent` (retransmitted bytes cost nothing). -/
theorem send_iteration_conn (oused omax ms off size n : Int) (hinv : oused ≤ omax) (hs : 0 ≤ size)
    (hoff : off ≤ ms) (hn0 : 0 ≤ n) (hn : n ≤ clampSize off size ms (avail omax oused)) :
    (charge oused ms (off + n)).1 ≤ omax ∧
      (charge oused ms (off + n)).1 - oused = (charge oused ms (off + n)).2 - ms := by
  have hav : 0 ≤ avail omax oused := by unfold avail; omega
  have hc := clampSize_within off size ms (avail omax oused) hs hav hoff
  have := charge_spec oused omax ms (off + n) hinv (by omega)
  exact ⟨this.1, this.2.1⟩

/-! ### the send path for all histories -/
section SendPath
open NetVerif.Proofs.Lemmas.QuicSendPath NetVerif.Proofs.Lemmas.RangesetBounds

/-- per-stream invariant: within the peer's stream limit, and (unless reset) the byte bookkeeping `SInv`:
`outmaxsent ≤ min(outflushed, outwin)`, every unsent range lies inside that prefix, every never-sent
permitted byte is unsent, every acked range lies below `outmaxsent`, the buffer starts at or below it. -/
def SOK (s : Stream) : Prop := s.outmaxsent ≤ s.outwin ∧ (s.outreset.isSet = true ∨ SInv s)

theorem sok_of_keeps {s t : Stream} (hs : SOK s) (hk : SInv s → Keeps s t) (hf : Frm s t) :
    SOK t ∧ t.outmaxsent = s.outmaxsent := by
  refine ⟨⟨by rw [hf.1]; exact Int.le_trans hs.1 hf.2.1, ?_⟩, hf.1⟩
  rcases hs.2 with h | h
  · left; rw [hf.2.2]; exact h
  · right; exact (hk h).inv

/-- a freshly created stream (nothing written, nothing sent) satisfies the invariant -/
theorem fresh_SOK (s : Stream) (h0 : s.outmaxsent = 0) (h1 : s.outflushed = 0) (h2 : s.outunsent = [])
    (h3 : s.outacked = []) (h4 : s.out = Pipe.empty) (hw : 0 ≤ s.outwin) : SOK s := by
  refine ⟨by omega, Or.inr ⟨?_, ?_, ?_, ?_, ?_, ?_, ?_⟩⟩
  · unfold lim QuicStream.imin; rw [h0, h1]; split <;> omega
  · rw [h2]; exact allRP_nil _ _
  · rw [h2]; exact ⟨0, trivial⟩
  · intro x hx hxl; unfold lim QuicStream.imin at hxl; rw [h1] at hxl; rw [h0] at hx; split at hxl <;> omega
  · rw [h3]; exact allRP_nil _ _
  · rw [h4, h0]; decide
  · rw [h4, h1]; decide

/-- **`appendOutFramesLocked`, any state**: connection credit is respected and charged exactly for the
growth of `outmaxsent`; every STREAM record it adds lies within `outmaxsent ≤ outwin`. -/
theorem appendOutFrames_post (c : Conn) (s : Stream) (w : Writer) (pn : Int) (pto : Bool)
    (hc : c.oused ≤ c.omax) (hs : SOK s) :
    let r := appendOutFrames c s w pn pto
    r.1.omax = c.omax ∧ r.1.oused ≤ r.1.omax ∧ SOK r.2.1 ∧
      r.1.oused - c.oused = r.2.1.outmaxsent - s.outmaxsent ∧ s.outmaxsent ≤ r.2.1.outmaxsent ∧
      ∀ x ∈ r.2.2.1.recs, x ∈ w.recs ∨ (∀ i a e f, x ≠ Rec.stream i a e f) ∨
        ∃ a e f, x = Rec.stream s.id a e f ∧ a ≤ e ∧ e ≤ r.2.1.outmaxsent ∧ e ≤ r.2.1.outwin := by
  unfold appendOutFrames
  have hfo : ∀ t : Stream, (frameOpensStream t pn).outmaxsent = t.outmaxsent ∧
      (frameOpensStream t pn).outwin = t.outwin ∧ (frameOpensStream t pn).outreset = t.outreset := by
    intro t; unfold frameOpensStream; split <;> simp
  by_cases hr : s.outreset.isSet = true
  · simp only [hr, if_true]
    cases h1 : s.outreset.shouldSendPTO pto
    · simp only [Bool.false_eq_true, if_false]
      exact ⟨by first | rfl | trivial, hc, hs, by omega, Int.le_refl _, fun x hx => Or.inl hx⟩
    · simp only [if_true]
      by_cases h2 : w.avail < 1 + szv s.id + szv s.outresetcode + szv s.outmaxsent
      · simp only [Writer.resetStream, h2, if_true]
        exact ⟨by first | rfl | trivial, hc, hs, by omega, Int.le_refl _, fun x hx => Or.inl hx⟩
      · simp only [Writer.resetStream, h2, if_false]
        refine ⟨by first | rfl | trivial, hc, ⟨by rw [(hfo _).1, (hfo _).2.1]; exact hs.1, Or.inl (by rw [(hfo _).2.2]; simp [SV.isSet])⟩,
          by rw [(hfo _).1]; simp, by rw [(hfo _).1]; exact Int.le_refl _, ?_⟩
        intro x hx
        simp only [Writer.put, List.mem_append, List.mem_singleton] at hx
        rcases hx with hx | hx
        · exact Or.inl hx
        · right; left; intro i a e f; rw [hx]; simp
  · have hinv : SInv s := by rcases hs.2 with h | h; exact absurd h hr; exact h
    simp only [hr]
    -- the STREAM_DATA_BLOCKED part does not touch the send bookkeeping
    have key : ∀ (s1 : Stream) (w1 : Writer), SameSend s s1 → s1.id = s.id →
        (∀ x ∈ w1.recs, x ∈ w.recs ∨ ∀ i a e f, x ≠ Rec.stream i a e f) →
        let r := outLoop (s1.outunsent.length + 3) c s1 w1 pn pto
        r.1.omax = c.omax ∧ r.1.oused ≤ r.1.omax ∧ SOK r.2.1 ∧
          r.1.oused - c.oused = r.2.1.outmaxsent - s.outmaxsent ∧ s.outmaxsent ≤ r.2.1.outmaxsent ∧
          ∀ x ∈ r.2.2.1.recs, x ∈ w.recs ∨ (∀ i a e f, x ≠ Rec.stream i a e f) ∨
            ∃ a e f, x = Rec.stream s.id a e f ∧ a ≤ e ∧ e ≤ r.2.1.outmaxsent ∧ e ≤ r.2.1.outwin := by
      intro s1 w1 hsame hid hw1
      have hp := outLoop_post (s1.outunsent.length + 3) c s1 w1 pn pto hc (SInv_same hinv hsame)
      have hle : (outLoop (s1.outunsent.length + 3) c s1 w1 pn pto).2.1.outmaxsent ≤
          (outLoop (s1.outunsent.length + 3) c s1 w1 pn pto).2.1.outwin :=
        Int.le_trans hp.inv.bound (imin_le_right _ _)
      refine ⟨hp.omax, hp.used, ⟨hle, Or.inr hp.inv⟩, by rw [← hsame.ms]; exact hp.charged,
        by rw [← hsame.ms]; exact hp.mono, ?_⟩
      intro x hx
      rcases hp.recs x hx with h | ⟨a, e, f, h1, h2, h3⟩
      · rcases hw1 x h with h | h
        · exact Or.inl h
        · exact Or.inr (Or.inl h)
      · exact Or.inr (Or.inr ⟨a, e, f, by rw [h1, hid], h2, h3, Int.le_trans h3 hle⟩)
    simp only [Bool.false_eq_true, if_false]
    cases hb : s.outblocked.shouldSendPTO pto
    · simp only [Bool.false_eq_true, if_false]
      exact key s w ⟨rfl, rfl, rfl, rfl, rfl, rfl, rfl, Int.le_refl _⟩ rfl (fun x hx => Or.inl hx)
    · simp only [if_true]
      by_cases h2 : w.avail < 1 + szv s.id + szv s.outwin
      · simp only [Writer.dataBlocked, h2, if_true]
        exact ⟨by first | rfl | trivial, hc, hs, by omega, Int.le_refl _, fun x hx => Or.inl hx⟩
      · simp only [Writer.dataBlocked, h2, if_false]
        apply key
        · unfold frameOpensStream; split <;> exact ⟨rfl, rfl, rfl, rfl, rfl, rfl, rfl, Int.le_refl _⟩
        · unfold frameOpensStream; split <;> rfl
        · intro x hx
          simp only [Writer.put, List.mem_append, List.mem_singleton] at hx
          rcases hx with hx | hx
          · exact Or.inl hx
          · right; intro i a e f; rw [hx]; simp

/-! #### connection level: a list of streams sharing one `connOutflow` -/

structure CS where
  c : Conn
  ss : List Stream

/-- the send-side alphabet of the sm rig (streams addressed by position) -/
inductive Op where
  | write (i : Nat) (b : List Nat)
  | flush (i : Nat)
  | closeWrite (i : Nat)
  | reset (i : Nat) (code : Int) (user : Bool)          -- Stream.Reset / STOP_SENDING
  | maxData (v : Int)                                    -- peer MAX_DATA, any value (stale, duplicate, ...)
  | maxStreamData (i : Nat) (v : Int)                    -- peer MAX_STREAM_DATA, any value
  | send (i : Nat) (avail pn : Int) (pto : Bool)         -- appendOutFramesLocked into a packet with `avail` bytes left
  | fate (i : Nat) (pn st en : Int) (fin acked : Bool)   -- ack / loss of a STREAM frame record

def upd (cs : CS) (i : Nat) (f : Stream → Stream) : CS :=
  match cs.ss[i]? with
  | some s => { cs with ss := cs.ss.set i (f s) }
  | none => cs

def step (cs : CS) : Op → CS
  | .write i b => upd cs i fun s => (write s b).1
  | .flush i => upd cs i fun s => (flush s).1
  | .closeWrite i => upd cs i closeWrite
  | .reset i code u => upd cs i fun s => resetInternal s code u
  | .maxData v => { cs with c := { cs.c with omax := setMaxData cs.c.omax v } }
  | .maxStreamData i v => upd cs i fun s => handleMaxStreamData s v
  | .send i av pn pto =>
    match cs.ss[i]? with
    | some s =>
      let r := appendOutFrames cs.c s { avail := av } pn pto
      { c := r.1, ss := cs.ss.set i r.2.1 }
    | none => cs
  | .fate i pn st en fin acked =>
    -- only frames that were really sent have a fate: `st ≤ en ≤ outmaxsent` (see `appendOutFrames_post`:
    -- every record emitted satisfies it, and `outmaxsent` never decreases)
    upd cs i fun s => if st ≤ en ∧ en ≤ s.outmaxsent then ackOrLossData s pn st en fin acked else s

def sumSent (l : List Stream) : Int := (l.map (·.outmaxsent)).sum

/-- **the C20 send-side invariant** -/
def CInv (cs : CS) : Prop :=
  cs.c.oused ≤ cs.c.omax ∧ cs.c.oused = sumSent cs.ss ∧ ∀ s ∈ cs.ss, SOK s

theorem sumSent_set (l : List Stream) : ∀ (i : Nat) (s t : Stream), l[i]? = some s →
    sumSent (l.set i t) = sumSent l - s.outmaxsent + t.outmaxsent := by
  induction l with
  | nil => intro i s t h; simp at h
  | cons a rest ih =>
    intro i s t h
    cases i with
    | zero =>
      simp at h; subst h
      simp [sumSent]; omega
    | succ k =>
      simp at h
      have := ih k s t h
      simp [sumSent] at this ⊢
      omega

theorem upd_inv (cs : CS) (i : Nat) (f : Stream → Stream) (h : CInv cs)
    (hf : ∀ s, SOK s → SOK (f s) ∧ (f s).outmaxsent = s.outmaxsent) : CInv (upd cs i f) := by
  unfold upd
  cases hi : cs.ss[i]? with
  | none => exact h
  | some s =>
    simp only []
    have hs : s ∈ cs.ss := List.mem_of_getElem? hi
    have hfs := hf s (h.2.2 s hs)
    refine ⟨h.1, ?_, ?_⟩
    · show cs.c.oused = sumSent (cs.ss.set i (f s))
      rw [sumSent_set cs.ss i s (f s) hi, hfs.2, h.2.1]; omega
    · intro t ht
      rcases List.mem_or_eq_of_mem_set ht with ht | ht
      · exact h.2.2 t ht
      · rw [ht]; exact hfs.1

theorem step_inv (cs : CS) (op : Op) (h : CInv cs) : CInv (step cs op) := by
  cases op with
  | write i b => exact upd_inv cs i _ h fun s hs => sok_of_keeps hs (write_keeps s b) (frm_write s b)
  | flush i => exact upd_inv cs i _ h fun s hs => sok_of_keeps hs (flush_keeps s) (frm_flush s)
  | closeWrite i => exact upd_inv cs i _ h fun s hs => sok_of_keeps hs (closeWrite_keeps s) (frm_closeWrite s)
  | reset i code u =>
    refine upd_inv cs i _ h fun s hs => ?_
    have hr := resetInternal_frm s code u
    refine ⟨⟨by rw [hr.1, hr.2.1]; exact hs.1, ?_⟩, hr.1⟩
    rcases hr.2.2 with h1 | h1
    · exact Or.inl h1
    · rw [h1]; exact hs.2
  | maxData v =>
    refine ⟨?_, h.2.1, h.2.2⟩
    show cs.c.oused ≤ setMaxData cs.c.omax v
    have := (setMaxData_max cs.c.omax v).1; have := h.1; omega
  | maxStreamData i v =>
    refine upd_inv cs i _ h fun s hs => sok_of_keeps hs (fun hi => ?_) (frm_handleMaxStreamData s v)
    have := handleMaxStreamData_inv s v hi
    exact ⟨this.1, this.2.1, this.2.2.1, this.2.2.2⟩
  | send i av pn pto =>
    simp only [step]
    split
    · rename_i s hi
      have hs : s ∈ cs.ss := List.mem_of_getElem? hi
      have hp := appendOutFrames_post cs.c s { avail := av } pn pto h.1 (h.2.2 s hs)
      simp only [] at hp
      refine ⟨hp.2.1, ?_, ?_⟩
      · show (appendOutFrames cs.c s { avail := av } pn pto).1.oused = sumSent (cs.ss.set i _)
        rw [sumSent_set cs.ss i s _ hi]
        have := hp.2.2.2.1; have := h.2.1; omega
      · intro t ht
        rcases List.mem_or_eq_of_mem_set ht with ht | ht
        · exact h.2.2 t ht
        · rw [ht]; exact hp.2.2.1
    · exact h
  | fate i pn st en fin acked =>
    refine upd_inv cs i _ h fun s hs => ?_
    by_cases hg : st ≤ en ∧ en ≤ s.outmaxsent
    · simp only [hg, and_self, if_true]
      refine sok_of_keeps hs (fun hi => ?_) (frm_ackOrLossData s pn st en fin acked)
      have := ackOrLossData_inv s pn st en fin acked hi hg.1 hg.2
      exact ⟨this.1, this.2.1, by rw [this.2.2.1]; exact Int.le_refl _, this.2.2.2⟩
    · simp only [hg, if_false]; exact ⟨hs, by first | rfl | trivial⟩

/-- **C20, send side, all histories.**  For every sequence of writes, flushes, closes, resets,
MAX_DATA / MAX_STREAM_DATA updates in any order (stale and duplicate ones included), packet builds of any
capacity (PTO probes included) and acks / losses of frames that were sent, on any number of streams:
`used ≤ max` at connection level, `used = Σ outmaxsent`, and per stream `outmaxsent ≤ outwin` together
with the byte bookkeeping that makes the next step safe. -/
theorem send_path_holds (ops : List Op) : ∀ cs : CS, CInv cs → CInv (ops.foldl step cs) := by
  induction ops with
  | nil => intro cs h; exact h
  | cons op rest ih => intro cs h; exact ih _ (step_inv cs op h)

/-- … hence, in every reachable state, no stream has sent beyond the peer's stream limit and the sum of
the highest offsets sent is within the peer's connection limit … -/
theorem send_path_limits (ops : List Op) (cs : CS) (h : CInv cs) :
    sumSent (ops.foldl step cs).ss ≤ (ops.foldl step cs).c.omax ∧
    ∀ s ∈ (ops.foldl step cs).ss, s.outmaxsent ≤ s.outwin := by
  have := send_path_holds ops cs h
  exact ⟨by rw [← this.2.1]; exact this.1, fun s hs => (this.2.2 s hs).1⟩

/-- … and every STREAM frame the next packet build puts on the wire ends within both limits. -/
theorem send_path_frames (ops : List Op) (cs : CS) (h : CInv cs) (i : Nat) (s : Stream)
    (hi : (ops.foldl step cs).ss[i]? = some s) (av pn : Int) (pto : Bool) :
    let r := appendOutFrames (ops.foldl step cs).c s { avail := av } pn pto
    ∀ id a e f, Rec.stream id a e f ∈ r.2.2.1.recs → a ≤ e ∧ e ≤ r.2.1.outwin ∧ r.1.oused ≤ r.1.omax := by
  have hinv := send_path_holds ops cs h
  have hs : s ∈ (ops.foldl step cs).ss := List.mem_of_getElem? hi
  have hp := appendOutFrames_post (ops.foldl step cs).c s { avail := av } pn pto hinv.1 (hinv.2.2 s hs)
  intro r id a e f hm
  rcases hp.2.2.2.2.2 _ hm with h1 | h1 | ⟨a', e', f', h1, h2, h3, h4⟩
  · simp at h1
  · exact absurd rfl (h1 id a e f)
  · simp only [Rec.stream.injEq] at h1
    obtain ⟨_, rfl, rfl, _⟩ := h1
    exact ⟨h2, h4, hp.2.1⟩

/-- non-vacuity: a connection with two fresh streams satisfies the invariant -/
example : CInv ⟨{ maxConnRead := 100, sentLimit := 100, newLimit := 100, omax := 50 },
    [{ id := 0, readOnly := false, writeOnly := false, inwin := 10, inmaxbuf := 10, outwin := 20, outmaxbuf := 30 },
     { id := 4, readOnly := false, writeOnly := false, inwin := 10, inmaxbuf := 10, outwin := 5, outmaxbuf := 30 }]⟩ := by
  refine ⟨by decide, by decide, ?_⟩
  intro s hs
  simp at hs
  rcases hs with rfl | rfl <;> exact fresh_SOK _ rfl rfl rfl rfl rfl (by decide)

end SendPath

/-! ### monitor -/
open NetVerif.Model.QuicMonitor in
/-- Every trace the C20 monitor accepts satisfies the wire-level statement: each STREAM frame ends within
the largest MAX_STREAM_DATA (or initial limit) its sender had received before, the sum over streams of
the highest offsets sent stays within the largest MAX_DATA received before, and each MAX_DATA /
MAX_STREAM_DATA an endpoint sends is at least every value it advertised before. -/
theorem monitor_sound (tr : List Ev) (h : accepts 20 tr = true) :
    (∀ pre suf s id off len fin, tr = pre ++ .txStream s id off len fin :: suf →
        off + len ≤ streamLimit pre s id ∧
        totalSent (pre ++ [.txStream s id off len fin]) s ≤ connLimit pre s) ∧
    (∀ pre suf s v, tr = pre ++ .txMaxData s v :: suf → v ≥ advConn pre s) ∧
    (∀ pre suf s id v, tr = pre ++ .txMaxSD s id v :: suf → v ≥ advStream pre s id) := by
  have hall := (NetVerif.Proofs.Lemmas.QuicMonitor.accepts_iff 20 tr).1 h
  refine ⟨?_, ?_, ?_⟩
  · intro pre suf s id off len fin heq
    have := hall pre _ suf heq
    simp only [okEv] at this
    simp at this
    exact ⟨this.2.1, this.2.2⟩
  · intro pre suf s v heq
    have := hall pre _ suf heq
    simp only [okEv] at this
    simpa using this
  · intro pre suf s id v heq
    have := hall pre _ suf heq
    simp only [okEv] at this
    simpa using this

/-- the step function of `advConn` -/
def advStep (s : Nat) (m : Int) (e : QuicMonitor.Ev) : Int :=
  match e with
  | .init s' c _ => if s' = s then QuicMonitor.imax m c else m
  | .txMaxData s' v => if s' = s then QuicMonitor.imax m v else m
  | _ => m

theorem advStep_ge (s : Nat) (m : Int) (e : QuicMonitor.Ev) : advStep s m e ≥ m := by
  unfold advStep
  cases e <;> simp <;> (try split) <;>
    first | exact NetVerif.Proofs.Lemmas.QuicMonitor.imax_ge_left _ _ | omega

theorem advConn_eq (pre : List QuicMonitor.Ev) (s : Nat) : QuicMonitor.advConn pre s = pre.foldl (advStep s) 0 := rfl

/-- `advConn` really is an upper bound of everything advertised before (so `v ≥ advConn` means
"never decreases"): an earlier MAX_DATA of the same endpoint is at most `advConn`. -/
theorem advConn_ge_earlier (pre : List QuicMonitor.Ev) (s : Nat) (v : Int) (hm : QuicMonitor.Ev.txMaxData s v ∈ pre) :
    v ≤ QuicMonitor.advConn pre s := by
  rw [advConn_eq]
  suffices h : ∀ m0 : Int, v ≤ pre.foldl (advStep s) m0 from h 0
  induction pre with
  | nil => cases hm
  | cons e rest ih =>
    intro m0
    simp only [List.foldl_cons]
    cases hm with
    | head =>
      have h1 := NetVerif.Proofs.Lemmas.QuicMonitor.foldl_imax_ge (advStep s) (advStep_ge s) rest
        (advStep s m0 (.txMaxData s v))
      have h2 : advStep s m0 (.txMaxData s v) ≥ v := by
        unfold advStep; simp; exact NetVerif.Proofs.Lemmas.QuicMonitor.imax_ge_right _ _
      omega
    | tail _ h => exact ih h _

/-- non-vacuity: a small accepted trace with a window update and a second frame using it. -/
example : QuicMonitor.accepts 20
    [.init 0 100 50, .init 1 100 50, .txStream 0 2 0 50 false, .rxMaxSD 0 2 80, .txMaxSD 1 2 80,
     .txStream 0 2 50 30 true, .txMaxData 1 150] = true := by decide
/-- … and sending one byte beyond the limit is rejected. -/
example : QuicMonitor.accepts 20
    [.init 0 100 50, .init 1 100 50, .txStream 0 2 0 51 false] = false := by decide
example : QuicMonitor.accepts 20
    [.init 0 100 50, .init 1 100 50, .txMaxData 1 99] = false := by decide

end NetVerif.Proofs.C20
