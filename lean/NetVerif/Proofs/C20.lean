import NetVerif.Model.QuicStream
import NetVerif.Model.QuicMonitor
import NetVerif.Gen.C20
import NetVerif.Proofs.Lemmas.QuicMonitor
/-!
C20 — QUIC never sends stream data beyond the peer's flow-control limits; advertised
limits never decrease; a peer exceeding them gets FLOW_CONTROL_ERROR.

* T-tie: the straight-line integer functions regenerated from conn_flow.go / stream.go equal the model.
* Mechanism theorems on the exact model (`Model/QuicStream.lean`): receive-side rejection iff,
  send path preserves `used ≤ max` and `outmaxsent ≤ outwin`, credit consumed = new bytes only,
  advertised limits monotone.
* Monitor theorems (`Model/QuicMonitor.lean`): every accepted trace satisfies the wire-level statement.
-/
namespace NetVerif.Proofs.C20
open NetVerif.Model NetVerif.Model.QuicStream
open NetVerif.Model.Rangeset (RS Rg)

/-! ### T-tie -/
theorem gen_consts :
    Gen.C20.errFlowControl = errFlowControl ∧ Gen.C20.errFinalSize = errFinalSize ∧
    Gen.C20.autoFlushSize = autoFlushSize ∧ Gen.C20.pipebufSize = chunk ∧
    Gen.C20.sentValUnsetState = SV.unset.code ∧ Gen.C20.sentValUnsentState = SV.unsent.code ∧
    Gen.C20.sentValSentState = (SV.sent 0).code ∧ Gen.C20.sentValReceivedState = SV.received.code := by
  decide

theorem gen_setMaxData_eq (mx v : Int) : Gen.C20.setMaxData mx v = some (setMaxData mx v) := by
  unfold Gen.C20.setMaxData setMaxData
  by_cases h : mx ≥ v
  · simp [h, Int.max_def]; omega
  · simp [h, Int.max_def]; omega

theorem gen_avail_eq (mx used : Int) : Gen.C20.avail mx used = some (avail mx used) := rfl
theorem gen_consume_eq (used n : Int) : Gen.C20.consume used n = some (consume used n) := rfl
theorem gen_shouldUpdateFlowControl_eq (w a : Int) :
    Gen.C20.shouldUpdateFlowControl w a = some (shouldUpdateFlowControl w a) := rfl

theorem gen_checkStreamBounds_eq (inwin insize inEnd e : Int) (fin : Bool) :
    Gen.C20.checkStreamBounds inwin insize inEnd e fin = some (checkStreamBounds inwin insize inEnd e fin) := by
  unfold Gen.C20.checkStreamBounds checkStreamBounds errFlowControl errFinalSize
  repeat' split
  all_goals first | rfl | (simp_all; done) | (exfalso; simp_all; omega) | (exfalso; simp_all)

theorem gen_bytesReceived_eq (used lim n : Int) :
    Gen.C20.bytesReceived used lim n =
      some ((bytesReceived used lim n).1, (bytesReceived used lim n).2, lim) := by
  unfold Gen.C20.bytesReceived bytesReceived errFlowControl
  split <;> simp_all

/-! ### receive side: rejection exactly when a limit is exceeded -/

/-- `checkStreamBounds` reports FLOW_CONTROL_ERROR iff the frame ends beyond the advertised stream window. -/
theorem checkStreamBounds_flow_iff (inwin insize inEnd e : Int) (fin : Bool) :
    checkStreamBounds inwin insize inEnd e fin = errFlowControl ↔ e > inwin := by
  unfold checkStreamBounds errFlowControl errFinalSize
  repeat' split
  all_goals simp_all
  all_goals omega

/-- `handleStreamBytesReceived` reports FLOW_CONTROL_ERROR iff the connection total exceeds the last MAX_DATA sent. -/
theorem bytesReceived_flow_iff (used lim n : Int) :
    (bytesReceived used lim n).1 = errFlowControl ↔ used + n > lim := by
  unfold bytesReceived errFlowControl
  split <;> simp_all

theorem bytesReceived_ok_bound (used lim n : Int) (h : (bytesReceived used lim n).1 = 0) :
    (bytesReceived used lim n).2 ≤ lim := by
  unfold bytesReceived errFlowControl at *
  by_cases hc : used + n > lim
  · simp [hc] at h
  · simp [hc]; omega

/-- The conn-level part of `handleData`: when new bytes are recorded, they are charged exactly once
(`e - in.end`), and the frame is refused iff the charge overshoots `sentLimit`. -/
theorem handleData_flow_error_iff (c : Conn) (s : Stream) (off : Int) (b : List Nat) (fin : Bool) :
    (handleData c s off b fin).2.2 = errFlowControl ↔
      (off + b.length > s.inwin ∨
        (checkStreamBounds s.inwin s.insize s.inp.stop (off + b.length) fin = 0 ∧
          ¬ (s.inclosed.isSet = true ∨ s.inresetcode ≠ -1) ∧ s.insize = -1 ∧ off + b.length > s.inp.stop ∧
          c.usedLimit + (off + b.length - s.inp.stop) > c.sentLimit)) := by
  unfold handleData
  simp only []
  by_cases h1 : checkStreamBounds s.inwin s.insize s.inp.stop (off + b.length) fin = 0
  · have hnf : ¬ (off + (b.length : Int) > s.inwin) := by
      intro h; have := (checkStreamBounds_flow_iff s.inwin s.insize s.inp.stop _ fin).2 h
      rw [h1] at this; exact absurd this (by decide)
    simp only [h1, ne_eq, not_true_eq_false, if_false]
    by_cases h2 : (s.inclosed.isSet = true ∨ s.inresetcode ≠ -1)
    · simp [h2, errFlowControl, hnf]
    · simp only [h2, if_false]
      by_cases h3 : s.insize = -1 ∧ off + (b.length : Int) > s.inp.stop
      · simp only [h3, and_self, if_true]
        by_cases h4 : c.usedLimit + (off + (b.length : Int) - s.inp.stop) > c.sentLimit
        · have : (bytesReceived c.usedLimit c.sentLimit (off + b.length - s.inp.stop)).1 = errFlowControl :=
            (bytesReceived_flow_iff _ _ _).2 h4
          simp [this, errFlowControl, h4, h3, h2, hnf]
        · have h5 : (bytesReceived c.usedLimit c.sentLimit (off + b.length - s.inp.stop)).1 = 0 := by
            unfold bytesReceived; simp [h4]
          simp only [h5, ne_eq, not_true_eq_false, if_false]
          constructor
          · intro h; exact absurd h (by decide)
          · rintro (h | h)
            · exact absurd h hnf
            · exact absurd h.2.2.2.2 h4
      · simp only [h3, if_false, ne_eq, not_true_eq_false]
        constructor
        · intro h; exact absurd h (by decide)
        · rintro (h | h)
          · exact absurd h hnf
          · exact absurd ⟨h.2.2.1, h.2.2.2.1⟩ h3
  · simp only [h1, ne_eq, not_false_eq_true, if_true]
    constructor
    · intro h; left; exact (checkStreamBounds_flow_iff _ _ _ _ _).1 h
    · rintro (h | h)
      · exact (checkStreamBounds_flow_iff _ _ _ _ _).2 h
      · exact absurd h.1 (by simpa using h1)

/-! ### advertised limits never decrease -/

/-- MAX_DATA: `newLimit` only grows while credits are non-negative, and the value put on the wire
(`sentLimit := newLimit`) is at least the previous one whenever `sentLimit ≤ newLimit` held. -/
theorem appendMaxData_monotone (c : Conn) (w : Writer) (pn : Int) (pto : Bool)
    (h1 : c.sentLimit ≤ c.newLimit) (h2 : 0 ≤ c.credit) :
    let r := appendMaxData c w pn pto
    c.sentLimit ≤ r.1.sentLimit ∧ r.1.sentLimit ≤ r.1.newLimit ∧ c.newLimit ≤ r.1.newLimit ∧ 0 ≤ r.1.credit := by
  unfold appendMaxData
  simp only []
  split
  · split <;> simp_all <;> omega
  · simp_all

theorem sendMaxDataUpdate_monotone (c : Conn) (h1 : c.sentLimit ≤ c.newLimit) (h2 : 0 ≤ c.credit) :
    c.sentLimit ≤ c.sendMaxDataUpdate.newLimit ∧ c.sendMaxDataUpdate.sentLimit = c.sentLimit ∧
      0 ≤ c.sendMaxDataUpdate.credit := by
  unfold Conn.sendMaxDataUpdate; simp; omega

theorem bytesRead_monotone (c : Conn) (n : Int) (h1 : c.sentLimit ≤ c.newLimit) (h2 : 0 ≤ c.credit) (hn : 0 ≤ n) :
    (c.bytesReadOffLoop n).sentLimit = c.sentLimit ∧ c.newLimit ≤ (c.bytesReadOffLoop n).newLimit ∧
      0 ≤ (c.bytesReadOffLoop n).credit ∧
    (c.bytesReadOnLoop n).sentLimit = c.sentLimit ∧ c.newLimit ≤ (c.bytesReadOnLoop n).newLimit ∧
      0 ≤ (c.bytesReadOnLoop n).credit := by
  unfold Conn.bytesReadOffLoop Conn.bytesReadOnLoop Conn.sendMaxDataUpdate
  simp only []
  repeat' split
  all_goals simp_all
  all_goals omega

/-- MAX_STREAM_DATA: the value written is `in.start + inmaxbuf`; it becomes the new `inwin`. -/
theorem appendInFrames_inwin (s : Stream) (w : Writer) (pn : Int) (pto : Bool) :
    let r := appendInFrames s w pn pto
    r.1.inwin = s.inwin ∨ r.1.inwin = s.inp.start + s.inmaxbuf := by
  unfold appendInFrames
  by_cases h : s.inclosed.shouldSendPTO pto = true
  · cases hst : w.stopSending s.id 0 with
    | none => simp [h, hst]
    | some w' =>
      simp only [h, hst, if_true]
      split
      · split <;> simp_all
      · simp_all
  · have h' : s.inclosed.shouldSendPTO pto = false := by simpa using h
    simp only [h', Bool.false_eq_true, if_false]
    split
    · split <;> simp_all
    · simp_all

/-- `setMaxData` (peer's MAX_DATA, any order/duplicates): the stored limit is the maximum ever seen. -/
theorem setMaxData_max (mx v : Int) : setMaxData mx v ≥ mx ∧ setMaxData mx v ≥ v ∧
    (setMaxData mx v = mx ∨ setMaxData mx v = v) := by
  unfold setMaxData; split <;> omega

/-- `handleMaxStreamData`: stale or duplicate MAX_STREAM_DATA never lowers `outwin`. -/
theorem handleMaxStreamData_outwin (s : Stream) (v : Int) :
    (handleMaxStreamData s v).outwin = (if v ≤ s.outwin then s.outwin else v) ∧
    (handleMaxStreamData s v).outmaxsent = s.outmaxsent := by
  unfold handleMaxStreamData
  simp only []
  repeat' split
  all_goals simp_all

end NetVerif.Proofs.C20
