import NetVerif.Model.QuicStream
import NetVerif.Model.QuicMonitor
import NetVerif.Gen.C20
import NetVerif.Proofs.Lemmas.QuicMonitor
/-!
C20 — QUIC never sends stream data beyond the peer's flow-control limits; advertised
limits never decrease; a peer exceeding them gets FLOW_CONTROL_ERROR.

* T-tie: the straight-line integer functions regenerated from conn_flow.go / stream.go equal the model.
* Mechanism theorems on the exact model (`Model/QuicStream.lean`): receive-side rejection iff,
  send path preserves `used ≤ max` and `outmaxsent ≤ outwin`, credit consumed = new bytes only,
  advertised limits monotone.
* Monitor theorems (`Model/QuicMonitor.lean`): every accepted trace satisfies the wire-level statement.
-/
namespace NetVerif.Proofs.C20
open NetVerif.Model NetVerif.Model.QuicStream
open NetVerif.Model.Rangeset (RS Rg)

/-! ### T-tie -/
theorem gen_consts :
    Gen.C20.errFlowControl = errFlowControl ∧ Gen.C20.errFinalSize = errFinalSize ∧
    Gen.C20.autoFlushSize = autoFlushSize ∧ Gen.C20.pipebufSize = chunk ∧
    Gen.C20.sentValUnsetState = SV.unset.code ∧ Gen.C20.sentValUnsentState = SV.unsent.code ∧
    Gen.C20.sentValSentState = (SV.sent 0).code ∧ Gen.C20.sentValReceivedState = SV.received.code := by
  decide

theorem gen_setMaxData_eq (mx v : Int) : Gen.C20.setMaxData mx v = some (setMaxData mx v) := by
  unfold Gen.C20.setMaxData setMaxData
  by_cases h : mx ≥ v
  · simp [h, Int.max_def]; omega
  · simp [h, Int.max_def]; omega

theorem gen_avail_eq (mx used : Int) : Gen.C20.avail mx used = some (avail mx used) := rfl
theorem gen_consume_eq (used n : Int) : Gen.C20.consume used n = some (consume used n) := rfl
theorem gen_shouldUpdateFlowControl_eq (w a : Int) :
    Gen.C20.shouldUpdateFlowControl w a = some (shouldUpdateFlowControl w a) := rfl

theorem gen_checkStreamBounds_eq (inwin insize inEnd e : Int) (fin : Bool) :
    Gen.C20.checkStreamBounds inwin insize inEnd e fin = some (checkStreamBounds inwin insize inEnd e fin) := by
  unfold Gen.C20.checkStreamBounds checkStreamBounds errFlowControl errFinalSize
  repeat' split
  all_goals first | rfl | (simp_all; done) | (exfalso; simp_all; omega) | (exfalso; simp_all)

theorem gen_bytesReceived_eq (used lim n : Int) :
    Gen.C20.bytesReceived used lim n =
      some ((bytesReceived used lim n).1, (bytesReceived used lim n).2, lim) := by
  unfold Gen.C20.bytesReceived bytesReceived errFlowControl
  split <;> simp_all

/-! ### receive side: rejection exactly when a limit is exceeded -/

/-- `checkStreamBounds` reports FLOW_CONTROL_ERROR iff the frame ends beyond the advertised stream window. -/
theorem checkStreamBounds_flow_iff (inwin insize inEnd e : Int) (fin : Bool) :
    checkStreamBounds inwin insize inEnd e fin = errFlowControl ↔ e > inwin := by
  unfold checkStreamBounds errFlowControl errFinalSize
  repeat' split
  all_goals simp_all
  all_goals omega

/-- `handleStreamBytesReceived` reports FLOW_CONTROL_ERROR iff the connection total exceeds the last MAX_DATA sent. -/
theorem bytesReceived_flow_iff (used lim n : Int) :
    (bytesReceived used lim n).1 = errFlowControl ↔ used + n > lim := by
  unfold bytesReceived errFlowControl
  split <;> simp_all

theorem bytesReceived_ok_bound (used lim n : Int) (h : (bytesReceived used lim n).1 = 0) :
    (bytesReceived used lim n).2 ≤ lim := by
  unfold bytesReceived errFlowControl at *
  by_cases hc : used + n > lim
  · simp [hc] at h
  · simp [hc]; omega

/-- The conn-level part of `handleData`: when new bytes are recorded, they are charged exactly once
(`e - in.end`), and the frame is refused iff the charge overshoots `sentLimit`. -/
theorem handleData_flow_error_iff (c : Conn) (s : Stream) (off : Int) (b : List Nat) (fin : Bool) :
    (handleData c s off b fin).2.2 = errFlowControl ↔
      (off + b.length > s.inwin ∨
        (checkStreamBounds s.inwin s.insize s.inp.stop (off + b.length) fin = 0 ∧
          ¬ (s.inclosed.isSet = true ∨ s.inresetcode ≠ -1) ∧ s.insize = -1 ∧ off + b.length > s.inp.stop ∧
          c.usedLimit + (off + b.length - s.inp.stop) > c.sentLimit)) := by
  unfold handleData
  simp only []
  by_cases h1 : checkStreamBounds s.inwin s.insize s.inp.stop (off + b.length) fin = 0
  · have hnf : ¬ (off + (b.length : Int) > s.inwin) := by
      intro h; have := (checkStreamBounds_flow_iff s.inwin s.insize s.inp.stop _ fin).2 h
      rw [h1] at this; exact absurd this (by decide)
    simp only [h1, ne_eq, not_true_eq_false, if_false]
    by_cases h2 : (s.inclosed.isSet = true ∨ s.inresetcode ≠ -1)
    · simp [h2, errFlowControl, hnf]
    · simp only [h2, if_false]
      by_cases h3 : s.insize = -1 ∧ off + (b.length : Int) > s.inp.stop
      · simp only [h3, and_self, if_true]
        by_cases h4 : c.usedLimit + (off + (b.length : Int) - s.inp.stop) > c.sentLimit
        · have : (bytesReceived c.usedLimit c.sentLimit (off + b.length - s.inp.stop)).1 = errFlowControl :=
            (bytesReceived_flow_iff _ _ _).2 h4
          simp [this, errFlowControl, h4, h3, h2, hnf]
        · have h5 : (bytesReceived c.usedLimit c.sentLimit (off + b.length - s.inp.stop)).1 = 0 := by
            unfold bytesReceived; simp [h4]
          simp only [h5, ne_eq, not_true_eq_false, if_false]
          constructor
          · intro h; exact absurd h (by decide)
          · rintro (h | h)
            · exact absurd h hnf
            · exact absurd h.2.2.2.2 h4
      · simp only [h3, if_false, ne_eq, not_true_eq_false]
        constructor
        · intro h; exact absurd h (by decide)
        · rintro (h | h)
          · exact absurd h hnf
          · exact absurd ⟨h.2.2.1, h.2.2.2.1⟩ h3
  · simp only [h1, ne_eq, not_false_eq_true, if_true]
    constructor
    · intro h; left; exact (checkStreamBounds_flow_iff _ _ _ _ _).1 h
    · rintro (h | h)
      · exact (checkStreamBounds_flow_iff _ _ _ _ _).2 h
      · exact absurd h.1 (by simpa using h1)

/-! ### advertised limits never decrease -/

/-- MAX_DATA: `newLimit` only grows while credits are non-negative, and the value put on the wire
(`sentLimit := newLimit`) is at least the previous one whenever `sentLimit ≤ newLimit` held. -/
theorem appendMaxData_monotone (c : Conn) (w : Writer) (pn : Int) (pto : Bool)
    (h1 : c.sentLimit ≤ c.newLimit) (h2 : 0 ≤ c.credit) :
    let r := appendMaxData c w pn pto
    c.sentLimit ≤ r.1.sentLimit ∧ r.1.sentLimit ≤ r.1.newLimit ∧ c.newLimit ≤ r.1.newLimit ∧ 0 ≤ r.1.credit := by
  unfold appendMaxData
  simp only []
  split
  · split <;> simp_all <;> omega
  · simp_all

theorem sendMaxDataUpdate_monotone (c : Conn) (h1 : c.sentLimit ≤ c.newLimit) (h2 : 0 ≤ c.credit) :
    c.sentLimit ≤ c.sendMaxDataUpdate.newLimit ∧ c.sendMaxDataUpdate.sentLimit = c.sentLimit ∧
      0 ≤ c.sendMaxDataUpdate.credit := by
  unfold Conn.sendMaxDataUpdate; simp; omega

theorem bytesRead_monotone (c : Conn) (n : Int) (h1 : c.sentLimit ≤ c.newLimit) (h2 : 0 ≤ c.credit) (hn : 0 ≤ n) :
    (c.bytesReadOffLoop n).sentLimit = c.sentLimit ∧ c.newLimit ≤ (c.bytesReadOffLoop n).newLimit ∧
      0 ≤ (c.bytesReadOffLoop n).credit ∧
    (c.bytesReadOnLoop n).sentLimit = c.sentLimit ∧ c.newLimit ≤ (c.bytesReadOnLoop n).newLimit ∧
      0 ≤ (c.bytesReadOnLoop n).credit := by
  unfold Conn.bytesReadOffLoop Conn.bytesReadOnLoop Conn.sendMaxDataUpdate
  simp only []
  repeat' split
  all_goals simp_all
  all_goals omega

/-- MAX_STREAM_DATA: the value written is `in.start + inmaxbuf`; it becomes the new `inwin`. -/
theorem appendInFrames_inwin (s : Stream) (w : Writer) (pn : Int) (pto : Bool) :
    let r := appendInFrames s w pn pto
    r.1.inwin = s.inwin ∨ r.1.inwin = s.inp.start + s.inmaxbuf := by
  unfold appendInFrames
  by_cases h : s.inclosed.shouldSendPTO pto = true
  · cases hst : w.stopSending s.id 0 with
    | none => simp [h, hst]
    | some w' =>
      simp only [h, hst, if_true]
      split
      · split <;> simp_all
      · simp_all
  · have h' : s.inclosed.shouldSendPTO pto = false := by simpa using h
    simp only [h', Bool.false_eq_true, if_false]
    split
    · split <;> simp_all
    · simp_all

/-- `setMaxData` (peer's MAX_DATA, any order/duplicates): the stored limit is the maximum ever seen. -/
theorem setMaxData_max (mx v : Int) : setMaxData mx v ≥ mx ∧ setMaxData mx v ≥ v ∧
    (setMaxData mx v = mx ∨ setMaxData mx v = v) := by
  unfold setMaxData; split <;> omega

/-- `handleMaxStreamData`: stale or duplicate MAX_STREAM_DATA never lowers `outwin`. -/
theorem handleMaxStreamData_outwin (s : Stream) (v : Int) :
    (handleMaxStreamData s v).outwin = (if v ≤ s.outwin then s.outwin else v) ∧
    (handleMaxStreamData s v).outmaxsent = s.outmaxsent := by
  unfold handleMaxStreamData
  simp only []
  repeat' split
  all_goals simp_all

/-! ### connection-level credit conservation (receive side, repaired code) -/

/-- bytes of a stream already handed back to connection-level flow control: what the application
consumed plus what `Read` parked in the fast-path buffer. -/
def returned (s : Stream) : Int := s.inp.start + s.inbuf.length

/-- what the peer has been or will be granted: the next MAX_DATA value plus pending credit -/
def granted (c : Conn) : Int := c.newLimit + c.credit

theorem granted_bytesRead (c : Conn) (n : Int) :
    granted (c.bytesReadOffLoop n) = granted c + n ∧ granted (c.bytesReadOnLoop n) = granted c + n := by
  unfold granted Conn.bytesReadOffLoop Conn.bytesReadOnLoop Conn.sendMaxDataUpdate
  constructor
  · simp only []; repeat' split
    all_goals simp_all
    all_goals omega
  · simp only []; repeat' split
    all_goals simp_all
    all_goals omega

/-- **CloseRead credits every buffered byte exactly once**: the grant grows by `in.end` minus what had
already been returned (bytes parked in `inbuf` were credited by `Read`), and afterwards everything up to
`in.end` counts as returned.  (Before the repair the parked bytes were credited a second time.) -/
theorem closeRead_credit (c : Conn) (s : Stream) (hw : s.writeOnly = false) :
    granted (closeRead c s).1 - granted c = returned (closeRead c s).2 - returned s ∧
      returned (closeRead c s).2 = s.inp.stop := by
  unfold closeRead
  simp only [hw, Bool.false_eq_true, if_false]
  constructor
  · rw [(granted_bytesRead _ _).1]
    unfold returned Pipe.discardBefore
    simp; omega
  · unfold returned Pipe.discardBefore
    simp

/-- **An accepted first RESET_STREAM credits exactly the bytes not yet returned**, up to the final size. -/
theorem handleReset_credit (c : Conn) (s : Stream) (code final : Int)
    (h0 : (handleReset c s code final).2.2 = 0) (hr : s.inresetcode = -1) :
    granted (handleReset c s code final).1 - granted c = final - returned s := by
  unfold handleReset at h0 ⊢
  simp only [] at h0 ⊢
  by_cases h1 : checkStreamBounds s.inwin s.insize s.inp.stop final true = 0
  · simp only [h1, ne_eq, not_true_eq_false, if_false, hr] at h0 ⊢
    by_cases h2 : s.insize = -1
    · simp only [h2, if_true] at h0 ⊢
      by_cases h3 : (bytesReceived c.usedLimit c.sentLimit (final - s.inp.stop)).1 = 0
      · simp only [h3, ne_eq, not_true_eq_false, if_false]
        rw [(granted_bytesRead _ _).2]
        unfold granted returned; simp only []; omega
      · simp [h3] at h0
    · simp only [h2, if_false, ne_eq, not_true_eq_false]
      rw [(granted_bytesRead _ _).2]
      unfold granted returned; omega
  · simp [h1] at h0

/-! ### send path: connection credit (`min(avail, …)` then `consume`) -/

/-- The clamp never asks for more than the connection credit allows: if the frame starts at or below
`outmaxsent` (retransmission or the next new byte), its end stays within `outmaxsent + avail`. -/
theorem clampSize_within (off size ms av : Int) (hs : 0 ≤ size) (hav : 0 ≤ av) (hoff : off ≤ ms) :
    0 ≤ clampSize off size ms av ∧ clampSize off size ms av ≤ size ∧ off + clampSize off size ms av ≤ ms + av := by
  unfold clampSize QuicStream.imax QuicStream.imin
  repeat' split
  all_goals omega

/-- Retransmissions (frames ending at or below `outmaxsent`) are not clamped and consume nothing. -/
theorem retransmission_free (off size ms av oused : Int) (h : off + size ≤ ms) :
    clampSize off size ms av = size ∧ charge oused ms (off + size) = (oused, ms) := by
  unfold clampSize charge
  have : ¬ (off + size > ms) := by omega
  simp [this]

/-- `consume` is charged exactly the growth of `outmaxsent`; `outmaxsent` becomes the maximum of its old
value and the frame end; `used ≤ max` is preserved when the frame end respects the clamp. -/
theorem charge_spec (oused omax ms e : Int) (hinv : oused ≤ omax) (he : e ≤ ms + avail omax oused) :
    (charge oused ms e).1 ≤ omax ∧ (charge oused ms e).1 - oused = (charge oused ms e).2 - ms ∧
      (charge oused ms e).2 = (if e > ms then e else ms) ∧ ms ≤ (charge oused ms e).2 := by
  unfold charge consume avail at *
  split <;> simp <;> omega

/-- A STREAM frame takes at most the requested size (`appendStreamFrame` may truncate, never extend). -/
theorem streamFrameFit_le (a id off size : Int) (fin : Bool) (n : Int) (wf : Bool)
    (h : streamFrameFit a id off size fin = some (n, wf)) (hs : 0 ≤ size) : 0 ≤ n ∧ n ≤ size := by
  unfold streamFrameFit at h
  simp only [] at h
  generalize (if off ≠ 0 then szv off else 0) = o at h
  by_cases h1 : (a - 1 - szv id - o - szv size < 0 ∨ (a - 1 - szv id - o - szv size = 0 ∧ size > 0))
  · rw [if_pos h1] at h; exact absurd h (by simp)
  · rw [if_neg h1] at h
    by_cases h2 : a - 1 - szv id - o - szv size < size
    · rw [if_pos h2] at h; simp only [Option.some.injEq, Prod.mk.injEq] at h; omega
    · rw [if_neg h2] at h; simp only [Option.some.injEq, Prod.mk.injEq] at h; omega

/-- One iteration of the STREAM loop, connection level: with `used ≤ max` and a frame that starts at or
below `outmaxsent`, the bytes actually placed (`n ≤ clamped size`) keep `used ≤ max`, and the credit
consumed equals the growth of `outmaxsent` (retransmitted bytes cost nothing). -/
theorem send_iteration_conn (oused omax ms off size n : Int) (hinv : oused ≤ omax) (hs : 0 ≤ size)
    (hoff : off ≤ ms) (hn0 : 0 ≤ n) (hn : n ≤ clampSize off size ms (avail omax oused)) :
    (charge oused ms (off + n)).1 ≤ omax ∧
      (charge oused ms (off + n)).1 - oused = (charge oused ms (off + n)).2 - ms := by
  have hav : 0 ≤ avail omax oused := by unfold avail; omega
  have hc := clampSize_within off size ms (avail omax oused) hs hav hoff
  have := charge_spec oused omax ms (off + n) hinv (by omega)
  exact ⟨this.1, this.2.1⟩

/-- The full statement for all histories (every stream, every interleaving of flush / MAX_* / send /
ack / loss): `used ≤ max`, `used = Σ outmaxsent`, `outmaxsent ≤ outwin`.  It needs the range-set
invariants "every unsent range starts at or below `outmaxsent` and ends at or below
`min(outflushed, outwin)`" carried through `rangeset.add/sub`; here it is established per iteration
(`send_iteration_conn`, `clampSize_within`, `charge_spec`) and checked on the real structs after every
operation by the harness oracle (`oracleState`). -/
def SendPathStatement : Prop :=
  ∀ (fuel : Nat) (c : Conn) (s : Stream) (w : Writer) (pn : Int) (pto : Bool),
    c.oused ≤ c.omax → s.outmaxsent ≤ s.outwin →
    (∀ r ∈ s.outunsent, r.s ≤ s.outmaxsent ∧ r.s ≤ r.e ∧ r.e ≤ imin s.outflushed s.outwin) →
    imin s.out.start s.outwin ≤ s.outmaxsent → s.outflushed ≥ 0 →
    (∀ r ∈ s.outacked, r.s ≤ r.e ∧ r.e ≤ imin s.outflushed s.outwin) → s.out.start ≤ s.outflushed →
    let r := outLoop fuel c s w pn pto
    r.1.oused ≤ r.1.omax ∧ r.2.1.outmaxsent ≤ r.2.1.outwin ∧
      r.1.oused - c.oused = r.2.1.outmaxsent - s.outmaxsent

/-! ### monitor -/
open NetVerif.Model.QuicMonitor in
/-- Every trace the C20 monitor accepts satisfies the wire-level statement: each STREAM frame ends within
the largest MAX_STREAM_DATA (or initial limit) its sender had received before, the sum over streams of
the highest offsets sent stays within the largest MAX_DATA received before, and each MAX_DATA /
MAX_STREAM_DATA an endpoint sends is at least every value it advertised before. -/
theorem monitor_sound (tr : List Ev) (h : accepts 20 tr = true) :
    (∀ pre suf s id off len fin, tr = pre ++ .txStream s id off len fin :: suf →
        off + len ≤ streamLimit pre s id ∧
        totalSent (pre ++ [.txStream s id off len fin]) s ≤ connLimit pre s) ∧
    (∀ pre suf s v, tr = pre ++ .txMaxData s v :: suf → v ≥ advConn pre s) ∧
    (∀ pre suf s id v, tr = pre ++ .txMaxSD s id v :: suf → v ≥ advStream pre s id) := by
  have hall := (NetVerif.Proofs.Lemmas.QuicMonitor.accepts_iff 20 tr).1 h
  refine ⟨?_, ?_, ?_⟩
  · intro pre suf s id off len fin heq
    have := hall pre _ suf heq
    simp only [okEv] at this
    simp at this
    exact ⟨this.2.1, this.2.2⟩
  · intro pre suf s v heq
    have := hall pre _ suf heq
    simp only [okEv] at this
    simpa using this
  · intro pre suf s id v heq
    have := hall pre _ suf heq
    simp only [okEv] at this
    simpa using this

/-- the step function of `advConn` -/
def advStep (s : Nat) (m : Int) (e : QuicMonitor.Ev) : Int :=
  match e with
  | .init s' c _ => if s' = s then QuicMonitor.imax m c else m
  | .txMaxData s' v => if s' = s then QuicMonitor.imax m v else m
  | _ => m

theorem advStep_ge (s : Nat) (m : Int) (e : QuicMonitor.Ev) : advStep s m e ≥ m := by
  unfold advStep
  cases e <;> simp <;> (try split) <;>
    first | exact NetVerif.Proofs.Lemmas.QuicMonitor.imax_ge_left _ _ | omega

theorem advConn_eq (pre : List QuicMonitor.Ev) (s : Nat) : QuicMonitor.advConn pre s = pre.foldl (advStep s) 0 := rfl

/-- `advConn` really is an upper bound of everything advertised before (so `v ≥ advConn` means
"never decreases"): an earlier MAX_DATA of the same endpoint is at most `advConn`. -/
theorem advConn_ge_earlier (pre : List QuicMonitor.Ev) (s : Nat) (v : Int) (hm : QuicMonitor.Ev.txMaxData s v ∈ pre) :
    v ≤ QuicMonitor.advConn pre s := by
  rw [advConn_eq]
  suffices h : ∀ m0 : Int, v ≤ pre.foldl (advStep s) m0 from h 0
  induction pre with
  | nil => cases hm
  | cons e rest ih =>
    intro m0
    simp only [List.foldl_cons]
    cases hm with
    | head =>
      have h1 := NetVerif.Proofs.Lemmas.QuicMonitor.foldl_imax_ge (advStep s) (advStep_ge s) rest
        (advStep s m0 (.txMaxData s v))
      have h2 : advStep s m0 (.txMaxData s v) ≥ v := by
        unfold advStep; simp; exact NetVerif.Proofs.Lemmas.QuicMonitor.imax_ge_right _ _
      omega
    | tail _ h => exact ih h _

/-- non-vacuity: a small accepted trace with a window update and a second frame using it. -/
example : QuicMonitor.accepts 20
    [.init 0 100 50, .init 1 100 50, .txStream 0 2 0 50 false, .rxMaxSD 0 2 80, .txMaxSD 1 2 80,
     .txStream 0 2 50 30 true, .txMaxData 1 150] = true := by decide
/-- … and sending one byte beyond the limit is rejected. -/
example : QuicMonitor.accepts 20
    [.init 0 100 50, .init 1 100 50, .txStream 0 2 0 51 false] = false := by decide
example : QuicMonitor.accepts 20
    [.init 0 100 50, .init 1 100 50, .txMaxData 1 99] = false := by decide

end NetVerif.Proofs.C20
