import NetVerif.Proofs.C08
/-!
C09 — the HTTP/2 client (Transport) never sends request DATA beyond the server's windows; a blocked
request body resumes when the server extends the window.

Everything is shared with C08 (`Proofs/C08.lean`: monitor exactness, refinement for both roles, progress);
this file states the client-role instances and the "resumes" clauses on the model.
-/
namespace NetVerif.Proofs.C09
open NetVerif.Model.SendWin NetVerif.Model.Flow NetVerif.Proofs.SendWin NetVerif.Proofs.SendWinFlow NetVerif.Proofs.C08

/-- All traces of the client mechanism (`awaitFlowControl`, `processSettingsNoWrite` with the ignored
`cs.flow.add(delta)`, `processWindowUpdate`) satisfy the property, for every server behaviour and every
request-body write pattern. -/
theorem client_refines (acts : List Act) : TraceOK Ledger.init (Send.init.run .client acts).2 :=
  mechanism_refines .client acts

/-- ... and the server side, for symmetry (this is C08's statement). -/
theorem server_refines (acts : List Act) : TraceOK Ledger.init (Send.init.run .server acts).2 :=
  mechanism_refines .server acts

/-- The Transport ignores the result of `cs.flow.add(delta)` when SETTINGS_INITIAL_WINDOW_SIZE changes.
On every reachable stream state (`a ≤` server's view `b`, `iw − (2^31−1) ≤ a`) a refused add is an overflow
*upwards*, so leaving the counter alone keeps it at or below the server's view `b + delta`. -/
theorem client_ignored_add_safe (a b c iw v : Int) (hab : a ≤ b) (ha : IsInt32 a) (hlo : iw - maxWindow ≤ a)
    (hiw0 : 0 ≤ iw) (hiwM : iw ≤ maxWindow) (hv0 : 0 ≤ v) (hvM : v ≤ maxWindow) :
    ((Outflow.mk a (some c)).add (v - iw)).2.n ≤ b + (v - iw) ∧
    (((Outflow.mk a (some c)).add (v - iw)).1 = false → a + (v - iw) > maxWindow) :=
  let h := add_settings_str a b c iw v hab ha hlo hiw0 hiwM hv0 hvM
  ⟨h.1, h.2.2.2⟩

/-- **A blocked request body resumes when the server extends the window** (stream-level): the body is
parked in `awaitFlowControl` because the stream window `a ≤ 0` while the connection window is positive; a
WINDOW_UPDATE that lifts the stream window to `a + inc > 0` (legally: `≤ 2^31−1`) is accepted and the very
next `awaitFlowControl` returns a non-empty allowance. -/
theorem stream_wu_resumes_body (s : Send) (sid maxBytes : Nat) (a inc : Int) (hs : sid ≠ 0)
    (h7 : IsInt32 s.conn) (ha : IsInt32 a) (ea : tget s.wins sid = some a) (hmb : 0 < maxBytes)
    (hmf : 0 < s.maxFrame) (hblocked : a ≤ 0) (hconn : 0 < s.conn) (hinc : 0 < inc) (hincM : inc ≤ maxWindow)
    (hopen : 0 < a + inc) :
    s.await sid maxBytes = none ∧
    (s.windowUpdate sid inc).2 = [] ∧
    ∃ n s', (s.windowUpdate sid inc).1.await sid maxBytes = some (n, s') ∧ 0 < n := by
  have hI : IsInt32 inc := by unfold IsInt32; unfold maxWindow at hincM; omega
  have hsum : IsInt32 (a + inc) := by unfold IsInt32 at *; unfold maxWindow at hincM; omega
  have av0 := avail_le s a
  have blocked := (await_progress s sid maxBytes a h7 ha ea hmb hmf).2 (by omega)
  have sp := outflow_add_spec (s.flow a) inc ha hI
  have hr : ((s.flow a).add inc).1 = true := sp.1.2 hsum
  have e := sp.2.1 hr
  have hz : ¬ inc = 0 := by omega
  have hstate : s.windowUpdate sid inc = ({ s with wins := tset s.wins sid (a + inc) }, []) := by
    simp only [Send.windowUpdate, hs, if_false, hz, ea, hr, if_true, e]
    rfl
  refine ⟨blocked, by rw [hstate], ?_⟩
  rw [hstate]
  have ea' : tget ({ s with wins := tset s.wins sid (a + inc) } : Send).wins sid = some (a + inc) := by
    simp [tget_tset, ea]
  have avail' : 0 < (({ s with wins := tset s.wins sid (a + inc) } : Send).flow (a + inc)).available := by
    simp only [Send.flow, Outflow.available]
    by_cases hlt : s.conn < a + inc <;> simp only [hlt, if_true, if_false] <;> omega
  obtain ⟨n, s', h1, h2, _⟩ := (await_progress ({ s with wins := tset s.wins sid (a + inc) } : Send) sid maxBytes (a + inc)
    h7 hsum ea' hmb hmf).1 avail'
  exact ⟨n, s', h1, h2⟩

/-- The connection-level counterpart: blocked because `cc.flow` is exhausted (`conn ≤ 0`, stream window
positive); a connection WINDOW_UPDATE that makes it positive lets the next `awaitFlowControl` through. -/
theorem conn_wu_resumes_body (s : Send) (sid maxBytes : Nat) (a inc : Int)
    (h7 : IsInt32 s.conn) (ha : IsInt32 a) (ea : tget s.wins sid = some a) (hmb : 0 < maxBytes)
    (hmf : 0 < s.maxFrame) (hblocked : s.conn ≤ 0) (hstream : 0 < a) (hinc : 0 < inc) (hincM : inc ≤ maxWindow)
    (hopen : 0 < s.conn + inc) :
    s.await sid maxBytes = none ∧
    (s.windowUpdate 0 inc).2 = [] ∧
    ∃ n s', (s.windowUpdate 0 inc).1.await sid maxBytes = some (n, s') ∧ 0 < n := by
  have hI : IsInt32 inc := by unfold IsInt32; unfold maxWindow at hincM; omega
  have hsum : IsInt32 (s.conn + inc) := by unfold IsInt32 at *; unfold maxWindow at hincM; omega
  have av0 := avail_le s a
  have blocked := (await_progress s sid maxBytes a h7 ha ea hmb hmf).2 (by omega)
  have sp := outflow_add_spec (Outflow.mk s.conn none) inc h7 hI
  have hr : ((Outflow.mk s.conn none).add inc).1 = true := sp.1.2 hsum
  have e := sp.2.1 hr
  have hz : ¬ inc = 0 := by omega
  have hstate : s.windowUpdate 0 inc = ({ s with conn := s.conn + inc }, []) := by
    simp only [Send.windowUpdate, if_true, hz, if_false, hr, e]
  refine ⟨blocked, by rw [hstate], ?_⟩
  rw [hstate]
  have avail' : 0 < (({ s with conn := s.conn + inc } : Send).flow a).available := by
    simp only [Send.flow, Outflow.available]
    by_cases hlt : s.conn + inc < a <;> simp only [hlt, if_true, if_false] <;> omega
  obtain ⟨n, s', h1, h2, _⟩ := (await_progress ({ s with conn := s.conn + inc } : Send) sid maxBytes a
    hsum ha ea hmb hmf).1 avail'
  exact ⟨n, s', h1, h2⟩

/-! ### non-vacuity: the ignored add, on a concrete history

Initial window 100, WINDOW_UPDATE lifts stream 1 to 2^31−1; SETTINGS_INITIAL_WINDOW_SIZE := 200 would lift it
to 2^31+99: the client leaves its counter alone (no error, unlike the server role); back to 100 the client is
at 2^31−101 while the server's view is 2^31−1; DATA keeps flowing within both until the connection window (65535) is used up, and resumes
with the connection-level WINDOW_UPDATE. -/

def exClient : List Act :=
  [.settings none (some 100), .sopen 1, .wu 1 2147483547, .settings none (some 200), .settings none (some 100),
   .send 1 70000 false 0, .send 1 53616 false 0, .send 1 37232 false 0, .send 1 20848 false 0,
   .send 1 4465 false 0, .wu 0 10, .send 1 4465 true 0]

example : (Send.init.run .client exClient).2 =
    [.settings none (some 100), .sopen 1, .wu 1 2147483547, .settings none (some 200), .settings none (some 100),
     .data 1 16384 false, .data 1 16384 false, .data 1 16384 false, .data 1 16383 false, .wu 0 10,
     .data 1 10 false] := by decide

example : (Send.init.run .client (exClient.take 5)).1.wins = [(1, 2147483547)] := by decide
example : (Send.init.run .server (exClient.take 4)).1.dead = true := by decide

end NetVerif.Proofs.C09
