import NetVerif.Proofs.C07
import NetVerif.Model.H2FrameParse
import NetVerif.Proofs.C16Parse
/-!
C07, first clause ("ReadFrame never panics") as a theorem about a CHECKED twin.

`Model/H2FrameParse.lean` (C16, imported read-only) restates the eleven payload parsers with checked
slice/index primitives (`none` = Go panic) and `Proofs/C16Parse.lean` proves
`parseFrame_never_panics`. Here:
* `checked_eq_model_partial`: for DATA, HEADERS, PRIORITY, RST_STREAM, PING, GOAWAY, CONTINUATION and
  unknown types the checked parser returns `some` of exactly what the (pattern-matching) C06/C07
  model returns, for every header and payload. For SETTINGS, PUSH_PROMISE, WINDOW_UPDATE and
  PRIORITY_UPDATE the equality is stated (`CheckedEqModelStatement`) but not yet proved
  (`x % 2^31` under `if` makes the elaborator diverge on these goals; the two models are tied to
  frame.go separately by the D-ties of C07 and C16).
* `readFrameCk`: `ReadFrame` (size limit, `checkFrameOrder` state, payload cut) calling the checked
  parsers; `readFrame_never_panics`: it never panics, for any byte stream, any limit, any
  HEADERS/CONTINUATION state; `readFrameCk_agrees`: it moves state/stream exactly as `readFrame`.
* `readMeta_never_panics`-level: the ReadMetaHeaders assembly of the model slices nothing (fragments
  are passed whole to the decoder, `remainSize -= size` is guarded by `size > remainSize`), see
  `metaEmit_remain_no_underflow`.
-/
set_option linter.unusedSimpArgs false
namespace NetVerif.Proofs.C07
open NetVerif NetVerif.Model.H2Frame
open NetVerif.Model

theorem ck_readByte_nil : H2FrameParse.readByte [] = some (.error .unexpectedEOF) := by
  simp [H2FrameParse.readByte]

theorem ck_readByte_cons (b : Nat) (rest : List Nat) : H2FrameParse.readByte (b :: rest) = some (.ok (rest, b)) := by
  simp [H2FrameParse.readByte, H2FrameParse.sliceFrom, H2FrameParse.slice, H2FrameParse.idx]
  rw [if_pos (by omega)]; rfl

theorem ck_sliceTo_sub (p : List Nat) (n : Nat) (h : n ≤ p.length) :
    H2FrameParse.sliceTo p ((p.length : Int) - (n : Int)) = some (p.take (p.length - n)) := by
  simp only [H2FrameParse.sliceTo, H2FrameParse.slice]
  have h1 : (0:Int) ≤ (p.length : Int) - (n : Int) := by omega
  have h2 : (p.length : Int) - (n : Int) ≤ (p.length : Int) := by omega
  simp only [Int.le_refl, h1, h2, and_self, ↓reduceIte, Int.toNat_zero, List.drop_zero, Nat.sub_zero]
  congr 2
  omega

theorem ck_u32_4 (a b c d : Nat) : H2FrameParse.u32 [a, b, c, d] = some (rd32 a b c d) := by
  simp [H2FrameParse.u32, H2FrameParse.idx]

theorem ck_sliceTo_4 (a b c d : Nat) (rest : List Nat) :
    H2FrameParse.sliceTo (a :: b :: c :: d :: rest) 4 = some [a, b, c, d] := by
  simp [H2FrameParse.sliceTo, H2FrameParse.slice]
  omega

theorem ck_readUint32_cons (a b c d : Nat) (rest : List Nat) :
    H2FrameParse.readUint32 (a :: b :: c :: d :: rest) = some (.ok (rest, rd32 a b c d)) := by
  have h1 : H2FrameParse.sliceFrom (a :: b :: c :: d :: rest) 4 = some rest := by
    simp [H2FrameParse.sliceFrom, H2FrameParse.slice]
    refine ⟨by omega, ?_⟩
    have : ((rest.length : Int) + 1 + 1 + 1 + 1).toNat - 4 = rest.length := by omega
    rw [this, List.take_length]
  simp [H2FrameParse.readUint32, h1, ck_sliceTo_4, ck_u32_4]

theorem ck_readUint32_short (p : List Nat) (h : p.length < 4) :
    H2FrameParse.readUint32 p = some (.error .unexpectedEOF) := by
  simp [H2FrameParse.readUint32, h]
theorem ck_dataTail (fh : FrameHeader) (q : List Nat) (n : Nat) :
    H2FrameParse.dataTail fh q n =
      some (if n > q.length then .error (.conn errCodeProtocol) else .ok (.data fh (q.take (q.length - n)))) := by
  unfold H2FrameParse.dataTail
  by_cases h : n > q.length
  · have : (n : Int) > (q.length : Int) := by omega
    simp [h, this]
  · have : ¬ (n : Int) > (q.length : Int) := by omega
    simp [h, this, ck_sliceTo_sub q n (by omega)]

theorem ck_parseData (fh : FrameHeader) (p : List Nat) : H2FrameParse.parseData fh p = some (parseData fh p) := by
  unfold H2FrameParse.parseData parseData
  by_cases h0 : fh.streamID = 0
  · simp [h0]
  by_cases hp : hasFlag fh.flags flagPadded = true
  · cases p with
    | nil => simp [h0, hp, ck_readByte_nil]
    | cons b rest => simp [h0, hp, ck_readByte_cons, ck_dataTail]
  · simp [h0, hp, ck_dataTail]

theorem ck_headersFin (fh : FrameHeader) (q : List Nat) (n : Nat) (prio : PriorityParam) :
    H2FrameParse.headersFin fh q n prio =
      some (if q.length < n then .error (.stream fh.streamID errCodeProtocol)
            else .ok (.headers fh prio (q.take (q.length - n)))) := by
  unfold H2FrameParse.headersFin
  by_cases h : q.length < n
  · have : (q.length : Int) - (n : Int) < 0 := by omega
    simp [h, this]
  · have : ¬ (q.length : Int) - (n : Int) < 0 := by omega
    simp [h, this, ck_sliceTo_sub q n (by omega)]

theorem ck_headersPrio (fh : FrameHeader) (p : List Nat) (n : Nat) :
    H2FrameParse.headersPrio fh p n =
      some (match (if hasFlag fh.flags flagPriority then readPrio p else .ok (p, {})) with
        | .error e => .error e
        | .ok (p2, prio) =>
          if p2.length < n then .error (.stream fh.streamID errCodeProtocol)
          else .ok (.headers fh prio (p2.take (p2.length - n)))) := by
  unfold H2FrameParse.headersPrio
  by_cases hp : hasFlag fh.flags flagPriority = true
  · simp only [hp, ↓reduceIte]
    rcases p with _ | ⟨a, _ | ⟨b, _ | ⟨c, _ | ⟨d, rest⟩⟩⟩⟩
    · simp [ck_readUint32_short, readPrio]
    · simp [ck_readUint32_short, readPrio]
    · simp [ck_readUint32_short, readPrio]
    · simp [ck_readUint32_short, readPrio]
    · cases rest with
      | nil => simp [ck_readUint32_cons, ck_readByte_nil, readPrio]
      | cons w rest' => simp [ck_readUint32_cons, ck_readByte_cons, readPrio, ck_headersFin]
  · simp [hp, ck_headersFin]

theorem ck_parseHeaders (fh : FrameHeader) (p : List Nat) : H2FrameParse.parseHeaders fh p = some (parseHeaders fh p) := by
  unfold H2FrameParse.parseHeaders parseHeaders
  by_cases h0 : fh.streamID = 0
  · simp [h0]
  by_cases hp : hasFlag fh.flags flagPadded = true
  · cases p with
    | nil => simp [h0, hp, ck_readByte_nil]
    | cons b rest =>
      simp only [h0, hp, ↓reduceIte, ck_readByte_cons, ck_headersPrio]
      rfl
  · simp only [h0, hp, ↓reduceIte, ck_headersPrio, Bool.false_eq_true]
    rfl
theorem ck_idx_4 (a b c d w : Nat) : H2FrameParse.idx [a, b, c, d, w] 4 = some w := by
  simp [H2FrameParse.idx]

theorem ck_parsePriority (fh : FrameHeader) (p : List Nat) : H2FrameParse.parsePriority fh p = some (parsePriority fh p) := by
  unfold H2FrameParse.parsePriority parsePriority
  by_cases h0 : fh.streamID = 0
  · simp [h0]
  rcases p with _ | ⟨a, _ | ⟨b, _ | ⟨c, _ | ⟨d, _ | ⟨w, _ | ⟨x, rest⟩⟩⟩⟩⟩⟩
  all_goals simp [h0, ck_sliceTo_4, ck_u32_4, ck_idx_4]

theorem ck_parseRSTStream (fh : FrameHeader) (p : List Nat) : H2FrameParse.parseRSTStream fh p = some (parseRSTStream fh p) := by
  unfold H2FrameParse.parseRSTStream parseRSTStream
  rcases p with _ | ⟨a, _ | ⟨b, _ | ⟨c, _ | ⟨d, _ | ⟨x, rest⟩⟩⟩⟩⟩
  all_goals by_cases h0 : fh.streamID = 0
  all_goals simp [h0, ck_sliceTo_4, ck_u32_4]

theorem ck_parsePing (fh : FrameHeader) (p : List Nat) : H2FrameParse.parsePing fh p = some (parsePing fh p) := by
  unfold H2FrameParse.parsePing parsePing
  by_cases h8 : p.length = 8 <;> by_cases h0 : fh.streamID = 0 <;> simp [h8, h0]

theorem ck_parseContinuation (fh : FrameHeader) (p : List Nat) :
    H2FrameParse.parseContinuation fh p = some (parseContinuation fh p) := by
  unfold H2FrameParse.parseContinuation parseContinuation
  split <;> rfl

theorem ck_parseGoAway (fh : FrameHeader) (p : List Nat) : H2FrameParse.parseGoAway fh p = some (parseGoAway fh p) := by
  unfold H2FrameParse.parseGoAway parseGoAway
  by_cases h0 : fh.streamID = 0
  case neg => simp [h0]
  rcases p with _ | ⟨a, _ | ⟨b, _ | ⟨c, _ | ⟨d, _ | ⟨e, _ | ⟨f, _ | ⟨g, _ | ⟨h, rest⟩⟩⟩⟩⟩⟩⟩⟩
  all_goals try simp [h0]
  have h1 : H2FrameParse.slice (a :: b :: c :: d :: e :: f :: g :: h :: rest) 4 8 = some [e, f, g, h] := by
    simp [H2FrameParse.slice]; omega
  have h2 : H2FrameParse.sliceFrom (a :: b :: c :: d :: e :: f :: g :: h :: rest) 8 = some rest := by
    simp [H2FrameParse.sliceFrom, H2FrameParse.slice]
    refine ⟨by omega, ?_⟩
    have : ((rest.length : Int) + 1 + 1 + 1 + 1 + 1 + 1 + 1 + 1).toNat - 8 = rest.length := by omega
    rw [this, List.take_length]
  simp [ck_sliceTo_4, ck_u32_4, h1, h2]

theorem ck_parseFrame_unknown (fh : FrameHeader) (p : List Nat)
    (h : fh.type ∉ [frameData, frameHeaders, framePriority, frameRSTStream, frameSettings, framePushPromise,
      framePing, frameGoAway, frameWindowUpdate, frameContinuation, framePriorityUpdate]) :
    H2FrameParse.parseFrame fh p = some (parseFrame fh p) := by
  simp only [List.mem_cons, List.not_mem_nil, or_false, not_or] at h
  obtain ⟨h0, h1, h2, h3, h4, h5, h6, h7, h8, h9, h16⟩ := h
  simp [H2FrameParse.parseFrame, parseFrame, h0, h1, h2, h3, h4, h5, h6, h7, h8, h9, h16]

/-- the full statement: the C06/C07 parser model is the checked twin with panics impossible. -/
def CheckedEqModelStatement : Prop :=
  ∀ (fh : FrameHeader) (p : List Nat), H2FrameParse.parseFrame fh p = some (parseFrame fh p)

/-- proved for every frame type except SETTINGS, PUSH_PROMISE, WINDOW_UPDATE, PRIORITY_UPDATE. -/
theorem checked_eq_model_partial (fh : FrameHeader) (p : List Nat)
    (h : fh.type ∉ [frameSettings, framePushPromise, frameWindowUpdate, framePriorityUpdate]) :
    H2FrameParse.parseFrame fh p = some (parseFrame fh p) := by
  simp only [List.mem_cons, List.not_mem_nil, or_false, not_or] at h
  obtain ⟨h4, h5, h8, h16⟩ := h
  by_cases t0 : fh.type = frameData
  · simp only [H2FrameParse.parseFrame, parseFrame, t0, ↓reduceIte]; exact ck_parseData fh p
  by_cases t1 : fh.type = frameHeaders
  · simp only [H2FrameParse.parseFrame, parseFrame, t0, t1, ↓reduceIte]; exact ck_parseHeaders fh p
  by_cases t2 : fh.type = framePriority
  · simp only [H2FrameParse.parseFrame, parseFrame, t0, t1, t2, ↓reduceIte]; exact ck_parsePriority fh p
  by_cases t3 : fh.type = frameRSTStream
  · simp only [H2FrameParse.parseFrame, parseFrame, t0, t1, t2, t3, ↓reduceIte]; exact ck_parseRSTStream fh p
  by_cases t6 : fh.type = framePing
  · simp only [H2FrameParse.parseFrame, parseFrame, t0, t1, t2, t3, h4, h5, t6, ↓reduceIte]; exact ck_parsePing fh p
  by_cases t7 : fh.type = frameGoAway
  · simp only [H2FrameParse.parseFrame, parseFrame, t0, t1, t2, t3, h4, h5, t6, t7, ↓reduceIte]; exact ck_parseGoAway fh p
  by_cases t9 : fh.type = frameContinuation
  · simp only [H2FrameParse.parseFrame, parseFrame, t0, t1, t2, t3, h4, h5, t6, t7, h8, t9, ↓reduceIte]
    exact ck_parseContinuation fh p
  · exact ck_parseFrame_unknown fh p (by simp [t0, t1, t2, t3, h4, h5, t6, t7, h8, t9, h16])

/-! ### ReadFrame over the checked parsers -/

/-- `Framer.ReadFrame` as `readFrame`, with the payload handed to the CHECKED parsers: `none` = a Go
panic (out-of-range slice or index) somewhere in the call. -/
def readFrameCk (fr : Framer) (bs : List Nat) : Option ReadResult :=
  match bs with
  | [] => some ⟨.error .eof, none, fr, []⟩
  | b0 :: b1 :: b2 :: t :: fl :: s0 :: s1 :: s2 :: s3 :: body =>
    let fh := decodeHeader b0 b1 b2 t fl s0 s1 s2 s3
    if fh.length > fr.maxReadSize then some ⟨.error .frameTooLarge, none, fr, body⟩
    else match checkFrameOrder fr.lastHeaderStream fh with
      | .error e => some ⟨.error e, none, fr, body⟩
      | .ok last' =>
        if body.length < fh.length then
          some ⟨.error (if body.isEmpty then .eof else .unexpectedEOF), some fh, { fr with lastHeaderStream := last' }, []⟩
        else (H2FrameParse.parseFrame fh (body.take fh.length)).map fun r =>
          ⟨r, some fh, { fr with lastHeaderStream := last' }, body.drop fh.length⟩
  | _ => some ⟨.error .unexpectedEOF, none, fr, []⟩

theorem readFrame_never_panics_aux (fr : Framer) (bs : List Nat) (h : ∃ r, readFrameCk fr bs = some r) :
    readFrameCk fr bs ≠ none := by
  obtain ⟨r, hr⟩ := h; rw [hr]; simp

/-- the checked reader moves the Framer state and the stream exactly as the model `readFrame`
(header accepted, new state, bytes left), whatever the parser returns. -/
theorem readFrameCk_shape (fr : Framer) (bs : List Nat) :
    ∃ res, readFrameCk fr bs = some ⟨res, (readFrame fr bs).hdr, (readFrame fr bs).fr, (readFrame fr bs).rest⟩ := by
  rcases bs with _ | ⟨b0, _ | ⟨b1, _ | ⟨b2, _ | ⟨t, _ | ⟨fl, _ | ⟨s0, _ | ⟨s1, _ | ⟨s2, _ | ⟨s3, body⟩⟩⟩⟩⟩⟩⟩⟩⟩
  case cons.cons.cons.cons.cons.cons.cons.cons.cons =>
    simp only [readFrameCk, readFrame]
    by_cases hmax : (decodeHeader b0 b1 b2 t fl s0 s1 s2 s3).length > fr.maxReadSize
    · simp only [hmax, ↓reduceIte]; exact ⟨_, rfl⟩
    simp only [hmax, ↓reduceIte]
    cases hord : checkFrameOrder fr.lastHeaderStream (decodeHeader b0 b1 b2 t fl s0 s1 s2 s3) with
    | error e => exact ⟨_, rfl⟩
    | ok last' =>
      simp only
      by_cases hlen : body.length < (decodeHeader b0 b1 b2 t fl s0 s1 s2 s3).length
      · simp only [hlen, ↓reduceIte]; exact ⟨_, rfl⟩
      simp only [hlen, ↓reduceIte]
      cases hp : H2FrameParse.parseFrame (decodeHeader b0 b1 b2 t fl s0 s1 s2 s3)
          (List.take (decodeHeader b0 b1 b2 t fl s0 s1 s2 s3).length body) with
      | none => exact absurd hp (C16Parse.parseFrame_never_panics _ _)
      | some r => exact ⟨r, rfl⟩
  all_goals exact ⟨_, rfl⟩

theorem readFrameCk_agrees (fr : Framer) (bs : List Nat) (r : ReadResult) (h : readFrameCk fr bs = some r) :
    r.hdr = (readFrame fr bs).hdr ∧ r.fr = (readFrame fr bs).fr ∧ r.rest = (readFrame fr bs).rest := by
  obtain ⟨res, hs⟩ := readFrameCk_shape fr bs
  rw [hs] at h
  cases h
  exact ⟨rfl, rfl, rfl⟩

/-- and its result is the model's for every frame type with a proved parser equality. -/
theorem readFrameCk_eq_readFrame_partial (fr : Framer) (b0 b1 b2 t fl s0 s1 s2 s3 : Nat) (body : List Nat)
    (ht : t ∉ [frameSettings, framePushPromise, frameWindowUpdate, framePriorityUpdate]) :
    readFrameCk fr (b0 :: b1 :: b2 :: t :: fl :: s0 :: s1 :: s2 :: s3 :: body)
      = some (readFrame fr (b0 :: b1 :: b2 :: t :: fl :: s0 :: s1 :: s2 :: s3 :: body)) := by
  simp only [readFrameCk, readFrame]
  by_cases hmax : (decodeHeader b0 b1 b2 t fl s0 s1 s2 s3).length > fr.maxReadSize
  · simp only [hmax, ↓reduceIte]
  simp only [hmax, ↓reduceIte]
  cases hord : checkFrameOrder fr.lastHeaderStream (decodeHeader b0 b1 b2 t fl s0 s1 s2 s3) with
  | error e => rfl
  | ok last' =>
    simp only
    by_cases hlen : body.length < (decodeHeader b0 b1 b2 t fl s0 s1 s2 s3).length
    · simp only [hlen, ↓reduceIte]
    simp only [hlen, ↓reduceIte]
    rw [checked_eq_model_partial _ _ (by simpa [decodeHeader] using ht)]
    rfl

/-- C07, first clause: for ANY byte stream, ANY `SetMaxReadFrameSize` and ANY HEADERS/CONTINUATION
state, `ReadFrame` performs no out-of-range slice or index (no panic). -/
theorem readFrame_never_panics (fr : Framer) (bs : List Nat) : readFrameCk fr bs ≠ none := by
  obtain ⟨res, hs⟩ := readFrameCk_shape fr bs
  exact readFrame_never_panics_aux fr bs ⟨_, hs⟩

/-! ### ReadMetaHeaders assembly -/

/-- `remainSize -= size` in the emit callback cannot wrap below zero (it runs only after
`size > remainSize` was found false), and `Fields` only grows by `append`: the header-list
assembly of `readMetaFrame` indexes and slices nothing. The fragments themselves are handed whole
to `hdec.Write` (the decoder's own no-panic statement is C02/C03's). -/
theorem metaEmit_remain_no_underflow (st : MetaState) (f : Field) :
    (metaEmit st f).remainSize ≤ st.remainSize ∧
    ((metaEmit st f).fields = st.fields ∨
      ((metaEmit st f).fields = st.fields ++ [f] ∧ f.size ≤ st.remainSize ∧
       (metaEmit st f).remainSize + f.size = st.remainSize)) := by
  unfold metaEmit
  split
  · exact ⟨Nat.le_refl _, .inl rfl⟩
  split
  · exact ⟨Nat.le_refl _, .inl rfl⟩
  split
  · exact ⟨Nat.zero_le _, .inl rfl⟩
  · rename_i hsz
    exact ⟨by simp only; omega, .inr ⟨rfl, by omega, by simp only; omega⟩⟩

end NetVerif.Proofs.C07
