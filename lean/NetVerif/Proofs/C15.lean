import NetVerif.Model.H2Server
namespace NetVerif.Proofs.C15
end NetVerif.Proofs.C15
