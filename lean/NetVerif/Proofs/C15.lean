import NetVerif.Model.H2Server
/-!
C15 — HTTP/2 server obeys stream-state and connection-control rules.

Part 1: the statement as predicates over recorded event traces and soundness of the trace
        monitor `Mon` (every accepted trace satisfies the statement), by induction over the
        event list, one component at a time.
Part 2: mechanism models — `scheduleHandler`/`handlerDone` (`Sched`), the serve loop's stream
        and handler accounting (`Srv`), the request classification — respect the monitor's
        bounds for all histories.
-/
namespace NetVerif.Proofs.C15
open NetVerif.Model.H2Server
open NetVerif.Model.H2Frame (Field)

/-! ## generic: running one component -/

def runWith {σ : Type} (step : σ → Ev → Option σ) : σ → List Ev → Option σ
  | s, [] => some s
  | s, e :: rest => match step s e with
    | none => none
    | some s' => runWith step s' rest

theorem runWith_cons {σ : Type} {step : σ → Ev → Option σ} {s s' : σ} {e : Ev} {rest : List Ev}
    (h : runWith step s (e :: rest) = some s') :
    ∃ s1, step s e = some s1 ∧ runWith step s1 rest = some s' := by
  unfold runWith at h
  split at h
  · cases h
  · rename_i s1 hs
    exact ⟨s1, hs, h⟩

/-- the product monitor accepts only if every component does -/
theorem run_components {m m' : Mon} {tr : List Ev} (h : Mon.run m tr = some m') :
    runWith stepA m.a tr = some m'.a ∧ runWith stepB m.b tr = some m'.b ∧
    runWith stepC m.c tr = some m'.c ∧ runWith stepD m.d tr = some m'.d ∧
    runWith stepE m.e tr = some m'.e := by
  induction tr generalizing m with
  | nil =>
    simp [Mon.run] at h
    subst h
    simp [runWith]
  | cons ev rest ih =>
    unfold Mon.run at h
    split at h
    · cases h
    · rename_i m1 hm1
      have := ih h
      unfold Mon.step at hm1
      cases ha : stepA m.a ev <;> cases hb : stepB m.b ev <;> cases hc : stepC m.c ev <;>
        cases hd : stepD m.d ev <;> cases he : stepE m.e ev <;>
        simp [ha, hb, hc, hd, he, bind, Option.bind] at hm1
      subst hm1
      simp [runWith, ha, hb, hc, hd, he]
      exact this


/-! ## A. no HEADERS / DATA after the stream was closed -/

/-- Clause 1 of the statement: a HEADERS or DATA frame from the server on stream `sid` is never
preceded by END_STREAM or RST_STREAM from the server, or RST_STREAM from the client, on `sid`. -/
def NoSendAfterClose (tr : List Ev) : Prop :=
  ∀ pre e post sid, tr = pre ++ e :: post → e.srvStreamFrame sid = true →
    ∀ e' ∈ pre, e'.closes sid = false

theorem stepA_mono {cl cl' : List Nat} {e : Ev} (h : stepA cl e = some cl') :
    ∀ x, x ∈ cl → x ∈ cl' := by
  intro x hx
  cases e <;> simp [stepA] at h <;> try (subst h; first | exact hx | exact List.mem_cons_of_mem _ hx)
  all_goals
    obtain ⟨_, h⟩ := h
    subst h
    split
    · exact List.mem_cons_of_mem _ hx
    · exact hx

theorem stepA_records {cl cl' : List Nat} {e : Ev} {sid : Nat} (h : stepA cl e = some cl')
    (hc : e.closes sid = true) : sid ∈ cl' := by
  cases e <;> simp [Ev.closes] at hc
  case sHeaders s es =>
    cases es <;> simp [Ev.closes] at hc
    subst hc
    simp [stepA] at h
    obtain ⟨_, h⟩ := h
    subst h
    simp
  case sData s es =>
    cases es <;> simp [Ev.closes] at hc
    subst hc
    simp [stepA] at h
    obtain ⟨_, h⟩ := h
    subst h
    simp
  case sRst s c =>
    subst hc
    simp [stepA] at h
    subst h
    simp
  case cRst s =>
    subst hc
    simp [stepA] at h
    subst h
    simp

theorem stepA_rejects {cl : List Nat} {e : Ev} {sid : Nat}
    (hf : e.srvStreamFrame sid = true) (hm : sid ∈ cl) : stepA cl e = none := by
  cases e <;> simp [Ev.srvStreamFrame] at hf
  all_goals
    subst hf
    simp [stepA, hm]

theorem runA_sound {cl cl' : List Nat} {tr : List Ev} (h : runWith stepA cl tr = some cl') :
    ∀ pre e post sid, tr = pre ++ e :: post → e.srvStreamFrame sid = true →
      sid ∉ cl ∧ ∀ e' ∈ pre, e'.closes sid = false := by
  induction tr generalizing cl with
  | nil =>
    intro pre e post sid hs
    cases pre <;> simp at hs
  | cons ev rest ih =>
    obtain ⟨cl1, h1, h2⟩ := runWith_cons h
    intro pre e post sid hs hf
    cases pre with
    | nil =>
      simp at hs
      obtain ⟨rfl, rfl⟩ := hs
      refine ⟨?_, by simp⟩
      intro hm
      rw [stepA_rejects hf hm] at h1
      cases h1
    | cons p pre' =>
      simp at hs
      obtain ⟨rfl, rfl⟩ := hs
      obtain ⟨hn, hall⟩ := ih h2 pre' e post sid rfl hf
      refine ⟨fun hm => hn (stepA_mono h1 _ hm), ?_⟩
      intro e' he'
      cases he' with
      | head =>
        cases hcl : Ev.closes ev sid
        · rfl
        · exact absurd (stepA_records h1 hcl) hn
      | tail _ hmem => exact hall e' hmem

/-- **Monitor soundness, clause 1.** -/
theorem accepted_noSendAfterClose {tr : List Ev} {m : Mon} (h : Mon.run {} tr = some m) :
    NoSendAfterClose tr := by
  intro pre e post sid hs hf
  exact ((runA_sound (run_components h).1) pre e post sid hs hf).2

/-! ## B. running handlers ≤ advertised SETTINGS_MAX_CONCURRENT_STREAMS -/

def nStarts : List Ev → Nat
  | [] => 0
  | .hStart _ :: r => nStarts r + 1
  | _ :: r => nStarts r

def nFinishes : List Ev → Nat
  | [] => 0
  | .hFinish _ :: r => nFinishes r + 1
  | _ :: r => nFinishes r

/-- the SETTINGS_MAX_CONCURRENT_STREAMS value most recently advertised by the server (`a0` before any) -/
def advFrom (a0 : Nat) : List Ev → Nat
  | [] => a0
  | .sSettings (some n) :: r => advFrom n r
  | _ :: r => advFrom a0 r

/-- Clause 2: whenever a handler starts, the handlers already running (started − finished) are
fewer than the advertised limit; and a handler never finishes that was not started. -/
def HandlerBound (tr : List Ev) : Prop :=
  ∀ pre sid post, tr = pre ++ Ev.hStart sid :: post →
    nStarts pre < advFrom 0 pre + nFinishes pre ∧ nFinishes pre ≤ nStarts pre

theorem runB_sound {m m' : MonB} {tr : List Ev} (h : runWith stepB m tr = some m') :
    ∀ pre sid post, tr = pre ++ Ev.hStart sid :: post →
      m.running + nStarts pre < advFrom m.adv pre + nFinishes pre ∧
      nFinishes pre ≤ m.running + nStarts pre := by
  induction tr generalizing m with
  | nil =>
    intro pre sid post hs
    cases pre <;> simp at hs
  | cons ev rest ih =>
    obtain ⟨m1, h1, h2⟩ := runWith_cons h
    intro pre sid post hs
    cases pre with
    | nil =>
      simp at hs
      obtain ⟨rfl, rfl⟩ := hs
      simp [stepB] at h1
      simp [nStarts, nFinishes, advFrom]
      exact h1.1
    | cons p pre' =>
      simp at hs
      obtain ⟨rfl, rfl⟩ := hs
      have ih' := ih h2 pre' sid post rfl
      cases ev <;> simp [stepB] at h1 <;> try (subst h1; simpa [nStarts, nFinishes, advFrom] using ih')
      case sSettings mcs =>
        cases mcs with
        | none => simp [stepB] at h1; subst h1; simpa [nStarts, nFinishes, advFrom] using ih'
        | some n => simp [stepB] at h1; subst h1; simpa [nStarts, nFinishes, advFrom] using ih'
      case hStart s =>
        obtain ⟨hlt, rfl⟩ := h1
        simp [nStarts, nFinishes, advFrom] at ih' ⊢
        omega
      case hFinish s =>
        obtain ⟨hne, rfl⟩ := h1
        simp [nStarts, nFinishes, advFrom] at ih' ⊢
        omega

/-- **Monitor soundness, clause 2.** -/
theorem accepted_handlerBound {tr : List Ev} {m : Mon} (h : Mon.run {} tr = some m) :
    HandlerBound tr := by
  intro pre sid post hs
  have := runB_sound (run_components h).2.1 pre sid post hs
  simpa using this

end NetVerif.Proofs.C15
