import NetVerif.Model.H2Server
import NetVerif.Gen.C15
/-!
C15 — HTTP/2 server obeys stream-state and connection-control rules.

Part 1: the statement as predicates over recorded event traces and soundness of the trace
        monitor `Mon` (every accepted trace satisfies the statement), by induction over the
        event list, one component at a time.
Part 2: mechanism models — `scheduleHandler`/`handlerDone` (`Sched`), the serve loop's stream
        and handler accounting (`Srv`), the request classification — respect the monitor's
        bounds for all histories.
-/
namespace NetVerif.Proofs.C15
open NetVerif.Model.H2Server
open NetVerif.Model.H2Frame (Field)

/-! ## generic: running one component -/

def runWith {σ : Type} (step : σ → Ev → Option σ) : σ → List Ev → Option σ
  | s, [] => some s
  | s, e :: rest => match step s e with
    | none => none
    | some s' => runWith step s' rest

theorem runWith_cons {σ : Type} {step : σ → Ev → Option σ} {s s' : σ} {e : Ev} {rest : List Ev}
    (h : runWith step s (e :: rest) = some s') :
    ∃ s1, step s e = some s1 ∧ runWith step s1 rest = some s' := by
  unfold runWith at h
  split at h
  · cases h
  · rename_i s1 hs
    exact ⟨s1, hs, h⟩

/-- the product monitor accepts only if every component does -/
theorem run_components {m m' : Mon} {tr : List Ev} (h : Mon.run m tr = some m') :
    runWith stepA m.a tr = some m'.a ∧ runWith stepB m.b tr = some m'.b ∧
    runWith stepC m.c tr = some m'.c ∧ runWith stepD m.d tr = some m'.d ∧
    runWith stepE m.e tr = some m'.e := by
  induction tr generalizing m with
  | nil =>
    simp [Mon.run] at h
    subst h
    simp [runWith]
  | cons ev rest ih =>
    unfold Mon.run at h
    split at h
    · cases h
    · rename_i m1 hm1
      have := ih h
      unfold Mon.step at hm1
      cases ha : stepA m.a ev <;> cases hb : stepB m.b ev <;> cases hc : stepC m.c ev <;>
        cases hd : stepD m.d ev <;> cases he : stepE m.e ev <;>
        simp [ha, hb, hc, hd, he, bind, Option.bind] at hm1
      subst hm1
      simp [runWith, ha, hb, hc, hd, he]
      exact this


/-! ## A. no HEADERS / DATA after the stream was closed -/

/-- Clause 1 of the statement: a HEADERS or DATA frame from the server on stream `sid` is never
preceded by END_STREAM or RST_STREAM from the server, or RST_STREAM from the client, on `sid`. -/
def NoSendAfterClose (tr : List Ev) : Prop :=
  ∀ pre e post sid, tr = pre ++ e :: post → e.srvStreamFrame sid = true →
    ∀ e' ∈ pre, e'.closes sid = false

theorem stepA_mono {cl cl' : List Nat} {e : Ev} (h : stepA cl e = some cl') :
    ∀ x, x ∈ cl → x ∈ cl' := by
  intro x hx
  cases e <;> simp [stepA] at h <;> try (subst h; first | exact hx | exact List.mem_cons_of_mem _ hx)
  all_goals
    obtain ⟨_, h⟩ := h
    subst h
    split
    · exact List.mem_cons_of_mem _ hx
    · exact hx

theorem stepA_records {cl cl' : List Nat} {e : Ev} {sid : Nat} (h : stepA cl e = some cl')
    (hc : e.closes sid = true) : sid ∈ cl' := by
  cases e <;> simp [Ev.closes] at hc
  case sHeaders s es =>
    cases es <;> simp [Ev.closes] at hc
    subst hc
    simp [stepA] at h
    obtain ⟨_, h⟩ := h
    subst h
    simp
  case sData s es =>
    cases es <;> simp [Ev.closes] at hc
    subst hc
    simp [stepA] at h
    obtain ⟨_, h⟩ := h
    subst h
    simp
  case sRst s c =>
    subst hc
    simp [stepA] at h
    subst h
    simp
  case cRst s =>
    subst hc
    simp [stepA] at h
    subst h
    simp

theorem stepA_rejects {cl : List Nat} {e : Ev} {sid : Nat}
    (hf : e.srvStreamFrame sid = true) (hm : sid ∈ cl) : stepA cl e = none := by
  cases e <;> simp [Ev.srvStreamFrame] at hf
  all_goals
    subst hf
    simp [stepA, hm]

theorem runA_sound {cl cl' : List Nat} {tr : List Ev} (h : runWith stepA cl tr = some cl') :
    ∀ pre e post sid, tr = pre ++ e :: post → e.srvStreamFrame sid = true →
      sid ∉ cl ∧ ∀ e' ∈ pre, e'.closes sid = false := by
  induction tr generalizing cl with
  | nil =>
    intro pre e post sid hs
    cases pre <;> simp at hs
  | cons ev rest ih =>
    obtain ⟨cl1, h1, h2⟩ := runWith_cons h
    intro pre e post sid hs hf
    cases pre with
    | nil =>
      simp at hs
      obtain ⟨rfl, rfl⟩ := hs
      refine ⟨?_, by simp⟩
      intro hm
      rw [stepA_rejects hf hm] at h1
      cases h1
    | cons p pre' =>
      simp at hs
      obtain ⟨rfl, rfl⟩ := hs
      obtain ⟨hn, hall⟩ := ih h2 pre' e post sid rfl hf
      refine ⟨fun hm => hn (stepA_mono h1 _ hm), ?_⟩
      intro e' he'
      cases he' with
      | head =>
        cases hcl : Ev.closes ev sid
        · rfl
        · exact absurd (stepA_records h1 hcl) hn
      | tail _ hmem => exact hall e' hmem

/-- **Monitor soundness, clause 1.** -/
theorem accepted_noSendAfterClose {tr : List Ev} {m : Mon} (h : Mon.run {} tr = some m) :
    NoSendAfterClose tr := by
  intro pre e post sid hs hf
  exact ((runA_sound (run_components h).1) pre e post sid hs hf).2

/-! ## B. running handlers ≤ advertised SETTINGS_MAX_CONCURRENT_STREAMS -/

def nStarts : List Ev → Nat
  | [] => 0
  | .hStart _ :: r => nStarts r + 1
  | _ :: r => nStarts r

def nFinishes : List Ev → Nat
  | [] => 0
  | .hFinish _ :: r => nFinishes r + 1
  | _ :: r => nFinishes r

/-- the SETTINGS_MAX_CONCURRENT_STREAMS value most recently advertised by the server (`a0` before any) -/
def advFrom (a0 : Nat) : List Ev → Nat
  | [] => a0
  | .sSettings (some n) :: r => advFrom n r
  | _ :: r => advFrom a0 r

/-- Clause 2: whenever a handler starts, the handlers already running (started − finished) are
fewer than the advertised limit; and a handler never finishes that was not started. -/
def HandlerBound (tr : List Ev) : Prop :=
  ∀ pre sid post, tr = pre ++ Ev.hStart sid :: post →
    nStarts pre < advFrom 0 pre + nFinishes pre ∧ nFinishes pre ≤ nStarts pre

theorem runB_sound {m m' : MonB} {tr : List Ev} (h : runWith stepB m tr = some m') :
    ∀ pre sid post, tr = pre ++ Ev.hStart sid :: post →
      m.running + nStarts pre < advFrom m.adv pre + nFinishes pre ∧
      nFinishes pre ≤ m.running + nStarts pre := by
  induction tr generalizing m with
  | nil =>
    intro pre sid post hs
    cases pre <;> simp at hs
  | cons ev rest ih =>
    obtain ⟨m1, h1, h2⟩ := runWith_cons h
    intro pre sid post hs
    cases pre with
    | nil =>
      simp at hs
      obtain ⟨rfl, rfl⟩ := hs
      simp [stepB] at h1
      simp [nStarts, nFinishes, advFrom]
      exact h1.1
    | cons p pre' =>
      simp at hs
      obtain ⟨rfl, rfl⟩ := hs
      have ih' := ih h2 pre' sid post rfl
      cases ev <;> simp [stepB] at h1 <;> try (subst h1; simpa [nStarts, nFinishes, advFrom] using ih')
      case sSettings mcs =>
        cases mcs with
        | none => simp [stepB] at h1; subst h1; simpa [nStarts, nFinishes, advFrom] using ih'
        | some n => simp [stepB] at h1; subst h1; simpa [nStarts, nFinishes, advFrom] using ih'
      case hStart s =>
        obtain ⟨hlt, rfl⟩ := h1
        simp [nStarts, nFinishes, advFrom] at ih' ⊢
        omega
      case hFinish s =>
        obtain ⟨hne, rfl⟩ := h1
        simp [nStarts, nFinishes, advFrom] at ih' ⊢
        omega

/-- **Monitor soundness, clause 2.** -/
theorem accepted_handlerBound {tr : List Ev} {m : Mon} (h : Mon.run {} tr = some m) :
    HandlerBound tr := by
  intro pre sid post hs
  have := runB_sound (run_components h).2.1 pre sid post hs
  simpa using this


/-! ## liveness window shared by clauses C, D, E -/

def liveFrom (l : Live) (pre : List Ev) : Live := pre.foldl Live.step l

/-- At this point of the trace the server has sent no GOAWAY, has not closed the connection and
the client is reading: the point at which "answered" / "acknowledged" obligations are due. -/
def liveAt (pre : List Ev) : Prop := (liveFrom {} pre).due = true

@[simp] theorem liveFrom_cons (l : Live) (e : Ev) (pre : List Ev) :
    liveFrom l (e :: pre) = liveFrom (l.step e) pre := rfl

/-! ## C. every non-ACK PING is answered exactly once with the same data -/

def pingsOf (d : Nat) : List Ev → Nat
  | [] => 0
  | .cPing x :: r => pingsOf d r + (if x = d then 1 else 0)
  | _ :: r => pingsOf d r

def acksOf (d : Nat) : List Ev → Nat
  | [] => 0
  | .sPingAck x :: r => acksOf d r + (if x = d then 1 else 0)
  | _ :: r => acksOf d r

/-- Clause 3: a PING ACK always answers a not yet answered PING with the same data, and at
every quiescent point of a live connection all PINGs have been answered (so: exactly once). -/
def PingSpec (tr : List Ev) : Prop :=
  (∀ pre post d, tr = pre ++ Ev.sPingAck d :: post → acksOf d pre < pingsOf d pre) ∧
  (∀ pre post, tr = pre ++ Ev.quiesce :: post → liveAt pre → ∀ d, acksOf d pre = pingsOf d pre)

theorem stepC_live {m m1 : MonC} {e : Ev} (h : stepC m e = some m1) : m1.live = m.live.step e := by
  unfold stepC at h
  cases e <;> simp at h <;> try (subst h; rfl)
  all_goals
    obtain ⟨_, h⟩ := h
    subst h
    rfl

theorem count_erase_add (l : List Nat) (d0 d : Nat) (h : d0 ∈ l) :
    List.count d (l.erase d0) + (if d0 = d then 1 else 0) = List.count d l := by
  by_cases hd : d0 = d
  · subst hd
    have hpos : 0 < List.count d0 l := List.count_pos_iff.mpr h
    simp [List.count_erase_self]
    omega
  · simp [hd, List.count_erase_of_ne (Ne.symm hd)]

theorem runC_sound {m m' : MonC} {tr : List Ev} (h : runWith stepC m tr = some m') :
    (∀ pre post d, tr = pre ++ Ev.sPingAck d :: post →
      acksOf d pre < pingsOf d pre + List.count d m.outstanding) ∧
    (∀ pre post, tr = pre ++ Ev.quiesce :: post → (liveFrom m.live pre).due = true →
      ∀ d, acksOf d pre = pingsOf d pre + List.count d m.outstanding) := by
  induction tr generalizing m with
  | nil =>
    constructor
    · intro pre post d hs
      cases pre <;> simp at hs
    · intro pre post hs
      cases pre <;> simp at hs
  | cons ev rest ih =>
    obtain ⟨m1, h1, h2⟩ := runWith_cons h
    have hl := stepC_live h1
    obtain ⟨ih1, ih2⟩ := ih h2
    constructor
    · intro pre post d hs
      cases pre with
      | nil =>
        simp at hs
        obtain ⟨rfl, rfl⟩ := hs
        simp [stepC] at h1
        simp [acksOf, pingsOf]
        exact h1.1
      | cons p pre' =>
        simp at hs
        obtain ⟨rfl, rfl⟩ := hs
        have := ih1 pre' post d rfl
        cases ev <;> simp [stepC] at h1 <;> try (subst h1; simpa [acksOf, pingsOf] using this)
        case cPing x =>
          subst h1
          simp [acksOf, pingsOf, List.count_append, List.count_singleton] at this ⊢
          by_cases hxd : x = d <;> simp [hxd] at this ⊢ <;> omega
        case sPingAck x =>
          obtain ⟨hx, rfl⟩ := h1
          simp [acksOf, pingsOf] at this ⊢
          have := count_erase_add m.outstanding x d hx
          omega
        case quiesce =>
          obtain ⟨_, rfl⟩ := h1
          simpa [acksOf, pingsOf] using this
    · intro pre post hs hlive d
      cases pre with
      | nil =>
        simp at hs
        obtain ⟨rfl, rfl⟩ := hs
        simp [stepC] at h1
        simp [liveFrom] at hlive
        simp [acksOf, pingsOf]
        have hdue : (m.live.step Ev.quiesce).due = true := by simpa [Live.step] using hlive
        have := h1.1 hdue
        simp [this]
      | cons p pre' =>
        simp at hs
        obtain ⟨rfl, rfl⟩ := hs
        rw [liveFrom_cons, ← hl] at hlive
        have := ih2 pre' post rfl hlive d
        cases ev <;> simp [stepC] at h1 <;> try (subst h1; simpa [acksOf, pingsOf] using this)
        case cPing x =>
          subst h1
          simp [acksOf, pingsOf, List.count_append, List.count_singleton] at this ⊢
          by_cases hxd : x = d <;> simp [hxd] at this ⊢ <;> omega
        case sPingAck x =>
          obtain ⟨hx, rfl⟩ := h1
          simp [acksOf, pingsOf] at this ⊢
          have := count_erase_add m.outstanding x d hx
          omega
        case quiesce =>
          obtain ⟨_, rfl⟩ := h1
          simpa [acksOf, pingsOf] using this

/-- **Monitor soundness, clause 3.** -/
theorem accepted_pingSpec {tr : List Ev} {m : Mon} (h : Mon.run {} tr = some m) : PingSpec tr := by
  have := runC_sound (run_components h).2.2.1
  constructor
  · intro pre post d hs
    simpa using this.1 pre post d hs
  · intro pre post hs hl d
    simpa using this.2 pre post hs hl d


/-! ## D. SETTINGS acknowledgement -/

def nSet : List Ev → Nat
  | [] => 0
  | .cSettings 0 :: r => nSet r + 1
  | _ :: r => nSet r

def nAck : List Ev → Nat
  | [] => 0
  | .sSettingsAck :: r => nAck r + 1
  | _ :: r => nAck r

/-- Clause 4: a SETTINGS ACK always acknowledges an earlier, not yet acknowledged SETTINGS frame,
and at every quiescent point of a live connection there are as many SETTINGS ACKs as valid
SETTINGS frames: every SETTINGS frame is acknowledged, one ACK each (RFC 9113 6.5.3). -/
def SettingsFull (tr : List Ev) : Prop :=
  (∀ pre post, tr = pre ++ Ev.sSettingsAck :: post → nAck pre < nSet pre) ∧
  (∀ pre post, tr = pre ++ Ev.quiesce :: post → liveAt pre → nAck pre = nSet pre)

theorem stepD_live {m m1 : MonD} {e : Ev} (h : stepD m e = some m1) : m1.live = m.live.step e := by
  unfold stepD at h
  cases e <;> simp at h <;> try (subst h; rfl)
  case cSettings v =>
    cases v <;> simp at h <;> subst h <;> rfl
  all_goals
    obtain ⟨_, h⟩ := h
    subst h
    rfl

theorem runD_sound {m m' : MonD} {tr : List Ev} (h : runWith stepD m tr = some m') :
    (∀ pre post, tr = pre ++ Ev.sSettingsAck :: post → m.nack + nAck pre < m.nset + nSet pre) ∧
    (∀ pre post, tr = pre ++ Ev.quiesce :: post → (liveFrom m.live pre).due = true →
      m.nack + nAck pre = m.nset + nSet pre) := by
  induction tr generalizing m with
  | nil =>
    constructor
    · intro pre post hs
      cases pre <;> simp at hs
    · intro pre post hs
      cases pre <;> simp at hs
  | cons ev rest ih =>
    obtain ⟨m1, h1, h2⟩ := runWith_cons h
    have hl := stepD_live h1
    obtain ⟨ih1, ih2⟩ := ih h2
    constructor
    · intro pre post hs
      cases pre with
      | nil =>
        simp at hs
        obtain ⟨rfl, rfl⟩ := hs
        simp [stepD] at h1
        simp [nAck, nSet]
        omega
      | cons p pre' =>
        simp at hs
        obtain ⟨rfl, rfl⟩ := hs
        have := ih1 pre' post rfl
        cases ev <;> simp [stepD] at h1 <;> try (subst h1; simpa [nAck, nSet] using this)
        case cSettings v =>
          cases v with
          | zero => simp at h1; subst h1; simp [nAck, nSet] at this ⊢; omega
          | succ k => simp at h1; subst h1; simpa [nAck, nSet] using this
        case sSettingsAck =>
          obtain ⟨_, rfl⟩ := h1
          simp [nAck, nSet] at this ⊢
          omega
        case quiesce =>
          obtain ⟨_, rfl⟩ := h1
          simpa [nAck, nSet] using this
    · intro pre post hs hlive
      cases pre with
      | nil =>
        simp at hs
        obtain ⟨rfl, rfl⟩ := hs
        simp [stepD] at h1
        simp [liveFrom] at hlive
        have hdue : (m.live.step Ev.quiesce).due = true := by simpa [Live.step] using hlive
        have := h1.1 hdue
        simp [nAck, nSet, this]
      | cons p pre' =>
        simp at hs
        obtain ⟨rfl, rfl⟩ := hs
        rw [liveFrom_cons, ← hl] at hlive
        have := ih2 pre' post rfl hlive
        cases ev <;> simp [stepD] at h1 <;> try (subst h1; simpa [nAck, nSet] using this)
        case cSettings v =>
          cases v with
          | zero => simp at h1; subst h1; simp [nAck, nSet] at this ⊢; omega
          | succ k => simp at h1; subst h1; simpa [nAck, nSet] using this
        case sSettingsAck =>
          obtain ⟨_, rfl⟩ := h1
          simp [nAck, nSet] at this ⊢
          omega
        case quiesce =>
          obtain ⟨_, rfl⟩ := h1
          simpa [nAck, nSet] using this

/-- **Monitor soundness, clause 4 (full strength).** -/
theorem settings_holds {tr : List Ev} {m : Mon} (h : Mon.run {} tr = some m) : SettingsFull tr := by
  have := runD_sound (run_components h).2.2.2.1
  constructor
  · intro pre post hs
    simpa using this.1 pre post hs
  · intro pre post hs hl
    simpa using this.2 pre post hs hl

/-- the trace of the repaired defect `settings-ack-coalesced`: two SETTINGS frames arrive while a
write is blocked and ONE ACK follows. Produced by the server before the repair; the monitor now
rejects it (corpus/C15/coalesced.ops is the regression input). -/
def witnessCoalesced : List Ev :=
  [.sSettings (some 1), .blk, .cSettings 0, .cSettings 0, .quiesce, .unblk, .sSettingsAck, .quiesce]

theorem witnessCoalesced_rejected : (Mon.run {} witnessCoalesced).isSome = false := by decide

/-- what the repaired server does on the same input: one ACK per SETTINGS frame -/
def witnessRepaired : List Ev :=
  [.sSettings (some 1), .blk, .cSettings 0, .cSettings 0, .quiesce, .unblk, .sSettingsAck, .sSettingsAck, .quiesce]

theorem witnessRepaired_accepted : (Mon.run {} witnessRepaired).isSome = true := by decide

/-! ## E. malformed / connection-specific requests -/

/-- class of the request on stream `sid`: the first HEADERS the client sent on it -/
def firstReq (sid : Nat) : List Ev → Option ReqClass
  | [] => none
  | .cHeaders s _ cls _ :: r => if s = sid then some cls else firstReq sid r
  | _ :: r => firstReq sid r

/-- Clause 5a: the user handler is only ever started for a stream whose request was received and
is neither malformed nor carries connection-specific fields. -/
def OnlyGoodRequestsReachHandler (tr : List Ev) : Prop :=
  ∀ pre post sid, tr = pre ++ Ev.hStart sid :: post → firstReq sid pre = some ReqClass.ok

theorem stepE_keeps {m m1 : MonE} {e : Ev} (h : stepE m e = some m1)
    (hne : ∀ s es c hp, e ≠ Ev.cHeaders s es c hp) : m1.seen = m.seen ∧ m1.noHandler = m.noHandler := by
  unfold stepE at h
  cases e <;> simp at h <;> try (subst h; exact ⟨rfl, rfl⟩)
  case cHeaders s es c hp => exact absurd rfl (hne s es c hp)
  case hStart s =>
    obtain ⟨_, rfl⟩ := h
    exact ⟨rfl, rfl⟩
  case sRst s c =>
    subst h
    split <;> exact ⟨rfl, rfl⟩
  case quiesce =>
    obtain ⟨_, rfl⟩ := h
    exact ⟨rfl, rfl⟩

theorem runE_sound {m m' : MonE} {tr : List Ev} (h : runWith stepE m tr = some m') :
    ∀ pre post sid, tr = pre ++ Ev.hStart sid :: post →
      (sid ∈ m.seen ∧ sid ∉ m.noHandler) ∨ (sid ∉ m.seen ∧ firstReq sid pre = some ReqClass.ok) := by
  induction tr generalizing m with
  | nil =>
    intro pre post sid hs
    cases pre <;> simp at hs
  | cons ev rest ih =>
    obtain ⟨m1, h1, h2⟩ := runWith_cons h
    intro pre post sid hs
    cases pre with
    | nil =>
      simp at hs
      obtain ⟨rfl, rfl⟩ := hs
      simp [stepE] at h1
      left
      exact ⟨h1.1.1.2, h1.1.1.1⟩
    | cons p pre' =>
      simp at hs
      obtain ⟨rfl, rfl⟩ := hs
      have ih' := ih h2 pre' post sid rfl
      by_cases hch : ∃ s es c hp, ev = Ev.cHeaders s es c hp
      · obtain ⟨s, es, c, hp, rfl⟩ := hch
        simp only [firstReq]
        unfold stepE at h1
        by_cases hs' : s ∈ m.seen
        · simp [hs'] at h1
          subst h1
          rcases ih' with ⟨a, b⟩ | ⟨a, b⟩
          · left; exact ⟨a, b⟩
          · right
            refine ⟨a, ?_⟩
            have : s ≠ sid := fun e => a (e ▸ hs')
            simp [this, b]
        · simp [hs'] at h1
          by_cases hsid : s = sid
          · subst hsid
            right
            refine ⟨hs', ?_⟩
            simp
            cases c <;> simp at h1 <;> subst h1 <;> simp at ih' <;> first | rfl | exact absurd rfl ih'
          · have hne : sid ≠ s := fun e => hsid e.symm
            cases c <;> simp at h1 <;> subst h1 <;> simp [hne] at ih' <;>
              rcases ih' with ⟨a, b⟩ | ⟨a, b⟩ <;>
              first
                | (left; exact ⟨a, b⟩)
                | (left; exact ⟨a, b.2⟩)
                | (right; exact ⟨a.2, by simp [hsid, b]⟩)
                | (right; exact ⟨a, by simp [hsid, b]⟩)
      · have hne : ∀ s es c hp, ev ≠ Ev.cHeaders s es c hp := fun s es c hp e => hch ⟨s, es, c, hp, e⟩
        obtain ⟨k1, k2⟩ := stepE_keeps h1 hne
        rw [k1, k2] at ih'
        have : firstReq sid (ev :: pre') = firstReq sid pre' := by
          cases ev <;> simp [firstReq]
          case cHeaders s es c hp => exact absurd rfl (hne s es c hp)
        rw [this]
        exact ih'

/-- **Monitor soundness, clause 5a.** -/
theorem accepted_onlyGoodRequestsReachHandler {tr : List Ev} {m : Mon} (h : Mon.run {} tr = some m) :
    OnlyGoodRequestsReachHandler tr := by
  intro pre post sid hs
  rcases runE_sound (run_components h).2.2.2.2 pre post sid hs with ⟨a, _⟩ | ⟨_, b⟩
  · simp at a
  · exact b


/-- Clause 5b: a malformed request (first HEADERS on its stream) is answered with
RST_STREAM(PROTOCOL_ERROR | REFUSED_STREAM) on that stream by every later quiescent point at
which the connection is live. -/
def MalformedGetStreamError (tr : List Ev) : Prop :=
  ∀ p1 sid es cls hp p2 post,
    tr = (p1 ++ Ev.cHeaders sid es cls hp :: p2) ++ Ev.quiesce :: post →
    (cls = ReqClass.mw ∨ cls = ReqClass.mp) → firstReq sid p1 = none →
    liveAt (p1 ++ Ev.cHeaders sid es cls hp :: p2) →
    ∃ code, Ev.sRst sid code ∈ p2 ∧ (code = 1 ∨ code = 7)

theorem liveFrom_quiet (l : Live) (pre : List Ev) (h : l.quiet = true) : (liveFrom l pre).quiet = true := by
  induction pre generalizing l with
  | nil => simpa [liveFrom] using h
  | cons e r ih =>
    rw [liveFrom_cons]
    apply ih
    cases e <;> simp [Live.step, h]

theorem due_not_quiet (l : Live) (pre : List Ev) (h : (liveFrom l pre).due = true) : l.quiet = false := by
  cases hq : l.quiet with
  | false => rfl
  | true =>
    have := liveFrom_quiet l pre hq
    simp [Live.due, this] at h

theorem stepE_live {m m1 : MonE} {e : Ev} (h : stepE m e = some m1) : m1.live = m.live.step e := by
  unfold stepE at h
  cases e <;> simp at h <;> try (subst h; rfl)
  case cHeaders s es c hp =>
    split at h
    · cases h; rfl
    · cases c <;> simp at h <;> subst h <;> rfl
  case hStart s =>
    obtain ⟨_, rfl⟩ := h
    rfl
  case sRst s c =>
    subst h
    split <;> rfl
  case quiesce =>
    obtain ⟨_, rfl⟩ := h
    rfl

theorem firstReq_none_cons {sid : Nat} {e : Ev} {r : List Ev} (h : firstReq sid (e :: r) = none) :
    firstReq sid r = none ∧ ∀ es c hp, e ≠ Ev.cHeaders sid es c hp := by
  by_cases hch : ∃ s es c hp, e = Ev.cHeaders s es c hp
  · obtain ⟨s, es, c, hp, rfl⟩ := hch
    by_cases hs : s = sid
    · simp [firstReq, hs] at h
    · simp [firstReq, hs] at h
      refine ⟨h, ?_⟩
      intro es' c' hp' heq
      injection heq with h1
      exact hs h1
  · refine ⟨?_, fun es c hp heq => hch ⟨sid, es, c, hp, heq⟩⟩
    cases e <;> simp [firstReq] at h ⊢ <;> try exact h
    case cHeaders s es c hp => exact absurd ⟨s, es, c, hp, rfl⟩ hch

theorem runE_due {m m' : MonE} {tr : List Ev} (h : runWith stepE m tr = some m') :
    ∀ pre post, tr = pre ++ Ev.quiesce :: post → (liveFrom m.live pre).due = true →
      (∀ sid ∈ m.due, ∃ code, Ev.sRst sid code ∈ pre ∧ (code = 1 ∨ code = 7)) ∧
      (∀ p1 sid es cls hp p2, pre = p1 ++ Ev.cHeaders sid es cls hp :: p2 →
        (cls = ReqClass.mw ∨ cls = ReqClass.mp) → sid ∉ m.seen → firstReq sid p1 = none →
        ∃ code, Ev.sRst sid code ∈ p2 ∧ (code = 1 ∨ code = 7)) := by
  induction tr generalizing m with
  | nil =>
    intro pre post hs
    cases pre <;> simp at hs
  | cons ev rest ih =>
    obtain ⟨m1, h1, h2⟩ := runWith_cons h
    have hl := stepE_live h1
    intro pre post hs hlive
    cases pre with
    | nil =>
      simp at hs
      obtain ⟨rfl, rfl⟩ := hs
      simp [stepE] at h1
      simp [liveFrom] at hlive
      have hdue : (m.live.step Ev.quiesce).due = true := by simpa [Live.step] using hlive
      have hemp := h1.1 hdue
      constructor
      · intro sid hsid
        simp [hemp] at hsid
      · intro p1 sid es cls hp p2 hp1
        cases p1 <;> simp at hp1
    | cons p pre' =>
      simp at hs
      obtain ⟨rfl, rfl⟩ := hs
      rw [liveFrom_cons, ← hl] at hlive
      have hnq : m1.live.quiet = false := due_not_quiet _ _ hlive
      obtain ⟨a1, b1⟩ := ih h2 pre' post rfl hlive
      -- lifting an RST found in pre' to ev :: pre'
      have lift : ∀ sid, (∃ code, Ev.sRst sid code ∈ pre' ∧ (code = 1 ∨ code = 7)) →
          ∃ code, Ev.sRst sid code ∈ ev :: pre' ∧ (code = 1 ∨ code = 7) := by
        intro sid ⟨c, hc, hk⟩
        exact ⟨c, List.mem_cons_of_mem _ hc, hk⟩
      by_cases hch : ∃ s es c hp, ev = Ev.cHeaders s es c hp
      · obtain ⟨s, es, c, hp, rfl⟩ := hch
        unfold stepE at h1
        by_cases hs' : s ∈ m.seen
        · simp [hs'] at h1
          subst h1
          constructor
          · intro sid hsid
            exact lift sid (a1 sid hsid)
          · intro p1 sid es' cls hp' p2 hp1 hcls hns hfr
            cases p1 with
            | nil =>
              simp at hp1
              obtain ⟨⟨rfl, _, _, _⟩, _⟩ := hp1
              exact absurd hs' hns
            | cons q p1' =>
              simp at hp1
              obtain ⟨rfl, rfl⟩ := hp1
              obtain ⟨hfr', _⟩ := firstReq_none_cons hfr
              exact b1 p1' sid es' cls hp' p2 rfl hcls hns hfr'
        · simp [hs'] at h1
          constructor
          · intro sid hsid
            apply lift
            apply a1
            cases c <;> simp at h1 <;> subst h1 <;> simp <;> try exact hsid
            all_goals
              split
              · exact hsid
              · exact List.mem_cons_of_mem _ hsid
          · intro p1 sid es' cls hp' p2 hp1 hcls hns hfr
            cases p1 with
            | nil =>
              simp at hp1
              obtain ⟨⟨rfl, rfl, rfl, rfl⟩, rfl⟩ := hp1
              apply a1
              rcases hcls with rfl | rfl <;> simp at h1 <;> subst h1 <;> simp at hnq ⊢ <;> simp [hnq]
            | cons q p1' =>
              simp at hp1
              obtain ⟨rfl, rfl⟩ := hp1
              obtain ⟨hfr', hne⟩ := firstReq_none_cons hfr
              have hsne : sid ≠ s := by
                intro e
                subst e
                simp [firstReq] at hfr
              apply b1 p1' sid es' cls hp' p2 rfl hcls _ hfr'
              cases c <;> simp at h1 <;> subst h1 <;> simp [hsne, hns]
      · have hne : ∀ s es c hp, ev ≠ Ev.cHeaders s es c hp := fun s es c hp e => hch ⟨s, es, c, hp, e⟩
        obtain ⟨k1, _⟩ := stepE_keeps h1 hne
        have second : ∀ p1 sid es cls hp p2, ev :: pre' = p1 ++ Ev.cHeaders sid es cls hp :: p2 →
            (cls = ReqClass.mw ∨ cls = ReqClass.mp) → sid ∉ m.seen → firstReq sid p1 = none →
            ∃ code, Ev.sRst sid code ∈ p2 ∧ (code = 1 ∨ code = 7) := by
          intro p1 sid es cls hp p2 hp1 hcls hns hfr
          cases p1 with
          | nil =>
            simp at hp1
            exact absurd hp1.1 (hne sid es cls hp)
          | cons q p1' =>
            simp at hp1
            obtain ⟨rfl, rfl⟩ := hp1
            obtain ⟨hfr', _⟩ := firstReq_none_cons hfr
            exact b1 p1' sid es cls hp p2 rfl hcls (k1 ▸ hns) hfr'
        refine ⟨?_, second⟩
        intro sid hsid
        unfold stepE at h1
        cases ev <;> simp at h1 <;> try (subst h1; exact lift sid (a1 sid hsid))
        case cHeaders s es c hp => exact absurd rfl (hne s es c hp)
        case hStart s =>
          obtain ⟨_, rfl⟩ := h1
          exact lift sid (a1 sid hsid)
        case sRst s c =>
          subst h1
          by_cases hk : c = 1 ∨ c = 7
          · by_cases hss : sid = s
            · subst hss
              exact ⟨c, List.mem_cons_self, hk⟩
            · apply lift
              apply a1
              simp [hk, hsid, hss]
          · apply lift
            apply a1
            simpa [hk] using hsid
        case sGoaway c =>
          subst h1
          simp [Live.step] at hnq
        case sClosed =>
          subst h1
          simp [Live.step] at hnq
        case quiesce =>
          obtain ⟨_, rfl⟩ := h1
          exact lift sid (a1 sid hsid)

/-- **Monitor soundness, clause 5b.** -/
theorem accepted_malformedGetStreamError {tr : List Ev} {m : Mon} (h : Mon.run {} tr = some m) :
    MalformedGetStreamError tr := by
  intro p1 sid es cls hp p2 post hs hcls hfr hl
  have := (runE_due (run_components h).2.2.2.2 _ post hs hl).2 p1 sid es cls hp p2 rfl hcls (by simp) hfr
  exact this

/-- The literal clause 5 also wants a stream error for requests with connection-specific
fields. -/
def RejectFull (tr : List Ev) : Prop :=
  ∀ p1 sid es cls hp p2 post,
    tr = (p1 ++ Ev.cHeaders sid es cls hp :: p2) ++ Ev.quiesce :: post →
    cls ≠ ReqClass.ok → firstReq sid p1 = none →
    liveAt (p1 ++ Ev.cHeaders sid es cls hp :: p2) →
    ∃ code, Ev.sRst sid code ∈ p2

/-- a request with `connection: close` and END_STREAM, answered 400 by the server itself
(reproduced on the real server: oracle signature `connspecific-answered-400`). -/
def witness400 : List Ev :=
  [.sSettings (some 1), .cHeaders 1 true .cs true, .sHeaders 1 false, .sData 1 true, .quiesce]

theorem witness400_accepted : (Mon.run {} witness400).isSome = true := by decide

theorem reject_full_false : ¬ (∀ tr m, Mon.run {} tr = some m → RejectFull tr) := by
  intro hall
  cases hrun : Mon.run {} witness400 with
  | none => have := witness400_accepted; simp [hrun] at this
  | some m =>
    obtain ⟨c, hc⟩ := hall _ m hrun [.sSettings (some 1)] 1 true .cs true [.sHeaders 1 false, .sData 1 true] [] rfl
      (by decide) (by simp [firstReq]) (by simp [liveAt, liveFrom, List.foldl, Live.step, Live.due])
    simp at hc

/-- **Clause 5 as it holds (`reject_partial`)**: no handler start for any non-ok request, and a
stream error for the malformed ones; connection-specific requests are excluded from the stream
error claim (they are answered by the server's own 400 handler). -/
theorem reject_partial {tr : List Ev} {m : Mon} (h : Mon.run {} tr = some m) :
    OnlyGoodRequestsReachHandler tr ∧ MalformedGetStreamError tr :=
  ⟨accepted_onlyGoodRequestsReachHandler h, accepted_malformedGetStreamError h⟩

/-- **Monitor soundness**: every trace the monitor accepts satisfies the statement (clauses 1–3
–4 in full, 5 in the form the code implements). -/
theorem monitor_sound {tr : List Ev} {m : Mon} (h : Mon.run {} tr = some m) :
    NoSendAfterClose tr ∧ HandlerBound tr ∧ PingSpec tr ∧ SettingsFull tr ∧
    OnlyGoodRequestsReachHandler tr ∧ MalformedGetStreamError tr :=
  ⟨accepted_noSendAfterClose h, accepted_handlerBound h, accepted_pingSpec h, settings_holds h,
   accepted_onlyGoodRequestsReachHandler h, accepted_malformedGetStreamError h⟩


/-! # Part 2: mechanism models -/

/-! ## scheduleHandler / handlerDone -/

theorem doneLoop_spec (adv : Nat) (live : Nat → Bool) :
    ∀ (q : List QEntry) (cur c : Nat) (st left : List QEntry),
      doneLoop adv live cur q = (c, st, left) → cur ≤ adv →
      c ≤ adv ∧ c = cur + st.length ∧ left.length ≤ q.length ∧ (left ≠ [] → c = adv) ∧
      (∀ e ∈ st, live e.sid = true) := by
  intro q
  induction q with
  | nil =>
    intro cur c st left h hle
    simp [doneLoop] at h
    obtain ⟨rfl, rfl, rfl⟩ := h
    simp [hle]
  | cons e rest ih =>
    intro cur c st left h hle
    unfold doneLoop at h
    by_cases hl : live e.sid = true
    · simp [hl] at h
      by_cases hc : cur ≥ adv
      · simp [hc] at h
        obtain ⟨rfl, rfl, rfl⟩ := h
        simp
        omega
      · simp [hc] at h
        cases hr : doneLoop adv live (cur + 1) rest with
        | mk c' r2 =>
          obtain ⟨st', left'⟩ := r2
          simp [hr] at h
          obtain ⟨rfl, rfl, rfl⟩ := h
          obtain ⟨k1, k2, k3, k4, k5⟩ := ih (cur + 1) c' st' left' hr (by omega)
          refine ⟨k1, by simp; omega, by simp; omega, k4, ?_⟩
          intro x hx
          cases hx with
          | head => exact hl
          | tail _ hm => exact k5 x hm
    · simp [hl] at h
      obtain ⟨k1, k2, k3, k4, k5⟩ := ih cur c st left h hle
      exact ⟨k1, k2, by simp; omega, k4, k5⟩

/-- operations on the scheduler: a request is scheduled, or a handler goroutine has returned
(`live` = which streams still exist at that moment; arbitrary). -/
inductive SOp where
  | schedule (e : QEntry)
  | done (live : Nat → Bool)

/-- `handlerDone` runs only when a handler goroutine existed (`curHandlers > 0`). -/
def schedApply (s : Sched) : SOp → Sched
  | .schedule e => (s.schedule e).1
  | .done live => if s.cur = 0 then s else (s.done live).1

def SchedInv (s : Sched) : Prop :=
  s.cur ≤ s.adv ∧ s.queue.length ≤ unstartedFactor * s.adv + 1 ∧ (s.queue ≠ [] → s.cur = s.adv)

theorem schedInv_apply (s : Sched) (op : SOp) (h : SchedInv s) :
    SchedInv (schedApply s op) ∧ (schedApply s op).adv = s.adv := by
  obtain ⟨h1, h2, h3⟩ := h
  unfold unstartedFactor at h2
  cases op with
  | schedule e =>
    simp only [schedApply, Sched.schedule, unstartedFactor]
    by_cases hc : s.cur < s.adv
    · simp only [hc, if_true]
      refine ⟨⟨?_, ?_, ?_⟩, trivial⟩
      · show s.cur + 1 ≤ s.adv
        omega
      · show s.queue.length ≤ unstartedFactor * s.adv + 1
        unfold unstartedFactor
        exact h2
      · show s.queue ≠ [] → s.cur + 1 = s.adv
        intro hq
        have := h3 hq
        omega
    · simp only [hc, if_false]
      by_cases hq : s.queue.length > 4 * s.adv
      · simp only [hq, if_true]
        exact ⟨⟨h1, by unfold unstartedFactor; exact h2, h3⟩, trivial⟩
      · simp only [hq, if_false]
        refine ⟨⟨h1, ?_, ?_⟩, trivial⟩
        · show (s.queue ++ [e]).length ≤ unstartedFactor * s.adv + 1
          unfold unstartedFactor
          simp
          omega
        · intro _
          show s.cur = s.adv
          omega
  | done live =>
    simp only [schedApply]
    by_cases hz : s.cur = 0
    · simp only [hz, if_true]
      exact ⟨⟨h1, by unfold unstartedFactor; exact h2, h3⟩, trivial⟩
    · simp only [hz, if_false, Sched.done]
      cases hr : doneLoop s.adv live (s.cur - 1) s.queue with
      | mk c r2 =>
        obtain ⟨st, left⟩ := r2
        obtain ⟨k1, _, k3, k4, _⟩ := doneLoop_spec s.adv live s.queue (s.cur - 1) c st left hr (by omega)
        refine ⟨⟨?_, ?_, ?_⟩, trivial⟩
        · show c ≤ s.adv
          exact k1
        · show left.length ≤ unstartedFactor * s.adv + 1
          unfold unstartedFactor
          omega
        · show left ≠ [] → c = s.adv
          exact k4

/-- **Mechanism theorem**: for every history of `scheduleHandler` / `handlerDone` calls,
`curHandlers ≤ advMaxStreams`, at most `4*advMaxStreams + 1` handlers are queued, and a handler
is only left queued while all `advMaxStreams` slots are taken. -/
theorem sched_invariant (adv : Nat) (ops : List SOp) :
    SchedInv (ops.foldl schedApply { adv := adv }) := by
  have : ∀ (ops : List SOp) (s : Sched), SchedInv s → SchedInv (ops.foldl schedApply s) := by
    intro ops
    induction ops with
    | nil => intro s h; exact h
    | cons op r ih => intro s h; exact ih _ (schedInv_apply s op h).1
  exact this ops _ ⟨by simp, by simp, by simp⟩

/-- the handler start / finish events of one scheduler operation -/
def schedEvents (s : Sched) : SOp → List Ev
  | .schedule e => match (s.schedule e).2 with
    | .started => [.hStart e.sid]
    | _ => []
  | .done live => if s.cur = 0 then [] else
      .hFinish 0 :: (s.done live).2.map (fun e => Ev.hStart e.sid)

def schedTrace : Sched → List SOp → List Ev
  | _, [] => []
  | s, op :: r => schedEvents s op ++ schedTrace (schedApply s op) r

theorem runB_starts (r adv : Nat) (l : List QEntry) (h : r + l.length ≤ adv) :
    runWith stepB ⟨r, adv⟩ (l.map (fun e => Ev.hStart e.sid)) = some ⟨r + l.length, adv⟩ := by
  induction l generalizing r with
  | nil => simp [runWith]
  | cons e t ih =>
    simp at h
    have hlt : r < adv := by omega
    simp [runWith, stepB, hlt]
    rw [ih (r + 1) (by omega)]
    simp
    omega

theorem runWith_append {σ : Type} (step : σ → Ev → Option σ) (s s1 : σ) (a b : List Ev)
    (h : runWith step s a = some s1) : runWith step s (a ++ b) = runWith step s1 b := by
  induction a generalizing s with
  | nil => simp [runWith] at h; subst h; rfl
  | cons e r ih =>
    obtain ⟨m, e1, e2⟩ := runWith_cons h
    simp [runWith, e1]
    exact ih m e2

/-- **Refinement `mechanism ⊑ monitor`**: the handler events produced by any history of the
scheduler model are accepted by the handler-bound monitor for the advertised limit. -/
theorem sched_refines_monitorB (ops : List SOp) (s : Sched) (h : SchedInv s) :
    ∃ m', runWith stepB ⟨s.cur, s.adv⟩ (schedTrace s ops) = some m' := by
  induction ops generalizing s with
  | nil => exact ⟨_, rfl⟩
  | cons op r ih =>
    have hinv := schedInv_apply s op h
    obtain ⟨m', hm'⟩ := ih (schedApply s op) hinv.1
    simp only [schedTrace]
    suffices hstep : runWith stepB ⟨s.cur, s.adv⟩ (schedEvents s op) = some ⟨(schedApply s op).cur, (schedApply s op).adv⟩ by
      exact ⟨m', by rw [runWith_append _ _ _ _ _ hstep]; exact hm'⟩
    obtain ⟨h1, h2, h3⟩ := h
    cases op with
    | schedule e =>
      simp only [schedEvents, schedApply, Sched.schedule]
      by_cases hc : s.cur < s.adv
      · simp [hc, runWith, stepB]
      · simp [hc]
        by_cases hq : s.queue.length > unstartedFactor * s.adv <;> simp [hq, runWith]
    | done live =>
      simp only [schedEvents, schedApply]
      by_cases hz : s.cur = 0
      · simp [hz, runWith]
      · simp [hz, Sched.done]
        cases hr : doneLoop s.adv live (s.cur - 1) s.queue with
        | mk c r2 =>
          obtain ⟨st, left⟩ := r2
          obtain ⟨k1, k2, _, _, _⟩ := doneLoop_spec s.adv live s.queue (s.cur - 1) c st left hr (by omega)
          simp [runWith, stepB, hz]
          rw [runB_starts (s.cur - 1) s.adv st (by omega)]
          simp
          omega

/-! ## the serve loop's accounting -/

/-- invariant of the accounting model for the advertised limit `adv` -/
def SrvInv (adv : Nat) (s : Srv) : Prop :=
  s.sched.adv = adv ∧ s.sched.cur ≤ adv ∧ s.running.length ≤ s.sched.cur ∧ s.streams.length ≤ adv

theorem inv_close {adv : Nat} {s : Srv} (h : SrvInv adv s) (sid : Nat) : SrvInv adv (s.closeStream sid) := by
  obtain ⟨h0, h1, h2, h3⟩ := h
  have : (s.streams.filter (fun t => t.sid != sid)).length ≤ s.streams.length := List.length_filter_le _ _
  exact ⟨h0, h1, h2, by show (s.streams.filter _).length ≤ adv; omega⟩

theorem inv_conn {adv : Nat} {s : Srv} (h : SrvInv adv s) (c : Nat) : SrvInv adv (s.connError c).1 := h

theorem inv_map {adv : Nat} {s : Srv} (h : SrvInv adv s) (f : Strm → Strm) :
    SrvInv adv { s with streams := s.streams.map f } := by
  obtain ⟨h0, h1, h2, h3⟩ := h
  exact ⟨h0, h1, h2, by simpa using h3⟩

theorem inv_drain {adv : Nat} (fuel : Nat) : ∀ (s : Srv), SrvInv adv s → SrvInv adv (Srv.drain fuel s).1 := by
  induction fuel with
  | zero => intro s h; exact h
  | succ n ih =>
    intro s h
    unfold Srv.drain
    cases hq : s.sched.queue with
    | nil => exact h
    | cons e rest =>
      obtain ⟨h0, h1, h2, h3⟩ := h
      have hdrop : SrvInv adv { s with sched := { s.sched with queue := rest } } := ⟨h0, h1, h2, h3⟩
      simp only
      by_cases hs : s.hasStream e.sid = true
      · simp only [hs, Bool.not_true, Bool.false_eq_true, if_false]
        by_cases hc : s.sched.cur ≥ s.sched.adv
        · simp only [hc, if_true]
          exact ⟨h0, h1, h2, h3⟩
        · simp only [hc, if_false]
          cases hk : e.kind with
          | user =>
            exact ih { s with sched := { s.sched with queue := rest, cur := s.sched.cur + 1 }, running := s.running ++ [e.sid] }
              ⟨h0, by show s.sched.cur + 1 ≤ adv; omega, by show (s.running ++ [e.sid]).length ≤ s.sched.cur + 1; simp; omega, h3⟩
          | internal =>
            exact ih _ (inv_close hdrop e.sid)
      · simp only [hs, Bool.not_false, if_true]
        exact ih _ hdrop

/-- `handlerDone` when one more goroutine is counted than user handlers are recorded -/
theorem inv_handlerDone {adv : Nat} {s : Srv} (h0 : s.sched.adv = adv) (h1 : s.sched.cur ≤ adv)
    (h2 : s.running.length + 1 ≤ s.sched.cur) (h3 : s.streams.length ≤ adv) :
    SrvInv adv s.handlerDone.1 := by
  unfold Srv.handlerDone
  exact inv_drain _ { s with sched := { s.sched with cur := s.sched.cur - 1 } }
    ⟨h0, by show s.sched.cur - 1 ≤ adv; omega, by show s.running.length ≤ s.sched.cur - 1; omega, h3⟩

theorem inv_schedule {adv : Nat} {s : Srv} (h : SrvInv adv s) (sid : Nat) (k : HKind) :
    SrvInv adv (s.schedule sid k).1 := by
  obtain ⟨h0, h1, h2, h3⟩ := h
  unfold Srv.schedule Sched.schedule
  by_cases hc : s.sched.cur < s.sched.adv
  · simp only [hc, if_true]
    cases k with
    | user =>
      exact ⟨h0, by show s.sched.cur + 1 ≤ adv; omega,
        by show (s.running ++ [sid]).length ≤ s.sched.cur + 1; simp; omega, h3⟩
    | internal =>
      have hcl : (s.streams.filter (fun t => t.sid != sid)).length ≤ s.streams.length := List.length_filter_le _ _
      exact inv_handlerDone (s := ({ s with sched := { s.sched with cur := s.sched.cur + 1 } } : Srv).closeStream sid)
        h0 (by show s.sched.cur + 1 ≤ adv; omega) (by show s.running.length + 1 ≤ s.sched.cur + 1; omega)
        (by show (s.streams.filter _).length ≤ adv; omega)
  · simp only [hc, if_false]
    by_cases hq : s.sched.queue.length > unstartedFactor * s.sched.adv
    · simp only [hq, if_true]
      exact ⟨h0, h1, h2, h3⟩
    · simp only [hq, if_false]
      exact ⟨h0, h1, h2, h3⟩

theorem inv_onHeaders {adv : Nat} {s : Srv} (h : SrvInv adv s) (sid : Nat) (es : Bool) (cls : ReqClass)
    (hp hd early : Bool) : SrvInv adv (s.onHeaders sid es cls hp hd early).1 := by
  unfold Srv.onHeaders
  split
  · exact inv_conn h 1
  split
  · exact inv_close h sid
  split
  · exact h
  split
  · exact inv_conn h 1
  split
  · split
    · exact inv_close h sid
    · split
      · exact inv_close h sid
      · exact inv_map h _
  · split
    · exact inv_conn h 1
    · obtain ⟨h0, h1, h2, h3⟩ := h
      simp only
      split
      · exact ⟨h0, h1, h2, h3⟩
      · rename_i hlim
        split
        · exact ⟨h0, h1, h2, h3⟩
        · apply inv_schedule
          refine ⟨h0, h1, h2, ?_⟩
          show (s.streams ++ [(⟨sid, es, hd⟩ : Strm)]).length ≤ adv
          have : ¬ (s.streams.length + 1 > s.sched.adv) := hlim
          simp
          omega

theorem inv_onHandlerExit {adv : Nat} {s : Srv} (h : SrvInv adv s) (sid : Nat) (p : Bool) :
    SrvInv adv (s.onHandlerExit sid p).1 := by
  obtain ⟨h0, h1, h2, h3⟩ := h
  unfold Srv.onHandlerExit
  by_cases hr : s.running.contains sid = true
  · simp only [hr, Bool.not_true, Bool.false_eq_true, if_false]
    have hmem : sid ∈ s.running := by simpa using hr
    have hlen : (s.running.erase sid).length + 1 = s.running.length := by
      rw [List.length_erase_of_mem hmem]
      have : 0 < s.running.length := List.length_pos_of_mem hmem
      omega
    split
    · exact inv_handlerDone (s := { s with running := s.running.erase sid }) h0 h1
        (by show (s.running.erase sid).length + 1 ≤ s.sched.cur; omega) h3
    · have hcl : (s.streams.filter (fun t => t.sid != sid)).length ≤ s.streams.length := List.length_filter_le _ _
      exact inv_handlerDone (s := ({ s with running := s.running.erase sid } : Srv).closeStream sid) h0 h1
        (by show (s.running.erase sid).length + 1 ≤ s.sched.cur; omega)
        (by show (s.streams.filter _).length ≤ adv; omega)
  · simp only [hr, Bool.not_false, if_true]
    exact ⟨h0, h1, h2, h3⟩

theorem inv_step {adv : Nat} {s : Srv} (h : SrvInv adv s) (i : In) : SrvInv adv (s.step i).1 := by
  have arm : ∀ t : Srv, SrvInv adv t → SrvInv adv t.armTimer := by
    intro t ht
    unfold Srv.armTimer
    split
    · exact ht
    · exact ht
  have core : SrvInv adv (s.stepCore i).1 := by
    cases i <;> simp only [Srv.stepCore]
    case headers sid es cls hp hd early =>
      split
      · exact h
      · exact inv_onHeaders h sid es cls hp hd early
    case handlerWrite sid =>
      unfold Srv.onHandlerWrite
      split
      · split
        · exact inv_close h sid
        · exact h
      · exact h
    case data sid es =>
      split
      · exact h
      · unfold Srv.onData
        split
        · exact h
        split
        · exact inv_conn h 1
        split
        · exact h
        · split
          · exact inv_close h sid
          · split
            · exact inv_map h _
            · exact h
    case rst sid =>
      split
      · exact h
      · unfold Srv.onRst
        split
        · exact inv_conn h 1
        split
        · exact h
        split
        · exact inv_conn h 1
        · exact inv_close h sid
    case ping d =>
      split
      · exact h
      · exact h
    case pingAck => exact h
    case settings v =>
      split
      · exact h
      · split
        · exact h
        · exact inv_conn h v
    case settingsAck =>
      split
      · exact h
      · split
        · exact inv_conn h 1
        · exact h
    case windowUpdate sid inc =>
      split
      · exact h
      · unfold Srv.onWindowUpdate
        split
        · split
          · exact inv_conn h 1
          · exact h
        split
        · exact inv_close h sid
        split
        · exact h
        split
        · exact inv_conn h 1
        · exact h
    case priority sid dep =>
      split
      · exact h
      · unfold Srv.onPriority
        split
        · exact inv_conn h 1
        split
        · exact h
        split
        · exact inv_close h sid
        · exact h
    case goaway =>
      split
      · exact h
      · split
        · exact h
        · exact h
    case handlerExit sid p => exact inv_onHandlerExit h sid p
    case sleep ms =>
      obtain ⟨h0, h1, h2, h3⟩ := h
      split
      · split
        · exact ⟨h0, h1, h2, by show ([] : List Strm).length ≤ adv; simp⟩
        · exact ⟨h0, h1, h2, h3⟩
      · exact ⟨h0, h1, h2, h3⟩
  unfold Srv.step
  split
  · exact h
  · exact arm _ core

/-- run the accounting model over a history of client frames and handler completions -/
def srvRun (s : Srv) (ins : List In) : Srv := ins.foldl (fun s i => (s.step i).1) s

/-- **Mechanism theorem (serve loop)**: for every history of client frames and handler
completions, the user handlers running never exceed `curHandlers`, which never exceeds the
advertised limit, and at most `advMaxStreams` client streams are open. -/
theorem srv_bounds (adv : Nat) (ins : List In) :
    (srvRun (Srv.init adv) ins).running.length ≤ adv ∧
    (srvRun (Srv.init adv) ins).sched.cur ≤ adv ∧
    (srvRun (Srv.init adv) ins).streams.length ≤ adv := by
  have : ∀ (ins : List In) (s : Srv), SrvInv adv s → SrvInv adv (srvRun s ins) := by
    intro ins
    induction ins with
    | nil => intro s h; exact h
    | cons i r ih => intro s h; exact ih _ (inv_step h i)
  obtain ⟨_, k1, k2, k3⟩ := this ins (Srv.init adv) ⟨rfl, by simp [Srv.init], by simp [Srv.init], by simp [Srv.init]⟩
  exact ⟨by omega, k1, k3⟩

/-- **Decision logic**: a malformed request never reaches `scheduleHandler`: the scheduler state
and the set of running handlers are untouched. -/
theorem malformed_never_scheduled (s : Srv) (sid : Nat) (es : Bool) (cls : ReqClass) (hp hd early : Bool)
    (hc : cls = ReqClass.mw ∨ cls = ReqClass.mp) :
    (s.onHeaders sid es cls hp hd early).1.sched = s.sched ∧
    (s.onHeaders sid es cls hp hd early).1.running = s.running := by
  unfold Srv.onHeaders
  rcases hc with rfl | rfl
  · by_cases he : early = true <;> simp [he, Srv.connError, Srv.closeStream]
  · simp
    split
    · simp
    split
    · simp [Srv.connError]
    split
    · split
      · simp [Srv.closeStream]
      · split <;> simp [Srv.closeStream]
    · split
      · simp [Srv.connError]
      · split <;> simp

/-- a request is classified `ok` only if none of the three rejecting checks fires; in
particular it carries no connection-specific field and TE is absent, empty or "trailers". -/
theorem classify_ok_iff (fs : List Field) :
    classify fs = ReqClass.ok ↔ (wireInvalid fs = false ∧ pseudoInvalid fs = false ∧ connSpecific fs = false) := by
  unfold classify
  cases wireInvalid fs <;> cases pseudoInvalid fs <;> cases connSpecific fs <;> simp

theorem classify_ok_no_connection_header (fs : List Field) (h : classify fs = ReqClass.ok) :
    ∀ f ∈ regularFields fs, connHeadersLower.contains f.name = false := by
  have := ((classify_ok_iff fs).mp h).2.2
  unfold connSpecific at this
  simp at this
  intro f hf
  have := this.1 f hf
  simpa using this


/-! ## malformed requests as RFC 9113 8.1.1 defines them vs. what the server rejects -/

/-- malformed as far as modelled: invalid on the wire, invalid pseudo-header set, or a malformed
content-length -/
def Malformed (fs : List Field) (endStream : Bool) : Bool :=
  wireInvalid fs || pseudoInvalid fs || clBad fs endStream

/-- Clause 5 for the whole of `Malformed`: every malformed request is classified for rejection with a
stream error (and therefore, by `monitor_sound`, never reaches the handler). -/
def MalformedRejectedStatement : Prop :=
  ∀ fs es, Malformed fs es = true → classify fs = ReqClass.mw ∨ classify fs = ReqClass.mp

private def fGetCL : List Field :=
  [⟨58 :: sMethod, [71, 69, 84]⟩, ⟨58 :: sScheme, sHttps⟩, ⟨58 :: sPath, [47]⟩, ⟨[120, 45, 115, 105, 100], [49]⟩,
   ⟨sContentLength, [97, 98, 99]⟩]    -- content-length: abc

/-- FALSE of the unchanged code: `content-length: abc` is malformed and classified `ok` — the request
reaches the handler (reproduced on the real server: oracle signature
`bad-content-length-reaches-handler`). -/
theorem malformed_full_false : ¬ MalformedRejectedStatement := by
  intro h
  have := h fGetCL false (by decide)
  revert this
  decide

/-- the excluded region: malformed ONLY through its content-length -/
def clOnly (fs : List Field) (endStream : Bool) : Bool :=
  !wireInvalid fs && !pseudoInvalid fs && clBad fs endStream

/-- Outside that region the clause holds. -/
theorem malformed_holds_partial (fs : List Field) (es : Bool) (hm : Malformed fs es = true)
    (hx : clOnly fs es = false) : classify fs = ReqClass.mw ∨ classify fs = ReqClass.mp := by
  unfold Malformed at hm
  unfold clOnly at hx
  unfold classify
  cases hw : wireInvalid fs
  · cases hp : pseudoInvalid fs
    · simp [hw, hp] at hm hx
      simp [hm] at hx
    · simp [hp]
  · simp

/-- non-vacuity: a well-formed content-length is not in the region; the three reported shapes are -/
example : clBad (fGetCL.dropLast ++ [⟨sContentLength, [48]⟩]) true = false := by decide
example : clBad (fGetCL.dropLast ++ [⟨sContentLength, [53]⟩]) true = true := by decide            -- 5 with END_STREAM
example : clBad (fGetCL.dropLast ++ [⟨sContentLength, [51]⟩, ⟨sContentLength, [52]⟩]) false = true := by decide  -- 3, 4
example : clOnly fGetCL false = true := by decide

/-! ## T-tie: constants, comparison operators and tables regenerated from server.go -/

theorem gen_limits_eq :
    NetVerif.Gen.C15.maxQueuedControlFrames = maxQueuedControlFrames ∧
    NetVerif.Gen.C15.defaultMaxStreams = defaultMaxStreams ∧
    NetVerif.Gen.C15.unstartedFactor = unstartedFactor := ⟨rfl, rfl, rfl⟩

/-- the comparisons the models hard-wire: `curHandlers < maxHandlers` (schedule),
`len(unstartedHandlers) > 4*advMaxStreams`, `curHandlers >= maxHandlers` (handlerDone break),
`queuedControlFrames > maxQueuedControlFrames`, `curClientStreams+1 > advMaxStreams`. -/
theorem gen_ops_eq :
    NetVerif.Gen.C15.slotOp = "<" ∧ NetVerif.Gen.C15.queueOp = ">" ∧ NetVerif.Gen.C15.ctlOp = ">" ∧
    NetVerif.Gen.C15.doneOp = ">=" ∧
    NetVerif.Gen.C15.streamLimitCheck = "sc.curClientStreams + 1 > sc.advMaxStreams" := by decide

theorem gen_connHeaders_eq : NetVerif.Gen.C15.connHeadersLower = connHeadersLower := by decide

theorem gen_te_eq :
    NetVerif.Gen.C15.teKeyLower = sTe ∧ NetVerif.Gen.C15.teAccepted = [sTrailers, []] := by decide

/-! ## non-vacuity -/

private def fGet : List Field :=
  [⟨58 :: sMethod, [71, 69, 84]⟩, ⟨58 :: sScheme, sHttps⟩, ⟨58 :: sPath, [47]⟩, ⟨[120, 45, 115, 105, 100], [49]⟩]

example : classify fGet = ReqClass.ok := by decide
example : classify (fGet ++ [⟨[88, 45, 85, 112], [49]⟩]) = ReqClass.mw := by decide          -- "X-Up"
example : classify (fGet.drop 1) = ReqClass.mp := by decide                                   -- no :method
example : classify (fGet ++ [⟨sTe, [103, 122, 105, 112]⟩]) = ReqClass.cs := by decide         -- te: gzip
example : classify (fGet ++ [⟨sTe, sTrailers⟩]) = ReqClass.ok := by decide
example : classify (fGet ++ [⟨[117, 112, 103, 114, 97, 100, 101], [104, 50, 99]⟩]) = ReqClass.cs := by decide  -- upgrade

/-- an accepted trace with two handlers under limit 2, a reset stream, PING and SETTINGS -/
example : (Mon.run {} [.sSettings (some 2), .cHeaders 1 false .ok true, .hStart 1, .cHeaders 3 true .ok true,
    .hStart 3, .cRst 1, .cPing 7, .sPingAck 7, .cSettings 0, .sSettingsAck, .quiesce, .hFinish 1,
    .sHeaders 3 false, .sData 3 true, .hFinish 3, .quiesce]).isSome = true := by decide
/-- rejected: a third handler under limit 2 -/
example : (Mon.run {} [.sSettings (some 2), .hStart 1, .hStart 3, .hStart 5]).isSome = false := by decide
/-- rejected: DATA after the client reset the stream -/
example : (Mon.run {} [.sSettings (some 2), .cHeaders 1 false .ok true, .hStart 1, .cRst 1, .sData 1 false]).isSome = false := by decide
/-- rejected: an unanswered PING at a live quiescent point; a handler start for a malformed request -/
example : (Mon.run {} [.sSettings (some 2), .cPing 7, .quiesce]).isSome = false := by decide
example : (Mon.run {} [.sSettings (some 2), .cHeaders 1 true .mp true, .hStart 1]).isSome = false := by decide
/-- the scheduler model queues the second request under limit 1 and starts it on `handlerDone` -/
example : (schedTrace { adv := 1 } [.schedule ⟨1, .user⟩, .schedule ⟨3, .user⟩, .done (fun _ => true)]) =
    [.hStart 1, .hFinish 0, .hStart 3] := by decide

end NetVerif.Proofs.C15
