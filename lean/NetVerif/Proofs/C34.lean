import NetVerif.Model.H3Body
namespace NetVerif.Proofs.C34
end NetVerif.Proofs.C34
