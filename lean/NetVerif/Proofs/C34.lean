import NetVerif.Model.H3Body
import NetVerif.Gen.C34
import NetVerif.Proofs.C22
/-!
C34 — HTTP/3 request/response exchange is delivered faithfully end to end.

Theorems over the model `NetVerif.Model.H3Body` (see that file for what is modelled):
* T-tie: the integer kernels regenerated from body.go / server.go / roundtrip.go equal the model's;
* writer side (`bodyWriter`, `writeBodyAndTrailer`): FIN iff supplied length = declared length;
* reader side (`bodyReader.Read`) for EVERY frame chunking and EVERY sequence of read sizes:
  bytes handed out are a prefix of the body; clean EOF iff the body has the declared length (and then
  all of it was handed out); every mismatch ends in an error;
* composition writer → stream → reader, QUIC delivery as an explicit hypothesis;
* `http.NoBody` selection: the full "never a clean EOF on mismatch" statement is FALSE for a declared
  length of 0 (known finding `declared-zero-body-ignored`), true outside that region;
* byte-level framing: `decodeMsg (encodeMsg m chunking) = m` for every chunking.
-/
namespace NetVerif.Proofs.C34
open NetVerif.Model.H3Body NetVerif.Model.VarintQuic

/-! ## T-tie: regenerated kernels = model kernels -/

theorem gen_constants_eq :
    Gen.C34.defaultBodyBufferCap = (defaultBodyBufferCap : Int) ∧
    Gen.C34.frameTypeData = (frameTypeData : Int) ∧ Gen.C34.frameTypeHeaders = (frameTypeHeaders : Int) := by
  decide

theorem gen_writer_eq (remain x : Int) :
    Gen.C34.bwTooLong remain x = some (bwTooLong remain x) ∧
    Gen.C34.bwAccount remain x = some (bwAccount remain x) ∧
    Gen.C34.bwCloseShort remain = some (bwCloseShort remain) := by
  refine ⟨rfl, ?_, rfl⟩
  unfold Gen.C34.bwAccount bwAccount
  split <;> rfl

theorem gen_reader_eq (remain x : Int) :
    Gen.C34.brShortEOF remain = some (brShort remain) ∧
    Gen.C34.brShortTrailer remain = some (brShort remain) ∧
    Gen.C34.brDataTooLong remain x = some (brDataTooLong remain x) ∧
    Gen.C34.brAccount remain x = some (brAccount remain x) ∧
    Gen.C34.brClamp remain x = some (brClamp remain x) := by
  refine ⟨rfl, rfl, rfl, ?_, ?_⟩
  · unfold Gen.C34.brAccount brAccount; split <;> rfl
  · unfold Gen.C34.brClamp brClamp; split <;> rfl

theorem gen_bodyKind_eq (cl ntr st : Int) (isHead : Bool) :
    Gen.C34.srvHasBody cl ntr = some (srvHasBody cl ntr) ∧
    Gen.C34.cliBodyLen cl isHead st = some (cliBodyLen cl isHead st) ∧
    Gen.C34.cliHasBody cl ntr = some (cliHasBody cl ntr) ∧
    Gen.C34.actualContentLength isHead cl = some (actualContentLength isHead cl) := by
  refine ⟨rfl, ?_, rfl, ?_⟩
  · unfold Gen.C34.cliBodyLen cliBodyLen
    split <;> rfl
  · unfold Gen.C34.actualContentLength actualContentLength
    cases isHead <;> simp
    split <;> rfl

theorem gen_responseWriter_eq (a b c : Int) (wrote : Bool) :
    Gen.C34.responseCanHaveBody a = some (responseCanHaveBody a) ∧
    Gen.C34.trimWrite a b = some (trimWrite a b) ∧
    Gen.C34.bbTake a b c = some (bbTake a b c) ∧
    Gen.C34.rwBuffers wrote a b c = some (rwBuffers wrote a b c) := by
  refine ⟨?_, ?_, rfl, ?_⟩
  · unfold Gen.C34.responseCanHaveBody responseCanHaveBody
    repeat' split
    all_goals rfl
  · unfold Gen.C34.trimWrite trimWrite
    split <;> rfl
  · unfold Gen.C34.rwBuffers rwBuffers
    cases wrote <;> simp

/-! ## bodyWriter -/

/-- `Write(p)` (one slice): the accounting subtracts exactly `len(p)`. -/
theorem write_single (r : Int) (c : List Nat) (hc : c ≠ []) :
    (BodyWriter.mk r).write [c] =
      if r ≥ 0 ∧ (c.length : Int) > r then ⟨⟨r⟩, 0, some .tooLong, none⟩
      else ⟨⟨if r ≥ 0 then r - c.length else r⟩, c.length, none, some c⟩ := by
  have hl : c.length ≠ 0 := by
    intro h; exact hc (List.length_eq_zero_iff.mp h)
  simp [BodyWriter.write, sumLens, hl, bwTooLong, accountLoop, bwAccount]

/-- The latent multi-slice defect of `bodyWriter.write` (running total subtracted once per slice):
with 10 bytes declared, `write(a, b)` with 3 + 3 bytes leaves `remain = 1` instead of 4.  Not
reachable at this commit: the only caller with a known length (`io.Copy` in `writeBodyAndTrailer`)
passes one slice, and the server's two-slice call has `remain = -1`. -/
theorem write_multislice_overcount :
    ((BodyWriter.mk 10).write [[1, 2, 3], [4, 5, 6]]).w.remain = 1 := by decide

private theorem copyChunks_spec (cs : List (List Nat)) : ∀ (r : Int),
    let res := copyChunks ⟨r⟩ cs
    (res.2.2 = true ↔ (r ≥ 0 ∧ (cs.flatten.length : Int) > r)) ∧
    (res.2.2 = false → res.1.remain = (if r ≥ 0 then r - cs.flatten.length else r) ∧
        res.2.1.flatten = cs.flatten) ∧
    (∃ tl, cs.flatten = res.2.1.flatten ++ tl) ∧
    (∀ p ∈ res.2.1, p ≠ []) := by
  induction cs with
  | nil => intro r; simp [copyChunks]
  | cons c cs ih =>
    intro r
    by_cases hc : c = []
    · subst hc
      have := ih r
      simpa [copyChunks] using this
    · have hl : c.length ≠ 0 := fun h => hc (List.length_eq_zero_iff.mp h)
      have hpos : 0 < c.length := Nat.pos_of_ne_zero hl
      rw [copyChunks]
      simp only [hl, if_false]
      rw [write_single r c hc]
      by_cases hlong : r ≥ 0 ∧ (c.length : Int) > r
      · simp only [hlong, and_self, if_true]
        simp only [List.flatten_cons, List.length_append]
        refine ⟨?_, ?_, ?_, ?_⟩
        · simp; omega
        · simp
        · exact ⟨c ++ cs.flatten, by simp⟩
        · simp
      · simp only [hlong, if_false]
        have hval : ∃ r', (if r ≥ 0 then r - (c.length : Int) else r) = r' ∧
            (r' ≥ 0 ↔ r ≥ 0) ∧ (r ≥ 0 → r' = r - c.length) ∧ (¬ r ≥ 0 → r' = r) := by
          by_cases hr0 : r ≥ 0
          · exact ⟨r - c.length, by simp [hr0], by omega, fun _ => rfl, fun h => absurd hr0 h⟩
          · exact ⟨r, by simp [hr0], Iff.rfl, fun h => absurd h hr0, fun _ => rfl⟩
        obtain ⟨r', hr', hge, hpos', hneg'⟩ := hval
        rw [hr']
        have := ih r'
        generalize hres : copyChunks ⟨r'⟩ cs = res at this
        obtain ⟨w', ps, e⟩ := res
        simp only at this ⊢
        obtain ⟨h1, h2, ⟨tl, h3⟩, h4⟩ := this
        simp only [List.flatten_cons, List.length_append]
        refine ⟨?_, ?_, ?_, ?_⟩
        · rw [h1]
          constructor
          · intro ⟨ha, hb⟩
            have hr0 := hge.mp ha
            have := hpos' hr0
            exact ⟨hr0, by push_cast; omega⟩
          · intro ⟨ha, hb⟩
            have := hpos' ha
            exact ⟨hge.mpr ha, by push_cast at hb; omega⟩
        · intro he
          obtain ⟨hr, hf⟩ := h2 he
          refine ⟨?_, by rw [hf]⟩
          rw [hr]
          by_cases hr0 : r ≥ 0
          · have := hpos' hr0
            have := hge.mpr hr0
            simp only [hr0, this, if_true]
            push_cast; omega
          · have := hneg' hr0
            have hn : ¬ r' ≥ 0 := fun h => hr0 (hge.mp h)
            simp only [hr0, hn, if_false]
            exact this
        · exact ⟨tl, by rw [h3]; simp⟩
        · intro p hp
          simp at hp
          rcases hp with rfl | hp
          · exact hc
          · exact h4 p hp

private theorem bodyOf_map_data {α : Type} (ps : List (List Nat)) (tl : List (Frame α)) :
    bodyOf (ps.map Frame.data ++ tl) = ps.flatten ++ bodyOf tl := by
  induction ps with
  | nil => simp
  | cons p ps ih => simp [bodyOf, ih]

private theorem trailerOf_map_data {α : Type} (ps : List (List Nat)) (tl : List (Frame α)) :
    trailerOf (ps.map Frame.data ++ tl) = trailerOf tl := by
  induction ps with
  | nil => simp
  | cons p ps ih => simp [trailerOf, ih]

/-- Sending side, all chunkings: the request stream ends with FIN (rather than RESET) exactly when
the length is unknown or the supplied bytes add up to the declared length. -/
theorem sendBody_fin_iff {α : Type} (d : Int) (chunks : List (List Nat)) (tr : Option α) :
    (sendBody d chunks tr).ending = .fin ↔ (d < 0 ∨ (chunks.flatten.length : Int) = d) := by
  have h := copyChunks_spec chunks d
  unfold sendBody
  generalize copyChunks ⟨d⟩ chunks = res at h
  obtain ⟨w, ps, failed⟩ := res
  simp only at h ⊢
  obtain ⟨h1, h2, -, -⟩ := h
  cases failed with
  | true =>
    have := h1.mp rfl
    simp [-List.length_flatten]; omega
  | false =>
    obtain ⟨hr, -⟩ := h2 rfl
    have hn : ¬ (d ≥ 0 ∧ (chunks.flatten.length : Int) > d) := fun hc => by
      have := h1.mpr hc; simp at this
    simp only [Bool.false_eq_true, if_false, BodyWriter.close, bwCloseShort, hr]
    by_cases hs : (if d ≥ 0 then d - (chunks.flatten.length : Int) else d) > 0
    · simp only [hs, decide_true, if_true]
      constructor
      · intro h; cases h
      · intro h; split at hs <;> omega
    · simp only [hs, decide_false, Bool.false_eq_true, if_false]
      have hok : d < 0 ∨ (chunks.flatten.length : Int) = d := by split at hs <;> omega
      cases tr <;> exact ⟨fun _ => hok, fun _ => rfl⟩

/-- What is on the wire: only DATA frames (none empty) and — on the FIN path — the trailers; the
DATA payloads are the supplied bytes (all of them on the FIN path, a prefix after an abort). -/
theorem sendBody_frames {α : Type} (d : Int) (chunks : List (List Nat)) (tr : Option α) :
    let s := sendBody d chunks tr
    (s.ending = .fin → bodyOf s.frames = chunks.flatten ∧ trailerOf s.frames = tr) ∧
    (s.ending = .reset → trailerOf s.frames = none) ∧
    (∃ tl, chunks.flatten = bodyOf s.frames ++ tl) := by
  have h := copyChunks_spec chunks d
  unfold sendBody
  generalize copyChunks ⟨d⟩ chunks = res at h
  obtain ⟨w, ps, failed⟩ := res
  simp only at h ⊢
  obtain ⟨-, h2, ⟨tl, h3⟩, -⟩ := h
  have hb : bodyOf (ps.map (Frame.data (α := α))) = ps.flatten := by
    simpa [bodyOf] using bodyOf_map_data (α := α) ps []
  have ht : trailerOf (ps.map (Frame.data (α := α))) = none := by
    simpa [trailerOf] using trailerOf_map_data (α := α) ps []
  cases failed with
  | true => simp [ht, hb]; exact ⟨tl, h3⟩
  | false =>
    obtain ⟨-, hf⟩ := h2 rfl
    simp only [Bool.false_eq_true, if_false]
    cases hcl : w.close with
    | some e => simp [ht, hb]; exact ⟨tl, h3⟩
    | none =>
      cases tr with
      | none => simp [ht, hb, hf]
      | some t =>
        simp [bodyOf_map_data, trailerOf_map_data, bodyOf, trailerOf, hf]

/-! ## bodyReader -/

/-- Unread body of a reader state: rest of the current DATA frame plus the frames not yet looked at. -/
def pend {α : Type} (r : BodyReader α) : List Nat := r.cur.getD [] ++ bodyOf r.rest

private theorem brAccount_fit (rem : Int) (n : Nat) (h : rem ≥ 0 → (n : Int) ≤ rem) :
    brAccount rem n = if rem ≥ 0 then rem - n else rem := by
  unfold brAccount
  split <;> split <;> omega

private theorem brClamp_min (k l : Nat) : (brClamp k l).toNat = min k l := by
  unfold brClamp
  split <;> omega

/-- Specification of the frame-seeking loop. -/
private theorem seek_spec {α : Type} (rem : Int) (e : StreamEnd) (fs : List (Frame α)) :
    match seek rem e fs with
    | .data p fs' => bodyOf fs = p ++ bodyOf fs' ∧ trailerOf fs = trailerOf fs' ∧
        fs'.length < fs.length ∧ (rem ≥ 0 → (p.length : Int) ≤ rem)
    | .eof t => bodyOf fs = [] ∧ rem ≤ 0 ∧ t = trailerOf fs ∧ (e = .fin ∨ t.isSome)
    | .err .errShort => bodyOf fs = [] ∧ rem > 0
    | .err .errLong => rem ≥ 0 ∧ ((bodyOf fs).length : Int) > rem
    | .err .errReset => e = .reset ∧ trailerOf fs = none ∧ bodyOf fs = []
    | .err _ => False := by
  induction fs with
  | nil =>
    cases e with
    | fin =>
      by_cases h : rem > 0
      · simp [seek, brShort, h, bodyOf]
      · simp [seek, brShort, h, bodyOf, trailerOf]; omega
    | reset => simp [seek, bodyOf, trailerOf]
  | cons f fs ih =>
    cases f with
    | headers h =>
      by_cases hr : rem > 0
      · simp [seek, brShort, hr, bodyOf]
      · simp [seek, brShort, hr, bodyOf, trailerOf]; omega
    | data p =>
      by_cases hr : rem ≥ 0 ∧ (p.length : Int) > rem
      · simp [seek, brDataTooLong, hr, bodyOf]; omega
      · simp [seek, brDataTooLong, hr, bodyOf, trailerOf]; omega
    | unknown t p =>
      simp only [seek, bodyOf, trailerOf]
      generalize seek rem e fs = s at ih ⊢
      cases s with
      | data p fs' => simp only at ih ⊢; obtain ⟨a, b, c, d⟩ := ih; exact ⟨a, b, by simp; omega, d⟩
      | eof t => exact ih
      | err e' => cases e' <;> exact ih

/-- Result of `run`, unpacked. -/
private theorem run_cons_ok {α : Type} (r r' : BodyReader α) (k : Nat) (ks : List Nat) (bs : List Nat)
    (h : r.read k = (r', bs, .ok)) :
    r.run (k :: ks) = (bs ++ (r'.run ks).1, (r'.run ks).2.1, (r'.run ks).2.2) := by
  simp [BodyReader.run, h]

private theorem run_cons_end {α : Type} (r r' : BodyReader α) (k : Nat) (ks : List Nat) (bs : List Nat)
    (e : RRes) (he : e ≠ .ok) (h : r.read k = (r', bs, e)) :
    r.run (k :: ks) = ([], some e, r'.trailer) := by
  cases e <;> simp_all [BodyReader.run]

/-- One `deliver` step. -/
private theorem deliver_eq {α : Type} (r : BodyReader α) (c : List Nat) (k : Nat)
    (hfit : r.remain ≥ 0 → (c.length : Int) ≤ r.remain) :
    deliver r c k =
      ({ r with cur := some (c.drop (min k c.length)),
                remain := if r.remain ≥ 0 then r.remain - (min k c.length : Nat) else r.remain },
       c.take (min k c.length), .ok) := by
  unfold deliver
  simp only [brClamp_min]
  rw [brAccount_fit]
  intro h
  have := hfit h
  omega

/-- The invariant-carrying specification of `run` from an arbitrary reader state. -/
private theorem run_spec {α : Type} (ks : List Nat) : ∀ (r : BodyReader α), r.err = none →
    (r.remain ≥ 0 → ((r.cur.getD []).length : Int) ≤ r.remain) →
    (∃ tl, pend r = (r.run ks).1 ++ tl) ∧
    ((r.run ks).2.1 = some .eof →
        (r.run ks).1 = pend r ∧ (r.remain < 0 ∨ r.remain = (pend r).length) ∧
        (r.run ks).2.2 = trailerOf r.rest ∧ (r.ending = .fin ∨ (trailerOf r.rest).isSome)) ∧
    ((r.run ks).2.1 = some .errShort → (r.run ks).1 = pend r ∧ r.remain > (pend r).length) ∧
    ((r.run ks).2.1 = some .errLong → r.remain ≥ 0 ∧ ((pend r).length : Int) > r.remain) ∧
    ((r.run ks).2.1 = some .errReset →
        (r.run ks).1 = pend r ∧ r.ending = .reset ∧ trailerOf r.rest = none) ∧
    (r.run ks).2.1 ≠ some .ok := by
  induction ks with
  | nil => intro r _ _; simp [BodyReader.run]
  | cons k ks ih =>
    intro r herr hfit
    -- common treatment of a `deliver` step
    have step : ∀ (r0 : BodyReader α) (c : List Nat), r0.err = none → r0.remain = r.remain →
        r0.ending = r.ending →
        (r.remain ≥ 0 → (c.length : Int) ≤ r.remain) → pend r = c ++ bodyOf r0.rest →
        trailerOf r.rest = trailerOf r0.rest → r.read k = deliver r0 c k →
        (∃ tl, pend r = (r.run (k :: ks)).1 ++ tl) ∧
        ((r.run (k :: ks)).2.1 = some .eof →
            (r.run (k :: ks)).1 = pend r ∧ (r.remain < 0 ∨ r.remain = (pend r).length) ∧
            (r.run (k :: ks)).2.2 = trailerOf r.rest ∧ (r.ending = .fin ∨ (trailerOf r.rest).isSome)) ∧
        ((r.run (k :: ks)).2.1 = some .errShort →
            (r.run (k :: ks)).1 = pend r ∧ r.remain > (pend r).length) ∧
        ((r.run (k :: ks)).2.1 = some .errLong → r.remain ≥ 0 ∧ ((pend r).length : Int) > r.remain) ∧
        ((r.run (k :: ks)).2.1 = some .errReset →
            (r.run (k :: ks)).1 = pend r ∧ r.ending = .reset ∧ trailerOf r.rest = none) ∧
        (r.run (k :: ks)).2.1 ≠ some .ok := by
      intro r0 c h0 hrem hend hc hp htr hread
      have hd := deliver_eq r0 c k (by rw [hrem]; exact hc)
      rw [hd] at hread
      obtain ⟨n, hn⟩ : ∃ n, n = min k c.length := ⟨_, rfl⟩
      rw [← hn] at hread
      obtain ⟨r', hr'⟩ : ∃ r' : BodyReader α, r' =
          ⟨if r0.remain ≥ 0 then r0.remain - (n : Nat) else r0.remain, some (c.drop n), r0.rest,
            r0.ending, r0.err, r0.trailer⟩ := ⟨_, rfl⟩
      rw [← hr'] at hread
      rw [run_cons_ok r r' k ks _ hread]
      dsimp only
      have hnle : n ≤ c.length := hn ▸ Nat.min_le_right _ _
      have hp' : pend r' = c.drop n ++ bodyOf r0.rest := by simp [pend, hr']
      have hsplit : pend r = c.take n ++ pend r' := by
        rw [hp, hp', ← List.append_assoc, List.take_append_drop]
      have hlen : (pend r).length = n + (pend r').length := by
        rw [hsplit]; simp [List.length_take, Nat.min_eq_left hnle]
      have hrem' : r'.remain = if r.remain ≥ 0 then r.remain - (n : Nat) else r.remain := by
        simp [hr', hrem]
      have hfit' : r'.remain ≥ 0 → (((r'.cur.getD []).length : Nat) : Int) ≤ r'.remain := by
        intro h
        have : (r'.cur.getD []).length = c.length - n := by simp [hr']
        rw [this, hrem'] at *
        split at h
        · have := hc (by assumption); split <;> omega
        · split <;> omega
      obtain ⟨⟨tl, i1⟩, i2, i3, i4, i5, i6⟩ := ih r' (by simp [hr', h0]) hfit'
      have hrest : r'.rest = r0.rest := by simp [hr']
      have hend' : r'.ending = r.ending := by simp [hr', hend]
      refine ⟨⟨tl, by rw [hsplit, i1, List.append_assoc]⟩, ?_, ?_, ?_, ?_, i6⟩
      · intro he
        obtain ⟨a, b, c', d⟩ := i2 he
        refine ⟨by rw [hsplit, a], ?_, by rw [c', hrest, htr], by rw [← hend', htr, ← hrest]; exact d⟩
        rw [hrem'] at b
        rw [hlen]
        split at b <;> omega
      · intro he
        obtain ⟨a, b⟩ := i3 he
        refine ⟨by rw [hsplit, a], ?_⟩
        rw [hrem'] at b
        rw [hlen]
        split at b <;> omega
      · intro he
        obtain ⟨a, b⟩ := i4 he
        rw [hrem'] at a b
        rw [hlen]
        split at a <;> omega
      · intro he
        obtain ⟨a, b, c'⟩ := i5 he
        exact ⟨by rw [hsplit, a], by rw [← hend', b], by rw [htr, ← hrest, c']⟩
    -- case analysis of `read`
    cases hcur : r.cur with
    | some cur =>
      cases cur with
      | cons c cs =>
        apply step r (c :: cs) herr rfl rfl
        · intro h; have := hfit h; simpa [hcur] using this
        · simp [pend, hcur]
        · rfl
        · simp [BodyReader.read, herr, hcur]
      | nil =>
        have hp : pend r = bodyOf r.rest := by simp [pend, hcur]
        have hs := seek_spec r.remain r.ending r.rest
        cases hsk : seek r.remain r.ending r.rest with
        | err e =>
          rw [hsk] at hs
          have hread : r.read k = ({ r with cur := none, err := some e }, [], e) := by
            simp [BodyReader.read, herr, hcur, hsk]
          cases e with
          | ok => exact hs.elim
          | eof => exact hs.elim
          | errShort =>
            rw [run_cons_end r _ k ks _ _ (by decide) hread]
            simp only at hs
            simp [hp, hs.1]; exact hs.2
          | errLong =>
            rw [run_cons_end r _ k ks _ _ (by decide) hread]
            simp only at hs
            simp [hp]; exact hs
          | errReset =>
            rw [run_cons_end r _ k ks _ _ (by decide) hread]
            simp only at hs
            simp [hp, hs.1, hs.2.1, hs.2.2]
        | eof t =>
          rw [hsk] at hs
          simp only at hs
          have hread : r.read k = ({ r with cur := none, err := some .eof, trailer := t, rest := [] }, [], .eof) := by
            simp [BodyReader.read, herr, hcur, hsk]
          rw [run_cons_end r _ k ks _ _ (by decide) hread]
          obtain ⟨a, b, c, d⟩ := hs
          simp [hp, a, c]
          refine ⟨by omega, ?_⟩
          rw [← c]; exact d
        | data p fs =>
          rw [hsk] at hs
          simp only at hs
          obtain ⟨a, b, c, d⟩ := hs
          apply step { r with rest := fs } p herr rfl rfl d
          · rw [hp, a]
          · exact b
          · simp [BodyReader.read, herr, hcur, hsk]
    | none =>
      have hp : pend r = bodyOf r.rest := by simp [pend, hcur]
      have hs := seek_spec r.remain r.ending r.rest
      cases hsk : seek r.remain r.ending r.rest with
      | err e =>
        rw [hsk] at hs
        have hread : r.read k = ({ r with cur := none, err := some e }, [], e) := by
          simp [BodyReader.read, herr, hcur, hsk]
        cases e with
        | ok => exact hs.elim
        | eof => exact hs.elim
        | errShort =>
          rw [run_cons_end r _ k ks _ _ (by decide) hread]
          simp only at hs
          simp [hp, hs.1]; exact hs.2
        | errLong =>
          rw [run_cons_end r _ k ks _ _ (by decide) hread]
          simp only at hs
          simp [hp]; exact hs
        | errReset =>
          rw [run_cons_end r _ k ks _ _ (by decide) hread]
          simp only at hs
          simp [hp, hs.1, hs.2.1, hs.2.2]
      | eof t =>
        rw [hsk] at hs
        simp only at hs
        have hread : r.read k = ({ r with cur := none, err := some .eof, trailer := t, rest := [] }, [], .eof) := by
          simp [BodyReader.read, herr, hcur, hsk]
        rw [run_cons_end r _ k ks _ _ (by decide) hread]
        obtain ⟨a, b, c, d⟩ := hs
        simp [hp, a, c]
        refine ⟨by omega, ?_⟩
        rw [← c]; exact d
      | data p fs =>
        rw [hsk] at hs
        simp only at hs
        obtain ⟨a, b, c, d⟩ := hs
        apply step { r with rest := fs } p herr rfl rfl d
        · rw [hp, a]
        · exact b
        · simp [BodyReader.read, herr, hcur, hsk]

/-- Progress measure: unread body bytes plus frames not yet looked at. -/
def mu {α : Type} (r : BodyReader α) : Nat := (pend r).length + r.rest.length

private theorem fit_after (rem : Int) (c : List Nat) (n : Nat) (hn : n ≤ c.length)
    (hc : rem ≥ 0 → (c.length : Int) ≤ rem) :
    (if rem ≥ 0 then rem - (n : Int) else rem) ≥ 0 →
      (((c.drop n).length : Nat) : Int) ≤ (if rem ≥ 0 then rem - (n : Int) else rem) := by
  intro h
  rw [List.length_drop]
  split at h
  · have := hc (by assumption); split <;> omega
  · split <;> omega

/-- Every `Read` that asks for at least one byte makes progress, so enough of them reach the end. -/
private theorem run_terminates {α : Type} (ks : List Nat) : ∀ (r : BodyReader α), r.err = none →
    (r.remain ≥ 0 → ((r.cur.getD []).length : Int) ≤ r.remain) →
    (∀ k ∈ ks, 0 < k) → mu r < ks.length → (r.run ks).2.1 ≠ none := by
  induction ks with
  | nil => intro r _ _ _ h; simp at h
  | cons k ks ih =>
    intro r herr hfit hpos hmu
    have hk : 0 < k := hpos k (by simp)
    have hpos' : ∀ k' ∈ ks, 0 < k' := fun k' h => hpos k' (by simp [h])
    have step : ∀ (r0 : BodyReader α) (c : List Nat), r0.err = none → r0.remain = r.remain →
        (r.remain ≥ 0 → (c.length : Int) ≤ r.remain) → r.read k = deliver r0 c k →
        (c.length - min k c.length) + (bodyOf r0.rest).length + r0.rest.length < ks.length →
        (r.run (k :: ks)).2.1 ≠ none := by
      intro r0 c h0 hrem hc hread hm
      rw [deliver_eq r0 c k (by rw [hrem]; exact hc)] at hread
      rw [run_cons_ok r _ k ks _ hread]
      dsimp only
      apply ih
      · exact h0
      · dsimp only
        rw [hrem]
        simpa using fit_after r.remain c (min k c.length) (Nat.min_le_right _ _) hc
      · exact hpos'
      · simp only [mu, pend, Option.getD_some, List.length_append, List.length_drop]
        omega
    have hsk : r.cur = none ∨ r.cur = some [] →
        (r.run (k :: ks)).2.1 ≠ none := by
      intro hcur
      have hp : pend r = bodyOf r.rest := by rcases hcur with h | h <;> simp [pend, h]
      have hs := seek_spec r.remain r.ending r.rest
      cases hsk : seek r.remain r.ending r.rest with
      | err e =>
        have hread : r.read k = ({ r with cur := none, err := some e }, [], e) := by
          rcases hcur with h | h <;> simp [BodyReader.read, herr, h, hsk]
        rw [hsk] at hs
        cases e with
        | ok => exact hs.elim
        | eof => exact hs.elim
        | errShort => rw [run_cons_end r _ k ks _ _ (by decide) hread]; simp
        | errLong => rw [run_cons_end r _ k ks _ _ (by decide) hread]; simp
        | errReset => rw [run_cons_end r _ k ks _ _ (by decide) hread]; simp
      | eof t =>
        have hread : r.read k = ({ r with cur := none, err := some .eof, trailer := t, rest := [] }, [], .eof) := by
          rcases hcur with h | h <;> simp [BodyReader.read, herr, h, hsk]
        rw [run_cons_end r _ k ks _ _ (by decide) hread]; simp
      | data p fs =>
        rw [hsk] at hs
        simp only at hs
        obtain ⟨a, b, c, d⟩ := hs
        apply step { r with rest := fs } p herr rfl d
        · rcases hcur with h | h <;> simp [BodyReader.read, herr, h, hsk]
        · dsimp only
          have : mu r = (bodyOf r.rest).length + r.rest.length := by simp [mu, hp]
          rw [a] at this
          simp only [List.length_append, List.length_cons] at this hmu
          omega
    cases hcur : r.cur with
    | none => exact hsk (Or.inl hcur)
    | some cur =>
      cases cur with
      | nil => exact hsk (Or.inr hcur)
      | cons c cs =>
        apply step r (c :: cs) herr rfl
        · intro h; have := hfit h; simpa [hcur] using this
        · simp [BodyReader.read, herr, hcur]
        · have : mu r = (c :: cs).length + (bodyOf r.rest).length + r.rest.length := by
            simp [mu, pend, hcur]; omega
          simp only [List.length_cons] at this hmu ⊢
          omega

private theorem mk0_pend {α : Type} (d : Int) (fs : List (Frame α)) (e : StreamEnd) :
    pend (BodyReader.mk0 d fs e) = bodyOf fs := by simp [pend, BodyReader.mk0]

/-- Reading side, all frame chunkings and all read schedules: what the caller gets is a prefix of
the body on the stream — never anything else, never more. -/
theorem read_prefix {α : Type} (d : Int) (fs : List (Frame α)) (e : StreamEnd) (ks : List Nat) :
    ∃ tl, bodyOf fs = ((BodyReader.mk0 d fs e).run ks).1 ++ tl := by
  have := (run_spec ks (BodyReader.mk0 d fs e) rfl (by intro h; simpa [BodyReader.mk0] using h)).1
  rwa [mk0_pend] at this

/-- A clean EOF is reported only after the WHOLE body was handed out, only when its length is the
declared one (or none was declared), and only at a FIN or a trailer section; the trailers are the
ones on the stream. -/
theorem read_eof_exact {α : Type} (d : Int) (fs : List (Frame α)) (e : StreamEnd) (ks : List Nat)
    (h : ((BodyReader.mk0 d fs e).run ks).2.1 = some .eof) :
    ((BodyReader.mk0 d fs e).run ks).1 = bodyOf fs ∧
    (d < 0 ∨ d = ((bodyOf fs).length : Int)) ∧
    ((BodyReader.mk0 d fs e).run ks).2.2 = trailerOf fs ∧
    (e = .fin ∨ (trailerOf fs).isSome) := by
  have := (run_spec ks (BodyReader.mk0 d fs e) rfl (by intro h; simpa [BodyReader.mk0] using h)).2.1 h
  rw [mk0_pend] at this
  exact this

/-- A body whose length disagrees with its declared Content-Length is never reported as a clean
EOF — for every chunking into DATA frames and every sequence of read sizes. -/
theorem read_mismatch_never_clean {α : Type} (d : Int) (fs : List (Frame α)) (e : StreamEnd)
    (ks : List Nat) (hd : d ≥ 0) (hne : ((bodyOf fs).length : Int) ≠ d) :
    ((BodyReader.mk0 d fs e).run ks).2.1 ≠ some .eof := by
  intro h
  have := (read_eof_exact d fs e ks h).2.1
  omega

/-- The errors mean what they say: "shorter" only when the declared length exceeds the body (and all
of the body was handed out first), "longer" only when the body exceeds it, "reset" only on a reset stream. -/
theorem read_error_sound {α : Type} (d : Int) (fs : List (Frame α)) (e : StreamEnd) (ks : List Nat) :
    (((BodyReader.mk0 d fs e).run ks).2.1 = some .errShort →
        ((BodyReader.mk0 d fs e).run ks).1 = bodyOf fs ∧ d > ((bodyOf fs).length : Int)) ∧
    (((BodyReader.mk0 d fs e).run ks).2.1 = some .errLong → d ≥ 0 ∧ ((bodyOf fs).length : Int) > d) ∧
    (((BodyReader.mk0 d fs e).run ks).2.1 = some .errReset → e = .reset ∧ trailerOf fs = none) := by
  have h := run_spec ks (BodyReader.mk0 d fs e) rfl (by intro h; simpa [BodyReader.mk0] using h)
  rw [mk0_pend] at h
  exact ⟨h.2.2.1, h.2.2.2.1, fun he => (h.2.2.2.2.1 he).2⟩

/-- Completeness for a matching (or undeclared) length on a stream that ends with FIN: any schedule
of non-empty reads that is long enough returns exactly the body, then a clean EOF, and the trailers. -/
theorem read_complete {α : Type} (d : Int) (fs : List (Frame α)) (ks : List Nat)
    (hpos : ∀ k ∈ ks, 0 < k) (hlen : (bodyOf fs).length + fs.length < ks.length)
    (hok : d < 0 ∨ d = ((bodyOf fs).length : Int)) :
    ((BodyReader.mk0 d fs .fin).run ks).1 = bodyOf fs ∧
    ((BodyReader.mk0 d fs .fin).run ks).2.1 = some .eof ∧
    ((BodyReader.mk0 d fs .fin).run ks).2.2 = trailerOf fs := by
  have hterm := run_terminates ks (BodyReader.mk0 d fs .fin) rfl
    (by intro h; simpa [BodyReader.mk0] using h) hpos (by unfold mu; rw [mk0_pend]; exact hlen)
  have hs := read_error_sound d fs .fin ks
  have hsp := run_spec ks (BodyReader.mk0 d fs .fin) rfl (by intro h; simpa [BodyReader.mk0] using h)
  cases hres : ((BodyReader.mk0 d fs .fin).run ks).2.1 with
  | none => exact absurd hres hterm
  | some e =>
    cases e with
    | ok => exact absurd hres hsp.2.2.2.2.2
    | eof =>
      have := read_eof_exact d fs .fin ks hres
      exact ⟨this.1, rfl, this.2.2.1⟩
    | errShort => have := (hs.1 hres).2; omega
    | errLong => have := hs.2.1 hres; omega
    | errReset => have := (hs.2.2 hres).1; cases this

/-- Completeness for a mismatch: any long-enough schedule of non-empty reads ends in one of the two
Content-Length errors (H3_MESSAGE_ERROR), never in a clean EOF and never by running out of data. -/
theorem read_mismatch_errors {α : Type} (d : Int) (fs : List (Frame α)) (ks : List Nat)
    (hpos : ∀ k ∈ ks, 0 < k) (hlen : (bodyOf fs).length + fs.length < ks.length)
    (hd : d ≥ 0) (hne : ((bodyOf fs).length : Int) ≠ d) :
    ((BodyReader.mk0 d fs .fin).run ks).2.1 = some .errShort ∨
    ((BodyReader.mk0 d fs .fin).run ks).2.1 = some .errLong := by
  have hterm := run_terminates ks (BodyReader.mk0 d fs .fin) rfl
    (by intro h; simpa [BodyReader.mk0] using h) hpos (by unfold mu; rw [mk0_pend]; exact hlen)
  have hs := read_error_sound d fs .fin ks
  have hsp := run_spec ks (BodyReader.mk0 d fs .fin) rfl (by intro h; simpa [BodyReader.mk0] using h)
  cases hres : ((BodyReader.mk0 d fs .fin).run ks).2.1 with
  | none => exact absurd hres hterm
  | some e =>
    cases e with
    | ok => exact absurd hres hsp.2.2.2.2.2
    | eof => exact absurd hres (read_mismatch_never_clean d fs .fin ks hd hne)
    | errShort => exact Or.inl rfl
    | errLong => exact Or.inr rfl
    | errReset => have := (hs.2.2 hres).1; cases this

/-! ## Composition: client body writer → QUIC stream → server body reader -/

/-- The assumption about QUIC (property C19): a stream hands the receiver exactly the frames that
were written, in order, followed by the same terminal event. -/
def ReliableOrdered {α : Type} (sent recv : List (Frame α) × StreamEnd) : Prop := recv = sent

/-- Request direction, every chunking of the writes and every schedule of reads: the handler only
ever sees a prefix of the supplied bytes; a clean EOF means it saw all of them, the supplied length
was the declared one and the trailers are the submitted ones; a mismatch never yields a clean EOF. -/
theorem e2e_request {α : Type} (d : Int) (chunks : List (List Nat)) (tr : Option α)
    (recv : List (Frame α) × StreamEnd)
    (hq : ReliableOrdered ((sendBody d chunks tr).frames, (sendBody d chunks tr).ending) recv)
    (ks : List Nat) :
    (∃ tl, chunks.flatten = ((BodyReader.mk0 d recv.1 recv.2).run ks).1 ++ tl) ∧
    (((BodyReader.mk0 d recv.1 recv.2).run ks).2.1 = some .eof →
        (d < 0 ∨ (chunks.flatten.length : Int) = d) ∧
        ((BodyReader.mk0 d recv.1 recv.2).run ks).1 = chunks.flatten ∧
        ((BodyReader.mk0 d recv.1 recv.2).run ks).2.2 = tr) ∧
    ((d ≥ 0 ∧ (chunks.flatten.length : Int) ≠ d) →
        ((BodyReader.mk0 d recv.1 recv.2).run ks).2.1 ≠ some .eof) := by
  unfold ReliableOrdered at hq
  subst hq
  dsimp only
  have hf := sendBody_frames d chunks tr
  dsimp only at hf
  obtain ⟨hfin, hreset, ⟨tl2, hpre⟩⟩ := hf
  have key : ((BodyReader.mk0 d (sendBody d chunks tr).frames (sendBody d chunks tr).ending).run ks).2.1
      = some .eof → (sendBody d chunks tr).ending = .fin := by
    intro he
    have := (read_eof_exact _ _ _ ks he).2.2.2
    rcases this with h | h
    · exact h
    · cases hend : (sendBody d chunks tr).ending with
      | fin => rfl
      | reset => rw [hreset hend] at h; simp at h
  refine ⟨?_, ?_, ?_⟩
  · obtain ⟨tl, h⟩ := read_prefix d (sendBody d chunks tr).frames (sendBody d chunks tr).ending ks
    exact ⟨tl ++ tl2, by rw [hpre, h, List.append_assoc]⟩
  · intro he
    have hfin' := key he
    obtain ⟨hb, ht⟩ := hfin hfin'
    have hx := read_eof_exact _ _ _ ks he
    exact ⟨(sendBody_fin_iff d chunks tr).mp hfin', by rw [hx.1, hb], by rw [hx.2.2.1, ht]⟩
  · intro ⟨hd, hne⟩ he
    have := (sendBody_fin_iff d chunks tr).mp (key he)
    omega

/-- Request direction, completeness: when the supplied length is the declared one (or none is
declared), every long-enough schedule of non-empty reads delivers exactly the supplied bytes, a
clean EOF and the submitted trailers. -/
theorem e2e_request_complete {α : Type} (d : Int) (chunks : List (List Nat)) (tr : Option α)
    (recv : List (Frame α) × StreamEnd)
    (hq : ReliableOrdered ((sendBody d chunks tr).frames, (sendBody d chunks tr).ending) recv)
    (ks : List Nat) (hpos : ∀ k ∈ ks, 0 < k)
    (hlen : chunks.flatten.length + (sendBody d chunks tr).frames.length < ks.length)
    (hok : d < 0 ∨ (chunks.flatten.length : Int) = d) :
    ((BodyReader.mk0 d recv.1 recv.2).run ks).1 = chunks.flatten ∧
    ((BodyReader.mk0 d recv.1 recv.2).run ks).2.1 = some .eof ∧
    ((BodyReader.mk0 d recv.1 recv.2).run ks).2.2 = tr := by
  unfold ReliableOrdered at hq
  subst hq
  dsimp only
  have hfin := (sendBody_fin_iff d chunks tr).mpr hok
  obtain ⟨hb, ht⟩ := (sendBody_frames d chunks tr).1 hfin
  rw [hfin]
  have := read_complete d (sendBody d chunks tr).frames ks hpos (by rw [hb]; exact hlen)
    (by rw [hb]; omega)
  rw [hb, ht] at this
  exact this

/-! ## `http.NoBody` selection — known finding `declared-zero-body-ignored` -/

/-- The full statement for the server side: whatever frames a request stream carries, a DATA total
different from the declared Content-Length is never read as a clean EOF by the handler. -/
def ServerNoSilentMismatch : Prop :=
  ∀ (cl : Int) (ntr : Nat) (fs : List (Frame Unit)) (ks : List Nat),
    cl ≥ 0 → ((bodyOf fs).length : Int) ≠ cl →
    (recvBody (serverBodyKind cl ntr) fs .fin ks).2.1 ≠ some .eof

/-- The same for the client side (response body of a status that can carry content, not to HEAD). -/
def ClientNoSilentMismatch : Prop :=
  ∀ (cl : Int) (st : Nat) (ntr : Nat) (fs : List (Frame Unit)) (ks : List Nat),
    cl ≥ 0 → st ≠ 304 → ((bodyOf fs).length : Int) ≠ cl →
    (recvBody (clientBodyKind cl false st ntr) fs .fin ks).2.1 ≠ some .eof

/-- The statement is FALSE on the code as it is: `Content-Length: 0` without declared trailers makes
both sides use `http.NoBody`, which reports a clean EOF without looking at the stream. -/
theorem serverNoSilentMismatch_full_false : ¬ ServerNoSilentMismatch := by
  intro h
  exact h 0 0 [Frame.data [7]] [1] (by decide) (by decide) (by decide)

theorem clientNoSilentMismatch_full_false : ¬ ClientNoSilentMismatch := by
  intro h
  exact h 0 200 0 [Frame.data [7]] [1] (by decide) (by decide) (by decide) (by decide)

/-- Outside the region `Content-Length = 0 ∧ no declared trailers` the statement holds. -/
theorem serverNoSilentMismatch_holds_partial (cl : Int) (ntr : Nat) (fs : List (Frame Unit))
    (ks : List Nat) (hcl : cl ≥ 0) (hne : ((bodyOf fs).length : Int) ≠ cl)
    (hregion : ¬ (cl = 0 ∧ ntr = 0)) :
    (recvBody (serverBodyKind cl ntr) fs .fin ks).2.1 ≠ some .eof := by
  have hk : serverBodyKind cl ntr = .reader cl := by
    unfold serverBodyKind srvHasBody
    simp
    omega
  rw [hk]
  exact read_mismatch_never_clean cl fs .fin ks hcl hne

theorem clientNoSilentMismatch_holds_partial (cl : Int) (st ntr : Nat) (fs : List (Frame Unit))
    (ks : List Nat) (hcl : cl ≥ 0) (hst : st ≠ 304) (hne : ((bodyOf fs).length : Int) ≠ cl)
    (hregion : ¬ (cl = 0 ∧ ntr = 0)) :
    (recvBody (clientBodyKind cl false st ntr) fs .fin ks).2.1 ≠ some .eof := by
  have hk : clientBodyKind cl false st ntr = .reader cl := by
    have hs : ¬ ((st : Int) = 304) := by omega
    unfold clientBodyKind cliHasBody cliBodyLen
    simp [hs]
    omega
  rw [hk]
  exact read_mismatch_never_clean cl fs .fin ks hcl hne

/-! ## Bodyless responses (repaired defect `bodyless-response-content-length-read-error`) -/

/-- A response to HEAD and a 304 response carry no DATA frames.  Whatever Content-Length they declare
(RFC 9110 8.6: it describes the selected representation) and whether or not trailers are announced,
the client's body reads as a clean, empty body once enough non-empty reads are made — never as
"body shorter than content-length". -/
theorem bodyless_response_reads_clean (cl : Int) (isHead : Bool) (st ntr : Nat) (fs : List (Frame Unit))
    (ks : List Nat) (hbl : isHead = true ∨ st = 304) (hno : bodyOf fs = [])
    (hpos : ∀ k ∈ ks, 0 < k) (hlen : fs.length < ks.length) :
    recvBody (clientBodyKind cl isHead st ntr) fs .fin ks =
      ([], some .eof, (match clientBodyKind cl isHead st ntr with | .noBody => none | .reader _ => trailerOf fs)) := by
  have hb : cliBodyLen cl isHead st = 0 := by
    unfold cliBodyLen
    have : isHead = true ∨ (st : Int) = 304 := by rcases hbl with h | h <;> simp [h]
    simp [this]
  unfold clientBodyKind
  simp only [hb]
  by_cases hk : cliHasBody 0 ntr = true
  · simp only [hk, if_true, recvBody]
    have := read_complete (0 : Int) fs ks hpos (by rw [hno]; simpa using hlen) (by rw [hno]; simp)
    rw [hno] at this
    obtain ⟨a, b, c⟩ := this
    exact Prod.ext a (Prod.ext b c)
  · simp only [hk, recvBody]
    cases ks with
    | nil => simp at hlen
    | cons k ks => simp

/-- The old failing input: the handler sets `Content-Length: 10` and answers 304 — no DATA on the
wire; the client now reads a clean empty body. -/
example :
    let evs := (respond (α := Unit) false 10 (some 304) [] none).1
    evFrames evs = [] ∧ recvBody (clientBodyKind 10 false 304 0) (evFrames evs) .fin [1] = ([], some .eof, none) := by
  decide

/-- A bodyless response that nevertheless carries DATA while trailers are announced is an error. -/
example :
    (recvBody (clientBodyKind 3 true 200 1) [Frame.data [1, 2, 3], Frame.headers ()] .fin [9, 9]).2.1
      = some .errLong := by
  decide

/-! ## Interim (1xx) responses (repaired defect: an unsolicited 100 was returned as the final response) -/

/-- The client's response-header loop skips every interim response, whatever their number and
statuses (also a 100 the request did not ask for): what it returns is decided by the rest alone. -/
theorem clientFinal_skips_interim {α : Type} (interim : List Nat) (es : List (Ev α)) :
    clientFinal (interimEvents interim ++ es) = clientFinal es := by
  induction interim with
  | nil => simp [interimEvents]
  | cons st sts ih =>
    have : interimEvents (st :: sts) ++ es = Ev.infoHeaders st :: Ev.flush :: (interimEvents sts ++ es) := by
      simp [interimEvents]
    rw [this]
    simp only [clientFinal]
    exact ih

/-- End to end: a handler that sends interim responses first (`w.WriteHeader(100)`, `(103)`, …) is
seen by the client exactly like the same handler without them — same final status, same body part,
same `Write` results. -/
theorem respondInterim_same_final {α : Type} (isHead : Bool) (d : Int) (interim : List Nat)
    (ex : Option Nat) (ops : List HOp) (tr : Option α) :
    clientFinal (respondInterim isHead d interim ex ops tr).1 = clientFinal (respond isHead d ex ops tr).1 ∧
    (respondInterim isHead d interim ex ops tr).2 = (respond isHead d ex ops tr).2 := by
  exact ⟨clientFinal_skips_interim interim _, rfl⟩

/-- The old failing input: `w.WriteHeader(100); w.WriteHeader(200); w.Write(body)` to a GET without
`Expect: 100-continue` — the client's response is the 200 with the body. -/
example :
    (clientFinal (respondInterim (α := Unit) false (-1) [100] (some 200) [.write [1, 2, 3]] none).1).map
        (fun r => (r.1, bodyOf (evFrames r.2))) = some (200, [1, 2, 3]) := by
  decide

/-! ## Byte-level framing and message composition -/

private theorem appendVarint_ne_nil (v : Nat) (a : List Nat) (h : appendVarint v = some a) : a ≠ [] := by
  unfold appendVarint at h
  repeat' split at h
  all_goals simp at h
  all_goals subst h
  all_goals simp

/-- One frame: `readFrameHeader` + payload undoes `writeVarint(type); writeVarint(len); Write(payload)`,
whatever follows on the stream. -/
theorem decFrame_encFrame (t : Nat) (p bytes tail : List Nat) (h : encFrame t p = some bytes) :
    decFrame (bytes ++ tail) = some (t, p, bytes.length) ∧ bytes ≠ [] := by
  unfold encFrame at h
  cases ha : appendVarint t with
  | none => simp [ha] at h
  | some a =>
    cases hb : appendVarint p.length with
    | none => simp [ha, hb] at h
    | some b =>
      simp [ha, hb] at h
      subst h
      have h1 := NetVerif.Proofs.C22.consume_append t a (b ++ p ++ tail) ha
      have h2 := NetVerif.Proofs.C22.consume_append p.length b (p ++ tail) hb
      have hne := appendVarint_ne_nil t a ha
      refine ⟨?_, by simp [hne]⟩
      unfold decFrame
      have e1 : a ++ (b ++ p) ++ tail = a ++ (b ++ p ++ tail) := by simp
      rw [e1, h1]
      simp only [List.drop_left]
      have e2 : b ++ p ++ tail = b ++ (p ++ tail) := by simp
      rw [e2, h2]
      simp only [List.drop_left]
      simp
      omega

/-- A complete stream of frames splits back into exactly the frames written. -/
theorem decFrames_encRaw (rs : List (Nat × List Nat)) : ∀ (bytes : List Nat), encRaw rs = some bytes →
    ∀ fuel, bytes.length ≤ fuel → decFrames fuel bytes = some rs := by
  induction rs with
  | nil =>
    intro bytes h fuel _
    simp [encRaw] at h
    subst h
    cases fuel <;> simp [decFrames]
  | cons r rs ih =>
    intro bytes h fuel hf
    obtain ⟨t, p⟩ := r
    unfold encRaw at h
    cases ha : encFrame t p with
    | none => simp [ha] at h
    | some a =>
      cases hb : encRaw rs with
      | none => simp [ha, hb] at h
      | some b =>
        simp [ha, hb] at h
        subst h
        obtain ⟨hd, hne⟩ := decFrame_encFrame t p a b ha
        cases hab : a ++ b with
        | nil => simp at hab; exact absurd hab.1 hne
        | cons x xs =>
          cases fuel with
          | zero => rw [hab] at hf; simp at hf
          | succ fuel =>
            rw [decFrames, ← hab, hd]
            simp only [List.drop_left]
            rw [ih b hb fuel (by
              have : 0 < a.length := List.length_pos_iff.mpr hne
              simp at hf; omega)]

private theorem decRest_chunks {α : Type} (encF : α → List Nat) (decF : List Nat → Option α)
    (hF : ∀ f, decF (encF f) = some f) (chunks : List (List Nat)) (tr : Option α) :
    decRest decF ((chunks.map fun c => (frameTypeData, c)) ++ trailerRaw encF tr) =
      some (chunks.flatten, tr) := by
  induction chunks with
  | nil =>
    cases tr with
    | none => simp [decRest, trailerRaw]
    | some t => simp [decRest, trailerRaw, frameTypeData, frameTypeHeaders, hF]
  | cons c cs ih =>
    simp only [List.map_cons, List.cons_append, decRest, if_true, ih, List.flatten_cons]

/-- Message composition: for EVERY chunking of the body into DATA frames, decoding the encoded
message returns the field section, the concatenated body and the trailers.  The field-section codec
(QPACK, C33) enters as the hypothesis `decF (encF f) = some f`; `sent` is what the reader's stream
delivers (QUIC as a reliable ordered byte stream, C19). -/
theorem decode_encode {α : Type} (encF : α → List Nat) (decF : List Nat → Option α)
    (hF : ∀ f, decF (encF f) = some f) (fields : α) (chunks : List (List Nat)) (tr : Option α)
    (sent : List Nat) (hs : encodeMsg encF fields chunks tr = some sent) :
    decodeMsg decF sent = some ⟨fields, chunks.flatten, tr⟩ := by
  unfold encodeMsg at hs
  have := decFrames_encRaw _ sent hs sent.length (Nat.le_refl _)
  unfold decodeMsg
  rw [this]
  simp only [rawOfMsg, List.cons_append, if_true, hF]
  rw [decRest_chunks encF decF hF]

/-- `encode` is defined (no "varint too large" panic) whenever every payload is shorter than 2^62. -/
theorem encode_defined {α : Type} (encF : α → List Nat) (fields : α) (chunks : List (List Nat))
    (tr : Option α) (hf : (encF fields).length ≤ maxVarint) (hc : ∀ c ∈ chunks, c.length ≤ maxVarint)
    (ht : ∀ t, tr = some t → (encF t).length ≤ maxVarint) :
    (encodeMsg encF fields chunks tr).isSome := by
  have encFrame_some : ∀ (t : Nat) (p : List Nat), t ≤ 1 → p.length ≤ maxVarint → (encFrame t p).isSome := by
    intro t p ht hp
    unfold encFrame
    have h1 := (NetVerif.Proofs.C22.append_accepts_iff t).mpr (by unfold maxVarint; omega)
    have h2 := (NetVerif.Proofs.C22.append_accepts_iff p.length).mpr hp
    cases ha : appendVarint t <;> cases hb : appendVarint p.length <;> simp_all
  have encRaw_some : ∀ rs : List (Nat × List Nat), (∀ r ∈ rs, r.1 ≤ 1 ∧ r.2.length ≤ maxVarint) →
      (encRaw rs).isSome := by
    intro rs
    induction rs with
    | nil => intro _; simp [encRaw]
    | cons r rs ih =>
      intro h
      obtain ⟨t, p⟩ := r
      have h1 := encFrame_some t p (h (t, p) (by simp)).1 (h (t, p) (by simp)).2
      have h2 := ih (fun r hr => h r (by simp [hr]))
      unfold encRaw
      cases ha : encFrame t p <;> cases hb : encRaw rs <;> simp_all
  unfold encodeMsg
  apply encRaw_some
  intro r hr
  simp only [rawOfMsg, List.cons_append, List.mem_cons, List.mem_append, List.mem_map] at hr
  rcases hr with rfl | ⟨c, hc', rfl⟩ | hr
  · exact ⟨by simp [frameTypeHeaders], hf⟩
  · exact ⟨by simp [frameTypeData], hc c hc'⟩
  · cases tr with
    | none => simp [trailerRaw] at hr
    | some t =>
      simp [trailerRaw] at hr
      subst hr
      exact ⟨by simp [frameTypeHeaders], ht t rfl⟩

/-! ## Non-vacuity: the hypotheses are satisfiable by concrete, non-trivial values and the model
computes the expected results on them. -/

/-- declared 5, written as 2 + 3 with trailers: FIN; read with sizes 1,1,… : the 5 bytes, EOF, trailers. -/
example :
    let s := sendBody (α := Nat) 5 [[1, 2], [], [3, 4, 5]] (some 9)
    s.ending = .fin ∧ s.frames = [.data [1, 2], .data [3, 4, 5], .headers 9] ∧
    (BodyReader.mk0 5 s.frames s.ending).run [1, 1, 1, 1, 1, 1, 1, 1, 1] = ([1, 2, 3, 4, 5], some .eof, some 9) := by
  decide

/-- declared 5, only 4 supplied: RESET after the data; the reader ends in an error, never EOF. -/
example :
    let s := sendBody (α := Nat) 5 [[1, 2], [3, 4]] none
    s.ending = .reset ∧ ((BodyReader.mk0 5 s.frames s.ending).run [9, 9, 9, 9]).2.1 = some .errReset := by
  decide

/-- raw peer: declared 3, DATA total 4 (longer) and declared 5, DATA total 4 (shorter). -/
example :
    ((BodyReader.mk0 (α := Nat) 3 [.data [1, 2], .unknown 33 [0], .data [3, 4]] .fin).run [8, 8, 8]).2.1 = some .errLong ∧
    (BodyReader.mk0 (α := Nat) 5 [.data [1, 2], .data [3, 4]] .fin).run [8, 8, 8, 8] =
      ([1, 2, 3, 4], some .errShort, none) := by
  decide

/-- responseWriter: Content-Length 3, the handler writes 2 + 2 bytes: the second write is trimmed. -/
example :
    respond (α := Nat) false 3 none [.write [1, 2], .write [3, 4]] none =
      ([.respHeaders 200, .frame (.data [1, 2, 3]), .flush, .fin], [(2, .nil), (1, .contentLength)]) := by
  decide

/-- byte level: HEADERS "h", DATA "ab", DATA "c", trailing HEADERS "t" (identity field codec). -/
example :
    encodeMsg (α := List Nat) id [104] [[97, 98], [99]] (some [116]) =
      some [1, 1, 104, 0, 2, 97, 98, 0, 1, 99, 1, 1, 116] ∧
    decodeMsg (α := List Nat) some [1, 1, 104, 0, 2, 97, 98, 0, 1, 99, 1, 1, 116] =
      some ⟨[104], [97, 98, 99], some [116]⟩ := by
  decide

end NetVerif.Proofs.C34
