import NetVerif.Model.AckState
import NetVerif.Gen.C25
import NetVerif.Proofs.C24
import NetVerif.Proofs.C26
import NetVerif.Model.AckWire
/-!
C25 — QUIC acknowledges only received packets and never processes one twice.

Part 1 (`ackState`): histories of packet arrivals (`arrive` = what conn_recv.go does:
`if shouldProcess(num) { …process…; receive(num) }`), ACK-of-ACK (`handleAck`) and `sentAck`,
with ghost lists of everything that arrived and everything that was processed.
The set semantics of the rangeset operations come from the C24 theorems.
-/
namespace NetVerif.Proofs.C25
open NetVerif NetVerif.Model.AckState NetVerif.Model.Rangeset
open NetVerif.Proofs.C24 (Mem WF Chain)

/-! ## histories with ghost state -/

structure Hist where
  a : Acks := {}
  received : List Int := []    -- every packet number that arrived (any number of times)
  processed : List Int := []   -- every packet number handed to the connection, newest first

inductive Ev where
  | arrive (n : Int) (ackEliciting : Bool)
  | handleAck (largest : Int)
  | sentAck

def Hist.step (h : Hist) : Ev → Hist
  | .arrive n ae =>
    { a := (arrive h.a n ae).1, received := n :: h.received,
      processed := if (arrive h.a n ae).2 then n :: h.processed else h.processed }
  | .handleAck la => { h with a := handleAck h.a la }
  | .sentAck => { h with a := sentAck h.a }

def Hist.run (h : Hist) (evs : List Ev) : Hist := evs.foldl Hist.step h

/-- Packet numbers are 62-bit non-negative. -/
def Ev.Valid : Ev → Prop
  | .arrive n _ => 0 ≤ n ∧ n < 2^62
  | _ => True

structure Inv (h : Hist) : Prop where
  wf : WF h.a.seen
  range : ∀ x, Mem h.a.seen x → 0 ≤ x ∧ x < 2^62
  seen_proc : ∀ x, Mem h.a.seen x → x ∈ h.processed
  proc_recv : ∀ x ∈ h.processed, x ∈ h.received
  proc_cov : ∀ x ∈ h.processed, Mem h.a.seen x ∨ x < Model.Rangeset.min h.a.seen
  proc_nonneg : ∀ x ∈ h.processed, 0 ≤ x
  nodup : h.processed.Nodup
  len : h.a.seen.length ≤ maxAckRanges

/-! ## lemmas about dropping the oldest ranges -/

private theorem removeranges_zero (l : RS) (k : Nat) : removeranges l 0 k = l.drop k := by
  unfold removeranges
  by_cases h : 0 = k
  · subst h; simp
  · simp [h]

private theorem chain_drop (l : RS) : ∀ (b : Int) (k : Nat), Chain b l → ∃ b', b ≤ b' ∧ Chain b' (l.drop k) := by
  induction l with
  | nil => intro b k h; exact ⟨b, Int.le_refl _, by simpa using h⟩
  | cons r rest ih =>
    intro b k h
    cases k with
    | zero => exact ⟨b, Int.le_refl _, by simpa using h⟩
    | succ k =>
      obtain ⟨h1, h2, h3⟩ := h
      obtain ⟨b', hb, hc⟩ := ih r.e k h3
      exact ⟨b', by omega, by simpa using hc⟩

private theorem wf_drop (l : RS) (k : Nat) (h : WF l) : WF (l.drop k) := by
  obtain ⟨b, hb⟩ := h
  obtain ⟨b', _, hc⟩ := chain_drop l b k hb
  exact ⟨b', hc⟩

private theorem mem_of_mem_drop (l : RS) (k : Nat) (x : Int) (h : Mem (l.drop k) x) : Mem l x := by
  obtain ⟨r, hr, h1⟩ := h
  exact ⟨r, List.mem_of_mem_drop hr, h1⟩

/-- Everything lost by dropping the `k` oldest ranges lies strictly below what remains. -/
private theorem dropped_below (l : RS) : ∀ (b : Int) (k : Nat), Chain b l →
    ∀ x, Mem l x → ¬ Mem (l.drop k) x → ∀ y, Mem (l.drop k) y → x < y := by
  induction l with
  | nil => intro b k _ x hx; simp at hx
  | cons r rest ih =>
    intro b k h x hx hnx y hy
    cases k with
    | zero => rw [List.drop_zero] at hnx; exact absurd hx hnx
    | succ k =>
      obtain ⟨h1, h2, h3⟩ := h
      simp only [List.drop_succ_cons] at hnx hy
      rw [C24.mem_cons] at hx
      rcases hx with hx | hx
      · have hy' := mem_of_mem_drop rest k y hy
        have := C24.chain_lt_of_mem h3 hy'
        omega
      · exact ih r.e k h3 x hx hnx y hy

/-! ## `handleAck` drops whole ranges from the front -/

private theorem chain_dropWhile (p : Rg → Bool) (l : RS) : ∀ b, Chain b l → ∃ b', Chain b' (l.dropWhile p) := by
  induction l with
  | nil => intro b h; exact ⟨b, by simpa using h⟩
  | cons r rest ih =>
    intro b h
    simp only [List.dropWhile_cons]
    split
    · exact ih r.e h.2.2
    · exact ⟨b, h⟩

private theorem mem_dropWhile (st : Int) (l : RS) : ∀ b, Chain b l → (∀ r ∈ l, r.e ≤ st ∨ st ≤ r.s) →
    ∀ x, Mem (l.dropWhile (fun r => decide (r.e ≤ st))) x ↔ (Mem l x ∧ st ≤ x) := by
  induction l with
  | nil => intro b _ _ x; simp
  | cons r rest ih =>
    intro b h hall x
    obtain ⟨h1, h2, h3⟩ := h
    simp only [List.dropWhile_cons]
    by_cases hr : r.e ≤ st
    · simp only [hr, decide_true, if_true]
      rw [ih r.e h3 (fun q hq => hall q (List.mem_cons_of_mem _ hq)) x, C24.mem_cons]
      constructor
      · rintro ⟨hm, hx⟩; exact ⟨Or.inr hm, hx⟩
      · rintro ⟨hm | hm, hx⟩
        · omega
        · exact ⟨hm, hx⟩
    · simp only [hr, decide_false, Bool.false_eq_true, if_false]
      have hs : st ≤ r.s := by
        rcases hall r List.mem_cons_self with h | h
        · omega
        · exact h
      constructor
      · intro hm
        refine ⟨hm, ?_⟩
        rw [C24.mem_cons] at hm
        rcases hm with hm | hm
        · omega
        · have := C24.chain_lt_of_mem h3 hm; omega
      · exact fun hm => hm.1

/-- When `rg` is one of the stored ranges and all numbers are non-negative,
`sub(0, rg.start)` is exactly "forget every range that ends at or before `rg.start`". -/
private theorem sub_prefix_eq (l : RS) (rg : Rg) (hwf : WF l) (hnn : ∀ x, Mem l x → 0 ≤ x) (hrg : rg ∈ l)
    (hwf' : WF (sub l 0 rg.s)) (h0 : 0 ≤ rg.s) :
    sub l 0 rg.s = l.dropWhile (fun r => decide (r.e ≤ rg.s)) := by
  obtain ⟨b, hb⟩ := hwf
  obtain ⟨b', hb'⟩ := chain_dropWhile (fun r => decide (r.e ≤ rg.s)) l b hb
  apply C24.canonical _ _ hwf' ⟨b', hb'⟩
  intro x
  have hall : ∀ r ∈ l, r.e ≤ rg.s ∨ rg.s ≤ r.s := by
    intro r hr
    by_cases h1 : r.e ≤ rg.s
    · exact Or.inl h1
    · right
      apply Classical.byContradiction; intro h2
      have hmax := (C24.range_maximal l ⟨b, hb⟩ rg hrg).2.1
      exact hmax ⟨r, hr, by omega, by omega⟩
  rw [C24.mem_sub l 0 rg.s ⟨b, hb⟩ h0, mem_dropWhile rg.s l b hb hall]
  constructor
  · rintro ⟨hm, hx⟩; have := hnn x hm; exact ⟨hm, by omega⟩
  · rintro ⟨hm, hx⟩; exact ⟨hm, by omega⟩

/-! ## the three state transformers -/

private theorem shouldProcess_iff (a : Acks) (hwf : WF a.seen) (n : Int) :
    shouldProcess a n = true ↔ Model.Rangeset.min a.seen ≤ n ∧ ¬ Mem a.seen n := by
  unfold shouldProcess
  by_cases h1 : Model.Rangeset.min a.seen > n
  · simp [h1]; omega
  · by_cases h2 : contains a.seen n = true
    · have := (C24.contains_iff a.seen hwf n).1 h2
      simp [h1, h2, this]
    · have h3 : ¬ Mem a.seen n := fun hm => h2 ((C24.contains_iff a.seen hwf n).2 hm)
      simp [h1, h2, h3]; omega

private theorem prune_spec (s : RS) (hwf : WF s) :
    WF (prune s) ∧ (prune s).length ≤ maxAckRanges ∧ (∀ x, Mem (prune s) x → Mem s x) ∧
    (s ≠ [] → prune s ≠ []) ∧
    (∀ x, Mem s x → ¬ Mem (prune s) x → ∀ y, Mem (prune s) y → x < y) := by
  unfold prune numRanges
  by_cases h : s.length > maxAckRanges
  · simp only [h, if_true, removeranges_zero]
    refine ⟨wf_drop s _ hwf, ?_, fun x hx => mem_of_mem_drop s _ x hx, ?_, ?_⟩
    · simp [List.length_drop]; unfold maxAckRanges at *; omega
    · intro _ hd
      have : (s.drop (s.length - maxAckRanges)).length = 0 := by simp [hd]
      simp [List.length_drop] at this; unfold maxAckRanges at *; omega
    · obtain ⟨b, hb⟩ := hwf
      exact dropped_below s b _ hb
  · simp only [h, if_false]
    refine ⟨hwf, by omega, fun x hx => hx, fun h => h, ?_⟩
    intro x hx hnx; exact absurd hx hnx

private theorem ne_nil_of_mem {l : RS} {x : Int} (h : Mem l x) : l ≠ [] := by
  intro hl; subst hl; simp at h

/-- Least-element characterisation of `min` on a non-empty well-formed set. -/
private theorem lt_min_iff (l : RS) (hwf : WF l) (hne : l ≠ []) (x : Int) :
    x < Model.Rangeset.min l ↔ ∀ y, Mem l y → x < y := by
  obtain ⟨hm, hle⟩ := (C24.min_spec l hwf).2 hne
  constructor
  · intro h y hy; have := hle y hy; omega
  · intro h; exact h _ hm

theorem inv_init : Inv {} := by
  refine ⟨⟨0, trivial⟩, ?_, ?_, ?_, ?_, ?_, List.nodup_nil, by simp⟩ <;> intro x hx <;> simp at hx

theorem inv_step (h : Hist) (ev : Ev) (hv : ev.Valid) (hi : Inv h) : Inv (h.step ev) := by
  obtain ⟨hwf, hrange, hsp, hpr, hcov, hnn, hnd, hlen⟩ := hi
  cases ev with
  | sentAck => exact ⟨hwf, hrange, hsp, hpr, hcov, hnn, hnd, hlen⟩
  | arrive n ae =>
    obtain ⟨hn0, hn1⟩ := hv
    simp only [Hist.step, arrive]
    by_cases hs : shouldProcess h.a n = true
    · -- processed: receive
      simp only [hs, if_true]
      obtain ⟨hmin, hnm⟩ := (shouldProcess_iff h.a hwf n).1 hs
      have hwf1 : WF (add h.a.seen n (n + 1)) := C24.wf_add _ _ _ hwf (by omega)
      have hmem1 : ∀ x, Mem (add h.a.seen n (n + 1)) x ↔ (Mem h.a.seen x ∨ x = n) := by
        intro x
        rw [C24.mem_add _ _ _ hwf (by omega)]
        constructor
        · rintro (h | h); exact Or.inl h; exact Or.inr (by omega)
        · rintro (h | h); exact Or.inl h; exact Or.inr (by omega)
      obtain ⟨hwf2, hlen2, hsub2, hne2, hbelow2⟩ := prune_spec _ hwf1
      have hne1 : add h.a.seen n (n + 1) ≠ [] := ne_nil_of_mem ((hmem1 n).2 (Or.inr rfl))
      have hne2' := hne2 hne1
      have hnp : n ∉ h.processed := by
        intro hp
        rcases hcov n hp with hm | hlt
        · exact hnm hm
        · omega
      refine ⟨hwf2, ?_, ?_, ?_, ?_, ?_, ?_, hlen2⟩
      · intro x hx
        rcases (hmem1 x).1 (hsub2 x hx) with hm | rfl
        · exact hrange x hm
        · exact ⟨hn0, hn1⟩
      · intro x hx
        rcases (hmem1 x).1 (hsub2 x hx) with hm | rfl
        · exact List.mem_cons_of_mem _ (hsp x hm)
        · exact List.mem_cons_self
      · intro x hx
        rcases List.mem_cons.1 hx with rfl | hx
        · exact List.mem_cons_self
        · exact List.mem_cons_of_mem _ (hpr x hx)
      · -- coverage
        intro x hx
        simp only [receive]
        by_cases hm2 : Mem (prune (add h.a.seen n (n + 1))) x
        · exact Or.inl hm2
        · right
          rw [lt_min_iff _ hwf2 hne2']
          intro y hy
          -- x is processed (or is n): either it was in the un-pruned set, or below the old min
          have hx1 : Mem (add h.a.seen n (n + 1)) x ∨ x < Model.Rangeset.min h.a.seen := by
            rcases List.mem_cons.1 hx with rfl | hx
            · exact Or.inl ((hmem1 _).2 (Or.inr rfl))
            · rcases hcov x hx with hm | hlt
              · exact Or.inl ((hmem1 x).2 (Or.inl hm))
              · exact Or.inr hlt
          rcases hx1 with hm1 | hlt
          · exact hbelow2 x hm1 hm2 y hy
          · -- x below the old minimum: below every old element and below n
            rcases (hmem1 y).1 (hsub2 y hy) with hym | rfl
            · have hne0 : h.a.seen ≠ [] := ne_nil_of_mem hym
              have := ((C24.min_spec _ hwf).2 hne0).2 y hym
              omega
            · omega
      · intro x hx
        rcases List.mem_cons.1 hx with rfl | hx
        · exact hn0
        · exact hnn x hx
      · exact List.nodup_cons.2 ⟨hnp, hnd⟩
    · -- dropped
      simp only [hs]
      refine ⟨hwf, hrange, hsp, ?_, hcov, hnn, hnd, hlen⟩
      intro x hx; exact List.mem_cons_of_mem _ (hpr x hx)
  | handleAck la =>
    simp only [Hist.step, handleAck]
    by_cases hm : Mem h.a.seen la
    · obtain ⟨hrg, hrs, hre⟩ := C24.rangeContaining_mem _ hwf la hm
      generalize rangeContaining h.a.seen la = rg at *
      have hst_mem : Mem h.a.seen rg.s := ⟨rg, hrg, Int.le_refl _, by omega⟩
      have hst0 : 0 ≤ rg.s := (hrange _ hst_mem).1
      have hnot_inside : ¬ (0 = rg.s ∧ C24.Inside h.a.seen 0) := by
        rintro ⟨_, r, hr, h1, h2⟩
        have : Mem h.a.seen r.s := ⟨r, hr, Int.le_refl _, by omega⟩
        have := (hrange _ this).1
        omega
      have hwf' : WF (sub h.a.seen 0 rg.s) := C24.wf_sub_partial _ _ _ hwf hst0 hnot_inside
      have hmem' := C24.mem_sub h.a.seen 0 rg.s hwf hst0
      have hst' : Mem (sub h.a.seen 0 rg.s) rg.s := (hmem' _).2 ⟨hst_mem, by omega⟩
      have hne' := ne_nil_of_mem hst'
      refine ⟨hwf', ?_, ?_, hpr, ?_, hnn, hnd, ?_⟩
      · intro x hx; exact hrange x ((hmem' x).1 hx).1
      · intro x hx; exact hsp x ((hmem' x).1 hx).1
      · intro x hx
        by_cases hm2 : Mem (sub h.a.seen 0 rg.s) x
        · exact Or.inl hm2
        · right
          rw [lt_min_iff _ hwf' hne']
          intro y hy
          obtain ⟨hym, hyn⟩ := (hmem' y).1 hy
          have hy0 := (hrange y hym).1
          have hyst : rg.s ≤ y := by omega
          rcases hcov x hx with hxm | hlt
          · have hx0 := (hrange x hxm).1
            have : ¬ (Mem h.a.seen x ∧ ¬ (0 ≤ x ∧ x < rg.s)) := fun hh => hm2 ((hmem' x).2 hh)
            have : x < rg.s := by
              apply Classical.byContradiction; intro hge
              exact this ⟨hxm, by omega⟩
            omega
          · have := ((C24.min_spec _ hwf).2 (ne_nil_of_mem hst_mem)).2 _ hst_mem
            omega
      · rw [sub_prefix_eq h.a.seen rg hwf (fun x hx => (hrange x hx).1) hrg hwf' hst0]
        have := (List.dropWhile_sublist (fun r : Rg => decide (r.e ≤ rg.s)) (l := h.a.seen)).length_le
        exact Nat.le_trans this hlen
    · have hrc := C24.rangeContaining_not_mem _ hwf la hm
      rw [hrc]
      have hnot_inside : ¬ ((0 : Int) = 0 ∧ C24.Inside h.a.seen 0) := by
        rintro ⟨_, r, hr, h1, h2⟩
        have : Mem h.a.seen r.s := ⟨r, hr, Int.le_refl _, by omega⟩
        have := (hrange _ this).1
        omega
      have hwf' : WF (sub h.a.seen 0 0) := C24.wf_sub_partial _ _ _ hwf (Int.le_refl _) hnot_inside
      have heq : sub h.a.seen 0 0 = h.a.seen := by
        apply C24.canonical _ _ hwf' hwf
        intro x
        rw [C24.mem_sub _ _ _ hwf (Int.le_refl _)]
        constructor
        · exact fun h => h.1
        · exact fun h => ⟨h, by omega⟩
      simp only [heq]
      exact ⟨hwf, hrange, hsp, hpr, hcov, hnn, hnd, hlen⟩


/-! ## the property, for all histories -/

def Valid (evs : List Ev) : Prop := ∀ ev ∈ evs, ev.Valid

theorem inv_run (evs : List Ev) (h : Hist) (hv : Valid evs) (hi : Inv h) : Inv (h.run evs) := by
  induction evs generalizing h with
  | nil => simpa [Hist.run] using hi
  | cons ev rest ih =>
    simp only [Hist.run, List.foldl_cons]
    exact ih _ (fun e he => hv e (List.mem_cons_of_mem _ he)) (inv_step h ev (hv ev List.mem_cons_self) hi)

/-- States reachable from a fresh `ackState`. -/
def Reachable (h : Hist) : Prop := ∃ evs, Valid evs ∧ h = Hist.run {} evs

theorem reachable_inv {h : Hist} (hr : Reachable h) : Inv h := by
  obtain ⟨evs, hv, rfl⟩ := hr; exact inv_run evs _ hv inv_init

theorem reachable_run {h : Hist} (hr : Reachable h) (evs : List Ev) (hv : Valid evs) : Reachable (h.run evs) := by
  obtain ⟨evs0, hv0, rfl⟩ := hr
  refine ⟨evs0 ++ evs, ?_, by simp [Hist.run, List.foldl_append]⟩
  intro e he; rcases List.mem_append.1 he with h | h
  · exact hv0 e h
  · exact hv e h

/-- **`seen` ⊆ processed ⊆ received**: every packet number the endpoint is prepared to acknowledge
arrived (and was processed) in this number space. -/
theorem seen_subset_received {h : Hist} (hr : Reachable h) (x : Int) (hx : Mem h.a.seen x) :
    x ∈ h.processed ∧ x ∈ h.received := by
  have hi := reachable_inv hr
  exact ⟨hi.seen_proc x hx, hi.proc_recv x (hi.seen_proc x hx)⟩

/-- **No double processing**: whenever `shouldProcess n` accepts, `n` has not been processed
before — in every reachable state, i.e. also after old ranges were discarded by `maxAckRanges`
pruning or by `handleAck`. -/
theorem shouldProcess_not_processed {h : Hist} (hr : Reachable h) (n : Int)
    (hs : shouldProcess h.a n = true) : n ∉ h.processed := by
  have hi := reachable_inv hr
  obtain ⟨hmin, hnm⟩ := (shouldProcess_iff h.a hi.wf n).1 hs
  intro hp
  rcases hi.proc_cov n hp with hm | hlt
  · exact hnm hm
  · omega

/-- The list of processed packet numbers never contains a duplicate. -/
theorem processed_nodup {h : Hist} (hr : Reachable h) : h.processed.Nodup := (reachable_inv hr).nodup

private theorem processed_mono (evs : List Ev) (h : Hist) (x : Int) (hx : x ∈ h.processed) :
    x ∈ (h.run evs).processed := by
  induction evs generalizing h with
  | nil => simpa [Hist.run] using hx
  | cons ev rest ih =>
    simp only [Hist.run, List.foldl_cons]
    apply ih
    cases ev with
    | arrive n ae => simp only [Hist.step]; split; exact List.mem_cons_of_mem _ hx; exact hx
    | handleAck la => exact hx
    | sentAck => exact hx

/-- **Once processed, refused forever**: after any further history, `shouldProcess` rejects it. -/
theorem processed_never_again {h : Hist} (hr : Reachable h) (n : Int) (hp : n ∈ h.processed)
    (evs : List Ev) (hv : Valid evs) : shouldProcess (h.run evs).a n = false := by
  have hr' := reachable_run hr evs hv
  have hp' := processed_mono evs h n hp
  cases hsp : shouldProcess (h.run evs).a n with
  | false => rfl
  | true => exact absurd hp' (shouldProcess_not_processed hr' n hsp)

/-- At most `maxAckRanges` ranges are remembered, all of 62-bit packet numbers. -/
theorem seen_bounded {h : Hist} (hr : Reachable h) :
    numRanges h.a.seen ≤ maxAckRanges ∧ WF h.a.seen ∧ ∀ x, Mem h.a.seen x → 0 ≤ x ∧ x < 2^62 := by
  have hi := reachable_inv hr
  exact ⟨hi.len, hi.wf, hi.range⟩

/-- A packet that is refused although it was never processed lies below the oldest remembered
range (the RFC 9000 §13.2.3 trade-off), never inside or above the remembered window. -/
theorem refused_unprocessed_is_old {h : Hist} (hr : Reachable h) (n : Int)
    (hs : shouldProcess h.a n = false) (hnp : n ∉ h.processed) : n < Model.Rangeset.min h.a.seen := by
  have hi := reachable_inv hr
  apply Classical.byContradiction; intro hge
  have hnm : ¬ Mem h.a.seen n := fun hm => hnp (hi.seen_proc n hm)
  have := (shouldProcess_iff h.a hi.wf n).2 ⟨by omega, hnm⟩
  rw [this] at hs; exact absurd hs (by decide)

/-! ## the ACK frame built from `seen` -/

private theorem decode_frameLoop (older : List Rg) : ∀ (cur : Rg) (avail count : Nat),
    0 ≤ cur.s → cur.s < cur.e → (∀ r ∈ older, 0 ≤ r.s ∧ r.s < r.e) →
    ∃ taken, taken <+: older ∧
      decodeRanges (cur.e - 1) (cur.e - cur.s - 1) (frameLoop avail count cur.s older) = some (cur :: taken) := by
  induction older with
  | nil =>
    intro cur avail count h0 h1 _
    refine ⟨[], List.prefix_refl _, ?_⟩
    simp only [frameLoop, decodeRanges]
    have e1 : cur.e - 1 - (cur.e - cur.s - 1) = cur.s := by omega
    have e2 : cur.e - 1 + 1 = cur.e := by omega
    rw [e1, e2]
    have : ¬ (cur.s < 0 ∨ cur.s > cur.e - 1) := by omega
    simp [this]
  | cons r rest ih =>
    intro cur avail count h0 h1 hall
    have e1 : cur.e - 1 - (cur.e - cur.s - 1) = cur.s := by omega
    have e2 : cur.e - 1 + 1 = cur.e := by omega
    have hc : ¬ (cur.s < 0 ∨ cur.s > cur.e - 1) := by omega
    simp only [frameLoop]
    split
    · refine ⟨[], List.nil_prefix, ?_⟩
      simp only [decodeRanges]
      rw [e1, e2]; simp [hc]
    · obtain ⟨hr0, hr1⟩ := hall r List.mem_cons_self
      obtain ⟨taken, hpre, hdec⟩ := ih r (avail - (szv (cur.s - r.e - 1) + szv (r.e - r.s - 1))) (count + 1) hr0 hr1
        (fun q hq => hall q (List.mem_cons_of_mem _ hq))
      refine ⟨r :: taken, ?_, ?_⟩
      · exact List.prefix_cons_inj r |>.2 hpre
      · simp only [decodeRanges]
        rw [e1, e2]
        have e3 : cur.s - (cur.s - r.e - 1) - 2 = r.e - 1 := by omega
        rw [e3, hdec]
        simp [hc]

/-- What the peer decodes from the frame is a set of whole ranges of `seen`. -/
theorem ackFrame_ranges_subset (seen : RS) (hwf : WF seen) (hrange : ∀ x, Mem seen x → 0 ≤ x ∧ x < 2^62)
    (delay : Int) (avail : Nat) (f : AckFrame) (hf : appendAckFrame seen delay avail = some f) :
    ∃ rs, f.ranges = some rs ∧ (∀ r ∈ rs, r ∈ seen) ∧ rs ≠ [] ∧ f.largest = Model.Rangeset.max seen := by
  unfold appendAckFrame at hf
  split at hf
  · simp at hf
  · rename_i last older hrev
    dsimp only at hf
    split at hf
    · simp at hf
    · simp only [Option.some.injEq] at hf
      subst hf
      have hmemrev : ∀ r, r ∈ last :: older → r ∈ seen := by
        intro r hr; rw [← hrev] at hr; exact List.mem_reverse.1 hr
      have hgood : ∀ r ∈ seen, 0 ≤ r.s ∧ r.s < r.e ∧ r.e ≤ 2^62 := by
        intro r hr
        obtain ⟨b, hb⟩ := hwf
        have h1 := (C24.chain_bound_of_mem hb hr).2
        have h2 := (hrange r.s ⟨r, hr, Int.le_refl _, h1⟩).1
        have h3 := (hrange (r.e - 1) ⟨r, hr, by omega, by omega⟩).2
        exact ⟨h2, h1, by omega⟩
      have hlast := hgood last (hmemrev last List.mem_cons_self)
      have hmax : Model.Rangeset.max seen = last.e - 1 := by
        unfold Model.Rangeset.max
        have : seen.getLast? = some last := by
          have := congrArg List.head? hrev
          simpa [List.head?_reverse] using this
        rw [this]
        simp only [wrap64]
        omega
      obtain ⟨taken, hpre, hdec⟩ := decode_frameLoop older last
        (avail - (1 + szv (last.e - 1) + szv delay + 1 + szv (last.e - last.s - 1))) 0
        hlast.1 hlast.2.1
        (fun r hr => ⟨(hgood r (hmemrev r (List.mem_cons_of_mem _ hr))).1, (hgood r (hmemrev r (List.mem_cons_of_mem _ hr))).2.1⟩)
      refine ⟨last :: taken, ?_, ?_, by simp, rfl⟩
      · simp only [AckFrame.ranges]
        rw [hmax]; exact hdec
      · intro r hr
        rcases List.mem_cons.1 hr with rfl | hr
        · exact hmemrev _ List.mem_cons_self
        · exact hmemrev _ (List.mem_cons_of_mem _ (hpre.subset hr))

/-- **An ACK frame never acknowledges a packet number that did not arrive**: every number inside
any range the peer decodes from the frame built by `appendAckFrame(acksToSend …)` was received
(indeed processed), whatever space was left in the packet. -/
theorem ack_frame_only_received {h : Hist} (hr : Reachable h) (delay : Int) (avail : Nat) (f : AckFrame)
    (hf : appendAckFrame (acksToSend h.a) delay avail = some f) :
    ∃ rs, f.ranges = some rs ∧ ∀ x, Mem rs x → x ∈ h.received ∧ x ∈ h.processed := by
  have hi := reachable_inv hr
  unfold acksToSend at hf
  split at hf
  · simp [appendAckFrame] at hf
  · obtain ⟨rs, h1, h2, _, _⟩ := ackFrame_ranges_subset h.a.seen hi.wf hi.range delay avail f hf
    refine ⟨rs, h1, ?_⟩
    rintro x ⟨r, hr', hx⟩
    have := seen_subset_received hr x ⟨r, h2 r hr', hx⟩
    exact ⟨this.2, this.1⟩

/-! ## Part 2 — ACK frames from the peer: `lossState.receiveAckRange` (model `Model/LossState.lean`) -/

section AckRange
open NetVerif.Model.LossState NetVerif.Proofs.C26

/-- On a list of consecutive packet numbers, the ACK-range walk reports a violation exactly when
the (clamped) range `[lo, hi)` contains a packet recorded as never sent. -/
theorem ackWalk_violation_iff (lo hi : Int) (ps : List Pkt) : ∀ (n : Int) (cc : CC) (ma : Int), Consec n ps →
    ((ackWalk lo hi cc ma ps).violation = true ↔ ∃ p ∈ ps, p.state = .unsent ∧ lo ≤ p.num ∧ p.num < hi) := by
  induction ps with
  | nil => intro n cc ma _; simp [ackWalk]
  | cons p rest ih =>
    intro n cc ma hc
    obtain ⟨hn, hc'⟩ := hc
    have hrest : ∀ q ∈ rest, p.num < q.num := fun q hq => by have := (consec_mem hc' hq).1; omega
    unfold ackWalk
    split
    · rename_i h1
      simp only
      rw [ih (n + 1) cc ma hc']
      constructor
      · rintro ⟨q, hq, h⟩; exact ⟨q, List.mem_cons_of_mem _ hq, h⟩
      · rintro ⟨q, hq, h2, h3, h4⟩
        rcases List.mem_cons.1 hq with rfl | hq
        · omega
        · exact ⟨q, hq, h2, h3, h4⟩
    · rename_i h1
      split
      · rename_i h2
        simp only [Bool.false_eq_true, false_iff]
        rintro ⟨q, hq, _, _, h5⟩
        rcases List.mem_cons.1 hq with rfl | hq
        · omega
        · have := hrest q hq; omega
      · rename_i h2
        split
        · rename_i h3
          simp only [true_iff]
          exact ⟨p, List.mem_cons_self, h3, by omega, by omega⟩
        · rename_i h3
          have step : ∀ (cc' : CC) (ma' : Int),
              ((ackWalk lo hi cc' ma' rest).violation = true ↔ ∃ q ∈ p :: rest, q.state = .unsent ∧ lo ≤ q.num ∧ q.num < hi) := by
            intro cc' ma'
            rw [ih (n + 1) cc' ma' hc']
            constructor
            · rintro ⟨q, hq, h⟩; exact ⟨q, List.mem_cons_of_mem _ hq, h⟩
            · rintro ⟨q, hq, h4, h5, h6⟩
              rcases List.mem_cons.1 hq with rfl | hq
              · exact absurd h4 h3
              · exact ⟨q, hq, h4, h5, h6⟩
          split
          · exact step cc ma
          · exact step _ _

/-- **`receiveAckRange` returns PROTOCOL_VIOLATION iff the range covers a remembered skipped
number, or reaches beyond every number used so far (`end > nextNum`), or — after clamping its
start to the oldest tracked packet — covers a packet recorded as `Unsent`.** -/
theorem receiveAckRange_violation_iff (l : Loss) (sp : Nat) (a b : Int)
    (hc : Consec (l.space sp).start (l.space sp).pkts) :
    (l.receiveAckRange sp a b).2.2 = true ↔
      ((∃ k ∈ (l.space sp).skipped, a ≤ k ∧ k < b) ∨ b > (l.space sp).nextNum ∨
       ∃ p ∈ (l.space sp).pkts, p.state = .unsent ∧ max a (l.space sp).start ≤ p.num ∧ p.num < b) := by
  unfold Loss.receiveAckRange
  simp only
  have hst : (if a < (l.space sp).start then (l.space sp).start else a) = max a (l.space sp).start := by
    split <;> omega
  rw [hst]
  by_cases h0 : ((l.space sp).skipped.any fun k => decide (a ≤ k ∧ k < b)) = true
  · simp only [h0, if_true, true_iff]
    left
    obtain ⟨k, hk, hd⟩ := List.any_eq_true.1 h0
    exact ⟨k, hk, by simpa using hd⟩
  · have hno : ¬ ∃ k ∈ (l.space sp).skipped, a ≤ k ∧ k < b := by
      rintro ⟨k, hk, h1, h2⟩
      exact h0 (List.any_eq_true.2 ⟨k, hk, by simp [h1, h2]⟩)
    simp only [h0, Bool.false_eq_true, if_false, hno, false_or]
    by_cases h1 : b > (l.space sp).nextNum
    · simp [h1]
    · by_cases h2 : max a (l.space sp).start ≥ b
      · simp only [h1, h2, if_true, if_false, Bool.false_eq_true, false_or, false_iff]
        rintro ⟨p, _, _, h3, h4⟩; omega
      · simp only [h1, h2, if_false, false_or]
        exact ackWalk_violation_iff _ _ _ _ _ _ hc

/-- **The third clause of C25, for every history** (ghost record of the numbers skipped since
the keys of the space were last discarded): an ACK range is rejected with PROTOCOL_VIOLATION iff
it acknowledges a number that was never used (`end > nextNum`) or a skipped number — also after
the sent-packet list has dropped the skip record. -/
theorem ack_violation_holds (mds : Int) (ops : List C26.Op) (sp : Nat) (a b : Int)
    (hv : ∀ o ∈ ops, o.SpaceOK) (hsp : sp < 3) :
    (((grun (Loss.init mds) {} ops).1.receiveAckRange sp a b).2.2 = true ↔
      (b > ((grun (Loss.init mds) {} ops).1.space sp).nextNum ∨
       ∃ k ∈ (grun (Loss.init mds) {} ops).2.k sp, a ≤ k ∧ k < b)) := by
  have hi := finv_grun ops _ _ hv (finv_init mds) sp hsp
  generalize (grun (Loss.init mds) {} ops).1 = l at hi ⊢
  generalize (grun (Loss.init mds) {} ops).2 = g at hi ⊢
  rw [receiveAckRange_violation_iff l sp a b hi.consec]
  constructor
  · rintro (⟨k, hk, h1, h2⟩ | h | ⟨p, hp, hu, h1, h2⟩)
    · exact Or.inr ⟨k, (hi.sk k).1 hk, h1, h2⟩
    · exact Or.inl h
    · exact Or.inr ⟨p.num, hi.unsent_k p hp hu, by omega, h2⟩
  · rintro (h | ⟨k, hk, h1, h2⟩)
    · exact Or.inr (Or.inl h)
    · exact Or.inl ⟨k, (hi.sk k).2 hk, h1, h2⟩

/-- The former counterexample (send 0, skip 1, send 2; ACK [0,1) cleans 0 and the skip record;
ACK [0,3)) is now rejected. -/
example : ((grun (Loss.init 1200) {}
    [C26.Op.send 0 100 true true 0, C26.Op.skip 0 0, C26.Op.send 0 100 true true 0, C26.Op.ackRange 0 0 1,
     C26.Op.ackEnd 0 1 1 none 1]).1.receiveAckRange 0 0 3).2.2 = true := by decide

end AckRange

/-! ## Part 3 — the wire monitor (V-tie): every accepted trace satisfies the three clauses -/

section Wire
open NetVerif.Model.AckWire

abbrev WEv := NetVerif.Model.AckWire.Ev

/-- Packet number `n` arrived at the Conn before/within the prefix (handshake arrivals are in `st0`). -/
def Arrived (st0 : WState) (pre : List WEv) (n : Int) : Prop := n ∈ st0.arrived ∨ ∃ e ∈ pre, e.arrival = some n
/-- The Conn was seen sending packet number `n`. -/
def SentBefore (st0 : WState) (pre : List WEv) (n : Int) : Prop := n ∈ st0.sent ∨ ∃ e ∈ pre, n ∈ e.sent
/-- The PATH_CHALLENGE carried by packet number `n` was answered. -/
def Answered (st0 : WState) (pre : List WEv) (n : Int) : Prop := n ∈ st0.procd ∨ ∃ e ∈ pre, n ∈ e.resp

/-- The three clauses of C25 for one event `e` after the prefix `pre`, stated on the wire trace alone. -/
structure GoodAt (st0 : WState) (pre : List WEv) (e : WEv) : Prop where
  /-- an ACK frame sent by the endpoint only acknowledges packet numbers that arrived -/
  ack_only_received : ∀ f ∈ e.acks, ∀ r ∈ f, ∀ n, r.1 ≤ n → n < r.2 → Arrived st0 (pre ++ [e]) n
  /-- no packet number is processed (answered) twice -/
  processed_once : (∀ n ∈ e.resp, ¬ Answered st0 pre n) ∧ e.resp.Nodup
  /-- a peer ACK frame in a packet that must be processed closes the connection with
  PROTOCOL_VIOLATION iff it acknowledges a packet number the endpoint never sent -/
  ack_of_unsent : ∀ p, e.arrival = some p → e.peerAck ≠ [] → (∀ a, Arrived st0 pre a → a < p) →
    ((∃ r ∈ e.peerAck, ∃ n, r.1 ≤ n ∧ n < r.2 ∧ st0.sentLow ≤ n ∧ ¬ SentBefore st0 pre n) ↔
      e.close = some errProtocolViolation)
  /-- a packet carrying a PATH_CHALLENGE whose number is above every earlier one is decoded to
  that number and processed: its challenge is answered (receiver side of C23) -/
  fresh_answered : ∀ p, e.arrival = some p → e.challenge = true → (∀ a, Arrived st0 pre a → a < p) → p ∈ e.resp

private theorem allIn_iff (lo hi : Int) (p : Int → Bool) :
    allIn lo hi p = true ↔ ∀ n, lo ≤ n → n < hi → p n = true := by
  unfold allIn
  rw [List.all_eq_true]
  constructor
  · intro h n h1 h2
    have := h (n - lo).toNat (List.mem_range.2 (by omega))
    have e : lo + ((n - lo).toNat : Int) = n := by omega
    rwa [e] at this
  · intro h i hi'
    have := List.mem_range.1 hi'
    exact h _ (by omega) (by omega)

private theorem anyIn_iff (lo hi : Int) (p : Int → Bool) :
    anyIn lo hi p = true ↔ ∃ n, lo ≤ n ∧ n < hi ∧ p n = true := by
  unfold anyIn
  rw [List.any_eq_true]
  constructor
  · rintro ⟨i, hi', hp⟩
    have := List.mem_range.1 hi'
    exact ⟨_, by omega, by omega, hp⟩
  · rintro ⟨n, h1, h2, hp⟩
    refine ⟨(n - lo).toNat, List.mem_range.2 (by omega), ?_⟩
    have e : lo + ((n - lo).toNat : Int) = n := by omega
    rwa [e]

private theorem nodupB_iff (l : List Int) : nodupB l = true ↔ l.Nodup := by
  induction l with
  | nil => simp [nodupB]
  | cons x xs ih => simp [nodupB, ih, List.nodup_cons]

private theorem after_spec (st0 : WState) (pre : List WEv) :
    (∀ n, n ∈ (after st0 pre).arrived ↔ Arrived st0 pre n) ∧
    (∀ n, n ∈ (after st0 pre).sent ↔ SentBefore st0 pre n) ∧
    (∀ n, n ∈ (after st0 pre).procd ↔ Answered st0 pre n) ∧
    (after st0 pre).sentLow = st0.sentLow := by
  induction pre generalizing st0 with
  | nil => simp [after, Arrived, SentBefore, Answered]
  | cons e rest ih =>
    obtain ⟨a, b, c, d⟩ := ih (next st0 e)
    simp only [after, List.foldl_cons] at a b c d ⊢
    refine ⟨?_, ?_, ?_, by rw [d]; rfl⟩
    · intro n; rw [a n]
      simp only [Arrived, next, arrivedAfter, List.mem_cons]
      cases he : e.arrival with
      | none =>
        constructor
        · rintro (h | ⟨x, hx, h⟩); exact Or.inl h; exact Or.inr ⟨x, Or.inr hx, h⟩
        · rintro (h | ⟨x, hx | hx, h⟩)
          · exact Or.inl h
          · subst hx; rw [he] at h; exact absurd h (by simp)
          · exact Or.inr ⟨x, hx, h⟩
      | some p =>
        simp only [List.mem_cons]
        constructor
        · rintro ((h | h) | ⟨x, hx, h⟩)
          · exact Or.inr ⟨e, Or.inl rfl, by rw [he, h]⟩
          · exact Or.inl h
          · exact Or.inr ⟨x, Or.inr hx, h⟩
        · rintro (h | ⟨x, hx | hx, h⟩)
          · exact Or.inl (Or.inr h)
          · subst hx; rw [he] at h; exact Or.inl (Or.inl (by simpa using h.symm))
          · exact Or.inr ⟨x, hx, h⟩
    · intro n; rw [b n]
      simp only [SentBefore, next, List.mem_append, List.mem_cons]
      constructor
      · rintro ((h | h) | ⟨x, hx, h⟩)
        · exact Or.inl h
        · exact Or.inr ⟨e, Or.inl rfl, h⟩
        · exact Or.inr ⟨x, Or.inr hx, h⟩
      · rintro (h | ⟨x, hx | hx, h⟩)
        · exact Or.inl (Or.inl h)
        · subst hx; exact Or.inl (Or.inr h)
        · exact Or.inr ⟨x, hx, h⟩
    · intro n; rw [c n]
      simp only [Answered, next, List.mem_append, List.mem_cons]
      constructor
      · rintro ((h | h) | ⟨x, hx, h⟩)
        · exact Or.inl h
        · exact Or.inr ⟨e, Or.inl rfl, h⟩
        · exact Or.inr ⟨x, Or.inr hx, h⟩
      · rintro (h | ⟨x, hx | hx, h⟩)
        · exact Or.inl (Or.inl h)
        · subst hx; exact Or.inl (Or.inr h)
        · exact Or.inr ⟨x, hx, h⟩

private theorem run_check (st : WState) (pre : List WEv) (e : WEv) (post : List WEv)
    (h : run st (pre ++ e :: post) = true) : check (after st pre) e = true := by
  induction pre generalizing st with
  | nil => simp only [List.nil_append, Model.AckWire.run, Bool.and_eq_true] at h; exact h.1
  | cons x rest ih =>
    simp only [List.cons_append, Model.AckWire.run, Bool.and_eq_true] at h
    exact ih (next st x) h.2

/-- **Soundness of the wire monitor**: if the monitor accepts a recorded trace, then at every
event the three clauses of C25 hold of what was observed on the wire. -/
theorem monitor_sound (st0 : WState) (tr : List WEv) (h : run st0 tr = true) :
    ∀ pre e post, tr = pre ++ e :: post → GoodAt st0 pre e := by
  intro pre e post htr
  subst htr
  have hc := run_check st0 pre e post h
  obtain ⟨sa, ss, sp, sl⟩ := after_spec st0 pre
  generalize after st0 pre = st at hc sa ss sp sl
  simp only [check, Bool.and_eq_true] at hc
  obtain ⟨⟨⟨⟨h1, h2⟩, h3⟩, h4⟩, h5⟩ := hc
  refine ⟨?_, ⟨?_, (nodupB_iff _).1 h3⟩, ?_, ?_⟩
  rotate_left 3
  · intro p hp hch hfresh
    have hf : isFresh st e = true := by
      simp only [isFresh, hp, List.all_eq_true, decide_eq_true_eq]
      intro a ha; exact hfresh a ((sa a).1 ha)
    simp only [hch, hf, Bool.and_self, if_true, hp] at h5
    simpa using h5
  · intro f hf r hr n hn1 hn2
    have := List.all_eq_true.1 (List.all_eq_true.1 h1 f hf) r hr
    have := (allIn_iff _ _ _).1 this n hn1 hn2
    have hm : n ∈ arrivedAfter st e := by simpa using this
    simp only [arrivedAfter] at hm
    simp only [Arrived, List.mem_append, List.mem_singleton]
    cases he : e.arrival with
    | none =>
      rw [he] at hm
      rcases (sa n).1 hm with h | ⟨x, hx, h⟩
      · exact Or.inl h
      · exact Or.inr ⟨x, Or.inl hx, h⟩
    | some p =>
      rw [he] at hm
      rcases List.mem_cons.1 hm with h | hm
      · exact Or.inr ⟨e, Or.inr rfl, by rw [he, h]⟩
      · rcases (sa n).1 hm with h | ⟨x, hx, h⟩
        · exact Or.inl h
        · exact Or.inr ⟨x, Or.inl hx, h⟩
  · intro n hn ha
    have := List.all_eq_true.1 h2 n hn
    have hnot : ¬ n ∈ st.procd := by simpa using this
    exact hnot ((sp n).2 ha)
  · intro p hp hne hfresh
    have hf : isFresh st e = true := by
      simp only [isFresh, hp, List.all_eq_true, decide_eq_true_eq]
      intro a ha; exact hfresh a ((sa a).1 ha)
    have hne' : (!e.peerAck.isEmpty) = true := by
      cases hq : e.peerAck with
      | nil => exact absurd hq hne
      | cons _ _ => rfl
    simp only [hne', hf, Bool.and_self, if_true] at h4
    have hcov : coversUnsent st e.peerAck = true ↔
        ∃ r ∈ e.peerAck, ∃ n, r.1 ≤ n ∧ n < r.2 ∧ st0.sentLow ≤ n ∧ ¬ SentBefore st0 pre n := by
      simp only [coversUnsent, List.any_eq_true, anyIn_iff, Bool.and_eq_true, decide_eq_true_eq,
        Bool.not_eq_true', sl]
      constructor
      · rintro ⟨r, hr, n, h1, h2, h3, h4⟩
        refine ⟨r, hr, n, h1, h2, h3, ?_⟩
        intro hs
        have : st.sent.contains n = true := by simpa using (ss n).2 hs
        rw [this] at h4; exact absurd h4 (by decide)
      · rintro ⟨r, hr, n, h1, h2, h3, h4⟩
        refine ⟨r, hr, n, h1, h2, h3, ?_⟩
        cases hcn : st.sent.contains n with
        | false => rfl
        | true => exact absurd ((ss n).1 (by simpa using hcn)) h4
    rw [← hcov]
    have hb : (coversUnsent st e.peerAck == (e.close == some errProtocolViolation)) = true := h4
    have := eq_of_beq hb
    rw [this]
    simp

end Wire

/-! ## T-tie -/

theorem gen_maxAckRanges_eq : Gen.C25.maxAckRanges = maxAckRanges := rfl

theorem gen_shouldProcess_eq (a : Acks) (n : Int) :
    Gen.C25.shouldProcess (Model.Rangeset.min a.seen) (contains a.seen) n = some (shouldProcess a n) := by
  unfold Gen.C25.shouldProcess shouldProcess
  repeat' split
  all_goals simp_all

/-! ## Non-vacuity -/

/-- 0,2,4,…,18 arrive (ten ranges): the two oldest are forgotten; 0 and 1 are then refused, 5 accepted. -/
example : (Hist.run {} ((List.range 10).map fun i : Nat => Ev.arrive (2 * (i : Int)) true)).a.seen.length = 8 := by decide
example : shouldProcess (Hist.run {} ((List.range 10).map fun i : Nat => Ev.arrive (2 * (i : Int)) true)).a 1 = false := by decide
example : shouldProcess (Hist.run {} ((List.range 10).map fun i : Nat => Ev.arrive (2 * (i : Int)) true)).a 5 = true := by decide
example : Reachable (Hist.run {} [.arrive 0 true, .arrive 2 true, .handleAck 2]) :=
  ⟨_, by intro e he; simp at he; rcases he with rfl | rfl | rfl <;> simp [Ev.Valid], rfl⟩
example : (appendAckFrame [⟨0, 3⟩, ⟨5, 6⟩, ⟨9, 11⟩] 7 1200).bind AckFrame.ranges = some [⟨9, 11⟩, ⟨5, 6⟩, ⟨0, 3⟩] := by decide
example : (appendAckFrame [⟨0, 3⟩, ⟨5, 6⟩, ⟨9, 11⟩] 7 7).bind AckFrame.ranges = some [⟨9, 11⟩, ⟨5, 6⟩] := by decide

end NetVerif.Proofs.C25
