import NetVerif.Proofs.Lemmas.Huffman
import NetVerif.Spec.Rfc7541Huffman
import NetVerif.Proofs.Lemmas.HuffmanAcc
import NetVerif.Proofs.Lemmas.HuffmanStride
/-!
C04 — Huffman coding is a canonical bijection on byte strings.

Model: `NetVerif.Model.Huffman` over the regenerated tables/tree `NetVerif.Gen.Huffman`.
`Bytes s` = every element `< 256` (Go `byte`).

Main statements
* `decode_encode`         HuffmanDecode(encode s) = s
* `encodeLength_eq`       HuffmanEncodeLength s = len(encode s)
* `encode_decode`         decode v = ok s → v = encode s   (canonical: ≤ 7 bits of all-ones padding)
* `reject_long_padding`, `reject_non_eos_padding`, `reject_eos_symbol`
* `decodeMax_*`           the length-limited variant used by the HPACK decoder
* `decodeBytesMax_eq_decodeMax` the byte-stride loop of `huffmanDecode` as coded (256-ary lookup
  tree built by a transcription of `buildRootHuffmanNode`, `cur`/`cbits`/`sbits`) equals the
  bit-level decoder; `decodeBytes_canonical`, `decodeBytes_appendHuffman` restate C04 on it
* table obligations re-exported from `Proofs.Lemmas.Huffman`
* `appendHuffman_eq_encode` : `AppendHuffmanEqEncodeStatement` — the 64-bit accumulator model
  `appendHuffman` of `AppendHuffmanString` (shift/or modulo 2^64, 4-byte flush at `n ≥ 32`, EOS
  padding, 0–4 trailing bytes) computes `encode` for every byte string (invariant `AccInv`);
  `decode_appendHuffman` is the round trip on that byte-level model.
-/
namespace NetVerif.Proofs.C04
open NetVerif.Model.Huffman
open NetVerif.Proofs.Lemmas.Huffman
open NetVerif

def Bytes (s : List Nat) : Prop := ∀ b ∈ s, b < 256

/-! ### Table obligations (regenerated tables; kernel-evaluated structural checks) -/

theorem table_lengths : Gen.Huffman.codes.length = 256 ∧ Gen.Huffman.lens.length = 256 :=
  Lemmas.Huffman.table_lengths

/-- **The code is the RFC 7541 Appendix B code** (the literal in `Spec/Rfc7541Huffman.lean`), not merely
some prefix code on which encoder and decoder agree. -/
theorem rfc_table : Gen.Huffman.codes = Spec.Rfc7541.codes ∧ Gen.Huffman.lens = Spec.Rfc7541.lens ∧
    Gen.Huffman.eosCode = Spec.Rfc7541.eosCode ∧ Gen.Huffman.eosNBits = Spec.Rfc7541.eosLen := by
  decide +kernel

/-- **T-fact on the lazy initialisation**: `getRootHuffmanNode` is exactly
`buildRootOnce.Do(buildRootHuffmanNode); return lazyRootHuffmanNode` — the tree is reachable only
after the `sync.Once` has completed, which is what makes the sequential model valid for concurrent
first use (any fast path around the `Once` breaks this obligation). -/
theorem root_init_once :
    Gen.Huffman.rootInitBody = "buildRootOnce.Do(buildRootHuffmanNode); return lazyRootHuffmanNode" := by
  decide

/-- Every code fits its length; lengths are between 5 and 30 (so `AppendHuffmanString`'s
"less than 32 valid bits can always accommodate another code" holds). -/
theorem table_code_bounds (s : Nat) (h : s < 256) :
    codeOf s < 2 ^ lenOf s ∧ 5 ≤ lenOf s ∧ lenOf s ≤ 30 := code_lt s h

/-- The tree is exactly the tree of the table: code word of `s` leads to `leaf s` … -/
theorem table_walk (s : Nat) (h : s < 256) : trie.walk (symBits s) = .leaf s := walk_symBits s h

/-- … and nothing else leads to a leaf. -/
theorem table_leaf_unique (p : List Bool) (s : Nat) (h : trie.walk p = .leaf s) :
    s < 256 ∧ symBits s = p := walk_leaf_unique p s h

/-- The code is prefix-free. -/
theorem table_prefix_free (a b : Nat) (ha : a < 256) (hb : b < 256) (q : List Bool)
    (h : symBits b = symBits a ++ q) : a = b := prefix_free a b ha hb q h

/-- EOS is 30 one-bits: the all-ones path stays inside the tree for 29 steps and then falls off;
in particular no code word consists of ≤ 7 (indeed ≤ 29) one-bits. -/
theorem table_eos : (∀ j < 30, (trie.walk (List.replicate j true)).isNode = true) ∧
    trie.walk (List.replicate 30 true) = .empty ∧
    Gen.Huffman.eosCode = 2 ^ 30 - 1 ∧ Gen.Huffman.eosNBits = 30 ∧ Gen.Huffman.eosPadByte = 255 :=
  ⟨walk_ones_isNode, walk_ones_30, eos_consts⟩

/-! ### Decoder runs -/

/-- Reading a complete code path `p` from `cur` emits its symbol and restarts at the root. -/
theorem decodeAux_code (root : Trie) (m : Nat) (s : Nat) (acc : List Nat) (rest : List Bool)
    (hm : ¬ (m ≠ 0 ∧ acc.length = m)) :
    ∀ (p : List Bool) (cur : Trie) (pend : List Bool), p ≠ [] → cur.walk p = .leaf s →
      decodeAux root m cur pend acc (p ++ rest) = decodeAux root m root [] (s :: acc) rest := by
  intro p
  induction p with
  | nil => intro _ _ h; exact absurd rfl h
  | cons b p ih =>
    intro cur pend _ hw
    cases p with
    | nil =>
      simp only [walk_cons, walk_nil] at hw
      simp only [List.cons_append, List.nil_append, decodeAux, hw]
      rw [if_neg hm]
    | cons b' p' =>
      simp only [walk_cons] at hw
      obtain ⟨z, o, hc⟩ := isNode_of_walk_leaf (c := cur.child b) (by simpa using hw)
      have := ih (cur.child b) (b :: pend) (by simp) (by simpa using hw)
      simp only [List.cons_append, decodeAux] at this ⊢
      rw [hc] at this ⊢
      exact this

/-- Unlimited decoder over the code words of `s`. -/
theorem decodeAux_encodeBits (s : List Nat) (hs : Bytes s) (acc : List Nat) (rest : List Bool) :
    decodeAux trie 0 trie [] acc (encodeBits s ++ rest) =
      decodeAux trie 0 trie [] (s.reverse ++ acc) rest := by
  induction s generalizing acc with
  | nil => rfl
  | cons c s ih =>
    have hc : c < 256 := hs c (by simp)
    have hs' : Bytes s := fun b hb => hs b (by simp [hb])
    have hne : symBits c ≠ [] := by
      intro h
      have := congrArg List.length h
      have := code_lt c hc
      simp at *
      omega
    simp only [encodeBits, List.flatMap_cons, List.append_assoc]
    rw [decodeAux_code trie 0 c acc _ (by simp) (symBits c) trie [] hne (walk_symBits c hc)]
    have := ih hs' (c :: acc)
    simp only [encodeBits] at this
    rw [this]
    simp

theorem ones_walk_succ (j : Nat) :
    (trie.walk (List.replicate j true)).child true = trie.walk (List.replicate (j + 1) true) := by
  rw [List.replicate_succ', walk_append]
  rfl

/-- Fewer than 8 one-bits after a symbol boundary are accepted as padding. -/
theorem decodeAux_pad (m : Nat) (acc : List Nat) (k : Nat) :
    ∀ j, j + k < 8 →
      decodeAux trie m (trie.walk (List.replicate j true)) (List.replicate j true) acc
        (List.replicate k true) = .ok acc.reverse := by
  induction k with
  | zero =>
    intro j hj
    simp only [List.replicate_zero, decodeAux, List.length_replicate]
    rw [if_neg (by omega)]
    simp
  | succ k ih =>
    intro j hj
    have hn := walk_ones_isNode (j + 1) (by omega)
    have hstep := ones_walk_succ j
    simp only [List.replicate_succ, decodeAux]
    rw [hstep]
    cases hw : trie.walk (List.replicate (j + 1) true) with
    | empty => rw [hw] at hn; simp [Gen.Huffman.Trie.isNode] at hn
    | leaf s => rw [hw] at hn; simp [Gen.Huffman.Trie.isNode] at hn
    | node z o =>
      simp only
      have := ih (j + 1) (by omega)
      rw [hw] at this
      simpa [List.replicate_succ] using this

theorem padLen_lt (n : Nat) : padLen n < 8 := by unfold padLen; omega
theorem padLen_mod (n : Nat) : (n + padLen n) % 8 = 0 := by unfold padLen; omega

theorem bits_encode (s : List Nat) :
    bytesToBits (encode s) = encodeBits s ++ List.replicate (padLen (encodeBits s).length) true := by
  unfold encode
  apply bytesToBits_packBits
  simp only [List.length_append, List.length_replicate]
  exact padLen_mod _

/-- **C04 (encode direction).** `HuffmanDecode(AppendHuffmanString(s)) = s` for every byte string. -/
theorem decode_encode (s : List Nat) (hs : Bytes s) : decode (encode s) = .ok s := by
  unfold decode decodeMax
  rw [bits_encode, decodeAux_encodeBits s hs]
  have := decodeAux_pad 0 (s.reverse ++ []) (padLen (encodeBits s).length) 0 (by have := padLen_lt (encodeBits s).length; omega)
  simpa using this

/-- **C04.** `HuffmanEncodeLength(s)` is the length of the encoding. -/
theorem encodeLength_eq (s : List Nat) : encodeLength s = (encode s).length := by
  unfold encode encodeLength
  rw [packBits_length, List.length_append, List.length_replicate, encodeBits_length]
  unfold padLen
  omega

/-! ### Canonicity: whatever is accepted is the encoding of its output -/

theorem decodeAux_sound (m : Nat) (bits : List Bool) :
    ∀ (cur : Trie) (pend : List Bool) (acc out : List Nat),
      cur = trie.walk pend.reverse →
      decodeAux trie m cur pend acc bits = .ok out →
      ∃ syms pad, out = acc.reverse ++ syms ∧ Bytes syms ∧
        pend.reverse ++ bits = encodeBits syms ++ pad ∧ pad.length < 8 ∧ pad.all id = true := by
  induction bits with
  | nil =>
    intro cur pend acc out _ h
    simp only [decodeAux] at h
    split at h
    · simp at h
    · split at h
      · rename_i hlen hall
        simp only [Except.ok.injEq] at h
        refine ⟨[], pend.reverse, by simp [h], by intro b hb; simp at hb, by simp [encodeBits], by simp; omega, ?_⟩
        simpa using hall
      · simp at h
  | cons b bs ih =>
    intro cur pend acc out hcur h
    simp only [decodeAux] at h
    have hstep : cur.child b = trie.walk (b :: pend).reverse := by
      rw [List.reverse_cons, walk_append, ← hcur]; rfl
    split at h
    · simp at h
    · rename_i s hleaf
      split at h
      · simp at h
      · obtain ⟨syms, pad, ho, hb, hbits, hp1, hp2⟩ := ih trie [] (s :: acc) out (by simp) h
        rw [hleaf] at hstep
        obtain ⟨hs, hsb⟩ := walk_leaf_unique _ s hstep.symm
        refine ⟨s :: syms, pad, by simp [ho], ?_, ?_, hp1, hp2⟩
        · intro x hx
          rcases List.mem_cons.mp hx with rfl | hx
          · exact hs
          · exact hb x hx
        · simp only [List.reverse_nil, List.nil_append] at hbits
          simp only [encodeBits, List.flatMap_cons, List.append_assoc] at hbits ⊢
          rw [hsb, ← hbits]
          simp
    · rename_i z o hnode
      rw [← hnode] at h
      obtain ⟨syms, pad, ho, hb, hbits, hp1, hp2⟩ := ih (cur.child b) (b :: pend) acc out hstep h
      exact ⟨syms, pad, ho, hb, by simpa using hbits, hp1, hp2⟩

theorem all_id_eq_replicate (p : List Bool) (h : p.all id = true) : p = List.replicate p.length true := by
  induction p with
  | nil => rfl
  | cons b p ih =>
    simp only [List.all_cons, id, Bool.and_eq_true] at h
    rw [List.length_cons, List.replicate_succ, ← ih h.2, h.1]

/-- The length-limited decoder only ever accepts what the unlimited one accepts, within the limit. -/
theorem decodeAux_limit (m : Nat) (bits : List Bool) :
    ∀ (cur : Trie) (pend : List Bool) (acc out : List Nat),
      decodeAux trie m cur pend acc bits = .ok out →
      decodeAux trie 0 cur pend acc bits = .ok out ∧ (m ≠ 0 → acc.length ≤ m → out.length ≤ m) := by
  induction bits with
  | nil =>
    intro cur pend acc out h
    simp only [decodeAux] at h ⊢
    refine ⟨h, ?_⟩
    intro _ hle
    split at h
    · simp at h
    · split at h
      · simp only [Except.ok.injEq] at h; rw [← h]; simpa using hle
      · simp at h
  | cons b bs ih =>
    intro cur pend acc out h
    simp only [decodeAux] at h ⊢
    split at h
    · simp at h
    · rename_i s hleaf
      split at h
      · simp at h
      · rename_i hnot
        obtain ⟨h0, hl⟩ := ih trie [] (s :: acc) out h
        refine ⟨by simpa using h0, ?_⟩
        intro hm hle
        apply hl hm
        simp only [List.length_cons]
        have : acc.length ≠ m := fun e => hnot ⟨hm, e⟩
        omega
    · rename_i z o hnode
      exact ih _ _ _ _ h

/-- Conversely, within the limit the limited decoder agrees with the unlimited one. -/
theorem decodeAux_within (m : Nat) (bits : List Bool) :
    ∀ (cur : Trie) (pend : List Bool) (acc out : List Nat),
      decodeAux trie 0 cur pend acc bits = .ok out → out.length ≤ m →
      decodeAux trie m cur pend acc bits = .ok out := by
  induction bits with
  | nil => intro cur pend acc out h _; simpa [decodeAux] using h
  | cons b bs ih =>
    intro cur pend acc out h hle
    simp only [decodeAux] at h ⊢
    split at h
    · simp at h
    · rename_i s hleaf
      simp only [ne_eq, not_true_eq_false, false_and, ↓reduceIte] at h
      have hsound := decodeAux_sound 0 bs trie [] (s :: acc) out (by simp) h
      obtain ⟨syms, _, ho, _⟩ := hsound
      have : acc.length < m := by
        have := congrArg List.length ho
        simp at this
        omega
      rw [if_neg (by omega)]
      exact ih _ _ _ _ h hle
    · rename_i z o hnode
      exact ih _ _ _ _ h hle

/-- **C04 (decode direction).** Any input `HuffmanDecode` accepts is exactly the canonical encoding
of its output (code words followed by at most 7 one-bits up to the byte boundary). -/
theorem encode_decode (v s : List Nat) (hv : Bytes v) (h : decode v = .ok s) :
    v = encode s ∧ Bytes s := by
  unfold decode decodeMax at h
  obtain ⟨syms, pad, ho, hb, hbits, hp1, hp2⟩ := decodeAux_sound 0 _ trie [] [] s (by simp) h
  simp only [List.reverse_nil, List.nil_append] at ho hbits
  subst ho
  refine ⟨?_, hb⟩
  have hlen := congrArg List.length hbits
  rw [bytesToBits_length, List.length_append] at hlen
  have hpad : pad.length = padLen (encodeBits s).length := by unfold padLen; omega
  have : pad = List.replicate (padLen (encodeBits s).length) true := by
    rw [← hpad]; exact all_id_eq_replicate pad hp2
  unfold encode
  rw [← this, ← hbits, packBits_bytesToBits v hv]

/-- `decode` is injective on what it accepts. -/
theorem decode_unique (v w s : List Nat) (hv : Bytes v) (hw : Bytes w)
    (h1 : decode v = .ok s) (h2 : decode w = .ok s) : v = w := by
  rw [(encode_decode v s hv h1).1, (encode_decode w s hw h2).1]

/-! ### Length-limited decoder (`huffmanDecode(buf, maxLen, v)` as used by the HPACK decoder) -/

theorem decodeMax_ok (m : Nat) (v s : List Nat) (h : decodeMax m v = .ok s) :
    decode v = .ok s ∧ (m ≠ 0 → s.length ≤ m) := by
  unfold decode decodeMax at *
  obtain ⟨h0, hl⟩ := decodeAux_limit m _ trie [] [] s h
  exact ⟨h0, fun hm => hl hm (by simp)⟩

theorem decodeMax_of_decode (m : Nat) (v s : List Nat) (h : decode v = .ok s) (hl : s.length ≤ m) :
    decodeMax m v = .ok s := by
  unfold decode decodeMax at *
  exact decodeAux_within m _ trie [] [] s h hl

theorem decodeMax_zero (v : List Nat) : decodeMax 0 v = decode v := rfl

/-! ### Rejections -/

theorem walk_ones_not_leaf (j : Nat) : ∀ s, trie.walk (List.replicate j true) ≠ .leaf s := by
  intro s h
  by_cases hj : j < 30
  · have := walk_ones_isNode j hj
    rw [h] at this
    simp [Gen.Huffman.Trie.isNode] at this
  · have : j = 30 + (j - 30) := by omega
    rw [this, ← List.replicate_append_replicate, walk_append, walk_ones_30, walk_empty] at h
    cases h

/-- 8 or more one-bits after a symbol boundary are never accepted. -/
theorem decodeAux_long_ones (m : Nat) (acc : List Nat) (k : Nat) :
    ∀ j, 8 ≤ j + k →
      decodeAux trie m (trie.walk (List.replicate j true)) (List.replicate j true) acc
        (List.replicate k true) = .error .invalid := by
  induction k with
  | zero =>
    intro j hj
    simp only [List.replicate_zero, decodeAux, List.length_replicate]
    rw [if_pos (by omega)]
  | succ k ih =>
    intro j hj
    simp only [List.replicate_succ, decodeAux]
    rw [ones_walk_succ j]
    cases hw : trie.walk (List.replicate (j + 1) true) with
    | empty => rfl
    | leaf s => exact absurd hw (walk_ones_not_leaf (j + 1) s)
    | node z o =>
      simp only
      have := ih (j + 1) (by omega)
      rw [hw] at this
      simpa [List.replicate_succ] using this

theorem bytesToBits_255 : bytesToBits [255] = List.replicate 8 true := by decide

/-- **Over-long padding is rejected**: a whole extra byte of EOS prefix after any encoding. -/
theorem reject_long_padding (s : List Nat) (hs : Bytes s) :
    decode (encode s ++ [255]) = .error .invalid := by
  unfold decode decodeMax
  rw [bytesToBits_append, bits_encode, bytesToBits_255, List.append_assoc,
    decodeAux_encodeBits s hs, List.replicate_append_replicate]
  exact decodeAux_long_ones 0 (s.reverse ++ []) (padLen (encodeBits s).length + 8) 0 (by omega)

/-- More generally: an accepted input never has 8 or more bits after its last symbol. -/
theorem accepted_padding_short (v s : List Nat) (hv : Bytes v) (h : decode v = .ok s) :
    8 * v.length - bitLen s < 8 ∧ bitLen s ≤ 8 * v.length := by
  have := (encode_decode v s hv h).1
  have hl := congrArg List.length this
  rw [← encodeLength_eq] at hl
  unfold encodeLength at hl
  omega

/-- Reading an incomplete code prefix `p` (every proper extension still inside the tree). -/
theorem decodeAux_partial (m : Nat) (acc : List Nat) (p : List Bool) :
    ∀ (cur : Trie) (pend : List Bool), (cur.walk p).isNode = true → cur.isNode = true →
      decodeAux trie m cur pend acc p =
        if (p.reverse ++ pend).length > 7 then .error .invalid
        else if (p.reverse ++ pend).all id then .ok acc.reverse else .error .invalid := by
  induction p with
  | nil => intro cur pend _ _; simp [decodeAux]
  | cons b p ih =>
    intro cur pend hw hc
    simp only [walk_cons] at hw
    simp only [decodeAux]
    cases hch : cur.child b with
    | empty => rw [hch] at hw; simp [Gen.Huffman.Trie.isNode] at hw
    | leaf s =>
      rw [hch] at hw
      cases p with
      | nil => simp [Gen.Huffman.Trie.isNode] at hw
      | cons b' p' => simp [Gen.Huffman.Trie.isNode] at hw
    | node z o =>
      simp only
      rw [← hch]
      have := ih (cur.child b) (b :: pend) hw (by rw [hch]; rfl)
      rw [this]
      simp

/-- **Non-EOS padding is rejected**: if the bits after the last complete symbol are an incomplete
code prefix containing a zero bit, the input is invalid. -/
theorem reject_non_eos_padding (s : List Nat) (hs : Bytes s) (p : List Bool)
    (hp : (trie.walk p).isNode = true) (hz : p.all id = false) :
    decodeAux trie 0 trie [] [] (encodeBits s ++ p) = .error .invalid := by
  rw [decodeAux_encodeBits s hs, decodeAux_partial 0 _ p trie [] hp trie_isNode]
  simp only [List.append_nil, List.length_reverse, List.all_reverse, hz]
  split <;> simp

/-- **The EOS symbol inside a string is rejected** (30 one-bits at a symbol boundary). -/
theorem reject_eos_symbol (s : List Nat) (hs : Bytes s) (rest : List Bool) :
    decodeAux trie 0 trie [] [] (encodeBits s ++ List.replicate 30 true ++ rest) = .error .invalid := by
  rw [List.append_assoc, decodeAux_encodeBits s hs]
  have key : ∀ k j acc, 30 ≤ j + k →
      decodeAux trie 0 (trie.walk (List.replicate j true)) (List.replicate j true) acc
        (List.replicate k true ++ rest) = .error .invalid := by
    intro k
    induction k with
    | zero =>
      intro j acc hj
      have hj' : j = 30 + (j - 30) := by omega
      have he : trie.walk (List.replicate j true) = .empty := by
        rw [hj', ← List.replicate_append_replicate, walk_append, walk_ones_30, walk_empty]
      rw [he]
      cases rest with
      | nil =>
        simp only [List.replicate_zero, List.append_nil, decodeAux, List.length_replicate]
        rw [if_pos (by omega)]
      | cons b rest => simp [decodeAux]
    | succ k ih =>
      intro j acc hj
      simp only [List.replicate_succ, List.cons_append, decodeAux]
      rw [ones_walk_succ j]
      cases hw : trie.walk (List.replicate (j + 1) true) with
      | empty => rfl
      | leaf s => exact absurd hw (walk_ones_not_leaf (j + 1) s)
      | node z o =>
        simp only
        have := ih (j + 1) acc (by omega)
        rw [hw] at this
        simpa [List.replicate_succ] using this
  exact key 30 0 (s.reverse ++ []) (by omega)

/-! ### The byte-level accumulator of `AppendHuffmanString` -/

/-- The accumulator model equals the bit-level specification for every byte string
(proved below as `appendHuffman_eq_encode`). -/
def AppendHuffmanEqEncodeStatement : Prop := ∀ s : List Nat, Bytes s → appendHuffman s = encode s

open NetVerif.Proofs.Lemmas.HuffmanAcc in
/-- Invariant of the loop of `AppendHuffmanString`: `bits` = all code bits so far = the bits already
written out (`done`, whole bytes) followed by the `n < 32` pending ones; `x` is the value of all bits
modulo 2^64 (older bits above the pending ones are never cleared, exactly as in the Go code). -/
def AccInv (a : Acc) (bits : List Bool) : Prop :=
  ∃ done pend, bits = done ++ pend ∧ done.length % 8 = 0 ∧ a.out = packBits done ∧
    a.n = pend.length ∧ a.n < 32 ∧ a.x = bitsToNat bits % 2 ^ 64

theorem accInv_init : AccInv { x := 0, n := 0, out := [] } [] :=
  ⟨[], [], rfl, rfl, rfl, rfl, by decide, by simp [bitsToNat]⟩

open NetVerif.Proofs.Lemmas.HuffmanAcc in
theorem accInv_step (a : Acc) (bits : List Bool) (c : Nat) (hc : c < 256) (h : AccInv a bits) :
    AccInv (accStep a c) (bits ++ symBits c) := by
  obtain ⟨done, pend, hb, hd, hout, hn, hn32, hx⟩ := h
  obtain ⟨hcode, hl5, hl30⟩ := code_lt c hc
  have hL64 : lenOf c % 64 = lenOf c := Nat.mod_eq_of_lt (by omega)
  have hsb : bitsToNat (symBits c) = codeOf c := by
    rw [symBits, bitsToNat_natToBits, Nat.mod_eq_of_lt hcode]
  have hx' : ((a.x <<< (lenOf c % 64)) % 2 ^ 64) ||| codeOf c = bitsToNat (bits ++ symBits c) % 2 ^ 64 := by
    rw [hL64, hx, step_x _ _ _ (by omega) hcode, bitsToNat_append, symBits_length, hsb]
  simp only [accStep]
  by_cases hge : a.n + lenOf c ≥ 32
  · simp only [hge, ↓reduceIte]
    have hplen : (pend ++ symBits c).length = a.n + lenOf c := by simp [hn]
    have hwlen : ((pend ++ symBits c).take 32).length = 32 := by
      rw [List.length_take, hplen]; omega
    have hrlen : ((pend ++ symBits c).drop 32).length = (a.n + lenOf c) % 32 := by
      rw [List.length_drop, hplen]; omega
    refine ⟨done ++ (pend ++ symBits c).take 32, (pend ++ symBits c).drop 32, ?_, ?_, ?_, ?_, ?_, ?_⟩
    · rw [hb, List.append_assoc, List.append_assoc, List.take_append_drop]
    · rw [List.length_append, hwlen]; omega
    · simp only
      rw [packBits_append _ _ hd, ← hout, packBits_eq_beBytes 4 _ (by rw [hwlen])]
      congr 2
      rw [hx']
      have hbits : bits ++ symBits c =
          (done ++ (pend ++ symBits c).take 32) ++ (pend ++ symBits c).drop 32 := by
        rw [hb, List.append_assoc, List.append_assoc, List.take_append_drop]
      rw [hbits, bitsToNat_append, bitsToNat_append, hwlen, hrlen]
      have hW := bitsToNat_lt ((pend ++ symBits c).take 32)
      have hR := bitsToNat_lt ((pend ++ symBits c).drop 32)
      rw [hwlen] at hW
      rw [hrlen] at hR
      exact extract32 _ _ _ _ (by omega) hW hR
    · simp only; rw [hrlen]
    · simp only; omega
    · simp only; exact hx'
  · simp only [hge, ↓reduceIte]
    refine ⟨done, pend ++ symBits c, ?_, hd, hout, ?_, ?_, hx'⟩
    · rw [hb, List.append_assoc]
    · simp [hn]
    · simp only; omega

theorem accInv_foldl (s : List Nat) (hs : Bytes s) : ∀ (a : Acc) (bits : List Bool), AccInv a bits →
    AccInv (s.foldl accStep a) (bits ++ encodeBits s) := by
  induction s with
  | nil => intro a bits h; simpa [encodeBits] using h
  | cons c s ih =>
    intro a bits h
    have hc : c < 256 := hs c (by simp)
    have hs' : Bytes s := fun b hb => hs b (by simp [hb])
    have := ih hs' _ _ (accInv_step a bits c hc h)
    simpa [encodeBits, List.append_assoc] using this

theorem fin1 (x : Nat) : [x % 256] = beBytes 1 x := by
  simp only [beBytes, List.cons.injEq, and_true, Nat.reduceMul, Nat.reducePow]; omega
theorem fin2 (x : Nat) : [(x % 2 ^ 16) >>> 8 % 256, x % 2 ^ 16 % 256] = beBytes 2 x := by
  simp only [beBytes, Nat.shiftRight_eq_div_pow, List.cons.injEq, and_true, Nat.reduceMul, Nat.reducePow]
  refine ⟨?_, ?_⟩ <;> omega
theorem fin3 (x : Nat) :
    [((x >>> 8) % 2 ^ 16) >>> 8 % 256, (x >>> 8) % 2 ^ 16 % 256, x % 256] = beBytes 3 x := by
  simp only [beBytes, Nat.shiftRight_eq_div_pow, List.cons.injEq, and_true, Nat.reduceMul, Nat.reducePow]
  refine ⟨?_, ?_, ?_⟩ <;> omega
theorem fin4 (x : Nat) :
    [(x % 2 ^ 32) >>> 24 % 256, (x % 2 ^ 32) >>> 16 % 256, (x % 2 ^ 32) >>> 8 % 256, x % 2 ^ 32 % 256] =
      beBytes 4 x := by
  simp only [beBytes, Nat.shiftRight_eq_div_pow, List.cons.injEq, and_true, Nat.reduceMul, Nat.reducePow]
  refine ⟨?_, ?_, ?_, ?_⟩ <;> omega

theorem pad_byte : ∀ o < 8, 0 < o → 255 >>> o = 2 ^ (8 - o) - 1 := by decide

open NetVerif.Proofs.Lemmas.HuffmanAcc in
/-- The bytes still to be written: the `k` low bytes of `x'` are the packed pending bits. -/
theorem acc_tail (a : Acc) (bits : List Bool) (h : AccInv a bits) (x' : Nat)
    (hx' : x' = bitsToNat (bits ++ List.replicate (padLen a.n) true) % 2 ^ 64) :
    a.out ++ beBytes ((a.n + padLen a.n) / 8) x' =
      packBits (bits ++ List.replicate (padLen a.n) true) := by
  obtain ⟨done, pend, hb, hd, hout, hn, hn32, hx⟩ := h
  have hmod := padLen_mod a.n
  have hlt := padLen_lt a.n
  have hk : (pend ++ List.replicate (padLen a.n) true).length = 8 * ((a.n + padLen a.n) / 8) := by
    simp only [List.length_append, List.length_replicate, ← hn]; omega
  rw [hb, List.append_assoc, packBits_append _ _ hd, ← hout,
    packBits_eq_beBytes _ _ hk]
  congr 1
  rw [hx', hb, List.append_assoc, beBytes_mod64 _ _ (by omega), bitsToNat_append, hk, beBytes_mod]

open NetVerif.Proofs.Lemmas.HuffmanAcc in
theorem accFinish_eq (a : Acc) (bits : List Bool) (h : AccInv a bits) :
    accFinish a = packBits (bits ++ List.replicate (padLen bits.length) true) := by
  have hinv := h
  obtain ⟨done, pend, hb, hd, hout, hn, hn32, hx⟩ := h
  have hpl : padLen bits.length = padLen a.n := by
    rw [hb, List.length_append, ← hn]; unfold padLen; omega
  rw [hpl]
  have hpad255 : Gen.Huffman.eosPadByte = 255 := eos_consts.2.2
  by_cases hov : a.n % 8 > 0
  · have hp : padLen a.n = 8 - a.n % 8 := by unfold padLen; omega
    have hxv : ((a.x <<< (8 - a.n % 8)) % 2 ^ 64) ||| (Gen.Huffman.eosPadByte >>> (a.n % 8)) =
        bitsToNat (bits ++ List.replicate (padLen a.n) true) % 2 ^ 64 := by
      rw [hpad255, pad_byte _ (Nat.mod_lt _ (by omega)) hov, hx,
        step_x _ _ _ (by omega) (by have := Nat.two_pow_pos (8 - a.n % 8); omega),
        bitsToNat_append, bitsToNat_ones, List.length_replicate, hp]
    have htail := acc_tail a bits hinv _ hxv
    rw [← htail, hp]
    have hk : (a.n + (8 - a.n % 8)) / 8 = 1 ∨ (a.n + (8 - a.n % 8)) / 8 = 2 ∨
        (a.n + (8 - a.n % 8)) / 8 = 3 ∨ (a.n + (8 - a.n % 8)) / 8 = 4 := by omega
    simp only [accFinish, hov, ↓reduceIte]
    rcases hk with hk | hk | hk | hk <;> rw [hk]
    · simp only; rw [fin1]
    · simp only; rw [fin2]
    · simp only; rw [fin3]
    · simp only; rw [fin4]
  · have hp : padLen a.n = 0 := by unfold padLen; omega
    have hxv : a.x = bitsToNat (bits ++ List.replicate (padLen a.n) true) % 2 ^ 64 := by
      rw [hp, List.replicate_zero, List.append_nil, hx]
    have htail := acc_tail a bits hinv _ hxv
    rw [← htail, hp, Nat.add_zero]
    have hk : a.n / 8 = 0 ∨ a.n / 8 = 1 ∨ a.n / 8 = 2 ∨ a.n / 8 = 3 := by omega
    simp only [accFinish, hov, ↓reduceIte]
    rcases hk with hk | hk | hk | hk <;> rw [hk]
    · simp [beBytes]
    · simp only; rw [fin1]
    · simp only; rw [fin2]
    · simp only; rw [fin3]

/-- **C04 (accumulator).** The 64-bit accumulator of `AppendHuffmanString` (flush of 4 bytes at
`n ≥ 32`, EOS padding, 0–4 trailing bytes) computes exactly the bit-level encoding. -/
theorem appendHuffman_eq_encode : AppendHuffmanEqEncodeStatement := by
  intro s hs
  unfold appendHuffman encode
  have := accInv_foldl s hs _ _ accInv_init
  rw [List.nil_append] at this
  exact accFinish_eq _ _ this

/-- `HuffmanDecode(AppendHuffmanString(s)) = s` on the byte-level model of the encoder. -/
theorem decode_appendHuffman (s : List Nat) (hs : Bytes s) : decode (appendHuffman s) = .ok s := by
  rw [appendHuffman_eq_encode s hs]; exact decode_encode s hs

/-! ### The byte-stride decoder of `huffmanDecode` (256-ary lookup tree, `cbits`/`sbits`) -/

/-- **Table obligation for the decoder's lookup tree**: the transcription of `buildRootHuffmanNode`,
evaluated by the kernel on the regenerated code tables, yields exactly the 8-bit-stride view of the
binary code tree (every slot of every node), never follows a leaf pointer, and dead ends of the
tree are behind one-bits only. -/
theorem table_lookup_tree :
    Lemmas.HuffmanStride.checkNode rootTable.tbl 5 0 trie = true ∧ rootTable.ok = true ∧
      Lemmas.HuffmanStride.checkNZ trie = true ∧ trie.isNode = true := Lemmas.HuffmanStride.rootTable_ok

/-- **C04 (decoder as coded).** The byte-stride loop of `huffmanDecode` — lookup tree, `cur`
(uint64), `cbits`/`sbits` (uint8), the `maxLen` check, the trailing `for cbits > 0` loop and the two
padding tests — computes exactly the bit-level decoder, for every input and every `maxLen`. -/
theorem decodeBytesMax_eq_decodeMax (m : Nat) (v : List Nat) (hv : Bytes v) :
    decodeBytesMax m v = decodeMax m v := Lemmas.HuffmanStride.decodeBytesMax_eq m v hv

theorem decodeBytes_eq_decode (v : List Nat) (hv : Bytes v) : decodeBytes v = decode v :=
  decodeBytesMax_eq_decodeMax 0 v hv

theorem packBits_bytes (bits : List Bool) : Bytes (packBits bits) := by
  fun_induction packBits bits with
  | case1 b0 b1 b2 b3 b4 b5 b6 b7 rest ih =>
    intro x hx
    rcases List.mem_cons.mp hx with rfl | hx
    · have := Lemmas.HuffmanAcc.bitsToNat_lt [b0, b1, b2, b3, b4, b5, b6, b7]
      simpa using this
    · exact ih x hx
  | case2 bits hne => intro x hx; simp at hx

theorem encode_bytes (s : List Nat) : Bytes (encode s) := packBits_bytes _

/-- Round trip through the two byte-level models of the Go functions:
`huffmanDecode(AppendHuffmanString(s)) = s`. -/
theorem decodeBytes_appendHuffman (s : List Nat) (hs : Bytes s) :
    decodeBytes (appendHuffman s) = .ok s := by
  rw [appendHuffman_eq_encode s hs, decodeBytes_eq_decode _ (encode_bytes s)]
  exact decode_encode s hs

/-- Canonicity for the decoder as coded: whatever `huffmanDecode` accepts is exactly
`AppendHuffmanString` of its output. -/
theorem decodeBytes_canonical (v s : List Nat) (hv : Bytes v) (h : decodeBytes v = .ok s) :
    v = appendHuffman s ∧ Bytes s := by
  rw [decodeBytes_eq_decode v hv] at h
  obtain ⟨h1, h2⟩ := encode_decode v s hv h
  exact ⟨by rw [appendHuffman_eq_encode s h2]; exact h1, h2⟩

/-- The length limit of the decoder as coded. -/
theorem decodeBytesMax_ok (m : Nat) (v s : List Nat) (hv : Bytes v) (h : decodeBytesMax m v = .ok s) :
    decodeBytes v = .ok s ∧ (m ≠ 0 → s.length ≤ m) := by
  rw [decodeBytesMax_eq_decodeMax m v hv] at h
  rw [decodeBytes_eq_decode v hv]
  exact decodeMax_ok m v s h

end NetVerif.Proofs.C04
