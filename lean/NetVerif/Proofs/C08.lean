import NetVerif.Model.SendWin
import NetVerif.Proofs.Lemmas.Flow
import NetVerif.Proofs.Lemmas.SendWin
import NetVerif.Proofs.Lemmas.SendWinRefine
/-!
C08 — the HTTP/2 server never sends DATA beyond the client's flow-control windows; pending data is
sent when a window reopens.  (C09, the client side, reuses everything here with `Role.client`.)

* (i)   `monitor_sound` / `monitor_complete`: the monitor run on recorded wire traces accepts a trace
        iff every DATA frame, at the moment it is sent, keeps Σ DATA ≤ credit on its stream (initial window
        at open + SETTINGS deltas + WINDOW_UPDATEs) and on the connection (65535 + WINDOW_UPDATEs), is no
        larger than the current SETTINGS_MAX_FRAME_SIZE, and is on an open stream (`TraceOK`).
        `data_within_credit` spells the consequence out for any position of a trace.
* (ii)  `mechanism_refines`: for every history of peer frames (windows driven negative by SETTINGS,
        overflowing / zero WINDOW_UPDATEs, invalid SETTINGS included), application writes and scheduler
        choices, the trace produced by the mechanism model (outflow add/take with the conn link and int32
        wrap-around, Consume / awaitFlowControl, processSetting*, processWindowUpdate, newStream) satisfies
        `TraceOK`.
* (iii) `consume_progress` / `consume_none_iff`: on the model, a queued non-empty DATA frame on a stream
        whose `available()` is positive always yields a non-empty piece (`min(len, available, limit,
        maxFrame)` bytes), and `Consume` refuses only when that minimum is ≤ 0.
-/
namespace NetVerif.Proofs.C08
open NetVerif.Model.SendWin NetVerif.Model.Flow NetVerif.Proofs.SendWin NetVerif.Proofs.Flow

/-! ### (i) the monitor decides the property -/

/-- Every trace the monitor accepts satisfies the property. -/
theorem monitor_sound (tr : List Ev) (m : Mon) (h : Mon.init.run tr = .ok m) : TraceOK Ledger.init tr :=
  run_sound tr rel_init h

/-- Ledger after a prefix. -/
def ledgerAfter (L : Ledger) : List Ev → Ledger
  | [] => L
  | e :: t => ledgerAfter (L.step e) t

theorem traceOK_at (L : Ledger) (pre : List Ev) (e : Ev) (post : List Ev) (h : TraceOK L (pre ++ e :: post)) :
    (ledgerAfter L pre).Sat e := by
  induction pre generalizing L with
  | nil => exact h.1
  | cons x t ih => exact ih (L.step x) h.2

/-- The statement of C08/C09 at an arbitrary position of an accepted trace: when the endpoint writes a DATA
frame of `len > 0` bytes on stream `sid`, the stream is open and, with `c`/`s` the credit granted to and the
payload already sent on that stream, `s + len ≤ c`; the same holds for the connection totals; and the frame
is no larger than the peer's current SETTINGS_MAX_FRAME_SIZE. -/
theorem data_within_credit (pre post : List Ev) (sid len : Nat) (fin : Bool) (m : Mon)
    (h : Mon.init.run (pre ++ .data sid len fin :: post) = .ok m) :
    let L := ledgerAfter Ledger.init pre
    (len : Int) ≤ L.maxFrame ∧
    ∃ c s, tget L.credit sid = some c ∧ tget L.sent sid = some s ∧
      (0 < len → s + len ≤ c ∧ L.connSent + len ≤ L.connCredit) :=
  traceOK_at Ledger.init pre _ post (monitor_sound _ m h)

/-! ### (ii) the send mechanism refines the monitor -/

/-- Every trace of the mechanism model is accepted by the monitor — server and client role, all histories. -/
theorem mechanism_accepted (r : Role) (acts : List Act) :
    ∃ m, Mon.init.run (Send.init.run r acts).2 = .ok m :=
  let ⟨m, e, _⟩ := run_sim r acts inv_init
  ⟨m, e⟩

/-- ... and therefore satisfies the property. -/
theorem mechanism_refines (r : Role) (acts : List Act) : TraceOK Ledger.init (Send.init.run r acts).2 :=
  let ⟨m, e⟩ := mechanism_accepted r acts
  monitor_sound _ m e

/-- The endpoint's own counters never exceed the peer's view, along every history (the simulation
relation itself, exported: `Inv` bounds `conn` and every stream counter by the monitor's windows). -/
theorem counters_below_peer_view (r : Role) (acts : List Act) :
    ∃ m, Mon.init.run (Send.init.run r acts).2 = .ok m ∧ Inv (Send.init.run r acts).1 m :=
  run_sim r acts inv_init

/-! ### (iii) progress on the model -/

/-- `Consume` on an open stream refuses exactly when the frame is non-empty and
`min(available, limit, maxFrameSize) ≤ 0`. -/
theorem consume_none_iff (s : Send) (sid len : Nat) (limit a : Int) (h7 : IsInt32 s.conn) (ha : IsInt32 a)
    (ea : tget s.wins sid = some a) :
    s.consume sid len limit = none ↔
      0 < len ∧ (min (min (s.flow a).available limit) s.maxFrame ≤ 0) := by
  unfold Send.consume
  simp only [ea]
  by_cases hl : len = 0
  · simp [hl]
  · simp only [hl, if_false]
    generalize hal : (if s.maxFrame < (if limit < (s.flow a).available then limit else (s.flow a).available)
        then s.maxFrame else (if limit < (s.flow a).available then limit else (s.flow a).available)) = allowed
    have hbnd : allowed = min (min (s.flow a).available limit) s.maxFrame := by
      subst hal; simp only [Int.min_def]; split <;> split <;> (try split) <;> omega
    by_cases hz : allowed ≤ 0
    · simp only [hz, if_true, true_iff]; exact ⟨by omega, by omega⟩
    · simp only [hz, if_false]
      have hav : allowed ≤ (s.flow a).available := by rw [hbnd]; simp only [Int.min_def]; split <;> split <;> omega
      by_cases hgt : (len : Int) > allowed
      · simp only [hgt, if_true]
        rw [take_some h7 sid a allowed ha (by omega) hav]
        simp; omega
      · simp only [hgt, if_false]
        rw [take_some h7 sid a len ha (by omega) (by omega)]
        simp; omega

/-- **Progress**: a queued non-empty DATA frame on a stream whose window (`available()`: min of the stream and
connection counters) is positive always yields a non-empty piece — of exactly
`min(len, available, limit, maxFrameSize)` bytes — and that amount is deducted from both counters. -/
theorem consume_progress (s : Send) (sid len : Nat) (limit a : Int) (h7 : IsInt32 s.conn) (ha : IsInt32 a)
    (ea : tget s.wins sid = some a) (hlen : 0 < len) (hav : 0 < (s.flow a).available) (hlim : 0 < limit)
    (hmf : 0 < s.maxFrame) :
    ∃ n s', s.consume sid len limit = some (n, s') ∧ 0 < n ∧
      (n : Int) = min (len : Int) (min (min (s.flow a).available limit) s.maxFrame) ∧
      s'.conn = s.conn - n ∧ tget s'.wins sid = some (a - n) := by
  cases hc : s.consume sid len limit with
  | none =>
    have := (consume_none_iff s sid len limit a h7 ha ea).1 hc
    simp only [Int.min_def] at this
    exfalso
    have h2 := this.2
    split at h2 <;> split at h2 <;> omega
  | some p =>
    obtain ⟨n, s'⟩ := p
    have tk := consume_took sid len limit a n h7 ha (by omega) ea hc
    refine ⟨n, s', rfl, ?_, ?_, tk.1.conn, by simpa using tk.1.wins sid⟩
    all_goals
      unfold Send.consume at hc
      simp only [ea] at hc
      have hl : ¬ len = 0 := by omega
      simp only [hl, if_false] at hc
      generalize hal : (if s.maxFrame < (if limit < (s.flow a).available then limit else (s.flow a).available)
          then s.maxFrame else (if limit < (s.flow a).available then limit else (s.flow a).available)) = allowed at hc
      have hbnd : allowed = min (min (s.flow a).available limit) s.maxFrame := by
        subst hal; simp only [Int.min_def]; split <;> split <;> (try split) <;> omega
      have hpos : 0 < allowed := by rw [hbnd]; simp only [Int.min_def]; split <;> split <;> omega
      have hav' : allowed ≤ (s.flow a).available := by rw [hbnd]; simp only [Int.min_def]; split <;> split <;> omega
      have hz : ¬ allowed ≤ 0 := by omega
      simp only [hz, if_false] at hc
      by_cases hgt : (len : Int) > allowed
      · simp only [hgt, if_true] at hc
        rw [take_some h7 sid a allowed ha (by omega) hav'] at hc
        simp only [Option.map_some, Option.some.injEq, Prod.mk.injEq] at hc
        have e : ((allowed.toNat : Nat) : Int) = allowed := Int.toNat_of_nonneg (by omega)
        have hn : (n : Int) = allowed := by rw [← hc.1]; exact e
        first | omega | (rw [← hbnd]; simp only [Int.min_def]; split <;> omega)
      · simp only [hgt, if_false] at hc
        rw [take_some h7 sid a len ha (by omega) (by omega)] at hc
        simp only [Option.map_some, Option.some.injEq, Prod.mk.injEq] at hc
        have hn : (n : Int) = len := by rw [← hc.1]
        first | omega | (rw [← hbnd]; simp only [Int.min_def]; split <;> omega)

end NetVerif.Proofs.C08
