import NetVerif.Model.SendWin
import NetVerif.Proofs.Lemmas.Flow
/-! C08 proofs (work in progress). -/
namespace NetVerif.Proofs.C08
open NetVerif.Model.SendWin

theorem init_ok : TraceOK Ledger.init [] := trivial

end NetVerif.Proofs.C08
