import NetVerif.Model.SendWin
import NetVerif.Proofs.Lemmas.SendWinFlow
import NetVerif.Proofs.Lemmas.SendWin
import NetVerif.Proofs.Lemmas.SendWinRefine
import NetVerif.Proofs.Lemmas.SendWinGen
/-!
C08 — the HTTP/2 server never sends DATA beyond the client's flow-control windows; pending data is
sent when a window reopens.  (C09, the client side, reuses everything here with `Role.client`.)

* (i)   `monitor_sound` / `monitor_complete`: the monitor run on recorded wire traces accepts a trace
        iff every DATA frame, at the moment it is sent, keeps Σ DATA ≤ credit on its stream (initial window
        at open + SETTINGS deltas + WINDOW_UPDATEs) and on the connection (65535 + WINDOW_UPDATEs), is no
        larger than the current SETTINGS_MAX_FRAME_SIZE, and is on an open stream (`TraceOK`).
        `data_within_credit` spells the consequence out for any position of a trace.
* (ii)  `mechanism_refines`: for every history of peer frames (windows driven negative by SETTINGS,
        overflowing / zero WINDOW_UPDATEs, invalid SETTINGS included), application writes and scheduler
        choices, the trace produced by the mechanism model (outflow add/take with the conn link and int32
        wrap-around, Consume / awaitFlowControl, processSetting*, processWindowUpdate, newStream) satisfies
        `TraceOK`.
* (iii) `consume_progress` / `consume_none_iff`: on the model, a queued non-empty DATA frame on a stream
        whose `available()` is positive always yields a non-empty piece (`min(len, available, limit,
        maxFrame)` bytes), and `Consume` refuses only when that minimum is ≤ 0.
-/
namespace NetVerif.Proofs.C08
open NetVerif.Model.SendWin NetVerif.Model.Flow NetVerif.Proofs.SendWin NetVerif.Proofs.SendWinFlow

/-! ### (i) the monitor decides the property -/

/-- Every trace the monitor accepts satisfies the property. -/
theorem monitor_sound (tr : List Ev) (m : Mon) (h : Mon.init.run tr = .ok m) : TraceOK Ledger.init tr :=
  run_sound tr rel_init h

/-- Conversely, the monitor accepts every trace that satisfies the property: it is exact. -/
theorem monitor_complete (tr : List Ev) (h : TraceOK Ledger.init tr) : ∃ m, Mon.init.run tr = .ok m := by
  have key : ∀ (tr : List Ev) (m : Mon) (L : Ledger), Rel m L → TraceOK L tr → ∃ m', m.run tr = .ok m' := by
    intro tr
    induction tr with
    | nil => intro m L _ _; exact ⟨m, rfl⟩
    | cons e t ih =>
      intro m L hr ⟨hs, ht⟩
      have hstep : ∃ m1, m.step e = .ok m1 := by
        cases e with
        | settings mfs iw => exact ⟨_, rfl⟩
        | wu sid inc =>
          simp only [Mon.step]
          split
          · exact ⟨_, rfl⟩
          · split
            · exact ⟨_, rfl⟩
            · split <;> exact ⟨_, rfl⟩
        | sopen sid =>
          simp only [Mon.step]
          by_cases hd : m.dead = true
          · simp [hd]
          · have hL : L.dead = false := by rw [← hr.dead]; simpa using hd
            have hc := hs hL
            rcases relS_cases (hr.str sid) with ⟨a, _, _⟩ | ⟨w, c, s0, _, b, _, _⟩
            · simp [hd, a]
            · rw [hc] at b; cases b
        | sclose sid => exact ⟨_, rfl⟩
        | data sid len fin =>
          obtain ⟨h1, c, s0, hc, hs0, h2⟩ := hs
          rcases relS_cases (hr.str sid) with ⟨_, b, _⟩ | ⟨w, c', s', a, b, d, e⟩
          · rw [hc] at b; cases b
          · rw [hc] at b; cases b
            rw [hs0] at d; cases d
            simp only [Mon.step, a]
            have g1 : ¬ (len : Int) > m.maxFrame := by rw [hr.mf]; omega
            have g2 : ¬ (0 < len ∧ (len : Int) > w) := by intro ⟨p, q⟩; have := h2 (by omega); omega
            have g3 : ¬ (0 < len ∧ (len : Int) > m.connWin) := by
              intro ⟨p, q⟩; have := h2 (by omega); have := hr.conn; omega
            rw [if_neg g1, if_neg g2, if_neg g3]
            exact ⟨_, rfl⟩
        | stop => exact ⟨_, rfl⟩
      obtain ⟨m1, e1⟩ := hstep
      obtain ⟨m', e'⟩ := ih m1 (L.step e) (step_sound hr e1).2 ht
      exact ⟨m', by simp only [Mon.run, e1, e']⟩
  exact key tr Mon.init Ledger.init rel_init h

/-- Ledger after a prefix. -/
def ledgerAfter (L : Ledger) : List Ev → Ledger
  | [] => L
  | e :: t => ledgerAfter (L.step e) t

theorem traceOK_at (L : Ledger) (pre : List Ev) (e : Ev) (post : List Ev) (h : TraceOK L (pre ++ e :: post)) :
    (ledgerAfter L pre).Sat e := by
  induction pre generalizing L with
  | nil => exact h.1
  | cons x t ih => exact ih (L.step x) h.2

/-- The statement of C08/C09 at an arbitrary position of an accepted trace: when the endpoint writes a DATA
frame of `len > 0` bytes on stream `sid`, the stream is open and, with `c`/`s` the credit granted to and the
payload already sent on that stream, `s + len ≤ c`; the same holds for the connection totals; and the frame
is no larger than the peer's current SETTINGS_MAX_FRAME_SIZE. -/
theorem data_within_credit (pre post : List Ev) (sid len : Nat) (fin : Bool) (m : Mon)
    (h : Mon.init.run (pre ++ .data sid len fin :: post) = .ok m) :
    let L := ledgerAfter Ledger.init pre
    (len : Int) ≤ L.maxFrame ∧
    ∃ c s, tget L.credit sid = some c ∧ tget L.sent sid = some s ∧
      (0 < len → s + len ≤ c ∧ L.connSent + len ≤ L.connCredit) :=
  traceOK_at Ledger.init pre _ post (monitor_sound _ m h)

/-! ### (ii) the send mechanism refines the monitor -/

/-- Every trace of the mechanism model is accepted by the monitor — server and client role, all histories. -/
theorem mechanism_accepted (r : Role) (acts : List Act) :
    ∃ m, Mon.init.run (Send.init.run r acts).2 = .ok m :=
  let ⟨m, e, _⟩ := run_sim r acts inv_init
  ⟨m, e⟩

/-- ... and therefore satisfies the property. -/
theorem mechanism_refines (r : Role) (acts : List Act) : TraceOK Ledger.init (Send.init.run r acts).2 :=
  let ⟨m, e⟩ := mechanism_accepted r acts
  monitor_sound _ m e

/-- The endpoint's own counters never exceed the peer's view, along every history (the simulation
relation itself, exported: `Inv` bounds `conn` and every stream counter by the monitor's windows). -/
theorem counters_below_peer_view (r : Role) (acts : List Act) :
    ∃ m, Mon.init.run (Send.init.run r acts).2 = .ok m ∧ Inv (Send.init.run r acts).1 m :=
  run_sim r acts inv_init

/-! ### (iii) progress on the model -/

/-- `Consume` on an open stream refuses exactly when the frame is non-empty and
`min(available, limit, maxFrameSize) ≤ 0`. -/
theorem consume_none_iff (s : Send) (sid len : Nat) (limit a : Int) (h7 : IsInt32 s.conn) (ha : IsInt32 a)
    (ea : tget s.wins sid = some a) :
    s.consume sid len limit = none ↔
      0 < len ∧ (min (min (s.flow a).available limit) s.maxFrame ≤ 0) := by
  unfold Send.consume
  simp only [ea]
  by_cases hl : len = 0
  · simp [hl]
  · simp only [hl, if_false]
    generalize hal : (if s.maxFrame < (if limit < (s.flow a).available then limit else (s.flow a).available)
        then s.maxFrame else (if limit < (s.flow a).available then limit else (s.flow a).available)) = allowed
    have hbnd : allowed = min (min (s.flow a).available limit) s.maxFrame := by
      subst hal; simp only [Int.min_def]; split <;> split <;> (try split) <;> omega
    by_cases hz : allowed ≤ 0
    · simp only [hz, if_true, true_iff]; exact ⟨by omega, by omega⟩
    · simp only [hz, if_false]
      have hav : allowed ≤ (s.flow a).available := by rw [hbnd]; simp only [Int.min_def]; split <;> split <;> omega
      by_cases hgt : (len : Int) > allowed
      · simp only [hgt, if_true]
        rw [take_some h7 sid a allowed ha (by omega) hav]
        simp; omega
      · simp only [hgt, if_false]
        rw [take_some h7 sid a len ha (by omega) (by omega)]
        simp; omega

/-- **Progress**: a queued non-empty DATA frame on a stream whose window (`available()`: min of the stream and
connection counters) is positive always yields a non-empty piece — of exactly
`min(len, available, limit, maxFrameSize)` bytes — and that amount is deducted from both counters. -/
theorem consume_progress (s : Send) (sid len : Nat) (limit a : Int) (h7 : IsInt32 s.conn) (ha : IsInt32 a)
    (ea : tget s.wins sid = some a) (hlen : 0 < len) (hav : 0 < (s.flow a).available) (hlim : 0 < limit)
    (hmf : 0 < s.maxFrame) :
    ∃ n s', s.consume sid len limit = some (n, s') ∧ 0 < n ∧
      (n : Int) = min (len : Int) (min (min (s.flow a).available limit) s.maxFrame) ∧
      s'.conn = s.conn - n ∧ tget s'.wins sid = some (a - n) := by
  cases hc : s.consume sid len limit with
  | none =>
    have := (consume_none_iff s sid len limit a h7 ha ea).1 hc
    simp only [Int.min_def] at this
    exfalso
    have h2 := this.2
    split at h2 <;> split at h2 <;> omega
  | some p =>
    obtain ⟨n, s'⟩ := p
    have tk := consume_took sid len limit a n h7 ha (by omega) ea hc
    refine ⟨n, s', rfl, ?_, ?_, tk.1.conn, by simpa using tk.1.wins sid⟩
    all_goals
      unfold Send.consume at hc
      simp only [ea] at hc
      have hl : ¬ len = 0 := by omega
      simp only [hl, if_false] at hc
      generalize hal : (if s.maxFrame < (if limit < (s.flow a).available then limit else (s.flow a).available)
          then s.maxFrame else (if limit < (s.flow a).available then limit else (s.flow a).available)) = allowed at hc
      have hbnd : allowed = min (min (s.flow a).available limit) s.maxFrame := by
        subst hal; simp only [Int.min_def]; split <;> split <;> (try split) <;> omega
      have hpos : 0 < allowed := by rw [hbnd]; simp only [Int.min_def]; split <;> split <;> omega
      have hav' : allowed ≤ (s.flow a).available := by rw [hbnd]; simp only [Int.min_def]; split <;> split <;> omega
      have hz : ¬ allowed ≤ 0 := by omega
      simp only [hz, if_false] at hc
      by_cases hgt : (len : Int) > allowed
      · simp only [hgt, if_true] at hc
        rw [take_some h7 sid a allowed ha (by omega) hav'] at hc
        simp only [Option.map_some, Option.some.injEq, Prod.mk.injEq] at hc
        have e : ((allowed.toNat : Nat) : Int) = allowed := Int.toNat_of_nonneg (by omega)
        have hn : (n : Int) = allowed := by rw [← hc.1]; exact e
        first | omega | (rw [← hbnd]; simp only [Int.min_def]; split <;> omega)
      · simp only [hgt, if_false] at hc
        rw [take_some h7 sid a len ha (by omega) (by omega)] at hc
        simp only [Option.map_some, Option.some.injEq, Prod.mk.injEq] at hc
        have hn : (n : Int) = len := by rw [← hc.1]
        first | omega | (rw [← hbnd]; simp only [Int.min_def]; split <;> omega)

/-! ### the same `Consume` as in the write-scheduler model (C12) -/

open NetVerif.Model.WriteSched in
/-- size of the piece a `Consume` result hands to the writer -/
def pieceSize : NetVerif.Model.WriteSched.CR → Option Nat
  | .none => none
  | .whole f => some f.dataSize
  | .split c _ => some c.dataSize

open NetVerif.Model.WriteSched in
/-- `Send.consume` (built from `Flow.Outflow`, int32 wrap-around included) and the scheduler model's
`Frame.consume` (C12, unbounded arithmetic on `Env`) agree on open streams with int32 counters: same decision,
same piece size, same windows afterwards. So C12's scheduler theorems speak about this mechanism. -/
theorem consume_matches_writesched (s : Send) (sid tag off len : Nat) (fin last : Bool) (limit a : Int)
    (h7 : IsInt32 s.conn) (ha : IsInt32 a) (ea : tget s.wins sid = some a) :
    (s.consume sid len limit).map (·.1) = pieceSize ((Frame.data sid tag off len fin last).consume s.toEnv limit).2 ∧
    ∀ n s', s.consume sid len limit = some (n, s') →
      s'.toEnv.connWin = ((Frame.data sid tag off len fin last).consume s.toEnv limit).1.connWin ∧
      s'.toEnv.maxFrame = ((Frame.data sid tag off len fin last).consume s.toEnv limit).1.maxFrame ∧
      ∀ j, s'.toEnv.win j = ((Frame.data sid tag off len fin last).consume s.toEnv limit).1.win j := by
  have hav : s.toEnv.avail sid = (s.flow a).available := by
    simp only [Env.avail, Send.toEnv, ea, Option.getD_some, Send.flow, Outflow.available, Int.min_def]
    repeat' split
    all_goals omega
  have hallowed : s.toEnv.allowed sid limit =
      (if s.maxFrame < (if limit < (s.flow a).available then limit else (s.flow a).available)
        then s.maxFrame else (if limit < (s.flow a).available then limit else (s.flow a).available)) := by
    rw [Env.allowed, hav]
    simp only [Int.min_def, Send.toEnv]
    repeat' split
    all_goals omega
  have av := avail_le s a
  have htake : ∀ (x : Int), (s.toEnv.take sid x).connWin = s.conn - x ∧ (s.toEnv.take sid x).maxFrame = s.maxFrame ∧
      ∀ j, (s.toEnv.take sid x).win j =
        ({ s with conn := s.conn - x, wins := tset s.wins sid (a - x) } : Send).toEnv.win j := by
    intro x
    refine ⟨rfl, rfl, ?_⟩
    intro j
    simp only [Env.take, Send.toEnv, tget_tset]
    by_cases hj : j = sid
    · subst hj; simp [ea]
    · have : ¬ sid = j := fun h => hj h.symm
      simp [hj, this]
  unfold Send.consume Frame.consume
  simp only [ea, hallowed]
  by_cases hl : len = 0
  · subst hl
    simp only [if_true, Option.map_some, pieceSize, Frame.dataSize, true_and]
    intro n s' h
    simp only [Option.some.injEq, Prod.mk.injEq] at h
    obtain ⟨_, rfl⟩ := h
    exact ⟨rfl, rfl, fun _ => rfl⟩
  · simp only [hl, if_false]
    generalize hal : (if s.maxFrame < (if limit < (s.flow a).available then limit else (s.flow a).available)
        then s.maxFrame else (if limit < (s.flow a).available then limit else (s.flow a).available)) = allowed
    have hle : allowed ≤ (s.flow a).available := by subst hal; split <;> split <;> omega
    by_cases hz : allowed ≤ 0
    · simp [hz, pieceSize]
    · simp only [hz, if_false]
      by_cases hgt : (len : Int) > allowed
      · simp only [hgt, if_true]
        rw [take_some h7 sid a allowed ha (by omega) hle]
        simp only [Option.map_some, pieceSize, Frame.dataSize, true_and]
        intro n s' h
        simp only [Option.some.injEq, Prod.mk.injEq] at h
        obtain ⟨_, rfl⟩ := h
        have := htake allowed
        exact ⟨this.1.symm, this.2.1.symm, fun j => (this.2.2 j).symm⟩
      · simp only [hgt, if_false]
        rw [take_some h7 sid a len ha (by omega) (by omega)]
        simp only [Option.map_some, pieceSize, Frame.dataSize, true_and]
        intro n s' h
        simp only [Option.some.injEq, Prod.mk.injEq] at h
        obtain ⟨_, rfl⟩ := h
        have := htake len
        exact ⟨this.1.symm, this.2.1.symm, fun j => (this.2.2 j).symm⟩

/-- `awaitFlowControl` (client): with a positive `available()` and a non-empty body chunk the wait ends with
`min(maxBytes, available, maxFrameSize)` > 0 bytes taken; with `available() ≤ 0` it keeps waiting. -/
theorem await_progress (s : Send) (sid maxBytes : Nat) (a : Int) (h7 : IsInt32 s.conn) (ha : IsInt32 a)
    (ea : tget s.wins sid = some a) (hmb : 0 < maxBytes) (hmf : 0 < s.maxFrame) :
    (0 < (s.flow a).available →
      ∃ n s', s.await sid maxBytes = some (n, s') ∧ 0 < n ∧
        (n : Int) = min (min (s.flow a).available (maxBytes : Int)) s.maxFrame ∧
        s'.conn = s.conn - n ∧ tget s'.wins sid = some (a - n)) ∧
    ((s.flow a).available ≤ 0 → s.await sid maxBytes = none) := by
  constructor
  · intro hav
    unfold Send.await
    simp only [ea, gt_iff_lt, hav, if_true]
    generalize hal : (if s.maxFrame < (if (maxBytes : Int) < (s.flow a).available then (maxBytes : Int) else (s.flow a).available)
        then s.maxFrame else (if (maxBytes : Int) < (s.flow a).available then (maxBytes : Int) else (s.flow a).available)) = t2
    have hbnd : t2 = min (min (s.flow a).available (maxBytes : Int)) s.maxFrame := by
      subst hal; simp only [Int.min_def]; split <;> split <;> (try split) <;> omega
    have hpos : 0 < t2 ∧ t2 ≤ (s.flow a).available := by
      rw [hbnd]; simp only [Int.min_def]; split <;> split <;> omega
    rw [take_some h7 sid a t2 ha (by omega) hpos.2]
    have e : ((t2.toNat : Nat) : Int) = t2 := Int.toNat_of_nonneg (by omega)
    refine ⟨t2.toNat, _, rfl, by omega, by rw [e, hbnd], by simp only [e], ?_⟩
    simp only [tget_tset, if_true, ea, Option.map_some, e]
  · intro hav
    unfold Send.await
    have : ¬ (s.flow a).available > 0 := by omega
    simp [ea, this]

/-! ### non-vacuity: a history in which SETTINGS drives a stream window negative

Initial window 100; 300 bytes queued → 100 sent. SETTINGS_INITIAL_WINDOW_SIZE := 10 makes the window −90:
nothing is sent, WINDOW_UPDATE(89) still leaves −1, WINDOW_UPDATE(2) reopens it by one byte; a later
WINDOW_UPDATE that would lift the window above 2^31-1 resets the stream instead. -/

def exActs : List Act :=
  [.settings none (some 100), .sopen 1, .send 1 300 false 2147483647, .settings none (some 10),
   .send 1 200 false 2147483647, .wu 1 89, .send 1 200 false 2147483647, .wu 1 2, .send 1 200 false 2147483647,
   .wu 1 5, .wu 1 2147483647, .send 1 199 true 2147483647]

example : (Send.init.run .server exActs).2 =
    [.settings none (some 100), .sopen 1, .data 1 100 false, .settings none (some 10), .wu 1 89, .wu 1 2,
     .data 1 1 false, .wu 1 5, .wu 1 2147483647, .sclose 1] := by decide

example : ((Send.init.run .server (exActs.take 4)).1.wins, (Send.init.run .server (exActs.take 4)).1.conn) =
    ([(1, -90)], 65435) := by decide

example : ∃ m, Mon.init.run (Send.init.run .client exActs).2 = .ok m := mechanism_accepted .client exActs

end NetVerif.Proofs.C08
