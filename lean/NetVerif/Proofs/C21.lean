import NetVerif.Model.StreamLimits
import NetVerif.Gen.C21
import NetVerif.Model.StreamWire
/-!
C21 — QUIC stream-count limits are never exceeded.

All theorems are about the exact counter model `Model/StreamLimits.lean` of
quic/stream_limits.go and hold for every history of operations (no bound on length).
-/
namespace NetVerif.Proofs.C21
open NetVerif NetVerif.Model.StreamLimits

/-! ## localStreamLimits: streams opened by us -/

/-- Invariant of `localStreamLimits`. -/
structure LInv (l : Local) : Prop where
  gate : l.gate = gateCond l.opened l.max
  max_nonneg : 0 ≤ l.max
  opened_ge : -1 ≤ l.opened
  opened_le : l.opened ≤ l.max

theorem local_inv_init : LInv Local.init := by
  constructor <;> simp [Local.init, gateCond]

theorem local_inv_step (l : Local) (op : LOp) (h : LInv l) : LInv (l.step op) := by
  obtain ⟨mx, op', g⟩ := l
  obtain ⟨hg, h0, h1, h2⟩ := h
  simp only [gateCond] at hg h0 h1 h2
  cases op <;>
    simp only [Local.step, Local.open, Local.setMax, Local.connHasClosed, Local.wasOpened, Local.unlock]
  · -- open
    cases g
    · exact ⟨hg, h0, h1, h2⟩
    · have hlt : op' < mx := by simpa using hg.symm
      simp only
      split
      · constructor <;> simp [gateCond] <;> omega
      · constructor <;> simp [gateCond] <;> omega
  · constructor <;> simp [gateCond] <;> omega
  · constructor <;> simp [gateCond] <;> omega
  · constructor <;> simp [gateCond] <;> omega

theorem local_inv_run (ops : List LOp) (l : Local) (h : LInv l) : LInv (l.run ops) := by
  induction ops generalizing l with
  | nil => simpa [Local.run] using h
  | cons op rest ih => exact ih _ (local_inv_step l op h)

/-- States reachable from a fresh `localStreamLimits` by any history. -/
def LReachable (l : Local) : Prop := ∃ ops, l = Local.init.run ops

theorem local_reachable_inv {l : Local} (h : LReachable l) : LInv l := by
  obtain ⟨ops, rfl⟩ := h; exact local_inv_run ops _ local_inv_init

/-- **NewStream blocks iff the peer's MAX_STREAMS quota is exhausted** (`opened ≥ max`),
in every reachable state. -/
theorem local_open_blocks_iff {l : Local} (h : LReachable l) :
    l.open.2 = OpenRes.blocked ↔ l.opened ≥ l.max := by
  have hi := local_reachable_inv h
  obtain ⟨mx, op', g⟩ := l
  obtain ⟨hg, h0, h1, h2⟩ := hi
  simp only [gateCond] at hg h0 h1 h2
  unfold Local.open
  cases g
  · have : ¬ op' < mx := by simpa using hg.symm
    simp; omega
  · have hlt : op' < mx := by simpa using hg.symm
    simp only
    split <;> simp <;> omega

/-- **We never open a stream whose number is at or beyond the peer's current MAX_STREAMS**:
a successful `open` returns `num = opened < max`, and `opened` advances by exactly one. -/
theorem local_open_within_limit {l : Local} (h : LReachable l) (n : Int)
    (hok : l.open.2 = OpenRes.ok n) :
    n < l.max ∧ n = l.opened ∧ 0 ≤ n ∧ l.open.1.opened = n + 1 ∧ l.open.1.max = l.max := by
  have hi := local_reachable_inv h
  obtain ⟨mx, op', g⟩ := l
  obtain ⟨hg, h0, h1, h2⟩ := hi
  simp only [gateCond] at hg h0 h1 h2
  unfold Local.open at hok ⊢
  cases g
  · simp at hok
  · have hlt : op' < mx := by simpa using hg.symm
    simp only at hok ⊢
    split at hok
    · simp at hok
    · rename_i hneg
      simp only [if_neg hneg]
      simp [Local.unlock] at hok ⊢
      omega

/-- A closed conn never opens (and never blocks): `open` reports `errConnClosed`. -/
theorem local_closed_open {l : Local} (h : LReachable l) (hc : l.opened < 0) :
    l.open.2 = OpenRes.closed ∧ l.open.1.opened = l.opened := by
  have hi := local_reachable_inv h
  obtain ⟨mx, op', g⟩ := l
  obtain ⟨hg, h0, h1, h2⟩ := hi
  simp only [gateCond] at hg h0 h1 h2 hc
  have hgt : g = true := by rw [hg]; simp; omega
  subst hgt
  simp [Local.open, hc, Local.unlock]

/-- The peer-provided limit never decreases (stale / reordered MAX_STREAMS frames are ignored). -/
theorem local_max_mono_step (l : Local) (op : LOp) : l.max ≤ (l.step op).max := by
  cases op <;> simp only [Local.step, Local.open, Local.setMax, Local.connHasClosed, Local.wasOpened, Local.unlock]
  · split
    · simp
    · split <;> simp
  · exact Int.le_max_left _ _
  · simp
  · simp

theorem local_max_mono_run (ops : List LOp) (l : Local) : l.max ≤ (l.run ops).max := by
  induction ops generalizing l with
  | nil => simp [Local.run]
  | cons op rest ih =>
    have h1 := local_max_mono_step l op
    have h2 := ih (l.step op)
    simp only [Local.run, List.foldl_cons] at h2 ⊢
    omega

/-- `setMax` takes the maximum. -/
theorem local_setMax_max (l : Local) (m : Int) : (l.setMax m).max = max l.max m ∧ (l.setMax m).opened = l.opened := by
  simp [Local.setMax, Local.unlock]

/-! ## remoteStreamLimits: streams opened by the peer -/

/-- Invariant of `remoteStreamLimits`. -/
structure RInv (r : Remote) : Prop where
  opened_le_max : r.opened ≤ r.max
  max_le : r.max ≤ r.closed + r.maxOpen
  implicit : r.max ≤ r.opened + implicitStreamLimit
  opened_nonneg : 0 ≤ r.opened
  closed_nonneg : 0 ≤ r.closed

theorem maxRemoteStreams_range (v : Int) : 0 ≤ maxRemoteStreams v ∧ maxRemoteStreams v ≤ maxStreamsLimit := by
  unfold maxRemoteStreams configDefault maxStreamsLimit
  split
  · omega
  · split <;> omega

theorem remote_inv_init (maxOpen : Int) (h : 0 ≤ maxOpen) : RInv (Remote.init maxOpen) := by
  constructor <;> simp [Remote.init, implicitStreamLimit] <;> omega

theorem remote_inv_maybeUpdateMax (r : Remote) (h : RInv r) : RInv r.maybeUpdateMax := by
  obtain ⟨h1, h2, h3, h4, h5⟩ := h
  unfold Remote.maybeUpdateMax
  split
  · rename_i hs
    simp [Remote.shouldUpdate, Remote.newMax, implicitStreamLimit] at hs
    constructor <;> simp [Remote.newMax, implicitStreamLimit] <;> omega
  · exact ⟨h1, h2, h3, h4, h5⟩

theorem remote_inv_step (r : Remote) (op : ROp) (h : RInv r) : RInv (r.step op) := by
  cases op with
  | «open» n =>
    simp only [Remote.step, Remote.open]
    split
    · exact h
    · split
      · apply remote_inv_maybeUpdateMax
        obtain ⟨h1, h2, h3, h4, h5⟩ := h
        constructor <;> simp <;> omega
      · exact h
  | close =>
    simp only [Remote.step, Remote.close]
    apply remote_inv_maybeUpdateMax
    obtain ⟨h1, h2, h3, h4, h5⟩ := h
    constructor <;> simp <;> omega
  | appendFrame =>
    simp only [Remote.step, Remote.appendFrame]
    split
    · obtain ⟨h1, h2, h3, h4, h5⟩ := h
      constructor <;> simp <;> omega
    · exact h

theorem remote_inv_run (ops : List ROp) (r : Remote) (h : RInv r) : RInv (r.run ops) := by
  induction ops generalizing r with
  | nil => simpa [Remote.run] using h
  | cons op rest ih => exact ih _ (remote_inv_step r op h)

/-- States reachable from `init(maxOpen)` with a configuration-derived `maxOpen` by any history. -/
def RReachable (r : Remote) : Prop := ∃ cfg ops, r = (Remote.init (maxRemoteStreams cfg)).run ops

theorem remote_reachable_inv {r : Remote} (h : RReachable r) : RInv r := by
  obtain ⟨cfg, ops, rfl⟩ := h
  exact remote_inv_run ops _ (remote_inv_init _ (maxRemoteStreams_range cfg).1)

/-- `maxOpen` is fixed by the configuration. -/
theorem remote_maxOpen_step (r : Remote) (op : ROp) : (r.step op).maxOpen = r.maxOpen := by
  cases op <;> simp only [Remote.step, Remote.open, Remote.close, Remote.appendFrame, Remote.maybeUpdateMax]
  · repeat' split
    all_goals simp
  · split <;> simp
  · split <;> simp

theorem remote_maxOpen_run (ops : List ROp) (r : Remote) : (r.run ops).maxOpen = r.maxOpen := by
  induction ops generalizing r with
  | nil => simp [Remote.run]
  | cons op rest ih =>
    have := ih (r.step op)
    simp only [Remote.run, List.foldl_cons] at this ⊢
    rw [this, remote_maxOpen_step]

/-- **The peer never holds more simultaneously open streams than configured**
(`opened − closed ≤ maxOpen ≤ MaxBidiRemoteStreams/MaxUniRemoteStreams`), in every reachable state;
moreover the advertised limit never allows it to (`max ≤ closed + maxOpen`), and a single frame can
implicitly open at most `implicitStreamLimit` streams. -/
theorem remote_open_streams_bounded {r : Remote} (h : RReachable r) :
    r.opened - r.closed ≤ r.maxOpen ∧ r.max - r.closed ≤ r.maxOpen ∧ r.opened ≤ r.max ∧
    r.max - r.opened ≤ implicitStreamLimit := by
  have hi := remote_reachable_inv h
  obtain ⟨h1, h2, h3, _, _⟩ := hi
  omega

/-- The configured bound itself: `maxOpen = configDefault(cfg, 100, 2^60)` throughout. -/
theorem remote_maxOpen_is_config (cfg : Int) (ops : List ROp) :
    ((Remote.init (maxRemoteStreams cfg)).run ops).maxOpen = maxRemoteStreams cfg := by
  rw [remote_maxOpen_run]; rfl

/-- **A peer that opens a stream at or beyond the advertised limit gets STREAM_LIMIT_ERROR, and only then.** -/
theorem remote_open_error_iff (r : Remote) (n : Int) : (r.open n).2 = false ↔ n ≥ r.max := by
  unfold Remote.open
  split
  · simp; omega
  · split <;> simp <;> omega

/-- A rejected open leaves the counters untouched. -/
theorem remote_open_error_unchanged (r : Remote) (n : Int) (h : (r.open n).2 = false) : (r.open n).1 = r := by
  unfold Remote.open at h ⊢
  by_cases h1 : n ≥ r.max
  · simp [h1]
  · by_cases h2 : n ≥ r.opened
    · simp [h1, h2] at h
    · simp [h1, h2] at h

/-- An accepted open makes `opened > n` (implicitly opening every lower-numbered stream). -/
theorem remote_open_ok_opened (r : Remote) (n : Int) (h : (r.open n).2 = true) :
    n < (r.open n).1.opened ∧ r.opened ≤ (r.open n).1.opened := by
  unfold Remote.open at h ⊢
  split
  · simp_all
  · split
    · simp only [Remote.maybeUpdateMax]
      split <;> simp <;> omega
    · simp; omega

/-- **The limit we advertise never decreases** (single step). -/
theorem remote_max_mono_step (r : Remote) (op : ROp) : r.max ≤ (r.step op).max := by
  have hm : ∀ q : Remote, q.max ≤ q.maybeUpdateMax.max := by
    intro q
    unfold Remote.maybeUpdateMax
    split
    · rename_i hs
      simp [Remote.shouldUpdate] at hs
      simp; omega
    · simp
  cases op with
  | «open» n =>
    simp only [Remote.step, Remote.open]
    split
    · simp
    · split
      · exact hm _
      · simp
  | close => exact hm _
  | appendFrame =>
    simp only [Remote.step, Remote.appendFrame]
    split <;> simp

theorem remote_max_mono_run (ops : List ROp) (r : Remote) : r.max ≤ (r.run ops).max := by
  induction ops generalizing r with
  | nil => simp [Remote.run]
  | cons op rest ih =>
    have h1 := remote_max_mono_step r op
    have h2 := ih (r.step op)
    simp only [Remote.run, List.foldl_cons] at h2 ⊢
    omega

private theorem frames_appendFrame (r : Remote) (rest : List ROp) :
    Remote.frames r (.appendFrame :: rest) =
      if r.sendUnsent then r.max :: Remote.frames { r with sendUnsent := false } rest
      else Remote.frames r rest := by
  simp only [Remote.frames, Remote.appendFrame]
  split <;> simp

private theorem frames_ge (ops : List ROp) (r : Remote) : ∀ v ∈ Remote.frames r ops, r.max ≤ v := by
  induction ops generalizing r with
  | nil => simp [Remote.frames]
  | cons op rest ih =>
    intro v hv
    cases op with
    | appendFrame =>
      rw [frames_appendFrame] at hv
      split at hv
      · simp only [List.mem_cons] at hv
        rcases hv with rfl | hv
        · exact Int.le_refl _
        · exact ih { r with sendUnsent := false } v hv
      · exact ih _ v hv
    | «open» n =>
      simp only [Remote.frames] at hv
      have h1 := remote_max_mono_step r (.open n)
      have := ih _ v hv
      omega
    | close =>
      simp only [Remote.frames] at hv
      have h1 := remote_max_mono_step r .close
      have := ih _ v hv
      omega

/-- **The MAX_STREAMS values put on the wire never decrease**, along any history from any state,
and none is below the limit that was in force when the history began (in particular the
`initial_max_streams_*` transport parameter). -/
theorem remote_frames_monotone (ops : List ROp) (r : Remote) :
    (Remote.frames r ops).Pairwise (· ≤ ·) ∧ ∀ v ∈ Remote.frames r ops, r.max ≤ v := by
  refine ⟨?_, frames_ge ops r⟩
  induction ops generalizing r with
  | nil => simp [Remote.frames]
  | cons op rest ih =>
    cases op with
    | appendFrame =>
      rw [frames_appendFrame]
      split
      · simp only [List.pairwise_cons]
        refine ⟨?_, ih _⟩
        intro v hv
        exact frames_ge rest { r with sendUnsent := false } v hv
      · exact ih _
    | «open» n => simp only [Remote.frames]; exact ih _
    | close => simp only [Remote.frames]; exact ih _

/-- The update heuristic never starves the peer: whenever fewer than 8 streams remain available
and a larger limit is permitted, the larger limit is adopted (and scheduled for sending). -/
theorem remote_heuristic_no_starvation (r : Remote) :
    (r.maybeUpdateMax.max = r.newMax ∧ r.maybeUpdateMax.sendUnsent = true) ∨
    r.newMax ≤ r.max ∨ (8 ≤ r.max - r.opened ∧ r.newMax - r.max < 2 * (r.max - r.opened)) := by
  unfold Remote.maybeUpdateMax
  split
  · simp
  · rename_i hs
    simp [Remote.shouldUpdate] at hs
    by_cases h : r.newMax ≤ r.max
    · exact Or.inr (Or.inl h)
    · have := hs (by omega)
      exact Or.inr (Or.inr (by omega))

/-- No `int64` overflow: with `maxOpen ≤ 2^60`, stream numbers `< 2^60` and `closed ≤ opened`,
every intermediate value of `maybeUpdateMax` is below `2^62`. -/
theorem remote_no_overflow {r : Remote} (h : RInv r) (hm : r.maxOpen ≤ maxStreamsLimit)
    (hc : r.closed ≤ r.opened) (ho : r.opened ≤ maxStreamsLimit) :
    r.closed + r.maxOpen < 2^62 ∧ r.opened + implicitStreamLimit < 2^62 ∧ r.max < 2^62 ∧
    2 * (r.max - r.opened) < 2^62 := by
  obtain ⟨h1, h2, h3, h4, h5⟩ := h
  simp only [maxStreamsLimit, implicitStreamLimit] at *
  omega

/-! ## "advertised" read literally: the last value actually sent -/

/-- History state with the ghost "last MAX_STREAMS value the peer was told" (initially the
`initial_max_streams_*` transport parameter). -/
structure RH where
  r : Remote
  lastSent : Int

def RH.init (cfg : Int) : RH := ⟨Remote.init (maxRemoteStreams cfg), (Remote.init (maxRemoteStreams cfg)).max⟩

def RH.step (h : RH) : ROp → RH
  | .appendFrame => ⟨h.r.appendFrame.1, (h.r.appendFrame.2).getD h.lastSent⟩
  | op => ⟨h.r.step op, h.lastSent⟩

def RH.run (h : RH) (ops : List ROp) : RH := ops.foldl RH.step h

/-- The sent value never exceeds `lim.max`, and equals it whenever nothing is waiting to be sent. -/
theorem rh_inv (cfg : Int) (ops : List ROp) :
    ((RH.init cfg).run ops).lastSent ≤ ((RH.init cfg).run ops).r.max ∧
    (((RH.init cfg).run ops).r.sendUnsent = false → ((RH.init cfg).run ops).lastSent = ((RH.init cfg).run ops).r.max) := by
  suffices H : ∀ (h : RH), (h.lastSent ≤ h.r.max ∧ (h.r.sendUnsent = false → h.lastSent = h.r.max)) →
      ((h.run ops).lastSent ≤ (h.run ops).r.max ∧ ((h.run ops).r.sendUnsent = false → (h.run ops).lastSent = (h.run ops).r.max)) by
    exact H _ ⟨Int.le_refl _, fun _ => rfl⟩
  induction ops with
  | nil => intro h hh; simpa [RH.run] using hh
  | cons op rest ih =>
    intro h hh
    simp only [RH.run, List.foldl_cons]
    apply ih
    obtain ⟨h1, h2⟩ := hh
    have hm : ∀ q : Remote, h.lastSent ≤ q.max → (q.sendUnsent = false → h.lastSent = q.max) →
        h.lastSent ≤ q.maybeUpdateMax.max ∧ (q.maybeUpdateMax.sendUnsent = false → h.lastSent = q.maybeUpdateMax.max) := by
      intro q a b
      unfold Remote.maybeUpdateMax
      split
      · rename_i hs
        simp [Remote.shouldUpdate] at hs
        refine ⟨by simp; omega, by simp⟩
      · exact ⟨a, b⟩
    cases op with
    | appendFrame =>
      simp only [RH.step, Remote.appendFrame]
      split
      · simp
      · rename_i hu
        simp only [Option.getD_none]
        exact ⟨h1, fun _ => h2 (by simpa using hu)⟩
    | «open» n =>
      simp only [RH.step, Remote.step, Remote.open]
      split
      · exact ⟨h1, h2⟩
      · split
        · exact hm _ h1 h2
        · exact ⟨h1, h2⟩
    | close => exact hm _ h1 h2

/-- The literal statement: a stream is refused iff its number is at or beyond the last limit
the peer was actually told. -/
def SentLimitStatement : Prop :=
  ∀ (cfg : Int) (ops : List ROp) (n : Int),
    ((((RH.init cfg).run ops).r.open n).2 = false ↔ n ≥ ((RH.init cfg).run ops).lastSent)

/-- **full_false**: `maybeUpdateMax` raises `lim.max` before the MAX_STREAMS frame is written.
maxOpen = 1: stream 0 opened and closed ⇒ `lim.max = 2` (frame pending); stream 1 is accepted
although the peer was only ever told 1. -/
theorem sent_limit_full_false : ¬ SentLimitStatement := by
  intro h
  have := h 1 [.open 0, .close] 1
  revert this
  decide

/-- **holds_partial**: outside the window `sendUnsent ∧ lastSent ≤ n < lim.max` the literal
statement holds in every reachable state; inside it the stream is accepted. -/
theorem sent_limit_holds_partial (cfg : Int) (ops : List ROp) (n : Int)
    (hex : ¬ (((RH.init cfg).run ops).r.sendUnsent = true ∧ ((RH.init cfg).run ops).lastSent ≤ n ∧
              n < ((RH.init cfg).run ops).r.max)) :
    ((((RH.init cfg).run ops).r.open n).2 = false ↔ n ≥ ((RH.init cfg).run ops).lastSent) := by
  obtain ⟨h1, h2⟩ := rh_inv cfg ops
  rw [remote_open_error_iff]
  cases hu : ((RH.init cfg).run ops).r.sendUnsent with
  | false => have := h2 hu; omega
  | true =>
    constructor
    · intro h; omega
    · intro h
      apply Classical.byContradiction; intro hn
      exact hex ⟨hu, h, by omega⟩

/-! ## the wire monitor (V-tie): every accepted trace satisfies the clauses of C21 -/

section Wire
open NetVerif.Model.StreamWire

abbrev WEv := NetVerif.Model.StreamWire.Ev

/-- MAX_STREAMS values the Conn sent, in order. -/
def maxVals (tr : List WEv) : List Int := tr.filterMap fun | .maxStreams v => some v | _ => none
/-- MAX_STREAMS values the peer sent, in order. -/
def grantVals (tr : List WEv) : List Int := tr.filterMap fun | .peerMax v => some v | _ => none
/-- The limit the peer was last told: the last MAX_STREAMS sent, else the transport parameter. -/
def advAt (a0 : Int) (pre : List WEv) : Int := (maxVals pre).getLast?.getD a0
/-- The largest limit the peer ever granted (stale/reordered MAX_STREAMS are ignored). -/
def grantAt (g0 : Int) (pre : List WEv) : Int := (grantVals pre).foldl max g0
def lcountAt (pre : List WEv) : Int := (pre.filter fun | .localOpen (some _) => true | _ => false).length
/-- Completely closed PEER-initiated streams (locally initiated ones do not count). -/
def ccountAt (pre : List WEv) : Int := (pre.filter fun | .closed => true | _ => false).length

/-- The clauses of C21 for one observed event after the prefix `pre` (one stream type). -/
def GoodAt (st0 : St) (pre : List WEv) : WEv → Prop
  | .peerOpen n err => (err = true ↔ n ≥ advAt st0.adv pre)   -- STREAM_LIMIT_ERROR iff beyond the advertised limit
  | .accepted n => n < advAt st0.adv pre
  | .maxStreams v => advAt st0.adv pre ≤ v ∧                   -- never decreases
      v - (st0.ccount + ccountAt pre) ≤ st0.cfg                -- peer never holds more than configured
  | .localOpen (some n) => n = st0.lcount + lcountAt pre ∧ n < grantAt st0.grant pre
  | .localOpen none => st0.lcount + lcountAt pre ≥ grantAt st0.grant pre   -- blocks only without quota
  | _ => True

private theorem getLast_cons_getD (v a0 : Int) (l : List Int) : (v :: l).getLast?.getD a0 = l.getLast?.getD v := by
  cases l with
  | nil => rfl
  | cons x xs =>
    rw [List.getLast?_cons_cons]
    cases h : (x :: xs).getLast? with
    | none => simp at h
    | some y => rfl

private theorem wafter_spec (pre : List WEv) : ∀ (st : St),
    (after st pre).adv = advAt st.adv pre ∧ (after st pre).grant = grantAt st.grant pre ∧
    (after st pre).lcount = st.lcount + lcountAt pre ∧ (after st pre).ccount = st.ccount + ccountAt pre ∧
    (after st pre).cfg = st.cfg := by
  induction pre with
  | nil => intro st; simp [after, advAt, grantAt, lcountAt, ccountAt, maxVals, grantVals]
  | cons e rest ih =>
    intro st
    obtain ⟨a, b, c, d, f⟩ := ih (next st e)
    simp only [after, List.foldl_cons] at a b c d f ⊢
    rw [a, b, c, d, f]
    cases e with
    | peerOpen n err => simp [next, advAt, grantAt, lcountAt, ccountAt, maxVals, grantVals]
    | accepted n => simp [next, advAt, grantAt, lcountAt, ccountAt, maxVals, grantVals]
    | maxStreams v =>
      refine ⟨?_, ?_, ?_, ?_, ?_⟩ <;>
        simp [next, advAt, grantAt, lcountAt, ccountAt, maxVals, grantVals, getLast_cons_getD]
    | localOpen res =>
      cases res with
      | none => simp [next, advAt, grantAt, lcountAt, ccountAt, maxVals, grantVals]
      | some n =>
        refine ⟨?_, ?_, ?_, ?_, ?_⟩ <;>
          simp [next, advAt, grantAt, lcountAt, ccountAt, maxVals, grantVals] <;> omega
    | peerMax v =>
      refine ⟨?_, ?_, ?_, ?_, ?_⟩ <;>
        simp [next, advAt, grantAt, lcountAt, ccountAt, maxVals, grantVals]
    | closed =>
      refine ⟨?_, ?_, ?_, ?_, ?_⟩ <;>
        simp [next, advAt, grantAt, lcountAt, ccountAt, maxVals, grantVals] <;> omega
    | localClosed => simp [next, advAt, grantAt, lcountAt, ccountAt, maxVals, grantVals]

private theorem wrun_check (st : St) (pre : List WEv) (e : WEv) (post : List WEv)
    (h : Model.StreamWire.run st (pre ++ e :: post) = true) : check (after st pre) e = true := by
  induction pre generalizing st with
  | nil => simp only [List.nil_append, Model.StreamWire.run, Bool.and_eq_true] at h; exact h.1
  | cons x rest ih =>
    simp only [List.cons_append, Model.StreamWire.run, Bool.and_eq_true] at h
    exact ih (next st x) h.2

/-- **Soundness of the wire monitor**: on every trace the monitor accepts, each observed event
satisfies its clause of C21 with respect to the limits in force at that point of the trace. -/
theorem wire_monitor_sound (st0 : St) (tr : List WEv) (h : Model.StreamWire.run st0 tr = true) :
    ∀ pre e post, tr = pre ++ e :: post → GoodAt st0 pre e := by
  intro pre e post htr
  subst htr
  have hc := wrun_check st0 pre e post h
  obtain ⟨a, b, c, d, f⟩ := wafter_spec pre st0
  cases e with
  | peerOpen n err =>
    simp only [check, a] at hc
    simp only [GoodAt]
    have := eq_of_beq hc
    rw [this]; simp
  | accepted n => simp only [check, a, decide_eq_true_eq] at hc; exact hc
  | maxStreams v =>
    simp only [check, a, d, f, Bool.and_eq_true, decide_eq_true_eq] at hc
    exact ⟨hc.1, by omega⟩
  | localOpen res =>
    cases res with
    | none => simp only [check, b, c, decide_eq_true_eq] at hc; exact hc
    | some n => simp only [check, b, c, Bool.and_eq_true, decide_eq_true_eq] at hc; exact hc
  | peerMax v => trivial
  | closed => trivial
  | localClosed => trivial

/-- `grantAt` is the maximum of the initial grant and every MAX_STREAMS the peer sent. -/
theorem grantAt_spec (g0 : Int) (pre : List WEv) :
    g0 ≤ grantAt g0 pre ∧ (∀ v ∈ grantVals pre, v ≤ grantAt g0 pre) ∧
    (grantAt g0 pre = g0 ∨ grantAt g0 pre ∈ grantVals pre) := by
  unfold grantAt
  generalize grantVals pre = l
  induction l generalizing g0 with
  | nil => simp
  | cons x xs ih =>
    obtain ⟨a, b, c⟩ := ih (max g0 x)
    simp only [List.foldl_cons, List.mem_cons]
    refine ⟨by omega, ?_, ?_⟩
    · rintro v (rfl | hv)
      · omega
      · exact b v hv
    · rcases c with c | c
      · by_cases hx : g0 ≤ x
        · right; left; rw [c]; omega
        · left; rw [c]; omega
      · exact Or.inr (Or.inr c)

/-- On an accepted trace the MAX_STREAMS values on the wire never decrease and are never below
the transport parameter. -/
theorem wire_maxStreams_monotone (tr : List WEv) : ∀ (st0 : St), Model.StreamWire.run st0 tr = true →
    (maxVals tr).Pairwise (· ≤ ·) ∧ ∀ v ∈ maxVals tr, st0.adv ≤ v := by
  induction tr with
  | nil => intro st0 _; simp [maxVals]
  | cons e rest ih =>
    intro st0 h
    simp only [Model.StreamWire.run, Bool.and_eq_true] at h
    obtain ⟨h1, h2⟩ := h
    obtain ⟨i1, i2⟩ := ih (next st0 e) h2
    cases e with
    | maxStreams v =>
      simp only [check, Bool.and_eq_true, decide_eq_true_eq] at h1
      simp only [maxVals, List.filterMap_cons] at i1 i2 ⊢
      refine ⟨List.pairwise_cons.2 ⟨fun w hw => by simpa [next] using i2 w hw, i1⟩, ?_⟩
      intro w hw
      rcases List.mem_cons.1 hw with rfl | hw
      · exact h1.1
      · have := i2 w hw; simp only [next] at this; omega
    | peerOpen n err => simpa [maxVals, next] using And.intro i1 i2
    | accepted n => simpa [maxVals, next] using And.intro i1 i2
    | localOpen res => cases res <;> simpa [maxVals, next] using And.intro i1 i2
    | peerMax v => simpa [maxVals, next] using And.intro i1 i2
    | closed => simpa [maxVals, next] using And.intro i1 i2
    | localClosed => simpa [maxVals, next] using And.intro i1 i2

end Wire

/-! ## T-tie: the regenerated Go code equals the model -/

theorem gen_consts :
    Gen.C21.implicitStreamLimit = implicitStreamLimit ∧ Gen.C21.maxStreamsLimit = maxStreamsLimit ∧
    Gen.C21.maxBidiRemoteStreamsDefault = 100 ∧ Gen.C21.maxUniRemoteStreamsDefault = 100 ∧
    Gen.C21.maxBidiRemoteStreamsLimit = maxStreamsLimit ∧ Gen.C21.maxUniRemoteStreamsLimit = maxStreamsLimit := by
  decide

theorem gen_configDefault_eq (v d l : Int) : Gen.C21.configDefault v d l = some (configDefault v d l) := by
  unfold Gen.C21.configDefault configDefault
  repeat' split
  all_goals rfl

theorem gen_remoteInit_eq (a b c maxOpen : Int) :
    Gen.C21.remoteInit a b c maxOpen =
      some ((Remote.init maxOpen).max, (Remote.init maxOpen).opened, (Remote.init maxOpen).maxOpen) := by
  simp [Gen.C21.remoteInit, Remote.init, implicitStreamLimit]

/-- The translated `maybeUpdateMax` is the model's, field for field. -/
theorem gen_maybeUpdateMax_eq (r : Remote) :
    Gen.C21.maybeUpdateMax r.max r.opened r.closed r.maxOpen (if r.sendUnsent then 1 else 0) =
      some (r.maybeUpdateMax.max, r.maybeUpdateMax.opened, r.maybeUpdateMax.closed, r.maybeUpdateMax.maxOpen,
            if r.maybeUpdateMax.sendUnsent then 1 else 0) := by
  unfold Gen.C21.maybeUpdateMax Remote.maybeUpdateMax Remote.shouldUpdate Remote.newMax implicitStreamLimit
  simp only [decide_eq_true_eq]
  split <;> simp

theorem gen_gateCond_eq (opened max : Int) : Gen.C21.gateCond opened max = some (gateCond opened max) := rfl

theorem gen_localSetMax_eq (l : Local) (m : Int) : Gen.C21.localSetMax l.max m = some (l.setMax m).max := by
  simp [Gen.C21.localSetMax, Local.setMax, Local.unlock]

theorem gen_localConnHasClosed_eq (l : Local) : Gen.C21.localConnHasClosed l.opened = some l.connHasClosed.opened := by
  simp [Gen.C21.localConnHasClosed, Local.connHasClosed, Local.unlock]

theorem gen_localWasOpened_eq (l : Local) (n : Int) : Gen.C21.localWasOpened l.opened n = some (l.wasOpened n).2 := by
  simp [Gen.C21.localWasOpened, Local.wasOpened]

/-! ## Non-vacuity -/

/-- A concrete history: limit 2, two opens succeed with numbers 0 and 1, the third blocks. -/
example : (Local.init.run [.setMax 2, .open, .open]).open.2 = OpenRes.blocked := by decide
example : (Local.init.run [.setMax 2, .open]).open.2 = OpenRes.ok 1 := by decide
example : LReachable (Local.init.run [.setMax 2, .open]) := ⟨_, rfl⟩
/-- maxOpen 10: streams 0..9 accepted, 10 rejected; closing three raises the limit to 13. -/
example : ((Remote.init (maxRemoteStreams 10)).open 10).2 = false := by decide
example : ((Remote.init (maxRemoteStreams 10)).open 9).2 = true := by decide
example : ((Remote.init (maxRemoteStreams 10)).run [.open 9, .close, .close, .close]).max = 13 := by decide
example : Remote.frames (Remote.init (maxRemoteStreams 10)) [.open 9, .close, .appendFrame, .close, .appendFrame] = [11, 12] := by
  decide

end NetVerif.Proofs.C21
