import NetVerif.Model.StreamLimits
import NetVerif.Gen.C21
import NetVerif.Model.StreamWire
import NetVerif.Model.ConnStreams
/-!
C21 — QUIC stream-count limits are never exceeded.

All theorems are about the exact counter model `Model/StreamLimits.lean` of
quic/stream_limits.go and hold for every history of operations (no bound on length).
-/
namespace NetVerif.Proofs.C21
open NetVerif NetVerif.Model.StreamLimits

/-! ## localStreamLimits: streams opened by us -/

/-- Invariant of `localStreamLimits`. -/
structure LInv (l : Local) : Prop where
  gate : l.gate = gateCond l.opened l.max
  max_nonneg : 0 ≤ l.max
  opened_ge : -1 ≤ l.opened
  opened_le : l.opened ≤ l.max

theorem local_inv_init : LInv Local.init := by
  constructor <;> simp [Local.init, gateCond]

theorem local_inv_step (l : Local) (op : LOp) (h : LInv l) : LInv (l.step op) := by
  obtain ⟨mx, op', g⟩ := l
  obtain ⟨hg, h0, h1, h2⟩ := h
  simp only [gateCond] at hg h0 h1 h2
  cases op <;>
    simp only [Local.step, Local.open, Local.setMax, Local.connHasClosed, Local.wasOpened, Local.unlock]
  · -- open
    cases g
    · exact ⟨hg, h0, h1, h2⟩
    · have hlt : op' < mx := by simpa using hg.symm
      simp only
      split
      · constructor <;> simp [gateCond] <;> omega
      · constructor <;> simp [gateCond] <;> omega
  · constructor <;> simp [gateCond] <;> omega
  · constructor <;> simp [gateCond] <;> omega
  · constructor <;> simp [gateCond] <;> omega

theorem local_inv_run (ops : List LOp) (l : Local) (h : LInv l) : LInv (l.run ops) := by
  induction ops generalizing l with
  | nil => simpa [Local.run] using h
  | cons op rest ih => exact ih _ (local_inv_step l op h)

/-- States reachable from a fresh `localStreamLimits` by any history. -/
def LReachable (l : Local) : Prop := ∃ ops, l = Local.init.run ops

theorem local_reachable_inv {l : Local} (h : LReachable l) : LInv l := by
  obtain ⟨ops, rfl⟩ := h; exact local_inv_run ops _ local_inv_init

/-- **NewStream blocks iff the peer's MAX_STREAMS quota is exhausted** (`opened ≥ max`),
in every reachable state. -/
theorem local_open_blocks_iff {l : Local} (h : LReachable l) :
    l.open.2 = OpenRes.blocked ↔ l.opened ≥ l.max := by
  have hi := local_reachable_inv h
  obtain ⟨mx, op', g⟩ := l
  obtain ⟨hg, h0, h1, h2⟩ := hi
  simp only [gateCond] at hg h0 h1 h2
  unfold Local.open
  cases g
  · have : ¬ op' < mx := by simpa using hg.symm
    simp; omega
  · have hlt : op' < mx := by simpa using hg.symm
    simp only
    split <;> simp <;> omega

/-- **We never open a stream whose number is at or beyond the peer's current MAX_STREAMS**:
a successful `open` returns `num = opened < max`, and `opened` advances by exactly one. -/
theorem local_open_within_limit {l : Local} (h : LReachable l) (n : Int)
    (hok : l.open.2 = OpenRes.ok n) :
    n < l.max ∧ n = l.opened ∧ 0 ≤ n ∧ l.open.1.opened = n + 1 ∧ l.open.1.max = l.max := by
  have hi := local_reachable_inv h
  obtain ⟨mx, op', g⟩ := l
  obtain ⟨hg, h0, h1, h2⟩ := hi
  simp only [gateCond] at hg h0 h1 h2
  unfold Local.open at hok ⊢
  cases g
  · simp at hok
  · have hlt : op' < mx := by simpa using hg.symm
    simp only at hok ⊢
    split at hok
    · simp at hok
    · rename_i hneg
      simp only [if_neg hneg]
      simp [Local.unlock] at hok ⊢
      omega

/-- A closed conn never opens (and never blocks): `open` reports `errConnClosed`. -/
theorem local_closed_open {l : Local} (h : LReachable l) (hc : l.opened < 0) :
    l.open.2 = OpenRes.closed ∧ l.open.1.opened = l.opened := by
  have hi := local_reachable_inv h
  obtain ⟨mx, op', g⟩ := l
  obtain ⟨hg, h0, h1, h2⟩ := hi
  simp only [gateCond] at hg h0 h1 h2 hc
  have hgt : g = true := by rw [hg]; simp; omega
  subst hgt
  simp [Local.open, hc, Local.unlock]

/-- The peer-provided limit never decreases (stale / reordered MAX_STREAMS frames are ignored). -/
theorem local_max_mono_step (l : Local) (op : LOp) : l.max ≤ (l.step op).max := by
  cases op <;> simp only [Local.step, Local.open, Local.setMax, Local.connHasClosed, Local.wasOpened, Local.unlock]
  · split
    · simp
    · split <;> simp
  · exact Int.le_max_left _ _
  · simp
  · simp

theorem local_max_mono_run (ops : List LOp) (l : Local) : l.max ≤ (l.run ops).max := by
  induction ops generalizing l with
  | nil => simp [Local.run]
  | cons op rest ih =>
    have h1 := local_max_mono_step l op
    have h2 := ih (l.step op)
    simp only [Local.run, List.foldl_cons] at h2 ⊢
    omega

/-- `setMax` takes the maximum. -/
theorem local_setMax_max (l : Local) (m : Int) : (l.setMax m).max = max l.max m ∧ (l.setMax m).opened = l.opened := by
  simp [Local.setMax, Local.unlock]

/-! ## remoteStreamLimits: streams opened by the peer -/

/-- Invariant of `remoteStreamLimits`. -/
structure RInv (r : Remote) : Prop where
  opened_le_max : r.opened ≤ r.max
  max_le : r.max ≤ r.closed + r.maxOpen
  implicit : r.max ≤ r.opened + implicitStreamLimit
  opened_nonneg : 0 ≤ r.opened
  closed_nonneg : 0 ≤ r.closed

theorem maxRemoteStreams_range (v : Int) : 0 ≤ maxRemoteStreams v ∧ maxRemoteStreams v ≤ maxStreamsLimit := by
  unfold maxRemoteStreams configDefault maxStreamsLimit
  split
  · omega
  · split <;> omega

theorem remote_inv_init (maxOpen : Int) (h : 0 ≤ maxOpen) : RInv (Remote.init maxOpen) := by
  constructor <;> simp [Remote.init, implicitStreamLimit] <;> omega

theorem remote_inv_maybeUpdateMax (r : Remote) (h : RInv r) : RInv r.maybeUpdateMax := by
  obtain ⟨h1, h2, h3, h4, h5⟩ := h
  unfold Remote.maybeUpdateMax
  split
  · rename_i hs
    simp [Remote.shouldUpdate, Remote.newMax, implicitStreamLimit] at hs
    constructor <;> simp [Remote.newMax, implicitStreamLimit] <;> omega
  · exact ⟨h1, h2, h3, h4, h5⟩

theorem remote_inv_step (r : Remote) (op : ROp) (h : RInv r) : RInv (r.step op) := by
  cases op with
  | «open» n =>
    simp only [Remote.step, Remote.open]
    split
    · exact h
    · split
      · apply remote_inv_maybeUpdateMax
        obtain ⟨h1, h2, h3, h4, h5⟩ := h
        constructor <;> simp <;> omega
      · exact h
  | close =>
    simp only [Remote.step, Remote.close]
    apply remote_inv_maybeUpdateMax
    obtain ⟨h1, h2, h3, h4, h5⟩ := h
    constructor <;> simp <;> omega
  | appendFrame =>
    simp only [Remote.step, Remote.appendFrame]
    split
    · obtain ⟨h1, h2, h3, h4, h5⟩ := h
      constructor <;> simp <;> omega
    · exact h

theorem remote_inv_run (ops : List ROp) (r : Remote) (h : RInv r) : RInv (r.run ops) := by
  induction ops generalizing r with
  | nil => simpa [Remote.run] using h
  | cons op rest ih => exact ih _ (remote_inv_step r op h)

/-- States reachable from `init(maxOpen)` with a configuration-derived `maxOpen` by any history. -/
def RReachable (r : Remote) : Prop := ∃ cfg ops, r = (Remote.init (maxRemoteStreams cfg)).run ops

theorem remote_reachable_inv {r : Remote} (h : RReachable r) : RInv r := by
  obtain ⟨cfg, ops, rfl⟩ := h
  exact remote_inv_run ops _ (remote_inv_init _ (maxRemoteStreams_range cfg).1)

/-- `maxOpen` is fixed by the configuration. -/
theorem remote_maxOpen_step (r : Remote) (op : ROp) : (r.step op).maxOpen = r.maxOpen := by
  cases op <;> simp only [Remote.step, Remote.open, Remote.close, Remote.appendFrame, Remote.maybeUpdateMax]
  · repeat' split
    all_goals simp
  · split <;> simp
  · split <;> simp

theorem remote_maxOpen_run (ops : List ROp) (r : Remote) : (r.run ops).maxOpen = r.maxOpen := by
  induction ops generalizing r with
  | nil => simp [Remote.run]
  | cons op rest ih =>
    have := ih (r.step op)
    simp only [Remote.run, List.foldl_cons] at this ⊢
    rw [this, remote_maxOpen_step]

/-- **The peer never holds more simultaneously open streams than configured**
(`opened − closed ≤ maxOpen ≤ MaxBidiRemoteStreams/MaxUniRemoteStreams`), in every reachable state;
moreover the advertised limit never allows it to (`max ≤ closed + maxOpen`), and a single frame can
implicitly open at most `implicitStreamLimit` streams. -/
theorem remote_open_streams_bounded {r : Remote} (h : RReachable r) :
    r.opened - r.closed ≤ r.maxOpen ∧ r.max - r.closed ≤ r.maxOpen ∧ r.opened ≤ r.max ∧
    r.max - r.opened ≤ implicitStreamLimit := by
  have hi := remote_reachable_inv h
  obtain ⟨h1, h2, h3, _, _⟩ := hi
  omega

/-- The configured bound itself: `maxOpen = configDefault(cfg, 100, 2^60)` throughout. -/
theorem remote_maxOpen_is_config (cfg : Int) (ops : List ROp) :
    ((Remote.init (maxRemoteStreams cfg)).run ops).maxOpen = maxRemoteStreams cfg := by
  rw [remote_maxOpen_run]; rfl

/-- **A peer that opens a stream at or beyond the advertised limit gets STREAM_LIMIT_ERROR, and only then.** -/
theorem remote_open_error_iff (r : Remote) (n : Int) : (r.open n).2 = false ↔ n ≥ r.max := by
  unfold Remote.open
  split
  · simp; omega
  · split <;> simp <;> omega

/-- A rejected open leaves the counters untouched. -/
theorem remote_open_error_unchanged (r : Remote) (n : Int) (h : (r.open n).2 = false) : (r.open n).1 = r := by
  unfold Remote.open at h ⊢
  by_cases h1 : n ≥ r.max
  · simp [h1]
  · by_cases h2 : n ≥ r.opened
    · simp [h1, h2] at h
    · simp [h1, h2] at h

/-- An accepted open makes `opened > n` (implicitly opening every lower-numbered stream). -/
theorem remote_open_ok_opened (r : Remote) (n : Int) (h : (r.open n).2 = true) :
    n < (r.open n).1.opened ∧ r.opened ≤ (r.open n).1.opened := by
  unfold Remote.open at h ⊢
  split
  · simp_all
  · split
    · simp only [Remote.maybeUpdateMax]
      split <;> simp <;> omega
    · simp; omega

/-- **The limit we advertise never decreases** (single step). -/
theorem remote_max_mono_step (r : Remote) (op : ROp) : r.max ≤ (r.step op).max := by
  have hm : ∀ q : Remote, q.max ≤ q.maybeUpdateMax.max := by
    intro q
    unfold Remote.maybeUpdateMax
    split
    · rename_i hs
      simp [Remote.shouldUpdate] at hs
      simp; omega
    · simp
  cases op with
  | «open» n =>
    simp only [Remote.step, Remote.open]
    split
    · simp
    · split
      · exact hm _
      · simp
  | close => exact hm _
  | appendFrame =>
    simp only [Remote.step, Remote.appendFrame]
    split <;> simp

theorem remote_max_mono_run (ops : List ROp) (r : Remote) : r.max ≤ (r.run ops).max := by
  induction ops generalizing r with
  | nil => simp [Remote.run]
  | cons op rest ih =>
    have h1 := remote_max_mono_step r op
    have h2 := ih (r.step op)
    simp only [Remote.run, List.foldl_cons] at h2 ⊢
    omega

private theorem frames_appendFrame (r : Remote) (rest : List ROp) :
    Remote.frames r (.appendFrame :: rest) =
      if r.sendUnsent then r.max :: Remote.frames { r with sendUnsent := false } rest
      else Remote.frames r rest := by
  simp only [Remote.frames, Remote.appendFrame]
  split <;> simp

private theorem frames_ge (ops : List ROp) (r : Remote) : ∀ v ∈ Remote.frames r ops, r.max ≤ v := by
  induction ops generalizing r with
  | nil => simp [Remote.frames]
  | cons op rest ih =>
    intro v hv
    cases op with
    | appendFrame =>
      rw [frames_appendFrame] at hv
      split at hv
      · simp only [List.mem_cons] at hv
        rcases hv with rfl | hv
        · exact Int.le_refl _
        · exact ih { r with sendUnsent := false } v hv
      · exact ih _ v hv
    | «open» n =>
      simp only [Remote.frames] at hv
      have h1 := remote_max_mono_step r (.open n)
      have := ih _ v hv
      omega
    | close =>
      simp only [Remote.frames] at hv
      have h1 := remote_max_mono_step r .close
      have := ih _ v hv
      omega

/-- **The MAX_STREAMS values put on the wire never decrease**, along any history from any state,
and none is below the limit that was in force when the history began (in particular the
`initial_max_streams_*` transport parameter). -/
theorem remote_frames_monotone (ops : List ROp) (r : Remote) :
    (Remote.frames r ops).Pairwise (· ≤ ·) ∧ ∀ v ∈ Remote.frames r ops, r.max ≤ v := by
  refine ⟨?_, frames_ge ops r⟩
  induction ops generalizing r with
  | nil => simp [Remote.frames]
  | cons op rest ih =>
    cases op with
    | appendFrame =>
      rw [frames_appendFrame]
      split
      · simp only [List.pairwise_cons]
        refine ⟨?_, ih _⟩
        intro v hv
        exact frames_ge rest { r with sendUnsent := false } v hv
      · exact ih _
    | «open» n => simp only [Remote.frames]; exact ih _
    | close => simp only [Remote.frames]; exact ih _

/-- The update heuristic never starves the peer: whenever fewer than 8 streams remain available
and a larger limit is permitted, the larger limit is adopted (and scheduled for sending). -/
theorem remote_heuristic_no_starvation (r : Remote) :
    (r.maybeUpdateMax.max = r.newMax ∧ r.maybeUpdateMax.sendUnsent = true) ∨
    r.newMax ≤ r.max ∨ (8 ≤ r.max - r.opened ∧ r.newMax - r.max < 2 * (r.max - r.opened)) := by
  unfold Remote.maybeUpdateMax
  split
  · simp
  · rename_i hs
    simp [Remote.shouldUpdate] at hs
    by_cases h : r.newMax ≤ r.max
    · exact Or.inr (Or.inl h)
    · have := hs (by omega)
      exact Or.inr (Or.inr (by omega))

/-- No `int64` overflow: with `maxOpen ≤ 2^60`, stream numbers `< 2^60` and `closed ≤ opened`,
every intermediate value of `maybeUpdateMax` is below `2^62`. -/
theorem remote_no_overflow {r : Remote} (h : RInv r) (hm : r.maxOpen ≤ maxStreamsLimit)
    (hc : r.closed ≤ r.opened) (ho : r.opened ≤ maxStreamsLimit) :
    r.closed + r.maxOpen < 2^62 ∧ r.opened + implicitStreamLimit < 2^62 ∧ r.max < 2^62 ∧
    2 * (r.max - r.opened) < 2^62 := by
  obtain ⟨h1, h2, h3, h4, h5⟩ := h
  simp only [maxStreamsLimit, implicitStreamLimit] at *
  omega

/-! ## "advertised" read literally: the last value actually sent -/

/-- History state with the ghost "last MAX_STREAMS value the peer was told" (initially the
`initial_max_streams_*` transport parameter). -/
structure RH where
  r : Remote
  lastSent : Int

def RH.init (cfg : Int) : RH := ⟨Remote.init (maxRemoteStreams cfg), (Remote.init (maxRemoteStreams cfg)).max⟩

def RH.step (h : RH) : ROp → RH
  | .appendFrame => ⟨h.r.appendFrame.1, (h.r.appendFrame.2).getD h.lastSent⟩
  | op => ⟨h.r.step op, h.lastSent⟩

def RH.run (h : RH) (ops : List ROp) : RH := ops.foldl RH.step h

/-- The sent value never exceeds `lim.max`, and equals it whenever nothing is waiting to be sent. -/
theorem rh_inv (cfg : Int) (ops : List ROp) :
    ((RH.init cfg).run ops).lastSent ≤ ((RH.init cfg).run ops).r.max ∧
    (((RH.init cfg).run ops).r.sendUnsent = false → ((RH.init cfg).run ops).lastSent = ((RH.init cfg).run ops).r.max) := by
  suffices H : ∀ (h : RH), (h.lastSent ≤ h.r.max ∧ (h.r.sendUnsent = false → h.lastSent = h.r.max)) →
      ((h.run ops).lastSent ≤ (h.run ops).r.max ∧ ((h.run ops).r.sendUnsent = false → (h.run ops).lastSent = (h.run ops).r.max)) by
    exact H _ ⟨Int.le_refl _, fun _ => rfl⟩
  induction ops with
  | nil => intro h hh; simpa [RH.run] using hh
  | cons op rest ih =>
    intro h hh
    simp only [RH.run, List.foldl_cons]
    apply ih
    obtain ⟨h1, h2⟩ := hh
    have hm : ∀ q : Remote, h.lastSent ≤ q.max → (q.sendUnsent = false → h.lastSent = q.max) →
        h.lastSent ≤ q.maybeUpdateMax.max ∧ (q.maybeUpdateMax.sendUnsent = false → h.lastSent = q.maybeUpdateMax.max) := by
      intro q a b
      unfold Remote.maybeUpdateMax
      split
      · rename_i hs
        simp [Remote.shouldUpdate] at hs
        refine ⟨by simp; omega, by simp⟩
      · exact ⟨a, b⟩
    cases op with
    | appendFrame =>
      simp only [RH.step, Remote.appendFrame]
      split
      · simp
      · rename_i hu
        simp only [Option.getD_none]
        exact ⟨h1, fun _ => h2 (by simpa using hu)⟩
    | «open» n =>
      simp only [RH.step, Remote.step, Remote.open]
      split
      · exact ⟨h1, h2⟩
      · split
        · exact hm _ h1 h2
        · exact ⟨h1, h2⟩
    | close => exact hm _ h1 h2

/-- The literal statement: a stream is refused iff its number is at or beyond the last limit
the peer was actually told. -/
def SentLimitStatement : Prop :=
  ∀ (cfg : Int) (ops : List ROp) (n : Int),
    ((((RH.init cfg).run ops).r.open n).2 = false ↔ n ≥ ((RH.init cfg).run ops).lastSent)

/-- **full_false**: `maybeUpdateMax` raises `lim.max` before the MAX_STREAMS frame is written.
maxOpen = 1: stream 0 opened and closed ⇒ `lim.max = 2` (frame pending); stream 1 is accepted
although the peer was only ever told 1. -/
theorem sent_limit_full_false : ¬ SentLimitStatement := by
  intro h
  have := h 1 [.open 0, .close] 1
  revert this
  decide

/-- **holds_partial**: outside the window `sendUnsent ∧ lastSent ≤ n < lim.max` the literal
statement holds in every reachable state; inside it the stream is accepted. -/
theorem sent_limit_holds_partial (cfg : Int) (ops : List ROp) (n : Int)
    (hex : ¬ (((RH.init cfg).run ops).r.sendUnsent = true ∧ ((RH.init cfg).run ops).lastSent ≤ n ∧
              n < ((RH.init cfg).run ops).r.max)) :
    ((((RH.init cfg).run ops).r.open n).2 = false ↔ n ≥ ((RH.init cfg).run ops).lastSent) := by
  obtain ⟨h1, h2⟩ := rh_inv cfg ops
  rw [remote_open_error_iff]
  cases hu : ((RH.init cfg).run ops).r.sendUnsent with
  | false => have := h2 hu; omega
  | true =>
    constructor
    · intro h; omega
    · intro h
      apply Classical.byContradiction; intro hn
      exact hex ⟨hu, h, by omega⟩

/-! ## the stream table of conn_streams.go (model `Model/ConnStreams.lean`) -/

section Table
open NetVerif.Model.ConnStreams

theorem mum_fields (r : Remote) : r.maybeUpdateMax.opened = r.opened ∧ r.maybeUpdateMax.closed = r.closed ∧
    r.maybeUpdateMax.maxOpen = r.maxOpen := by
  unfold Remote.maybeUpdateMax; split <;> simp

theorem open_fields (r : Remote) (n : Int) :
    (r.open n).1.closed = r.closed ∧ (r.open n).1.maxOpen = r.maxOpen ∧
    ((r.open n).2 = true → r.opened ≤ n → (r.open n).1.opened = n + 1) ∧
    (n < r.opened → (r.open n).1.opened = r.opened) := by
  unfold Remote.open
  split
  · exact ⟨rfl, rfl, by simp, fun _ => rfl⟩
  · split
    · have := mum_fields ({ r with opened := n + 1 } : Remote)
      exact ⟨this.2.1, this.2.2, fun _ _ => this.1, fun h => by omega⟩
    · exact ⟨rfl, rfl, fun _ h => by omega, fun _ => rfl⟩

theorem close_fields (r : Remote) : r.close.opened = r.opened ∧ r.close.closed = r.closed + 1 := by
  have := mum_fields ({ r with closed := r.closed + 1 } : Remote)
  exact ⟨this.1, this.2.1⟩

def pcount (tab : List Entry) : Int := (tab.filter (·.peer)).length
def pnums (tab : List Entry) : List Int := (tab.filter (·.peer)).map (·.num)

/-- Invariant tying the table to the counters. -/
structure CInv (c : CS) : Prop where
  rinv : RInv c.rem
  linv : LInv c.loc
  nodup : (pnums c.tab).Nodup
  peerLt : ∀ n ∈ pnums c.tab, 0 ≤ n ∧ n < c.rem.opened
  count : pcount c.tab = c.rem.opened - c.rem.closed

theorem cinv_init (uni : Bool) (maxOpen : Int) (h : 0 ≤ maxOpen) : CInv (CS.init uni maxOpen) :=
  ⟨remote_inv_init maxOpen h, local_inv_init, by simp [CS.init, pnums], by simp [CS.init, pnums],
   by simp [CS.init, pcount, Remote.init]⟩

private theorem implicit_mem (n : Int) : ∀ (k : Nat) (lo : Int), n ∈ pnums (implicitEntries lo k) ↔ (lo ≤ n ∧ n < lo + k)
  | 0, lo => by simp [pnums, implicitEntries]
  | k + 1, lo => by
    have ih := implicit_mem n k (lo + 1)
    simp only [pnums, implicitEntries, List.filter_cons, List.map_cons, if_true, List.mem_cons] at ih ⊢
    rw [ih]; push_cast; omega

private theorem implicit_nodup : ∀ (k : Nat) (lo : Int), (pnums (implicitEntries lo k)).Nodup
  | 0, lo => by simp [pnums, implicitEntries]
  | k + 1, lo => by
    have ih := implicit_nodup k (lo + 1)
    have hm := implicit_mem lo k (lo + 1)
    simp only [pnums, implicitEntries, List.filter_cons, List.map_cons, if_true] at ih hm ⊢
    exact List.nodup_cons.2 ⟨by rw [hm]; omega, ih⟩

private theorem implicit_count : ∀ (k : Nat) (lo : Int), pcount (implicitEntries lo k) = k
  | 0, lo => by simp [pcount, implicitEntries]
  | k + 1, lo => by
    have ih := implicit_count k (lo + 1)
    simp only [pcount, implicitEntries, List.filter_cons, if_true, List.length_cons] at ih ⊢
    push_cast at ih ⊢; omega

private theorem pcount_append (a b : List Entry) : pcount (a ++ b) = pcount a + pcount b := by
  simp [pcount, List.filter_append]

private theorem pnums_append (a b : List Entry) : pnums (a ++ b) = pnums a ++ pnums b := by
  simp [pnums, List.filter_append]

private theorem pcount_eq_len (tab : List Entry) : pcount tab = (pnums tab).length := by simp [pcount, pnums]

private theorem find_some {tab : List Entry} {p : Bool} {n : Int} {e : Entry} (h : find tab p n = some e) :
    e ∈ tab ∧ e.peer = p ∧ e.num = n := by
  unfold find at h
  have h1 := List.mem_of_find?_eq_some h
  have h2 := List.find?_some h
  simp at h2
  exact ⟨h1, h2.1, h2.2⟩

private theorem find_none {tab : List Entry} {p : Bool} {n : Int} (h : find tab p n = none) :
    ∀ e ∈ tab, ¬ (e.peer = p ∧ e.num = n) := by
  unfold find at h
  intro e he hc
  have := List.find?_eq_none.1 h e he
  simp [hc.1, hc.2] at this

/-- **`over_limit_iff_error`**: in every state satisfying the invariant, a frame for the peer's
stream number `num` is answered with STREAM_LIMIT_ERROR exactly when `num` is at or beyond the
limit (`lim.max`); all other outcomes (new stream, existing stream, already closed) have `num < max`. -/
theorem over_limit_iff_error (c : CS) (h : CInv c) (num : Int) :
    (c.peerFrame num).2 = FrameRes.limitError ↔ num ≥ c.rem.max := by
  have hom := h.rinv.opened_le_max
  unfold CS.peerFrame
  cases hf : find c.tab true num with
  | some e =>
    obtain ⟨he, hp, hn⟩ := find_some hf
    have : num ∈ pnums c.tab := by
      simp only [pnums, List.mem_map, List.mem_filter]
      exact ⟨e, ⟨he, by simp [hp]⟩, hn⟩
    have := (h.peerLt num this).2
    simp only
    split <;> simp <;> omega
  | none =>
    simp only
    split
    · simp; omega
    · have hiff := remote_open_error_iff c.rem num
      split
      · rename_i hr; simp; exact hiff.1 hr
      · rename_i hr
        simp
        have : ¬ num ≥ c.rem.max := fun hh => hr (hiff.2 hh)
        omega

theorem finish_rem (c : CS) (p : Bool) (n : Int) (d : Bool) :
    (c.finish p n d).rem = c.rem ∨ ((c.finish p n d).rem = c.rem.close ∧ p = true) := by
  unfold CS.finish
  cases find c.tab p n with
  | none => exact Or.inl rfl
  | some e =>
    simp only
    by_cases h1 : (!e.real) = true
    · simp [h1]
    · simp only [h1]
      by_cases h2 : ((markDone e d).inDone && (markDone e d).outDone) = true
      · simp only [h2, if_true]; cases p <;> simp
      · simp only [h2]; simp

/-- **`sent_max_streams_monotone`**: no operation lowers the limit we advertise. -/
theorem sent_max_streams_monotone (c : CS) (op : Op) : c.rem.max ≤ (c.step op).rem.max := by
  cases op with
  | peerFrame n =>
    simp only [CS.step, CS.peerFrame]
    split
    · split
      · exact Int.le_refl _
      · exact remote_max_mono_step c.rem (.open n)
    · split
      · exact Int.le_refl _
      · split
        · exact Int.le_refl _
        · exact remote_max_mono_step c.rem (.open n)
  | localFrame n => simp only [CS.step, CS.localFrame]; split <;> exact Int.le_refl _
  | newLocal => simp only [CS.step, CS.newLocal]; split <;> exact Int.le_refl _
  | peerMax v => exact Int.le_refl _
  | finish p n d =>
    simp only [CS.step]
    rcases finish_rem c p n d with h | ⟨h, _⟩
    · rw [h]; exact Int.le_refl _
    · rw [h]; exact remote_max_mono_step c.rem .close
  | sendMax => exact remote_max_mono_step c.rem .appendFrame

theorem local_open_ok_of_inv (l : Local) (hi : LInv l) (n : Int) (hok : l.open.2 = OpenRes.ok n) :
    n < l.max ∧ n = l.opened := by
  obtain ⟨mx, op', g⟩ := l
  obtain ⟨hg, h0, h1, h2⟩ := hi
  simp only [gateCond] at hg h0 h1 h2
  unfold Local.open at hok
  cases g
  · simp at hok
  · have hlt : op' < mx := by simpa using hg.symm
    simp only at hok
    split at hok
    · simp at hok
    · simp [Local.unlock] at hok
      simp only; omega

/-- **`local_open_below_peer_limit`**: a locally opened stream gets the next number, and it is
below the largest MAX_STREAMS received (`loc.max`, which `peerMax` only ever raises). -/
theorem local_open_below_peer_limit (c : CS) (h : CInv c) (n : Int) (hok : c.newLocal.2 = OpenRes.ok n) :
    n < c.loc.max ∧ n = c.loc.opened ∧ (∀ v, c.loc.max ≤ (c.peerMax v).loc.max ∧ v ≤ (c.peerMax v).loc.max) := by
  have hok' : c.loc.open.2 = OpenRes.ok n := by
    unfold CS.newLocal at hok
    simp only at hok
    cases hr : c.loc.open.2 with
    | ok m => rw [hr] at hok; simpa using hok
    | blocked => rw [hr] at hok; simp at hok
    | closed => rw [hr] at hok; simp at hok
  obtain ⟨a, b⟩ := local_open_ok_of_inv c.loc h.linv n hok'
  refine ⟨a, b, fun v => ?_⟩
  simp only [CS.peerMax, Local.setMax, Local.unlock]
  omega

/-- **`implicit_open_counts_all`**: a frame that opens the peer's stream `num` (not seen before)
accounts for every lower-numbered stream that was not yet opened: `opened` becomes `num + 1` and
each number in `[opened, num]` is in the stream table afterwards. -/
theorem implicit_open_counts_all (c : CS) (h : CInv c) (num : Int) (hnew : c.rem.opened ≤ num)
    (hok : (c.peerFrame num).2 = FrameRes.stream) :
    (c.peerFrame num).1.rem.opened = num + 1 ∧
    ∀ n, c.rem.opened ≤ n → n ≤ num → n ∈ pnums (c.peerFrame num).1.tab := by
  unfold CS.peerFrame at hok ⊢
  cases hf : find c.tab true num with
  | some e =>
    obtain ⟨he, hp, hn⟩ := find_some hf
    have : num ∈ pnums c.tab := by
      simp only [pnums, List.mem_map, List.mem_filter]
      exact ⟨e, ⟨he, by simp [hp]⟩, hn⟩
    have := (h.peerLt num this).2
    omega
  | none =>
    rw [hf] at hok
    simp only at hok ⊢
    have h1 : ¬ num < c.rem.opened := by omega
    simp only [h1, if_false] at hok ⊢
    split at hok
    · simp at hok
    · rename_i hr
      simp only [hr, if_false]
      have hr' : (c.rem.open num).2 = true := by simpa using hr
      refine ⟨(open_fields c.rem num).2.2.1 hr' hnew, ?_⟩
      intro n hn1 hn2
      rw [if_neg (by simp)]
      simp only
      rw [pnums_append, pnums_append]
      by_cases hlast : n = num
      · subst hlast
        simp [pnums, newPeerStream]
      · apply List.mem_append_left
        apply List.mem_append_right
        rw [implicit_mem]
        omega

private theorem pnums_map (tab : List Entry) (f : Entry → Entry) (hf : ∀ x, (f x).peer = x.peer ∧ (f x).num = x.num) :
    pnums (tab.map f) = pnums tab := by
  induction tab with
  | nil => rfl
  | cons x xs ih =>
    simp only [pnums, List.map_cons, List.filter_cons, (hf x).1] at ih ⊢
    split
    · simp only [List.map_cons, (hf x).2, ih]
    · exact ih

private theorem pnums_filter_local (tab : List Entry) (n : Int) :
    pnums (tab.filter fun x => !(x.peer == false && x.num == n)) = pnums tab := by
  induction tab with
  | nil => rfl
  | cons x xs ih =>
    simp only [pnums, List.filter_cons] at ih ⊢
    cases hp : x.peer <;> simp [hp] at ih ⊢
    · split <;> simp [hp, ih]
    · exact ih

private theorem pnums_filter_peer (tab : List Entry) (n : Int) :
    pnums (tab.filter fun x => !(x.peer == true && x.num == n)) = (pnums tab).filter (fun m => m != n) := by
  induction tab with
  | nil => rfl
  | cons x xs ih =>
    simp only [pnums, List.filter_cons] at ih ⊢
    cases hp : x.peer <;> simp [hp] at ih ⊢
    · exact ih
    · by_cases hn : x.num = n
      · simp [hn, ih]
      · simp [hn, hp, ih]

private theorem length_filter_ne (l : List Int) (n : Int) (hnd : l.Nodup) (hm : n ∈ l) :
    ((l.filter (fun m => m != n)).length : Int) = l.length - 1 := by
  induction l with
  | nil => simp at hm
  | cons x xs ih =>
    obtain ⟨hx, hxs⟩ := List.nodup_cons.1 hnd
    by_cases hxn : x = n
    · subst hxn
      have : xs.filter (fun m => m != x) = xs := by
        apply List.filter_eq_self.2
        intro a ha; simp; intro h; subst h; exact hx ha
      simp [this]
    · have hm' : n ∈ xs := by
        rcases List.mem_cons.1 hm with h | h
        · exact absurd h.symm hxn
        · exact h
      have := ih hxs hm'
      simp [hxn, List.filter_cons] at this ⊢
      omega

private theorem open_noop (r : Remote) (n : Int) (h1 : n < r.opened) (h2 : r.opened ≤ r.max) : (r.open n).1 = r := by
  unfold Remote.open
  split
  · rfl
  · split
    · omega
    · rfl

private theorem mem_pnums_of_find {tab : List Entry} {n : Int} {e : Entry} (hf : find tab true n = some e) : n ∈ pnums tab := by
  obtain ⟨he, hp, hn⟩ := find_some hf
  simp only [pnums, List.mem_map, List.mem_filter]
  exact ⟨e, ⟨he, by simp [hp]⟩, hn⟩

theorem cinv_step (c : CS) (op : Op) (h : CInv c) : CInv (c.step op) := by
  obtain ⟨hr, hl, hnd, hlt, hcnt⟩ := h
  cases op with
  | peerFrame n =>
    simp only [CS.step, CS.peerFrame]
    cases hf : find c.tab true n with
    | some e =>
      simp only
      split
      · exact ⟨hr, hl, hnd, hlt, hcnt⟩
      · have hm := mem_pnums_of_find hf
        have hno := open_noop c.rem n (hlt n hm).2 hr.opened_le_max
        have hpm := pnums_map c.tab (fun x => if (x.peer == true && x.num == n) = true then newPeerStream c.uni n else x)
          (by intro x; by_cases hx : (x.peer == true && x.num == n) = true
              · rw [if_pos hx]; simp only [newPeerStream]; simp at hx; exact ⟨hx.1.symm, hx.2.symm⟩
              · rw [if_neg hx]; exact ⟨rfl, rfl⟩)
        refine ⟨by simp only [hno]; exact hr, hl, by simp only [hpm]; exact hnd, by simp only [hpm, hno]; exact hlt, ?_⟩
        simp only [pcount_eq_len, hpm, hno]
        rw [← pcount_eq_len]; exact hcnt
    | none =>
      simp only
      split
      · exact ⟨hr, hl, hnd, hlt, hcnt⟩
      · rename_i hge
        split
        · exact ⟨hr, hl, hnd, hlt, hcnt⟩
        · rename_i hok
          have hok' : (c.rem.open n).2 = true := by simpa using hok
          obtain ⟨f1, f2, f3, _⟩ := open_fields c.rem n
          have hop := f3 hok' (by omega)
          have hr' := remote_inv_step c.rem (.open n) hr
          simp only [Remote.step] at hr'
          have hk : ((n - c.rem.opened).toNat : Int) = n - c.rem.opened := by omega
          refine ⟨hr', hl, ?_, ?_, ?_⟩
          · simp only [pnums_append]
            have hnew : pnums [newPeerStream c.uni n] = [n] := by simp [pnums, newPeerStream]
            rw [hnew]
            refine List.nodup_append.2 ⟨List.nodup_append.2 ⟨hnd, implicit_nodup _ _, ?_⟩, by simp, ?_⟩
            · intro a ha b hb hab; subst hab
              have := (hlt a ha).2
              have := (implicit_mem a _ _).1 hb
              omega
            · intro a ha b hb hab; subst hab
              simp at hb; subst hb
              rcases List.mem_append.1 ha with ha | ha
              · have := (hlt a ha).2; omega
              · have := (implicit_mem a _ _).1 ha; omega
          · intro m hm
            simp only [pnums_append] at hm
            simp only [hop]
            have h0 := hr.opened_nonneg
            rcases List.mem_append.1 hm with hm | hm
            · rcases List.mem_append.1 hm with hm | hm
              · have := hlt m hm; omega
              · have := (implicit_mem m _ _).1 hm; omega
            · simp [pnums, newPeerStream] at hm; omega
          · simp only [pcount_append, implicit_count, hop, f1, hcnt]
            have : pcount [newPeerStream c.uni n] = 1 := by simp [pcount, newPeerStream]
            rw [this]; omega
  | localFrame n =>
    simp only [CS.step, CS.localFrame]
    split
    · exact ⟨hr, hl, hnd, hlt, hcnt⟩
    · exact ⟨hr, local_inv_step c.loc (.wasOpened n) hl, hnd, hlt, hcnt⟩
  | newLocal =>
    simp only [CS.step, CS.newLocal]
    have hl' := local_inv_step c.loc .open hl
    simp only [Local.step] at hl'
    split
    · refine ⟨hr, hl', ?_, ?_, ?_⟩
      · simp only [pnums_append]; simpa [pnums] using hnd
      · simp only [pnums_append]; simpa [pnums] using hlt
      · simp only [pcount_append]; simpa [pcount] using hcnt
    · exact ⟨hr, hl', hnd, hlt, hcnt⟩
  | peerMax v => exact ⟨hr, local_inv_step c.loc (.setMax v) hl, hnd, hlt, hcnt⟩
  | sendMax =>
    have hr' := remote_inv_step c.rem .appendFrame hr
    simp only [Remote.step] at hr'
    have e1 : c.rem.appendFrame.1.opened = c.rem.opened ∧ c.rem.appendFrame.1.closed = c.rem.closed := by
      unfold Remote.appendFrame; split <;> simp
    exact ⟨hr', hl, hnd, by simp only [CS.step, e1.1]; exact hlt, by simp only [CS.step, e1.1, e1.2]; exact hcnt⟩
  | finish p n d =>
    simp only [CS.step, CS.finish]
    cases hf : find c.tab p n with
    | none => exact ⟨hr, hl, hnd, hlt, hcnt⟩
    | some e =>
      simp only
      by_cases h1 : (!e.real) = true
      · simp only [h1, if_true]; exact ⟨hr, hl, hnd, hlt, hcnt⟩
      · have h1' : (!e.real) = false := by simpa using h1
        simp only [h1', Bool.false_eq_true, if_false]
        obtain ⟨he, hp, hn⟩ := find_some hf
        by_cases h2 : ((markDone e d).inDone && (markDone e d).outDone) = true
        · simp only [h2, if_true]
          cases p with
          | false =>
            refine ⟨hr, hl, ?_, ?_, ?_⟩
            · show (pnums (c.tab.filter fun x => !(x.peer == false && x.num == n))).Nodup
              rw [pnums_filter_local]; exact hnd
            · show ∀ m ∈ pnums (c.tab.filter fun x => !(x.peer == false && x.num == n)), 0 ≤ m ∧ m < c.rem.opened
              rw [pnums_filter_local]; exact hlt
            · show pcount (c.tab.filter fun x => !(x.peer == false && x.num == n)) = c.rem.opened - c.rem.closed
              rw [pcount_eq_len, pnums_filter_local, ← pcount_eq_len]; exact hcnt
          | true =>
            have hm := mem_pnums_of_find hf
            have hr' := remote_inv_step c.rem .close hr
            simp only [Remote.step] at hr'
            obtain ⟨c1, c2⟩ := close_fields c.rem
            refine ⟨hr', hl, ?_, ?_, ?_⟩
            · show (pnums (c.tab.filter fun x => !(x.peer == true && x.num == n))).Nodup
              rw [pnums_filter_peer]; exact hnd.filter _
            · show ∀ m ∈ pnums (c.tab.filter fun x => !(x.peer == true && x.num == n)), 0 ≤ m ∧ m < c.rem.close.opened
              rw [pnums_filter_peer, c1]
              intro m hm'; exact hlt m (List.mem_filter.1 hm').1
            · show pcount (c.tab.filter fun x => !(x.peer == true && x.num == n)) = c.rem.close.opened - c.rem.close.closed
              rw [pcount_eq_len, pnums_filter_peer, length_filter_ne _ n hnd hm, c1, c2, ← pcount_eq_len, hcnt]; omega
        · have h2' : ((markDone e d).inDone && (markDone e d).outDone) = false := by simpa using h2
          simp only [h2', Bool.false_eq_true, if_false]
          have hpm := pnums_map c.tab (fun x => if (x.peer == p && x.num == n) = true then markDone e d else x)
            (by intro x; by_cases hx : (x.peer == p && x.num == n) = true
                · rw [if_pos hx]; simp at hx
                  unfold markDone; split <;> simp [hp, hn, hx.1, hx.2]
                · rw [if_neg hx]; exact ⟨rfl, rfl⟩)
          refine ⟨hr, hl, by simp only [hpm]; exact hnd, by simp only [hpm]; exact hlt, ?_⟩
          simp only [pcount_eq_len, hpm]; rw [← pcount_eq_len]; exact hcnt

theorem cinv_run (ops : List Op) (c : CS) (h : CInv c) : CInv (c.run ops) := by
  induction ops generalizing c with
  | nil => simpa [CS.run] using h
  | cons op rest ih => exact ih _ (cinv_step c op h)

theorem cs_maxOpen_run (ops : List Op) : ∀ (c : CS), (c.run ops).rem.maxOpen = c.rem.maxOpen := by
  induction ops with
  | nil => intro c; rfl
  | cons op rest ih =>
    intro c
    simp only [CS.run, List.foldl_cons]
    rw [show List.foldl CS.step (c.step op) rest = (c.step op).run rest from rfl, ih]
    cases op with
    | peerFrame n =>
      simp only [CS.step, CS.peerFrame]
      split
      · split
        · rfl
        · exact (open_fields c.rem n).2.1
      · split
        · rfl
        · split
          · rfl
          · exact (open_fields c.rem n).2.1
    | localFrame n => simp only [CS.step, CS.localFrame]; split <;> rfl
    | newLocal => simp only [CS.step, CS.newLocal]; split <;> rfl
    | peerMax v => rfl
    | sendMax => simp only [CS.step, Remote.appendFrame]; split <;> rfl
    | finish p n d =>
      simp only [CS.step]
      rcases finish_rem c p n d with h | ⟨h, _⟩
      · rw [h]
      · rw [h]; exact remote_maxOpen_step c.rem .close

/-- **`peer_open_count_le_limit`**: after any history of peer frames (any ids, any order),
local opens, MAX_STREAMS frames and stream completions, the number of peer-initiated streams in
the table (implicitly opened ones included) is at most the configured
Max{Bidi,Uni}RemoteStreams. -/
theorem peer_open_count_le_limit (uni : Bool) (cfg : Int) (ops : List Op) :
    (((CS.init uni (maxRemoteStreams cfg)).run ops).peerOpen.length : Int) ≤ maxRemoteStreams cfg := by
  have hi := cinv_run ops _ (cinv_init uni _ (maxRemoteStreams_range cfg).1)
  have hm : ((CS.init uni (maxRemoteStreams cfg)).run ops).rem.maxOpen = maxRemoteStreams cfg := by
    rw [cs_maxOpen_run]; rfl
  have := hi.count
  have h1 := hi.rinv.opened_le_max
  have h2 := hi.rinv.max_le
  unfold pcount at this
  unfold CS.peerOpen
  omega

end Table


/-! ## the wire monitor (V-tie): every accepted trace satisfies the clauses of C21 -/

section Wire
open NetVerif.Model.StreamWire

abbrev WEv := NetVerif.Model.StreamWire.Ev

/-- MAX_STREAMS values the Conn sent, in order. -/
def maxVals (tr : List WEv) : List Int := tr.filterMap fun | .maxStreams v => some v | _ => none
/-- MAX_STREAMS values the peer sent, in order. -/
def grantVals (tr : List WEv) : List Int := tr.filterMap fun | .peerMax v => some v | _ => none
/-- The limit the peer was last told: the last MAX_STREAMS sent, else the transport parameter. -/
def advAt (a0 : Int) (pre : List WEv) : Int := (maxVals pre).getLast?.getD a0
/-- The largest limit the peer ever granted (stale/reordered MAX_STREAMS are ignored). -/
def grantAt (g0 : Int) (pre : List WEv) : Int := (grantVals pre).foldl max g0
def lcountAt (pre : List WEv) : Int := (pre.filter fun | .localOpen (some _) => true | _ => false).length
/-- Completely closed PEER-initiated streams (locally initiated ones do not count). -/
def ccountAt (pre : List WEv) : Int := (pre.filter fun | .closed => true | _ => false).length

/-- The clauses of C21 for one observed event after the prefix `pre` (one stream type). -/
def GoodAt (st0 : St) (pre : List WEv) : WEv → Prop
  | .peerOpen n err => (err = true ↔ n ≥ advAt st0.adv pre)   -- STREAM_LIMIT_ERROR iff beyond the advertised limit
  | .accepted n => n < advAt st0.adv pre
  | .maxStreams v => advAt st0.adv pre ≤ v ∧                   -- never decreases
      v - (st0.ccount + ccountAt pre) ≤ st0.cfg                -- peer never holds more than configured
  | .localOpen (some n) => n = st0.lcount + lcountAt pre ∧ n < grantAt st0.grant pre
  | .localOpen none => st0.lcount + lcountAt pre ≥ grantAt st0.grant pre   -- blocks only without quota
  | _ => True

private theorem getLast_cons_getD (v a0 : Int) (l : List Int) : (v :: l).getLast?.getD a0 = l.getLast?.getD v := by
  cases l with
  | nil => rfl
  | cons x xs =>
    rw [List.getLast?_cons_cons]
    cases h : (x :: xs).getLast? with
    | none => simp at h
    | some y => rfl

private theorem wafter_spec (pre : List WEv) : ∀ (st : St),
    (after st pre).adv = advAt st.adv pre ∧ (after st pre).grant = grantAt st.grant pre ∧
    (after st pre).lcount = st.lcount + lcountAt pre ∧ (after st pre).ccount = st.ccount + ccountAt pre ∧
    (after st pre).cfg = st.cfg := by
  induction pre with
  | nil => intro st; simp [after, advAt, grantAt, lcountAt, ccountAt, maxVals, grantVals]
  | cons e rest ih =>
    intro st
    obtain ⟨a, b, c, d, f⟩ := ih (next st e)
    simp only [after, List.foldl_cons] at a b c d f ⊢
    rw [a, b, c, d, f]
    cases e with
    | peerOpen n err => simp [next, advAt, grantAt, lcountAt, ccountAt, maxVals, grantVals]
    | accepted n => simp [next, advAt, grantAt, lcountAt, ccountAt, maxVals, grantVals]
    | maxStreams v =>
      refine ⟨?_, ?_, ?_, ?_, ?_⟩ <;>
        simp [next, advAt, grantAt, lcountAt, ccountAt, maxVals, grantVals, getLast_cons_getD]
    | localOpen res =>
      cases res with
      | none => simp [next, advAt, grantAt, lcountAt, ccountAt, maxVals, grantVals]
      | some n =>
        refine ⟨?_, ?_, ?_, ?_, ?_⟩ <;>
          simp [next, advAt, grantAt, lcountAt, ccountAt, maxVals, grantVals] <;> omega
    | peerMax v =>
      refine ⟨?_, ?_, ?_, ?_, ?_⟩ <;>
        simp [next, advAt, grantAt, lcountAt, ccountAt, maxVals, grantVals]
    | closed =>
      refine ⟨?_, ?_, ?_, ?_, ?_⟩ <;>
        simp [next, advAt, grantAt, lcountAt, ccountAt, maxVals, grantVals] <;> omega
    | localClosed => simp [next, advAt, grantAt, lcountAt, ccountAt, maxVals, grantVals]

private theorem wrun_check (st : St) (pre : List WEv) (e : WEv) (post : List WEv)
    (h : Model.StreamWire.run st (pre ++ e :: post) = true) : check (after st pre) e = true := by
  induction pre generalizing st with
  | nil => simp only [List.nil_append, Model.StreamWire.run, Bool.and_eq_true] at h; exact h.1
  | cons x rest ih =>
    simp only [List.cons_append, Model.StreamWire.run, Bool.and_eq_true] at h
    exact ih (next st x) h.2

/-- **Soundness of the wire monitor**: on every trace the monitor accepts, each observed event
satisfies its clause of C21 with respect to the limits in force at that point of the trace. -/
theorem wire_monitor_sound (st0 : St) (tr : List WEv) (h : Model.StreamWire.run st0 tr = true) :
    ∀ pre e post, tr = pre ++ e :: post → GoodAt st0 pre e := by
  intro pre e post htr
  subst htr
  have hc := wrun_check st0 pre e post h
  obtain ⟨a, b, c, d, f⟩ := wafter_spec pre st0
  cases e with
  | peerOpen n err =>
    simp only [check, a] at hc
    simp only [GoodAt]
    have := eq_of_beq hc
    rw [this]; simp
  | accepted n => simp only [check, a, decide_eq_true_eq] at hc; exact hc
  | maxStreams v =>
    simp only [check, a, d, f, Bool.and_eq_true, decide_eq_true_eq] at hc
    exact ⟨hc.1, by omega⟩
  | localOpen res =>
    cases res with
    | none => simp only [check, b, c, decide_eq_true_eq] at hc; exact hc
    | some n => simp only [check, b, c, Bool.and_eq_true, decide_eq_true_eq] at hc; exact hc
  | peerMax v => trivial
  | closed => trivial
  | localClosed => trivial

/-- `grantAt` is the maximum of the initial grant and every MAX_STREAMS the peer sent. -/
theorem grantAt_spec (g0 : Int) (pre : List WEv) :
    g0 ≤ grantAt g0 pre ∧ (∀ v ∈ grantVals pre, v ≤ grantAt g0 pre) ∧
    (grantAt g0 pre = g0 ∨ grantAt g0 pre ∈ grantVals pre) := by
  unfold grantAt
  generalize grantVals pre = l
  induction l generalizing g0 with
  | nil => simp
  | cons x xs ih =>
    obtain ⟨a, b, c⟩ := ih (max g0 x)
    simp only [List.foldl_cons, List.mem_cons]
    refine ⟨by omega, ?_, ?_⟩
    · rintro v (rfl | hv)
      · omega
      · exact b v hv
    · rcases c with c | c
      · by_cases hx : g0 ≤ x
        · right; left; rw [c]; omega
        · left; rw [c]; omega
      · exact Or.inr (Or.inr c)

/-- On an accepted trace the MAX_STREAMS values on the wire never decrease and are never below
the transport parameter. -/
theorem wire_maxStreams_monotone (tr : List WEv) : ∀ (st0 : St), Model.StreamWire.run st0 tr = true →
    (maxVals tr).Pairwise (· ≤ ·) ∧ ∀ v ∈ maxVals tr, st0.adv ≤ v := by
  induction tr with
  | nil => intro st0 _; simp [maxVals]
  | cons e rest ih =>
    intro st0 h
    simp only [Model.StreamWire.run, Bool.and_eq_true] at h
    obtain ⟨h1, h2⟩ := h
    obtain ⟨i1, i2⟩ := ih (next st0 e) h2
    cases e with
    | maxStreams v =>
      simp only [check, Bool.and_eq_true, decide_eq_true_eq] at h1
      simp only [maxVals, List.filterMap_cons] at i1 i2 ⊢
      refine ⟨List.pairwise_cons.2 ⟨fun w hw => by simpa [next] using i2 w hw, i1⟩, ?_⟩
      intro w hw
      rcases List.mem_cons.1 hw with rfl | hw
      · exact h1.1
      · have := i2 w hw; simp only [next] at this; omega
    | peerOpen n err => simpa [maxVals, next] using And.intro i1 i2
    | accepted n => simpa [maxVals, next] using And.intro i1 i2
    | localOpen res => cases res <;> simpa [maxVals, next] using And.intro i1 i2
    | peerMax v => simpa [maxVals, next] using And.intro i1 i2
    | closed => simpa [maxVals, next] using And.intro i1 i2
    | localClosed => simpa [maxVals, next] using And.intro i1 i2

end Wire

/-! ## T-tie: the regenerated Go code equals the model -/

theorem gen_consts :
    Gen.C21.implicitStreamLimit = implicitStreamLimit ∧ Gen.C21.maxStreamsLimit = maxStreamsLimit ∧
    Gen.C21.maxBidiRemoteStreamsDefault = 100 ∧ Gen.C21.maxUniRemoteStreamsDefault = 100 ∧
    Gen.C21.maxBidiRemoteStreamsLimit = maxStreamsLimit ∧ Gen.C21.maxUniRemoteStreamsLimit = maxStreamsLimit := by
  decide

theorem gen_configDefault_eq (v d l : Int) : Gen.C21.configDefault v d l = some (configDefault v d l) := by
  unfold Gen.C21.configDefault configDefault
  repeat' split
  all_goals rfl

theorem gen_remoteInit_eq (a b c maxOpen : Int) :
    Gen.C21.remoteInit a b c maxOpen =
      some ((Remote.init maxOpen).max, (Remote.init maxOpen).opened, (Remote.init maxOpen).maxOpen) := by
  simp [Gen.C21.remoteInit, Remote.init, implicitStreamLimit]

/-- The translated `maybeUpdateMax` is the model's, field for field. -/
theorem gen_maybeUpdateMax_eq (r : Remote) :
    Gen.C21.maybeUpdateMax r.max r.opened r.closed r.maxOpen (if r.sendUnsent then 1 else 0) =
      some (r.maybeUpdateMax.max, r.maybeUpdateMax.opened, r.maybeUpdateMax.closed, r.maybeUpdateMax.maxOpen,
            if r.maybeUpdateMax.sendUnsent then 1 else 0) := by
  unfold Gen.C21.maybeUpdateMax Remote.maybeUpdateMax Remote.shouldUpdate Remote.newMax implicitStreamLimit
  simp only [decide_eq_true_eq]
  split <;> simp

theorem gen_gateCond_eq (opened max : Int) : Gen.C21.gateCond opened max = some (gateCond opened max) := rfl

theorem gen_localSetMax_eq (l : Local) (m : Int) : Gen.C21.localSetMax l.max m = some (l.setMax m).max := by
  simp [Gen.C21.localSetMax, Local.setMax, Local.unlock]

theorem gen_localConnHasClosed_eq (l : Local) : Gen.C21.localConnHasClosed l.opened = some l.connHasClosed.opened := by
  simp [Gen.C21.localConnHasClosed, Local.connHasClosed, Local.unlock]

theorem gen_localWasOpened_eq (l : Local) (n : Int) : Gen.C21.localWasOpened l.opened n = some (l.wasOpened n).2 := by
  simp [Gen.C21.localWasOpened, Local.wasOpened]

/-! ## Non-vacuity -/

/-- A concrete history: limit 2, two opens succeed with numbers 0 and 1, the third blocks. -/
example : (Local.init.run [.setMax 2, .open, .open]).open.2 = OpenRes.blocked := by decide
example : (Local.init.run [.setMax 2, .open]).open.2 = OpenRes.ok 1 := by decide
example : LReachable (Local.init.run [.setMax 2, .open]) := ⟨_, rfl⟩
/-- maxOpen 10: streams 0..9 accepted, 10 rejected; closing three raises the limit to 13. -/
example : ((Remote.init (maxRemoteStreams 10)).open 10).2 = false := by decide
example : ((Remote.init (maxRemoteStreams 10)).open 9).2 = true := by decide
example : ((Remote.init (maxRemoteStreams 10)).run [.open 9, .close, .close, .close]).max = 13 := by decide
example : Remote.frames (Remote.init (maxRemoteStreams 10)) [.open 9, .close, .appendFrame, .close, .appendFrame] = [11, 12] := by
  decide

end NetVerif.Proofs.C21
