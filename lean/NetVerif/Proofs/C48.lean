import NetVerif.Model.Bpf
import NetVerif.Proofs.Lemmas.Bpf
import NetVerif.Proofs.Lemmas.BpfRoundTrip
import NetVerif.Gen.C48
/-!
C48 — BPF assembly and disassembly are inverse.

Model: `Model/Bpf.lean` (`asm` = every `Instruction.Assemble`, `disasm` =
`RawInstruction.Disassemble`).  The property as written is FALSE on the
unchanged code in both directions (`full_false`, with concrete witnesses):

* typed → raw → typed: `Assemble` accepts values that `Disassemble` normalises
  (a conditional jump written with the "other" polarity, an `ALUOp` outside the
  enumerated operators, `LoadAbsolute` in the extension window, an out-of-range
  `Extension`);
* raw → typed → raw: `Disassemble` ignores the bits/fields an instruction does
  not use, so non-canonical encodings do not reassemble to themselves.

What IS proved, for all values of the Go field types (no bounds, no sampling):
`disasm_asm_iff` and `asm_disasm_iff` — each round trip succeeds EXACTLY on the
decidable canonical sets `canonTyped` / `canonRaw`, and the two sets are in
bijection (`canonRaw_asm`, `canonTyped_disasm`).
-/
namespace NetVerif.Proofs.C48
open NetVerif NetVerif.Model.Bpf NetVerif.Proofs.Lemmas.Bpf NetVerif.Proofs.Lemmas.BpfRoundTrip

attribute [local simp] regA regX aluOpAdd aluOpSub aluOpMul aluOpDiv aluOpOr aluOpAnd aluOpShiftLeft
  aluOpShiftRight aluOpNeg aluOpMod aluOpXor jumpEqual jumpNotEqual jumpGreaterThan jumpLessThan
  jumpGreaterOrEqual jumpLessOrEqual jumpBitsSet jumpBitsNotSet extOffset extLen
  opClsLoadA opClsLoadX opClsStoreA opClsStoreX opClsALU opClsJump opClsReturn opClsMisc
  opAddrModeImmediate opAddrModeAbsolute opAddrModeIndirect opAddrModeScratch opAddrModePacketLen
  opAddrModeMemShift opLoadWidth4 opLoadWidth2 opLoadWidth1 opOperandConstant opOperandX
  opJumpAlways opJumpEqual opJumpGT opJumpGE opJumpSet opRetSrcConstant opRetSrcA opMiscTAX opMiscTXA
  extThreshold opMaskCls opMaskLoadDest opMaskLoadWidth opMaskLoadMode opMaskOperand opMaskOperator

/-! ### T-tie: constants and switch tables regenerated from bpf/constants.go, bpf/instructions.go -/

/-- Every opcode constant / mask of constants.go equals the model's constant. -/
theorem gen_constants_eq :
    Gen.C48.RegA = regA ∧ Gen.C48.RegX = regX ∧
    Gen.C48.ALUOpAdd = aluOpAdd ∧ Gen.C48.ALUOpSub = aluOpSub ∧ Gen.C48.ALUOpMul = aluOpMul ∧
    Gen.C48.ALUOpDiv = aluOpDiv ∧ Gen.C48.ALUOpOr = aluOpOr ∧ Gen.C48.ALUOpAnd = aluOpAnd ∧
    Gen.C48.ALUOpShiftLeft = aluOpShiftLeft ∧ Gen.C48.ALUOpShiftRight = aluOpShiftRight ∧
    Gen.C48.aluOpNeg = aluOpNeg ∧ Gen.C48.ALUOpMod = aluOpMod ∧ Gen.C48.ALUOpXor = aluOpXor ∧
    Gen.C48.JumpEqual = jumpEqual ∧ Gen.C48.JumpNotEqual = jumpNotEqual ∧
    Gen.C48.JumpGreaterThan = jumpGreaterThan ∧ Gen.C48.JumpLessThan = jumpLessThan ∧
    Gen.C48.JumpGreaterOrEqual = jumpGreaterOrEqual ∧ Gen.C48.JumpLessOrEqual = jumpLessOrEqual ∧
    Gen.C48.JumpBitsSet = jumpBitsSet ∧ Gen.C48.JumpBitsNotSet = jumpBitsNotSet ∧
    Gen.C48.extOffset = extOffset ∧ Gen.C48.ExtLen = extLen ∧
    Gen.C48.opMaskCls = opMaskCls ∧ Gen.C48.opMaskLoadDest = opMaskLoadDest ∧
    Gen.C48.opMaskLoadWidth = opMaskLoadWidth ∧ Gen.C48.opMaskLoadMode = opMaskLoadMode ∧
    Gen.C48.opMaskOperand = opMaskOperand ∧ Gen.C48.opMaskOperator = opMaskOperator ∧
    Gen.C48.opClsLoadA = opClsLoadA ∧ Gen.C48.opClsLoadX = opClsLoadX ∧ Gen.C48.opClsStoreA = opClsStoreA ∧
    Gen.C48.opClsStoreX = opClsStoreX ∧ Gen.C48.opClsALU = opClsALU ∧ Gen.C48.opClsJump = opClsJump ∧
    Gen.C48.opClsReturn = opClsReturn ∧ Gen.C48.opClsMisc = opClsMisc ∧
    Gen.C48.opAddrModeImmediate = opAddrModeImmediate ∧ Gen.C48.opAddrModeAbsolute = opAddrModeAbsolute ∧
    Gen.C48.opAddrModeIndirect = opAddrModeIndirect ∧ Gen.C48.opAddrModeScratch = opAddrModeScratch ∧
    Gen.C48.opAddrModePacketLen = opAddrModePacketLen ∧ Gen.C48.opAddrModeMemShift = opAddrModeMemShift ∧
    Gen.C48.opLoadWidth4 = opLoadWidth4 ∧ Gen.C48.opLoadWidth2 = opLoadWidth2 ∧ Gen.C48.opLoadWidth1 = opLoadWidth1 ∧
    Gen.C48.opOperandConstant = opOperandConstant ∧ Gen.C48.opOperandX = opOperandX ∧
    Gen.C48.opJumpAlways = opJumpAlways ∧ Gen.C48.opJumpEqual = opJumpEqual ∧ Gen.C48.opJumpGT = opJumpGT ∧
    Gen.C48.opJumpGE = opJumpGE ∧ Gen.C48.opJumpSet = opJumpSet ∧
    Gen.C48.opRetSrcConstant = opRetSrcConstant ∧ Gen.C48.opRetSrcA = opRetSrcA ∧
    Gen.C48.opMiscTAX = opMiscTAX ∧ Gen.C48.opMiscTXA = opMiscTXA ∧
    Gen.C48.extThreshold = extThreshold := by
  decide

/-- The `switch test` of `jumpToRaw`, regenerated as a table, is the model's `jumpTestToOp`. -/
theorem gen_jumpToRaw_eq (t : Nat) : jumpTestToOp t = Gen.C48.jumpToRawTable.lookup t := by
  unfold jumpTestToOp Gen.C48.jumpToRawTable
  repeat' split
  all_goals simp_all [List.lookup]
  all_goals (repeat' split)
  all_goals simp_all

/-- Both `switch op` tables of `jumpOpToTest`, regenerated, are the model's `jumpOpToTest`. -/
theorem gen_jumpOpToTest_eq (op jt jf : Nat) :
    jumpOpToTest op jt jf =
      if jt = 0 then ((Gen.C48.jumpOpToTestZero.lookup op).getD 0, jf, 0)
      else ((Gen.C48.jumpOpToTestNonZero.lookup op).getD 0, jt, jf) := by
  unfold jumpOpToTest Gen.C48.jumpOpToTestZero Gen.C48.jumpOpToTestNonZero
  repeat' split
  all_goals simp_all [List.lookup]
  all_goals (repeat' split)
  all_goals simp_all

/-- The operator lists in `Disassemble`'s ALU and jump cases. -/
theorem gen_disasm_lists_eq (op : Nat) :
    isALUBinary op = Gen.C48.disasmALUBinary.contains op ∧
    ((op = opJumpEqual ∨ op = opJumpGT ∨ op = opJumpGE ∨ op = opJumpSet) ↔ op ∈ Gen.C48.disasmJumpConds) := by
  constructor
  · simp only [isALUBinary, Gen.C48.disasmALUBinary, List.contains, List.elem]
    repeat' split
    all_goals simp_all
  · simp [Gen.C48.disasmJumpConds]

/-! ### well-formedness is preserved -/

/-- `Assemble` produces values of the field types. -/
theorem asm_wf (i : Instr) (r : Raw) (hi : i.WF) (h : asm i = some r) : r.WF := by
  cases i with
  | aluOpConstant op val =>
    simp [asm] at h; subst h
    exact ⟨Nat.or_lt_two_pow (n := 16) (by decide) hi.1, by simp, by simp, hi.2⟩
  | aluOpX op =>
    simp [asm] at h; subst h
    exact ⟨Nat.or_lt_two_pow (n := 16) (by decide) hi, by simp, by simp, by simp⟩
  | jumpIf cond val st sf =>
    simp only [asm, jumpToRaw] at h
    split at h
    · simp at h
    rename_i c f hj
    obtain ⟨h1, h2, h3, h4⟩ := hi
    rcases jumpTestToOp_some _ _ _ hj with ⟨_, h2', h3'⟩ | ⟨_, h2', h3'⟩ | ⟨_, h2', h3'⟩ | ⟨_, h2', h3'⟩ |
      ⟨_, h2', h3'⟩ | ⟨_, h2', h3'⟩ | ⟨_, h2', h3'⟩ | ⟨_, h2', h3'⟩ <;> subst h2' h3' <;> simp at h <;>
      subst h <;> simp [Raw.WF, *]
  | jumpIfX cond st sf =>
    simp only [asm, jumpToRaw] at h
    split at h
    · simp at h
    rename_i c f hj
    obtain ⟨h1, h3, h4⟩ := hi
    rcases jumpTestToOp_some _ _ _ hj with ⟨_, h2', h3'⟩ | ⟨_, h2', h3'⟩ | ⟨_, h2', h3'⟩ | ⟨_, h2', h3'⟩ |
      ⟨_, h2', h3'⟩ | ⟨_, h2', h3'⟩ | ⟨_, h2', h3'⟩ | ⟨_, h2', h3'⟩ <;> subst h2' h3' <;> simp at h <;>
      subst h <;> simp [Raw.WF, *]
  | raw r' => simp [asm] at h; subst h; exact hi
  | _ =>
    simp only [asm, assembleLoad, Instr.WF, int64WF, u32OfInt] at h hi
    repeat' split at h
    all_goals simp at h
    all_goals (try subst h)
    all_goals simp [Raw.WF]
    all_goals omega

/-! ### typed → raw → typed -/

/-- `Disassemble(Assemble(i)) = i` holds EXACTLY for the canonical typed values. -/
theorem disasm_asm_iff (i : Instr) (r : Raw) (hi : i.WF) (h : asm i = some r) :
    disasm r = i ↔ canonTyped i = true := by
  constructor
  · intro hd
    rw [← hd]
    exact canonTyped_disasm r (asm_wf i r hi h)
  · intro hc
    exact disasm_asm_of_canon i r hi hc h

/-- The first half of C48 as stated: every accepted non-raw instruction value survives. -/
def RoundTripTypedStatement : Prop :=
  ∀ (i : Instr) (r : Raw), i.WF → isRaw i = false → asm i = some r → disasm r = i

/-- Proved part of the first half: every accepted CANONICAL value survives. Missing for the full
statement: the non-canonical values, on which it is false (`typed_full_false`). -/
theorem disasm_asm_partial (i : Instr) (r : Raw) (hi : i.WF) (hc : canonTyped i = true) (h : asm i = some r) :
    disasm r = i := disasm_asm_of_canon i r hi hc h

/-- Witness 1 (jump polarity): `JumpIf{Cond: JumpEqual, Val: 42, SkipTrue: 0, SkipFalse: 3}` assembles to
`{0x15,0,3,42}`, which disassembles to `JumpIf{Cond: JumpNotEqual, Val: 42, SkipTrue: 3}`. -/
theorem witness_typed_jump :
    asm (.jumpIf jumpEqual 42 0 3) = some ⟨0x15, 0, 3, 42⟩ ∧
    disasm ⟨0x15, 0, 3, 42⟩ = .jumpIf jumpNotEqual 42 3 0 := by decide

/-- Witness 2 (unchecked `ALUOp`): `ALUOpConstant{Op: 0x80, Val: 5}` assembles to the `neg` opcode with K=5 and
comes back as `NegateA{}`; `ALUOpConstant{Op: 8}` comes back as `ALUOpX{Op: ALUOpAdd}`. -/
theorem witness_typed_alu :
    asm (.aluOpConstant 0x80 5) = some ⟨0x84, 0, 0, 5⟩ ∧ disasm ⟨0x84, 0, 0, 5⟩ = .negateA ∧
    asm (.aluOpConstant 8 5) = some ⟨0x0c, 0, 0, 5⟩ ∧ disasm ⟨0x0c, 0, 0, 5⟩ = .aluOpX aluOpAdd := by decide

/-- Witness 3 (extension window): `LoadAbsolute{Off: 0xfffff004, Size: 4}` comes back as
`LoadExtension{Num: ExtType}`; `LoadExtension{Num: 4096}` comes back as `LoadAbsolute{Off: 0, Size: 4}`. -/
theorem witness_typed_ext :
    asm (.loadAbsolute 0xfffff004 4) = some ⟨0x20, 0, 0, 0xfffff004⟩ ∧
    disasm ⟨0x20, 0, 0, 0xfffff004⟩ = .loadExtension 4 ∧
    asm (.loadExtension 4096) = some ⟨0x20, 0, 0, 0⟩ ∧ disasm ⟨0x20, 0, 0, 0⟩ = .loadAbsolute 0 4 := by decide

theorem typed_full_false : ¬ RoundTripTypedStatement := by
  intro h
  have := h (.jumpIf jumpEqual 42 0 3) ⟨0x15, 0, 3, 42⟩ (by decide) (by decide) (by decide)
  exact absurd this (by decide)

/-! ### raw → typed → raw -/

/-- `Assemble(Disassemble(r)) = r` holds EXACTLY for the canonical raw instructions
(this includes the undecodable ones, which `Disassemble` passes through). -/
theorem asm_disasm_iff (r : Raw) (hr : r.WF) : asm (disasm r) = some r ↔ canonRaw r = true := by
  constructor
  · intro h
    exact canonRaw_asm (disasm r) r (disasm_wf r hr) (canonTyped_disasm r hr) h
  · exact asm_disasm_of_canon r hr

/-- The second half of C48 as stated: every raw instruction that decodes to a known type reassembles to itself. -/
def RoundTripRawStatement : Prop :=
  ∀ r : Raw, r.WF → isRaw (disasm r) = false → asm (disasm r) = some r

/-- Proved part of the second half: canonical raw instructions. Missing for the full statement: the
non-canonical encodings, on which it is false (`raw_full_false`). -/
theorem asm_disasm_partial (r : Raw) (hr : r.WF) (hc : canonRaw r = true) : asm (disasm r) = some r :=
  asm_disasm_of_canon r hr hc

/-- The three witnesses of DESIGN §7 C48 (all reproduced on the real package by harness/C48). -/
theorem witness_raw :
    (disasm ⟨0x0100, 0, 0, 7⟩ = .loadConstant 0 7 ∧ asm (.loadConstant 0 7) = some ⟨0, 0, 0, 7⟩) ∧
    (disasm ⟨0x16, 0, 0, 9⟩ = .retA ∧ asm .retA = some ⟨0x16, 0, 0, 0⟩) ∧
    (disasm ⟨0x28, 0, 0, 0xfffff004⟩ = .loadExtension 4 ∧ asm (.loadExtension 4) = some ⟨0x20, 0, 0, 0xfffff004⟩) := by
  decide

theorem raw_full_false : ¬ RoundTripRawStatement := by
  intro h
  have := h ⟨0x0100, 0, 0, 7⟩ (by decide) (by decide)
  exact absurd this (by decide)

/-! ### the property -/

/-- C48 as stated. -/
def Statement : Prop := RoundTripTypedStatement ∧ RoundTripRawStatement

theorem full_false : ¬ Statement := fun h => typed_full_false h.1

/-- C48 restricted to the canonical forms (decidable predicates `canonTyped`, `canonRaw`). -/
theorem holds_partial :
    (∀ (i : Instr) (r : Raw), i.WF → canonTyped i = true → asm i = some r → disasm r = i) ∧
    (∀ r : Raw, r.WF → canonRaw r = true → asm (disasm r) = some r) :=
  ⟨fun i r hi hc h => disasm_asm_of_canon i r hi hc h, fun r hr hc => asm_disasm_of_canon r hr hc⟩

/-- The canonical sets correspond: `Assemble` maps canonical typed values to canonical raw instructions and
`Disassemble` maps every raw instruction to a canonical typed value. -/
theorem canonical_correspondence :
    (∀ (i : Instr) (r : Raw), i.WF → canonTyped i = true → asm i = some r → canonRaw r = true) ∧
    (∀ r : Raw, r.WF → canonTyped (disasm r) = true) :=
  ⟨canonRaw_asm, canonTyped_disasm⟩

/-! ### programs (`Assemble` / `Disassemble` of asm.go) -/

theorem disasmProg_asmProg (p : List Instr) (rs : List Raw)
    (hp : ∀ i ∈ p, i.WF ∧ canonTyped i = true) (h : asmProg p = some rs) : (disasmProg rs).1 = p := by
  induction p generalizing rs with
  | nil => simp [asmProg] at h; subst h; simp [disasmProg]
  | cons i rest ih =>
    simp only [asmProg] at h
    split at h
    · simp at h
    rename_i r hr
    split at h
    · simp at h
    rename_i rs' hrs
    simp at h; subst h
    have h1 := hp i (by simp)
    have := ih rs' (fun j hj => hp j (by simp [hj])) hrs
    simp only [disasmProg, List.map_cons] at this ⊢
    rw [this, disasm_asm_of_canon i r h1.1 h1.2 hr]

theorem asmProg_disasmProg (rs : List Raw) (hp : ∀ r ∈ rs, r.WF ∧ canonRaw r = true) :
    asmProg (disasmProg rs).1 = some rs := by
  induction rs with
  | nil => simp [disasmProg, asmProg]
  | cons r rest ih =>
    have h1 := hp r (by simp)
    have := ih (fun j hj => hp j (by simp [hj]))
    simp only [disasmProg, List.map_cons, asmProg] at this ⊢
    rw [asm_disasm_of_canon r h1.1 h1.2, this]

/-! ### non-vacuity -/

/-- Every instruction of the package's own `allInstructions` test program is canonical. -/
example : ([.loadConstant 0 42, .loadConstant 1 42, .loadScratch 0 3, .loadScratch 1 3, .loadAbsolute 42 1,
    .loadAbsolute 42 2, .loadAbsolute 42 4, .loadIndirect 42 1, .loadIndirect 42 2, .loadIndirect 42 4,
    .loadMemShift 42, .loadExtension 1, .loadExtension 0, .loadExtension 4, .loadExtension 56,
    .storeScratch 0 3, .storeScratch 1 3, .aluOpConstant aluOpAdd 42, .aluOpConstant aluOpXor 42, .aluOpX aluOpMod,
    .negateA, .jump 17, .jumpIf jumpEqual 42 15 16, .jumpIf jumpNotEqual 42 15 0, .jumpIf jumpLessThan 42 14 0,
    .jumpIf jumpLessOrEqual 42 13 0, .jumpIf jumpGreaterThan 42 11 12, .jumpIf jumpBitsSet 42 9 10,
    .jumpIfX jumpEqual 8 9, .jumpIfX jumpNotEqual 8 0, .tax, .txa, .retA, .retConstant 42] : List Instr).all
    (fun i => decide i.WF && canonTyped i && (asm i).isSome) = true := by decide

/-- Canonical raw instructions exist in every class, and so do decodable non-canonical ones. -/
example : ([⟨0x00, 0, 0, 7⟩, ⟨0x61, 0, 0, 15⟩, ⟨0x28, 0, 0, 14⟩, ⟨0x50, 0, 0, 0⟩, ⟨0x80, 0, 0, 0⟩, ⟨0xb1, 0, 0, 14⟩,
    ⟨0x02, 0, 0, 3⟩, ⟨0x54, 0, 0, 255⟩, ⟨0x9c, 0, 0, 0⟩, ⟨0x84, 0, 0, 0⟩, ⟨0x05, 0, 0, 9⟩, ⟨0x15, 1, 2, 0x800⟩,
    ⟨0x3d, 0, 4, 0⟩, ⟨0x06, 0, 0, 0xffff⟩, ⟨0x16, 0, 0, 0⟩, ⟨0x07, 0, 0, 0⟩, ⟨0x87, 0, 0, 0⟩] : List Raw).all
    (fun r => decide r.WF && canonRaw r && !isRaw (disasm r)) = true := by decide
example : ([⟨0x0100, 0, 0, 7⟩, ⟨0x16, 0, 0, 9⟩, ⟨0x28, 0, 0, 0xfffff004⟩, ⟨0x20, 0, 0, 0xfffff001⟩, ⟨0x41, 0, 0, 0⟩,
    ⟨0xa0, 0, 0, 0⟩, ⟨0x0d, 0, 0, 0⟩, ⟨0x07, 1, 0, 0⟩] : List Raw).all
    (fun r => decide r.WF && !canonRaw r && !isRaw (disasm r)) = true := by decide

end NetVerif.Proofs.C48
