import NetVerif.Model.Bpf
import NetVerif.Proofs.Lemmas.Bpf
import NetVerif.Proofs.Lemmas.BpfRoundTrip
import NetVerif.Gen.C48
/-!
C48 — BPF assembly and disassembly are inverse.

Model: `Model/Bpf.lean` (`asm` = every `Instruction.Assemble`, `disasm` =
`RawInstruction.Disassemble`).  The property as written is FALSE on the
unchanged code in both directions (`full_false`, with concrete witnesses):

* typed → raw → typed: `Assemble` accepts values that `Disassemble` normalises
  (a conditional jump written with the "other" polarity, an `ALUOp` outside the
  enumerated operators, `LoadAbsolute` in the extension window, an out-of-range
  `Extension`);
* raw → typed → raw: `Disassemble` ignores the bits/fields an instruction does
  not use, so non-canonical encodings do not reassemble to themselves.

What IS proved, for all values of the Go field types (no bounds, no sampling):
`disasm_asm_iff` and `asm_disasm_iff` — each round trip succeeds EXACTLY on the
decidable canonical sets `canonTyped` / `canonRaw`, and the two sets are in
bijection (`canonRaw_asm`, `canonTyped_disasm`).
-/
namespace NetVerif.Proofs.C48
open NetVerif NetVerif.Model.Bpf NetVerif.Proofs.Lemmas.Bpf NetVerif.Proofs.Lemmas.BpfRoundTrip

attribute [local simp] regA regX aluOpAdd aluOpSub aluOpMul aluOpDiv aluOpOr aluOpAnd aluOpShiftLeft
  aluOpShiftRight aluOpNeg aluOpMod aluOpXor jumpEqual jumpNotEqual jumpGreaterThan jumpLessThan
  jumpGreaterOrEqual jumpLessOrEqual jumpBitsSet jumpBitsNotSet extOffset extLen
  opClsLoadA opClsLoadX opClsStoreA opClsStoreX opClsALU opClsJump opClsReturn opClsMisc
  opAddrModeImmediate opAddrModeAbsolute opAddrModeIndirect opAddrModeScratch opAddrModePacketLen
  opAddrModeMemShift opLoadWidth4 opLoadWidth2 opLoadWidth1 opOperandConstant opOperandX
  opJumpAlways opJumpEqual opJumpGT opJumpGE opJumpSet opRetSrcConstant opRetSrcA opMiscTAX opMiscTXA
  extThreshold opMaskCls opMaskLoadDest opMaskLoadWidth opMaskLoadMode opMaskOperand opMaskOperator

/-! ### T-tie: constants and switch tables regenerated from bpf/constants.go, bpf/instructions.go -/

/-- Every opcode constant / mask of constants.go equals the model's constant. -/
theorem gen_constants_eq :
    Gen.C48.RegA = regA ∧ Gen.C48.RegX = regX ∧
    Gen.C48.ALUOpAdd = aluOpAdd ∧ Gen.C48.ALUOpSub = aluOpSub ∧ Gen.C48.ALUOpMul = aluOpMul ∧
    Gen.C48.ALUOpDiv = aluOpDiv ∧ Gen.C48.ALUOpOr = aluOpOr ∧ Gen.C48.ALUOpAnd = aluOpAnd ∧
    Gen.C48.ALUOpShiftLeft = aluOpShiftLeft ∧ Gen.C48.ALUOpShiftRight = aluOpShiftRight ∧
    Gen.C48.aluOpNeg = aluOpNeg ∧ Gen.C48.ALUOpMod = aluOpMod ∧ Gen.C48.ALUOpXor = aluOpXor ∧
    Gen.C48.JumpEqual = jumpEqual ∧ Gen.C48.JumpNotEqual = jumpNotEqual ∧
    Gen.C48.JumpGreaterThan = jumpGreaterThan ∧ Gen.C48.JumpLessThan = jumpLessThan ∧
    Gen.C48.JumpGreaterOrEqual = jumpGreaterOrEqual ∧ Gen.C48.JumpLessOrEqual = jumpLessOrEqual ∧
    Gen.C48.JumpBitsSet = jumpBitsSet ∧ Gen.C48.JumpBitsNotSet = jumpBitsNotSet ∧
    Gen.C48.extOffset = extOffset ∧ Gen.C48.ExtLen = extLen ∧
    Gen.C48.opMaskCls = opMaskCls ∧ Gen.C48.opMaskLoadDest = opMaskLoadDest ∧
    Gen.C48.opMaskLoadWidth = opMaskLoadWidth ∧ Gen.C48.opMaskLoadMode = opMaskLoadMode ∧
    Gen.C48.opMaskOperand = opMaskOperand ∧ Gen.C48.opMaskOperator = opMaskOperator ∧
    Gen.C48.opClsLoadA = opClsLoadA ∧ Gen.C48.opClsLoadX = opClsLoadX ∧ Gen.C48.opClsStoreA = opClsStoreA ∧
    Gen.C48.opClsStoreX = opClsStoreX ∧ Gen.C48.opClsALU = opClsALU ∧ Gen.C48.opClsJump = opClsJump ∧
    Gen.C48.opClsReturn = opClsReturn ∧ Gen.C48.opClsMisc = opClsMisc ∧
    Gen.C48.opAddrModeImmediate = opAddrModeImmediate ∧ Gen.C48.opAddrModeAbsolute = opAddrModeAbsolute ∧
    Gen.C48.opAddrModeIndirect = opAddrModeIndirect ∧ Gen.C48.opAddrModeScratch = opAddrModeScratch ∧
    Gen.C48.opAddrModePacketLen = opAddrModePacketLen ∧ Gen.C48.opAddrModeMemShift = opAddrModeMemShift ∧
    Gen.C48.opLoadWidth4 = opLoadWidth4 ∧ Gen.C48.opLoadWidth2 = opLoadWidth2 ∧ Gen.C48.opLoadWidth1 = opLoadWidth1 ∧
    Gen.C48.opOperandConstant = opOperandConstant ∧ Gen.C48.opOperandX = opOperandX ∧
    Gen.C48.opJumpAlways = opJumpAlways ∧ Gen.C48.opJumpEqual = opJumpEqual ∧ Gen.C48.opJumpGT = opJumpGT ∧
    Gen.C48.opJumpGE = opJumpGE ∧ Gen.C48.opJumpSet = opJumpSet ∧
    Gen.C48.opRetSrcConstant = opRetSrcConstant ∧ Gen.C48.opRetSrcA = opRetSrcA ∧
    Gen.C48.opMiscTAX = opMiscTAX ∧ Gen.C48.opMiscTXA = opMiscTXA ∧
    Gen.C48.extThreshold = extThreshold := by
  decide

/-- The `switch test` of `jumpToRaw`, regenerated as a table, is the model's `jumpTestToOp`. -/
theorem gen_jumpToRaw_eq (t : Nat) : jumpTestToOp t = Gen.C48.jumpToRawTable.lookup t := by
  unfold jumpTestToOp Gen.C48.jumpToRawTable
  repeat' split
  all_goals simp_all [List.lookup]
  all_goals (repeat' split)
  all_goals simp_all

/-- Both `switch op` tables of `jumpOpToTest`, regenerated, are the model's `jumpOpToTest`. -/
theorem gen_jumpOpToTest_eq (op jt jf : Nat) :
    jumpOpToTest op jt jf =
      if jt = 0 then ((Gen.C48.jumpOpToTestZero.lookup op).getD 0, jf, 0)
      else ((Gen.C48.jumpOpToTestNonZero.lookup op).getD 0, jt, jf) := by
  unfold jumpOpToTest Gen.C48.jumpOpToTestZero Gen.C48.jumpOpToTestNonZero
  repeat' split
  all_goals simp_all [List.lookup]
  all_goals (repeat' split)
  all_goals simp_all

/-- The operator lists in `Disassemble`'s ALU and jump cases. -/
theorem gen_disasm_lists_eq (op : Nat) :
    isALUBinary op = Gen.C48.disasmALUBinary.contains op ∧
    ((op = opJumpEqual ∨ op = opJumpGT ∨ op = opJumpGE ∨ op = opJumpSet) ↔ op ∈ Gen.C48.disasmJumpConds) := by
  constructor
  · simp only [isALUBinary, Gen.C48.disasmALUBinary, List.contains, List.elem]
    repeat' split
    all_goals simp_all
  · simp [Gen.C48.disasmJumpConds]

/-! ### well-formedness is preserved -/

/-- `Assemble` produces values of the field types. -/
theorem asm_wf (i : Instr) (r : Raw) (hi : i.WF) (h : asm i = some r) : r.WF := by
  cases i with
  | aluOpConstant op val =>
    simp [asm] at h; subst h
    exact ⟨Nat.or_lt_two_pow (n := 16) (by decide) hi.1, by simp, by simp, hi.2⟩
  | aluOpX op =>
    simp [asm] at h; subst h
    exact ⟨Nat.or_lt_two_pow (n := 16) (by decide) hi, by simp, by simp, by simp⟩
  | jumpIf cond val st sf =>
    simp only [asm, jumpToRaw] at h
    split at h
    · simp at h
    rename_i c f hj
    obtain ⟨h1, h2, h3, h4⟩ := hi
    rcases jumpTestToOp_some _ _ _ hj with ⟨_, h2', h3'⟩ | ⟨_, h2', h3'⟩ | ⟨_, h2', h3'⟩ | ⟨_, h2', h3'⟩ |
      ⟨_, h2', h3'⟩ | ⟨_, h2', h3'⟩ | ⟨_, h2', h3'⟩ | ⟨_, h2', h3'⟩ <;> subst h2' h3' <;> simp at h <;>
      subst h <;> simp [Raw.WF, *]
  | jumpIfX cond st sf =>
    simp only [asm, jumpToRaw] at h
    split at h
    · simp at h
    rename_i c f hj
    obtain ⟨h1, h3, h4⟩ := hi
    rcases jumpTestToOp_some _ _ _ hj with ⟨_, h2', h3'⟩ | ⟨_, h2', h3'⟩ | ⟨_, h2', h3'⟩ | ⟨_, h2', h3'⟩ |
      ⟨_, h2', h3'⟩ | ⟨_, h2', h3'⟩ | ⟨_, h2', h3'⟩ | ⟨_, h2', h3'⟩ <;> subst h2' h3' <;> simp at h <;>
      subst h <;> simp [Raw.WF, *]
  | raw r' => simp [asm] at h; subst h; exact hi
  | _ =>
    simp only [asm, assembleLoad, Instr.WF, int64WF, u32OfInt] at h hi
    repeat' split at h
    all_goals simp at h
    all_goals (try subst h)
    all_goals simp [Raw.WF]
    all_goals omega

/-! ### typed → raw → typed -/

/-- `Disassemble(Assemble(i)) = i` holds EXACTLY for the canonical typed values. -/
theorem disasm_asm_iff (i : Instr) (r : Raw) (hi : i.WF) (h : asm i = some r) :
    disasm r = i ↔ canonTyped i = true := by
  have hr := asm_wf i r hi h
  by_cases hraw : isRaw i = true
  · -- pass-through RawInstruction values: Assemble is the identity
    cases i <;> simp [isRaw] at hraw
    rename_i r'
    simp [asm] at h; subst h
    simp only [canonTyped]
    constructor
    · intro hd; rw [hd]; rfl
    · intro hc
      cases hd : disasm r' <;> simp [hd, isRaw] at hc
      rw [disasm_raw_eq r' _ hr hd]
  · have hnr : isRaw i = false := by simpa using hraw
    constructor
    · intro hd
      rcases disasm_cases r with ⟨h1, _⟩ | ⟨h1, _⟩
      · rw [← hd, h1]; exact canonTyped_disasm r hr
      · rw [h1] at hd; rw [← hd] at hnr; simp [isRaw] at hnr
    · intro hc
      have hcore := disasm_asm_of_canon i r hi hnr hc h
      unfold disasm
      simp [hcore, hnr, h]

/-- The first half of C48 as stated: every accepted non-raw instruction value survives. -/
def RoundTripTypedStatement : Prop :=
  ∀ (i : Instr) (r : Raw), i.WF → isRaw i = false → asm i = some r → disasm r = i

/-- Proved part of the first half: every accepted CANONICAL value survives. Missing for the full
statement: the non-canonical values, on which it is false (`typed_full_false`). -/
theorem disasm_asm_partial (i : Instr) (r : Raw) (hi : i.WF) (hc : canonTyped i = true) (h : asm i = some r) :
    disasm r = i := (disasm_asm_iff i r hi h).mpr hc

/-- Witness 1 (jump polarity): `JumpIf{Cond: JumpEqual, Val: 42, SkipTrue: 0, SkipFalse: 3}` assembles to
`{0x15,0,3,42}`, which disassembles to `JumpIf{Cond: JumpNotEqual, Val: 42, SkipTrue: 3}`. -/
theorem witness_typed_jump :
    asm (.jumpIf jumpEqual 42 0 3) = some ⟨0x15, 0, 3, 42⟩ ∧
    disasm ⟨0x15, 0, 3, 42⟩ = .jumpIf jumpNotEqual 42 3 0 := by decide

/-- Witness 2 (unchecked `ALUOp`, cannot be rejected without breaking the package's own
TestVMALUOpUnknown): `ALUOpConstant{Op: 0x80, Val: 5}` assembles to the `neg` opcode with K=5, which is not a
canonical encoding and comes back as the RawInstruction; likewise `ALUOpConstant{Op: 8}`. -/
theorem witness_typed_alu :
    asm (.aluOpConstant 0x80 5) = some ⟨0x84, 0, 0, 5⟩ ∧ disasm ⟨0x84, 0, 0, 5⟩ = .raw ⟨0x84, 0, 0, 5⟩ ∧
    asm (.aluOpConstant 8 5) = some ⟨0x0c, 0, 0, 5⟩ ∧ disasm ⟨0x0c, 0, 0, 5⟩ = .raw ⟨0x0c, 0, 0, 5⟩ := by decide

/-- Witness 3 (extension window, a supported alias: `LoadAbsolute{Off: 0xfffff038, Size: 4}.String()` is
"ld #rand"): `LoadAbsolute{Off: 0xfffff004, Size: 4}` comes back as `LoadExtension{Num: ExtType}`. -/
theorem witness_typed_ext :
    asm (.loadAbsolute 0xfffff004 4) = some ⟨0x20, 0, 0, 0xfffff004⟩ ∧
    disasm ⟨0x20, 0, 0, 0xfffff004⟩ = .loadExtension 4 := by decide

theorem typed_full_false : ¬ RoundTripTypedStatement := by
  intro h
  have := h (.jumpIf jumpEqual 42 0 3) ⟨0x15, 0, 3, 42⟩ (by decide) (by decide) (by decide)
  exact absurd this (by decide)

/-- Repaired (fix: bpf LoadExtension range): an `Extension` outside [0, 0xfff] is rejected by `Assemble`
instead of wrapping into an absolute load (old witness `LoadExtension{Num: 4096}`). -/
theorem asm_loadExtension_range (num : Int) (r : Raw) (h : asm (.loadExtension num) = some r) :
    0 ≤ num ∧ num < 4096 := by
  simp only [asm] at h
  split at h
  · simp at h
  · rename_i hc; simp at hc; omega
example : asm (.loadExtension 4096) = none ∧ asm (.loadExtension (-1)) = none := by decide

/-! ### raw → typed → raw -/

/-- The second half of C48 as stated: every raw instruction that decodes to a known type reassembles to itself. -/
def RoundTripRawStatement : Prop :=
  ∀ r : Raw, r.WF → isRaw (disasm r) = false → asm (disasm r) = some r

/-- Repaired (fix: bpf Disassemble non-canonical): `Assemble(Disassemble(r)) = r` for EVERY raw
instruction (decoded or passed through). -/
theorem asm_disasm (r : Raw) (hr : r.WF) : asm (disasm r) = some r := by
  rcases disasm_cases r with ⟨h1, h2 | h2⟩ | ⟨h1, _⟩
  · have hg := good_disasm r hr
    rw [h1]
    cases hc : disasmCore r <;> simp [hc, isRaw] at h2
    rw [hc] at hg
    simp only [good] at hg
    subst hg; simp [asm]
  · rw [h1]; exact h2
  · rw [h1]; simp [asm]

theorem raw_holds : RoundTripRawStatement := fun r hr _ => asm_disasm r hr

/-- `Disassemble` decodes `r` (rather than passing it through) exactly when `r` is canonical: the
repair does not throw away any encoding that `Assemble` can produce. -/
theorem disasm_decodes_iff (r : Raw) (hr : r.WF) : disasm r = disasmCore r ↔ canonRaw r = true :=
  disasm_eq_core_iff r hr

/-- The three former witnesses of DESIGN §7 C48 now satisfy the statement: they are passed through. -/
example :
    disasm ⟨0x0100, 0, 0, 7⟩ = .raw ⟨0x0100, 0, 0, 7⟩ ∧ disasm ⟨0x16, 0, 0, 9⟩ = .raw ⟨0x16, 0, 0, 9⟩ ∧
    disasm ⟨0x28, 0, 0, 0xfffff004⟩ = .raw ⟨0x28, 0, 0, 0xfffff004⟩ ∧
    disasm ⟨0x20, 0, 0, 0xfffff001⟩ = .raw ⟨0x20, 0, 0, 0xfffff001⟩ ∧
    disasm ⟨0x16, 0, 0, 0⟩ = .retA ∧ disasm ⟨0x20, 0, 0, 0xfffff004⟩ = .loadExtension 4 := by decide

/-! ### the property -/

/-- C48 as stated. -/
def Statement : Prop := RoundTripTypedStatement ∧ RoundTripRawStatement

theorem full_false : ¬ Statement := fun h => typed_full_false h.1

/-- C48: the raw half in full, the typed half restricted to the canonical values (decidable `canonTyped`). -/
theorem holds_partial :
    (∀ (i : Instr) (r : Raw), i.WF → canonTyped i = true → asm i = some r → disasm r = i) ∧
    RoundTripRawStatement :=
  ⟨fun i r hi hc h => disasm_asm_partial i r hi hc h, raw_holds⟩

/-- The canonical sets correspond: `Assemble` maps canonical typed values to canonical raw instructions and
`Disassemble` maps every raw instruction to a canonical typed value. -/
theorem canonical_correspondence :
    (∀ (i : Instr) (r : Raw), i.WF → isRaw i = false → canonTyped i = true → asm i = some r → canonRaw r = true) ∧
    (∀ r : Raw, r.WF → canonTyped (disasm r) = true) := by
  refine ⟨canonRaw_asm, fun r hr => ?_⟩
  rcases disasm_cases r with ⟨h1, _⟩ | ⟨h1, _⟩
  · rw [h1]; exact canonTyped_disasm r hr
  · rw [h1]; simp [canonTyped, h1, isRaw]

/-! ### programs (`Assemble` / `Disassemble` of asm.go) -/

theorem disasmProg_asmProg (p : List Instr) (rs : List Raw)
    (hp : ∀ i ∈ p, i.WF ∧ canonTyped i = true) (h : asmProg p = some rs) : (disasmProg rs).1 = p := by
  induction p generalizing rs with
  | nil => simp [asmProg] at h; subst h; simp [disasmProg]
  | cons i rest ih =>
    simp only [asmProg] at h
    split at h
    · simp at h
    rename_i r hr
    split at h
    · simp at h
    rename_i rs' hrs
    simp at h; subst h
    have h1 := hp i (by simp)
    have := ih rs' (fun j hj => hp j (by simp [hj])) hrs
    simp only [disasmProg, List.map_cons] at this ⊢
    rw [this, disasm_asm_partial i r h1.1 h1.2 hr]

/-- Program level, repaired: `Assemble(Disassemble(rs)) = rs` for every raw program. -/
theorem asmProg_disasmProg (rs : List Raw) (hp : ∀ r ∈ rs, r.WF) : asmProg (disasmProg rs).1 = some rs := by
  induction rs with
  | nil => simp [disasmProg, asmProg]
  | cons r rest ih =>
    have := ih (fun j hj => hp j (by simp [hj]))
    simp only [disasmProg, List.map_cons, asmProg] at this ⊢
    rw [asm_disasm r (hp r (by simp)), this]

/-! ### non-vacuity -/

/-- Every instruction of the package's own `allInstructions` test program is canonical. -/
example : ([.loadConstant 0 42, .loadConstant 1 42, .loadScratch 0 3, .loadScratch 1 3, .loadAbsolute 42 1,
    .loadAbsolute 42 2, .loadAbsolute 42 4, .loadIndirect 42 1, .loadIndirect 42 2, .loadIndirect 42 4,
    .loadMemShift 42, .loadExtension 1, .loadExtension 0, .loadExtension 4, .loadExtension 56,
    .storeScratch 0 3, .storeScratch 1 3, .aluOpConstant aluOpAdd 42, .aluOpConstant aluOpXor 42, .aluOpX aluOpMod,
    .negateA, .jump 17, .jumpIf jumpEqual 42 15 16, .jumpIf jumpNotEqual 42 15 0, .jumpIf jumpLessThan 42 14 0,
    .jumpIf jumpLessOrEqual 42 13 0, .jumpIf jumpGreaterThan 42 11 12, .jumpIf jumpBitsSet 42 9 10,
    .jumpIfX jumpEqual 8 9, .jumpIfX jumpNotEqual 8 0, .tax, .txa, .retA, .retConstant 42] : List Instr).all
    (fun i => decide i.WF && canonTyped i && (asm i).isSome) = true := by decide

/-- Canonical raw instructions exist in every class, and so do decodable non-canonical ones. -/
example : ([⟨0x00, 0, 0, 7⟩, ⟨0x61, 0, 0, 15⟩, ⟨0x28, 0, 0, 14⟩, ⟨0x50, 0, 0, 0⟩, ⟨0x80, 0, 0, 0⟩, ⟨0xb1, 0, 0, 14⟩,
    ⟨0x02, 0, 0, 3⟩, ⟨0x54, 0, 0, 255⟩, ⟨0x9c, 0, 0, 0⟩, ⟨0x84, 0, 0, 0⟩, ⟨0x05, 0, 0, 9⟩, ⟨0x15, 1, 2, 0x800⟩,
    ⟨0x3d, 0, 4, 0⟩, ⟨0x06, 0, 0, 0xffff⟩, ⟨0x16, 0, 0, 0⟩, ⟨0x07, 0, 0, 0⟩, ⟨0x87, 0, 0, 0⟩] : List Raw).all
    (fun r => decide r.WF && canonRaw r && !isRaw (disasm r)) = true := by decide
example : ([⟨0x0100, 0, 0, 7⟩, ⟨0x16, 0, 0, 9⟩, ⟨0x28, 0, 0, 0xfffff004⟩, ⟨0x20, 0, 0, 0xfffff001⟩, ⟨0x41, 0, 0, 0⟩,
    ⟨0xa0, 0, 0, 0⟩, ⟨0x0d, 0, 0, 0⟩, ⟨0x07, 1, 0, 0⟩] : List Raw).all
    (fun r => decide r.WF && !canonRaw r && isRaw (disasm r) && !isRaw (disasmCore r)) = true := by decide

end NetVerif.Proofs.C48
