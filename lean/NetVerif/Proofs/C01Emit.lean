import NetVerif.Proofs.C01
/-!
C01, continued — the decoder's dynamic table does not depend on whether emission is enabled
(`SetEmitEnabled`, switched off by http2's Framer from inside the emit callback): a representation
that is accepted with emission on and with emission off consumes the same bytes and leaves the same
table (`parseRepr_dyn_indep_emit`); strings of an incrementally indexed literal are decoded even
when nothing is emitted (`wantStr := d.emitEnabled || it.indexed()`).
-/
namespace NetVerif.Proofs.C01
open NetVerif.Model.Hpack NetVerif.Model.HpackEnc
open NetVerif.Model
open NetVerif

/-- What the bytes say does not depend on the emit switch. -/
theorem parseAction_indep_emit (d : DecCore) (b : Bool) (buf : Bytes) :
    parseAction { d with emitEnabled := b } buf = parseAction d buf := by
  cases buf <;> rfl

theorem finishEmit_ok_dyn (d : DecCore) (hf : Field) (d' : DecCore) (em : Option Field)
    (h : finishEmit d hf = .ok d' em) : d' = d := by
  unfold finishEmit at h
  split at h
  · cases h
  · simp only [ApplyRes.ok.injEq] at h; exact h.1.symm

/-- **The table after an accepted representation is independent of `emitEnabled`.** -/
theorem applyAction_dyn_indep_emit (d : DecCore) (b : Bool) (a : Action) (d1 d2 : DecCore) (em1 em2 : Option Field)
    (h1 : applyAction d a = .ok d1 em1) (h2 : applyAction { d with emitEnabled := b } a = .ok d2 em2) :
    d2.dyn = d1.dyn := by
  cases a with
  | indexed e =>
    simp only [applyAction] at h1 h2
    rw [finishEmit_ok_dyn _ _ _ _ h1, finishEmit_ok_dyn _ _ _ _ h2]
  | sizeUpdate s =>
    simp only [applyAction, ApplyRes.ok.injEq] at h1 h2
    rw [← h1.1, ← h2.1]
  | literal it tn un uv =>
    cases hit : it.indexed with
    | false =>
      unfold applyAction at h1 h2
      simp only [hit, Bool.false_eq_true, ↓reduceIte] at h1 h2
      split at h1
      · cases h1
      · split at h1
        · cases h1
        · split at h2
          · cases h2
          · split at h2
            · cases h2
            · rw [finishEmit_ok_dyn _ _ _ _ h1, finishEmit_ok_dyn _ _ _ _ h2]
    | true =>
      unfold applyAction at h1 h2
      simp only [hit, Bool.or_true, ↓reduceIte] at h1 h2
      split at h1
      · cases h1
      · rename_i n1 hn1
        split at h1
        · cases h1
        · rename_i v1 hv1
          split at h2
          · cases h2
          · rename_i n2 hn2
            split at h2
            · cases h2
            · rename_i v2 hv2
              have hn : n2 = n1 := by
                have := hn1.symm.trans hn2
                simpa using this.symm
              have hv : v2 = v1 := by
                have := hv1.symm.trans hv2
                simpa using this.symm
              rw [finishEmit_ok_dyn _ _ _ _ h1, finishEmit_ok_dyn _ _ _ _ h2, hn, hv]

theorem parseRepr_dyn_indep_emit (d : DecCore) (b : Bool) (buf : Bytes) (d1 d2 : DecCore) (r1 r2 : Bytes)
    (em1 em2 : Option Field) (h1 : parseRepr d buf = .ok d1 r1 em1)
    (h2 : parseRepr { d with emitEnabled := b } buf = .ok d2 r2 em2) : d2.dyn = d1.dyn ∧ r2 = r1 := by
  unfold parseRepr at h1 h2
  rw [parseAction_indep_emit] at h2
  cases hpa : parseAction d buf with
  | error e => rw [hpa] at h1; cases e <;> simp at h1
  | ok ar =>
    obtain ⟨a, r⟩ := ar
    rw [hpa] at h1 h2
    dsimp only at h1 h2
    cases ha1 : applyAction d a with
    | err e dd => rw [ha1] at h1; cases h1
    | ok dd1 e1 =>
      cases ha2 : applyAction { d with emitEnabled := b } a with
      | err e dd => rw [ha2] at h2; cases h2
      | ok dd2 e2 =>
        rw [ha1] at h1
        rw [ha2] at h2
        simp only [PRes.ok.injEq] at h1 h2
        rw [← h1.1, ← h2.1, ← h1.2.1, ← h2.2.1]
        exact ⟨applyAction_dyn_indep_emit d b a dd1 dd2 e1 e2 ha1 ha2, rfl⟩

end NetVerif.Proofs.C01
