import NetVerif.Proofs.Lemmas.Hpack
import NetVerif.Proofs.C04
import NetVerif.Model.HpackU32
/-!
C02 — the HPACK decoder is safe and honours its limits on any input.

Model: `NetVerif.Model.Hpack` (total by construction: a Go panic has no counterpart; the only
artificial results are the fuel/progress guards `PErr.internal`; `parseRepr_consumes` shows every parsed
representation consumes at least one byte, which is why the guards are dead).

* `readVarInt_lt`, `readVarInt_consumed` — the integer decoder never reaches 2^64 (so Go's
  `uint64` arithmetic never wraps and the `Nat` model is exact) and reads 1–10 bytes.
* `write_table_inv`, `close_table_inv`, `setters_table_inv` — after every public call the table size
  is the sum of its entry sizes and `size ≤ maxSize`; `write_maxSize_le_allowed` — the peer
  (`Write`) can never raise `maxSize` above `allowedMaxSize`.
* `write_emits_within_maxStrLen` — every field emitted by `Write` respects `maxStrLen`.
* no fabrication: `indexed_action_is_table_entry`, `bad_index_is_error`, `indexed_emit_is_entry`,
  `literal_emit_is_input` (an emitted literal string is the raw bytes of the representation or
  their canonical Huffman decoding, a table name comes from the table), `bad_huffman_is_error`,
  `oversized_update_is_error`, `readString_is_infix`.
* `close_truncated` — `Close` with an incomplete representation pending reports `truncated`.
-/
namespace NetVerif.Proofs.C02
open NetVerif.Model.Hpack
open NetVerif.Proofs.Lemmas.Hpack
open NetVerif.Model
open NetVerif

/-! ### readVarInt -/

theorem readVarIntLoop_bound : ∀ (p : Bytes) (i m v : Nat) (rest : Bytes), m ≤ 56 → m % 7 = 0 →
    readVarIntLoop p i m = .ok (v, rest) →
      v + 2 ^ m ≤ i + 2 ^ 63 ∧ rest.length < p.length ∧ p.length ≤ rest.length + (69 - m) / 7 := by
  intro p
  induction p with
  | nil => intro i m v rest _ _ h; simp [readVarIntLoop] at h
  | cons b p ih =>
    intro i m v rest hm hm7 h
    simp only [readVarIntLoop] at h
    have hb : b % 128 * 2 ^ m ≤ 127 * 2 ^ m := Nat.mul_le_mul_right _ (by omega)
    have hp7 : 2 ^ (m + 7) = 128 * 2 ^ m := by rw [Nat.pow_add]; omega
    have hle : 2 ^ (m + 7) ≤ 2 ^ 63 := Nat.pow_le_pow_right (by omega) (by omega)
    split at h
    · simp only [Except.ok.injEq, Prod.mk.injEq] at h
      obtain ⟨hv, hr⟩ := h
      subst hv hr
      refine ⟨by omega, by simp, ?_⟩
      simp only [List.length_cons]
      omega
    · split at h
      · simp at h
      · rename_i hnov
        have := ih _ (m + 7) v rest (by omega) (by omega) h
        refine ⟨by omega, by simp only [List.length_cons]; omega, ?_⟩
        simp only [List.length_cons]
        omega

/-- `readVarInt` stays below 2^64 (indeed below 2^63 + 2^8): no `uint64` wrap-around in Go. -/
theorem readVarInt_lt (n : Nat) (p : Bytes) (v : Nat) (rest : Bytes) (hp : ∀ b ∈ p, b < 256)
    (h : readVarInt n p = .ok (v, rest)) : v < 2 ^ 63 + 2 ^ 8 := by
  cases p with
  | nil => simp [readVarInt] at h
  | cons b p =>
    have hb : b < 256 := hp b (by simp)
    simp only [readVarInt] at h
    have hi : (if n < 8 then b % 2 ^ n else b) ≤ 255 := by
      split
      · have := Nat.mod_le b (2 ^ n); omega
      · omega
    generalize (if n < 8 then b % 2 ^ n else b) = i at h hi
    split at h
    · simp only [Except.ok.injEq, Prod.mk.injEq] at h
      omega
    · have := (readVarIntLoop_bound p i 0 v rest (by omega) (by omega) h).1
      omega

/-- `readVarInt` consumes at least 1 and at most 10 bytes (more than 9 continuation bytes are rejected). -/
theorem readVarInt_consumed (n : Nat) (p : Bytes) (v : Nat) (rest : Bytes)
    (h : readVarInt n p = .ok (v, rest)) : rest.length < p.length ∧ p.length ≤ rest.length + 10 := by
  cases p with
  | nil => simp [readVarInt] at h
  | cons b p =>
    simp only [readVarInt] at h
    generalize (if n < 8 then b % 2 ^ n else b) = i at h
    split at h
    · simp only [Except.ok.injEq, Prod.mk.injEq] at h
      rw [← h.2]; simp
    · have := (readVarIntLoop_bound p i 0 v rest (by omega) (by omega) h).2
      simp only [List.length_cons]
      omega

/-! ### Progress: a representation consumes at least one byte; no `internal` result -/

def Shrinks {α : Type} (strict : Bool) (p : Parser α) : Prop :=
  ∀ buf a rest, p buf = .ok (a, rest) → if strict then rest.length < buf.length else rest.length ≤ buf.length

theorem shrinks_pure {α : Type} (a : α) : Shrinks false (Parser.pure a) := by
  intro buf a' rest h
  simp only [Parser.pure, Except.ok.injEq, Prod.mk.injEq] at h
  simp [h.2]

theorem shrinks_fail {α : Type} (e : PErr) (s : Bool) : Shrinks s (Parser.fail e : Parser α) := by
  intro buf a rest h; simp [Parser.fail] at h

theorem shrinks_weaken {α : Type} (p : Parser α) (h : Shrinks true p) : Shrinks false p := by
  intro buf a rest hr
  have := h buf a rest hr
  simp only [↓reduceIte, Bool.false_eq_true] at this ⊢
  omega

theorem shrinks_bind {α β : Type} (p : Parser α) (f : α → Parser β)
    (hp : Shrinks true p) (hf : ∀ a, Shrinks false (f a)) : Shrinks true (p.bind f) := by
  intro buf b rest h
  simp only [Parser.bind] at h
  cases hpb : p buf with
  | error e => rw [hpb] at h; simp at h
  | ok ar =>
    obtain ⟨a, r⟩ := ar
    rw [hpb] at h
    have h1 := hp buf a r hpb
    have h2 := hf a r b rest h
    simp only [↓reduceIte, Bool.false_eq_true] at h1 h2 ⊢
    omega

theorem shrinks_readVarInt (n : Nat) : Shrinks true (readVarInt n) := by
  intro buf a rest h
  simpa using (readVarInt_consumed n buf a rest h).1

theorem shrinks_readString (m : Nat) : Shrinks true (readString m) := by
  intro buf a rest h
  cases buf with
  | nil => simp [readString] at h
  | cons b0 p =>
    simp only [readString] at h
    cases hr : readVarInt 7 (b0 :: p) with
    | error e => rw [hr] at h; simp at h
    | ok ar =>
      obtain ⟨strLen, p'⟩ := ar
      rw [hr] at h
      have := (readVarInt_consumed 7 _ _ _ hr).1
      simp only at h
      split at h
      · simp at h
      · split at h
        · simp at h
        · simp only [Except.ok.injEq, Prod.mk.injEq] at h
          rw [← h.2]
          simp only [↓reduceIte, List.length_drop]
          omega

theorem shrinks_parseLiteral (d : DecCore) (n : Nat) (it : IndexType) : Shrinks true (parseLiteral d n it) := by
  unfold parseLiteral
  apply shrinks_bind _ _ (shrinks_readVarInt n)
  intro nameIdx
  split
  · split
    · exact shrinks_fail _ _
    · apply shrinks_weaken
      apply shrinks_bind _ _ (shrinks_readString _)
      intro uv; exact shrinks_pure _
  · apply shrinks_weaken
    apply shrinks_bind _ _ (shrinks_readString _)
    intro un
    apply shrinks_weaken
    apply shrinks_bind _ _ (shrinks_readString _)
    intro uv; exact shrinks_pure _

theorem shrinks_parseAction (d : DecCore) : Shrinks true (parseAction d) := by
  intro buf a rest h
  cases buf with
  | nil => simp [parseAction] at h
  | cons b p =>
    simp only [parseAction] at h
    have hidx : Shrinks true ((readVarInt 7).bind fun idx =>
        match d.at idx with
        | none => (Parser.fail .invalidIndex : Parser Action)
        | some e => Parser.pure (.indexed e)) := by
      apply shrinks_bind _ _ (shrinks_readVarInt 7)
      intro idx
      split
      · exact shrinks_fail _ _
      · exact shrinks_pure _
    have hupd : Shrinks true ((readVarInt 5).bind fun size =>
        if size > d.dyn.allowedMaxSize then (Parser.fail .tableUpdateTooLarge : Parser Action)
        else Parser.pure (.sizeUpdate size)) := by
      apply shrinks_bind _ _ (shrinks_readVarInt 5)
      intro size
      split
      · exact shrinks_fail _ _
      · exact shrinks_pure _
    split at h
    · exact hidx _ _ _ h
    · split at h
      · exact shrinks_parseLiteral d 6 .indexedTrue _ _ _ h
      · split at h
        · exact shrinks_parseLiteral d 4 .indexedFalse _ _ _ h
        · split at h
          · exact shrinks_parseLiteral d 4 .indexedNever _ _ _ h
          · split at h
            · split at h
              · simp at h
              · exact hupd _ _ _ h
            · simp at h

/-- A parsed representation consumes at least one byte. -/
theorem parseRepr_consumes (d : DecCore) (buf : Bytes) (d' : DecCore) (rest : Bytes) (em : Option Field)
    (h : parseRepr d buf = .ok d' rest em) : rest.length < buf.length := by
  unfold parseRepr at h
  cases hp : parseAction d buf with
  | error e => rw [hp] at h; cases e <;> simp at h
  | ok ar =>
    obtain ⟨a, r⟩ := ar
    rw [hp] at h
    simp only at h
    have := shrinks_parseAction d buf a r hp
    cases ha : applyAction d a with
    | err e d1 => rw [ha] at h; simp at h
    | ok d1 em1 =>
      rw [ha] at h
      simp only [PRes.ok.injEq] at h
      rw [← h.2.1]
      simpa using this

/-! ### Invariants of the loop, generically -/

/-- A property of the core state preserved by every representation is preserved by the loop. -/
theorem writeLoop_preserves (P : DecCore → Prop)
    (hff : ∀ d, P d → P { d with firstField := false })
    (hparse : ∀ d buf, P d → match parseRepr d buf with
      | .needMore => True
      | .err _ d' => P d'
      | .ok d' _ _ => P d')
    (par : Bool) : ∀ (f : Nat) (d : DecCore) (buf : Bytes) (em : List Field), P d →
      P (writeLoop par f d buf em).1 := by
  have hff' : ∀ (buf : Bytes) (d : DecCore), P d → P (afterRepr buf d) := by
    intro buf d h
    unfold afterRepr
    split
    · exact h
    · exact hff d h
  intro f
  induction f with
  | zero => intro d buf em h; exact h
  | succ f ih =>
    intro d buf em h
    simp only [writeLoop]
    split
    · exact h
    · have hp := hparse d buf h
      split
      · split <;> exact h
      · rename_i e d' heq
        rw [heq] at hp
        exact hff' _ _ hp
      · rename_i d' rest e heq
        rw [heq] at hp
        split
        · exact ih _ _ _ (hff' _ _ hp)
        · exact hp

/-! ### Write in terms of the loop -/

theorem writeG_eq (par : Bool) (d : Decoder) (p : Bytes) (hp : p ≠ []) :
    d.writeG par p = finishWrite (writeLoop par ((d.saveBuf ++ p).length + 1) d.toDecCore (d.saveBuf ++ p) []) := by
  unfold Decoder.writeG
  simp [hp]

theorem finishWrite_core (r : DecCore × List Field × LoopEnd) : (finishWrite r).1.toDecCore = r.1 := by
  unfold finishWrite
  cases r.2.2 <;> rfl

theorem finishWrite_em (r : DecCore × List Field × LoopEnd) : (finishWrite r).2.1 = r.2.1 := by
  unfold finishWrite
  cases r.2.2 <;> rfl

/-- Core state of an `ApplyRes`. -/
def resCore : ApplyRes → DecCore
  | .err _ d => d
  | .ok d _ => d

theorem finishEmit_core (d : DecCore) (hf : Field) : resCore (finishEmit d hf) = d := by
  unfold finishEmit
  cases callEmit d hf <;> rfl

/-- The only state changes one representation can make: none, `setMaxSize`, or `add`. -/
theorem applyAction_shape (d : DecCore) (a : Action) :
    ∃ dyn', resCore (applyAction d a) = { d with dyn := dyn' } ∧
      (dyn' = d.dyn ∨ (∃ s, a = .sizeUpdate s ∧ dyn' = d.dyn.setMaxSize s) ∨ ∃ e, dyn' = d.dyn.add e) := by
  cases a with
  | indexed e => exact ⟨d.dyn, by simp only [applyAction]; rw [finishEmit_core], .inl rfl⟩
  | sizeUpdate s => exact ⟨d.dyn.setMaxSize s, rfl, .inr (.inl ⟨s, rfl, rfl⟩)⟩
  | literal it tn un uv =>
    simp only [applyAction]
    split
    · exact ⟨d.dyn, rfl, .inl rfl⟩
    · split
      · exact ⟨d.dyn, rfl, .inl rfl⟩
      · rw [finishEmit_core]
        split
        · exact ⟨_, rfl, .inr (.inr ⟨_, rfl⟩)⟩
        · exact ⟨d.dyn, rfl, .inl rfl⟩

/-- Inversion of `parseRepr`. -/
theorem parseRepr_ok_inv (d : DecCore) (buf : Bytes) (d' : DecCore) (rest : Bytes) (em : Option Field)
    (h : parseRepr d buf = .ok d' rest em) :
    ∃ a, parseAction d buf = .ok (a, rest) ∧ applyAction d a = .ok d' em := by
  unfold parseRepr at h
  cases hp : parseAction d buf with
  | error e => rw [hp] at h; cases e <;> simp at h
  | ok ar =>
    obtain ⟨a, r⟩ := ar
    rw [hp] at h
    simp only at h
    cases ha : applyAction d a with
    | err e d1 => rw [ha] at h; simp at h
    | ok d1 em1 =>
      rw [ha] at h
      simp only [PRes.ok.injEq] at h
      obtain ⟨h1, h2, h3⟩ := h
      subst h1 h2 h3
      exact ⟨a, rfl, ha⟩

theorem parseRepr_err_inv (d : DecCore) (buf : Bytes) (d' : DecCore) (e : PErr)
    (h : parseRepr d buf = .err e d') :
    d' = d ∨ ∃ a rest, parseAction d buf = .ok (a, rest) ∧ applyAction d a = .err e d' := by
  unfold parseRepr at h
  cases hp : parseAction d buf with
  | error e' =>
    rw [hp] at h
    left
    cases e' <;> simp at h <;> exact h.2.symm
  | ok ar =>
    obtain ⟨a, r⟩ := ar
    rw [hp] at h
    simp only at h
    cases ha : applyAction d a with
    | err e1 d1 =>
      rw [ha] at h
      simp only [PRes.err.injEq] at h
      obtain ⟨h1, h2⟩ := h
      subst h1 h2
      exact .inr ⟨a, r, rfl, ha⟩
    | ok d1 em1 => rw [ha] at h; simp at h

/-- Every value a parser can return satisfies `Q`. -/
def Yields {α : Type} (Q : α → Prop) (p : Parser α) : Prop := ∀ buf a rest, p buf = .ok (a, rest) → Q a

theorem yields_pure {α : Type} (Q : α → Prop) (a : α) (h : Q a) : Yields Q (Parser.pure a) := by
  intro buf a' rest hr
  simp only [Parser.pure, Except.ok.injEq, Prod.mk.injEq] at hr
  rw [← hr.1]; exact h

theorem yields_fail {α : Type} (Q : α → Prop) (e : PErr) : Yields Q (Parser.fail e : Parser α) := by
  intro buf a rest hr; simp [Parser.fail] at hr

theorem yields_bind {α β : Type} (Q : β → Prop) (p : Parser α) (f : α → Parser β)
    (hf : ∀ a, Yields Q (f a)) : Yields Q (p.bind f) := by
  intro buf b rest h
  simp only [Parser.bind] at h
  cases hpb : p buf with
  | error e => rw [hpb] at h; simp at h
  | ok ar =>
    obtain ⟨a, r⟩ := ar
    rw [hpb] at h
    exact hf a r b rest h

/-- The parser yields `sizeUpdate s` only after checking `s ≤ allowedMaxSize`. -/
def UpdOK (d : DecCore) (a : Action) : Prop := ∀ s, a = .sizeUpdate s → s ≤ d.dyn.allowedMaxSize

theorem yields_parseLiteral (d : DecCore) (n : Nat) (it : IndexType) : Yields (UpdOK d) (parseLiteral d n it) := by
  unfold parseLiteral
  apply yields_bind
  intro nameIdx
  split
  · split
    · exact yields_fail _ _
    · apply yields_bind
      intro uv; exact yields_pure _ _ (by intro s hs; cases hs)
  · apply yields_bind
    intro un
    apply yields_bind
    intro uv; exact yields_pure _ _ (by intro s hs; cases hs)

theorem parseAction_sizeUpdate (d : DecCore) (buf : Bytes) (s : Nat) (rest : Bytes)
    (h : parseAction d buf = .ok (.sizeUpdate s, rest)) : s ≤ d.dyn.allowedMaxSize := by
  cases buf with
  | nil => simp [parseAction] at h
  | cons b p =>
    simp only [parseAction] at h
    have hidx : Yields (UpdOK d) ((readVarInt 7).bind fun idx =>
        match d.at idx with
        | none => (Parser.fail .invalidIndex : Parser Action)
        | some e => Parser.pure (.indexed e)) := by
      apply yields_bind
      intro idx
      split
      · exact yields_fail _ _
      · exact yields_pure _ _ (by intro s hs; cases hs)
    have hupd : Yields (UpdOK d) ((readVarInt 5).bind fun size =>
        if size > d.dyn.allowedMaxSize then (Parser.fail .tableUpdateTooLarge : Parser Action)
        else Parser.pure (.sizeUpdate size)) := by
      apply yields_bind
      intro size
      split
      · exact yields_fail _ _
      · rename_i hle
        exact yields_pure _ _ (by intro s hs; cases hs; omega)
    split at h
    · exact hidx _ _ _ h s rfl
    · split at h
      · exact yields_parseLiteral d 6 .indexedTrue _ _ _ h s rfl
      · split at h
        · exact yields_parseLiteral d 4 .indexedFalse _ _ _ h s rfl
        · split at h
          · exact yields_parseLiteral d 4 .indexedNever _ _ _ h s rfl
          · split at h
            · split at h
              · simp at h
              · exact hupd _ _ _ h s rfl
            · simp at h

/-! ### Dynamic table limits -/

def sizeSum (es : List Entry) : Nat := (es.map entrySize).sum

/-- `size` is the sum of the entry sizes and does not exceed `maxSize`. -/
def TableInv (dt : DynTable) : Prop := dt.size = sizeSum dt.ents ∧ dt.size ≤ dt.maxSize

theorem evictLoop_spec (maxSize : Nat) : ∀ (l : List Entry) (size : Nat), size = sizeSum l →
    (evictLoop maxSize l size).2 = sizeSum (evictLoop maxSize l size).1 ∧
    (evictLoop maxSize l size).2 ≤ maxSize := by
  intro l
  induction l with
  | nil => intro size h; simp [evictLoop, sizeSum] at *; omega
  | cons e rest ih =>
    intro size h
    simp only [evictLoop]
    split
    · apply ih
      simp only [sizeSum, List.map_cons, List.sum_cons] at h ⊢
      omega
    · exact ⟨h, by omega⟩

theorem sizeSum_reverse (l : List Entry) : sizeSum l.reverse = sizeSum l := by
  simp [sizeSum, List.map_reverse, List.sum_reverse]

/-- `evict` establishes the invariant from the sum part alone. -/
theorem evict_inv (dt : DynTable) (h : dt.size = sizeSum dt.ents) : TableInv dt.evict := by
  have := evictLoop_spec dt.maxSize dt.ents.reverse dt.size (by rw [sizeSum_reverse]; exact h)
  unfold DynTable.evict TableInv
  simp only [sizeSum_reverse]
  exact this

theorem setMaxSize_inv (dt : DynTable) (v : Nat) (h : TableInv dt) : TableInv (dt.setMaxSize v) :=
  evict_inv _ h.1

theorem add_inv (dt : DynTable) (e : Entry) (h : TableInv dt) : TableInv (dt.add e) := by
  apply evict_inv
  simp only [sizeSum, List.map_cons, List.sum_cons]
  have := h.1
  simp only [sizeSum] at this
  omega

theorem evict_fields (dt : DynTable) :
    dt.evict.maxSize = dt.maxSize ∧ dt.evict.allowedMaxSize = dt.allowedMaxSize := ⟨rfl, rfl⟩

/-- What one representation preserves: table invariant, `maxSize ≤ allowedMaxSize`, and the
configuration fields (`maxStrLen`, `emitEnabled`, `allowedMaxSize` are never changed by the peer). -/
def CoreInv (m : Nat) (en : Bool) (al : Nat) (d : DecCore) : Prop :=
  TableInv d.dyn ∧ d.maxStrLen = m ∧ d.emitEnabled = en ∧ d.dyn.allowedMaxSize = al

theorem coreInv_of_shape (m : Nat) (en : Bool) (al : Nat) (d : DecCore) (a : Action) (h : CoreInv m en al d) :
    CoreInv m en al (resCore (applyAction d a)) := by
  obtain ⟨dyn', hc, hd⟩ := applyAction_shape d a
  rw [hc]
  rcases hd with rfl | ⟨s, _, rfl⟩ | ⟨e, rfl⟩
  · exact h
  · exact ⟨setMaxSize_inv _ _ h.1, h.2.1, h.2.2.1, h.2.2.2⟩
  · exact ⟨add_inv _ _ h.1, h.2.1, h.2.2.1, h.2.2.2⟩

theorem parseRepr_inv (m : Nat) (en : Bool) (al : Nat) (d : DecCore) (buf : Bytes) (h : CoreInv m en al d) :
    match parseRepr d buf with
    | .needMore => True
    | .err _ d' => CoreInv m en al d'
    | .ok d' _ _ => CoreInv m en al d' := by
  cases hp : parseRepr d buf with
  | needMore => trivial
  | err e d' =>
    rcases parseRepr_err_inv d buf d' e hp with rfl | ⟨a, rest, _, ha⟩
    · exact h
    · have := coreInv_of_shape m en al d a h
      rw [ha] at this
      exact this
  | ok d' rest em =>
    obtain ⟨a, _, ha⟩ := parseRepr_ok_inv d buf d' rest em hp
    have := coreInv_of_shape m en al d a h
    rw [ha] at this
    exact this

theorem writeLoop_inv (m : Nat) (en : Bool) (al : Nat) (par : Bool) (f : Nat) (d : DecCore) (buf : Bytes)
    (em : List Field) (h : CoreInv m en al d) : CoreInv m en al (writeLoop par f d buf em).1 :=
  writeLoop_preserves (CoreInv m en al) (fun _ h => h) (fun d buf h => parseRepr_inv m en al d buf h) par f d buf em h

/-- **C02 (table limit).** After `Write` on any input the dynamic table still satisfies
`size = Σ entry sizes ≤ maxSize`, and the configuration is untouched. -/
theorem write_table_inv (d : Decoder) (p : Bytes) (h : TableInv d.dyn) :
    TableInv (d.write p).1.dyn ∧ (d.write p).1.maxStrLen = d.maxStrLen ∧
      (d.write p).1.dyn.allowedMaxSize = d.dyn.allowedMaxSize := by
  have hc : CoreInv d.maxStrLen d.emitEnabled d.dyn.allowedMaxSize d.toDecCore := ⟨h, rfl, rfl, rfl⟩
  by_cases hp : p = []
  · subst hp; exact ⟨h, rfl, rfl⟩
  · have := writeLoop_inv _ _ _ true ((d.saveBuf ++ p).length + 1) d.toDecCore (d.saveBuf ++ p) [] hc
    unfold Decoder.write
    rw [writeG_eq true d p hp]
    show TableInv (finishWrite _).1.toDecCore.dyn ∧ (finishWrite _).1.toDecCore.maxStrLen = _ ∧
      (finishWrite _).1.toDecCore.dyn.allowedMaxSize = _
    rw [finishWrite_core]
    exact ⟨this.1, this.2.1, this.2.2.2⟩

theorem close_table_inv (d : Decoder) (h : TableInv d.dyn) : TableInv d.close.1.dyn := by
  unfold Decoder.close
  split <;> exact h

theorem new_table_inv (n : Nat) : TableInv (Decoder.new n).dyn := by
  simp [Decoder.new, TableInv, sizeSum]

theorem setters_table_inv (d : Decoder) (v : Nat) (b : Bool) (h : TableInv d.dyn) :
    TableInv (d.setMaxDynamicTableSize v).dyn ∧ TableInv (d.setAllowedMaxDynamicTableSize v).dyn ∧
    TableInv (d.setMaxStringLength v).dyn ∧ TableInv (d.setEmitEnabled b).dyn :=
  ⟨setMaxSize_inv _ _ h, h, h, h⟩

/-- `maxSize ≤ allowedMaxSize` is preserved by one representation … -/
theorem parseRepr_maxSize (d : DecCore) (buf : Bytes) (h : d.dyn.maxSize ≤ d.dyn.allowedMaxSize) :
    match parseRepr d buf with
    | .needMore => True
    | .err _ d' => d'.dyn.maxSize ≤ d'.dyn.allowedMaxSize
    | .ok d' _ _ => d'.dyn.maxSize ≤ d'.dyn.allowedMaxSize := by
  have key : ∀ a rest, parseAction d buf = .ok (a, rest) →
      (resCore (applyAction d a)).dyn.maxSize ≤ (resCore (applyAction d a)).dyn.allowedMaxSize := by
    intro a rest hpa
    obtain ⟨dyn', hc, hd⟩ := applyAction_shape d a
    rw [hc]
    rcases hd with rfl | ⟨s, rfl, rfl⟩ | ⟨e, rfl⟩
    · exact h
    · exact parseAction_sizeUpdate d buf s rest hpa
    · exact h
  cases hp : parseRepr d buf with
  | needMore => trivial
  | err e d' =>
    rcases parseRepr_err_inv d buf d' e hp with rfl | ⟨a, rest, hpa, ha⟩
    · exact h
    · have := key a rest hpa
      rw [ha] at this
      exact this
  | ok d' rest em =>
    obtain ⟨a, hpa, ha⟩ := parseRepr_ok_inv d buf d' rest em hp
    have := key a rest hpa
    rw [ha] at this
    exact this

/-- … hence by `Write`: **the peer can never raise the table limit above `allowedMaxSize`.** -/
theorem write_maxSize_le_allowed (d : Decoder) (p : Bytes) (h : d.dyn.maxSize ≤ d.dyn.allowedMaxSize) :
    (d.write p).1.dyn.maxSize ≤ (d.write p).1.dyn.allowedMaxSize := by
  by_cases hp : p = []
  · subst hp; exact h
  · have := writeLoop_preserves (fun d => d.dyn.maxSize ≤ d.dyn.allowedMaxSize) (fun _ h => h)
      (fun d buf h => parseRepr_maxSize d buf h) true ((d.saveBuf ++ p).length + 1) d.toDecCore (d.saveBuf ++ p) [] h
    unfold Decoder.write
    rw [writeG_eq true d p hp]
    show (finishWrite _).1.toDecCore.dyn.maxSize ≤ (finishWrite _).1.toDecCore.dyn.allowedMaxSize
    rw [finishWrite_core]
    exact this

/-- Together: after any `Write`, `size ≤ maxSize ≤ allowedMaxSize`. -/
theorem write_size_le_allowed (d : Decoder) (p : Bytes) (h : TableInv d.dyn)
    (ha : d.dyn.maxSize ≤ d.dyn.allowedMaxSize) :
    (d.write p).1.dyn.size ≤ (d.write p).1.dyn.allowedMaxSize :=
  Nat.le_trans (write_table_inv d p h).1.2 (write_maxSize_le_allowed d p ha)

/-! ### Emitted fields respect maxStrLen -/

def FieldOK (m : Nat) (f : Field) : Prop := m ≠ 0 → f.name.length ≤ m ∧ f.value.length ≤ m

theorem callEmit_ok (d : DecCore) (hf f : Field) (h : callEmit d hf = .ok (some f)) :
    f = hf ∧ FieldOK d.maxStrLen f := by
  unfold callEmit at h
  split at h
  · simp at h
  · rename_i hn
    split at h
    · simp only [Except.ok.injEq, Option.some.injEq] at h
      subst h
      refine ⟨rfl, fun hm => ?_⟩
      simp only [hm, ne_eq, not_false_eq_true, true_and, not_or] at hn
      omega
    · simp at h

theorem finishEmit_ok (d : DecCore) (hf : Field) (d' : DecCore) (f : Field)
    (h : finishEmit d hf = .ok d' (some f)) : f = hf ∧ FieldOK d.maxStrLen f := by
  unfold finishEmit at h
  split at h
  · simp at h
  · rename_i em hce
    simp only [ApplyRes.ok.injEq] at h
    rw [h.2] at hce
    exact callEmit_ok d hf f hce

theorem applyAction_emit_ok (d : DecCore) (a : Action) (d' : DecCore) (f : Field)
    (h : applyAction d a = .ok d' (some f)) : FieldOK d.maxStrLen f := by
  cases a with
  | indexed e => exact (finishEmit_ok _ _ _ _ h).2
  | sizeUpdate s => simp [applyAction] at h
  | literal it tn un uv =>
    simp only [applyAction] at h
    split at h
    · simp at h
    · split at h
      · simp at h
      · have := (finishEmit_ok _ _ _ _ h).2
        split at this <;> exact this

theorem writeLoop_emits_ok (m : Nat) (par : Bool) : ∀ (f : Nat) (d : DecCore) (buf : Bytes) (em : List Field),
    d.maxStrLen = m → (∀ x ∈ em, FieldOK m x) → ∀ x ∈ (writeLoop par f d buf em).2.1, FieldOK m x := by
  intro f
  induction f with
  | zero => intro d buf em _ h; exact h
  | succ f ih =>
    intro d buf em hm h
    simp only [writeLoop]
    split
    · exact h
    · cases hp : parseRepr d buf with
      | needMore => simp only; split <;> exact h
      | err e d' => exact h
      | ok d' rest e =>
        simp only
        split
        · obtain ⟨a, _, ha⟩ := parseRepr_ok_inv d buf d' rest e hp
          apply ih
          · obtain ⟨dyn', hc, _⟩ := applyAction_shape d a
            rw [ha] at hc
            simp only [resCore] at hc
            rw [afterRepr_maxStrLen, hc]
            exact hm
          · intro x hx
            rcases List.mem_append.mp hx with hx | hx
            · exact h x hx
            · cases e with
              | none => simp [optToList] at hx
              | some fe =>
                simp only [optToList, List.mem_singleton] at hx
                subst hx
                rw [← hm]
                exact applyAction_emit_ok d a d' _ ha
        · exact h

/-- **C02 (string limit).** Every field emitted by `Write` has name and value of at most
`maxStrLen` bytes when a limit is configured. -/
theorem write_emits_within_maxStrLen (d : Decoder) (p : Bytes) :
    ∀ f ∈ (d.write p).2.1, FieldOK d.maxStrLen f := by
  by_cases hp : p = []
  · subst hp; intro f hf; simp [Decoder.write, Decoder.writeG] at hf
  · have := writeLoop_emits_ok d.maxStrLen true ((d.saveBuf ++ p).length + 1) d.toDecCore (d.saveBuf ++ p) []
      rfl (by intro x hx; simp at hx)
    unfold Decoder.write
    rw [writeG_eq true d p hp, finishWrite_em]
    exact this

/-! ### No fabrication -/

/-- The parser yields `indexed e` only for the entry at the index read from the input. -/
theorem indexed_action_is_table_entry (d : DecCore) (b : Nat) (p : Bytes) (e : Entry) (rest : Bytes)
    (hb : b ≥ 128) (h : parseAction d (b :: p) = .ok (.indexed e, rest)) :
    ∃ idx, readVarInt 7 (b :: p) = .ok (idx, rest) ∧ d.at idx = some e := by
  simp only [parseAction, hb, ↓reduceIte, Parser.bind] at h
  cases hr : readVarInt 7 (b :: p) with
  | error e' => rw [hr] at h; simp at h
  | ok ar =>
    obtain ⟨idx, r⟩ := ar
    rw [hr] at h
    simp only at h
    cases hat : d.at idx with
    | none => rw [hat] at h; simp [Parser.fail] at h
    | some e' =>
      rw [hat] at h
      simp only [Parser.pure, Except.ok.injEq, Prod.mk.injEq, Action.indexed.injEq] at h
      exact ⟨idx, by rw [h.2], by rw [hat, h.1]⟩

/-- An index outside static ++ dynamic is an error, never a field. -/
theorem bad_index_is_error (d : DecCore) (b : Nat) (p : Bytes) (idx : Nat) (rest : Bytes)
    (hb : b ≥ 128) (hr : readVarInt 7 (b :: p) = .ok (idx, rest)) (hat : d.at idx = none) :
    parseRepr d (b :: p) = .err .invalidIndex d := by
  simp [parseRepr, parseAction, hb, Parser.bind, hr, hat, Parser.fail]

theorem at_in_range (d : DecCore) (i : Nat) (e : Entry) (h : d.at i = some e) :
    1 ≤ i ∧ i ≤ staticTable.length + d.dyn.ents.length ∧ (e ∈ staticTable ∨ e ∈ d.dyn.ents) := by
  unfold DecCore.at at h
  split at h
  · simp at h
  · split at h
    · exact ⟨by omega, by omega, .inl (List.mem_of_getElem? h)⟩
    · split at h
      · simp at h
      · exact ⟨by omega, by omega, .inr (List.mem_of_getElem? h)⟩

/-- An indexed representation emits exactly the referenced entry and leaves the state alone. -/
theorem indexed_emit_is_entry (d : DecCore) (e : Entry) (d' : DecCore) (f : Field)
    (h : applyAction d (.indexed e) = .ok d' (some f)) :
    f = { name := e.1, value := e.2, sensitive := false } ∧ d' = d := by
  have h1 := finishEmit_ok _ _ _ _ h
  have h2 := finishEmit_core d { name := e.1, value := e.2 }
  simp only [applyAction] at h
  rw [h] at h2
  exact ⟨h1.1, h2⟩

/-- A decoded string is the raw bytes or their canonical Huffman decoding. -/
theorem decodeString_sound (m : Nat) (u : UString) (s : Bytes) (h : decodeString m u = .ok s) :
    (u.isHuff = false ∧ s = u.b) ∨ (u.isHuff = true ∧ Huffman.decode u.b = .ok s) := by
  unfold decodeString at h
  split at h
  · rename_i hh
    simp only [Except.ok.injEq] at h
    exact .inl ⟨by simpa using hh, h.symm⟩
  · rename_i hh
    split at h
    · rename_i s' hd
      simp only [Except.ok.injEq] at h
      subst h
      exact .inr ⟨by simpa using hh, (C04.decodeMax_ok m u.b s' hd).1⟩
    · simp at h
    · simp at h

/-- Invalid Huffman data in a string that is decoded is an error (`ErrInvalidHuffman`). -/
theorem bad_huffman_is_error (m : Nat) (u : UString) (hh : u.isHuff = true)
    (hd : Huffman.decodeMax m u.b = .error .invalid) : decodeString m u = .error .huffman := by
  simp [decodeString, hh, hd]

theorem finishEmit_some_enabled (d : DecCore) (hf : Field) (d' : DecCore) (f : Field)
    (h : finishEmit d hf = .ok d' (some f)) : d.emitEnabled = true := by
  unfold finishEmit at h
  cases hc : callEmit d hf with
  | error e => rw [hc] at h; simp at h
  | ok em =>
    rw [hc] at h
    simp only [ApplyRes.ok.injEq] at h
    rw [h.2] at hc
    unfold callEmit at hc
    split at hc
    · simp at hc
    · by_cases he : d.emitEnabled = true
      · exact he
      · simp [he] at hc

/-- **A literal representation emits only what the input says**: the value is the value string of
the representation (raw or Huffman-decoded), the name is the table name or the name string. -/
theorem literal_emit_is_input (d : DecCore) (it : IndexType) (tn : Option Bytes) (un uv : UString)
    (d' : DecCore) (f : Field) (h : applyAction d (.literal it tn un uv) = .ok d' (some f)) :
    f.sensitive = it.sensitive ∧
    ((uv.isHuff = false ∧ f.value = uv.b) ∨ (uv.isHuff = true ∧ Huffman.decode uv.b = .ok f.value)) ∧
    (match tn with
     | some n => f.name = n
     | none => (un.isHuff = false ∧ f.name = un.b) ∨ (un.isHuff = true ∧ Huffman.decode un.b = .ok f.name)) := by
  simp only [applyAction] at h
  split at h
  · simp at h
  · rename_i name hname
    split at h
    · simp at h
    · rename_i value hvalue
      have hf := (finishEmit_ok _ _ _ _ h).1
      -- something was emitted, so emit is enabled, so strings were wanted and decoded
      have hen : d.emitEnabled = true := by
        have := finishEmit_some_enabled _ _ _ _ h
        split at this <;> exact this
      simp only [hen, Bool.true_or, ↓reduceIte] at hname hvalue
      subst hf
      refine ⟨rfl, decodeString_sound _ _ _ hvalue, ?_⟩
      cases tn with
      | some n => simp only [Except.ok.injEq] at hname; exact hname.symm
      | none => exact decodeString_sound _ _ _ hname

/-- A string literal read from the buffer is a contiguous piece of the buffer. -/
theorem readString_is_infix (m : Nat) (buf : Bytes) (u : UString) (rest : Bytes)
    (h : readString m buf = .ok (u, rest)) : ∃ pre, buf = pre ++ u.b ++ rest ∧ (m ≠ 0 → u.b.length ≤ m) := by
  cases buf with
  | nil => simp [readString] at h
  | cons b0 p =>
    simp only [readString] at h
    cases hr : readVarInt 7 (b0 :: p) with
    | error e => rw [hr] at h; simp at h
    | ok ar =>
      obtain ⟨strLen, p'⟩ := ar
      rw [hr] at h
      simp only at h
      split at h
      · simp at h
      · rename_i hmax
        split at h
        · simp at h
        · simp only [Except.ok.injEq, Prod.mk.injEq] at h
          -- the varint parser returns a suffix
          have hsuf : ∃ pre, b0 :: p = pre ++ p' := by
            have hst := (stable_readVarInt 7 (b0 :: p) []).1 strLen p' hr
            -- suffix property via consumed length: use take/drop
            refine ⟨(b0 :: p).take ((b0 :: p).length - p'.length), ?_⟩
            have hsuffix : ∀ (n : Nat) (q : Bytes) (v : Nat) (r : Bytes), readVarInt n q = .ok (v, r) → ∃ c, q = c ++ r := by
              intro n q v r hq
              cases q with
              | nil => simp [readVarInt] at hq
              | cons x q =>
                simp only [readVarInt] at hq
                generalize (if n < 8 then x % 2 ^ n else x) = i at hq
                split at hq
                · simp only [Except.ok.injEq, Prod.mk.injEq] at hq
                  exact ⟨[x], by rw [← hq.2]; rfl⟩
                · have hloop : ∀ (q : Bytes) (i m v : Nat) (r : Bytes), readVarIntLoop q i m = .ok (v, r) → ∃ c, q = c ++ r := by
                    intro q
                    induction q with
                    | nil => intro i m v r hq; simp [readVarIntLoop] at hq
                    | cons y q ih =>
                      intro i m v r hq
                      simp only [readVarIntLoop] at hq
                      split at hq
                      · simp only [Except.ok.injEq, Prod.mk.injEq] at hq
                        exact ⟨[y], by rw [← hq.2]; rfl⟩
                      · split at hq
                        · simp at hq
                        · obtain ⟨c, hc⟩ := ih _ _ _ _ hq
                          exact ⟨y :: c, by rw [hc]; rfl⟩
                  obtain ⟨c, hc⟩ := hloop q i 0 v r hq
                  exact ⟨x :: c, by rw [hc]; rfl⟩
            obtain ⟨c, hc⟩ := hsuffix 7 _ _ _ hr
            rw [hc]
            simp
          obtain ⟨pre, hpre⟩ := hsuf
          refine ⟨pre, ?_, ?_⟩
          · rw [hpre, ← h.1, ← h.2]
            simp [List.take_append_drop]
          · intro hm
            rw [← h.1]
            simp only [List.length_take]
            simp only [hm, ne_eq, not_false_eq_true, true_and, Nat.not_lt] at hmax
            omega

/-- A size update above `allowedMaxSize` is an error and changes nothing. -/
theorem oversized_update_is_error (d : DecCore) (b : Nat) (p : Bytes) (size : Nat) (rest : Bytes)
    (hb : b / 32 = 1) (hfirst : ¬ (!d.firstField ∧ d.dyn.size > 0))
    (hr : readVarInt 5 (b :: p) = .ok (size, rest)) (hs : size > d.dyn.allowedMaxSize) :
    parseRepr d (b :: p) = .err .tableUpdateTooLarge d := by
  have h1 : ¬ b ≥ 128 := by omega
  have h2 : ¬ b / 64 = 1 := by omega
  have h3 : ¬ b / 16 = 0 := by omega
  have h4 : ¬ b / 16 = 1 := by omega
  simp only [parseRepr, parseAction, h1, h2, h3, h4, hb, ↓reduceIte, hfirst, Parser.bind, hr, hs, Parser.fail]

/-- **C02 (truncation).** `Close` while an incomplete representation is pending is an error,
and the pending bytes are dropped. -/
theorem close_truncated (d : Decoder) (h : d.saveBuf ≠ []) :
    d.close.2 = some .truncated ∧ d.close.1.saveBuf = [] ∧ d.close.1.dyn = d.dyn := by
  simp [Decoder.close, h]

theorem close_clean (d : Decoder) (h : d.saveBuf = []) :
    d.close.2 = none ∧ d.close.1.firstField = true := by
  simp [Decoder.close, h]

/-! ### Go's `uint32` size arithmetic

`dynamicTable.size`, `maxSize` and `HeaderField.Size()` are `uint32` in Go; the model uses `Nat`.
The two agree exactly as long as `size + Size(entry)` stays below 2^32 when an entry is added
(guaranteed by `maxSize + Size(entry) < 2^32`, since `size ≤ maxSize`); eviction never underflows
because `size` is the sum of the entry sizes. -/

theorem entrySize32_eq (e : Entry) (h : entrySize e < 2 ^ 32) : entrySize32 e = entrySize e := by
  unfold entrySize32 u32 entrySize at *
  exact Nat.mod_eq_of_lt h

theorem evictLoop32_eq (maxSize : Nat) : ∀ (l : List Entry) (size : Nat), size = sizeSum l → size < 2 ^ 32 →
    evictLoop32 maxSize l size = evictLoop maxSize l size := by
  intro l
  induction l with
  | nil => intro size _ _; rfl
  | cons e rest ih =>
    intro size hs hlt
    simp only [sizeSum, List.map_cons, List.sum_cons] at hs
    have he : entrySize e ≤ size := by omega
    have he32 : entrySize32 e = entrySize e := entrySize32_eq e (by omega)
    simp only [evictLoop32, evictLoop, he32]
    have hsub : u32 (size + 2 ^ 32 - entrySize e) = size - entrySize e := by
      unfold u32
      rw [show size + 2 ^ 32 - entrySize e = (size - entrySize e) + 1 * 2 ^ 32 by omega,
        Nat.add_mul_mod_self_right, Nat.mod_eq_of_lt (by omega)]
    rw [hsub]
    split
    · exact ih _ (by simp only [sizeSum]; omega) (by omega)
    · rfl

/-- `evict` in `uint32` = `evict` in `Nat` (no underflow) when `size` is the sum of the entry sizes. -/
theorem evict32_eq (dt : DynTable) (h : dt.size = sizeSum dt.ents) (hlt : dt.size < 2 ^ 32) :
    dt.evict32 = dt.evict := by
  unfold DynTable.evict32 DynTable.evict
  rw [evictLoop32_eq dt.maxSize dt.ents.reverse dt.size (by rw [sizeSum_reverse]; exact h) hlt]

theorem setMaxSize32_eq (dt : DynTable) (v : Nat) (h : TableInv dt) (hlt : dt.size < 2 ^ 32) :
    dt.setMaxSize32 v = dt.setMaxSize v :=
  evict32_eq _ h.1 hlt

/-- **`add` in `uint32` = `add` in `Nat`** (no wrap of `size += Size()`, no underflow in `evict`)
whenever the new total stays below 2^32. -/
theorem add32_eq (dt : DynTable) (e : Entry) (h : TableInv dt) (hlt : dt.size + entrySize e < 2 ^ 32) :
    dt.add32 e = dt.add e := by
  unfold DynTable.add32 DynTable.add
  have he32 : entrySize32 e = entrySize e := entrySize32_eq e (by omega)
  have hadd : u32 (dt.size + entrySize32 e) = dt.size + entrySize e := by
    rw [he32]; exact Nat.mod_eq_of_lt hlt
  rw [hadd]
  apply evict32_eq
  · simp only [sizeSum, List.map_cons, List.sum_cons]
    have := h.1
    simp only [sizeSum] at this
    omega
  · exact hlt

/-- In particular: with `maxSize + Size(entry) < 2^32` (e.g. `maxSize ≤ 2^31` and entries below 2 GiB)
no `uint32` operation of the dynamic table wraps. -/
theorem add32_eq_of_maxSize (dt : DynTable) (e : Entry) (h : TableInv dt)
    (hlt : dt.maxSize + entrySize e < 2 ^ 32) : dt.add32 e = dt.add e :=
  add32_eq dt e h (by have := h.2; omega)

/-- The bound is sharp in the sense that without it `size += Size()` does wrap: a table at
`size = maxSize = 2^32 - 1` … adding any entry overflows the `uint32` counter. -/
example : u32 ((2 ^ 32 - 1) + entrySize32 ([], [])) = 31 := by decide

/-! ### `PErr.internal` is never produced

`internal` is returned by the model only at its two guards (fuel exhausted, a representation that
consumed nothing). No parser and no state step produces it, every parsed representation consumes
input, and `Write` starts the loop with `len(buf)+1` fuel, so neither guard is ever reached. -/

/-- Every error a parser can return satisfies `S`. -/
def ErrIn {α : Type} (S : PErr → Prop) (p : Parser α) : Prop := ∀ buf e, p buf = .error e → S e

theorem errIn_pure {α : Type} (S : PErr → Prop) (a : α) : ErrIn S (Parser.pure a) := by
  intro buf e h; simp [Parser.pure] at h

theorem errIn_fail {α : Type} (S : PErr → Prop) (e : PErr) (he : S e) : ErrIn S (Parser.fail e : Parser α) := by
  intro buf e' h
  simp only [Parser.fail, Except.error.injEq] at h
  rw [← h]; exact he

theorem errIn_bind {α β : Type} (S : PErr → Prop) (p : Parser α) (f : α → Parser β)
    (hp : ErrIn S p) (hf : ∀ a, ErrIn S (f a)) : ErrIn S (p.bind f) := by
  intro buf e h
  simp only [Parser.bind] at h
  cases hpb : p buf with
  | error e' => rw [hpb] at h; simp only [Except.error.injEq] at h; rw [← h]; exact hp buf e' hpb
  | ok ar =>
    obtain ⟨a, r⟩ := ar
    rw [hpb] at h
    exact hf a r e h

def NotInternal (e : PErr) : Prop := e ≠ .internal

theorem errIn_readVarIntLoop : ∀ (p : Bytes) (i m : Nat) (e : PErr),
    readVarIntLoop p i m = .error e → NotInternal e := by
  intro p
  induction p with
  | nil => intro i m e h; simp only [readVarIntLoop, Except.error.injEq] at h; rw [← h]; simp [NotInternal]
  | cons b p ih =>
    intro i m e h
    simp only [readVarIntLoop] at h
    split at h
    · simp at h
    · split at h
      · simp only [Except.error.injEq] at h; rw [← h]; simp [NotInternal]
      · exact ih _ _ _ h

theorem errIn_readVarInt (n : Nat) : ErrIn NotInternal (readVarInt n) := by
  intro buf e h
  cases buf with
  | nil => simp only [readVarInt, Except.error.injEq] at h; rw [← h]; simp [NotInternal]
  | cons b p =>
    simp only [readVarInt] at h
    generalize (if n < 8 then b % 2 ^ n else b) = i at h
    split at h
    · simp at h
    · exact errIn_readVarIntLoop _ _ _ _ h

theorem errIn_readString (m : Nat) : ErrIn NotInternal (readString m) := by
  intro buf e h
  cases buf with
  | nil => simp only [readString, Except.error.injEq] at h; rw [← h]; simp [NotInternal]
  | cons b0 p =>
    simp only [readString] at h
    cases hr : readVarInt 7 (b0 :: p) with
    | error e' =>
      rw [hr] at h
      simp only [Except.error.injEq] at h
      rw [← h]; exact errIn_readVarInt 7 _ _ hr
    | ok ar =>
      obtain ⟨strLen, p'⟩ := ar
      rw [hr] at h
      simp only at h
      split at h
      · simp only [Except.error.injEq] at h; rw [← h]; simp [NotInternal]
      · split at h
        · simp only [Except.error.injEq] at h; rw [← h]; simp [NotInternal]
        · simp at h

theorem errIn_parseLiteral (d : DecCore) (n : Nat) (it : IndexType) : ErrIn NotInternal (parseLiteral d n it) := by
  unfold parseLiteral
  apply errIn_bind _ _ _ (errIn_readVarInt n)
  intro nameIdx
  split
  · split
    · exact errIn_fail _ _ (by simp [NotInternal])
    · apply errIn_bind _ _ _ (errIn_readString _)
      intro uv; exact errIn_pure _ _
  · apply errIn_bind _ _ _ (errIn_readString _)
    intro un
    apply errIn_bind _ _ _ (errIn_readString _)
    intro uv; exact errIn_pure _ _

theorem errIn_parseAction (d : DecCore) : ErrIn NotInternal (parseAction d) := by
  intro buf e h
  cases buf with
  | nil => simp only [parseAction, Except.error.injEq] at h; rw [← h]; simp [NotInternal]
  | cons b p =>
    simp only [parseAction] at h
    have hidx : ErrIn NotInternal ((readVarInt 7).bind fun idx =>
        match d.at idx with
        | none => (Parser.fail .invalidIndex : Parser Action)
        | some e => Parser.pure (.indexed e)) := by
      apply errIn_bind _ _ _ (errIn_readVarInt 7)
      intro idx
      split
      · exact errIn_fail _ _ (by simp [NotInternal])
      · exact errIn_pure _ _
    have hupd : ErrIn NotInternal ((readVarInt 5).bind fun size =>
        if size > d.dyn.allowedMaxSize then (Parser.fail .tableUpdateTooLarge : Parser Action)
        else Parser.pure (.sizeUpdate size)) := by
      apply errIn_bind _ _ _ (errIn_readVarInt 5)
      intro size
      split
      · exact errIn_fail _ _ (by simp [NotInternal])
      · exact errIn_pure _ _
    split at h
    · exact hidx _ _ h
    · split at h
      · exact errIn_parseLiteral d 6 .indexedTrue _ _ h
      · split at h
        · exact errIn_parseLiteral d 4 .indexedFalse _ _ h
        · split at h
          · exact errIn_parseLiteral d 4 .indexedNever _ _ h
          · split at h
            · split at h
              · simp only [Except.error.injEq] at h; rw [← h]; simp [NotInternal]
              · exact hupd _ _ h
            · simp only [Except.error.injEq] at h; rw [← h]; simp [NotInternal]

theorem decodeString_err (m : Nat) (u : UString) (e : PErr) (h : decodeString m u = .error e) :
    NotInternal e := by
  unfold decodeString at h
  split at h
  · simp at h
  · split at h
    · simp at h
    · simp only [Except.error.injEq] at h; rw [← h]; simp [NotInternal]
    · simp only [Except.error.injEq] at h; rw [← h]; simp [NotInternal]

theorem finishEmit_err (d : DecCore) (hf : Field) (e : PErr) (d' : DecCore)
    (h : finishEmit d hf = .err e d') : NotInternal e := by
  unfold finishEmit at h
  cases hc : callEmit d hf with
  | ok em => rw [hc] at h; simp at h
  | error e' =>
    rw [hc] at h
    simp only [ApplyRes.err.injEq] at h
    unfold callEmit at hc
    split at hc
    · simp only [Except.error.injEq] at hc; rw [← h.1, ← hc]; simp [NotInternal]
    · simp at hc

theorem applyAction_err (d : DecCore) (a : Action) (e : PErr) (d' : DecCore)
    (h : applyAction d a = .err e d') : NotInternal e := by
  cases a with
  | indexed en => exact finishEmit_err _ _ _ _ h
  | sizeUpdate s => simp [applyAction] at h
  | literal it tn un uv =>
    simp only [applyAction] at h
    split at h
    · rename_i e' hname
      simp only [ApplyRes.err.injEq] at h
      rw [← h.1]
      split at hname
      · simp at hname
      · split at hname
        · exact decodeString_err _ _ _ hname
        · simp at hname
    · split at h
      · rename_i e' hval
        simp only [ApplyRes.err.injEq] at h
        rw [← h.1]
        split at hval
        · exact decodeString_err _ _ _ hval
        · simp at hval
      · exact finishEmit_err _ _ _ _ h

theorem parseRepr_err_notInternal (d : DecCore) (buf : Bytes) (e : PErr) (d' : DecCore)
    (h : parseRepr d buf = .err e d') : NotInternal e := by
  unfold parseRepr at h
  cases hp : parseAction d buf with
  | error e' =>
    rw [hp] at h
    have := errIn_parseAction d buf e' hp
    cases e' <;> simp at h <;> (rw [← h.1]; exact this)
  | ok ar =>
    obtain ⟨a, r⟩ := ar
    rw [hp] at h
    simp only at h
    cases ha : applyAction d a with
    | ok d1 em1 => rw [ha] at h; simp at h
    | err e1 d1 =>
      rw [ha] at h
      simp only [PRes.err.injEq] at h
      rw [← h.1]
      exact applyAction_err d a e1 d1 ha

theorem writeLoop_no_internal (par : Bool) : ∀ (f : Nat) (d : DecCore) (buf : Bytes) (em : List Field),
    buf.length < f → (writeLoop par f d buf em).2.2 ≠ .err .internal := by
  intro f
  induction f with
  | zero => intro d buf em h; omega
  | succ f ih =>
    intro d buf em h
    simp only [writeLoop]
    split
    · simp
    · cases hp : parseRepr d buf with
      | needMore => simp only; split <;> simp
      | err e d' =>
        simp only [ne_eq, LoopEnd.err.injEq]
        exact parseRepr_err_notInternal d buf e d' hp
      | ok d' rest e =>
        have := parseRepr_consumes d buf d' rest e hp
        simp only [this, ↓reduceIte]
        exact ih _ _ _ (by omega)

/-- **C02.** `Decoder.Write` never returns the model's artificial `internal` error: the fuel and
progress guards of the loop are dead code, i.e. the total model has no hidden failure mode. -/
theorem write_no_internal (d : Decoder) (p : Bytes) : (d.write p).2.2 ≠ some .internal := by
  by_cases hp : p = []
  · subst hp; simp [Decoder.write, Decoder.writeG]
  · unfold Decoder.write
    rw [writeG_eq true d p hp]
    have := writeLoop_no_internal true ((d.saveBuf ++ p).length + 1) d.toDecCore (d.saveBuf ++ p) [] (by omega)
    unfold finishWrite
    cases hr : (writeLoop true ((d.saveBuf ++ p).length + 1) d.toDecCore (d.saveBuf ++ p) []).2.2 with
    | saved l => simp
    | err e =>
      rw [hr] at this
      simpa using this

theorem close_no_internal (d : Decoder) : d.close.2 ≠ some .internal := by
  unfold Decoder.close; split <;> simp

/-! ### The allowed maximum over whole histories (literal reading of C02; known finding)

"never lets its dynamic table exceed the allowed maximum size … with any SetAllowedMaxDynamicTableSize
configuration", read over arbitrary histories of public calls, is FALSE for the code as it is:
`SetAllowedMaxDynamicTableSize(v)` with `v` below the current `maxSize` only limits later size
updates. It holds for every history in which that call never lowers the bound below the current
`maxSize` (decidable region `lowersBelowMax`; oracle signature `c02-allowed-lowered-not-enforced`). -/

/-- Public calls of a decoder whose table limits only the peer (`Write`) and
`SetAllowedMaxDynamicTableSize` touch. -/
inductive Call where
  | write (p : Bytes)
  | close
  | setAllowed (v : Nat)
  | setMaxStr (v : Nat)
  | setEmit (b : Bool)

def stepCall (d : Decoder) : Call → Decoder
  | .write p => (d.write p).1
  | .close => d.close.1
  | .setAllowed v => d.setAllowedMaxDynamicTableSize v
  | .setMaxStr v => d.setMaxStringLength v
  | .setEmit b => d.setEmitEnabled b

def runCalls (d : Decoder) (cs : List Call) : Decoder := cs.foldl stepCall d

/-- Some `SetAllowedMaxDynamicTableSize(v)` in the history has `v` below the then-current `maxSize`. -/
def lowersBelowMax : Decoder → List Call → Bool
  | _, [] => false
  | d, c :: cs =>
    (match c with
     | .setAllowed v => decide (v < d.dyn.maxSize)
     | _ => false) || lowersBelowMax (stepCall d c) cs

/-- The clause at full strength: after any history on a fresh decoder the table is within the
allowed maximum. -/
def TableWithinAllowedStatement : Prop :=
  ∀ (n : Nat) (cs : List Call), (runCalls (Decoder.new n) cs).dyn.size ≤ (runCalls (Decoder.new n) cs).dyn.allowedMaxSize

/-- **False for the code as it is**: one indexed literal, then the allowed maximum lowered to 0. -/
theorem table_within_allowed_full_false : ¬ TableWithinAllowedStatement := by
  intro h
  have := h 4096 [.write [0x40, 0x01, 0x61, 0x01, 0x62], .close, .setAllowed 0]
  revert this
  decide +kernel

theorem stepCall_inv (d : Decoder) (c : Call) (h : TableInv d.dyn ∧ d.dyn.maxSize ≤ d.dyn.allowedMaxSize)
    (hc : lowersBelowMax d [c] = false) :
    TableInv (stepCall d c).dyn ∧ (stepCall d c).dyn.maxSize ≤ (stepCall d c).dyn.allowedMaxSize := by
  cases c with
  | write p => exact ⟨(write_table_inv d p h.1).1, write_maxSize_le_allowed d p h.2⟩
  | close =>
    refine ⟨close_table_inv d h.1, ?_⟩
    show d.close.1.dyn.maxSize ≤ d.close.1.dyn.allowedMaxSize
    unfold Decoder.close
    split <;> exact h.2
  | setAllowed v =>
    simp only [lowersBelowMax, Bool.or_false, decide_eq_false_iff_not, Nat.not_lt] at hc
    exact ⟨h.1, hc⟩
  | setMaxStr v => exact h
  | setEmit b => exact h

/-- **C02 (allowed maximum), outside the excluded region**: if no `SetAllowedMaxDynamicTableSize`
call lowers the bound below the current `maxSize`, then after any history of `Write`s (any bytes, any
split), `Close`s and configuration calls `size ≤ maxSize ≤ allowedMaxSize`. -/
theorem table_within_allowed_partial : ∀ (cs : List Call) (d : Decoder),
    TableInv d.dyn → d.dyn.maxSize ≤ d.dyn.allowedMaxSize → lowersBelowMax d cs = false →
    (runCalls d cs).dyn.size ≤ (runCalls d cs).dyn.maxSize ∧
      (runCalls d cs).dyn.maxSize ≤ (runCalls d cs).dyn.allowedMaxSize := by
  intro cs
  induction cs with
  | nil => intro d h1 h2 _; exact ⟨h1.2, h2⟩
  | cons c cs ih =>
    intro d h1 h2 hl
    simp only [lowersBelowMax, Bool.or_eq_false_iff] at hl
    have hstep := stepCall_inv d c ⟨h1, h2⟩ (by simp only [lowersBelowMax, Bool.or_false]; exact hl.1)
    exact ih (stepCall d c) hstep.1 hstep.2 hl.2

theorem table_within_allowed_fresh (n : Nat) (cs : List Call) (h : lowersBelowMax (Decoder.new n) cs = false) :
    (runCalls (Decoder.new n) cs).dyn.size ≤ (runCalls (Decoder.new n) cs).dyn.allowedMaxSize := by
  have := table_within_allowed_partial cs (Decoder.new n) (new_table_inv n) (Nat.le_refl _) h
  exact Nat.le_trans this.1 this.2

/-- Non-vacuity: a history with a size update by the peer, raising of the bound and a harmless
lowering (down to the current `maxSize`) is outside the excluded region. -/
example : lowersBelowMax (Decoder.new 4096)
    [.write [0x3f, 0x45, 0x40, 0x01, 0x61, 0x01, 0x62], .close, .setAllowed 100, .setAllowed 8192, .write [0x3f, 0xe1, 0x1f]] = false := by
  decide +kernel

/-! ### Non-vacuity -/

example : TableInv (Decoder.new 4096).dyn := new_table_inv 4096
example : ((Decoder.new 100).write [0x40, 0x01, 0x61, 0x01, 0x62, 0x40, 0x01, 0x63, 0x01, 0x64, 0x40, 0x01, 0x65, 0x01, 0x66]).1.dyn.ents.length = 2 := by
  decide +kernel
example : readVarInt 5 [31, 154, 10] = .ok (1337, []) := by rfl
example : readVarInt 7 [255, 128, 128, 128, 128, 128, 128, 128, 128, 128, 1] = .error .varintOverflow := by rfl

end NetVerif.Proofs.C02
