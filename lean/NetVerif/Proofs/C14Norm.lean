import NetVerif.Model.H2Norm
/-!
C14 — part 3: the documented normalisations of `Model/H2Norm.lean` (request direction).

* N1 case mapping: `lower_idem`, `canonKey_idem`, `lower_canonKey` (all for every byte string),
  `canonKey_lower` (needs token bytes: `canonKey_lower_needs_valid` is the counterexample "A B");
* N2 `clientNorm_keeps_field`: the Transport puts every value of every non-special key on the wire;
* N3 `clientNorm_no_connection_specific`: no connection-specific name is ever on the wire;
* N4 `serverView_header_get` / `serverView_keeps_field`: the handler's header map under a key other
  than `Cookie`/`Trailer` is exactly the values of the regular wire fields with that canonical
  name, in wire order (via the header-map algebra `get_add_same`, `get_add_ne`, `get_set_ne`,
  `get_del_ne`, `fieldsToMap_get`);
* N5 `normalize_keeps_field`: end to end, no value of a valid, non-special key is dropped
  (`normalize_keeps_field_needs_valid`: in the model, validity of the name cannot be dropped);
* N6 `normalize_method`, `normalize_uri`, `normalize_host`, `normalize_body`.

String literals (`str "…"`) are evaluated by the kernel (`decide +kernel`), no native code.
-/
namespace NetVerif.Proofs.C14Norm
open NetVerif NetVerif.Model.H2Frame NetVerif.Model.H2Msg NetVerif.Model.H2Norm

/-- a valid header field NAME: non-empty, every byte an ASCII token byte. -/
def ValidName (k : Str) : Prop := k ≠ [] ∧ ∀ b ∈ k, b < 128 ∧ isTokenByte b = true

/-- names with special treatment on the request path. -/
def specialReqNames : List Str :=
  connSpecific ++ replacedNames ++ [str "user-agent", str "cookie", str "trailer", str "expect"]

/-! ## N1 — case mapping -/

theorem lowerByte_idem (b : Nat) : lowerByte (lowerByte b) = lowerByte b := by
  unfold lowerByte; grind

theorem upperByte_idem (b : Nat) : upperByte (upperByte b) = upperByte b := by
  unfold upperByte; grind

theorem upperByte_lowerByte (b : Nat) : upperByte (lowerByte b) = upperByte b := by
  unfold upperByte lowerByte; grind

theorem lowerByte_upperByte (b : Nat) : lowerByte (upperByte b) = lowerByte b := by
  unfold upperByte lowerByte; grind

/-- '-' (45) is not a letter, so case mapping does not disturb the "after a hyphen" flag. -/
theorem lowerByte_eq_45 (b : Nat) : (lowerByte b == 45) = (b == 45) := by
  unfold lowerByte; grind

theorem upperByte_eq_45 (b : Nat) : (upperByte b == 45) = (b == 45) := by
  unfold upperByte; grind

/-- case mapping preserves "is an ASCII token byte" (for every natural number, not only b < 128). -/
theorem tok_lowerByte (b : Nat) :
    (decide (lowerByte b < 128) && isTokenByte (lowerByte b)) = (decide (b < 128) && isTokenByte b) := by
  unfold lowerByte isTokenByte; grind

theorem tok_upperByte (b : Nat) :
    (decide (upperByte b < 128) && isTokenByte (upperByte b)) = (decide (b < 128) && isTokenByte b) := by
  unfold upperByte isTokenByte; grind

theorem lower_idem (s : Str) : lower (lower s) = lower s := by
  unfold lower; simp [List.map_map, Function.comp_def, lowerByte_idem]

theorem canonLoop_idem (up : Bool) (s : Str) : canonLoop up (canonLoop up s) = canonLoop up s := by
  induction s generalizing up with
  | nil => simp [canonLoop]
  | cons c cs ih =>
    cases up <;> simp [canonLoop, lowerByte_idem, upperByte_idem, ih]

theorem canonLoop_lower (up : Bool) (s : Str) : canonLoop up (lower s) = canonLoop up s := by
  induction s generalizing up with
  | nil => simp [lower, canonLoop]
  | cons c cs ih =>
    have ih' := fun u => ih u
    unfold lower at ih' ⊢
    cases up <;> simp [canonLoop, lowerByte_idem, upperByte_lowerByte, ih']

theorem lower_canonLoop (up : Bool) (s : Str) : lower (canonLoop up s) = lower s := by
  induction s generalizing up with
  | nil => simp [lower, canonLoop]
  | cons c cs ih =>
    have ih' := fun u => ih u
    unfold lower at ih' ⊢
    cases up <;> simp [canonLoop, lowerByte_idem, lowerByte_upperByte, ih']

theorem all_tok_canonLoop (up : Bool) (s : Str) :
    (canonLoop up s).all (fun b => decide (b < 128) && isTokenByte b)
      = s.all (fun b => decide (b < 128) && isTokenByte b) := by
  induction s generalizing up with
  | nil => simp [canonLoop]
  | cons c cs ih =>
    cases up
    · simp only [canonLoop, List.all_cons, ih, Bool.false_eq_true, if_false, tok_lowerByte]
    · simp only [canonLoop, List.all_cons, ih, if_true, tok_upperByte]

theorem all_tok_lower (s : Str) :
    (lower s).all (fun b => decide (b < 128) && isTokenByte b)
      = s.all (fun b => decide (b < 128) && isTokenByte b) := by
  induction s with
  | nil => rfl
  | cons c cs ih =>
    unfold lower at ih ⊢
    simp only [List.map_cons, List.all_cons, ih, tok_lowerByte]

/-- `CanonicalMIMEHeaderKey` is idempotent (for every byte string). -/
theorem canonKey_idem (s : Str) : canonKey (canonKey s) = canonKey s := by
  by_cases h : s.all (fun b => decide (b < 128) && isTokenByte b) = true
  · have h1 : canonKey s = canonLoop true s := by unfold canonKey; rw [if_pos h]
    rw [h1]; unfold canonKey
    rw [all_tok_canonLoop, if_pos h, canonLoop_idem]
  · have h1 : canonKey s = s := by unfold canonKey; rw [if_neg h]
    rw [h1, h1]

theorem allTok_of_valid {k : Str} (h : ValidName k) :
    k.all (fun b => decide (b < 128) && isTokenByte b) = true := by
  rw [List.all_eq_true]
  intro b hb
  have := h.2 b hb
  simp [this.1, this.2]

/-- the server-side canonicalisation undoes the client-side lower-casing, for names made of token
bytes (the empty name included). NOT true for other strings: `canonKey` leaves "A B" alone, so
`canonKey (lower "A B") = "a b" ≠ "A B"`, see `canonKey_lower_needs_valid`. -/
theorem canonKey_lower_of_allTok (k : Str)
    (h : k.all (fun b => decide (b < 128) && isTokenByte b) = true) :
    canonKey (lower k) = canonKey k := by
  unfold canonKey
  rw [all_tok_lower, if_pos h, if_pos h, canonLoop_lower]

theorem canonKey_lower {k : Str} (h : ValidName k) : canonKey (lower k) = canonKey k :=
  canonKey_lower_of_allTok k (allTok_of_valid h)

/-- the validity hypothesis of `canonKey_lower` cannot be dropped ("A B"). -/
theorem canonKey_lower_needs_valid : ∃ k : Str, canonKey (lower k) ≠ canonKey k :=
  ⟨[65, 32, 66], by decide⟩

/-- holds for every byte string (an invalid name is left alone by `canonKey`). -/
theorem lower_canonKey_any (k : Str) : lower (canonKey k) = lower k := by
  unfold canonKey
  split
  · exact lower_canonLoop _ _
  · rfl

theorem lower_canonKey {k : Str} (_h : ValidName k) : lower (canonKey k) = lower k :=
  lower_canonKey_any k

/-! ## N2 — the Transport keeps every field that is not connection-specific -/

theorem not_special {k : Str} (h : lower k ∉ specialReqNames) :
    lower k ∉ connSpecific ∧ lower k ∉ replacedNames ∧ lower k ≠ str "user-agent" ∧
      lower k ≠ str "cookie" ∧ lower k ≠ str "trailer" ∧ lower k ≠ str "expect" := by
  simp only [specialReqNames, List.mem_append, List.mem_cons, List.not_mem_nil, or_false,
    not_or] at h
  exact ⟨h.1.1, h.1.2, h.2.1, h.2.2.1, h.2.2.2.1, h.2.2.2.2⟩

/-- `enumerateHeaders` on an ordinary key: one field per value, lower-cased name. -/
theorem reqHeaderFields_plain (k : Str) (vv : List Str) (h : lower k ∉ specialReqNames)
    (hp : k ≠ str ":protocol") :
    reqHeaderFields k vv = vv.map (fun v => (⟨lower k, v⟩ : Field)) := by
  obtain ⟨h1, h2, h3, h4, _, _⟩ := not_special h
  unfold reqHeaderFields
  simp [h1, h2, h3, h4, hp]

theorem mem_reqFields_of_header (r : Req) (k : Str) (vv : List Str) (hm : (k, vv) ∈ r.header)
    (f : Field) (hf : f ∈ reqHeaderFields k vv) : f ∈ reqFields r := by
  unfold reqFields
  simp only [List.mem_append, List.mem_flatMap]
  exact Or.inl (Or.inl (Or.inl (Or.inr ⟨(k, vv), hm, hf⟩)))

/-- N2: for every request, a submitted header field whose name is not special is on the wire
(lower-cased name, every value). -/
theorem clientNorm_keeps_field (r : Req) (k : Str) (vv : List Str) (hm : (k, vv) ∈ r.header)
    (h : lower k ∉ specialReqNames) (hp : k ≠ str ":protocol") :
    ∀ v ∈ vv, (⟨lower k, v⟩ : Field) ∈ (clientNorm r).headers := by
  intro v hv
  show _ ∈ reqFields r
  apply mem_reqFields_of_header r k vv hm
  rw [reqHeaderFields_plain k vv h hp]
  exact List.mem_map.mpr ⟨v, hv, rfl⟩

/-! ## N3 — nothing connection-specific is ever transmitted -/

theorem reqHeaderFields_no_connSpecific (k : Str) (vv : List Str) :
    ∀ f ∈ reqHeaderFields k vv, f.name ∉ connSpecific := by
  intro f hf
  unfold reqHeaderFields at hf
  simp only at hf
  split at hf
  · simp at hf
  · rename_i h1
    split at hf
    · simp at hf
    · rename_i h2
      have hc : lower k ∉ connSpecific := by simpa using h2
      have hcookie : str "cookie" ∉ connSpecific := by decide +kernel
      split at hf
      · split at hf
        · simp at hf
        · split at hf
          · simp at hf
          · simp only [List.mem_singleton] at hf; subst hf; exact hc
      · split at hf
        · simp only [List.mem_map] at hf
          obtain ⟨c, _, rfl⟩ := hf
          exact hcookie
        · split at hf
          · simp at hf
          · simp only [List.mem_map] at hf
            obtain ⟨c, _, rfl⟩ := hf
            exact hc

/-- N3: no field of the request header block has a connection-specific name
(`connection`, `proxy-connection`, `transfer-encoding`, `upgrade`, `keep-alive`), whatever the
submitted request is. -/
theorem clientNorm_no_connection_specific (r : Req) :
    ∀ f ∈ (clientNorm r).headers, f.name ∉ connSpecific := by
  intro f hf
  change f ∈ reqFields r at hf
  unfold reqFields at hf
  simp only [List.mem_append, List.mem_cons, List.not_mem_nil, or_false, List.mem_flatMap] at hf
  rcases hf with ((((hf | hf) | hf) | hf) | hf) | hf
  · rcases hf with rfl | rfl | rfl | rfl <;> (dsimp only; decide +kernel)
  · split at hf
    · simp at hf
    · simp only [List.mem_singleton] at hf; subst hf; (dsimp only; decide +kernel)
  · obtain ⟨e, _, he⟩ := hf
    exact reqHeaderFields_no_connSpecific e.1 e.2 f he
  · split at hf
    · simp only [List.mem_singleton] at hf; subst hf; (dsimp only; decide +kernel)
    · simp at hf
  · split at hf
    · simp only [List.mem_singleton] at hf; subst hf; (dsimp only; decide +kernel)
    · simp at hf
  · split at hf
    · simp at hf
    · simp only [List.mem_singleton] at hf; subst hf; (dsimp only; decide +kernel)

/-! ## Header-map algebra (`http.Header` as an association list) -/

theorem find_key_map (h : HMap) (k : Str) (g : Str × List Str → Str × List Str)
    (hg : ∀ e, (g e).1 = e.1) :
    (h.map g).find? (fun e => e.1 == k) = (h.find? (fun e => e.1 == k)).map g := by
  induction h with
  | nil => rfl
  | cons e es ih =>
    simp only [List.map_cons, List.find?_cons, hg]
    split
    · rfl
    · exact ih

theorem has_eq_false_find (h : HMap) (k : Str) (hh : h.has k = false) :
    h.find? (fun e => e.1 == k) = none := by
  unfold HMap.has at hh
  rw [List.find?_eq_none]
  intro e he
  have := (List.any_eq_false.mp hh) e he
  simpa using this

theorem has_eq_true_find (h : HMap) (k : Str) (hh : h.has k = true) :
    ∃ e, h.find? (fun e => e.1 == k) = some e ∧ e.1 = k := by
  unfold HMap.has at hh
  obtain ⟨e, he, hk⟩ := List.any_eq_true.mp hh
  cases hf : h.find? (fun e => e.1 == k) with
  | none =>
    rw [List.find?_eq_none] at hf
    exact absurd hk (hf e he)
  | some e' =>
    have := List.find?_some hf
    exact ⟨e', rfl, by simpa using this⟩

/-- `Header.Add` appends to the values of the same key … -/
theorem get_add_same (h : HMap) (k v : Str) : (h.add k v).get k = h.get k ++ [v] := by
  unfold HMap.add HMap.get
  cases hh : h.has k with
  | false =>
    simp only [Bool.false_eq_true, if_false, List.find?_append, has_eq_false_find h k hh]
    simp
  | true =>
    obtain ⟨e, he, hk⟩ := has_eq_true_find h k hh
    simp only [if_true]
    rw [find_key_map h k _ (by intro e; split <;> rfl), he]
    simp [hk]

/-- … and leaves every other key alone. -/
theorem get_add_ne (h : HMap) (k v key : Str) (hne : k ≠ key) : (h.add k v).get key = h.get key := by
  unfold HMap.add HMap.get
  cases hh : h.has k with
  | false =>
    simp only [Bool.false_eq_true, if_false, List.find?_append]
    cases h.find? (fun e => e.1 == key) with
    | none => simp [hne]
    | some e => rfl
  | true =>
    simp only [if_true]
    rw [find_key_map h key _ (by intro e; split <;> rfl)]
    cases hf : h.find? (fun e => e.1 == key) with
    | none => rfl
    | some e =>
      have := List.find?_some hf
      have hk : e.1 = key := by simpa using this
      have hek : ¬ e.1 = k := by rw [hk]; exact Ne.symm hne
      simp [hek]

theorem get_set_ne (h : HMap) (k key : Str) (vv : List Str) (hne : k ≠ key) :
    (h.set k vv).get key = h.get key := by
  unfold HMap.set HMap.get
  cases hh : h.has k with
  | false =>
    simp only [Bool.false_eq_true, if_false, List.find?_append]
    cases h.find? (fun e => e.1 == key) with
    | none => simp [hne]
    | some e => rfl
  | true =>
    simp only [if_true]
    rw [find_key_map h key _ (by intro e; split <;> rfl)]
    cases hf : h.find? (fun e => e.1 == key) with
    | none => rfl
    | some e =>
      have := List.find?_some hf
      have hk : e.1 = key := by simpa using this
      have hek : ¬ e.1 = k := by rw [hk]; exact Ne.symm hne
      simp [hek]

theorem get_del_ne (h : HMap) (k key : Str) (hne : k ≠ key) : (h.del k).get key = h.get key := by
  unfold HMap.del HMap.get
  congr 1
  induction h with
  | nil => rfl
  | cons a as ih =>
    rw [List.filter_cons]
    by_cases hak : a.1 = k
    · have h1 : (!(a.1 == k)) = false := by simp [hak]
      have h2 : (a.1 == key) = false := by rw [hak]; simpa using hne
      rw [h1]; simp only [Bool.false_eq_true, if_false, List.find?_cons, h2]
      exact ih
    · have h1 : (!(a.1 == k)) = true := by simp [hak]
      rw [h1]; simp only [if_true, List.find?_cons, ih]

theorem get_del_same (h : HMap) (k : Str) : (h.del k).get k = [] := by
  unfold HMap.del HMap.get
  have : (h.filter (fun e => !(e.1 == k))).find? (fun e => e.1 == k) = none := by
    rw [List.find?_eq_none]; intro a ha
    have := (List.mem_filter.mp ha).2
    simpa using this
  rw [this]

theorem foldl_add_get (fs : List Field) (h : HMap) (key : Str) :
    (fs.foldl (fun h f => h.add (canonKey f.name) f.value) h).get key
      = h.get key ++ (fs.filter (fun f => canonKey f.name == key)).map (·.value) := by
  induction fs generalizing h with
  | nil => simp
  | cons f fs ih =>
    simp only [List.foldl_cons, ih, List.filter_cons]
    by_cases hk : canonKey f.name = key
    · subst hk; simp [get_add_same]
    · simp [hk, get_add_ne _ _ _ _ hk]

/-- `fieldsToMap` groups the values by canonical key, in field order. -/
theorem fieldsToMap_get (fs : List Field) (key : Str) :
    (fieldsToMap fs).get key = (fs.filter (fun f => canonKey f.name == key)).map (·.value) := by
  unfold fieldsToMap
  rw [foldl_add_get]
  rfl

/-! ## N4 — the server keeps every regular field -/

/-- N4 (with order): the values the handler sees under `key` are exactly the values of the regular
wire fields whose canonicalised name is `key`, in wire order — for every key other than `Cookie`
(crumbs are re-joined) and `Trailer` (removed). -/
theorem serverView_header_get (m : Msg) (e : Bool) (key : Str)
    (hc : key ≠ str "Cookie") (ht : key ≠ str "Trailer") :
    (serverView m e).header.get key
      = ((regularFields m.headers).filter (fun f => canonKey f.name == key)).map (·.value) := by
  unfold serverView
  simp only
  rw [get_del_ne _ _ _ (Ne.symm ht)]
  split
  · rw [get_set_ne _ _ _ _ (Ne.symm hc), fieldsToMap_get]
  · rw [fieldsToMap_get]

/-- N4: for every wire message, every regular (non-pseudo-prefix) field other than the `Cookie` and
`Trailer` ones reaches the handler under its canonical key. -/
theorem serverView_keeps_field (m : Msg) (e : Bool) (f : Field)
    (hf : f ∈ regularFields m.headers)
    (hc : canonKey f.name ≠ str "Cookie") (ht : canonKey f.name ≠ str "Trailer") :
    f.value ∈ (serverView m e).header.get (canonKey f.name) := by
  rw [serverView_header_get m e _ hc ht]
  exact List.mem_map.mpr ⟨f, List.mem_filter.mpr ⟨hf, by simp⟩, rfl⟩

/-- the `Trailer` header never reaches the handler's header map. -/
theorem serverView_no_trailer_header (m : Msg) (e : Bool) :
    (serverView m e).header.get (str "Trailer") = [] := by
  unfold serverView
  simp only
  exact get_del_same _ _

/-! ## N5 — end to end: no non-hop-by-hop field is ever dropped -/

theorem mem_dropWhile_of_not {α : Type} (p : α → Bool) (l : List α) (x : α) (hx : x ∈ l)
    (hp : p x = false) : x ∈ l.dropWhile p := by
  induction l with
  | nil => cases hx
  | cons a as ih =>
    rw [List.dropWhile_cons]
    split
    · rcases List.mem_cons.mp hx with rfl | h
      · simp_all
      · exact ih h
    · exact hx

/-- ':' (58) is not a token byte, so a valid name (lower-cased or not) is not a pseudo-header name. -/
theorem not_pseudo_of_valid {k : Str} (hv : ValidName k) (v : Str) :
    Field.isPseudo ⟨lower k, v⟩ = false := by
  obtain ⟨hne, hall⟩ := hv
  cases k with
  | nil => exact absurd rfl hne
  | cons b bs =>
    have hb := (hall b (List.mem_cons_self ..)).2
    have h58 : lowerByte b ≠ 58 := by
      intro h
      have : b = 58 := by unfold lowerByte at h; grind
      subst this
      exact absurd hb (by decide)
    unfold Field.isPseudo lower
    simp only [List.map_cons]
    split
    · rename_i heq
      injection heq with h1 _
      exact absurd h1 h58
    · rfl

theorem valid_ne_protocol {k : Str} (hv : ValidName k) : k ≠ str ":protocol" := by
  intro h
  have h58 : (58 : Nat) ∈ k := by rw [h]; decide +kernel
  exact absurd (hv.2 58 h58).2 (by decide)

theorem canonKey_ne_of_lower_ne (k lit Lit : Str) (hl : lower Lit = lit) (h : lower k ≠ lit) :
    canonKey k ≠ Lit := by
  intro he
  apply h
  rw [← lower_canonKey_any k, he, hl]

/-- N5 (headline): for every submitted request, every header field with a valid name that is not
one of the specially treated names reaches the handler, under the canonical key, with every one of
its values. Hypotheses: `ValidName k` (the Transport refuses other names, `validateHeaders`; the
model does not model that refusal), `lower k ∉ specialReqNames`. -/
theorem normalize_keeps_field_valid (r : Req) (k : Str) (vv : List Str) (hm : (k, vv) ∈ r.header)
    (hv : ValidName k) (h : lower k ∉ specialReqNames) :
    ∀ v ∈ vv, v ∈ (normalize r).header.get (canonKey k) := by
  intro v hvv
  have hwire := clientNorm_keeps_field r k vv hm h (valid_ne_protocol hv) v hvv
  have hreg : (⟨lower k, v⟩ : Field) ∈ regularFields (clientNorm r).headers :=
    mem_dropWhile_of_not _ _ _ hwire (not_pseudo_of_valid hv v)
  obtain ⟨_, _, _, h4, h5, _⟩ := not_special h
  have hck : canonKey (lower k) = canonKey k := canonKey_lower hv
  have hc : canonKey k ≠ str "Cookie" :=
    canonKey_ne_of_lower_ne k (str "cookie") (str "Cookie") (by decide +kernel) h4
  have ht : canonKey k ≠ str "Trailer" :=
    canonKey_ne_of_lower_ne k (str "trailer") (str "Trailer") (by decide +kernel) h5
  have := serverView_keeps_field (clientNorm r) r.earlyEnd ⟨lower k, v⟩ hreg
    (by show canonKey (lower k) ≠ _; rw [hck]; exact hc)
    (by show canonKey (lower k) ≠ _; rw [hck]; exact ht)
  simp only [hck] at this
  exact this

/-- N5 as stated in the task (the hypothesis `k ≠ ":protocol"` follows from `ValidName k`). -/
theorem normalize_keeps_field (r : Req) (k : Str) (vv : List Str) (hm : (k, vv) ∈ r.header)
    (hv : ValidName k) (h : lower k ∉ specialReqNames) (_hp : k ≠ str ":protocol") :
    ∀ v ∈ vv, v ∈ (normalize r).header.get (canonKey k) :=
  normalize_keeps_field_valid r k vv hm hv h

/-! ## N6 — request line, authority and body -/

theorem reqFields_shape (r : Req) : ∃ t, reqFields r =
    ⟨str ":authority", r.authority⟩ :: ⟨str ":method", r.methodOrGet⟩ :: ⟨str ":path", r.path⟩ ::
      ⟨str ":scheme", r.scheme⟩ :: t := by
  unfold reqFields
  simp only [List.append_assoc, List.cons_append, List.nil_append]
  exact ⟨_, rfl⟩

theorem pseudoValue_prefix (a m p s : Str) (t : List Field) :
    let fs : List Field := ⟨str ":authority", a⟩ :: ⟨str ":method", m⟩ :: ⟨str ":path", p⟩ ::
      ⟨str ":scheme", s⟩ :: t
    pseudoValue fs (str "authority") = a ∧ pseudoValue fs (str "method") = m ∧
      pseudoValue fs (str "path") = p := by
  have e1 : str ":authority" = 58 :: str "authority" := by decide +kernel
  have e2 : str ":method" = 58 :: str "method" := by decide +kernel
  have e3 : str ":path" = 58 :: str "path" := by decide +kernel
  have e4 : str ":scheme" = 58 :: str "scheme" := by decide +kernel
  have n1 : (str "authority" == str "method") = false := by decide +kernel
  have n2 : (str "authority" == str "path") = false := by decide +kernel
  have n3 : (str "method" == str "path") = false := by decide +kernel
  simp only [e1, e2, e3, e4, pseudoValue, pseudoFields, List.takeWhile_cons, Field.isPseudo,
    if_true, List.find?_cons]
  simp [n1, n2, n3]

theorem normalize_method (r : Req) : (normalize r).method = r.methodOrGet := by
  obtain ⟨t, ht⟩ := reqFields_shape r
  show pseudoValue (reqFields r) (str "method") = _
  rw [ht]; exact (pseudoValue_prefix _ _ _ _ t).2.1

theorem normalize_uri (r : Req) : (normalize r).uri = r.path := by
  obtain ⟨t, ht⟩ := reqFields_shape r
  show pseudoValue (reqFields r) (str "path") = _
  rw [ht]; exact (pseudoValue_prefix _ _ _ _ t).2.2

theorem normalize_host (r : Req) (h : r.authority ≠ []) : (normalize r).host = r.authority := by
  obtain ⟨t, ht⟩ := reqFields_shape r
  have ha : pseudoValue (clientNorm r).headers (str "authority") = r.authority := by
    show pseudoValue (reqFields r) (str "authority") = _
    rw [ht]; exact (pseudoValue_prefix _ _ _ _ t).1
  unfold normalize serverView
  simp only [ha]
  have : r.authority.isEmpty = false := by cases hr : r.authority with
    | nil => exact absurd hr h
    | cons _ _ => rfl
  simp [this]

/-- the body arrives unchanged (a request without a body, `Body == nil`, delivers the empty body). -/
theorem normalize_body (r : Req) : (normalize r).body = if r.hasBody then r.body else [] := rfl

/-! ## Non-vacuity: the hypothesis sets are satisfiable, and where they cannot be dropped -/

instance (k : Str) : Decidable (ValidName k) := by unfold ValidName; infer_instance

/-- a concrete request: POST with a body, two ordinary keys (one with two values), a `Connection`
header (dropped), a cookie and a declared trailer. -/
def exReq : Req :=
  { method := str "POST", scheme := str "https", host := [], uhost := str "example.com",
    path := str "/a?b=c", contentLength := 3, nilBody := false, body := str "xyz",
    header := [(str "X-Foo-bar", [str "1", str "2"]), (str "Connection", [str "close"]),
               (str "Cookie", [str "a=b; c=d"]), (str "accept", [str "*/*"])],
    trailer := [(str "X-Sum", [str "9"])], gzip := true }

/-- the hypotheses of N1 (`ValidName`), N2 and N5 hold for the key `X-Foo-bar` of `exReq`. -/
example : (str "X-Foo-bar", [str "1", str "2"]) ∈ exReq.header ∧ ValidName (str "X-Foo-bar") ∧
    lower (str "X-Foo-bar") ∉ specialReqNames ∧ str "X-Foo-bar" ≠ str ":protocol" := by
  decide +kernel

/-- … and the conclusions, instantiated (the key is re-canonicalised to `X-Foo-Bar`). -/
example : canonKey (str "X-Foo-bar") = str "X-Foo-Bar" ∧
    (normalize exReq).header.get (str "X-Foo-Bar") = [str "1", str "2"] ∧
    (normalize exReq).header.get (str "Connection") = [] ∧
    (normalize exReq).header.get (str "Cookie") = [str "a=b; c=d"] ∧
    (normalize exReq).host = str "example.com" ∧ (normalize exReq).method = str "POST" := by
  decide +kernel

example : str "1" ∈ (normalize exReq).header.get (canonKey (str "X-Foo-bar")) :=
  normalize_keeps_field exReq (str "X-Foo-bar") [str "1", str "2"] (by decide +kernel)
    (by decide +kernel) (by decide +kernel) (by decide +kernel) _ (by decide +kernel)

/-- the hypotheses of N4 hold for a regular field of the wire message of `exReq`. -/
example : (⟨str "accept", str "*/*"⟩ : Field) ∈ regularFields (clientNorm exReq).headers ∧
    canonKey (str "accept") ≠ str "Cookie" ∧ canonKey (str "accept") ≠ str "Trailer" := by
  decide +kernel

/-- the hypothesis of `normalize_host` holds for `exReq`. -/
example : exReq.authority ≠ [] := by decide +kernel

/-- `ValidName` cannot be dropped from N5 *in the model*: with an empty `Trailer` map a first
header key starting with ':' (which Go's `validateHeaders` refuses before `EncodeHeaders`; the model
does not model the refusal) lands in the pseudo-header prefix and `regularFields` skips it. -/
theorem normalize_keeps_field_needs_valid :
    ∃ (r : Req) (k : Str) (vv : List Str) (v : Str), (k, vv) ∈ r.header ∧
      lower k ∉ specialReqNames ∧ k ≠ str ":protocol" ∧ v ∈ vv ∧
      v ∉ (normalize r).header.get (canonKey k) :=
  ⟨{ exReq with header := [(str ":foo", [str "1"])], trailer := [] }, str ":foo", [str "1"], str "1",
    by decide +kernel⟩

/-- the exclusion of `Cookie` in N4 is necessary: two crumbs are re-joined into one value. -/
theorem serverView_cookie_joined :
    (serverView ⟨[⟨str "cookie", str "a=b"⟩, ⟨str "cookie", str "c=d"⟩], [], []⟩ true).header.get
      (str "Cookie") = [str "a=b; c=d"] := by
  decide +kernel

end NetVerif.Proofs.C14Norm
