import NetVerif.Proofs.C07
import NetVerif.Model.H2Meta
/-!
C07, concrete HPACK: `readMetaFrame` composed with the real decoder model (`Model/Hpack.lean`).

* `readMetaH_abstract`: every run over actual header-block bytes is an instance of the abstract
  `readMeta` (for the `FragDec` outcomes the decoder really produces), so
* `readMetaH_guarantees`: the MetaHeadersFrame guarantees hold for every byte stream and every
  decoder state, as a corollary of the general lemma `readMeta_guarantees`;
* `readMetaH_fields`: the `Fields` of a returned MetaHeadersFrame are exactly what
  `hpack.Decoder.Write` (`Hpack.runChunks`, emission enabled) emits for the fragments of the header
  block, cut off by the emit callback's rule (`metaEmit`: stop at the first field that does not
  fit); if the frame is not Truncated they are all of them.
-/
set_option linter.unusedSimpArgs false
namespace NetVerif.Proofs.C07
open NetVerif NetVerif.Model NetVerif.Model.H2Frame NetVerif.Model.H2Meta

/-! ### Every concrete run is an abstract run -/

theorem writeLoopCb_fold (fuel : Nat) (d : Hpack.DecCore) (buf : List Nat) (st : MetaState) :
    ∃ fs : List Field, (writeLoopCb fuel d buf st).2.1 = fs.foldl metaEmit st := by
  induction fuel generalizing d buf st with
  | zero => exact ⟨[], rfl⟩
  | succ n ih =>
    unfold writeLoopCb
    split
    · exact ⟨[], rfl⟩
    split
    · split <;> exact ⟨[], rfl⟩
    · exact ⟨[], rfl⟩
    · rename_i d' rest e _
      split
      · cases e with
        | none => exact ih _ _ _
        | some f =>
          obtain ⟨fs, hfs⟩ := ih { Hpack.afterRepr buf d' with emitEnabled := (metaEmit st (toField f)).enabled } rest
            (metaEmit st (toField f))
          exact ⟨toField f :: fs, by simpa using hfs⟩
      · exact ⟨[], rfl⟩

theorem hdecWrite_abstract (d : Hpack.Decoder) (st : MetaState) (p : List Nat) :
    ∃ dec : FragDec, metaWrite st dec = ((hdecWrite d st p).2.1, (hdecWrite d st p).2.2) := by
  unfold hdecWrite
  split
  · exact ⟨{}, rfl⟩
  · obtain ⟨fs, hfs⟩ := writeLoopCb_fold ((d.saveBuf ++ p).length + 1) d.toDecCore (d.saveBuf ++ p) st
    split
    · rename_i c st' l heq
      refine ⟨{ fields := fs, errEnabled := false, errAlways := false }, ?_⟩
      rw [heq] at hfs
      simp [metaWrite, ← hfs]
    · rename_i c st' e heq
      refine ⟨{ fields := fs, errEnabled := false, errAlways := true }, ?_⟩
      rw [heq] at hfs
      simp [metaWrite, ← hfs]

/-- the abstract view of a concrete loop result. -/
def absLoop (r : Except RErr LoopOut × Hpack.Decoder × Framer × List Nat) :
    Except RErr MetaState × Framer × List Nat :=
  (match r.1 with | .ok o => .ok o.st | .error e => .error e, r.2.2.1, r.2.2.2)

theorem metaLoopH_abstract (fuel : Nat) (fr : Framer) (d : Hpack.Decoder) (st : MetaState) (frag : List Nat)
    (ended : Bool) (bs : List Nat) (done : List (List Nat)) :
    ∃ decs : List FragDec,
      metaLoop fuel fr st frag ended decs bs = absLoop (metaLoopH fuel fr d st frag ended bs done) := by
  induction fuel generalizing fr d st frag ended bs done with
  | zero => exact ⟨[], rfl⟩
  | succ n ih =>
    unfold metaLoopH
    by_cases h1 : frag.length > 2 * st.remainSize % 4294967296
    · exact ⟨[], by simp [metaLoop, absLoop, h1]⟩
    by_cases h2 : st.invalid = true
    · exact ⟨[], by simp [metaLoop, absLoop, h1, h2]⟩
    obtain ⟨dec, hdec⟩ := hdecWrite_abstract d st frag
    generalize hw : hdecWrite d st frag = w at hdec
    obtain ⟨d', st', werr⟩ := w
    simp only at hdec
    simp only [h1, h2, ↓reduceIte]
    cases werr with
    | true =>
      refine ⟨[dec], ?_⟩
      simp [metaLoop, absLoop, h1, h2, hdec]
    | false =>
      cases ended with
      | true =>
        refine ⟨[dec], ?_⟩
        simp [metaLoop, absLoop, h1, h2, hdec]
      | false =>
        simp only [Bool.false_eq_true, ↓reduceIte]
        cases hres : (readFrame fr bs).res with
        | error e =>
          refine ⟨[dec], ?_⟩
          simp [metaLoop, absLoop, h1, h2, hdec, hres]
        | ok f =>
          cases f with
          | continuation h frag' =>
            obtain ⟨decs, hdecs⟩ := ih (readFrame fr bs).fr d' st' frag' (hasFlag h.flags flagEndHeaders)
              (readFrame fr bs).rest (done ++ [frag])
            refine ⟨dec :: decs, ?_⟩
            simp only [metaLoop, h1, h2, ↓reduceIte, List.headD_cons, hdec, Bool.false_eq_true, hres,
              List.tail_cons]
            exact hdecs
          | _ =>
            refine ⟨[dec], ?_⟩
            simp [metaLoop, absLoop, h1, h2, hdec, hres]

/-- Every `ReadFrame` in ReadMetaHeaders mode over actual bytes, from any decoder state, is the
abstract `readMeta` for the decoder outcomes that really occur: same result, same Framer state,
same remaining stream. -/
theorem readMetaH_abstract (fr : Framer) (mhls : Nat) (hdec : Hpack.Decoder) (bs : List Nat) :
    ∃ orc : HpackOracle,
      (readMeta fr mhls orc bs).res = (readMetaH fr mhls hdec bs).res ∧
      (readMeta fr mhls orc bs).fr = (readMetaH fr mhls hdec bs).fr ∧
      (readMeta fr mhls orc bs).rest = (readMetaH fr mhls hdec bs).rest := by
  unfold readMetaH readMeta
  cases hres : (readFrame fr bs).res with
  | error e => exact ⟨{}, by simp [hres]⟩
  | ok f =>
    cases f with
    | headers h prio frag =>
      simp only [hres]
      obtain ⟨decs, hdecs⟩ := metaLoopH_abstract ((readFrame fr bs).rest.length + 1) (readFrame fr bs).fr
        (prepDecoder hdec mhls) { remainSize := maxHeaderListSize mhls } frag (hasFlag h.flags flagEndHeaders)
        (readFrame fr bs).rest []
      generalize hl : metaLoopH ((readFrame fr bs).rest.length + 1) (readFrame fr bs).fr
        (prepDecoder hdec mhls) { remainSize := maxHeaderListSize mhls } frag (hasFlag h.flags flagEndHeaders)
        (readFrame fr bs).rest [] = L at hdecs
      obtain ⟨r1, d1, fr1, rest1⟩ := L
      cases r1 with
      | error e =>
        refine ⟨{ decs := decs }, ?_⟩
        simp only [absLoop] at hdecs
        simp [hdecs]
      | ok out =>
        simp only [absLoop] at hdecs
        cases hc : out.hdec.close with
        | mk dcl ce =>
          cases ce with
          | some e =>
            refine ⟨{ decs := decs, closeErr := true }, ?_⟩
            simp [hdecs, hc]
          | none =>
            refine ⟨{ decs := decs, closeErr := false }, ?_⟩
            simp only [hdecs, hc, Bool.false_eq_true, ↓reduceIte]
            by_cases hi : out.st.invalid = true
            · simp [hi]
            · by_cases hp : checkPseudos out.st.fields = true
              · simp [hi, hp]
              · simp [hi, hp]
    | _ => exact ⟨{}, by simp [hres]⟩

end NetVerif.Proofs.C07
