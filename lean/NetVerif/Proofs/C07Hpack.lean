import NetVerif.Proofs.C07
import NetVerif.Model.H2Meta
import NetVerif.Proofs.Lemmas.Hpack
/-!
C07, concrete HPACK: `readMetaFrame` composed with the real decoder model (`Model/Hpack.lean`).

* `readMetaH_abstract`: every run over actual header-block bytes is an instance of the abstract
  `readMeta` (for the `FragDec` outcomes the decoder really produces), so
* `readMetaH_guarantees`: the MetaHeadersFrame guarantees hold for every byte stream and every
  decoder state, as a corollary of the general lemma `readMeta_guarantees`;
* `readMetaH_fields`: the `Fields` of a returned MetaHeadersFrame are exactly what
  `hpack.Decoder.Write` (`Hpack.runChunks`, emission enabled) emits for the fragments of the header
  block, cut off by the emit callback's rule (`metaEmit`: stop at the first field that does not
  fit); if the frame is not Truncated they are all of them.
-/
set_option linter.unusedSimpArgs false
namespace NetVerif.Proofs.C07
open NetVerif NetVerif.Model NetVerif.Model.H2Frame NetVerif.Model.H2Meta

/-! ### Every concrete run is an abstract run -/

theorem writeLoopCb_fold (fuel : Nat) (d : Hpack.DecCore) (buf : List Nat) (st : MetaState) :
    ∃ fs : List Field, (writeLoopCb fuel d buf st).2.1 = fs.foldl metaEmit st := by
  induction fuel generalizing d buf st with
  | zero => exact ⟨[], rfl⟩
  | succ n ih =>
    unfold writeLoopCb
    split
    · exact ⟨[], rfl⟩
    split
    · split <;> exact ⟨[], rfl⟩
    · exact ⟨[], rfl⟩
    · rename_i d' rest e _
      split
      · cases e with
        | none => exact ih _ _ _
        | some f =>
          obtain ⟨fs, hfs⟩ := ih { Hpack.afterRepr buf d' with emitEnabled := (metaEmit st (toField f)).enabled } rest
            (metaEmit st (toField f))
          exact ⟨toField f :: fs, by simpa using hfs⟩
      · exact ⟨[], rfl⟩

theorem hdecWrite_abstract (d : Hpack.Decoder) (st : MetaState) (p : List Nat) :
    ∃ dec : FragDec, metaWrite st dec = ((hdecWrite d st p).2.1, (hdecWrite d st p).2.2) := by
  unfold hdecWrite
  split
  · exact ⟨{}, rfl⟩
  · obtain ⟨fs, hfs⟩ := writeLoopCb_fold ((d.saveBuf ++ p).length + 1) d.toDecCore (d.saveBuf ++ p) st
    split
    · rename_i c st' l heq
      refine ⟨{ fields := fs, errEnabled := false, errAlways := false }, ?_⟩
      rw [heq] at hfs
      simp [metaWrite, ← hfs]
    · rename_i c st' e heq
      refine ⟨{ fields := fs, errEnabled := false, errAlways := true }, ?_⟩
      rw [heq] at hfs
      simp [metaWrite, ← hfs]

/-- the abstract view of a concrete loop result. -/
def absLoop (r : Except RErr LoopOut × Hpack.Decoder × Framer × List Nat) :
    Except RErr MetaState × Framer × List Nat :=
  (match r.1 with | .ok o => .ok o.st | .error e => .error e, r.2.2.1, r.2.2.2)

theorem metaLoopH_abstract (fuel : Nat) (fr : Framer) (d : Hpack.Decoder) (st : MetaState) (frag : List Nat)
    (ended : Bool) (bs : List Nat) (done : List (List Nat)) :
    ∃ decs : List FragDec,
      metaLoop fuel fr st frag ended decs bs = absLoop (metaLoopH fuel fr d st frag ended bs done) := by
  induction fuel generalizing fr d st frag ended bs done with
  | zero => exact ⟨[], rfl⟩
  | succ n ih =>
    unfold metaLoopH
    by_cases h1 : frag.length > 2 * st.remainSize
    · exact ⟨[], by simp [metaLoop, absLoop, h1]⟩
    by_cases h2 : st.invalid = true
    · exact ⟨[], by simp [metaLoop, absLoop, h1, h2]⟩
    obtain ⟨dec, hdec⟩ := hdecWrite_abstract d st frag
    generalize hw : hdecWrite d st frag = w at hdec
    obtain ⟨d', st', werr⟩ := w
    simp only at hdec
    simp only [h1, h2, ↓reduceIte]
    cases werr with
    | true =>
      refine ⟨[dec], ?_⟩
      simp [metaLoop, absLoop, h1, h2, hdec]
    | false =>
      cases ended with
      | true =>
        refine ⟨[dec], ?_⟩
        simp [metaLoop, absLoop, h1, h2, hdec]
      | false =>
        simp only [Bool.false_eq_true, ↓reduceIte]
        cases hres : (readFrame fr bs).res with
        | error e =>
          refine ⟨[dec], ?_⟩
          simp [metaLoop, absLoop, h1, h2, hdec, hres]
        | ok f =>
          cases f with
          | continuation h frag' =>
            obtain ⟨decs, hdecs⟩ := ih (readFrame fr bs).fr d' st' frag' (hasFlag h.flags flagEndHeaders)
              (readFrame fr bs).rest (done ++ [frag])
            refine ⟨dec :: decs, ?_⟩
            simp only [metaLoop, h1, h2, ↓reduceIte, List.headD_cons, hdec, Bool.false_eq_true, hres,
              List.tail_cons]
            exact hdecs
          | _ =>
            refine ⟨[dec], ?_⟩
            simp [metaLoop, absLoop, h1, h2, hdec, hres]

/-- Every `ReadFrame` in ReadMetaHeaders mode over actual bytes, from any decoder state, is the
abstract `readMeta` for the decoder outcomes that really occur: same result, same Framer state,
same remaining stream. -/
theorem readMetaH_abstract (fr : Framer) (mhls : Nat) (hdec : Hpack.Decoder) (bs : List Nat) :
    ∃ orc : HpackOracle,
      (readMeta fr mhls orc bs).res = (readMetaH fr mhls hdec bs).res ∧
      (readMeta fr mhls orc bs).fr = (readMetaH fr mhls hdec bs).fr ∧
      (readMeta fr mhls orc bs).rest = (readMetaH fr mhls hdec bs).rest := by
  unfold readMetaH readMeta
  cases hres : (readFrame fr bs).res with
  | error e => exact ⟨{}, by simp [hres]⟩
  | ok f =>
    cases f with
    | headers h prio frag =>
      simp only [hres]
      obtain ⟨decs, hdecs⟩ := metaLoopH_abstract ((readFrame fr bs).rest.length + 1) (readFrame fr bs).fr
        (prepDecoder hdec mhls) { remainSize := maxHeaderListSize mhls } frag (hasFlag h.flags flagEndHeaders)
        (readFrame fr bs).rest []
      generalize hl : metaLoopH ((readFrame fr bs).rest.length + 1) (readFrame fr bs).fr
        (prepDecoder hdec mhls) { remainSize := maxHeaderListSize mhls } frag (hasFlag h.flags flagEndHeaders)
        (readFrame fr bs).rest [] = L at hdecs
      obtain ⟨r1, d1, fr1, rest1⟩ := L
      cases r1 with
      | error e =>
        refine ⟨{ decs := decs }, ?_⟩
        simp only [absLoop] at hdecs
        simp [hdecs]
      | ok out =>
        simp only [absLoop] at hdecs
        cases hc : out.hdec.close with
        | mk dcl ce =>
          cases ce with
          | some e =>
            refine ⟨{ decs := decs, closeErr := true }, ?_⟩
            simp [hdecs, hc]
          | none =>
            refine ⟨{ decs := decs, closeErr := false }, ?_⟩
            simp only [hdecs, hc, Bool.false_eq_true, ↓reduceIte]
            by_cases hi : out.st.invalid = true
            · simp [hi]
            · by_cases hp : checkPseudos out.st.fields = true
              · simp [hi, hp]
              · simp [hi, hp]
    | _ => exact ⟨{}, by simp [hres]⟩

/-! ### The decoder under the emit callback vs. the plain decoder -/

theorem finishEmit_ok (d d1 : Hpack.DecCore) (hf : Hpack.Field) (em1 : Option Hpack.Field)
    (h : Hpack.finishEmit d hf = .ok d1 em1) : d1 = d ∧ (d.emitEnabled = false → em1 = none) := by
  unfold Hpack.finishEmit Hpack.callEmit at h
  split at h
  · cases h
  · rename_i em heq
    simp only [Hpack.ApplyRes.ok.injEq] at h
    obtain ⟨rfl, rfl⟩ := h
    split at heq
    · cases heq
    · simp only [Except.ok.injEq] at heq
      subst heq
      refine ⟨rfl, fun hd => by simp [hd]⟩

theorem applyAction_ok_emit (d d1 : Hpack.DecCore) (a : Hpack.Action) (em1 : Option Hpack.Field)
    (h : Hpack.applyAction d a = .ok d1 em1) :
    d1.emitEnabled = d.emitEnabled ∧ (d.emitEnabled = false → em1 = none) := by
  cases a with
  | indexed e =>
    obtain ⟨rfl, h2⟩ := finishEmit_ok _ _ _ _ h
    exact ⟨rfl, h2⟩
  | sizeUpdate sz =>
    simp only [Hpack.applyAction, Hpack.ApplyRes.ok.injEq] at h
    obtain ⟨rfl, rfl⟩ := h
    simp
  | literal it tn un uv =>
    simp only [Hpack.applyAction] at h
    split at h
    · cases h
    split at h
    · cases h
    obtain ⟨rfl, h2⟩ := finishEmit_ok _ _ _ _ h
    constructor
    · split <;> rfl
    · intro hd; apply h2; split <;> exact hd

theorem parseRepr_ok_emit (d d' : Hpack.DecCore) (buf rest : List Nat) (em : Option Hpack.Field)
    (h : Hpack.parseRepr d buf = .ok d' rest em) :
    d'.emitEnabled = d.emitEnabled ∧ (d.emitEnabled = false → em = none) := by
  unfold Hpack.parseRepr at h
  split at h
  · cases h
  · cases h
  · split at h
    · cases h
    · rename_i happ
      simp only [Hpack.PRes.ok.injEq] at h
      obtain ⟨rfl, _, rfl⟩ := h
      exact applyAction_ok_emit _ _ _ _ happ
theorem finishEmit_err (d d1 : Hpack.DecCore) (hf : Hpack.Field) (e : Hpack.PErr)
    (h : Hpack.finishEmit d hf = .err e d1) : d1 = d := by
  unfold Hpack.finishEmit at h
  split at h
  · simp only [Hpack.ApplyRes.err.injEq] at h; exact h.2.symm
  · cases h

theorem parseRepr_err_emit (d d' : Hpack.DecCore) (buf : List Nat) (e : Hpack.PErr)
    (h : Hpack.parseRepr d buf = .err e d') : d'.emitEnabled = d.emitEnabled := by
  unfold Hpack.parseRepr at h
  split at h
  · cases h
  · simp only [Hpack.PRes.err.injEq] at h; rw [← h.2]
  · rename_i a rest' _
    split at h
    · rename_i e1 d1 happ
      simp only [Hpack.PRes.err.injEq] at h
      obtain ⟨_, rfl⟩ := h
      cases a with
      | indexed en => rw [finishEmit_err _ _ _ _ happ]
      | sizeUpdate sz => simp [Hpack.applyAction] at happ
      | literal it tn un uv =>
        simp only [Hpack.applyAction] at happ
        split at happ
        · simp only [Hpack.ApplyRes.err.injEq] at happ; rw [← happ.2]
        split at happ
        · simp only [Hpack.ApplyRes.err.injEq] at happ; rw [← happ.2]
        rw [finishEmit_err _ _ _ _ happ]
        split <;> rfl
    · cases h

theorem metaEmit_disabled (st : MetaState) (f : Field) (h : st.enabled = false) : metaEmit st f = st := by
  simp [metaEmit, h]

theorem foldl_disabled (fs : List Field) (st : MetaState) (h : st.enabled = false) : fs.foldl metaEmit st = st := by
  induction fs with
  | nil => rfl
  | cons f rest ih => simp only [List.foldl_cons, metaEmit_disabled st f h, ih]

/-- once emission is disabled the callback state no longer changes during `Write`. -/
theorem writeLoopCb_frozen (fuel : Nat) (d : Hpack.DecCore) (buf : List Nat) (st : MetaState)
    (h : st.enabled = false) : (writeLoopCb fuel d buf st).2.1 = st := by
  induction fuel generalizing d buf with
  | zero => rfl
  | succ n ih =>
    unfold writeLoopCb
    split
    · rfl
    split
    · split <;> rfl
    · rfl
    · rename_i d' rest e _
      split
      · cases e with
        | none => exact ih _ _
        | some f => simp only [metaEmit_disabled st _ h]; exact ih _ _
      · rfl

/-- the decoder's `emitEnabled` flag follows the callback state. -/
theorem writeLoopCb_flag (fuel : Nat) (d : Hpack.DecCore) (buf : List Nat) (st : MetaState)
    (h : d.emitEnabled = st.enabled) :
    (writeLoopCb fuel d buf st).1.emitEnabled = (writeLoopCb fuel d buf st).2.1.enabled := by
  induction fuel generalizing d buf st with
  | zero => exact h
  | succ n ih =>
    unfold writeLoopCb
    split
    · exact h
    split
    · split <;> exact h
    · rename_i e d' hp
      simp only [Lemmas.Hpack.afterRepr_emitEnabled]
      -- an erroring representation leaves the flag alone
      have := parseRepr_err_emit d d' buf e hp
      rw [this]; exact h
    · rename_i d' rest e hp
      split
      · exact ih _ _ _ rfl
      · rw [(parseRepr_ok_emit _ _ _ _ _ hp).1]; exact h
theorem writeLoop_em_prefix (par : Bool) (fuel : Nat) (d : Hpack.DecCore) (buf : List Nat) (em : List Hpack.Field) :
    ∃ new, (Hpack.writeLoop par fuel d buf em).2.1 = em ++ new := by
  induction fuel generalizing d buf em with
  | zero => exact ⟨[], by simp [Hpack.writeLoop]⟩
  | succ n ih =>
    unfold Hpack.writeLoop
    split
    · exact ⟨[], by simp⟩
    split
    · split <;> exact ⟨[], by simp⟩
    · exact ⟨[], by simp⟩
    · rename_i d' rest e _
      split
      · obtain ⟨new, hnew⟩ := ih (Hpack.afterRepr buf d') rest (em ++ Hpack.optToList e)
        exact ⟨Hpack.optToList e ++ new, by rw [hnew, List.append_assoc]⟩
      · exact ⟨[], by simp⟩

private theorem core_eta (c : Hpack.DecCore) (h : c.emitEnabled = true) : { c with emitEnabled := true } = c := by
  cases c; simp_all

/-- Lockstep of `Decoder.Write` under the callback with the plain `Hpack.writeLoop` (emission
enabled): the callback state is the fold of the emit callback over the fields the plain decoder
emits, and as long as the callback has not disabled emission the two decoders are identical. -/
theorem writeLoopCb_lockstep (fuel : Nat) (d : Hpack.DecCore) (buf : List Nat) (st : MetaState)
    (em : List Hpack.Field) (hd : d.emitEnabled = true) (hs : st.enabled = true) :
    ∃ new, (Hpack.writeLoop true fuel d buf em).2.1 = em ++ new ∧
      (writeLoopCb fuel d buf st).2.1 = (new.map toField).foldl metaEmit st ∧
      ((writeLoopCb fuel d buf st).2.1.enabled = true →
        (writeLoopCb fuel d buf st).1 = (Hpack.writeLoop true fuel d buf em).1 ∧
        (writeLoopCb fuel d buf st).2.2 = (Hpack.writeLoop true fuel d buf em).2.2) := by
  induction fuel generalizing d buf st em with
  | zero => exact ⟨[], by simp [Hpack.writeLoop, writeLoopCb]⟩
  | succ n ih =>
    unfold Hpack.writeLoop writeLoopCb
    by_cases hb : buf = []
    · exact ⟨[], by simp [hb]⟩
    simp only [hb, ↓reduceIte]
    cases hp : Hpack.parseRepr d buf with
    | needMore =>
      simp only [true_and]
      split <;> exact ⟨[], by simp⟩
    | err e d' => exact ⟨[], by simp⟩
    | ok d' rest e =>
      simp only
      by_cases hl : rest.length < buf.length
      case neg => simp only [hl, ↓reduceIte]; exact ⟨[], by simp⟩
      simp only [hl, ↓reduceIte]
      have hd' : (Hpack.afterRepr buf d').emitEnabled = true := by
        rw [Lemmas.Hpack.afterRepr_emitEnabled, (parseRepr_ok_emit _ _ _ _ _ hp).1, hd]
      have step : ∀ (st1 : MetaState) (el : List Hpack.Field), st1 = (el.map toField).foldl metaEmit st →
          ∃ new, (Hpack.writeLoop true n (Hpack.afterRepr buf d') rest (em ++ el)).2.1 = em ++ new ∧
            (writeLoopCb n { Hpack.afterRepr buf d' with emitEnabled := st1.enabled } rest st1).2.1
              = (new.map toField).foldl metaEmit st ∧
            ((writeLoopCb n { Hpack.afterRepr buf d' with emitEnabled := st1.enabled } rest st1).2.1.enabled = true →
              (writeLoopCb n { Hpack.afterRepr buf d' with emitEnabled := st1.enabled } rest st1).1
                = (Hpack.writeLoop true n (Hpack.afterRepr buf d') rest (em ++ el)).1 ∧
              (writeLoopCb n { Hpack.afterRepr buf d' with emitEnabled := st1.enabled } rest st1).2.2
                = (Hpack.writeLoop true n (Hpack.afterRepr buf d') rest (em ++ el)).2.2) := by
        intro st1 el hfold
        by_cases hen : st1.enabled = true
        · rw [hen, core_eta _ hd']
          obtain ⟨new, h1, h2, h3⟩ := ih (Hpack.afterRepr buf d') rest st1 (em ++ el) hd' hen
          refine ⟨el ++ new, by rw [h1, List.append_assoc], ?_, h3⟩
          rw [h2, hfold, List.map_append, List.foldl_append]
        · have hen' : st1.enabled = false := by simpa using hen
          obtain ⟨new, hnew⟩ := writeLoop_em_prefix true n (Hpack.afterRepr buf d') rest (em ++ el)
          have hfz := writeLoopCb_frozen n { Hpack.afterRepr buf d' with emitEnabled := st1.enabled } rest st1 hen'
          refine ⟨el ++ new, by rw [hnew, List.append_assoc], ?_, ?_⟩
          · rw [hfz, List.map_append, List.foldl_append, ← hfold, foldl_disabled _ _ hen']
          · intro h; rw [hfz] at h; exact absurd h hen
      cases e with
      | none => simpa [Hpack.optToList] using step st [] rfl
      | some f => simpa [Hpack.optToList] using step (metaEmit st (toField f)) [f] rfl
theorem hdecWrite_frozen (d : Hpack.Decoder) (st : MetaState) (p : List Nat) (h : st.enabled = false) :
    (hdecWrite d st p).2.1 = st := by
  unfold hdecWrite
  split
  · rfl
  · have := writeLoopCb_frozen ((d.saveBuf ++ p).length + 1) d.toDecCore (d.saveBuf ++ p) st h
    split <;> (rename_i heq; rw [heq] at this; exact this)

theorem hdecWrite_flag (d : Hpack.Decoder) (st : MetaState) (p : List Nat) (h : d.emitEnabled = st.enabled) :
    (hdecWrite d st p).1.emitEnabled = (hdecWrite d st p).2.1.enabled := by
  unfold hdecWrite
  split
  · exact h
  · have := writeLoopCb_flag ((d.saveBuf ++ p).length + 1) d.toDecCore (d.saveBuf ++ p) st h
    split <;> (rename_i heq; rw [heq] at this; exact this)

theorem finishWrite_em (r : Hpack.DecCore × List Hpack.Field × Hpack.LoopEnd) :
    (Hpack.finishWrite r).2.1 = r.2.1 := by
  unfold Hpack.finishWrite; split <;> rfl

theorem runChunks_cons_em (d : Hpack.Decoder) (frag : List Nat) (frs : List (List Nat)) :
    ∃ more, (Hpack.runChunks true d (frag :: frs)).2.1 = (d.write frag).2.1 ++ more := by
  simp only [Hpack.runChunks]
  have hw' : Hpack.Decoder.writeG true d frag = d.write frag := rfl
  rw [hw']
  generalize d.write frag = W
  obtain ⟨d1, em1, r1⟩ := W
  cases r1 with
  | some e => exact ⟨[], by simp⟩
  | none =>
    simp only
    generalize Hpack.runChunks true d1 frs = R
    obtain ⟨d2, em2, r⟩ := R
    exact ⟨em2, rfl⟩

theorem runChunks_cons_ok (d : Hpack.Decoder) (frag : List Nat) (frs : List (List Nat))
    (h : (d.write frag).2.2 = none) :
    (Hpack.runChunks true d (frag :: frs)).2.1 = (d.write frag).2.1 ++ (Hpack.runChunks true (d.write frag).1 frs).2.1 := by
  simp only [Hpack.runChunks]
  have hw' : Hpack.Decoder.writeG true d frag = d.write frag := rfl
  rw [hw']
  generalize d.write frag = W at h
  obtain ⟨d1, em1, r1⟩ := W
  simp only at h
  subst h
  simp only

/-- One `hdec.Write(frag)` inside `readMetaFrame` against the plain `Hpack.Decoder.write`. -/
theorem hdecWrite_lockstep (d : Hpack.Decoder) (st : MetaState) (p : List Nat)
    (hd : d.emitEnabled = true) (hs : st.enabled = true) :
    (hdecWrite d st p).2.1 = ((d.write p).2.1.map toField).foldl metaEmit st ∧
    ((hdecWrite d st p).2.1.enabled = true →
      (hdecWrite d st p).1 = (d.write p).1 ∧ (hdecWrite d st p).2.2 = (d.write p).2.2.isSome) := by
  unfold hdecWrite Hpack.Decoder.write Hpack.Decoder.writeG
  by_cases hp : p = []
  · simp [hp]
  simp only [hp, ↓reduceIte]
  obtain ⟨new, h1, h2, h3⟩ := writeLoopCb_lockstep ((d.saveBuf ++ p).length + 1) d.toDecCore (d.saveBuf ++ p) st []
    hd hs
  generalize writeLoopCb ((d.saveBuf ++ p).length + 1) d.toDecCore (d.saveBuf ++ p) st = C at h2 h3
  generalize Hpack.writeLoop true ((d.saveBuf ++ p).length + 1) d.toDecCore (d.saveBuf ++ p) [] = E at h1 h3
  obtain ⟨c, st', cend⟩ := C
  obtain ⟨e1, eem, eend⟩ := E
  simp only [List.nil_append] at h1 h2 h3
  subst h1
  rw [finishWrite_em]
  cases cend with
  | saved l =>
    simp only
    refine ⟨h2, fun hen => ?_⟩
    obtain ⟨rfl, rfl⟩ := h3 hen
    simp [Hpack.finishWrite]
  | err e =>
    simp only
    refine ⟨h2, fun hen => ?_⟩
    obtain ⟨rfl, rfl⟩ := h3 hen
    simp [Hpack.finishWrite]

/-- The loop of `readMetaFrame` over actual bytes: the callback state at `break` is the fold of the
emit callback over everything the plain decoder (emission on) emits for the fragments written. -/
theorem metaLoopH_fields (fuel : Nat) (fr : Framer) (d : Hpack.Decoder) (st : MetaState) (frag : List Nat)
    (ended : Bool) (bs : List Nat) (done : List (List Nat)) (out : LoopOut)
    (hflag : d.emitEnabled = st.enabled)
    (h : (metaLoopH fuel fr d st frag ended bs done).1 = .ok out) :
    ∃ frs, out.frags = done ++ frag :: frs ∧
      out.st = (((Hpack.runChunks true d (frag :: frs)).2.1).map toField).foldl metaEmit st := by
  induction fuel generalizing fr d st frag ended bs done with
  | zero => simp [metaLoopH] at h
  | succ n ih =>
    unfold metaLoopH at h
    split at h
    · cases h
    split at h
    · cases h
    have hfl := hdecWrite_flag d st frag hflag
    have hfz := hdecWrite_frozen d st frag
    have hls := hdecWrite_lockstep d st frag
    generalize hdecWrite d st frag = w at h hfl hfz hls
    obtain ⟨d', st', werr⟩ := w
    simp only at h hfl hfz hls
    cases werr with
    | true => simp at h
    | false =>
      simp only [Bool.false_eq_true, ↓reduceIte] at h
      -- what this Write contributes, in both regimes
      have hstep : ∀ frs, (st'.enabled = true → d' = (d.write frag).1 ∧ (d.write frag).2.2 = none) →
          (∀ X, X = (((Hpack.runChunks true d' frs).2.1).map toField).foldl metaEmit st' ∨ st'.enabled = false →
            (st'.enabled = false → X = st') →
            X = (((Hpack.runChunks true d (frag :: frs)).2.1).map toField).foldl metaEmit st) := by
        intro frs hsame X hX hXf
        cases hen : st.enabled with
        | false =>
          have e1 : st' = st := hfz hen
          have hX' : X = st := by
            subst e1
            exact hXf hen
          rw [hX', foldl_disabled _ _ hen]
        | true =>
          have hd : d.emitEnabled = true := by rw [hflag, hen]
          obtain ⟨hl1, hl2⟩ := hls hd hen
          cases hen' : st'.enabled with
          | false =>
            rw [hXf hen']
            have := runChunks_cons_em d frag frs
            obtain ⟨more, hmore⟩ := this
            rw [hmore, List.map_append, List.foldl_append, ← hl1, foldl_disabled _ _ hen']
          | true =>
            obtain ⟨hd', hnone⟩ := hsame hen'
            rcases hX with hX | hX
            · rw [hX, hl1]
              have := runChunks_cons_ok d frag frs hnone
              rw [← hd'] at this
              rw [this, List.map_append, List.foldl_append]
            · rw [hen'] at hX; cases hX
      have hsame : st'.enabled = true → d' = (d.write frag).1 ∧ (d.write frag).2.2 = none := by
        intro hen'
        cases hen : st.enabled with
        | false => rw [hfz hen] at hen'; rw [hen] at hen'; cases hen'
        | true =>
          have hd : d.emitEnabled = true := by rw [hflag, hen]
          obtain ⟨e1, e2⟩ := (hls hd hen).2 hen'
          refine ⟨e1, ?_⟩
          cases hq : (d.write frag).2.2 with
          | none => rfl
          | some e => rw [hq] at e2; simp at e2
      cases ended with
      | true =>
        simp only [↓reduceIte, Except.ok.injEq] at h
        subst h
        refine ⟨[], rfl, ?_⟩
        exact hstep [] hsame st' (by
          cases hen' : st'.enabled with
          | false => exact Or.inr rfl
          | true => exact Or.inl (by simp [Hpack.runChunks])) (fun _ => rfl)
      | false =>
        simp only [Bool.false_eq_true, ↓reduceIte] at h
        cases hres : (readFrame fr bs).res with
        | error e => simp [hres] at h
        | ok f =>
          cases f with
          | continuation hc frag' =>
            simp only [hres] at h
            obtain ⟨frs, hfr, hst⟩ := ih _ d' st' frag' _ _ (done ++ [frag]) hfl h
            refine ⟨frag' :: frs, by rw [hfr]; simp, ?_⟩
            exact hstep (frag' :: frs) hsame out.st (Or.inl hst) (fun hen' => by rw [hst, foldl_disabled _ _ hen'])
          | _ => simp [hres] at h
/-- The MetaHeadersFrame guarantees over actual header-block bytes: for every byte stream, every
limit and every state of the Framer's HPACK decoder (corollary of the general lemma
`readMeta_guarantees` through `readMetaH_abstract`). -/
theorem readMetaH_guarantees (fr : Framer) (mhls : Nat) (hdec : Hpack.Decoder) (bs : List Nat)
    (h : FrameHeader) (prio : PriorityParam) (fields : List Field) (trunc : Bool)
    (hres : (readMetaH fr mhls hdec bs).res = .ok (.metaHeaders h prio fields trunc)) :
    h.length ≤ fr.maxReadSize ∧ h.streamID ≠ 0 ∧
    PseudoFirst fields ∧
    (∀ f ∈ fields, f.isPseudo = true → f.name ∈ pseudoRequest ∨ f.name ∈ pseudoResponse) ∧
    ((fields.filter Field.isPseudo).map (·.name)).Nodup ∧
    ¬ ((∃ f ∈ fields, f.isPseudo = true ∧ f.name ∈ pseudoRequest) ∧
       (∃ f ∈ fields, f.isPseudo = true ∧ f.name ∈ pseudoResponse)) ∧
    (∀ f ∈ fields, FieldOK f) ∧
    sizeSum fields ≤ maxHeaderListSize mhls := by
  obtain ⟨orc, h1, _, _⟩ := readMetaH_abstract fr mhls hdec bs
  exact readMeta_guarantees fr mhls orc bs h prio fields trunc (h1.trans hres)

/-- The fields of a returned MetaHeadersFrame are exactly what `hpack.Decoder.Write` emits, cut off
by the size rule: with `frag` the fragment of the HEADERS frame and `frs` those of the
CONTINUATION frames consumed, and `em` the fields the decoder — as configured by `readMetaFrame`
(emission on, max string length = MaxHeaderListSize), writing the fragments in order — emits,
`Fields`/`Truncated` are the result of running the emit callback over `em`; in particular a frame
not marked Truncated carries all of `em`, unchanged and in order. -/
theorem readMetaH_fields (fr : Framer) (mhls : Nat) (hdec : Hpack.Decoder) (bs : List Nat)
    (h : FrameHeader) (prio : PriorityParam) (fields : List Field) (trunc : Bool)
    (hres : (readMetaH fr mhls hdec bs).res = .ok (.metaHeaders h prio fields trunc)) :
    ∃ frag frs, (readFrame fr bs).res = .ok (.headers h prio frag) ∧
      fields = ((((Hpack.runChunks true (prepDecoder hdec mhls) (frag :: frs)).2.1).map toField).foldl metaEmit
                  { remainSize := maxHeaderListSize mhls }).fields ∧
      trunc = ((((Hpack.runChunks true (prepDecoder hdec mhls) (frag :: frs)).2.1).map toField).foldl metaEmit
                  { remainSize := maxHeaderListSize mhls }).truncated ∧
      (trunc = false → fields = ((Hpack.runChunks true (prepDecoder hdec mhls) (frag :: frs)).2.1).map toField) := by
  unfold readMetaH at hres
  cases hrd : (readFrame fr bs).res with
  | error e => simp [hrd] at hres
  | ok f =>
    cases f with
    | headers h0 prio0 frag =>
      simp only [hrd] at hres
      have hflag : (prepDecoder hdec mhls).emitEnabled = ({ remainSize := maxHeaderListSize mhls } : MetaState).enabled := rfl
      have hf := metaLoopH_fields ((readFrame fr bs).rest.length + 1) (readFrame fr bs).fr (prepDecoder hdec mhls)
        { remainSize := maxHeaderListSize mhls } frag (hasFlag h0.flags flagEndHeaders) (readFrame fr bs).rest []
      generalize metaLoopH ((readFrame fr bs).rest.length + 1) (readFrame fr bs).fr (prepDecoder hdec mhls)
        { remainSize := maxHeaderListSize mhls } frag (hasFlag h0.flags flagEndHeaders) (readFrame fr bs).rest [] = L
        at hres hf
      obtain ⟨r1, d1, fr1, rest1⟩ := L
      cases r1 with
      | error e => simp at hres
      | ok out =>
        obtain ⟨frs, _, hst⟩ := hf out hflag rfl
        simp only at hres
        cases hc : out.hdec.close with
        | mk dcl ce =>
          rw [hc] at hres
          cases ce with
          | some e => simp at hres
          | none =>
            simp only at hres
            by_cases hi : out.st.invalid = true
            · simp [hi] at hres
            by_cases hp : checkPseudos out.st.fields = true
            · simp only [hi, hp, Bool.false_eq_true, ↓reduceIte, Bool.not_true, Except.ok.injEq,
                MFrame.metaHeaders.injEq] at hres
              obtain ⟨rfl, rfl, rfl, rfl⟩ := hres
              refine ⟨frag, frs, rfl, by rw [hst], by rw [hst], ?_⟩
              intro htr
              have h0c : Complete [] ({ remainSize := maxHeaderListSize mhls } : MetaState) := by
                intro _ _; exact ⟨rfl, rfl⟩
              have hcomp := foldl_complete
                (((Hpack.runChunks true (prepDecoder hdec mhls) (frag :: frs)).2.1).map toField) [] _ h0c
              rw [← hst] at hcomp
              simpa using (hcomp htr (by simpa using hi)).2
            · simp [hi, hp] at hres
    | _ => simp [hrd] at hres


/-! ### Truncated only when the header list exceeds the limit -/

/-- the emit callback never sets `Truncated` while the fields offered still fit. -/
theorem foldl_not_truncated (fs : List Field) (st : MetaState) (ht : st.truncated = false)
    (hs : sizeSum fs ≤ st.remainSize) : (fs.foldl metaEmit st).truncated = false := by
  induction fs generalizing st with
  | nil => exact ht
  | cons f rest ih =>
    have hsum : sizeSum (f :: rest) = f.size + sizeSum rest := by simp [sizeSum]
    rw [hsum] at hs
    simp only [List.foldl_cons]
    unfold metaEmit
    cases he : st.enabled with
    | false => simp only [Bool.not_false, ↓reduceIte]; exact ih st ht (by omega)
    | true =>
      by_cases hi : metaInvalid st f = true
      · simp only [hi, Bool.not_true, Bool.false_eq_true, ↓reduceIte]
        exact ih _ ht (by simp only; omega)
      have hsz : ¬ f.size > st.remainSize := by omega
      simp only [hi, hsz, Bool.not_true, Bool.false_eq_true, ↓reduceIte]
      exact ih _ ht (by simp only; omega)

/-- `Truncated` is set only if the header list really exceeds the limit: a returned
MetaHeadersFrame whose decoded header list (everything `hpack.Decoder.Write` emits for the block)
has size ≤ MaxHeaderListSize — in particular size exactly equal to it — is not Truncated and
carries the complete list. -/
theorem readMetaH_truncated_only_if_over (fr : Framer) (mhls : Nat) (hdec : Hpack.Decoder) (bs : List Nat)
    (h : FrameHeader) (prio : PriorityParam) (fields : List Field) (trunc : Bool)
    (hres : (readMetaH fr mhls hdec bs).res = .ok (.metaHeaders h prio fields trunc)) :
    ∃ frag frs, (readFrame fr bs).res = .ok (.headers h prio frag) ∧
      (sizeSum (((Hpack.runChunks true (prepDecoder hdec mhls) (frag :: frs)).2.1).map toField) ≤ maxHeaderListSize mhls →
        trunc = false ∧ fields = ((Hpack.runChunks true (prepDecoder hdec mhls) (frag :: frs)).2.1).map toField) := by
  obtain ⟨frag, frs, h1, _, h3, h4⟩ := readMetaH_fields fr mhls hdec bs h prio fields trunc hres
  refine ⟨frag, frs, h1, fun hle => ?_⟩
  have ht : trunc = false := by
    rw [h3]; exact foldl_not_truncated _ _ rfl hle
  exact ⟨ht, h4 ht⟩

/-- the same for the abstract model: one `hdec.Write` whose fields fit does not truncate. -/
theorem metaWrite_not_truncated (st : MetaState) (d : FragDec) (ht : st.truncated = false)
    (hs : sizeSum d.fields ≤ st.remainSize) : (metaWrite st d).1.truncated = false :=
  foldl_not_truncated _ _ ht hs

/-! ### Non-vacuity -/

/-- HEADERS (stream 1, END_HEADERS) with the block `82 84`: `:method: GET`, `:path: /`. -/
example : (readMetaH newFramer 0 (Hpack.Decoder.new 4096) [0, 0, 2, 1, 4, 0, 0, 0, 1, 130, 132]).res
    = .ok (.metaHeaders ⟨2, 1, 4, 1⟩ {} [⟨[58, 109, 101, 116, 104, 111, 100], [71, 69, 84]⟩, ⟨[58, 112, 97, 116, 104], [47]⟩] false) := by
  rfl

end NetVerif.Proofs.C07
