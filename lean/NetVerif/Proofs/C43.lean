import NetVerif.Model.DavLock
/-!
C43 — WebDAV in-memory locks are mutually exclusive and expire correctly.

Part 1 (this file): the property clauses, proved for ALL histories (any ops, any clock values)
on the specification state machine `Spec` of `Model/DavLock.lean`.
Part 2 (`Proofs/C43Refine.lean`): the implementation model `MemLS` (byName refcount tree,
byToken, expiry heap) refines `Spec` result-for-result.
Both models are compared output-for-output with the real `memLS` by `./check C43`.
-/
namespace NetVerif.Proofs.C43
open NetVerif.Model.DavPath NetVerif.Model.DavLock

/-! ### the invariant -/

/-- `a` does not conflict with a lock shaped like `b`. -/
def Compatible (a b : Lock) : Prop := a.conflicts b.root b.zeroDepth = false

structure Inv (s : Spec) : Prop where
  tok_lt : ∀ l ∈ s.locks, l.token < s.gen
  tok_nodup : (s.locks.map (·.token)).Nodup
  excl : s.locks.Pairwise Compatible

/-- A lock transformer that leaves token, root and depth alone. -/
def SameShape (f : Lock → Lock) : Prop :=
  ∀ x, (f x).token = x.token ∧ (f x).root = x.root ∧ (f x).zeroDepth = x.zeroDepth

theorem isPrefixOf_iff (a b : Name) : a.isPrefixOf b = true ↔ a <+: b := by
  simp

theorem compatible_symm (a b : Lock) (h : Compatible a b) : Compatible b a := by
  unfold Compatible Lock.conflicts at h ⊢
  simp only [Bool.or_eq_false_iff, Bool.and_eq_false_iff] at h ⊢
  obtain ⟨⟨h1, h2⟩, h3⟩ := h
  refine ⟨⟨?_, ?_⟩, ?_⟩
  · simp at h1 ⊢; exact fun e => h1 e.symm
  · exact h3
  · exact h2

theorem pairwise_mem {α} {R : α → α → Prop} (hs : ∀ a b, R a b → R b a) {l : List α}
    (hp : l.Pairwise R) {a b : α} (ha : a ∈ l) (hb : b ∈ l) (hne : a ≠ b) : R a b := by
  induction l with
  | nil => simp at ha
  | cons x xs ih =>
    rw [List.pairwise_cons] at hp
    simp at ha hb
    rcases ha with rfl | ha
    · rcases hb with rfl | hb
      · exact absurd rfl hne
      · exact hp.1 _ hb
    · rcases hb with rfl | hb
      · exact hs _ _ (hp.1 _ ha)
      · exact ih hp.2 ha hb

theorem inv_init : Inv Spec.init := by
  constructor <;> simp [Spec.init]

theorem inv_sublist (s : Spec) (ls : List Lock) (hs' : List (Option (List (Nat × Name))))
    (h : Inv s) (hsub : ls.Sublist s.locks) :
    Inv { locks := ls, gen := s.gen, holds := hs' } := by
  constructor
  · intro l hl; exact h.tok_lt l (hsub.subset hl)
  · exact h.tok_nodup.sublist (hsub.map _)
  · exact h.excl.sublist hsub

theorem inv_map (s : Spec) (f : Lock → Lock) (hs' : List (Option (List (Nat × Name))))
    (hf : SameShape f) (h : Inv s) :
    Inv { locks := s.locks.map f, gen := s.gen, holds := hs' } := by
  constructor
  · intro l hl
    simp at hl
    obtain ⟨x, hx, rfl⟩ := hl
    rw [(hf x).1]; exact h.tok_lt x hx
  · have : (s.locks.map f).map (·.token) = s.locks.map (·.token) := by
      simp [List.map_map, Function.comp_def, fun x => (hf x).1]
    simp only [this]; exact h.tok_nodup
  · simp only
    rw [List.pairwise_map]
    refine h.excl.imp ?_
    intro a b hab
    unfold Compatible Lock.conflicts at hab ⊢
    rw [(hf a).2.1, (hf a).2.2, (hf b).2.1, (hf b).2.2]; exact hab

theorem inv_collect (s : Spec) (now : Int) (h : Inv s) : Inv (s.collect now) :=
  inv_sublist s _ _ h List.filter_sublist

theorem inv_createCore (s : Spec) (now : Int) (root : Name) (zd : Bool) (dur : Int) (h : Inv s) :
    Inv (s.createCore now root zd dur).1 := by
  unfold Spec.createCore
  split
  · exact h
  · rename_i hc
    simp only [Bool.not_eq_true, List.any_eq_false] at hc
    constructor
    · intro l hl
      simp at hl
      rcases hl with hl | rfl
      · exact Nat.lt_succ_of_lt (h.tok_lt l hl)
      · simp
    · simp only [List.map_append, List.map_cons, List.map_nil]
      rw [List.nodup_append]
      refine ⟨h.tok_nodup, by simp, ?_⟩
      intro a ha b hb
      simp at hb; subst hb
      simp at ha
      obtain ⟨l, hl, rfl⟩ := ha
      exact Nat.ne_of_lt (h.tok_lt l hl)
    · simp only
      rw [List.pairwise_append]
      refine ⟨h.excl, by simp, ?_⟩
      intro a ha b hb
      simp at hb; subst hb
      unfold Compatible; simp only
      have := hc a ha
      simpa using this

theorem inv_refreshCore (s : Spec) (now : Int) (tok : Option Nat) (dur : Int) (h : Inv s) :
    Inv (s.refreshCore now tok dur).1 := by
  unfold Spec.refreshCore
  split
  · exact h
  · split
    · exact h
    · apply inv_map s _ _ _ h
      intro x; dsimp only; split <;> simp

theorem inv_unlockCore (s : Spec) (tok : Option Nat) (h : Inv s) : Inv (s.unlockCore tok).1 := by
  unfold Spec.unlockCore
  split
  · exact h
  · split
    · exact h
    · exact inv_sublist s _ _ h List.filter_sublist

theorem sameShape_setHeld (toks : List Nat) (v : Bool) :
    SameShape (fun x : Lock => if toks.contains x.token then { x with held := v } else x) := by
  intro x; dsimp only; split <;> simp

theorem inv_confirmCore (s : Spec) (n0 n1 : Bytes) (toks : List (Option Nat)) (h : Inv s) :
    Inv (s.confirmCore n0 n1 toks).1 := by
  unfold Spec.confirmCore
  split
  · exact h
  · split
    · exact h
    · exact inv_map s _ _ (sameShape_setHeld _ _) h

theorem inv_release (s : Spec) (k : Nat) (h : Inv s) : Inv (s.release k).1 := by
  unfold Spec.release
  split
  · exact inv_map s _ _ (sameShape_setHeld _ _) h
  · exact h

theorem inv_step (s : Spec) (op : Op) (h : Inv s) : Inv (s.step op).1 := by
  cases op with
  | create now root zd dur => exact inv_createCore _ _ _ _ _ (inv_collect s now h)
  | refresh now tok dur => exact inv_refreshCore _ _ _ _ (inv_collect s now h)
  | unlock now tok => exact inv_unlockCore _ _ (inv_collect s now h)
  | confirm now n0 n1 toks => exact inv_confirmCore _ _ _ _ (inv_collect s now h)
  | release k => exact inv_release _ _ h

theorem inv_run (s : Spec) (ops : List Op) (h : Inv s) : Inv (s.run ops).1 := by
  induction ops generalizing s with
  | nil => exact h
  | cons op ops ih =>
    simp only [Spec.run]
    exact ih _ (inv_step s op h)

/-- The invariant holds after every history (any ops, any clock values). -/
theorem inv_reachable (ops : List Op) : Inv (Spec.init.run ops).1 :=
  inv_run _ _ inv_init

/-! ### clause 1 — no two locks of a reachable state cover the same resource -/

theorem covers_iff (a : Lock) (x : Name) :
    a.covers x = true ↔ a.root = x ∨ (a.zeroDepth = false ∧ a.root <+: x) := by
  unfold Lock.covers; simp

theorem conflicts_iff (a : Lock) (root : Name) (zd : Bool) :
    a.conflicts root zd = true ↔
      a.root = root ∨ (zd = false ∧ root <+: a.root) ∨ (a.zeroDepth = false ∧ a.root <+: root) := by
  unfold Lock.conflicts; simp [or_assoc]

/-- Two locks covering a common resource conflict. -/
theorem covers_conflict (a b : Lock) (x : Name) (ha : a.covers x = true) (hb : b.covers x = true) :
    a.conflicts b.root b.zeroDepth = true := by
  rw [covers_iff] at ha hb
  rw [conflicts_iff]
  rcases ha with ha | ⟨ha1, ha2⟩ <;> rcases hb with hb | ⟨hb1, hb2⟩
  · left; rw [ha, hb]
  · right; left; exact ⟨hb1, ha ▸ hb2⟩
  · right; right; exact ⟨ha1, hb ▸ ha2⟩
  · rcases List.prefix_or_prefix_of_prefix ha2 hb2 with h | h
    · right; right; exact ⟨ha1, h⟩
    · right; left; exact ⟨hb1, h⟩

/-- **Mutual exclusion.** In a state satisfying the invariant, a resource is covered by at most
one lock (an infinite-depth lock covers its root and everything below it). This includes locks
that have expired but have not been collected yet, so it is stronger than the property asks. -/
theorem mutual_exclusion (s : Spec) (h : Inv s) (a b : Lock) (ha : a ∈ s.locks) (hb : b ∈ s.locks)
    (x : Name) (hax : a.covers x = true) (hbx : b.covers x = true) : a = b := by
  by_cases hne : a = b
  · exact hne
  · have hc : Compatible a b := pairwise_mem compatible_symm h.excl ha hb hne
    unfold Compatible at hc
    rw [covers_conflict a b x hax hbx] at hc
    exact absurd hc (by simp)

theorem mutual_exclusion_reachable (ops : List Op) (a b : Lock)
    (ha : a ∈ (Spec.init.run ops).1.locks) (hb : b ∈ (Spec.init.run ops).1.locks)
    (x : Name) (hax : a.covers x = true) (hbx : b.covers x = true) : a = b :=
  mutual_exclusion _ (inv_reachable ops) a b ha hb x hax hbx

/-! ### clause 2 — Create succeeds exactly when no live lock conflicts -/

/-- A lock is live at `now` iff it is held, or infinite, or not yet at its expiry. -/
theorem live_iff (l : Lock) (now : Int) :
    l.expired now = false ↔ l.held = true ∨ l.duration < 0 ∨ now < l.expiry := by
  unfold Lock.expired
  simp only [Bool.and_eq_false_iff, Bool.not_eq_false', decide_eq_false_iff_not, Int.not_le, or_assoc]
  
theorem create_result (s : Spec) (now : Int) (raw : Bytes) (zd : Bool) (dur : Int) :
    (s.create now raw zd dur).2 = .errLocked ∨ (s.create now raw zd dur).2 = .created s.gen := by
  unfold Spec.create Spec.createCore
  split
  · left; rfl
  · right; rfl

theorem create_succeeds_iff (s : Spec) (now : Int) (raw : Bytes) (zd : Bool) (dur : Int) :
    (s.create now raw zd dur).2 = .created s.gen ↔
      ∀ l ∈ s.locks, l.expired now = false → l.conflicts (slashCleanComps raw) zd = false := by
  unfold Spec.create Spec.createCore
  split
  · rename_i hc
    simp only [List.any_eq_true] at hc
    obtain ⟨l, hl, hcf⟩ := hc
    simp only [Spec.collect, List.mem_filter, Bool.not_eq_eq_eq_not, Bool.not_true] at hl
    constructor
    · intro h; simp at h
    · intro h; rw [h l hl.1 hl.2] at hcf; simp at hcf
  · rename_i hc
    simp only [Bool.not_eq_true, List.any_eq_false] at hc
    constructor
    · intro _ l hl hlive
      have := hc l (by simp [Spec.collect, hl, hlive])
      simpa using this
    · intro _; rfl

/-- On success the new lock is in the state, unheld, with the requested root/depth/duration. -/
theorem create_adds (s : Spec) (now : Int) (raw : Bytes) (zd : Bool) (dur : Int)
    (h : (s.create now raw zd dur).2 = .created s.gen) :
    { token := s.gen, root := slashCleanComps raw, zeroDepth := zd, duration := dur,
      expiry := newExpiry now dur 0, held := false } ∈ (s.create now raw zd dur).1.locks := by
  unfold Spec.create Spec.createCore at h ⊢
  split
  · rename_i hc; rw [if_pos hc] at h; simp at h
  · simp [Spec.collect]

/-! ### clause 3 — expired unheld locks are inert -/

theorem collect_idem (s : Spec) (now : Int) : (s.collect now).collect now = s.collect now := by
  simp [Spec.collect, List.filter_filter]

/-- The clock value of an op (release has none). -/
def opClock : Op → Option Int
  | .create now _ _ _ => some now
  | .refresh now _ _ => some now
  | .unlock now _ => some now
  | .confirm now _ _ _ => some now
  | .release _ => none

/-- Every op with clock `now` behaves exactly as on the state with all locks that are expired
at `now` erased: such locks neither answer nor block anything. -/
theorem step_ignores_expired (s : Spec) (op : Op) (now : Int) (h : opClock op = some now) :
    s.step op = (s.collect now).step op := by
  cases op <;> simp [opClock] at h <;> subst h <;>
    simp [Spec.step, Spec.create, Spec.refresh, Spec.unlock, Spec.confirm, collect_idem]

theorem tok_inj {ls : List Lock} (hn : (ls.map (·.token)).Nodup) {a b : Lock}
    (ha : a ∈ ls) (hb : b ∈ ls) (hab : a.token = b.token) : a = b := by
  induction ls with
  | nil => simp at ha
  | cons x xs ih =>
    simp only [List.map_cons, List.nodup_cons, List.mem_map, not_exists, not_and] at hn
    simp at ha hb
    rcases ha with rfl | ha <;> rcases hb with rfl | hb
    · rfl
    · exact absurd hab.symm (hn.1 b hb)
    · exact absurd hab (hn.1 a ha)
    · exact ih hn.2 ha hb

theorem findTok_some (s : Spec) (h : Inv s) (l : Lock) (hl : l ∈ s.locks) :
    s.findTok (some l.token) = some l := by
  unfold Spec.findTok
  simp only
  cases hf : s.locks.find? (fun x => x.token == l.token) with
  | none =>
    rw [List.find?_eq_none] at hf
    have := hf l hl
    simp at this
  | some x =>
    have hx := List.mem_of_find?_eq_some hf
    have ht := List.find?_some hf
    simp at ht
    rw [tok_inj h.tok_nodup hx hl ht]

theorem findTok_mem (s : Spec) (t : Option Nat) (l : Lock) (hf : s.findTok t = some l) :
    l ∈ s.locks ∧ t = some l.token := by
  unfold Spec.findTok at hf
  split at hf
  · simp at hf
  · have hx := List.mem_of_find?_eq_some hf
    have ht := List.find?_some hf
    simp at ht
    exact ⟨hx, by rw [ht]⟩

theorem findTok_none_of_expired (s : Spec) (h : Inv s) (l : Lock) (hl : l ∈ s.locks)
    (now : Int) (he : l.expired now = true) : (s.collect now).findTok (some l.token) = none := by
  cases hf : (s.collect now).findTok (some l.token) with
  | none => rfl
  | some x =>
    obtain ⟨hx, ht⟩ := findTok_mem _ _ _ hf
    simp only [Spec.collect, List.mem_filter] at hx
    have : x = l := tok_inj h.tok_nodup hx.1 hl (by simpa using ht.symm)
    subst this
    rw [he] at hx; simp at hx

theorem expired_refresh (s : Spec) (h : Inv s) (l : Lock) (hl : l ∈ s.locks) (now dur : Int)
    (he : l.expired now = true) : (s.refresh now (some l.token) dur).2 = .errNoSuchLock := by
  unfold Spec.refresh Spec.refreshCore
  rw [findTok_none_of_expired s h l hl now he]

theorem expired_unlock (s : Spec) (h : Inv s) (l : Lock) (hl : l ∈ s.locks) (now : Int)
    (he : l.expired now = true) : (s.unlock now (some l.token)).2 = .errNoSuchLock := by
  unfold Spec.unlock Spec.unlockCore
  rw [findTok_none_of_expired s h l hl now he]

/-- What `lookup` returns is an unheld lock of the state that covers the name and whose token
was presented. -/
theorem lookup_sound (s : Spec) (name : Name) (toks : List (Option Nat)) (l : Lock)
    (h : s.lookup name toks = some l) :
    l ∈ s.locks ∧ l.held = false ∧ l.covers name = true ∧ some l.token ∈ toks := by
  induction toks with
  | nil => simp [Spec.lookup] at h
  | cons t ts ih =>
    unfold Spec.lookup at h
    split at h
    · rename_i x hx
      split at h
      · rename_i hc
        simp at h; subst h
        simp at hc
        obtain ⟨hm, ht⟩ := findTok_mem _ _ _ hx
        exact ⟨hm, hc.1, hc.2, by simp [ht]⟩
      · obtain ⟨a, b, c, d⟩ := ih h
        exact ⟨a, b, c, by simp [d]⟩
    · obtain ⟨a, b, c, d⟩ := ih h
      exact ⟨a, b, c, by simp [d]⟩

/-- A Confirm that names a resource and presents only the token of an expired lock fails. -/
theorem expired_confirm (s : Spec) (h : Inv s) (l : Lock) (hl : l ∈ s.locks) (now : Int)
    (he : l.expired now = true) (n0 n1 : Bytes) (hn : n0 ≠ [] ∨ n1 ≠ []) :
    (s.confirm now n0 n1 [some l.token]).2 = .errConfirmationFailed := by
  have hnone : ∀ name, (s.collect now).lookup name [some l.token] = none := by
    intro name
    simp [Spec.lookup, findTok_none_of_expired s h l hl now he]
  unfold Spec.confirm Spec.confirmCore Spec.lookupName
  by_cases h0 : n0 = []
  · have h1 : n1 ≠ [] := by rcases hn with hn | hn; exact absurd h0 hn; exact hn
    simp [h0, h1, hnone]
  · simp [h0, hnone]

theorem setHeld_mem (ls : List Lock) (toks : List Nat) (v : Bool) (l : Lock)
    (hl : l ∈ setHeld ls toks v) :
    ∃ x ∈ ls, l.token = x.token ∧ l.root = x.root ∧ l.zeroDepth = x.zeroDepth := by
  simp only [setHeld, List.mem_map] at hl
  obtain ⟨x, hx, rfl⟩ := hl
  exact ⟨x, hx, sameShape_setHeld toks v x⟩

/-- Tokens only ever enter the state through Create, which uses the fresh counter value:
a token below the counter that is not in the state never comes back. -/
theorem token_gone_step (s : Spec) (op : Op) (t : Nat) (hlt : t < s.gen)
    (hgone : ∀ l ∈ s.locks, l.token ≠ t) :
    t < (s.step op).1.gen ∧ ∀ l ∈ (s.step op).1.locks, l.token ≠ t := by
  have hcol : ∀ now, ∀ l ∈ (s.collect now).locks, l.token ≠ t := by
    intro now l hl
    simp only [Spec.collect, List.mem_filter] at hl
    exact hgone l hl.1
  cases op with
  | create now raw zd dur =>
    simp only [Spec.step, Spec.create, Spec.createCore]
    split
    · exact ⟨hlt, hcol now⟩
    · refine ⟨Nat.lt_succ_of_lt hlt, ?_⟩
      intro l hl
      simp at hl
      rcases hl with hl | rfl
      · exact hcol now l hl
      · simp [Spec.collect]; omega
  | refresh now tok dur =>
    simp only [Spec.step, Spec.refresh, Spec.refreshCore]
    split
    · exact ⟨hlt, hcol now⟩
    · split
      · exact ⟨hlt, hcol now⟩
      · refine ⟨hlt, ?_⟩
        intro l hl
        simp at hl
        obtain ⟨x, hx, rfl⟩ := hl
        have := hcol now x hx
        split <;> simpa using this
  | unlock now tok =>
    simp only [Spec.step, Spec.unlock, Spec.unlockCore]
    split
    · exact ⟨hlt, hcol now⟩
    · split
      · exact ⟨hlt, hcol now⟩
      · refine ⟨hlt, ?_⟩
        intro l hl
        simp only [List.mem_filter] at hl
        exact hcol now l hl.1
  | confirm now n0 n1 toks =>
    simp only [Spec.step, Spec.confirm, Spec.confirmCore]
    split
    · exact ⟨hlt, hcol now⟩
    · split
      · exact ⟨hlt, hcol now⟩
      · refine ⟨hlt, ?_⟩
        intro l hl
        obtain ⟨x, hx, ht, _⟩ := setHeld_mem _ _ _ _ hl
        rw [ht]; exact hcol now x hx
  | release k =>
    simp only [Spec.step, Spec.release]
    split
    · refine ⟨hlt, ?_⟩
      intro l hl
      obtain ⟨x, hx, ht, _⟩ := setHeld_mem _ _ _ _ hl
      rw [ht]; exact hgone x hx
    · exact ⟨hlt, hgone⟩

theorem token_gone_forever (s : Spec) (ops : List Op) (t : Nat) (hlt : t < s.gen)
    (hgone : ∀ l ∈ s.locks, l.token ≠ t) : ∀ l ∈ (s.run ops).1.locks, l.token ≠ t := by
  induction ops generalizing s with
  | nil => exact hgone
  | cons op ops ih =>
    simp only [Spec.run]
    obtain ⟨h1, h2⟩ := token_gone_step s op t hlt hgone
    exact ih _ h1 h2

/-- Once an op at time `now` has run, a lock that was expired at `now` is gone for good
(whatever the later ops and clock values are). -/
theorem expired_gone_forever (s : Spec) (h : Inv s) (l : Lock) (hl : l ∈ s.locks) (op : Op) (now : Int)
    (hc : opClock op = some now) (he : l.expired now = true) (ops : List Op) :
    ∀ x ∈ ((s.step op).1.run ops).1.locks, x.token ≠ l.token := by
  rw [step_ignores_expired s op now hc]
  have hcol : ∀ x ∈ (s.collect now).locks, x.token ≠ l.token := by
    intro x hx heq
    simp only [Spec.collect, List.mem_filter] at hx
    have : x = l := tok_inj h.tok_nodup hx.1 hl heq
    subst this
    rw [he] at hx; simp at hx
  obtain ⟨h1, h2⟩ := token_gone_step (s.collect now) op l.token (h.tok_lt l hl) hcol
  exact token_gone_forever _ ops l.token h1 h2

/-! ### clause 4 — a confirmed (held) lock rejects Confirm / Refresh / Unlock until released -/

theorem held_not_expired (l : Lock) (now : Int) (hh : l.held = true) : l.expired now = false := by
  simp [Lock.expired, hh]

theorem held_mem_collect (s : Spec) (l : Lock) (hl : l ∈ s.locks) (hh : l.held = true)
    (now : Int) : l ∈ (s.collect now).locks := by
  simp [Spec.collect, hl, held_not_expired l now hh]

theorem held_refresh (s : Spec) (h : Inv s) (l : Lock) (hl : l ∈ s.locks) (hh : l.held = true)
    (now dur : Int) : s.refresh now (some l.token) dur = (s.collect now, .errLocked) := by
  unfold Spec.refresh Spec.refreshCore
  rw [findTok_some _ (inv_collect s now h) l (held_mem_collect s l hl hh now)]
  simp [hh]

theorem held_unlock (s : Spec) (h : Inv s) (l : Lock) (hl : l ∈ s.locks) (hh : l.held = true)
    (now : Int) : s.unlock now (some l.token) = (s.collect now, .errLocked) := by
  unfold Spec.unlock Spec.unlockCore
  rw [findTok_some _ (inv_collect s now h) l (held_mem_collect s l hl hh now)]
  simp [hh]

/-- A Confirm that names a resource and presents only the token of a held lock fails. -/
theorem held_confirm (s : Spec) (h : Inv s) (l : Lock) (hl : l ∈ s.locks) (hh : l.held = true)
    (now : Int) (n0 n1 : Bytes) (hn : n0 ≠ [] ∨ n1 ≠ []) :
    s.confirm now n0 n1 [some l.token] = (s.collect now, .errConfirmationFailed) := by
  have hnone : ∀ name, (s.collect now).lookup name [some l.token] = none := by
    intro name
    simp [Spec.lookup, findTok_some _ (inv_collect s now h) l (held_mem_collect s l hl hh now), hh]
  unfold Spec.confirm Spec.confirmCore Spec.lookupName
  by_cases h0 : n0 = []
  · have h1 : n1 ≠ [] := by rcases hn with hn | hn; exact absurd h0 hn; exact hn
    simp [h0, h1, hnone]
  · simp [h0, hnone]

/-- `lookup` finds a lock whenever some presented token names an unheld lock covering the name. -/
theorem lookup_complete (s : Spec) (h : Inv s) (name : Name) (toks : List (Option Nat)) (l : Lock)
    (hl : l ∈ s.locks) (hh : l.held = false) (hc : l.covers name = true) (ht : some l.token ∈ toks) :
    ∃ l', s.lookup name toks = some l' := by
  induction toks with
  | nil => simp at ht
  | cons t ts ih =>
    unfold Spec.lookup
    by_cases hte : t = some l.token
    · subst hte
      rw [findTok_some s h l hl]
      simp [hh, hc]
    · have ht' : some l.token ∈ ts := by
        simp at ht
        rcases ht with ht | ht
        · exact absurd ht.symm hte
        · exact ht
      split
      · split
        · exact ⟨_, rfl⟩
        · exact ih ht'
      · exact ih ht'

/-- Confirm succeeds exactly when every non-empty name is covered by a live, unheld lock whose
token is among the presented conditions. -/
theorem confirm_succeeds_iff (s : Spec) (h : Inv s) (now : Int) (n0 n1 : Bytes) (toks : List (Option Nat)) :
    (s.confirm now n0 n1 toks).2 = .confirmed s.holds.length ↔
      ∀ n, (n = n0 ∨ n = n1) → n ≠ [] →
        ∃ l ∈ s.locks, l.expired now = false ∧ l.held = false ∧
          l.covers (slashCleanComps n) = true ∧ some l.token ∈ toks := by
  have hci := inv_collect s now h
  have key : ∀ n, n ≠ [] → ((s.collect now).lookupName n toks ≠ none ↔
      ∃ l ∈ s.locks, l.expired now = false ∧ l.held = false ∧
          l.covers (slashCleanComps n) = true ∧ some l.token ∈ toks) := by
    intro n hn
    unfold Spec.lookupName
    simp only [hn, if_false]
    constructor
    · intro hne
      cases hlk : (s.collect now).lookup (slashCleanComps n) toks with
      | none => simp [hlk] at hne
      | some l =>
        obtain ⟨a, b, c, d⟩ := lookup_sound _ _ _ _ hlk
        simp only [Spec.collect, List.mem_filter, Bool.not_eq_eq_eq_not, Bool.not_true] at a
        exact ⟨l, a.1, a.2, b, c, d⟩
    · rintro ⟨l, hl, he, hh, hc, ht⟩
      obtain ⟨l', hl'⟩ := lookup_complete _ hci _ toks l (by simp [Spec.collect, hl, he]) hh hc ht
      simp [hl']
  have empty : ∀ n, n = [] → (s.collect now).lookupName n toks = some none := by
    intro n hn; simp [Spec.lookupName, hn]
  unfold Spec.confirm Spec.confirmCore
  constructor
  · intro hres n hn hne
    rw [← key n hne]
    intro hnone
    rcases hn with rfl | rfl
    · rw [hnone] at hres; simp at hres
    · cases h0 : (s.collect now).lookupName n0 toks with
      | none => rw [h0] at hres; simp at hres
      | some x => rw [h0, hnone] at hres; simp at hres
  · intro hall
    have h0 : (s.collect now).lookupName n0 toks ≠ none := by
      by_cases he : n0 = []
      · rw [empty n0 he]; simp
      · exact (key n0 he).mpr (hall n0 (Or.inl rfl) he)
    have h1 : (s.collect now).lookupName n1 toks ≠ none := by
      by_cases he : n1 = []
      · rw [empty n1 he]; simp
      · exact (key n1 he).mpr (hall n1 (Or.inr rfl) he)
    cases hx0 : (s.collect now).lookupName n0 toks with
    | none => exact absurd hx0 h0
    | some x0 =>
      cases hx1 : (s.collect now).lookupName n1 toks with
      | none => exact absurd hx1 h1
      | some x1 => simp [Spec.collect]

/-- After a successful Confirm the lock found for a (non-empty) name is held. -/
theorem confirm_holds (s : Spec) (h : Inv s) (now : Int) (n0 n1 : Bytes) (toks : List (Option Nat)) (k : Nat)
    (hres : (s.confirm now n0 n1 toks).2 = .confirmed k) (n : Bytes) (hn : n = n0 ∨ n = n1) (hne : n ≠ []) :
    ∃ l ∈ (s.confirm now n0 n1 toks).1.locks,
      l.held = true ∧ l.covers (slashCleanComps n) = true ∧ some l.token ∈ toks := by
  unfold Spec.confirm Spec.confirmCore at hres ⊢
  cases hx0 : (s.collect now).lookupName n0 toks with
  | none => rw [hx0] at hres; simp at hres
  | some x0 =>
    cases hx1 : (s.collect now).lookupName n1 toks with
    | none => rw [hx0, hx1] at hres; simp at hres
    | some x1 =>
      simp only
      -- the lock found for `n`
      have hfound : ∃ l, (s.collect now).lookup (slashCleanComps n) toks = some l ∧
          (x0 = some l ∨ x1 = some l) := by
        rcases hn with rfl | rfl
        · unfold Spec.lookupName at hx0
          simp only [hne, if_false] at hx0
          split at hx0
          · rename_i l hl; simp at hx0; exact ⟨l, hl, Or.inl hx0.symm⟩
          · simp at hx0
        · unfold Spec.lookupName at hx1
          simp only [hne, if_false] at hx1
          split at hx1
          · rename_i l hl; simp at hx1; exact ⟨l, hl, Or.inr hx1.symm⟩
          · simp at hx1
      obtain ⟨l, hlk, hor⟩ := hfound
      obtain ⟨hmem, _, hcov, htok⟩ := lookup_sound _ _ _ _ hlk
      refine ⟨{ l with held := true }, ?_, rfl, ?_, htok⟩
      · simp only [setHeld, List.mem_map]
        refine ⟨l, hmem, ?_⟩
        have : (List.map (fun x : Nat × Name => x.1)
            (List.map (fun l : Lock => (l.token, l.root))
              ((if Option.map (fun x => x.token) x1 = Option.map (fun x => x.token) x0 then none
                else x1).toList ++ x0.toList))).contains l.token = true := by
          simp only [List.contains_iff_mem, List.map_map, List.mem_map, List.mem_append,
            Function.comp]
          rcases hor with rfl | rfl
          · exact ⟨l, Or.inr (by simp), rfl⟩
          · by_cases heq : Option.map (fun x => x.token) (some l) = Option.map (fun x => x.token) x0
            · cases x0 with
              | none => simp at heq
              | some y =>
                simp at heq
                exact ⟨y, Or.inr (by simp), heq.symm⟩
            · exact ⟨l, Or.inl (by rw [if_neg heq]; simp), rfl⟩
        rw [if_pos this]
      · simpa [Lock.covers] using hcov

theorem setHeld_fn_held (toks : List Nat) (l : Lock) (hh : l.held = true) :
    ((fun x : Lock => if toks.contains x.token then { x with held := true } else x) l).token = l.token ∧
    ((fun x : Lock => if toks.contains x.token then { x with held := true } else x) l).root = l.root ∧
    ((fun x : Lock => if toks.contains x.token then { x with held := true } else x) l).zeroDepth = l.zeroDepth ∧
    ((fun x : Lock => if toks.contains x.token then { x with held := true } else x) l).held = true := by
  dsimp only; split <;> simp [hh]

/-- A held lock stays in the state, held, with the same token/root/depth, across every op
except the `release` of a hold that contains its token. -/
theorem held_persists (s : Spec) (h : Inv s) (l : Lock) (hl : l ∈ s.locks) (hh : l.held = true)
    (op : Op)
    (hrel : ∀ k hs, op = .release k → s.holds[k]? = some (some hs) → l.token ∉ hs.map (·.1)) :
    ∃ l' ∈ (s.step op).1.locks, l'.token = l.token ∧ l'.root = l.root ∧
      l'.zeroDepth = l.zeroDepth ∧ l'.held = true := by
  cases op with
  | create now raw zd dur =>
    have hm := held_mem_collect s l hl hh now
    refine ⟨l, ?_, rfl, rfl, rfl, hh⟩
    simp only [Spec.step, Spec.create, Spec.createCore]
    split
    · exact hm
    · simp [hm]
  | refresh now tok dur =>
    have hm := held_mem_collect s l hl hh now
    simp only [Spec.step, Spec.refresh, Spec.refreshCore]
    split
    · exact ⟨l, hm, rfl, rfl, rfl, hh⟩
    · split
      · exact ⟨l, hm, rfl, rfl, rfl, hh⟩
      · rename_i l0 _ _
        refine ⟨_, List.mem_map_of_mem (a := l) hm, ?_⟩
        split <;> simp [hh]
  | unlock now tok =>
    have hm := held_mem_collect s l hl hh now
    simp only [Spec.step, Spec.unlock, Spec.unlockCore]
    split
    · exact ⟨l, hm, rfl, rfl, rfl, hh⟩
    · split
      · exact ⟨l, hm, rfl, rfl, rfl, hh⟩
      · rename_i l0 hf hunheld
        refine ⟨l, ?_, rfl, rfl, rfl, hh⟩
        simp only [List.mem_filter, hm, true_and]
        obtain ⟨hm0, _⟩ := findTok_mem _ _ _ hf
        simp only [Bool.not_eq_eq_eq_not, Bool.not_true, beq_eq_false_iff_ne, ne_eq]
        intro heq
        have : l = l0 := tok_inj (inv_collect s now h).tok_nodup hm hm0 heq
        subst this
        exact hunheld hh
  | confirm now n0 n1 toks =>
    have hm := held_mem_collect s l hl hh now
    simp only [Spec.step, Spec.confirm, Spec.confirmCore]
    split
    · exact ⟨l, hm, rfl, rfl, rfl, hh⟩
    · split
      · exact ⟨l, hm, rfl, rfl, rfl, hh⟩
      · exact ⟨_, List.mem_map_of_mem (a := l) hm, setHeld_fn_held _ l hh⟩
  | release k =>
    simp only [Spec.step, Spec.release]
    split
    · rename_i hs hk
      refine ⟨_, List.mem_map_of_mem (a := l) hl, ?_⟩
      have hnot := hrel k hs rfl hk
      have : (hs.map (·.1)).contains l.token = false := by
        simpa [List.contains_iff_mem] using hnot
      rw [if_neg (by rw [this]; simp)]
      exact ⟨rfl, rfl, rfl, hh⟩
    · exact ⟨l, hl, rfl, rfl, rfl, hh⟩

/-- `release k` un-holds exactly the locks of hold `k`. -/
theorem release_unholds (s : Spec) (k : Nat) (hs : List (Nat × Name))
    (hk : s.holds[k]? = some (some hs)) :
    (s.release k).2 = .ok ∧ (s.release k).1.holds[k]? = some none ∧
    ∀ l ∈ (s.release k).1.locks, l.token ∈ hs.map (·.1) → l.held = false := by
  have hlt : k < s.holds.length := by
    rcases Nat.lt_or_ge k s.holds.length with hc | hc
    · exact hc
    · rw [List.getElem?_eq_none hc] at hk
      simp at hk
  unfold Spec.release
  rw [hk]
  refine ⟨rfl, by simp [hlt], ?_⟩
  intro l hl ht
  simp only [setHeld, List.mem_map] at hl
  obtain ⟨x, _, rfl⟩ := hl
  by_cases hc : (hs.map (·.1)).contains x.token = true
  · rw [if_pos hc]
  · rw [if_neg hc] at ht ⊢
    simp [List.contains_iff_mem] at hc
    simp at ht
    obtain ⟨r, hr⟩ := ht
    exact absurd hr (hc r)

/-! ### clause 5 — every token is unique -/

def createdToks : List Res → List Nat
  | [] => []
  | .created t :: rs => t :: createdToks rs
  | _ :: rs => createdToks rs

theorem step_gen (s : Spec) (op : Op) :
    ((s.step op).2 = .created s.gen ∧ (s.step op).1.gen = s.gen + 1) ∨
    ((∀ t, (s.step op).2 ≠ .created t) ∧ (s.step op).1.gen = s.gen) := by
  cases op with
  | create now raw zd dur =>
    simp only [Spec.step, Spec.create, Spec.createCore]
    split
    · right; simp [Spec.collect]
    · left; simp [Spec.collect]
  | refresh now tok dur =>
    right
    simp only [Spec.step, Spec.refresh, Spec.refreshCore]
    split
    · simp [Spec.collect]
    · split <;> simp [Spec.collect]
  | unlock now tok =>
    right
    simp only [Spec.step, Spec.unlock, Spec.unlockCore]
    split
    · simp [Spec.collect]
    · split <;> simp [Spec.collect]
  | confirm now n0 n1 toks =>
    right
    simp only [Spec.step, Spec.confirm, Spec.confirmCore]
    split
    · simp [Spec.collect]
    · split <;> simp [Spec.collect]
  | release k =>
    right
    simp only [Spec.step, Spec.release]
    split <;> simp

/-- The tokens handed out by a history are the consecutive counter values. -/
theorem run_created (s : Spec) (ops : List Op) :
    s.gen ≤ (s.run ops).1.gen ∧
    createdToks (s.run ops).2 = List.range' s.gen ((s.run ops).1.gen - s.gen) := by
  induction ops generalizing s with
  | nil => simp [Spec.run, createdToks]
  | cons op ops ih =>
    simp only [Spec.run]
    obtain ⟨ih1, ih2⟩ := ih (s.step op).1
    rcases step_gen s op with ⟨hr, hg⟩ | ⟨hr, hg⟩
    · rw [hg] at ih1 ih2
      refine ⟨by omega, ?_⟩
      rw [hr]
      simp only [createdToks]
      rw [ih2]
      have : ((s.step op).1.run ops).1.gen - s.gen = ((s.step op).1.run ops).1.gen - (s.gen + 1) + 1 := by
        omega
      rw [this, List.range'_succ]
    · rw [hg] at ih1 ih2
      refine ⟨ih1, ?_⟩
      rw [← ih2]
      cases hres : (s.step op).2 with
      | created t => exact absurd hres (hr t)
      | _ => simp [createdToks]

/-- **Token uniqueness**: no token is ever handed out twice in a history. -/
theorem tokens_unique (ops : List Op) : (createdToks (Spec.init.run ops).2).Nodup := by
  rw [(run_created Spec.init ops).2]
  exact List.nodup_range'

end NetVerif.Proofs.C43
