import NetVerif.Model.H2Norm
import NetVerif.Gen.C14
/-!
C14, part 3 — T-tie: what the model mirrors is what the Go source currently says.
`Gen/C14.lean` is regenerated from /repo on every check. The header-block fragmentation loops are
tied by their (comment-stripped, whitespace-normalised) source text: the model's `splitLoop` /
`headerFrames` were written against exactly this text, so any edit of these functions breaks a
proof here and forces a re-validation of the model. Names and constants are compared by value.
-/
namespace NetVerif.Proofs.C14
open NetVerif NetVerif.Model.H2Frame NetVerif.Model.H2Msg NetVerif.Model.H2Norm

/-- `splitHeaderBlock` (write.go) is the loop `splitLoop`/`headerFrames` model. -/
theorem gen_splitHeaderBlock_src : Gen.C14.splitHeaderBlockSrc =
    "func splitHeaderBlock(ctx writeContext, headerBlock []byte, fn func(ctx writeContext, frag []byte, firstFrag, lastFrag bool) error) error { const maxFrameSize = 16384 first := true for len(headerBlock) > 0 { frag := headerBlock if len(frag) > maxFrameSize { frag = frag[:maxFrameSize] } headerBlock = headerBlock[len(frag):] if err := fn(ctx, frag, first, len(headerBlock) == 0); err != nil { return err } first = false } return nil }" := by
  rfl

/-- `writeResHeaders.writeHeaderBlock`: first fragment HEADERS (END_STREAM = w.endStream,
END_HEADERS = lastFrag), others CONTINUATION (END_HEADERS = lastFrag). -/
theorem gen_writeHeaderBlock_src : Gen.C14.writeHeaderBlockSrc =
    "func (w *writeResHeaders) writeHeaderBlock(ctx writeContext, frag []byte, firstFrag, lastFrag bool) error { if firstFrag { return ctx.Framer().WriteHeaders(HeadersFrameParam{ StreamID: w.streamID, BlockFragment: frag, EndStream: w.endStream, EndHeaders: lastFrag, }) } else { return ctx.Framer().WriteContinuation(w.streamID, lastFrag, frag) } }" := by
  rfl

/-- `ClientConn.writeHeaders` (transport.go): the same loop with the peer's MAX_FRAME_SIZE. -/
theorem gen_clientWriteHeaders_src : Gen.C14.clientWriteHeadersSrc =
    "func (cc *ClientConn) writeHeaders(streamID uint32, endStream bool, maxFrameSize int, hdrs []byte) error { first := true for len(hdrs) > 0 && cc.werr == nil { chunk := hdrs if len(chunk) > maxFrameSize { chunk = chunk[:maxFrameSize] } hdrs = hdrs[len(chunk):] endHeaders := len(hdrs) == 0 if first { cc.fr.WriteHeaders(HeadersFrameParam{ StreamID: streamID, BlockFragment: chunk, EndStream: endStream, EndHeaders: endHeaders, }) first = false } else { cc.fr.WriteContinuation(streamID, endHeaders, chunk) } } cc.bw.Flush() return cc.werr }" := by
  rfl

/-- `clientStream.encodeAndWriteHeaders`: END_STREAM on the request HEADERS iff the request has no
body (`endStream := !res.HasBody`, `Req.earlyEnd`) — announced trailers of a body-less request
are not sent. -/
theorem gen_encodeAndWriteHeaders_src : Gen.C14.encodeAndWriteHeadersSrc =
    "func (cs *clientStream) encodeAndWriteHeaders(req *http.Request) error { cc := cs.cc ctx := cs.ctx cc.wmu.Lock() defer cc.wmu.Unlock() select { case <-cs.abort: return cs.abortErr case <-ctx.Done(): return ctx.Err() case <-cs.reqCancel: return errRequestCanceled default: } cc.hbuf.Reset() res, err := encodeRequestHeaders(req, cs.requestedGzip, cc.peerMaxHeaderListSize, func(name, value string) { cc.writeHeader(name, value) }) if err != nil { return fmt.Errorf(\"http2: %w\", err) } hdrs := cc.hbuf.Bytes() endStream := !res.HasBody cs.sentHeaders = true err = cc.writeHeaders(cs.ID, endStream, int(cc.maxFrameSize), hdrs) traceWroteHeaders(cs.trace) return err }" := by
  rfl

theorem gen_bodyAllowedForStatus_src : Gen.C14.bodyAllowedForStatusSrc =
    "func bodyAllowedForStatus(status int) bool { switch { case status >= 100 && status <= 199: return false case status == 204: return false case status == 304: return false } return true }" := by
  rfl

/-- numeric constants used by the model and the monitor. -/
theorem gen_constants_eq :
    Gen.C14.splitHeaderBlockMaxFrameSize = serverHdrFragmentMax ∧
    Gen.C14.minMaxFrameSize = serverHdrFragmentMax ∧
    Gen.C14.handlerChunkWriteSize = handlerChunkWriteSize ∧
    Gen.C14.frameHeaderLen = frameHeaderLen := by
  decide

/-- the server's fragment size never exceeds what any peer must accept, so the fragmentation
theorems apply with `max = 16384 > 0`. -/
theorem serverHdrFragmentMax_pos : 0 < serverHdrFragmentMax := by decide

/-- the names `EncodeHeaders` special-cases, in source order: replaced (`host`,
`content-length`), connection-specific (never transmitted), then `user-agent`, `cookie`. -/
theorem gen_encodeHeaders_names_eq :
    Gen.C14.encodeHeadersFoldNames.map str = replacedNames ++ connSpecific ++ [str "user-agent", str "cookie"] := by
  decide

theorem gen_forbiddenTrailers_eq :
    Gen.C14.clientForbiddenTrailers.map str = forbiddenTrailer ∧
    Gen.C14.serverForbiddenTrailers.map str = forbiddenTrailer := by
  decide

/-- `shouldSendReqContentLength` for a zero length: exactly the methods in the Go switch. -/
theorem gen_contentLengthMethods_eq (m : Str) :
    shouldSendCL m 0 = (Gen.C14.contentLengthMethods.map str).contains m := by
  simp [shouldSendCL, Gen.C14.contentLengthMethods, Bool.or_assoc]
  by_cases h1 : m = str "POST" <;> by_cases h2 : m = str "PUT" <;> by_cases h3 : m = str "PATCH" <;>
    simp [h1, h2, h3]

/-- SETTINGS_MAX_HEADER_LIST_SIZE: the receiver truncates only when a field does not fit the
remaining budget (`size > remainSize`, `sizeLoop`), the Transport refuses only above the peer's
limit (`clientRefuses`), and the server advertises `MaxHeaderBytes + 10*32`. -/
theorem gen_headerListSize_eq :
    Gen.C14.readMetaFrameSizeCmp = "> remainSize" ∧
    Gen.C14.encodeHeadersSizeCmp = "> param.PeerMaxHeaderListSize" ∧
    Gen.C14.perFieldOverhead = perFieldOverhead ∧ Gen.C14.typicalHeaders = typicalHeaders ∧
    Gen.C14.adjustHTTP1MaxHeaderSizeSrc =
      "func adjustHTTP1MaxHeaderSize(n int64) int64 { const perFieldOverhead = 32 const typicalHeaders = 10 return n + typicalHeaders*perFieldOverhead }" := by
  refine ⟨rfl, rfl, rfl, rfl, rfl⟩

theorem gen_strings_eq :
    str Gen.C14.defaultUserAgent = defaultUserAgent ∧ Gen.C14.trailerPrefix = "Trailer:" := by
  decide

end NetVerif.Proofs.C14
