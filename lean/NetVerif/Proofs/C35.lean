import NetVerif.Model.H3Conn
import NetVerif.Gen.C35
import NetVerif.Proofs.Lemmas.H3Safe
import NetVerif.Proofs.Lemmas.H3BodySpec
/-!
C35 — HTTP/3 stream framing never leaks bytes across frame boundaries.
Model: `Model/H3Stream.lean` (stream.go, settings.go) and `Model/H3Conn.lean` (body.go, conn.go,
control-stream loop of server.go).
-/
namespace NetVerif.Proofs.C35
open NetVerif NetVerif.Model.H3Stream NetVerif.Model.H3Conn NetVerif.Model.Qpack

/-! ### T-tie -/

theorem gen_constants_eq :
    Gen.C35.errH3FrameError = cFrameError ∧ Gen.C35.errH3FrameUnexpected = cFrameUnexpected ∧
    Gen.C35.errH3MissingSettings = cMissingSettings ∧ Gen.C35.errH3SettingsError = cSettingsError ∧
    Gen.C35.errH3ClosedCriticalStream = cClosedCriticalStream ∧ Gen.C35.errH3StreamCreationError = cStreamCreationError ∧
    Gen.C35.errH3InternalError = cInternalError ∧ Gen.C35.errH3IDError = cIDError ∧ Gen.C35.errH3NoError = cNoError ∧
    Gen.C35.errH3MessageError = cMessageError ∧ Gen.C35.errQPACKDecompressionFailed = cQpackDecompressionFailed ∧
    Gen.C35.frameTypeData = 0 ∧ Gen.C35.frameTypeHeaders = 1 ∧ Gen.C35.frameTypeCancelPush = 3 ∧
    Gen.C35.frameTypeSettings = 4 ∧ Gen.C35.frameTypeGoaway = 7 ∧
    Gen.C35.streamTypeControl = 0 ∧ Gen.C35.streamTypePush = 1 := by decide

/-- The case list of `discardUnknownFrame` regenerated from stream.go is the model's. -/
theorem gen_knownFrameTypes_eq (ft : Nat) : knownFrameType ft = Gen.C35.knownFrameTypes.contains ft := by
  unfold knownFrameType Gen.C35.knownFrameTypes
  apply Bool.eq_iff_iff.mpr
  simp
  omega

/-- The reserved-setting list of `readSettings` regenerated from settings.go is the model's. -/
theorem gen_reservedSettings_eq (t : Nat) : reservedSetting t = Gen.C35.reservedSettings.contains t := by
  unfold reservedSetting Gen.C35.reservedSettings
  apply Bool.eq_iff_iff.mpr
  simp
  omega

/-! ### The read limit -/

/-- `recordBytesRead` fails exactly when the read passes the limit; the failure is a connection
error H3_FRAME_ERROR and parks the limit at the end of the frame (so every further read in the
frame fails the same way; `lim` is never negative except for the "no frame" value); success keeps
`lim ≥ 0` inside a frame. -/
theorem recordBytesRead_spec (s : St) (n : Nat) :
    (s.lim < 0 → recordBytesRead s n = .ok () s) ∧
    (0 ≤ s.lim → (n : Int) ≤ s.lim → recordBytesRead s n = .ok () { s with lim := s.lim - n }) ∧
    (0 ≤ s.lim → s.lim < (n : Int) →
      recordBytesRead s n = .err (.conn cFrameError) { s with lim := 0 }) := by
  unfold recordBytesRead
  refine ⟨?_, ?_, ?_⟩
  · intro h; simp [h]
  · intro h1 h2
    have a : ¬ s.lim < 0 := by omega
    have b : ¬ s.lim - (n : Int) < 0 := by omega
    simp [a, b]
  · intro h1 h2
    have a : ¬ s.lim < 0 := by omega
    have b : s.lim - (n : Int) < 0 := by omega
    simp [a, b]

theorem endFrame_spec (s : St) :
    (s.lim = 0 → endFrame s = .ok () { s with lim := -1 }) ∧
    (s.lim ≠ 0 → endFrame s = .err (.conn cFrameError) s) := by
  unfold endFrame
  constructor
  · intro h; simp [h]
  · intro h; simp [h]

/-! ### Over-read and truncation are frame errors -/

/-- Reading a byte at the end of the frame (over-read) is a connection error H3_FRAME_ERROR. -/
theorem readByte_overread (s : St) (h : s.lim = 0) :
    readByte s = .err (.conn cFrameError) { s with lim := 0 } := by
  unfold readByte recordBytesRead
  simp [h]

/-- The stream ending inside a frame is H3_FRAME_ERROR for `ReadByte`. -/
theorem readByte_truncated (s : St) (hl : s.lim > 0) (hd : s.dead = false) (he : s.data = []) :
    readByte s = .err (.plain cFrameError) { s with lim := s.lim - 1 } := by
  unfold readByte recordBytesRead qsReadByte
  have a : ¬ s.lim < 0 := by omega
  have b : ¬ s.lim - ((1 : Nat) : Int) < 0 := by omega
  have c : ¬ s.lim - 1 < 0 := by omega
  simp [a, b, hd, he, c]

/-- The stream ending inside a frame is H3_FRAME_ERROR for `Read` (nothing is delivered). -/
theorem read_truncated (s : St) (k : Nat) (hl : s.lim > 0) (hd : s.dead = false) (he : s.data = []) :
    ∃ s', NetVerif.Model.H3Stream.read s k = .err (.plain cFrameError) s' ∧ s'.lim = s.lim := by
  unfold NetVerif.Model.H3Stream.read qsRead recordBytesRead
  have a : ¬ s.lim < 0 := by omega
  have c : ¬ s.lim = 0 := by omega
  simp [hd, he, a, c, hl]

theorem discardLoop_short : ∀ (n : Nat) (s : St), s.dead = false → n > s.data.length →
    ∃ s', discardLoop n s = .err (.strm cFrameError) s' := by
  intro n
  induction n with
  | zero => intro s _ h; omega
  | succ n ih =>
    intro s hd h
    unfold discardLoop qsReadByte
    cases hdata : s.data with
    | nil => simp [hd]
    | cons b t =>
      simp only [hd, Bool.false_eq_true, if_false]
      exact ih _ rfl (by simp [hdata] at h ⊢; omega)

/-- A frame whose payload is cut short by the end of the stream makes `discardFrame` fail with a
stream error H3_FRAME_ERROR. -/
theorem discardFrame_truncated (s : St) (hd : s.dead = false) (h : s.lim.toNat > s.data.length) :
    ∃ s', discardFrame s = .err (.strm cFrameError) s' := by
  obtain ⟨s', hs⟩ := discardLoop_short s.lim.toNat s hd h
  exact ⟨s', by unfold discardFrame; rw [hs]; rfl⟩

/-! ### Unknown frames are skipped entirely -/

theorem discardLoop_ok : ∀ (n : Nat) (s : St), s.dead = false → n ≤ s.data.length → 0 < n →
    discardLoop n s = .ok () { s with data := s.data.drop n, primed := true } := by
  intro n
  induction n with
  | zero => intro s _ _ h; omega
  | succ n ih =>
    intro s hd h _
    unfold discardLoop qsReadByte
    cases hdata : s.data with
    | nil => simp [hdata] at h
    | cons b t =>
      simp only [hd, Bool.false_eq_true, if_false]
      cases n with
      | zero => simp [discardLoop]
      | succ m =>
        rw [ih _ rfl (by simp [hdata] at h ⊢; omega) (by omega)]
        simp

/-- An unknown frame type that is completely present is skipped entirely: exactly its `lim`
payload bytes are dropped, nothing else is touched, and the stream is back between frames. -/
theorem unknown_frame_skipped (s : St) (ft : Nat) (hk : knownFrameType ft = false) (hd : s.dead = false)
    (hl : 0 < s.lim) (hlen : s.lim.toNat ≤ s.data.length) :
    discardUnknownFrame s ft = .ok () { s with data := s.data.drop s.lim.toNat, primed := true, lim := -1 } := by
  unfold discardUnknownFrame discardFrame
  simp only [hk, Bool.false_eq_true, if_false]
  rw [discardLoop_ok s.lim.toNat s hd hlen (by omega)]
  rfl

/-- An empty unknown frame is skipped without touching the stream. -/
theorem unknown_empty_frame_skipped (s : St) (ft : Nat) (hk : knownFrameType ft = false) (hl : s.lim = 0) :
    discardUnknownFrame s ft = .ok () { s with lim := -1 } := by
  unfold discardUnknownFrame discardFrame
  simp [hk, hl, discardLoop, Out.bind]

/-- A known frame type in an unexpected place is a connection error H3_FRAME_UNEXPECTED. -/
theorem known_frame_unexpected (s : St) (ft : Nat) (hk : knownFrameType ft = true) :
    discardUnknownFrame s ft = .err (.conn cFrameUnexpected) s := by
  unfold discardUnknownFrame; simp [hk]

/-! ### Bytes handed to a body come from the current frame window -/

/-- `Read` only ever returns a prefix of the bytes at the head of the stream, at most `k` of them,
and (inside a frame) at most `lim` of them. -/
theorem read_window (s s' : St) (k : Nat) (bs : List Nat) (eof : Bool) (h : NetVerif.Model.H3Stream.read s k = .ok (bs, eof) s') :
    bs = s.data.take bs.length ∧ bs.length ≤ k ∧ (0 ≤ s.lim → (bs.length : Int) ≤ s.lim) := by
  unfold NetVerif.Model.H3Stream.read qsRead at h
  split at h
  · cases h
  · rename_i bs0 eof0 s1 hq
    have hbs : bs0 = s.data.take bs0.length ∧ bs0.length ≤ k ∧ s1.lim = s.lim := by
      repeat' split at hq
      all_goals simp at hq
      all_goals (obtain ⟨rfl, _, rfl⟩ := hq; simp)
      all_goals (try omega)
    have hrec := recordBytesRead_spec s1 bs0.length
    by_cases hl : s1.lim < 0
    · rw [hrec.1 hl] at h
      simp only at h
      repeat' split at h
      all_goals simp at h
      all_goals (obtain ⟨⟨rfl, _⟩, _⟩ := h)
      all_goals exact ⟨hbs.1, hbs.2.1, by intro h0; rw [← hbs.2.2] at h0; omega⟩
    · by_cases hle : (bs0.length : Int) ≤ s1.lim
      · rw [hrec.2.1 (by omega) hle] at h
        simp only at h
        repeat' split at h
        all_goals simp at h
        all_goals (obtain ⟨⟨rfl, _⟩, _⟩ := h)
        all_goals exact ⟨hbs.1, hbs.2.1, by intro _; rw [← hbs.2.2]; exact hle⟩
      · rw [hrec.2.2 (by omega) (by omega)] at h
        cases h

/-! ### End to end: a body only ever receives DATA payload bytes

`H3BodySpec.dataBytes` splits a byte stream into frames the naive way with the QUIC varint model of
C22 and concatenates the DATA payloads (unknown frames that are completely present are skipped;
the first known non-DATA frame, malformed header or truncated unknown frame ends the body). -/

open NetVerif.Proofs.H3BodySpec in
/-- For every byte stream, every Content-Length state `b`, every read size `k` and any number of
reads, the bytes handed out by `bodyReader.Read` on a stream that is between frames are a prefix of
the concatenated DATA payloads: no byte of a frame header, of an unknown frame, of a HEADERS frame
or of anything after the end of the body ever reaches the body. -/
theorem body_bytes_within_data (H : Huff) (tbl : List (List Nat × List Nat)) (k fuel : Nat) (b : Body)
    (data : List Nat) (hb : Bytes data) :
    (bodyDrain H tbl k fuel b (St.fresh data) []).1 <+: dataBytes data := by
  obtain ⟨out, ho, hp⟩ := bodyDrain_window H tbl k fuel b (St.fresh data) [] rfl hb
  rw [ho]
  simpa [window, St.fresh] using hp

open NetVerif.Proofs.H3BodySpec in
/-- The same from any live stream state, e.g. in the middle of a DATA frame (`window`). -/
theorem body_bytes_within_window (H : Huff) (tbl : List (List Nat × List Nat)) (k fuel : Nat) (b : Body)
    (s : St) (hd : s.dead = false) (hb : Bytes s.data) :
    (bodyDrain H tbl k fuel b s []).1 <+: window s := by
  obtain ⟨out, ho, hp⟩ := bodyDrain_window H tbl k fuel b s [] hd hb
  rw [ho]; simpa using hp

open NetVerif.Proofs.H3BodySpec in
/-- Non-vacuity of the specification: an unknown frame (type 0x21) is skipped, two DATA frames
contribute their payloads. -/
example : dataBytes [0x21, 1, 9, 0, 2, 5, 6, 0, 1, 7] = [5, 6, 7] := by
  rw [dataBytes_some _ [9, 0, 2, 5, 6, 0, 1, 7] 0x21 1 (by decide)]
  simp [NetVerif.Model.H3Stream.knownFrameType]
  rw [dataBytes_some _ [5, 6, 0, 1, 7] 0 2 (by decide)]
  simp
  rw [dataBytes_some _ [7] 0 1 (by decide)]
  simp
  rw [dataBytes]
  split
  · rfl
  · rename_i h; simp [frameHeader, NetVerif.Model.VarintQuic.consumeVarint] at h

def Hid : Huff := { encLen := fun s => s.length, enc := fun s => s, dec := fun s => some s }

/-! ### Hunted defects (repaired upstream unless stated)

* a stream ending between the type and the length of a frame header was a clean `io.EOF`
  (repaired: `readFrameHeader` reports H3_FRAME_ERROR) — `frameHeader_eof_only_at_boundary`;
* frame errors on the control stream only reset the receive-only stream (repaired: connection
  error H3_FRAME_ERROR) — `control_truncated_frame_aborts`;
* `serverConn.parseHeader` rejected unknown frames before HEADERS (repaired: skipped) —
  `parseHeader_skips_unknown`;
* KNOWN FINDING `frame-error-reset-as-internal-error`: a bare `errH3FrameError` reaching
  `handleStreamError` is sent as H3_INTERNAL_ERROR — `frameErrorCode_full_false`. -/

/-- The stream ending right after the frame type (first byte of the length missing) is
H3_FRAME_ERROR, not a clean end of stream. -/
theorem frameHeader_eof_only_at_boundary (s s1 s2 : St) (ft : Nat) (hl : s.lim < 0)
    (h1 : readVarint s = .ok ft s1) (h2 : readVarint s1 = .err .eof s2) :
    readFrameHeader s = .err (.plain cFrameError) s2 := by
  unfold readFrameHeader
  have : ¬ s.lim ≥ 0 := by omega
  simp [this, h1, h2, Out.bind]

example : readFrameHeader (St.fresh [0]) =
    .err (.plain cFrameError) { St.fresh [] with primed := true } := by rfl

/-- Control stream: an unknown frame cut short by the end of the stream, and a frame type varint
cut after its first byte, are connection errors H3_FRAME_ERROR. -/
theorem control_truncated_frame_aborts :
    handleUni (St.fresh [0, 4, 0, 0x21, 0x40, 0x64, 1, 2, 3, 0]) = .abort cFrameError ∧
    handleUni (St.fresh [0, 4, 0, 0x40]) = .abort cFrameError := ⟨by rfl, by rfl⟩

/-- `parseHeader`'s frame loop skips an unknown frame in front of the HEADERS frame. -/
theorem parseHeader_skips_unknown (H : Huff) (tbl : List (List Nat × List Nat)) (fuel : Nat) (s s1 s2 : St) (ft : Nat)
    (h1 : readFrameHeader s = .ok ft s1) (hft : ft ≠ 1) (h2 : discardUnknownFrame s1 ft = .ok () s2) :
    parseHeaderFrames H tbl (fuel + 1) s = parseHeaderFrames H tbl fuel s2 := by
  conv => lhs; unfold parseHeaderFrames
  simp [h1, hft, h2]

/-- "A truncated or over-read frame is reported as an H3_FRAME_ERROR-class failure", at the level
of what the peer is told (RESET_STREAM / CONNECTION_CLOSE code). FALSE today (known finding). -/
def FrameErrorCodeStatement : Prop :=
  ∀ (H : Huff) (tbl : List (List Nat × List Nat)) (k : Nat) (data : List Nat) (s : St),
    (requestHandler H tbl k (St.fresh data)).2 = .err (.plain cFrameError) s →
    (handleRequest H tbl k (St.fresh data)).2 = .reset cFrameError ∨
    (handleRequest H tbl k (St.fresh data)).2 = .abort cFrameError

theorem frameErrorCode_full_false : ¬ FrameErrorCodeStatement := by
  intro h
  have := h Hid [] 4 [1, 5, 0, 0] _ (by rfl)
  rcases this with h | h <;> exact absurd h (by decide)

/-- Outside the region (errors that arrive wrapped) the code is preserved. -/
theorem frameErrorCode_partial (s : St) (c : Nat) :
    handleStreamError s (some (.conn c)) = .abort c ∧
    (s.dead = false → handleStreamError s (some (.strm c)) = .reset c) := by
  unfold handleStreamError
  exact ⟨rfl, fun h => by simp [h]⟩

/-! ### Panics

Before the repair (`fix: internal/http3: keep the QUIC stream after a frame-limit overrun`)
`recordBytesRead` set `st.stream = nil` on an overrun and `handleStreamError` then dereferenced it:
4 bytes (`01 01 ff 00`) on a request stream crashed the process and the statement below was FALSE. -/

/-- "For any bytes on a request, control or other unidirectional stream the implementation never panics." -/
def NoPanicStatement : Prop :=
  ∀ (H : Huff) (tbl : List (List Nat × List Nat)) (k : Nat) (data : List Nat),
    (handleRequest H tbl k (St.fresh data)).2 ≠ .panic ∧ handleUni (St.fresh data) ≠ .panic

open NetVerif.Proofs.H3Safe in
theorem noPanic_holds : NoPanicStatement := by
  intro H tbl k data
  refine ⟨?_, handleUni_no_panic data⟩
  unfold handleRequest
  exact finish_no_panic _ (safe_requestHandler H tbl k _ (good_fresh data))


/-- The old witness (HEADERS frame of declared length 1 whose QPACK prefix integer needs a second
byte) now ends in a stream reset. -/
example : (handleRequest Hid [] 4 (St.fresh [1, 1, 255, 0])).2 = .reset cInternalError := by rfl

/-- No modelled operation kills the stream any more: after any byte sequence the request handler
leaves the QUIC stream in place (so `handleStreamError` can close or reset it). -/
theorem requestHandler_stream_kept (H : Huff) (tbl : List (List Nat × List Nat)) (k : Nat) (data : List Nat) :
    ∀ e s, (requestHandler H tbl k (St.fresh data)).2 = .err e s → s.dead = false := by
  intro e s h
  have := NetVerif.Proofs.H3Safe.safe_requestHandler H tbl k _ (NetVerif.Proofs.H3Safe.good_fresh data)
  rw [h] at this
  exact this.1

/-- Exactly when `handleStreamError` would panic: a nil stream and an error that is not a
`*connectionError` (unreachable by `requestHandler_stream_kept`). -/
theorem handleStreamError_panic_iff (s : St) (e : Option Err) :
    handleStreamError s e = .panic ↔ (s.dead = true ∧ ∀ c, e ≠ some (.conn c)) := by
  unfold handleStreamError
  cases e with
  | none => cases hd : s.dead <;> simp [hd]
  | some e => cases e <;> cases hd : s.dead <;> simp [hd]

end NetVerif.Proofs.C35
