import NetVerif.Model.H3Conn
import NetVerif.Gen.C35
/-! C35 — HTTP/3 stream framing never leaks bytes across frame boundaries. -/
namespace NetVerif.Proofs.C35
open NetVerif NetVerif.Model.H3Stream NetVerif.Model.H3Conn

/-- T-tie: constants, the known-frame list of `discardUnknownFrame`, the reserved settings. -/
theorem gen_constants_eq :
    Gen.C35.errH3FrameError = cFrameError ∧ Gen.C35.errH3FrameUnexpected = cFrameUnexpected ∧
    Gen.C35.errH3MissingSettings = cMissingSettings ∧ Gen.C35.errH3SettingsError = cSettingsError ∧
    Gen.C35.errH3ClosedCriticalStream = cClosedCriticalStream ∧ Gen.C35.errH3StreamCreationError = cStreamCreationError ∧
    Gen.C35.errH3InternalError = cInternalError ∧ Gen.C35.errH3IDError = cIDError ∧ Gen.C35.errH3NoError = cNoError ∧
    Gen.C35.errH3MessageError = cMessageError ∧ Gen.C35.errQPACKDecompressionFailed = cQpackDecompressionFailed ∧
    Gen.C35.frameTypeData = 0 ∧ Gen.C35.frameTypeHeaders = 1 ∧ Gen.C35.frameTypeCancelPush = 3 ∧
    Gen.C35.frameTypeSettings = 4 ∧ Gen.C35.frameTypeGoaway = 7 ∧
    Gen.C35.streamTypeControl = 0 ∧ Gen.C35.streamTypePush = 1 := by decide

end NetVerif.Proofs.C35
