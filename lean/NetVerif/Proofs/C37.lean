import NetVerif.Model.Dns
import NetVerif.Gen.C36
import NetVerif.Proofs.Lemmas.Dns
import NetVerif.Proofs.C36
import NetVerif.Proofs.Lemmas.DnsAccept
import NetVerif.Proofs.Lemmas.DnsTotal
import NetVerif.Proofs.Lemmas.DnsChecked
import NetVerif.Proofs.Lemmas.DnsNoPanic
/-!
C37 — DNS parsing is safe and self-consistent on any input.

For ALL byte strings `msg` and offsets: `Name.unpack` terminates within the pointer budget
(the model's explicit fuel never runs out), decoded names are at most 254 bytes and consist of
labels of 1..63 bytes without '.', the returned offset lies inside the message; `skipName` and
`Name.unpack`, `SkipQuestion`/`Question`, `skipResource`/`resource`, and the whole-message skip
and parse paths advance to the same offsets whenever both succeed; an accepted name re-packs and
re-unpacks to itself; an accepted message is well formed in the sense of C36, hence re-packs and
re-unpacks to an equal message (equal up to the `Length` header fields, as in the package's own
FuzzUnpackPack), with `Message.Pack`'s compression and without (`repack_holds`; false before the
`ptr-depth` repair, the old witness `deepBytes` is kept as an example).
The `Parser` methods and `Message.Unpack` share one model (`Unpack` is defined through the
Parser in Go, and the typed `XResource` methods call the same `unpackX` functions); their
agreement on the real code is checked by the Go-side oracle.
-/
namespace NetVerif.Proofs.C37
open NetVerif NetVerif.Model.Dns NetVerif.Proofs.Dns

theorem gen_limits_eq :
    Gen.C36.nonEncodedNameMax = nameMax ∧ Gen.C36.ptrLimit = ptrLimit ∧
    Gen.C36.svcbRejectsCompressedTarget = true := by decide

/-- **Pointer chains terminate**: with the model's fuel the loop of `Name.unpack` never runs out
of fuel, for every input (at most 127 labels, 10 pointers and one final step are possible). -/
theorem unpackName_terminates (msg : Bytes) (off : Nat) : unpackName msg off ≠ .error .fuel :=
  unpackLoop_no_fuel msg _ _ _ _ _ (by simp) (by omega) (by simp [unpackFuel])

/-- …and any larger fuel gives the same answer (the fuel is not a hidden limit). -/
theorem unpackName_fuel_irrelevant (msg : Bytes) (off k : Nat) :
    unpackLoop msg (unpackFuel + k) off 0 [] off = unpackName msg off :=
  unpackLoop_add msg unpackFuel off 0 [] off (unpackName_terminates msg off) k

/-- **Decoded names**: at most `nonEncodedNameMax` bytes; the root "." or labels of 1..63 bytes
that contain no '.', each followed by '.'. -/
theorem unpackName_shape (msg : Bytes) (off : Nat) (n : Bytes) (o : Nat)
    (h : unpackName msg off = .ok (n, o)) :
    n.length ≤ Gen.C36.nonEncodedNameMax ∧ NameShape n := by
  have := unpackLoop_shape msg unpackFuel off 0 [] off n o (by intro l hl; simp at hl)
    (by simp [textOf]) (by simpa [textOf, unpackName] using h)
  refine ⟨this.1, ?_⟩
  rcases this.2 with ⟨_, h1⟩ | h2
  · exact Or.inl h1
  · exact Or.inr h2

/-- Accepted names are canonical in the sense of C36. -/
theorem unpackName_canonical (msg : Bytes) (off : Nat) (n : Bytes) (o : Nat)
    (h : unpackName msg off = .ok (n, o)) : C36.Canonical n :=
  unpackName_shape msg off n o h

/-- **Accepted names re-pack and re-unpack to themselves.** -/
theorem name_repack_stable (msg : Bytes) (off : Nat) (n : Bytes) (o : Nat)
    (h : unpackName msg off = .ok (n, o)) :
    ∃ bs, packName n [] none = .ok (bs, none) ∧ unpackName bs 0 = .ok (n, bs.length) := by
  rcases C36.name_roundtrip_nocomp n [] (unpackName_canonical msg off n o h) with ⟨bs, hp, hu⟩
  refine ⟨bs, hp, ?_⟩
  simpa using hu [] []

/-! ## Offsets -/

/-- once a pointer has been followed the returned offset is the remembered one -/
theorem unpackLoop_newOff (msg : Bytes) : ∀ (fuel cur ptr : Nat) (name : Bytes) (newOff : Nat) (n : Bytes) (o : Nat),
    ptr ≠ 0 → unpackLoop msg fuel cur ptr name newOff = .ok (n, o) → o = newOff := by
  intro fuel
  induction fuel with
  | zero => intro cur ptr name newOff n o _ h; simp [unpackLoop] at h
  | succ fuel ih =>
    intro cur ptr name newOff n o hp h
    unfold unpackLoop at h
    split at h
    · simp at h
    · split at h
      · split at h
        · simp at h; exact h.2.symm
        · split at h
          · simp at h
          · split at h
            · simp at h
            · split at h
              · simp at h
              · exact ih _ _ _ _ _ _ hp h
      · split at h
        · split at h
          · simp at h
          · split at h
            · simp at h
            · have := ih _ _ _ _ _ _ (by omega) h
              simpa [hp] using this
        · simp at h

theorem drop_cons_lt {msg : Bytes} {cur c : Nat} {rest : Bytes} (h : msg.drop cur = c :: rest) :
    cur + 1 + rest.length = msg.length := by
  have := congrArg List.length h
  simp at this
  omega

/-- The offset returned by `Name.unpack` is inside the message and past `off`. -/
theorem unpackLoop_offset (msg : Bytes) : ∀ (fuel cur : Nat) (name : Bytes) (newOff : Nat) (n : Bytes) (o : Nat),
    unpackLoop msg fuel cur 0 name newOff = .ok (n, o) → cur < o ∧ o ≤ msg.length := by
  intro fuel
  induction fuel with
  | zero => intro cur name newOff n o h; simp [unpackLoop] at h
  | succ fuel ih =>
    intro cur name newOff n o h
    unfold unpackLoop at h
    split at h
    · simp at h
    · rename_i c rest hdrop
      have hlen := drop_cons_lt hdrop
      split at h
      · split at h
        · simp at h; omega
        · split at h
          · simp at h
          · split at h
            · simp at h
            · split at h
              · simp at h
              · have := ih _ _ _ _ _ h
                omega
      · split at h
        · split at h
          · simp at h
          · rename_i c1 rest' 
            split at h
            · simp at h
            · have := unpackLoop_newOff msg _ _ _ _ _ _ _ (by omega) h
              simp at this
              simp at hlen
              omega
        · simp at h

theorem unpackName_offset (msg : Bytes) (off : Nat) (n : Bytes) (o : Nat)
    (h : unpackName msg off = .ok (n, o)) : off < o ∧ o ≤ msg.length :=
  unpackLoop_offset msg _ _ _ _ _ _ h

/-- **skipName and Name.unpack advance equally** whenever both succeed. -/
theorem skipLoop_unpackLoop_agree (msg : Bytes) : ∀ (f1 f2 cur : Nat) (name : Bytes) (newOff : Nat)
    (o1 : Nat) (n : Bytes) (o2 : Nat),
    skipLoop msg f1 cur = .ok o1 → unpackLoop msg f2 cur 0 name newOff = .ok (n, o2) → o1 = o2 := by
  intro f1
  induction f1 with
  | zero => intro f2 cur name newOff o1 n o2 h; simp [skipLoop] at h
  | succ f1 ih =>
    intro f2 cur name newOff o1 n o2 h1 h2
    cases f2 with
    | zero => simp [unpackLoop] at h2
    | succ f2 =>
      unfold skipLoop at h1
      unfold unpackLoop at h2
      split at h1
      · simp at h1
      · rename_i c rest hdrop
        simp only [hdrop] at h2
        split at h1
        · rename_i hc
          simp only [hc, if_true] at h2
          split at h1
          · rename_i hc0
            simp [hc0] at h1 h2
            omega
          · rename_i hc0
            simp only [hc0, if_false] at h2
            split at h1
            · simp at h1
            · rename_i hr
              simp only [hr, if_false] at h2
              split at h2
              · simp at h2
              · split at h2
                · simp at h2
                · exact ih _ _ _ _ _ _ _ h1 h2
        · rename_i hc
          simp only [hc, if_false] at h2
          split at h1
          · rename_i hc3
            simp only [hc3, if_true] at h2
            split at h2
            · simp at h2
            · split at h2
              · simp at h2
              · have := unpackLoop_newOff msg _ _ _ _ _ _ _ (by omega) h2
                simp at this h1
                omega
          · simp at h1

theorem skipName_unpackName_agree (msg : Bytes) (off o1 : Nat) (n : Bytes) (o2 : Nat)
    (h1 : skipName msg off = .ok o1) (h2 : unpackName msg off = .ok (n, o2)) : o1 = o2 :=
  skipLoop_unpackLoop_agree msg _ _ _ _ _ _ _ _ h1 h2

theorem u16At_off {msg : Bytes} {off v o : Nat} (h : u16At msg off = .ok (v, o)) : o = off + 2 := by
  unfold u16At at h
  split at h <;> simp at h
  exact h.2.symm

theorem u32At_off {msg : Bytes} {off v o : Nat} (h : u32At msg off = .ok (v, o)) : o = off + 4 := by
  unfold u32At at h
  split at h <;> simp at h
  exact h.2.symm

theorem skip16_off {msg : Bytes} {off o : Nat} (h : skip16 msg off = .ok o) : o = off + 2 := by
  unfold skip16 at h
  split at h <;> simp at h
  exact h.symm

theorem skip32_off {msg : Bytes} {off o : Nat} (h : skip32 msg off = .ok o) : o = off + 4 := by
  unfold skip32 at h
  split at h <;> simp at h
  exact h.symm

/-- **SkipQuestion and Question advance equally** whenever both succeed. -/
theorem skipQuestion_unpackQuestion_agree (msg : Bytes) (off o1 : Nat) (q : Question) (o2 : Nat)
    (h1 : skipQuestion msg off = .ok o1) (h2 : unpackQuestion msg off = .ok (q, o2)) : o1 = o2 := by
  unfold skipQuestion at h1
  unfold unpackQuestion at h2
  split at h1
  · simp at h1
  · rename_i s1 hs1
    split at h2
    · simp at h2
    · rename_i n u1 hu1
      have e1 := skipName_unpackName_agree msg off s1 n u1 hs1 hu1
      subst e1
      split at h1
      · simp at h1
      · rename_i s2 hs2
        split at h2
        · simp at h2
        · rename_i t u2 hu2
          have e2 := skip16_off hs2
          have e2' := u16At_off hu2
          split at h2
          · simp at h2
          · rename_i c u3 hu3
            have e3 := skip16_off h1
            have e3' := u16At_off hu3
            simp at h2
            omega

/-- **skipResource and Parser.resource advance equally** whenever both succeed (the skip path
reads the same Length field and adds it to the same offset). -/
theorem skipResource_unpackResource_agree (msg : Bytes) (off o1 : Nat) (r : Resource) (o2 : Nat)
    (h1 : skipResource msg off = .ok o1) (h2 : unpackResource msg off = .ok (r, o2)) : o1 = o2 := by
  unfold skipResource at h1
  unfold unpackResource unpackRHeader at h2
  split at h1
  · simp at h1
  · rename_i s1 hs1
    split at h2
    · simp at h2
    · rename_i hd oh hh
      split at hh
      · simp at hh
      · rename_i n u1 hu1
        have e1 := skipName_unpackName_agree msg off s1 n u1 hs1 hu1
        subst e1
        split at h1
        · simp at h1
        · rename_i s2 hs2
          have e2 := skip16_off hs2
          subst e2
          split at h1
          · simp at h1
          · rename_i s3 hs3
            have e3 := skip16_off hs3
            subst e3
            split at h1
            · simp at h1
            · rename_i s4 hs4
              have e4 := skip32_off hs4
              subst e4
              split at h1
              · simp at h1
              · rename_i len s5 hs5
                split at hh
                · simp at hh
                · rename_i t u2 hu2
                  have f2 := u16At_off hu2
                  subst f2
                  split at hh
                  · simp at hh
                  · rename_i c u3 hu3
                    have f3 := u16At_off hu3
                    subst f3
                    split at hh
                    · simp at hh
                    · rename_i ttl u4 hu4
                      have f4 := u32At_off hu4
                      subst f4
                      split at hh
                      · simp at hh
                      · rename_i len' u5 hu5
                        rw [hs5] at hu5
                        simp at hu5
                        split at hh
                        · simp at hh
                        simp at hh
                        rcases hh with ⟨hhd, hoh⟩
                        subst hhd hoh
                        split at h2
                        · simp at h2
                        · simp at h2
                          split at h1
                          · simp at h1
                          · simp at h1
                            rcases hu5 with ⟨hl, hs⟩
                            subst hl hs
                            omega

theorem skipQuestions_agree (msg : Bytes) : ∀ (k off o1 : Nat) (qs : List Question) (o2 : Nat),
    skipQuestions msg k off = .ok o1 → unpackQuestions msg k off = .ok (qs, o2) → o1 = o2 := by
  intro k
  induction k with
  | zero => intro off o1 qs o2 h1 h2; simp [skipQuestions] at h1; simp [unpackQuestions] at h2; omega
  | succ k ih =>
    intro off o1 qs o2 h1 h2
    unfold skipQuestions at h1
    unfold unpackQuestions at h2
    split at h1
    · simp at h1
    · rename_i s hs
      split at h2
      · simp at h2
      · rename_i q u hu
        have := skipQuestion_unpackQuestion_agree msg off s q u hs hu
        subst this
        split at h2
        · simp at h2
        · rename_i qs' u' hu'
          simp at h2
          have := ih _ _ _ _ h1 hu'
          omega

theorem skipResources_agree (msg : Bytes) : ∀ (k off o1 : Nat) (rs : List Resource) (o2 : Nat),
    skipResources msg k off = .ok o1 → unpackResources msg k off = .ok (rs, o2) → o1 = o2 := by
  intro k
  induction k with
  | zero => intro off o1 rs o2 h1 h2; simp [skipResources] at h1; simp [unpackResources] at h2; omega
  | succ k ih =>
    intro off o1 rs o2 h1 h2
    unfold skipResources at h1
    unfold unpackResources at h2
    split at h1
    · simp at h1
    · rename_i s hs
      split at h2
      · simp at h2
      · rename_i r u hu
        have := skipResource_unpackResource_agree msg off s r u hs hu
        subst this
        split at h2
        · simp at h2
        · rename_i rs' u' hu'
          simp at h2
          have := ih _ _ _ _ h1 hu'
          omega

/-- **Whole message**: skipping every record (`SkipAllQuestions` … `SkipAllAdditionals`) and
parsing every record (`Message.Unpack`) end at the same offset whenever both succeed. -/
theorem skipMessage_unpackMessage_agree (msg : Bytes) (o1 : Nat) (m : Message) (o2 : Nat)
    (h1 : skipMessage msg = .ok o1) (h2 : unpackMessageOff msg = .ok (m, o2)) : o1 = o2 := by
  unfold skipMessage at h1
  unfold unpackMessageOff at h2
  split at h1
  · simp at h1
  · rename_i w hw
    simp only [hw] at h2
    split at h1
    · simp at h1
    · rename_i a1 ha1
      split at h2
      · simp at h2
      · rename_i qs b1 hb1
        have e1 := skipQuestions_agree msg _ _ _ _ _ ha1 hb1
        subst e1
        split at h1
        · simp at h1
        · rename_i a2 ha2
          split at h2
          · simp at h2
          · rename_i an b2 hb2
            have e2 := skipResources_agree msg _ _ _ _ _ ha2 hb2
            subst e2
            split at h1
            · simp at h1
            · rename_i a3 ha3
              split at h2
              · simp at h2
              · rename_i au b3 hb3
                have e3 := skipResources_agree msg _ _ _ _ _ ha3 hb3
                subst e3
                split at h2
                · simp at h2
                · rename_i ad b4 hb4
                  simp at h2
                  have := skipResources_agree msg _ _ _ _ _ h1 hb4
                  omega

/-! ## The record-level Parser API under any script -/

theorem walkQuestion_agree (msg : Bytes) (off : Nat) (s : Step) (it : Item) (o1 : Nat) (q : Question) (o2 : Nat)
    (h1 : walkQuestion msg off s = .ok (it, o1)) (h2 : unpackQuestion msg off = .ok (q, o2)) : o1 = o2 := by
  cases s <;> simp only [walkQuestion] at h1
  · rw [h2] at h1; simp at h1; exact h1.2.symm
  · split at h1
    · rename_i o hs; simp at h1
      rw [← h1.2]; exact skipQuestion_unpackQuestion_agree msg off o q o2 hs h2
    · simp at h1
  · rw [h2] at h1; simp at h1; exact h1.2.symm
  · split at h1
    · rename_i o hs; simp at h1
      rw [← h1.2]; exact skipQuestion_unpackQuestion_agree msg off o q o2 hs h2
    · simp at h1

theorem walkResource_agree (msg : Bytes) (off : Nat) (s : Step) (it : Item) (o1 : Nat) (r : Resource) (o2 : Nat)
    (h1 : walkResource msg off s = .ok (it, o1)) (h2 : unpackResource msg off = .ok (r, o2)) : o1 = o2 := by
  cases s <;> simp only [walkResource] at h1
  · rw [h2] at h1; simp at h1; exact h1.2.symm
  · split at h1
    · rename_i o hs; simp at h1
      rw [← h1.2]; exact skipResource_unpackResource_agree msg off o r o2 hs h2
    · simp at h1
  · unfold unpackResource at h2
    split at h1
    · simp at h1
    · rename_i h oh hh
      rw [hh] at h2
      simp only [] at h2
      split at h1
      · simp at h1
      · rename_i b hb
        rw [hb] at h2
        simp at h1 h2
        omega
  · unfold unpackResource at h2
    split at h1
    · simp at h1
    · rename_i h oh hh
      rw [hh] at h2
      simp only [] at h2
      split at h1
      · rename_i o hs
        unfold skipAfterHeader at hs
        split at hs
        · simp at hs
        · simp at hs
          split at h2
          · simp at h2
          · simp at h1 h2
            omega
      · simp at h1

theorem walkQuestions_agree (msg : Bytes) : ∀ (n off : Nat) (sc : List Step) (its : List Item) (o1 : Nat)
    (sc' : List Step) (qs : List Question) (o2 : Nat),
    walkSection walkQuestion msg n off sc = .ok (its, o1, sc') →
    unpackQuestions msg n off = .ok (qs, o2) → o1 = o2 := by
  intro n
  induction n with
  | zero => intro off sc its o1 sc' qs o2 h1 h2; simp [walkSection] at h1; simp [unpackQuestions] at h2; omega
  | succ n ih =>
    intro off sc its o1 sc' qs o2 h1 h2
    unfold walkSection at h1
    unfold unpackQuestions at h2
    split at h1
    · simp at h1
    · rename_i it a ha
      split at h2
      · simp at h2
      · rename_i q b hb
        have := walkQuestion_agree msg off _ it a q b ha hb
        subst this
        split at h1
        · simp at h1
        · rename_i its' a' sc'' ha'
          split at h2
          · simp at h2
          · rename_i qs' b' hb'
            simp at h1 h2
            have := ih _ _ _ _ _ _ _ ha' hb'
            omega

theorem walkResources_agree (msg : Bytes) : ∀ (n off : Nat) (sc : List Step) (its : List Item) (o1 : Nat)
    (sc' : List Step) (rs : List Resource) (o2 : Nat),
    walkSection walkResource msg n off sc = .ok (its, o1, sc') →
    unpackResources msg n off = .ok (rs, o2) → o1 = o2 := by
  intro n
  induction n with
  | zero => intro off sc its o1 sc' rs o2 h1 h2; simp [walkSection] at h1; simp [unpackResources] at h2; omega
  | succ n ih =>
    intro off sc its o1 sc' rs o2 h1 h2
    unfold walkSection at h1
    unfold unpackResources at h2
    split at h1
    · simp at h1
    · rename_i it a ha
      split at h2
      · simp at h2
      · rename_i r b hb
        have := walkResource_agree msg off _ it a r b ha hb
        subst this
        split at h1
        · simp at h1
        · rename_i its' a' sc'' ha'
          split at h2
          · simp at h2
          · rename_i rs' b' hb'
            simp at h1 h2
            have := ih _ _ _ _ _ _ _ ha' hb'
            omega

/-- **Any mixture of parsing, skipping, header+typed-body and header+skip** over the records of a
message ends at the same offset as `Message.Unpack`, whenever both succeed. -/
theorem walkMessage_unpackMessage_agree (msg : Bytes) (sc : List Step) (its : List Item) (o1 : Nat)
    (m : Message) (o2 : Nat)
    (h1 : walkMessage msg sc = .ok (its, o1)) (h2 : unpackMessageOff msg = .ok (m, o2)) : o1 = o2 := by
  unfold walkMessage at h1
  unfold unpackMessageOff at h2
  split at h1
  · simp at h1
  · rename_i w hw
    simp only [hw] at h2
    split at h1
    · simp at h1
    · rename_i i1 a1 s1 ha1
      split at h2
      · simp at h2
      · rename_i qs b1 hb1
        have e1 := walkQuestions_agree msg _ _ _ _ _ _ _ _ ha1 hb1
        subst e1
        split at h1
        · simp at h1
        · rename_i i2 a2 s2 ha2
          split at h2
          · simp at h2
          · rename_i an b2 hb2
            have e2 := walkResources_agree msg _ _ _ _ _ _ _ _ ha2 hb2
            subst e2
            split at h1
            · simp at h1
            · rename_i i3 a3 s3 ha3
              split at h2
              · simp at h2
              · rename_i au b3 hb3
                have e3 := walkResources_agree msg _ _ _ _ _ _ _ _ ha3 hb3
                subst e3
                split at h1
                · simp at h1
                · rename_i i4 a4 s4 ha4
                  split at h2
                  · simp at h2
                  · rename_i ad b4 hb4
                    simp at h1 h2
                    have := walkResources_agree msg _ _ _ _ _ _ _ _ ha4 hb4
                    omega

/-- With the all-parse script the record-level API is `Message.Unpack` (same offset). -/
theorem walkMessage_parse_offset (msg : Bytes) (m : Message) (o : Nat)
    (h : unpackMessageOff msg = .ok (m, o)) (its : List Item) (o' : Nat)
    (hw : walkMessage msg [] = .ok (its, o')) : o' = o :=
  walkMessage_unpackMessage_agree msg [] its o' m o hw h

/-! ## What a successful Skip guarantees -/

/-- where `Name.unpack` succeeds, `skipName` succeeds too, at the same offset (it validates less) -/
theorem unpackLoop_skipLoop (msg : Bytes) : ∀ (f2 f1 cur : Nat) (name : Bytes) (newOff : Nat) (n : Bytes) (o : Nat),
    unpackLoop msg f2 cur 0 name newOff = .ok (n, o) → msg.length - cur < f1 →
    skipLoop msg f1 cur = .ok o := by
  intro f2
  induction f2 with
  | zero => intro f1 cur name newOff n o h; simp [unpackLoop] at h
  | succ f2 ih =>
    intro f1 cur name newOff n o h hf
    cases f1 with
    | zero => omega
    | succ f1 =>
      unfold unpackLoop at h
      unfold skipLoop
      split at h
      · simp at h
      · rename_i c rest hdrop
        have hlen := drop_cons_lt hdrop
        try simp only [hdrop]
        split at h
        · rename_i hc
          simp only [hc, if_true]
          split at h
          · rename_i hc0
            simp [hc0] at h ⊢
            exact h.2
          · rename_i hc0
            simp only [hc0, if_false]
            split at h
            · simp at h
            · rename_i hr
              simp only [hr, if_false]
              split at h
              · simp at h
              · split at h
                · simp at h
                · exact ih _ _ _ _ _ _ h (by omega)
        · rename_i hc
          simp only [hc, if_false]
          split at h
          · rename_i hc3
            simp only [hc3, if_true]
            split at h
            · simp at h
            · split at h
              · simp at h
              · have := unpackLoop_newOff msg _ _ _ _ _ _ _ (by omega) h
                simp at this
                simp [this]
          · simp at h

theorem unpackName_skipName (msg : Bytes) (off : Nat) (n : Bytes) (o : Nat)
    (h : unpackName msg off = .ok (n, o)) : skipName msg off = .ok o :=
  unpackLoop_skipLoop msg _ _ _ _ _ _ _ h (by omega)

theorem u16At_skip16 {msg : Bytes} {off v o : Nat} (h : u16At msg off = .ok (v, o)) :
    skip16 msg off = .ok o := by
  have hb := NetVerif.Proofs.DnsTotal.u16At_bound h
  unfold skip16
  have : ¬ off + 2 > msg.length := by omega
  simp [this, hb.1]

theorem u32At_skip32 {msg : Bytes} {off v o : Nat} (h : u32At msg off = .ok (v, o)) :
    skip32 msg off = .ok o := by
  unfold u32At at h
  split at h
  · rename_i a b c d rest hd
    have := congrArg List.length hd
    simp at this h
    unfold skip32
    have hle : ¬ off + 4 > msg.length := by omega
    simp [hle]; omega
  · simp at h

/-- **A successful skip stays inside the message** (both skip paths check RDLENGTH against the
bytes that remain). -/
theorem skipResource_in_bounds (msg : Bytes) (off o : Nat) (h : skipResource msg off = .ok o) :
    o ≤ msg.length := by
  unfold skipResource at h
  split at h
  · simp at h
  · split at h
    · simp at h
    · split at h
      · simp at h
      · split at h
        · simp at h
        · split at h
          · simp at h
          · split at h
            · simp at h
            · simp at h; omega

/-- **`XHeader()` followed by `SkipX()` may succeed only if the plain `SkipX()` succeeds on the
same record, and then both end at the same offset, inside the message.** -/
theorem headerSkip_implies_skip (msg : Bytes) (off : Nat) (it : Item) (o : Nat)
    (h : walkResource msg off .headerSkip = .ok (it, o)) :
    skipResource msg off = .ok o ∧ o ≤ msg.length := by
  simp only [walkResource] at h
  split at h
  · simp at h
  · rename_i hd oh hh
    split at h
    · rename_i o' hs
      simp at h
      rcases h with ⟨_, rfl⟩
      unfold skipAfterHeader at hs
      split at hs
      · simp at hs
      · rename_i hbound
        simp at hs
        subst hs
        unfold unpackRHeader at hh
        split at hh
        · simp at hh
        · rename_i n o1 h1
          split at hh
          · simp at hh
          · rename_i t o2 h2
            split at hh
            · simp at hh
            · rename_i c o3 h3
              split at hh
              · simp at hh
              · rename_i ttl o4 h4
                split at hh
                · simp at hh
                · rename_i len o5 h5
                  split at hh
                  · simp at hh
                  simp at hh
                  rcases hh with ⟨rfl, rfl⟩
                  refine ⟨?_, by omega⟩
                  simp only [skipResource, unpackName_skipName msg off n o1 h1, u16At_skip16 h2,
                    u16At_skip16 h3, u32At_skip32 h4, h5]
                  simp at hbound ⊢
                  omega
    · simp at h

/-- **Where `Parser.resource` (and the typed `XResource` methods after `XHeader`) succeeds,
`SkipX` succeeds and advances to the same position, inside the message** - the clause "Skip
methods advance to the same position as the corresponding parse methods" in the direction
parse ⇒ skip (since the rdlength-overrun repair: `Parser.resourceHeader` checks RDLENGTH against
the message; the converse fails by design - skipping validates neither names nor bodies). -/
theorem parse_implies_skip (msg : Bytes) (off : Nat) (r : Resource) (o : Nat)
    (h : unpackResource msg off = .ok (r, o)) : skipResource msg off = .ok o ∧ o ≤ msg.length := by
  unfold unpackResource at h
  split at h
  · simp at h
  · rename_i hd oh hh
    split at h
    · simp at h
    · rename_i b hb
      simp at h
      rcases h with ⟨_, rfl⟩
      have hw : walkResource msg off .headerSkip = .ok (.h hd, oh + hd.length) := by
        have hbound : ¬ (oh + hd.length > msg.length) := by
          unfold unpackRHeader at hh
          repeat' (split at hh <;> try (simp at hh; done))
          simp at hh
          rcases hh with ⟨rfl, rfl⟩
          assumption
        simp [walkResource, hh, skipAfterHeader, hbound]
      exact headerSkip_implies_skip msg off _ _ hw

/-! ## Every loop of the reader terminates -/

/-- **`Message.Unpack` terminates on every input**: none of the fuelled loops of the model
(names, TXT strings, OPT options, SVCB parameters - given fuel `len(msg)+1`, `Length+1`) can run
out of fuel, so the model's answer is always a genuine result or a genuine dnsmessage error. -/
theorem unpackMessage_terminates (msg : Bytes) : unpackMessage msg ≠ .error .fuel :=
  NetVerif.Proofs.DnsTotal.unpackMessage_noFuel msg

/-- the same for a single record at any offset (`Parser.resource`, typed `XResource` methods) -/
theorem unpackResource_terminates (msg : Bytes) (off : Nat) : unpackResource msg off ≠ .error .fuel :=
  NetVerif.Proofs.DnsTotal.unpackResource_noFuel msg off

/-! ## Accepted messages re-pack and re-unpack -/

open NetVerif.Proofs.DnsAccept NetVerif.Proofs.DnsMsg

/-- **What `Message.Unpack` accepts is well formed** (every name canonical, every field within
its Go type, `Type` fields consistent with the bodies). -/
theorem unpack_accepts_wellformed (b : Bytes) (m : Message) (hb : BytesWF b)
    (hu : unpackMessage b = .ok m) : WFMessage m ∧ TypesConsistent m :=
  unpackMessage_wf hb hu

/-- C37, re-pack clause at full strength (for `Message.Pack`). -/
def RepackStatement : Prop :=
  ∀ (b : Bytes) (m : Message) (b' : Bytes), BytesWF b → unpackMessage b = .ok m →
    packMessage m = .ok b' → ∃ m', unpackMessage b' = .ok m' ∧ eraseLens m' = eraseLens m

/-- **Re-pack stability**: an accepted message that `Pack` packs (it does unless a body or section exceeds
the wire limits) unpacks again to an equal message. -/
theorem repack_holds : RepackStatement := by
  intro b m b' hb hu hp
  rcases unpackMessage_wf hb hu with ⟨hwf, ht⟩
  rcases C36.message_roundtrip m b' hwf hp with ⟨l1, l2, l3, h1, h2, h3, h⟩
  exact ⟨_, h, eraseLens_norm m l1 l2 l3 ht h1 h2 h3⟩

/-- The same for a re-pack without compression. -/
theorem repack_nocomp (b : Bytes) (m : Message) (b' : Bytes) (hb : BytesWF b)
    (hu : unpackMessage b = .ok m) (hp : packMessageWith m none = .ok b') :
    ∃ m', unpackMessage b' = .ok m' ∧ eraseLens m' = eraseLens m := by
  rcases unpackMessage_wf hb hu with ⟨hwf, ht⟩
  rcases C36.message_roundtrip_nocomp m b' hwf hp with ⟨l1, l2, l3, h1, h2, h3, h⟩
  exact ⟨_, h, eraseLens_norm m l1 l2 l3 ht h1 h2 h3⟩

/-- the old witness of finding `ptr-depth`: the twelve-nested-questions message, packed without
compression; `Unpack` accepts it … -/
def deepBytes : Bytes := (packMessageWith C36.deepMessage none).toOption.getD []

theorem deepBytes_wf : BytesWF deepBytes := by unfold BytesWF; decide +kernel

theorem deepBytes_accepted : unpackMessage deepBytes = .ok C36.deepMessage := by decide +kernel

/-- … and its re-pack (compression on) now unpacks to the same message. -/
example : ∃ b' m', packMessage C36.deepMessage = .ok b' ∧ unpackMessage b' = .ok m' ∧
    eraseLens m' = eraseLens C36.deepMessage := by
  rcases C36.deepMessage_ok with ⟨b', hp, _⟩
  rcases repack_holds deepBytes C36.deepMessage b' deepBytes_wf deepBytes_accepted hp with ⟨m', h1, h2⟩
  exact ⟨b', m', hp, h1, h2⟩

/-- **An accepted TXT body fills its record exactly**: the strings that `unpackTXTResource` returns
take `Length` bytes when packed again (a string may not run past RDLENGTH, not even by the length
octet). -/
theorem txtLoop_exact (msg : Bytes) (length : Nat) : ∀ (fuel off n : Nat) (ss : List Bytes),
    txtLoop msg length fuel off n = .ok ss → n ≤ length →
    n + (ss.map (fun s => s.length + 1)).sum = length := by
  intro fuel
  induction fuel with
  | zero => intro off n ss h; simp [txtLoop] at h
  | succ fuel ih =>
    intro off n ss h hle
    unfold txtLoop at h
    split at h
    · split at h
      · simp at h
      · rename_i t off' ht
        split at h
        · simp at h
        · rename_i hchk
          split at h
          · rename_i ts hrec
            simp at h
            subst h
            have := ih _ _ _ hrec (by omega)
            simp only [List.map_cons, List.sum_cons]
            omega
          · simp at h
    · simp at h
      subst h
      simp; omega

/-- OPT options stay inside their record (the `repack-ResTooLong` repair): an accepted OPT body
re-packs to at most the record's declared Length. -/
theorem optLoop_within (msg : Bytes) (e : Nat) : ∀ (fuel off : Nat) (os : List (Nat × Bytes)),
    optLoop msg e fuel off = .ok os → off ≤ e → off + (packOpts os).length ≤ e := by
  intro fuel
  induction fuel with
  | zero => intro off os h; simp [optLoop] at h
  | succ fuel ih =>
    intro off os h hle
    unfold optLoop at h
    split at h
    · split at h
      · simp at h
      · rename_i code off1 h1
        split at h
        · simp at h
        · rename_i l off2 h2
          have b1 := u16At_off h1
          have b2 := u16At_off h2
          split at h
          · simp at h
          · rename_i hin
            split at h
            · simp at h
            · rename_i hlen
              split at h
              · rename_i os' hrec
                simp at h
                subst h
                have := ih _ _ hrec (by omega)
                have hl : ((msg.drop off2).take l).length = l := by
                  rw [List.length_take, List.length_drop]; omega
                simp [packOpts, u16, hl] at this ⊢
                omega
              · simp at h
    · simp at h
      subst h
      simp [packOpts]; omega

/-! ## Go panic freedom

`Model/DnsChecked.lean` is the reader once more with every Go index / slice / sub-slice expression
behind a CHECKED primitive (`getC` = `msg[i]`, `sliceC` = `msg[a:b]`, outcome `Err.panic` when out of
range) and exactly the guards of the Go code in front of them. For ALL byte strings, offsets and
scripts: the twin never yields `Err.panic`, and it is equal to the model. -/

open NetVerif.Proofs.DnsChecked NetVerif.Proofs.DnsNoPanic in
/-- **`Message.Unpack` never panics** (checked twin; also for a single record / question / name at
any offset: what the typed Parser methods run). -/
theorem unpack_never_panics (msg : Bytes) (off typ len : Nat) :
    unpackMessageC msg ≠ .error .panic ∧ unpackResourceC msg off ≠ .error .panic ∧
    unpackQuestionC msg off ≠ .error .panic ∧ unpackRHeaderC msg off ≠ .error .panic ∧
    unpackBodyC msg off typ len ≠ .error .panic ∧ unpackNameC msg off ≠ .error .panic := by
  rw [unpackMessageC_eq, unpackResourceC_eq, unpackQuestionC_eq, unpackRHeaderC_eq, unpackBodyC_eq, unpackNameC_eq]
  exact ⟨unpackMessage_noPanic msg, unpackResource_noPanic msg off, unpackQuestion_noPanic msg off,
    unpackRHeader_noPanic msg off, unpackBody_noPanic msg off typ len, unpackName_noPanic msg off⟩

open NetVerif.Proofs.DnsChecked NetVerif.Proofs.DnsNoPanic in
/-- **The Skip paths never panic**: `SkipAll*` over a whole message, `SkipQuestion`, `skipResource`,
`skipName` at any offset. -/
theorem skip_never_panics (msg : Bytes) (off : Nat) :
    skipMessageC msg ≠ .error .panic ∧ skipResourceC msg off ≠ .error .panic ∧
    skipQuestionC msg off ≠ .error .panic ∧ skipNameC msg off ≠ .error .panic := by
  rw [skipMessageC_eq, skipResourceC_eq, skipQuestionC_eq, skipNameC_eq]
  exact ⟨skipMessage_noPanic msg, skipResource_noPanic msg off, skipQuestion_noPanic msg off,
    skipLoop_noPanic msg _ off⟩

open NetVerif.Proofs.DnsChecked NetVerif.Proofs.DnsNoPanic in
/-- **The record-level Parser API never panics**, whatever mixture of `X()`, `SkipX()`,
`XHeader()`+typed `XResource()` and `XHeader()`+`SkipX()` is applied to the records, and each of
these on a single record at ANY offset (which covers calls made in any parser state: a call in
the wrong section returns ErrNotStarted / ErrSectionDone before it touches the message). -/
theorem parser_never_panics (msg : Bytes) (sc : List Step) (off : Nat) (s : Step) :
    walkMessageC msg sc ≠ .error .panic ∧ walkResourceC msg off s ≠ .error .panic ∧
    walkQuestionC msg off s ≠ .error .panic := by
  rw [walkMessageC_eq, walkResourceC_eq, walkQuestionC_eq]
  exact ⟨walkMessage_noPanic msg sc, walkResource_noPanic msg off s, walkQuestion_noPanic msg off s⟩

open NetVerif.Proofs.DnsChecked in
/-- the checked twin is the model -/
theorem checked_twin_eq (msg : Bytes) (sc : List Step) (off : Nat) :
    unpackMessageC msg = unpackMessage msg ∧ skipMessageC msg = skipMessage msg ∧
    walkMessageC msg sc = walkMessage msg sc ∧ unpackNameC msg off = unpackName msg off ∧
    skipNameC msg off = skipName msg off :=
  ⟨unpackMessageC_eq msg, skipMessageC_eq msg, walkMessageC_eq msg sc, unpackNameC_eq msg off, skipNameC_eq msg off⟩

open NetVerif.Proofs.DnsChecked in
/-- **Decoded names are at most 254 (< 255) bytes** - unconditionally, on the checked twin. -/
theorem name_len_le_255 (msg : Bytes) (off : Nat) (n : Bytes) (o : Nat)
    (h : unpackNameC msg off = .ok (n, o)) : n.length ≤ 254 ∧ n.length < 255 := by
  rw [unpackNameC_eq] at h
  have := (unpackName_shape msg off n o h).1
  have e : Gen.C36.nonEncodedNameMax = 254 := rfl
  omega

open NetVerif.Proofs.DnsChecked in
/-- **Pointer chains terminate** - unconditionally, on the checked twin: the loop never runs out of
fuel, whatever the pointers point at (loops, the last byte, beyond the end). -/
theorem ptr_chain_terminates (msg : Bytes) (off : Nat) : unpackNameC msg off ≠ .error .fuel := by
  rw [unpackNameC_eq]; exact unpackName_terminates msg off

end NetVerif.Proofs.C37
