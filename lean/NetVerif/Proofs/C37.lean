import NetVerif.Model.Dns
import NetVerif.Gen.C36
/-!
C37 — DNS parsing is safe and self-consistent on any input.
-/
namespace NetVerif.Proofs.C37
open NetVerif NetVerif.Model.Dns

theorem gen_limits_eq :
    Gen.C36.nonEncodedNameMax = nameMax ∧ Gen.C36.ptrLimit = ptrLimit := by decide

end NetVerif.Proofs.C37
