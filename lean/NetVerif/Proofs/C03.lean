import NetVerif.Proofs.Lemmas.Hpack
/-!
C03 — HPACK decoding is independent of how a header block is split into `Write` calls.

Model: `NetVerif.Model.Hpack` (`Decoder.write` with `saveBuf` resumption exactly as coded,
including the `len(buf) > 2*(maxStrLen+varIntOverhead)` "paranoia" branch of `Decoder.Write`).

* `WriteSplitStatement` — the property at full strength (all decoders between blocks, all
  blocks, all partitions): same emitted fields, same decoder state, same success/failure.
* `write_split_full_false` — it is **false** for the code as it is: `maxStrLen = 127`, one
  275-byte literal with two 10-byte over-long length varints; one `Write` succeeds, a split at
  271 fails with `ErrStringLength` (the paranoia bound is 270).
* `write_split_partial` — it holds whenever the paranoia branch is not taken in either run
  (the decidable excluded region: a run ends with `PErr.strLenParanoia`; the Go oracle reports
  exactly this region under the signature `c03-savebuf-bound`). Equality is exact: also the
  error kind and the saved bytes agree.
* `write_split_ideal` — without the bound (`paranoia := false`) independence is unconditional;
  `real_eq_ideal` — the code agrees with that ideal decoder unless the bound fires.
-/
namespace NetVerif.Proofs.C03
open NetVerif.Model.Hpack
open NetVerif.Proofs.Lemmas.Hpack
open NetVerif.Model

/-- Bytes kept between Writes are always something the loop would keep again. -/
def SaveInv (d : Decoder) : Prop :=
  ∀ em, loopG false d.toDecCore d.saveBuf em = (d.toDecCore, em, .saved d.saveBuf)

theorem saveInv_of_nil (d : Decoder) (h : d.saveBuf = []) : SaveInv d := by
  intro em
  rw [h, loopG_eq]
  simp

theorem writeG_eq (par : Bool) (d : Decoder) (p : Bytes) (hp : p ≠ []) :
    d.writeG par p = finishWrite (loopG par d.toDecCore (d.saveBuf ++ p) []) := by
  unfold Decoder.writeG loopG
  simp [hp]

theorem finishWrite_emits (d1 : DecCore) (em1 em2 : List Field) (e : LoopEnd) :
    finishWrite (d1, em1 ++ em2, e) =
      ((finishWrite (d1, em2, e)).1, em1 ++ (finishWrite (d1, em2, e)).2.1, (finishWrite (d1, em2, e)).2.2) := by
  unfold finishWrite
  cases e <;> rfl

/-- The ideal decoder fed chunk by chunk computes the loop over the concatenation. -/
theorem runChunks_ideal : ∀ (cs : List Bytes) (d : Decoder), SaveInv d →
    runChunks false d cs = finishWrite (loopG false d.toDecCore (d.saveBuf ++ cs.flatten) []) := by
  intro cs
  induction cs with
  | nil =>
    intro d hinv
    simp only [runChunks, List.flatten_nil, List.append_nil]
    rw [hinv []]
    rfl
  | cons c cs ih =>
    intro d hinv
    by_cases hc : c = []
    · subst hc
      simp only [runChunks, Decoder.writeG, ↓reduceIte, List.flatten_cons, List.nil_append]
      rw [ih d hinv]
    · simp only [runChunks, List.flatten_cons]
      rw [writeG_eq false d c hc, ← List.append_assoc]
      have happ := loopI_append cs.flatten (d.saveBuf ++ c).length (d.saveBuf ++ c) d.toDecCore [] (Nat.le_refl _)
      cases hl : loopG false d.toDecCore (d.saveBuf ++ c) [] with
      | mk d1 r =>
        obtain ⟨em1, e⟩ := r
        cases e with
        | err e =>
          rw [happ.2 d1 em1 e hl]
          rfl
        | saved l =>
          rw [happ.1 d1 em1 l hl]
          have hinv1 : SaveInv { toDecCore := d1, saveBuf := l } := by
            intro em'
            exact loopI_saved_idem _ _ _ _ (Nat.le_refl _) d1 em1 l hl em'
          have := ih { toDecCore := d1, saveBuf := l } hinv1
          show (match runChunks false { toDecCore := d1, saveBuf := l } cs with
            | (d2, em2, r) => (d2, em1 ++ em2, r)) = _
          rw [this, loopG_emits false _ _ _ em1 (Nat.le_refl _), finishWrite_emits]

/-- **Split independence of the decoder without the saveBuf bound** (exact equality of state,
emitted fields and result, for every partition). -/
theorem write_split_ideal (d : Decoder) (chunks : List Bytes) (h : d.saveBuf = []) :
    runWritesG false d chunks = runWritesG false d [chunks.flatten] := by
  unfold runWritesG
  rw [runChunks_ideal chunks d (saveInv_of_nil d h), runChunks_ideal [chunks.flatten] d (saveInv_of_nil d h)]
  simp

theorem writeG_real_ideal (d : Decoder) (p : Bytes)
    (h : (d.writeG true p).2.2 ≠ some .strLenParanoia) : d.writeG false p = d.writeG true p := by
  unfold Decoder.writeG at h ⊢
  by_cases hp : p = []
  · simp [hp]
  · simp only [hp, ↓reduceIte] at h ⊢
    rw [writeLoop_real_ideal]
    intro hcon
    apply h
    unfold finishWrite
    rw [hcon]

/-- The code as it is agrees with the ideal decoder unless the saveBuf bound fires. -/
theorem real_eq_ideal : ∀ (chunks : List Bytes) (d : Decoder),
    (runChunks true d chunks).2.2 ≠ some .strLenParanoia →
      runChunks false d chunks = runChunks true d chunks := by
  intro cs
  induction cs with
  | nil => intro d _; rfl
  | cons c cs ih =>
    intro d h
    simp only [runChunks] at h ⊢
    cases hw : d.writeG true c with
    | mk d1 r =>
      obtain ⟨em1, e⟩ := r
      rw [hw] at h
      cases e with
      | some e =>
        simp only at h
        rw [writeG_real_ideal d c (by rw [hw]; exact h), hw]
      | none =>
        simp only at h
        rw [writeG_real_ideal d c (by rw [hw]; simp), hw]
        simp only
        rw [ih d1 h]

theorem runWrites_real_ideal (d : Decoder) (chunks : List Bytes)
    (h : (runWrites d chunks).2.2 ≠ some .strLenParanoia) :
    runWritesG false d chunks = runWrites d chunks := by
  unfold runWrites runWritesG at h ⊢
  have : (runChunks true d chunks).2.2 ≠ some .strLenParanoia := by
    intro hcon
    apply h
    cases hr : runChunks true d chunks with
    | mk d1 r =>
      obtain ⟨em, e⟩ := r
      rw [hr] at hcon
      simp only at hcon
      subst hcon
      rfl
  rw [real_eq_ideal chunks d this]

/-- The property, at full strength. -/
def WriteSplitStatement : Prop :=
  ∀ (d : Decoder) (chunks : List Bytes), d.saveBuf = [] →
    let a := runWrites d chunks
    let b := runWrites d [chunks.flatten]
    a.2.1 = b.2.1 ∧ a.1 = b.1 ∧ (a.2.2.isNone = b.2.2.isNone)

/-- **C03 for the code as it is, outside the excluded region**: if the saveBuf bound fires in
neither run, splitting changes nothing (exact equality, including the error kind). -/
theorem write_split_partial (d : Decoder) (chunks : List Bytes) (h : d.saveBuf = [])
    (h1 : (runWrites d chunks).2.2 ≠ some .strLenParanoia)
    (h2 : (runWrites d [chunks.flatten]).2.2 ≠ some .strLenParanoia) :
    runWrites d chunks = runWrites d [chunks.flatten] := by
  rw [← runWrites_real_ideal d chunks h1, ← runWrites_real_ideal d [chunks.flatten] h2]
  exact write_split_ideal d chunks h

/-- The regenerated constant of `Decoder.Write` the finding is about (a change breaks this obligation
and the witness below is re-evaluated against the new bound). -/
theorem varIntOverhead_eq : Gen.HpackStatic.varIntOverhead = 8 ∧ paranoiaBound 127 = 270 := by decide

/-! ### The witness -/

def witnessVarint : Bytes := [127, 128, 128, 128, 128, 128, 128, 128, 128, 0]

/-- literal without indexing, new name: 1 + 10 + 127 + 10 + 127 = 275 bytes. -/
def witnessBlock : Bytes :=
  [0] ++ witnessVarint ++ List.replicate 127 110 ++ witnessVarint ++ List.replicate 127 118

def witnessDecoder : Decoder := (Decoder.new 4096).setMaxStringLength 127

theorem witness_one_write :
    (runWrites witnessDecoder [witnessBlock]).2.2 = none ∧
    (runWrites witnessDecoder [witnessBlock]).2.1 =
      [{ name := List.replicate 127 110, value := List.replicate 127 118, sensitive := false }] := by
  decide +kernel

theorem witness_split :
    (runWrites witnessDecoder [witnessBlock.take 271, witnessBlock.drop 271]).2.2 = some .strLenParanoia ∧
    (runWrites witnessDecoder [witnessBlock.take 271, witnessBlock.drop 271]).2.1 = [] := by
  decide +kernel

/-- **The full statement is false for the code as it is.** -/
theorem write_split_full_false : ¬ WriteSplitStatement := by
  intro h
  have := h witnessDecoder [witnessBlock.take 271, witnessBlock.drop 271] rfl
  simp only [List.flatten_cons, List.flatten_nil, List.append_nil, List.take_append_drop] at this
  have h1 := witness_one_write
  have h2 := witness_split
  rw [h2.2, h1.2] at this
  exact absurd this.1 (by simp)

/-! ### Non-vacuity -/

/-- The hypotheses of `write_split_partial` are satisfiable by a non-trivial split block
(two fields, split inside the second one; one of them enters the dynamic table). -/
example :
    let d := (Decoder.new 4096).setMaxStringLength 10
    let b : Bytes := [0x82, 0x40, 0x01, 0x61, 0x02, 0x62, 0x63]
    d.saveBuf = [] ∧
    (runWrites d [b.take 3, b.drop 3]).2.2 = none ∧
    (runWrites d [b]).2.2 = none ∧
    (runWrites d [b]).2.1.length = 2 ∧ (runWrites d [b]).1.dyn.ents = [([0x61], [0x62, 0x63])] := by
  decide +kernel

end NetVerif.Proofs.C03
