import NetVerif.Proofs.Lemmas.Hpack
import NetVerif.Proofs.C02
/-!
C03 — HPACK decoding is independent of how a header block is split into `Write` calls.

Model: `NetVerif.Model.Hpack` (`Decoder.write` with `saveBuf` resumption exactly as coded,
including the `len(buf) > 2*(maxStrLen+varIntOverhead)` "paranoia" branch of `Decoder.Write`).

* `write_split` / `write_split_statement` — **the property at full strength** (all decoders between
  blocks, all blocks, all partitions): exactly the same emitted fields, decoder state and result.
* `needMore_length_le` — an incomplete representation prefix is at most `2·maxStrLen + 20` bytes;
  with the repaired constant `varIntOverhead = 10` (`varIntOverhead_eq`, regenerated from
  `Decoder.Write`) the saveBuf bound is exactly that, so its branch is dead
  (`writeLoop_paranoia_dead`). Before the repair (`varIntOverhead = 8`) the statement was false:
  `maxStrLen = 127`, a 275-byte literal with two 10-byte over-long length varints, split at 271
  (kept as `witness_regression`, which now satisfies the statement, and in `corpus/C03`).
* `write_split_ideal`, `real_eq_ideal`, `write_split_partial` — the bound-independent parts: the
  decoder without the bound is split independent, and the code equals it unless the bound fires.
-/
namespace NetVerif.Proofs.C03
open NetVerif.Model.Hpack
open NetVerif.Proofs.Lemmas.Hpack
open NetVerif.Model

/-- Bytes kept between Writes are always something the loop would keep again. -/
def SaveInv (d : Decoder) : Prop :=
  ∀ em, loopG false d.toDecCore d.saveBuf em = (d.toDecCore, em, .saved d.saveBuf)

theorem saveInv_of_nil (d : Decoder) (h : d.saveBuf = []) : SaveInv d := by
  intro em
  rw [h, loopG_eq]
  simp

theorem writeG_eq (par : Bool) (d : Decoder) (p : Bytes) (hp : p ≠ []) :
    d.writeG par p = finishWrite (loopG par d.toDecCore (d.saveBuf ++ p) []) := by
  unfold Decoder.writeG loopG
  simp [hp]

theorem finishWrite_emits (d1 : DecCore) (em1 em2 : List Field) (e : LoopEnd) :
    finishWrite (d1, em1 ++ em2, e) =
      ((finishWrite (d1, em2, e)).1, em1 ++ (finishWrite (d1, em2, e)).2.1, (finishWrite (d1, em2, e)).2.2) := by
  unfold finishWrite
  cases e <;> rfl

/-- The ideal decoder fed chunk by chunk computes the loop over the concatenation. -/
theorem runChunks_ideal : ∀ (cs : List Bytes) (d : Decoder), SaveInv d →
    runChunks false d cs = finishWrite (loopG false d.toDecCore (d.saveBuf ++ cs.flatten) []) := by
  intro cs
  induction cs with
  | nil =>
    intro d hinv
    simp only [runChunks, List.flatten_nil, List.append_nil]
    rw [hinv []]
    rfl
  | cons c cs ih =>
    intro d hinv
    by_cases hc : c = []
    · subst hc
      simp only [runChunks, Decoder.writeG, ↓reduceIte, List.flatten_cons, List.nil_append]
      rw [ih d hinv]
    · simp only [runChunks, List.flatten_cons]
      rw [writeG_eq false d c hc, ← List.append_assoc]
      have happ := loopI_append cs.flatten (d.saveBuf ++ c).length (d.saveBuf ++ c) d.toDecCore [] (Nat.le_refl _)
      cases hl : loopG false d.toDecCore (d.saveBuf ++ c) [] with
      | mk d1 r =>
        obtain ⟨em1, e⟩ := r
        cases e with
        | err e =>
          rw [happ.2 d1 em1 e hl]
          rfl
        | saved l =>
          rw [happ.1 d1 em1 l hl]
          have hinv1 : SaveInv { toDecCore := d1, saveBuf := l } := by
            intro em'
            exact loopI_saved_idem _ _ _ _ (Nat.le_refl _) d1 em1 l hl em'
          have := ih { toDecCore := d1, saveBuf := l } hinv1
          show (match runChunks false { toDecCore := d1, saveBuf := l } cs with
            | (d2, em2, r) => (d2, em1 ++ em2, r)) = _
          rw [this, loopG_emits false _ _ _ em1 (Nat.le_refl _), finishWrite_emits]

/-- **Split independence of the decoder without the saveBuf bound** (exact equality of state,
emitted fields and result, for every partition). -/
theorem write_split_ideal (d : Decoder) (chunks : List Bytes) (h : d.saveBuf = []) :
    runWritesG false d chunks = runWritesG false d [chunks.flatten] := by
  unfold runWritesG
  rw [runChunks_ideal chunks d (saveInv_of_nil d h), runChunks_ideal [chunks.flatten] d (saveInv_of_nil d h)]
  simp

theorem writeG_real_ideal (d : Decoder) (p : Bytes)
    (h : (d.writeG true p).2.2 ≠ some .strLenParanoia) : d.writeG false p = d.writeG true p := by
  unfold Decoder.writeG at h ⊢
  by_cases hp : p = []
  · simp [hp]
  · simp only [hp, ↓reduceIte] at h ⊢
    rw [writeLoop_real_ideal]
    intro hcon
    apply h
    unfold finishWrite
    rw [hcon]

/-- The code as it is agrees with the ideal decoder unless the saveBuf bound fires. -/
theorem real_eq_ideal : ∀ (chunks : List Bytes) (d : Decoder),
    (runChunks true d chunks).2.2 ≠ some .strLenParanoia →
      runChunks false d chunks = runChunks true d chunks := by
  intro cs
  induction cs with
  | nil => intro d _; rfl
  | cons c cs ih =>
    intro d h
    simp only [runChunks] at h ⊢
    cases hw : d.writeG true c with
    | mk d1 r =>
      obtain ⟨em1, e⟩ := r
      rw [hw] at h
      cases e with
      | some e =>
        simp only at h
        rw [writeG_real_ideal d c (by rw [hw]; exact h), hw]
      | none =>
        simp only at h
        rw [writeG_real_ideal d c (by rw [hw]; simp), hw]
        simp only
        rw [ih d1 h]

theorem runWrites_real_ideal (d : Decoder) (chunks : List Bytes)
    (h : (runWrites d chunks).2.2 ≠ some .strLenParanoia) :
    runWritesG false d chunks = runWrites d chunks := by
  unfold runWrites runWritesG at h ⊢
  have : (runChunks true d chunks).2.2 ≠ some .strLenParanoia := by
    intro hcon
    apply h
    cases hr : runChunks true d chunks with
    | mk d1 r =>
      obtain ⟨em, e⟩ := r
      rw [hr] at hcon
      simp only at hcon
      subst hcon
      rfl
  rw [real_eq_ideal chunks d this]

/-- The property, at full strength. -/
def WriteSplitStatement : Prop :=
  ∀ (d : Decoder) (chunks : List Bytes), d.saveBuf = [] →
    let a := runWrites d chunks
    let b := runWrites d [chunks.flatten]
    a.2.1 = b.2.1 ∧ a.1 = b.1 ∧ (a.2.2.isNone = b.2.2.isNone)

/-- **C03 for the code as it is, outside the excluded region**: if the saveBuf bound fires in
neither run, splitting changes nothing (exact equality, including the error kind). -/
theorem write_split_partial (d : Decoder) (chunks : List Bytes) (h : d.saveBuf = [])
    (h1 : (runWrites d chunks).2.2 ≠ some .strLenParanoia)
    (h2 : (runWrites d [chunks.flatten]).2.2 ≠ some .strLenParanoia) :
    runWrites d chunks = runWrites d [chunks.flatten] := by
  rw [← runWrites_real_ideal d chunks h1, ← runWrites_real_ideal d [chunks.flatten] h2]
  exact write_split_ideal d chunks h

/-! ### The longest incomplete representation, and why the saveBuf bound can no longer fire

`parseRepr d buf = needMore` (an incomplete representation) implies `buf.length ≤ 2·maxStrLen + 20`:
a literal with a literal name is 1 byte + (≤ 10-byte length + ≤ maxStrLen bytes) twice; with an
indexed name ≤ 10 + 10 + maxStrLen; indexed fields and size updates ≤ 10. The repaired bound
`2·(maxStrLen + varIntOverhead)` with `varIntOverhead = 10` is exactly that, so the branch is dead. -/

theorem readVarIntLoop_needMore : ∀ (p : Bytes) (i m : Nat), m ≤ 56 → m % 7 = 0 →
    readVarIntLoop p i m = .error .needMore → p.length ≤ (62 - m) / 7 := by
  intro p
  induction p with
  | nil => intros; simp
  | cons b p ih =>
    intro i m hm hm7 h
    simp only [readVarIntLoop] at h
    split at h
    · simp at h
    · split at h
      · simp at h
      · have := ih _ (m + 7) (by omega) (by omega) h
        simp only [List.length_cons]
        omega

/-- An incomplete integer has at most 9 bytes. -/
theorem readVarInt_needMore (n : Nat) (buf : Bytes) (h : readVarInt n buf = .error .needMore) :
    buf.length ≤ 9 := by
  cases buf with
  | nil => simp
  | cons b p =>
    simp only [readVarInt] at h
    generalize (if n < 8 then b % 2 ^ n else b) = i at h
    split at h
    · simp at h
    · have := readVarIntLoop_needMore p i 0 (by omega) (by omega) h
      simp only [List.length_cons]
      omega

theorem readVarIntLoop_ge : ∀ (p : Bytes) (i m v : Nat) (rest : Bytes),
    readVarIntLoop p i m = .ok (v, rest) → i ≤ v := by
  intro p
  induction p with
  | nil => intro i m v rest h; simp [readVarIntLoop] at h
  | cons b p ih =>
    intro i m v rest h
    simp only [readVarIntLoop] at h
    split at h
    · simp only [Except.ok.injEq, Prod.mk.injEq] at h; omega
    · split at h
      · simp at h
      · have := ih _ _ _ _ h; omega

/-- The integer 0 is always a single byte (there is no over-long zero). -/
theorem readVarInt_zero (n : Nat) (hn : 1 ≤ n) (buf rest : Bytes) (h : readVarInt n buf = .ok (0, rest)) :
    buf.length = rest.length + 1 := by
  cases buf with
  | nil => simp [readVarInt] at h
  | cons b p =>
    simp only [readVarInt] at h
    generalize (if n < 8 then b % 2 ^ n else b) = i at h
    split at h
    · simp only [Except.ok.injEq, Prod.mk.injEq] at h
      rw [← h.2]; simp
    · have := readVarIntLoop_ge p i 0 0 rest h
      have h2 : 2 ^ 1 ≤ 2 ^ n := Nat.pow_le_pow_right (by omega) hn
      omega

def NeedLe {α : Type} (B : Nat) (p : Parser α) : Prop := ∀ buf, p buf = .error .needMore → buf.length ≤ B
def ConsLe {α : Type} (C : Nat) (p : Parser α) : Prop := ∀ buf a rest, p buf = .ok (a, rest) → buf.length ≤ rest.length + C
def NoNeed {α : Type} (p : Parser α) : Prop := ∀ buf, p buf ≠ .error .needMore

theorem noNeed_pure {α : Type} (a : α) : NoNeed (Parser.pure a) := by
  intro buf h; simp [Parser.pure] at h

theorem noNeed_fail {α : Type} (e : PErr) (he : e ≠ .needMore) : NoNeed (Parser.fail e : Parser α) := by
  intro buf h
  simp only [Parser.fail, Except.error.injEq] at h
  exact he h

theorem needLe_bind_noNeed {α β : Type} (B : Nat) (p : Parser α) (f : α → Parser β)
    (hp : NeedLe B p) (hf : ∀ a, NoNeed (f a)) : NeedLe B (p.bind f) := by
  intro buf h
  simp only [Parser.bind] at h
  cases hpb : p buf with
  | error e => rw [hpb] at h; simp only [Except.error.injEq] at h; subst h; exact hp buf hpb
  | ok ar =>
    obtain ⟨a, r⟩ := ar
    rw [hpb] at h
    exact absurd h (hf a r)

theorem needLe_bind {α β : Type} (Bp Cp Bf : Nat) (p : Parser α) (f : α → Parser β)
    (hp : NeedLe Bp p) (hc : ConsLe Cp p) (hf : ∀ a, NeedLe Bf (f a)) :
    NeedLe (max Bp (Cp + Bf)) (p.bind f) := by
  intro buf h
  simp only [Parser.bind] at h
  cases hpb : p buf with
  | error e =>
    rw [hpb] at h; simp only [Except.error.injEq] at h; subst h
    have := hp buf hpb
    omega
  | ok ar =>
    obtain ⟨a, r⟩ := ar
    rw [hpb] at h
    have h1 := hc buf a r hpb
    have h2 := hf a r h
    omega

theorem needLe_readString (m : Nat) (hm : m ≠ 0) : NeedLe (m + 9) (readString m) := by
  intro buf h
  cases buf with
  | nil => simp
  | cons b0 p =>
    simp only [readString] at h
    cases hr : readVarInt 7 (b0 :: p) with
    | error e =>
      rw [hr] at h
      simp only [Except.error.injEq] at h
      subst h
      have := readVarInt_needMore 7 _ hr
      omega
    | ok ar =>
      obtain ⟨strLen, p'⟩ := ar
      rw [hr] at h
      simp only at h
      have hc := (C02.readVarInt_consumed 7 _ _ _ hr).2
      split at h
      · simp at h
      · split at h
        · omega
        · simp at h

theorem consLe_readString (m : Nat) (hm : m ≠ 0) : ConsLe (m + 10) (readString m) := by
  intro buf u rest h
  cases buf with
  | nil => simp [readString] at h
  | cons b0 p =>
    simp only [readString] at h
    cases hr : readVarInt 7 (b0 :: p) with
    | error e => rw [hr] at h; simp at h
    | ok ar =>
      obtain ⟨strLen, p'⟩ := ar
      rw [hr] at h
      simp only at h
      have hc := (C02.readVarInt_consumed 7 _ _ _ hr).2
      split at h
      · simp at h
      · split at h
        · simp at h
        · simp only [Except.ok.injEq, Prod.mk.injEq] at h
          rw [← h.2]
          simp only [List.length_drop]
          omega

theorem needLe_parseLiteral (d : DecCore) (n : Nat) (hn : 1 ≤ n) (it : IndexType) (hm : d.maxStrLen ≠ 0) :
    NeedLe (2 * d.maxStrLen + 20) (parseLiteral d n it) := by
  intro buf h
  simp only [parseLiteral] at h
  rw [Parser.bind] at h
  cases hr : readVarInt n buf with
  | error e =>
    rw [hr] at h
    simp only [Except.error.injEq] at h
    subst h
    have := readVarInt_needMore n _ hr
    omega
  | ok ar =>
    obtain ⟨nameIdx, r⟩ := ar
    rw [hr] at h
    simp only at h
    have hc := (C02.readVarInt_consumed n _ _ _ hr).2
    by_cases hz : nameIdx > 0
    · simp only [hz, ↓reduceIte] at h
      cases hat : d.at nameIdx with
      | none => rw [hat] at h; simp [Parser.fail] at h
      | some e =>
        rw [hat] at h
        have := needLe_bind_noNeed (d.maxStrLen + 9) (readString d.maxStrLen) _ (needLe_readString _ hm)
          (fun uv => noNeed_pure _) r h
        omega
    · simp only [hz, ↓reduceIte] at h
      have hz' : nameIdx = 0 := by omega
      subst hz'
      have h1 := readVarInt_zero n hn buf r hr
      have := needLe_bind (d.maxStrLen + 9) (d.maxStrLen + 10) (d.maxStrLen + 9) (readString d.maxStrLen) _
        (needLe_readString _ hm) (consLe_readString _ hm)
        (fun un => needLe_bind_noNeed (d.maxStrLen + 9) (readString d.maxStrLen) _ (needLe_readString _ hm)
          (fun uv => noNeed_pure _)) r h
      omega

/-- **An incomplete representation prefix is at most `2·maxStrLen + 20` bytes long.** -/
theorem needMore_length_le (d : DecCore) (buf : Bytes) (hm : d.maxStrLen ≠ 0)
    (h : parseRepr d buf = .needMore) : buf.length ≤ 2 * d.maxStrLen + 20 := by
  have hpa : parseAction d buf = .error .needMore := by
    unfold parseRepr at h
    cases hp : parseAction d buf with
    | error e => rw [hp] at h; cases e <;> simp at h; rfl
    | ok ar =>
      obtain ⟨a, r⟩ := ar
      rw [hp] at h
      simp only at h
      cases ha : applyAction d a <;> rw [ha] at h <;> simp at h
  cases buf with
  | nil => simp
  | cons b p =>
    simp only [parseAction] at hpa
    have hidx : NeedLe 9 ((readVarInt 7).bind fun idx =>
        match d.at idx with
        | none => (Parser.fail .invalidIndex : Parser Action)
        | some e => Parser.pure (.indexed e)) := by
      apply needLe_bind_noNeed _ _ _ (readVarInt_needMore 7)
      intro idx
      split
      · exact noNeed_fail _ (by simp)
      · exact noNeed_pure _
    have hupd : NeedLe 9 ((readVarInt 5).bind fun size =>
        if size > d.dyn.allowedMaxSize then (Parser.fail .tableUpdateTooLarge : Parser Action)
        else Parser.pure (.sizeUpdate size)) := by
      apply needLe_bind_noNeed _ _ _ (readVarInt_needMore 5)
      intro size
      split
      · exact noNeed_fail _ (by simp)
      · exact noNeed_pure _
    split at hpa
    · have := hidx _ hpa; omega
    · split at hpa
      · exact needLe_parseLiteral d 6 (by omega) _ hm _ hpa
      · split at hpa
        · exact needLe_parseLiteral d 4 (by omega) _ hm _ hpa
        · split at hpa
          · exact needLe_parseLiteral d 4 (by omega) _ hm _ hpa
          · split at hpa
            · split at hpa
              · simp at hpa
              · have := hupd _ hpa; omega
            · simp at hpa

/-- The regenerated constant of `Decoder.Write` (follows the Go source; a smaller value breaks this
obligation and re-opens the defect). -/
theorem varIntOverhead_eq : Gen.HpackStatic.varIntOverhead = 10 := by decide

theorem paranoiaBound_eq (m : Nat) : paranoiaBound m = 2 * m + 20 := by
  unfold paranoiaBound
  rw [varIntOverhead_eq]
  omega

/-- **The saveBuf bound of `Decoder.Write` never fires**: the code as it is *is* the ideal decoder. -/
theorem writeLoop_paranoia_dead : ∀ (f : Nat) (d : DecCore) (buf : Bytes) (em : List Field),
    writeLoop true f d buf em = writeLoop false f d buf em := by
  intro f
  induction f with
  | zero => intro d buf em; rfl
  | succ f ih =>
    intro d buf em
    simp only [writeLoop]
    split
    · rfl
    · cases hpr : parseRepr d buf with
      | needMore =>
        simp only
        by_cases hm : d.maxStrLen = 0
        · simp [hm]
        · have := needMore_length_le d buf hm hpr
          have hb := paranoiaBound_eq d.maxStrLen
          have hn : ¬ buf.length > paranoiaBound d.maxStrLen := by omega
          simp [hn]
      | err e d' => rfl
      | ok d' rest e =>
        simp only
        split
        · exact ih _ _ _
        · rfl

theorem runChunks_paranoia_dead : ∀ (chunks : List Bytes) (d : Decoder),
    runChunks true d chunks = runChunks false d chunks := by
  intro cs
  induction cs with
  | nil => intro d; rfl
  | cons c cs ih =>
    intro d
    have hw : d.writeG true c = d.writeG false c := by
      unfold Decoder.writeG
      split
      · rfl
      · simp only [writeLoop_paranoia_dead]
    simp only [runChunks, hw]
    cases d.writeG false c with
    | mk d1 r =>
      obtain ⟨em1, e⟩ := r
      cases e with
      | some e => rfl
      | none => simp only [ih d1]

/-- **C03 at full strength (exact form).** Every partition of every header block into `Write`
calls yields exactly the same decoder state, emitted fields and result (including the error kind)
as a single `Write`. -/
theorem write_split (d : Decoder) (chunks : List Bytes) (h : d.saveBuf = []) :
    runWrites d chunks = runWrites d [chunks.flatten] := by
  unfold runWrites runWritesG
  rw [runChunks_paranoia_dead, runChunks_paranoia_dead]
  exact write_split_ideal d chunks h

/-- **C03 as stated.** -/
theorem write_split_statement : WriteSplitStatement := by
  intro d chunks h
  simp only [write_split d chunks h, and_self]

/-! ### The witness -/

def witnessVarint : Bytes := [127, 128, 128, 128, 128, 128, 128, 128, 128, 0]

/-- literal without indexing, new name: 1 + 10 + 127 + 10 + 127 = 275 bytes. -/
def witnessBlock : Bytes :=
  [0] ++ witnessVarint ++ List.replicate 127 110 ++ witnessVarint ++ List.replicate 127 118

def witnessDecoder : Decoder := (Decoder.new 4096).setMaxStringLength 127

/-- Regression example (the former counterexample `write_split_full_false`): with the repaired bound
the block decodes to the same single field whether written at once or split at 271. -/
theorem witness_regression :
    (runWrites witnessDecoder [witnessBlock]).2.2 = none ∧
    (runWrites witnessDecoder [witnessBlock.take 271, witnessBlock.drop 271]).2.2 = none ∧
    (runWrites witnessDecoder [witnessBlock.take 271, witnessBlock.drop 271]).2.1 =
      [{ name := List.replicate 127 110, value := List.replicate 127 118, sensitive := false }] ∧
    (runWrites witnessDecoder [witnessBlock]).2.1 =
      (runWrites witnessDecoder [witnessBlock.take 271, witnessBlock.drop 271]).2.1 := by
  decide +kernel

/-! ### Non-vacuity -/

/-- The hypotheses of `write_split_partial` are satisfiable by a non-trivial split block
(two fields, split inside the second one; one of them enters the dynamic table). -/
example :
    let d := (Decoder.new 4096).setMaxStringLength 10
    let b : Bytes := [0x82, 0x40, 0x01, 0x61, 0x02, 0x62, 0x63]
    d.saveBuf = [] ∧
    (runWrites d [b.take 3, b.drop 3]).2.2 = none ∧
    (runWrites d [b]).2.2 = none ∧
    (runWrites d [b]).2.1.length = 2 ∧ (runWrites d [b]).1.dyn.ents = [([0x61], [0x62, 0x63])] := by
  decide +kernel

end NetVerif.Proofs.C03
