import NetVerif.Proofs.C01
import NetVerif.Proofs.C03
/-!
C01, continued — the round trip does not depend on how a block's bytes are cut into
`Decoder.Write` calls (HEADERS / CONTINUATION fragments): C03's split independence
(`Proofs.C03.write_split`, unconditional since the saveBuf bound was repaired) carries the
one-Write-per-field result of `Proofs.C01.block_sim` to every partition of the same bytes.
-/
namespace NetVerif.Proofs.C01
open NetVerif.Model.Hpack NetVerif.Model.HpackEnc
open NetVerif.Proofs.Lemmas.HpackEnc
open NetVerif.Proofs.Lemmas.Hpack
open NetVerif.Model
open NetVerif

/-- The statement: any partition `cs` of the block's bytes decodes to the block's fields. -/
def BlockAnyChunkingStatement : Prop :=
  ∀ (A : Nat) (s : Sys) (b : Block) (cs : List Bytes), A ≤ uint32Max → Between A s →
    (∀ f ∈ b.fields, FieldOK f) → (∀ v, SizeOp.setLimit v ∈ b.pre → v ≤ A) →
    cs.flatten = (s.enc.encodeBlock b).2.flatten →
      (runWrites s.dec cs).2 = (b.fields, none) ∧
      (runWrites s.dec cs).1 = (runWrites s.dec (s.enc.encodeBlock b).2).1

/-- **Any fragmentation of a block** gives the decoder state, the emitted fields and the (absent)
error of the one-Write-per-field run. -/
theorem block_any_chunking : BlockAnyChunkingStatement := by
  intro A s b cs hA hb hf hl hflat
  have hres : (runWrites s.dec (s.enc.encodeBlock b).2).2 = (b.fields, none) := (block_sim A hA s b hb hf hl).1
  have h1 : runWrites s.dec cs = runWrites s.dec (s.enc.encodeBlock b).2 := by
    rw [Proofs.C03.write_split s.dec cs hb.save, Proofs.C03.write_split s.dec (s.enc.encodeBlock b).2 hb.save, hflat]
  rw [h1]
  exact ⟨hres, rfl⟩

end NetVerif.Proofs.C01
