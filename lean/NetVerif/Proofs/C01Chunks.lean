import NetVerif.Proofs.C01
import NetVerif.Proofs.C03
/-!
C01, continued — the round trip does not depend on how a block's bytes are cut into
`Decoder.Write` calls (HEADERS / CONTINUATION fragments), by C03's split independence.

`block_any_chunking_ideal`: for the decoder without the saveBuf bound of `Write` (C03's "ideal"
decoder) every partition of the block's bytes gives the result of the one-Write-per-field run that
`roundtrip_history_holds_partial` is about.
`block_any_chunking_partial`: the same for the decoder as it is, under the explicit hypothesis that
the saveBuf bound (C03's finding) does not fire on that partition. (With no string length limit —
the configuration of C01 — the bound is disabled in the code, `d.maxStrLen != 0 && …`; that this makes
the hypothesis redundant is NOT proved here.)
-/
namespace NetVerif.Proofs.C01
open NetVerif.Model.Hpack NetVerif.Model.HpackEnc
open NetVerif.Proofs.Lemmas.HpackEnc
open NetVerif.Proofs.Lemmas.Hpack
open NetVerif.Model
open NetVerif

theorem block_any_chunking_ideal (A : Nat) (hA : A ≤ uint32Max) (s : Sys) (b : Block) (hb : Between A s)
    (hf : ∀ f ∈ b.fields, FieldOK f) (hl : ∀ v, SizeOp.setLimit v ∈ b.pre → v ≤ A)
    (hreg : b.fields ≠ [] → hitsDefect (b.pre.foldl Encoder.sizeOp s.enc) s.dec.toDecCore = false)
    (cs : List Bytes) (hflat : cs.flatten = (s.enc.encodeBlock b).2.flatten) :
    runWritesG false s.dec cs = runWrites s.dec (s.enc.encodeBlock b).2 ∧
      (runWrites s.dec (s.enc.encodeBlock b).2).2 = (b.fields, none) := by
  have hblk := (block_sim A hA s b hb hf hl hreg).1
  have hres : (runWrites s.dec (s.enc.encodeBlock b).2).2 = (b.fields, none) := hblk
  have hnone : (runWrites s.dec (s.enc.encodeBlock b).2).2.2 ≠ some .strLenParanoia := by
    rw [hres]; simp
  refine ⟨?_, hres⟩
  rw [← Proofs.C03.runWrites_real_ideal s.dec _ hnone,
    Proofs.C03.write_split_ideal s.dec cs hb.save,
    Proofs.C03.write_split_ideal s.dec (s.enc.encodeBlock b).2 hb.save, hflat]

/-- **Any fragmentation of the block** (decoder as it is; `_partial`: assumes the saveBuf bound of
`Decoder.Write` does not fire on this partition). -/
theorem block_any_chunking_partial (A : Nat) (hA : A ≤ uint32Max) (s : Sys) (b : Block) (hb : Between A s)
    (hf : ∀ f ∈ b.fields, FieldOK f) (hl : ∀ v, SizeOp.setLimit v ∈ b.pre → v ≤ A)
    (hreg : b.fields ≠ [] → hitsDefect (b.pre.foldl Encoder.sizeOp s.enc) s.dec.toDecCore = false)
    (cs : List Bytes) (hflat : cs.flatten = (s.enc.encodeBlock b).2.flatten)
    (hnp : (runWrites s.dec cs).2.2 ≠ some .strLenParanoia) :
    (runWrites s.dec cs).2 = (b.fields, none) ∧
      (runWrites s.dec cs).1 = (runWrites s.dec (s.enc.encodeBlock b).2).1 := by
  obtain ⟨h1, h2⟩ := block_any_chunking_ideal A hA s b hb hf hl hreg cs hflat
  rw [Proofs.C03.runWrites_real_ideal s.dec cs hnp] at h1
  rw [h1]
  exact ⟨h2, rfl⟩

/-- The full statement the `_partial` theorem approximates. -/
def BlockAnyChunkingStatement : Prop :=
  ∀ (A : Nat) (s : Sys) (b : Block) (cs : List Bytes), A ≤ uint32Max → Between A s →
    (∀ f ∈ b.fields, FieldOK f) → (∀ v, SizeOp.setLimit v ∈ b.pre → v ≤ A) →
    (b.fields ≠ [] → hitsDefect (b.pre.foldl Encoder.sizeOp s.enc) s.dec.toDecCore = false) →
    cs.flatten = (s.enc.encodeBlock b).2.flatten → (runWrites s.dec cs).2 = (b.fields, none)

end NetVerif.Proofs.C01
