import NetVerif.Proofs.C43Refine
/-!
C43, part 3 — the implementation model `MemLS` (byName refcount tree, byToken, heap flags)
refines the specification machine `Spec`: representation relation `R`, and the observation
functions (`canCreate`, `nodeOfToken`, `lookup`) computed on the tree agree with the
specification's conflict test / token lookup on the lock list.
-/
namespace NetVerif.Proofs.C43
open NetVerif.Model.DavPath NetVerif.Model.DavLock

/-! ### representation relation -/

/-- number of locks at or below `a` -/
def cnt (ls : List Lock) (a : Name) : Nat := (ls.filter (fun l => a.isPrefixOf l.root)).length

/-- the lock rooted exactly at `a` -/
def lockAt (ls : List Lock) (a : Name) : Option Lock := ls.find? (fun l => l.root == a)

def NodeMatches (n : Node) : Option Lock → Prop
  | none => n.token = none ∧ n.held = false ∧ n.inHeap = false
  | some l => n.token = some l.token ∧ n.zeroDepth = l.zeroDepth ∧ n.duration = l.duration ∧
      n.held = l.held ∧ (0 ≤ l.duration → n.expiry = l.expiry) ∧
      n.inHeap = (!l.held && decide (0 ≤ l.duration))

def NodeOK (ls : List Lock) (a : Name) : Option Node → Prop
  | none => cnt ls a = 0
  | some n => n.name = a ∧ n.refCount = cnt ls a ∧ 0 < cnt ls a ∧ NodeMatches n (lockAt ls a)

structure R (m : MemLS) (s : Spec) : Prop where
  gen : m.gen = s.gen
  holds : m.holds = s.holds.map (Option.map (List.map Prod.snd))
  byTok : m.byToken = s.locks.map (fun l => (l.token, l.root))
  nodup : (m.byName.map (·.name)).Nodup
  nodes : ∀ a, NodeOK s.locks a (findNode m.byName a)

theorem R_init : R MemLS.init Spec.init := by
  constructor <;> simp [MemLS.init, Spec.init, findNode, NodeOK, cnt]

/-! ### facts about the lock list -/

theorem root_inj (s : Spec) (h : Inv s) {a b : Lock} (ha : a ∈ s.locks) (hb : b ∈ s.locks)
    (hr : a.root = b.root) : a = b := by
  by_cases hne : a = b
  · exact hne
  · have hc : Compatible a b := pairwise_mem compatible_symm h.excl ha hb hne
    unfold Compatible Lock.conflicts at hc
    simp [hr] at hc

theorem lockAt_some (s : Spec) (h : Inv s) (l : Lock) (hl : l ∈ s.locks) :
    lockAt s.locks l.root = some l := by
  unfold lockAt
  cases hf : s.locks.find? (fun x => x.root == l.root) with
  | none =>
    rw [List.find?_eq_none] at hf
    have := hf l hl
    simp at this
  | some x =>
    have hx := List.mem_of_find?_eq_some hf
    have ht := List.find?_some hf
    simp at ht
    rw [root_inj s h hx hl ht]

theorem lockAt_mem (ls : List Lock) (a : Name) (l : Lock) (h : lockAt ls a = some l) :
    l ∈ ls ∧ l.root = a := by
  unfold lockAt at h
  have hx := List.mem_of_find?_eq_some h
  have ht := List.find?_some h
  simp at ht
  exact ⟨hx, ht⟩

theorem lockAt_none (ls : List Lock) (a : Name) (h : lockAt ls a = none) :
    ∀ l ∈ ls, l.root ≠ a := by
  unfold lockAt at h
  rw [List.find?_eq_none] at h
  intro l hl
  have := h l hl
  simpa using this

theorem cnt_pos_iff (ls : List Lock) (a : Name) : 0 < cnt ls a ↔ ∃ l ∈ ls, a <+: l.root := by
  unfold cnt
  rw [List.length_pos_iff_exists_mem]
  simp [List.mem_filter]

theorem cnt_zero_iff (ls : List Lock) (a : Name) : cnt ls a = 0 ↔ ∀ l ∈ ls, ¬ a <+: l.root := by
  have := cnt_pos_iff ls a
  constructor
  · intro h0 l hl hp
    have : 0 < cnt ls a := this.mpr ⟨l, hl, hp⟩
    omega
  · intro hall
    rcases Nat.eq_zero_or_pos (cnt ls a) with h0 | h0
    · exact h0
    · obtain ⟨l, hl, hp⟩ := this.mp h0
      exact absurd hp (hall l hl)

/-! ### facts about the node list -/

theorem findNode_name (bn : List Node) (a : Name) (n : Node) (h : findNode bn a = some n) :
    n.name = a ∧ n ∈ bn := by
  unfold findNode at h
  have := List.find?_some h
  simp at this
  exact ⟨this, List.mem_of_find?_eq_some h⟩

theorem findNode_of_mem (bn : List Node) (hn : (bn.map (·.name)).Nodup) (n : Node) (h : n ∈ bn) :
    findNode bn n.name = some n := by
  induction bn with
  | nil => simp at h
  | cons x xs ih =>
    simp only [List.map_cons, List.nodup_cons, List.mem_map, not_exists, not_and] at hn
    simp at h
    unfold findNode
    rcases h with rfl | h
    · simp
    · have hne : x.name ≠ n.name := fun e => hn.1 n h e.symm
      rw [List.find?_cons_of_neg (by simpa using hne)]
      exact ih hn.2 h

/-- walk name = all prefixes of name -/
theorem mem_walk (name a : Name) : a ∈ walk name ↔ a <+: name := by
  unfold walk
  simp only [List.mem_map, List.mem_reverse, List.mem_range]
  constructor
  · rintro ⟨k, _, rfl⟩
    exact List.take_prefix k name
  · intro hp
    refine ⟨a.length, ?_, ?_⟩
    · have := hp.length_le; omega
    · exact (List.prefix_iff_eq_take.mp hp).symm

theorem walk_nodup (name : Name) : (walk name).Nodup := by
  suffices hmap : ((walk name).map List.length).Nodup by
    exact List.Pairwise.of_map (S := fun x y => x ≠ y) List.length
      (fun a b (h : a.length ≠ b.length) e => h (by rw [e])) hmap
  unfold walk
  rw [List.map_map]
  have : List.map (List.length ∘ fun k => List.take k name) (List.range (name.length + 1)).reverse
      = (List.range (name.length + 1)).reverse := by
    conv => rhs; rw [← List.map_id (List.range (name.length + 1)).reverse]
    apply List.map_congr_left
    intro k hk
    simp only [List.mem_reverse, List.mem_range] at hk
    simp only [Function.comp, List.length_take, id]
    omega
  rw [this]
  exact List.pairwise_reverse.mpr (List.nodup_range.imp (fun h => Ne.symm h))

/-- the strict ancestors visited after the first step of walkToRoot -/
theorem mem_walk_tail (name a : Name) : a ∈ (walk name).tail ↔ a <+: name ∧ a ≠ name := by
  have hw : walk name = name :: (walk name).tail := by
    unfold walk
    rw [List.range_succ]
    simp
  have hnd := walk_nodup name
  rw [hw] at hnd
  have hnot : name ∉ (walk name).tail := (List.nodup_cons.mp hnd).1
  constructor
  · intro ha
    refine ⟨(mem_walk name a).mp (List.mem_of_mem_tail ha), ?_⟩
    intro e; subst e; exact hnot ha
  · rintro ⟨hp, hne⟩
    have := (mem_walk name a).mpr hp
    rw [hw] at this
    simp at this
    rcases this with e | ht
    · exact absurd e hne
    · exact ht

/-! ### observation functions agree -/

/-- **canCreate on the refcount tree = "no lock of the list conflicts".** -/
theorem canCreate_eq (m : MemLS) (s : Spec) (hR : R m s) (h : Inv s) (name : Name) (zd : Bool) :
    m.canCreate name zd = !(s.locks.any (fun l => l.conflicts name zd)) := by
  rw [Bool.eq_iff_iff]
  simp only [Bool.not_eq_true', List.any_eq_false, Bool.not_eq_true]
  unfold MemLS.canCreate
  simp only [Bool.and_eq_true, List.all_eq_true]
  constructor
  · rintro ⟨h1, h2⟩ l hl
    cases hc : l.conflicts name zd with
    | false => rfl
    | true =>
      exfalso
      rw [conflicts_iff] at hc
      have hn := hR.nodes name
      -- kind 3 with a strict ancestor, or equality / descendant kinds
      rcases hc with hc | ⟨hz, hp⟩ | ⟨hz, hp⟩
      · -- same root
        have hla := lockAt_some s h l hl
        rw [hc] at hla
        cases hf : findNode m.byName name with
        | none =>
          rw [hf] at hn
          have := (cnt_zero_iff s.locks name).mp hn l hl
          exact this (by rw [hc]; exact List.prefix_refl _)
        | some n =>
          rw [hf] at hn h1
          obtain ⟨_, _, _, hm⟩ := hn
          rw [hla] at hm
          simp [hm.1] at h1
      · -- infinite request over a locked descendant
        cases hf : findNode m.byName name with
        | none =>
          rw [hf] at hn
          exact (cnt_zero_iff s.locks name).mp hn l hl hp
        | some n =>
          rw [hf] at h1
          simp [hz] at h1
      · -- an infinite lock at an ancestor (or at the name itself)
        by_cases he : l.root = name
        · have hla := lockAt_some s h l hl
          rw [he] at hla
          cases hf : findNode m.byName name with
          | none =>
            rw [hf] at hn
            have := (cnt_zero_iff s.locks name).mp hn l hl
            exact this (by rw [he]; exact List.prefix_refl _)
          | some n =>
            rw [hf] at hn h1
            obtain ⟨_, _, _, hm⟩ := hn
            rw [hla] at hm
            simp [hm.1] at h1
        · have hmem : l.root ∈ (walk name).tail := (mem_walk_tail name l.root).mpr ⟨hp, he⟩
          have h2' := h2 l.root hmem
          have hn' := hR.nodes l.root
          have hla := lockAt_some s h l hl
          cases hf : findNode m.byName l.root with
          | none =>
            rw [hf] at hn'
            exact (cnt_zero_iff s.locks l.root).mp hn' l hl (List.prefix_refl _)
          | some n =>
            rw [hf] at hn' h2'
            obtain ⟨_, _, _, hm⟩ := hn'
            rw [hla] at hm
            simp [hm.1, hm.2.1, hz] at h2'
  · intro hall
    constructor
    · cases hf : findNode m.byName name with
      | none => rfl
      | some n =>
        have hn := hR.nodes name
        rw [hf] at hn
        obtain ⟨_, _, hpos, hm⟩ := hn
        obtain ⟨l, hl, hp⟩ := (cnt_pos_iff s.locks name).mp hpos
        have hnc := hall l hl
        have hnc' : ¬ (l.conflicts name zd = true) := by rw [hnc]; simp
        rw [conflicts_iff] at hnc'
        simp only [not_or, not_and] at hnc'
        -- zd must be true, and no lock sits exactly at name
        have hzd : zd = true := by
          cases zd with
          | true => rfl
          | false => exact absurd hp (hnc'.2.1 rfl)
        cases hla : lockAt s.locks name with
        | none =>
          rw [hla] at hm
          simp [hm.1, hzd]
        | some l' =>
          obtain ⟨hl', hr'⟩ := lockAt_mem _ _ _ hla
          have := hall l' hl'
          rw [Bool.eq_false_iff] at this
          exact absurd ((conflicts_iff l' name zd).mpr (Or.inl hr')) this
    · intro a ha
      obtain ⟨hp, hne⟩ := (mem_walk_tail name a).mp ha
      cases hf : findNode m.byName a with
      | none => rfl
      | some n =>
        have hn := hR.nodes a
        rw [hf] at hn
        obtain ⟨_, _, _, hm⟩ := hn
        cases hla : lockAt s.locks a with
        | none =>
          rw [hla] at hm
          simp [hm.1]
        | some l' =>
          rw [hla] at hm
          obtain ⟨hl', hr'⟩ := lockAt_mem _ _ _ hla
          have hx := hall l' hl'
          have this : ¬ (l'.conflicts name zd = true) := by rw [hx]; simp
          rw [conflicts_iff] at this
          simp only [not_or, not_and] at this
          have h3 := this.2.2
          rw [hr'] at h3
          cases hz : l'.zeroDepth with
          | true => simp [hm.2.1, hz]
          | false => exact absurd hp (h3 hz)

/-- node / lock correspondence for the results of token and name lookups -/
def NL : Option Node → Option Lock → Prop
  | none, none => True
  | some n, some l => n.name = l.root ∧ NodeMatches n (some l)
  | _, _ => False

theorem node_of_lock (m : MemLS) (s : Spec) (hR : R m s) (h : Inv s) (l : Lock) (hl : l ∈ s.locks) :
    ∃ n, findNode m.byName l.root = some n ∧ n.name = l.root ∧ NodeMatches n (some l) := by
  have hn := hR.nodes l.root
  cases hf : findNode m.byName l.root with
  | none =>
    rw [hf] at hn
    exact absurd (List.prefix_refl _) ((cnt_zero_iff s.locks l.root).mp hn l hl)
  | some n =>
    rw [hf] at hn
    obtain ⟨h1, _, _, hm⟩ := hn
    rw [lockAt_some s h l hl] at hm
    exact ⟨n, rfl, h1, hm⟩

theorem nodeOfToken_rel (m : MemLS) (s : Spec) (hR : R m s) (h : Inv s) (t : Option Nat) :
    NL (m.nodeOfToken t) (s.findTok t) := by
  cases t with
  | none => simp [MemLS.nodeOfToken, Spec.findTok, NL]
  | some t =>
    unfold MemLS.nodeOfToken Spec.findTok
    simp only
    rw [hR.byTok, List.find?_map]
    have : ((fun p : Nat × Name => p.1 == t) ∘ fun l : Lock => (l.token, l.root)) =
        fun l : Lock => l.token == t := rfl
    rw [this]
    cases hf : s.locks.find? (fun l => l.token == t) with
    | none => simp [NL]
    | some l =>
      have hl := List.mem_of_find?_eq_some hf
      obtain ⟨n, hfn, hname, hm⟩ := node_of_lock m s hR h l hl
      simp only [Option.map_some]
      rw [hfn]
      exact ⟨hname, hm⟩

theorem lookup_rel (m : MemLS) (s : Spec) (hR : R m s) (h : Inv s) (name : Name)
    (toks : List (Option Nat)) : NL (m.lookup name toks) (s.lookup name toks) := by
  induction toks with
  | nil => simp [MemLS.lookup, Spec.lookup, NL]
  | cons t ts ih =>
    unfold MemLS.lookup Spec.lookup
    have hrel := nodeOfToken_rel m s hR h t
    cases hn : m.nodeOfToken t with
    | none =>
      cases hl : s.findTok t with
      | none => simpa using ih
      | some l => rw [hn, hl] at hrel; exact absurd hrel (by simp [NL])
    | some n =>
      cases hl : s.findTok t with
      | none => rw [hn, hl] at hrel; exact absurd hrel (by simp [NL])
      | some l =>
        rw [hn, hl] at hrel
        obtain ⟨hname, hm⟩ := hrel
        obtain ⟨_, hzd, _, hheld, _, _⟩ := id hm
        simp only
        unfold Lock.covers
        rw [hheld, hzd, hname]
        cases l.held with
        | true => simpa using ih
        | false =>
          by_cases he : name = l.root
          · subst he
            simp [NL, hname, hm]
          · have he' : (name == l.root) = false := by simpa using he
            have he'' : (l.root == name) = false := by simpa using (fun e => he e.symm)
            simp only [he', he'', Bool.false_eq_true, if_false, Bool.false_or, Bool.not_false,
              Bool.true_and]
            cases l.zeroDepth with
            | true => simpa using ih
            | false =>
              cases hp : l.root.isPrefixOf name with
              | true => simp [NL, hname, hm]
              | false => simpa using ih

/-! ### node list surgery -/

theorem findNode_map (bn : List Node) (g : Node → Node) (hg : ∀ n, (g n).name = n.name) (a : Name) :
    findNode (bn.map g) a = (findNode bn a).map g := by
  unfold findNode
  rw [List.find?_map]
  have : ((fun n : Node => n.name == a) ∘ g) = fun n : Node => n.name == a := by
    funext n; simp [Function.comp, hg n]
  rw [this]

theorem names_map (bn : List Node) (g : Node → Node) (hg : ∀ n, (g n).name = n.name) :
    (bn.map g).map (·.name) = bn.map (·.name) := by
  simp [List.map_map, Function.comp_def, hg]

theorem findNode_updNode (bn : List Node) (a a' : Name) (f : Node → Node)
    (hf : ∀ n, (f n).name = n.name) :
    findNode (updNode bn a f) a' = if a' = a then (findNode bn a').map f else findNode bn a' := by
  unfold updNode
  rw [findNode_map _ _ (by intro n; split <;> simp [hf])]
  cases hfn : findNode bn a' with
  | none => simp
  | some n =>
    obtain ⟨hname, _⟩ := findNode_name _ _ _ hfn
    by_cases he : a' = a
    · subst he; simp [hname]
    · simp [he]
      intro e; exact absurd (hname.symm.trans e) he

theorem names_updNode (bn : List Node) (a : Name) (f : Node → Node) (hf : ∀ n, (f n).name = n.name) :
    (updNode bn a f).map (·.name) = bn.map (·.name) := by
  unfold updNode
  exact names_map _ _ (by intro n; split <;> simp [hf])

/-- result of one `refCount++` step -/
def bump (a : Name) : Option Node → Node
  | none => { freshNode a with refCount := 1 }
  | some n => { n with refCount := n.refCount + 1 }

theorem findNode_incRef (bn : List Node) (x a' : Name) :
    findNode (incRef bn x) a' = if a' = x then some (bump x (findNode bn x)) else findNode bn a' := by
  unfold incRef
  split
  · rename_i hany
    rw [findNode_map _ _ (by intro n; split <;> simp)]
    by_cases he : a' = x
    · subst he
      simp only [if_true]
      cases hfn : findNode bn a' with
      | none =>
        unfold findNode at hfn
        rw [List.find?_eq_none] at hfn
        simp only [List.any_eq_true] at hany
        obtain ⟨n, hn, hnn⟩ := hany
        exact absurd hnn (hfn n hn)
      | some n =>
        obtain ⟨hname, _⟩ := findNode_name _ _ _ hfn
        simp [bump, hname]
    · simp only [he, if_false]
      cases hfn : findNode bn a' with
      | none => simp
      | some n =>
        obtain ⟨hname, _⟩ := findNode_name _ _ _ hfn
        simp
        intro e; exact absurd (hname.symm.trans e) he
  · rename_i hany
    have hnone : findNode bn x = none := by
      unfold findNode
      rw [List.find?_eq_none]
      intro n hn hnn
      exact hany (List.any_eq_true.mpr ⟨n, hn, hnn⟩)
    unfold findNode at hnone ⊢
    rw [List.find?_append]
    by_cases he : a' = x
    · subst he
      simp [hnone, bump, freshNode]
    · have : (x == a') = false := by simpa using (fun e => he e.symm)
      simp only [he, if_false]
      cases hfn : List.find? (fun n => n.name == a') bn with
      | none => simp [freshNode, this]
      | some n => simp

theorem names_incRef (bn : List Node) (x : Name) (hn : (bn.map (·.name)).Nodup) :
    ((incRef bn x).map (·.name)).Nodup := by
  unfold incRef
  split
  · rw [names_map _ _ (by intro n; split <;> simp)]; exact hn
  · rename_i hany
    simp only [List.map_append, List.map_cons, List.map_nil]
    rw [List.nodup_append]
    refine ⟨hn, by simp, ?_⟩
    intro a ha b hb
    simp [freshNode] at hb; subst hb
    simp only [List.mem_map] at ha
    obtain ⟨n, hnm, rfl⟩ := ha
    intro e
    exact hany (List.any_eq_true.mpr ⟨n, hnm, by simpa using e⟩)

theorem findNode_foldl_incRef (as : List Name) (hnd : as.Nodup) (bn : List Node) (a' : Name) :
    findNode (as.foldl incRef bn) a' =
      if a' ∈ as then some (bump a' (findNode bn a')) else findNode bn a' := by
  induction as generalizing bn with
  | nil => simp
  | cons x xs ih =>
    rw [List.nodup_cons] at hnd
    simp only [List.foldl_cons]
    rw [ih hnd.2, findNode_incRef]
    by_cases he : a' = x
    · subst he
      simp [hnd.1]
    · simp [he]

theorem names_foldl_incRef (as : List Name) (bn : List Node) (hn : (bn.map (·.name)).Nodup) :
    ((as.foldl incRef bn).map (·.name)).Nodup := by
  induction as generalizing bn with
  | nil => exact hn
  | cons x xs ih => exact ih _ (names_incRef bn x hn)

/-! ### Create preserves the representation relation -/

theorem cnt_append_one (ls : List Lock) (x : Lock) (a : Name) :
    cnt (ls ++ [x]) a = cnt ls a + (if a <+: x.root then 1 else 0) := by
  unfold cnt
  rw [List.filter_append, List.length_append]
  by_cases hp : a <+: x.root
  · simp [hp]
  · simp [hp]

theorem lockAt_append_one (ls : List Lock) (x : Lock) (a : Name) :
    lockAt (ls ++ [x]) a = (lockAt ls a).or (if x.root = a then some x else none) := by
  unfold lockAt
  rw [List.find?_append]
  congr 1
  by_cases he : x.root = a <;> simp [he]

theorem lockAt_none_of_cnt_zero (ls : List Lock) (a : Name) (h : cnt ls a = 0) : lockAt ls a = none := by
  unfold lockAt
  rw [List.find?_eq_none]
  intro l hl hr
  simp at hr
  exact (cnt_zero_iff ls a).mp h l hl (by rw [hr]; exact List.prefix_refl _)

theorem nodeMatches_refCount (n : Node) (k : Nat) (ol : Option Lock) :
    NodeMatches { n with refCount := k } ol ↔ NodeMatches n ol := by
  cases ol <;> exact Iff.rfl

theorem R_createCore (m : MemLS) (s : Spec) (hR : R m s) (h : Inv s) (now : Int) (name : Name)
    (zd : Bool) (dur : Int) :
    R (m.createCore now name zd dur).1 (s.createCore now name zd dur).1 ∧
    (m.createCore now name zd dur).2 = (s.createCore now name zd dur).2 := by
  unfold MemLS.createCore Spec.createCore
  rw [canCreate_eq m s hR h name zd]
  by_cases hany : (s.locks.any fun l => l.conflicts name zd) = true
  · simp [hany, hR]
  · simp only [hany, Bool.not_eq_true, Bool.not_not, if_false]
    have hany' : (s.locks.any fun l => l.conflicts name zd) = false := by simpa using hany
    simp only [hany', Bool.false_eq_true, if_false]
    refine ⟨?_, by rw [hR.gen]⟩
    have hnoconf : ∀ l ∈ s.locks, l.conflicts name zd = false := by
      simpa [List.any_eq_false] using hany'
    have hlockAt_name : lockAt s.locks name = none := by
      unfold lockAt
      rw [List.find?_eq_none]
      intro l hl hr
      simp at hr
      have := hnoconf l hl
      rw [Bool.eq_false_iff] at this
      exact this ((conflicts_iff l name zd).mpr (Or.inl hr))
    constructor
    · simp [hR.gen]
    · exact hR.holds
    · simp [hR.byTok, hR.gen]
    · simp only
      rw [names_updNode _ _ _ (by intro n; rfl)]
      exact names_foldl_incRef _ _ hR.nodup
    · intro a
      simp only
      rw [findNode_updNode _ _ _ _ (by intro n; rfl),
        findNode_foldl_incRef _ (walk_nodup name)]
      simp only [mem_walk]
      have hold := hR.nodes a
      have hcnt := cnt_append_one s.locks ⟨s.gen, name, zd, dur, newExpiry now dur 0, false⟩ a
      have hla := lockAt_append_one s.locks ⟨s.gen, name, zd, dur, newExpiry now dur 0, false⟩ a
      simp only at hcnt hla
      by_cases hpa : a <+: name
      · simp only [hpa, if_true] at hcnt ⊢
        by_cases hea : a = name
        · subst hea
          simp only [if_true, Option.map_some] at hla ⊢
          rw [hlockAt_name] at hla
          simp only [Option.none_or] at hla
          cases hf : findNode m.byName a with
          | none =>
            rw [hf] at hold
            simp only [NodeOK] at hold ⊢
            rw [hcnt, hla]
            refine ⟨rfl, by simp [bump, freshNode, hold], by omega, ?_⟩
            simp [NodeMatches, bump, freshNode, hR.gen, newExpiry]
          | some n =>
            rw [hf] at hold
            obtain ⟨h1, h2, h3, h4⟩ := hold
            rw [hlockAt_name] at h4
            simp only [NodeOK]
            rw [hcnt, hla]
            refine ⟨h1, by simp [bump, h2], by omega, ?_⟩
            simp [NodeMatches, bump, hR.gen, newExpiry, h4.2.1]
            intro hd; simp [hd]
        · simp only [hea, if_false]
          have hne : ¬ name = a := fun e => hea e.symm
          simp only [hne, if_false, Option.or_none] at hla
          cases hf : findNode m.byName a with
          | none =>
            rw [hf] at hold
            simp only [NodeOK] at hold ⊢
            rw [hcnt, hla]
            refine ⟨rfl, by simp [bump, freshNode, hold], by omega, ?_⟩
            rw [lockAt_none_of_cnt_zero _ _ hold]
            simp [NodeMatches, bump, freshNode]
          | some n =>
            rw [hf] at hold
            obtain ⟨h1, h2, h3, h4⟩ := hold
            simp only [NodeOK]
            rw [hcnt, hla]
            refine ⟨h1, by simp [bump, h2], by omega, ?_⟩
            exact (nodeMatches_refCount n _ _).mpr h4
      · simp only [hpa, if_false, Nat.add_zero] at hcnt ⊢
        have hea : ¬ a = name := by intro e; subst e; exact hpa (List.prefix_refl _)
        have hne : ¬ name = a := fun e => hea e.symm
        simp only [hea, hne, if_false, Option.or_none] at hla ⊢
        cases hf : findNode m.byName a with
        | none =>
          rw [hf] at hold
          simp only [NodeOK] at hold ⊢
          rw [hcnt]; exact hold
        | some n =>
          rw [hf] at hold
          simp only [NodeOK] at hold ⊢
          rw [hcnt, hla]; exact hold

/-! ### remove (Unlock / expiry) preserves the representation relation -/

/-- result of one `refCount--` step (`none` = node deleted) -/
def unbump (n : Node) : Option Node :=
  if n.refCount - 1 = 0 then none else some { n with refCount := n.refCount - 1 }

theorem findNode_none_of_not_mem (bn : List Node) (a : Name) (h : a ∉ bn.map (·.name)) :
    findNode bn a = none := by
  unfold findNode
  rw [List.find?_eq_none]
  intro n hn hnn
  simp at hnn
  exact h (List.mem_map.mpr ⟨n, hn, hnn⟩)

theorem names_decRef_sub (bn : List Node) (x : Name) :
    ((decRef bn x).map (·.name)).Sublist (bn.map (·.name)) := by
  unfold decRef
  have : (bn.map (fun n => if n.name == x then { n with refCount := n.refCount - 1 } else n)).map (·.name)
      = bn.map (·.name) := names_map _ _ (by intro n; split <;> simp)
  rw [← this]
  exact List.Sublist.map _ List.filter_sublist

theorem names_decRef (bn : List Node) (x : Name) (hn : (bn.map (·.name)).Nodup) :
    ((decRef bn x).map (·.name)).Nodup := hn.sublist (names_decRef_sub bn x)

theorem decRef_cons (n : Node) (rest : List Node) (x : Name) :
    decRef (n :: rest) x =
      (if n.name = x then (if n.refCount - 1 = 0 then [] else [{ n with refCount := n.refCount - 1 }])
       else [n]) ++ decRef rest x := by
  unfold decRef
  by_cases he : n.name = x
  · by_cases h0 : n.refCount - 1 = 0
    · simp [he, h0, List.filter_cons]
    · simp [he, h0, List.filter_cons]
  · simp [he, List.filter_cons]

theorem findNode_decRef (bn : List Node) (hn : (bn.map (·.name)).Nodup) (x a' : Name) :
    findNode (decRef bn x) a' = if a' = x then (findNode bn x).bind unbump else findNode bn a' := by
  induction bn with
  | nil => simp [decRef, findNode]
  | cons n rest ih =>
    simp only [List.map_cons, List.nodup_cons] at hn
    rw [decRef_cons]
    have ih' := ih hn.2
    by_cases he : n.name = x
    · -- the head is the node being decremented; no other node has this name
      have hx : x ∉ rest.map (·.name) := he ▸ hn.1
      have hrest : findNode (decRef rest x) x = none :=
        findNode_none_of_not_mem _ _ (fun hm => hx ((names_decRef_sub rest x).subset hm))
      by_cases hax : a' = x
      · subst hax
        simp only [he, if_true]
        have hfind : findNode (n :: rest) a' = some n := by simp [findNode, he]
        rw [hfind]
        simp only [Option.bind_some, unbump]
        by_cases h0 : n.refCount - 1 = 0
        · simp only [h0, if_true, List.nil_append]; exact hrest
        · simp [h0, findNode, he]
      · simp only [he, if_true, hax, if_false]
        have hna : ¬ n.name = a' := fun e => hax (e.symm.trans he)
        have hfind : findNode (n :: rest) a' = findNode rest a' := by
          simp [findNode, hna]
        rw [hfind]
        have := ih'
        simp only [hax, if_false] at this
        by_cases h0 : n.refCount - 1 = 0
        · simp only [h0, if_true, List.nil_append]; exact this
        · simp only [h0, if_false]
          rw [← this]
          have hxa : ¬ x = a' := fun e => hax e.symm
          simp [findNode, hxa]
    · simp only [he, if_false]
      by_cases hax : a' = x
      · subst hax
        simp only [if_true] at ih' ⊢
        have hfind : findNode (n :: rest) a' = findNode rest a' := by simp [findNode, he]
        rw [hfind, ← ih']
        simp [findNode, he]
      · simp only [hax, if_false] at ih' ⊢
        by_cases hna : n.name = a'
        · simp [findNode, hna]
        · have h1 : findNode (n :: rest) a' = findNode rest a' := by simp [findNode, hna]
          rw [h1, ← ih']
          simp [findNode, hna]

theorem findNode_foldl_decRef (as : List Name) (hnd : as.Nodup) (bn : List Node)
    (hn : (bn.map (·.name)).Nodup) (a' : Name) :
    findNode (as.foldl decRef bn) a' =
      if a' ∈ as then (findNode bn a').bind unbump else findNode bn a' := by
  induction as generalizing bn with
  | nil => simp
  | cons x xs ih =>
    rw [List.nodup_cons] at hnd
    simp only [List.foldl_cons]
    rw [ih hnd.2 _ (names_decRef bn x hn), findNode_decRef _ hn]
    by_cases he : a' = x
    · subst he
      simp [hnd.1]
    · simp [he]

theorem names_foldl_decRef (as : List Name) (bn : List Node) (hn : (bn.map (·.name)).Nodup) :
    ((as.foldl decRef bn).map (·.name)).Nodup := by
  induction as generalizing bn with
  | nil => exact hn
  | cons x xs ih => exact ih _ (names_decRef bn x hn)

theorem locks_nodup (s : Spec) (h : Inv s) : s.locks.Nodup :=
  List.Pairwise.of_map (S := fun x y => x ≠ y) (·.token)
    (fun a b (hab : a.token ≠ b.token) e => hab (by rw [e])) h.tok_nodup

theorem cnt_erase_root (ls : List Lock) (l : Lock) (hl : l ∈ ls)
    (huniq : ∀ x ∈ ls, x.root = l.root → x = l) (hnd : ls.Nodup) (a : Name) :
    cnt ls a = cnt (ls.filter (fun x => !(x.root == l.root))) a + (if a <+: l.root then 1 else 0) := by
  induction ls with
  | nil => simp at hl
  | cons x xs ih =>
    rw [List.nodup_cons] at hnd
    by_cases hx : x.root = l.root
    · have hxl : x = l := huniq x (by simp) hx
      subst hxl
      have hnone : ∀ y ∈ xs, ¬ y.root = x.root := by
        intro y hy hr
        have : y = x := huniq y (by simp [hy]) hr
        subst this
        exact hnd.1 hy
      have hfil : xs.filter (fun y => !(y.root == x.root)) = xs := by
        rw [List.filter_eq_self]
        intro y hy
        simpa using hnone y hy
      simp only [List.filter_cons, beq_self_eq_true, Bool.not_true, Bool.false_eq_true, if_false, hfil]
      unfold cnt
      by_cases hp : a <+: x.root
      · simp [List.filter_cons, hp]
      · simp [List.filter_cons, hp]
    · have hl' : l ∈ xs := by
        simp at hl
        rcases hl with rfl | hl
        · exact absurd rfl hx
        · exact hl
      have ih' := ih hl' (fun y hy => huniq y (by simp [hy])) hnd.2
      have hk : (!(x.root == l.root)) = true := by simpa using hx
      simp only [List.filter_cons, hk, if_true]
      unfold cnt at ih' ⊢
      by_cases hp : a <+: x.root
      · simp only [List.filter_cons, List.isPrefixOf_iff_prefix, hp, decide_true, if_true,
          List.length_cons] at ih' ⊢
        omega
      · simp only [List.filter_cons, List.isPrefixOf_iff_prefix, hp, decide_false,
          Bool.false_eq_true, if_false] at ih' ⊢
        omega

theorem lockAt_erase_root (ls : List Lock) (r a : Name) :
    lockAt (ls.filter (fun x => !(x.root == r))) a = if a = r then none else lockAt ls a := by
  unfold lockAt
  rw [List.find?_filter]
  by_cases he : a = r
  · subst he
    simp only [if_true]
    rw [List.find?_eq_none]
    intro x _
    by_cases hx : x.root = a <;> simp [hx]
  · simp only [he, if_false]
    congr 1
    funext x
    by_cases hx : x.root = a
    · have : ¬ x.root = r := fun e => he (hx.symm.trans e)
      simp [hx, this]
      intro e; exact absurd (hx ▸ e) he
    · simp [hx]

/-- the specification state with the lock rooted at `r` erased -/
def eraseRoot (s : Spec) (r : Name) : Spec :=
  { s with locks := s.locks.filter (fun x => !(x.root == r)) }

theorem R_remove (m : MemLS) (s : Spec) (hR : R m s) (h : Inv s) (l : Lock) (hl : l ∈ s.locks)
    (hun : l.held = false) : R (m.remove l.root) (eraseRoot s l.root) := by
  obtain ⟨n, hfn, hname, hm⟩ := node_of_lock m s hR h l hl
  have huniq : ∀ x ∈ s.locks, x.root = l.root → x = l := fun x hx hr => root_inj s h hx hl hr
  unfold MemLS.remove eraseRoot
  rw [hfn]
  simp only [hm.1]
  constructor
  · exact hR.gen
  · exact hR.holds
  · simp only
    rw [hR.byTok, List.filter_map]
    congr 1
    apply List.filter_congr
    intro x hx
    simp only [Function.comp]
    by_cases hxr : x.root = l.root
    · rw [huniq x hx hxr]; simp
    · have : ¬ x.token = l.token := fun e => hxr (by rw [tok_inj h.tok_nodup hx hl e])
      have e1 : (x.token == l.token) = false := by simpa using this
      have e2 : (x.root == l.root) = false := by simpa using hxr
      rw [e1, e2]
  · simp only
    apply names_foldl_decRef
    rw [names_updNode _ _ _ (by intro n; rfl)]
    exact hR.nodup
  · intro a
    simp only
    rw [findNode_foldl_decRef _ (walk_nodup l.root) _
        (by rw [names_updNode _ _ _ (by intro n; rfl)]; exact hR.nodup),
      findNode_updNode _ _ _ _ (by intro n; rfl)]
    simp only [mem_walk]
    have hold := hR.nodes a
    have hcnt := cnt_erase_root s.locks l hl huniq (locks_nodup s h) a
    have hla := lockAt_erase_root s.locks l.root a
    by_cases hpa : a <+: l.root
    · simp only [hpa, if_true] at hcnt ⊢
      by_cases hea : a = l.root
      · subst hea
        simp only [if_true] at hla ⊢
        rw [hfn]
        simp only [Option.map_some, Option.bind_some, unbump]
        rw [hfn] at hold
        obtain ⟨h1, h2, h3, h4⟩ := hold
        by_cases h0 : n.refCount - 1 = 0
        · simp only [h0, if_true, NodeOK]; omega
        · simp only [h0, if_false, NodeOK]
          rw [hla]
          refine ⟨h1, by omega, by omega, ?_⟩
          simp [NodeMatches, hm.2.2.2.1, hun]
      · simp only [hea, if_false] at hla ⊢
        cases hf : findNode m.byName a with
        | none =>
          rw [hf] at hold
          simp only [NodeOK] at hold
          omega
        | some n' =>
          rw [hf] at hold
          obtain ⟨h1, h2, h3, h4⟩ := hold
          simp only [Option.bind_some, unbump]
          by_cases h0 : n'.refCount - 1 = 0
          · simp only [h0, if_true, NodeOK]; omega
          · simp only [h0, if_false, NodeOK]
            rw [hla]
            refine ⟨h1, by omega, by omega, ?_⟩
            exact (nodeMatches_refCount n' _ _).mpr h4
    · simp only [hpa, if_false, Nat.add_zero] at hcnt ⊢
      have hea : ¬ a = l.root := by intro e; subst e; exact hpa (List.prefix_refl _)
      simp only [hea, if_false] at hla ⊢
      cases hf : findNode m.byName a with
      | none =>
        rw [hf] at hold
        simp only [NodeOK] at hold ⊢
        omega
      | some n' =>
        rw [hf] at hold
        simp only [NodeOK] at hold ⊢
        rw [← hcnt, hla]; exact hold

/-! ### collectExpiredNodes -/

theorem inv_eraseRoot (s : Spec) (r : Name) (h : Inv s) : Inv (eraseRoot s r) :=
  inv_sublist s _ _ h List.filter_sublist

theorem R_foldl_remove (names : List Name) (hnd : names.Nodup) (m : MemLS) (s : Spec) (hR : R m s)
    (h : Inv s) (hP : ∀ a ∈ names, ∃ l ∈ s.locks, l.root = a ∧ l.held = false) :
    R (names.foldl MemLS.remove m)
      ⟨s.locks.filter (fun x => !(names.contains x.root)), s.gen, s.holds⟩ := by
  induction names generalizing m s with
  | nil =>
    simp only [List.foldl_nil, List.contains_nil, Bool.not_false]
    rw [List.filter_eq_self.mpr (by intros; rfl)]
    exact hR
  | cons a rest ih =>
    rw [List.nodup_cons] at hnd
    obtain ⟨l, hl, hra, hun⟩ := hP a (by simp)
    have hR1 := R_remove m s hR h l hl hun
    rw [hra] at hR1
    have hP1 : ∀ a' ∈ rest, ∃ l' ∈ (eraseRoot s a).locks, l'.root = a' ∧ l'.held = false := by
      intro a' ha'
      obtain ⟨l', hl', hr', hu'⟩ := hP a' (by simp [ha'])
      refine ⟨l', ?_, hr', hu'⟩
      simp only [eraseRoot, List.mem_filter, hl', true_and]
      have : ¬ l'.root = a := by rw [hr']; intro e; subst e; exact hnd.1 ha'
      simpa using this
    have := ih hnd.2 (m.remove a) (eraseRoot s a) hR1 (inv_eraseRoot s a h) hP1
    simp only [List.foldl_cons]
    have heq : List.filter (fun x => !(rest.contains x.root)) (eraseRoot s a).locks =
        List.filter (fun x => !((a :: rest).contains x.root)) s.locks := by
      simp only [eraseRoot, List.filter_filter]
      apply List.filter_congr
      intro x _
      by_cases hx : x.root = a <;> simp [hx]
    rw [heq] at this
    exact this

theorem R_collect (m : MemLS) (s : Spec) (hR : R m s) (h : Inv s) (now : Int) :
    R (m.collect now) (s.collect now) := by
  unfold MemLS.collect Spec.collect
  have hnd : ((m.byName.filter (fun n => n.inHeap && decide (n.expiry ≤ now))).map (·.name)).Nodup :=
    hR.nodup.sublist (List.Sublist.map _ List.filter_sublist)
  -- a node in the heap with expiry ≤ now is the node of an expired lock, and conversely
  have key : ∀ x ∈ s.locks,
      (((m.byName.filter (fun n => n.inHeap && decide (n.expiry ≤ now))).map (·.name)).contains x.root
        = true ↔ x.expired now = true) := by
    intro x hx
    obtain ⟨n, hfn, hname, hm⟩ := node_of_lock m s hR h x hx
    obtain ⟨_, hmem⟩ := findNode_name _ _ _ hfn
    obtain ⟨_, _, hdur, hheld, hexp, hheap⟩ := hm
    simp only [List.contains_iff_mem, List.mem_map, List.mem_filter, Bool.and_eq_true,
      decide_eq_true_eq]
    constructor
    · rintro ⟨n', ⟨hn', hh', he'⟩, hnm⟩
      have : findNode m.byName n'.name = some n' := findNode_of_mem _ hR.nodup n' hn'
      rw [hnm, hfn] at this
      simp at this; subst this
      rw [hheap] at hh'
      simp only [Bool.and_eq_true, Bool.not_eq_eq_eq_not, Bool.not_true, decide_eq_true_eq] at hh'
      unfold Lock.expired
      simp [hh'.1, hh'.2, ← hexp hh'.2, he']
    · intro he
      unfold Lock.expired at he
      simp only [Bool.and_eq_true, Bool.not_eq_eq_eq_not, Bool.not_true, decide_eq_true_eq] at he
      refine ⟨n, ⟨hmem, ?_, ?_⟩, hname⟩
      · rw [hheap]; simp [he.1.1, he.1.2]
      · rw [hexp he.1.2]; exact he.2
  have hP : ∀ a ∈ (m.byName.filter (fun n => n.inHeap && decide (n.expiry ≤ now))).map (·.name),
      ∃ l ∈ s.locks, l.root = a ∧ l.held = false := by
    intro a ha
    simp only [List.mem_map, List.mem_filter, Bool.and_eq_true, decide_eq_true_eq] at ha
    obtain ⟨n, ⟨hn, hh, _⟩, rfl⟩ := ha
    have hfn : findNode m.byName n.name = some n := findNode_of_mem _ hR.nodup n hn
    have hok := hR.nodes n.name
    rw [hfn] at hok
    obtain ⟨_, _, _, hm⟩ := hok
    cases hla : lockAt s.locks n.name with
    | none => rw [hla] at hm; rw [hm.2.2] at hh; simp at hh
    | some l =>
      rw [hla] at hm
      obtain ⟨hl, hr⟩ := lockAt_mem _ _ _ hla
      refine ⟨l, hl, hr, ?_⟩
      rw [hm.2.2.2.2.2] at hh
      simp at hh
      exact hh.1
  have := R_foldl_remove _ hnd m s hR h hP
  have heq : List.filter (fun x => !(((m.byName.filter (fun n => n.inHeap && decide (n.expiry ≤ now))).map
      (·.name)).contains x.root)) s.locks = List.filter (fun l => !l.expired now) s.locks := by
    apply List.filter_congr
    intro x hx
    have := key x hx
    rw [Bool.eq_iff_iff]
    simp only [Bool.not_eq_true', ← Bool.not_eq_true, this]
  rw [heq] at this
  exact this

/-! ### Refresh / Unlock -/

theorem cnt_map (ls : List Lock) (f : Lock → Lock) (hf : ∀ x, (f x).root = x.root) (a : Name) :
    cnt (ls.map f) a = cnt ls a := by
  unfold cnt
  rw [List.filter_map, List.length_map]
  congr 1
  apply List.filter_congr
  intro x _
  simp [Function.comp, hf]

theorem lockAt_map (ls : List Lock) (f : Lock → Lock) (hf : ∀ x, (f x).root = x.root) (a : Name) :
    lockAt (ls.map f) a = (lockAt ls a).map f := by
  unfold lockAt
  rw [List.find?_map]
  congr 2
  funext x
  simp [Function.comp, hf]

theorem R_refreshCore (m : MemLS) (s : Spec) (hR : R m s) (h : Inv s) (now : Int)
    (tok : Option Nat) (dur : Int) :
    R (m.refreshCore now tok dur).1 (s.refreshCore now tok dur).1 ∧
    (m.refreshCore now tok dur).2 = (s.refreshCore now tok dur).2 := by
  unfold MemLS.refreshCore Spec.refreshCore
  have hrel := nodeOfToken_rel m s hR h tok
  cases hn : m.nodeOfToken tok with
  | none =>
    cases hl : s.findTok tok with
    | none => exact ⟨hR, by simp⟩
    | some l => rw [hn, hl] at hrel; exact absurd hrel (by simp [NL])
  | some n =>
    cases hl : s.findTok tok with
    | none => rw [hn, hl] at hrel; exact absurd hrel (by simp [NL])
    | some l =>
      rw [hn, hl] at hrel
      obtain ⟨hname, hm⟩ := hrel
      obtain ⟨htok, hzd, hdur, hheld, hexp, hheap⟩ := id hm
      obtain ⟨hlm, _⟩ := findTok_mem _ _ _ hl
      simp only
      rw [hheld]
      by_cases hh : l.held = true
      · simp only [hh, if_true]; exact ⟨hR, by simp⟩
      · simp only [hh, Bool.false_eq_true, if_false]
        have hhf : l.held = false := by simpa using hh
        refine ⟨?_, by rw [hname, hzd]⟩
        have hfroot : ∀ x : Lock, ((fun x : Lock => if x.token == l.token then
            { x with duration := dur, expiry := newExpiry now dur x.expiry } else x) x).root = x.root := by
          intro x; dsimp only; split <;> rfl
        constructor
        · exact hR.gen
        · exact hR.holds
        · simp only
          rw [hR.byTok, List.map_map]
          apply List.map_congr_left
          intro x _
          simp only [Function.comp]
          split <;> rfl
        · simp only
          rw [names_updNode _ _ _ (by intro n; rfl)]; exact hR.nodup
        · intro a
          simp only
          rw [findNode_updNode _ _ _ _ (by intro n; rfl)]
          have hold := hR.nodes a
          have hcnt := cnt_map s.locks _ hfroot a
          have hla := lockAt_map s.locks _ hfroot a
          rw [hname]
          by_cases hea : a = l.root
          · subst hea
            simp only [if_true]
            obtain ⟨n', hfn', _, _⟩ := node_of_lock m s hR h l hlm
            have hnn : m.nodeOfToken tok = some n' := by
              -- the node found through byToken is the node of l's root
              have := nodeOfToken_rel m s hR h tok
              rw [hl] at this
              cases hq : m.nodeOfToken tok with
              | none => rw [hq] at this; exact absurd this (by simp [NL])
              | some q =>
                rw [hq] at this
                rw [hn] at hq; simp at hq; subst hq
                have hq2 : findNode m.byName n.name = some n := by
                  unfold MemLS.nodeOfToken at hn
                  split at hn
                  · simp at hn
                  · split at hn
                    · simp at hn
                    · rename_i p _
                      have := findNode_name _ _ _ hn
                      rw [← this.1] at hn; exact hn
                rw [hname, hfn'] at hq2
                simp at hq2; subst hq2; rfl
            rw [hn] at hnn; simp at hnn; subst hnn
            rw [hfn']
            rw [hfn'] at hold
            obtain ⟨h1, h2, h3, h4⟩ := hold
            simp only [Option.map_some, NodeOK]
            rw [hcnt, hla, lockAt_some s h l hlm]
            refine ⟨h1, h2, h3, ?_⟩
            simp [NodeMatches, htok, hzd, hheld, hhf, newExpiry]
            intro hd; simp [hd]
          · simp only [hea, if_false]
            have hlaa : (lockAt s.locks a).map (fun x : Lock => if x.token == l.token then
                { x with duration := dur, expiry := newExpiry now dur x.expiry } else x)
                = lockAt s.locks a := by
              cases hq : lockAt s.locks a with
              | none => rfl
              | some x =>
                obtain ⟨hxm, hxr⟩ := lockAt_mem _ _ _ hq
                have : ¬ x.token = l.token := by
                  intro e
                  have := tok_inj h.tok_nodup hxm hlm e
                  subst this
                  exact hea hxr.symm
                simp [this]
            cases hf : findNode m.byName a with
            | none =>
              rw [hf] at hold
              simp only [NodeOK] at hold ⊢
              rw [hcnt]; exact hold
            | some n' =>
              rw [hf] at hold
              simp only [NodeOK] at hold ⊢
              rw [hcnt, hla, hlaa]; exact hold

theorem filter_token_eq_eraseRoot (s : Spec) (h : Inv s) (l : Lock) (hl : l ∈ s.locks) :
    s.locks.filter (fun x => !(x.token == l.token)) = s.locks.filter (fun x => !(x.root == l.root)) := by
  apply List.filter_congr
  intro x hx
  by_cases hxr : x.root = l.root
  · rw [root_inj s h hx hl hxr]; simp
  · have : ¬ x.token = l.token := fun e => hxr (by rw [tok_inj h.tok_nodup hx hl e])
    have e1 : (x.token == l.token) = false := by simpa using this
    have e2 : (x.root == l.root) = false := by simpa using hxr
    rw [e1, e2]

theorem R_unlockCore (m : MemLS) (s : Spec) (hR : R m s) (h : Inv s) (tok : Option Nat) :
    R (m.unlockCore tok).1 (s.unlockCore tok).1 ∧ (m.unlockCore tok).2 = (s.unlockCore tok).2 := by
  unfold MemLS.unlockCore Spec.unlockCore
  have hrel := nodeOfToken_rel m s hR h tok
  cases hn : m.nodeOfToken tok with
  | none =>
    cases hl : s.findTok tok with
    | none => exact ⟨hR, by simp⟩
    | some l => rw [hn, hl] at hrel; exact absurd hrel (by simp [NL])
  | some n =>
    cases hl : s.findTok tok with
    | none => rw [hn, hl] at hrel; exact absurd hrel (by simp [NL])
    | some l =>
      rw [hn, hl] at hrel
      obtain ⟨hname, hm⟩ := hrel
      obtain ⟨hlm, _⟩ := findTok_mem _ _ _ hl
      simp only
      rw [hm.2.2.2.1]
      by_cases hh : l.held = true
      · simp only [hh, if_true]; exact ⟨hR, by simp⟩
      · simp only [hh, Bool.false_eq_true, if_false]
        refine ⟨?_, by simp⟩
        have := R_remove m s hR h l hlm (by simpa using hh)
        rw [hname, filter_token_eq_eraseRoot s h l hlm]
        exact this

/-! ### hold / unhold -/

/-- `hold` (v = true) and `unhold` (v = false) on a node -/
def gHeld (v : Bool) (n : Node) : Node :=
  { n with held := v, inHeap := !v && decide (0 ≤ n.duration) }

theorem gHeld_idem (v : Bool) (n : Node) : gHeld v (gHeld v n) = gHeld v n := rfl

theorem findNode_foldl_upd (g : Node → Node) (hg : ∀ n, (g n).name = n.name)
    (hidem : ∀ n, g (g n) = g n) (as : List Name) (bn : List Node) (a' : Name) :
    findNode (as.foldl (fun bn a => updNode bn a g) bn) a' =
      if a' ∈ as then (findNode bn a').map g else findNode bn a' := by
  induction as generalizing bn with
  | nil => simp
  | cons x xs ih =>
    simp only [List.foldl_cons]
    rw [ih, findNode_updNode _ _ _ _ hg]
    by_cases he : a' = x
    · subst he
      by_cases hm : a' ∈ xs
      · simp only [hm, if_true, List.mem_cons, true_or]
        cases findNode bn a' <;> simp [hidem]
      · simp [hm]
    · by_cases hm : a' ∈ xs <;> simp [he, hm]

theorem names_foldl_upd (g : Node → Node) (hg : ∀ n, (g n).name = n.name) (as : List Name)
    (bn : List Node) : (as.foldl (fun bn a => updNode bn a g) bn).map (·.name) = bn.map (·.name) := by
  induction as generalizing bn with
  | nil => rfl
  | cons x xs ih =>
    simp only [List.foldl_cons]
    rw [ih, names_updNode _ _ _ hg]

theorem R_setHeld (m : MemLS) (s : Spec) (hR : R m s) (h : Inv s) (v : Bool)
    (ps : List (Nat × Name)) (ns : List Name)
    (hps : ∀ p ∈ ps, ∃ l ∈ s.locks, l.token = p.1 ∧ l.root = p.2)
    (hns : ∀ a, a ∈ ns ↔ a ∈ ps.map (·.2))
    (Hm : List (Option (List Name))) (Hs : List (Option (List (Nat × Name))))
    (hH : Hm = Hs.map (Option.map (List.map Prod.snd))) :
    R ⟨ns.foldl (fun bn a => updNode bn a (gHeld v)) m.byName, m.byToken, m.gen, Hm⟩
      ⟨setHeld s.locks (ps.map (·.1)) v, s.gen, Hs⟩ := by
  have hroot : ∀ x : Lock, ((fun x : Lock => if (ps.map (·.1)).contains x.token then
      { x with held := v } else x) x).root = x.root := fun x => (sameShape_setHeld _ v x).2.1
  have key : ∀ x ∈ s.locks, (x.token ∈ ps.map (·.1) ↔ x.root ∈ ns) := by
    intro x hx
    rw [hns]
    simp only [List.mem_map]
    constructor
    · rintro ⟨p, hp, hpt⟩
      obtain ⟨l, hl, h1, h2⟩ := hps p hp
      have : x = l := tok_inj h.tok_nodup hx hl (by rw [h1, hpt])
      subst this
      exact ⟨p, hp, h2.symm⟩
    · rintro ⟨p, hp, hpr⟩
      obtain ⟨l, hl, h1, h2⟩ := hps p hp
      have : x = l := root_inj s h hx hl (by rw [h2, hpr])
      subst this
      exact ⟨p, hp, h1.symm⟩
  constructor
  · exact hR.gen
  · exact hH
  · simp only [setHeld]
    rw [hR.byTok, List.map_map]
    apply List.map_congr_left
    intro x _
    have := sameShape_setHeld (ps.map (·.1)) v x
    simp only [Function.comp]
    rw [this.1, this.2.1]
  · simp only
    rw [names_foldl_upd _ (by intro n; rfl)]; exact hR.nodup
  · intro a
    simp only [setHeld]
    rw [findNode_foldl_upd _ (by intro n; rfl) (gHeld_idem v)]
    have hold := hR.nodes a
    have hcnt := cnt_map s.locks _ hroot a
    have hla := lockAt_map s.locks _ hroot a
    by_cases hm : a ∈ ns
    · simp only [hm, if_true]
      obtain ⟨p, hp, hpa⟩ := List.mem_map.mp ((hns a).mp hm)
      obtain ⟨l, hl, h1, h2⟩ := hps p hp
      have hra : l.root = a := h2.trans hpa
      obtain ⟨n, hfn, hname, hmt⟩ := node_of_lock m s hR h l hl
      rw [hra] at hfn
      rw [hfn] at hold ⊢
      obtain ⟨g1, g2, g3, _⟩ := hold
      simp only [Option.map_some, NodeOK]
      rw [hcnt, hla, ← hra, lockAt_some s h l hl]
      have hin : (ps.map (·.1)).contains l.token = true := by
        simp only [List.contains_iff_mem, List.mem_map]
        exact ⟨p, hp, h1.symm⟩
      simp only [Option.map_some, hin, if_true]
      refine ⟨by rw [hra]; exact g1, by rw [hra]; exact g2, by rw [hra]; exact g3, ?_⟩
      obtain ⟨t1, t2, t3, t4, t5, t6⟩ := hmt
      exact ⟨t1, t2, t3, rfl, t5, by simp [gHeld, t3]⟩
    · simp only [hm, if_false]
      have hlaa : (lockAt s.locks a).map (fun x : Lock => if (ps.map (·.1)).contains x.token then
          { x with held := v } else x) = lockAt s.locks a := by
        cases hq : lockAt s.locks a with
        | none => rfl
        | some x =>
          obtain ⟨hxm, hxr⟩ := lockAt_mem _ _ _ hq
          have : ¬ x.token ∈ ps.map (·.1) := fun e => hm (hxr ▸ (key x hxm).mp e)
          have hc : (ps.map (·.1)).contains x.token = false := by
            simpa [List.contains_iff_mem] using this
          simp only [Option.map_some]
          rw [if_neg (by rw [hc]; simp)]
      cases hf : findNode m.byName a with
      | none =>
        rw [hf] at hold
        simp only [NodeOK] at hold ⊢
        rw [hcnt]; exact hold
      | some n' =>
        rw [hf] at hold
        simp only [NodeOK] at hold ⊢
        rw [hcnt, hla, hlaa]; exact hold

/-! ### release / Confirm -/

theorem R_release (m : MemLS) (s : Spec) (hR : R m s) (hI : HInv s) (k : Nat) :
    R (m.release k).1 (s.release k).1 ∧ (m.release k).2 = (s.release k).2 := by
  unfold MemLS.release Spec.release
  have hk : m.holds[k]? = (s.holds[k]?).map (Option.map (List.map Prod.snd)) := by
    rw [hR.holds, List.getElem?_map]
  rw [hk]
  cases hs : s.holds[k]? with
  | none => exact ⟨hR, by simp⟩
  | some o =>
    cases o with
    | none => exact ⟨hR, by simp⟩
    | some ps =>
      simp only [Option.map_some]
      refine ⟨?_, by simp⟩
      have hps : ∀ p ∈ ps, ∃ l ∈ s.locks, l.token = p.1 ∧ l.root = p.2 := by
        intro p hp
        obtain ⟨l, hl, h1, h2, _⟩ := hI.hh k ps hs p hp
        exact ⟨l, hl, h1, h2⟩
      have := R_setHeld m s hR hI.inv false ps (ps.map Prod.snd) hps (fun a => Iff.rfl)
        (m.holds.set k none) (s.holds.set k none) (by rw [hR.holds, List.map_set]; rfl)
      exact this

/-- correspondence of the results of `lookupName` -/
def NLo : Option (Option Node) → Option (Option Lock) → Prop
  | none, none => True
  | some x, some y => NL x y
  | _, _ => False

theorem lookupName_rel (m : MemLS) (s : Spec) (hR : R m s) (h : Inv s) (raw : Bytes)
    (toks : List (Option Nat)) : NLo (m.lookupName raw toks) (s.lookupName raw toks) := by
  unfold MemLS.lookupName Spec.lookupName
  by_cases hr : raw = []
  · simp [hr, NLo, NL]
  · simp only [hr, if_false]
    have := lookup_rel m s hR h (slashCleanComps raw) toks
    cases hm : m.lookup (slashCleanComps raw) toks with
    | none =>
      cases hs : s.lookup (slashCleanComps raw) toks with
      | none => simp [NLo]
      | some l => rw [hm, hs] at this; exact absurd this (by simp [NL])
    | some n =>
      cases hs : s.lookup (slashCleanComps raw) toks with
      | none => rw [hm, hs] at this; exact absurd this (by simp [NL])
      | some l => rw [hm, hs] at this; simpa [NLo] using this

theorem R_confirmCore (m : MemLS) (s : Spec) (hR : R m s) (h : Inv s) (n0 n1 : Bytes)
    (toks : List (Option Nat)) :
    R (m.confirmCore n0 n1 toks).1 (s.confirmCore n0 n1 toks).1 ∧
    (m.confirmCore n0 n1 toks).2 = (s.confirmCore n0 n1 toks).2 := by
  unfold MemLS.confirmCore Spec.confirmCore
  have hr0 := lookupName_rel m s hR h n0 toks
  have hr1 := lookupName_rel m s hR h n1 toks
  cases hm0 : m.lookupName n0 toks with
  | none =>
    cases hs0 : s.lookupName n0 toks with
    | none => exact ⟨hR, by simp⟩
    | some y => rw [hm0, hs0] at hr0; exact absurd hr0 (by simp [NLo])
  | some x0 =>
    cases hs0 : s.lookupName n0 toks with
    | none => rw [hm0, hs0] at hr0; exact absurd hr0 (by simp [NLo])
    | some l0 =>
      rw [hm0, hs0] at hr0
      cases hm1 : m.lookupName n1 toks with
      | none =>
        cases hs1 : s.lookupName n1 toks with
        | none => exact ⟨hR, by simp⟩
        | some y => rw [hm1, hs1] at hr1; exact absurd hr1 (by simp [NLo])
      | some x1 =>
        cases hs1 : s.lookupName n1 toks with
        | none => rw [hm1, hs1] at hr1; exact absurd hr1 (by simp [NLo])
        | some l1 =>
          rw [hm1, hs1] at hr1
          simp only [NLo] at hr0 hr1
          have hl0 := lookupName_sound s n0 toks l0 hs0
          have hl1 := lookupName_sound s n1 toks l1 hs1
          simp only
          refine ⟨?_, by rw [hR.holds]; simp⟩
          -- the two "same node" tests agree
          have hcond : (x1.map (·.name) = x0.map (·.name)) ↔ (l1.map (·.token) = l0.map (·.token)) := by
            cases x0 with
            | none =>
              cases l0 with
              | some _ => exact absurd hr0 (by simp [NL])
              | none =>
                cases x1 with
                | none =>
                  cases l1 with
                  | some _ => exact absurd hr1 (by simp [NL])
                  | none => simp
                | some a1 =>
                  cases l1 with
                  | none => exact absurd hr1 (by simp [NL])
                  | some b1 => simp
            | some a0 =>
              cases l0 with
              | none => exact absurd hr0 (by simp [NL])
              | some b0 =>
                cases x1 with
                | none =>
                  cases l1 with
                  | some _ => exact absurd hr1 (by simp [NL])
                  | none => simp
                | some a1 =>
                  cases l1 with
                  | none => exact absurd hr1 (by simp [NL])
                  | some b1 =>
                    simp only [Option.map_some, Option.some.injEq]
                    rw [hr0.1, hr1.1]
                    have hb0 := (hl0 b0 rfl).1
                    have hb1 := (hl1 b1 rfl).1
                    constructor
                    · intro e; rw [root_inj s h hb1 hb0 e]
                    · intro e; rw [tok_inj h.tok_nodup hb1 hb0 e]
          -- reduce to R_setHeld
          have hfold : ∀ (ns : List Node) (bn : List Node),
              ns.foldl (fun bn n => holdNode bn n.name) bn =
                (ns.map (·.name)).foldl (fun bn a => updNode bn a (gHeld true)) bn := by
            intro ns bn
            rw [List.foldl_map]
            rfl
          rw [hfold]
          have hAB : List.map (fun x : Node => x.name)
              ((if Option.map (fun x => x.name) x1 = Option.map (fun x => x.name) x0 then none else x1).toList ++
                x0.toList) =
              List.map Prod.snd (List.map (fun l : Lock => (l.token, l.root))
                ((if Option.map (fun x => x.token) l1 = Option.map (fun x => x.token) l0 then none else l1).toList ++
                  l0.toList)) := by
            by_cases hc : x1.map (·.name) = x0.map (·.name)
            · have hc' := hcond.mp hc
              rw [if_pos hc, if_pos hc']
              cases x0 with
              | none => cases l0 with
                | none => rfl
                | some _ => exact absurd hr0 (by simp [NL])
              | some a0 => cases l0 with
                | none => exact absurd hr0 (by simp [NL])
                | some b0 => simp [hr0.1]
            · have hc' : ¬ _ := fun e => hc (hcond.mpr e)
              rw [if_neg hc, if_neg hc']
              cases x0 with
              | none => cases l0 with
                | some _ => exact absurd hr0 (by simp [NL])
                | none =>
                  cases x1 with
                  | none => cases l1 with
                    | none => rfl
                    | some _ => exact absurd hr1 (by simp [NL])
                  | some a1 => cases l1 with
                    | none => exact absurd hr1 (by simp [NL])
                    | some b1 => simp [hr1.1]
              | some a0 => cases l0 with
                | none => exact absurd hr0 (by simp [NL])
                | some b0 =>
                  cases x1 with
                  | none => cases l1 with
                    | none => simp [hr0.1]
                    | some _ => exact absurd hr1 (by simp [NL])
                  | some a1 => cases l1 with
                    | none => exact absurd hr1 (by simp [NL])
                    | some b1 => simp [hr0.1, hr1.1]
          have hH : m.holds ++ [some (List.map (fun x => x.name)
              ((if Option.map (fun x => x.name) x1 = Option.map (fun x => x.name) x0 then none else x1).toList ++
                x0.toList))] =
              (s.holds ++ [some (List.map (fun l => (l.token, l.root))
                ((if Option.map (fun x => x.token) l1 = Option.map (fun x => x.token) l0 then none else l1).toList ++
                  l0.toList))]).map (Option.map (List.map Prod.snd)) := by
            rw [hR.holds, hAB]; simp
          have hps : ∀ p ∈ List.map (fun l : Lock => (l.token, l.root))
              ((if Option.map (fun x => x.token) l1 = Option.map (fun x => x.token) l0 then none else l1).toList ++
                l0.toList), ∃ l ∈ s.locks, l.token = p.1 ∧ l.root = p.2 := by
            intro p hp
            simp only [List.mem_map, List.mem_append, Option.mem_toList] at hp
            obtain ⟨l, hl, rfl⟩ := hp
            rcases hl with hl | hl
            · split at hl
              · simp at hl
              · exact ⟨l, (hl1 l hl).1, rfl, rfl⟩
            · exact ⟨l, (hl0 l hl).1, rfl, rfl⟩
          have hns : ∀ a, a ∈ List.map (fun x : Node => x.name)
              (x0.toList ++ (if Option.map (fun x => x.name) x1 = Option.map (fun x => x.name) x0 then none else x1).toList)
              ↔ a ∈ (List.map (fun l : Lock => (l.token, l.root))
              ((if Option.map (fun x => x.token) l1 = Option.map (fun x => x.token) l0 then none else l1).toList ++
                l0.toList)).map (·.2) := by
            intro a
            -- both sides are the names of the same ≤ 2 locks, listed in opposite order
            rw [show (List.map (fun l : Lock => (l.token, l.root))
              ((if Option.map (fun x => x.token) l1 = Option.map (fun x => x.token) l0 then none else l1).toList ++
                l0.toList)).map (·.2) = _ from hAB.symm]
            simp only [List.map_append, List.mem_append]
            exact Or.comm
          exact R_setHeld m s hR h true _ _ hps hns _ _ hH

/-! ### the refinement theorem -/

structure RI (m : MemLS) (s : Spec) : Prop where
  r : R m s
  hi : HInv s

theorem RI_step (m : MemLS) (s : Spec) (hRI : RI m s) (op : Op) :
    RI (m.step op).1 (s.step op).1 ∧ (m.step op).2 = (s.step op).2 := by
  obtain ⟨hR, hI⟩ := hRI
  cases op with
  | create now root zd dur =>
    have hc := R_collect m s hR hI.inv now
    have hic := hinv_collect s now hI
    have := R_createCore _ _ hc hic.inv now (slashCleanComps root) zd dur
    exact ⟨⟨this.1, hinv_createCore _ _ _ _ _ hic⟩, this.2⟩
  | refresh now tok dur =>
    have hc := R_collect m s hR hI.inv now
    have hic := hinv_collect s now hI
    have := R_refreshCore _ _ hc hic.inv now tok dur
    exact ⟨⟨this.1, hinv_refreshCore _ _ _ _ hic⟩, this.2⟩
  | unlock now tok =>
    have hc := R_collect m s hR hI.inv now
    have hic := hinv_collect s now hI
    have := R_unlockCore _ _ hc hic.inv tok
    exact ⟨⟨this.1, hinv_unlockCore _ _ hic⟩, this.2⟩
  | confirm now n0 n1 toks =>
    have hc := R_collect m s hR hI.inv now
    have hic := hinv_collect s now hI
    have := R_confirmCore _ _ hc hic.inv n0 n1 toks
    exact ⟨⟨this.1, hinv_confirmCore _ _ _ _ hic⟩, this.2⟩
  | release k =>
    have := R_release m s hR hI k
    exact ⟨⟨this.1, hinv_release _ _ hI⟩, this.2⟩

theorem RI_run (m : MemLS) (s : Spec) (hRI : RI m s) (ops : List Op) :
    RI (m.run ops).1 (s.run ops).1 ∧ (m.run ops).2 = (s.run ops).2 := by
  induction ops generalizing m s with
  | nil => exact ⟨hRI, rfl⟩
  | cons op ops ih =>
    simp only [MemLS.run, Spec.run]
    obtain ⟨h1, h2⟩ := RI_step m s hRI op
    obtain ⟨h3, h4⟩ := ih _ _ h1
    exact ⟨h3, by rw [h2, h4]⟩

/-- **Refinement.** For every history (any ops, any clock values) the implementation model of
`memLS` — byName reference-count tree, byToken map, expiry-heap membership flags, hold/unhold —
returns exactly the results of the specification state machine, so every clause proved for
`Spec` holds for the results of the implementation model. -/
theorem memLS_refines_spec (ops : List Op) :
    (MemLS.init.run ops).2 = (Spec.init.run ops).2 :=
  (RI_run _ _ ⟨R_init, hinv_init⟩ ops).2

/-! ### the property clauses transferred to the implementation model -/

theorem reachable_RI (ops : List Op) : RI (MemLS.init.run ops).1 (Spec.init.run ops).1 :=
  (RI_run _ _ ⟨R_init, hinv_init⟩ ops).1

/-- Tokens returned by the implementation model are never repeated within a history. -/
theorem impl_tokens_unique (ops : List Op) : (createdToks (MemLS.init.run ops).2).Nodup := by
  rw [memLS_refines_spec]; exact tokens_unique ops

/-- After any history, `Create` on the implementation model succeeds exactly when no live lock
of the (abstract) lock list conflicts. -/
theorem impl_create_succeeds_iff (ops : List Op) (now : Int) (raw : Bytes) (zd : Bool) (dur : Int) :
    ((MemLS.init.run ops).1.create now raw zd dur).2 = .created (Spec.init.run ops).1.gen ↔
      ∀ l ∈ (Spec.init.run ops).1.locks, l.expired now = false →
        l.conflicts (slashCleanComps raw) zd = false := by
  have := (RI_step _ _ (reachable_RI ops) (.create now raw zd dur)).2
  simp only [MemLS.step, Spec.step] at this
  rw [this]
  exact create_succeeds_iff _ now raw zd dur

/-- After any history, Refresh and Unlock of a held lock answer ErrLocked on the implementation
model, and those of an expired unheld lock answer ErrNoSuchLock. -/
theorem impl_held_and_expired (ops : List Op) (l : Lock) (hl : l ∈ (Spec.init.run ops).1.locks)
    (now dur : Int) :
    (l.held = true →
      ((MemLS.init.run ops).1.refresh now (some l.token) dur).2 = .errLocked ∧
      ((MemLS.init.run ops).1.unlock now (some l.token)).2 = .errLocked) ∧
    (l.expired now = true →
      ((MemLS.init.run ops).1.refresh now (some l.token) dur).2 = .errNoSuchLock ∧
      ((MemLS.init.run ops).1.unlock now (some l.token)).2 = .errNoSuchLock) := by
  have hri := reachable_RI ops
  have h1 := (RI_step _ _ hri (.refresh now (some l.token) dur)).2
  have h2 := (RI_step _ _ hri (.unlock now (some l.token))).2
  simp only [MemLS.step, Spec.step] at h1 h2
  rw [h1, h2]
  constructor
  · intro hh
    rw [held_refresh _ hri.hi.inv l hl hh, held_unlock _ hri.hi.inv l hl hh]
    exact ⟨rfl, rfl⟩
  · intro he
    exact ⟨expired_refresh _ hri.hi.inv l hl now dur he, expired_unlock _ hri.hi.inv l hl now he⟩

/-! ### non-vacuity: concrete histories evaluated on both models -/

/-- "/a" infinite for 10 s; "/a/b" conflicts at t=1 and is free again at t=10 (expiry reached). -/
example : (Spec.init.run [.create 0 [47,97] false 10, .create 1 [47,97,47,98] true (-1),
    .create 10 [47,97,47,98] true (-1)]).2 = [.created 0, .errLocked, .created 1] := by decide
example : (MemLS.init.run [.create 0 [47,97] false 10, .create 1 [47,97,47,98] true (-1),
    .create 10 [47,97,47,98] true (-1)]).2 = [.created 0, .errLocked, .created 1] := by decide
/-- a confirmed lock rejects Refresh/Unlock/Confirm, survives its expiry while held, and is
collected after release. -/
example : (MemLS.init.run [.create 0 [47,97] true 5, .confirm 1 [47,97] [] [some 0],
    .refresh 2 (some 0) 9, .unlock 2 (some 0), .confirm 2 [47,97] [] [some 0],
    .create 7 [47,97] true 5, .release 0, .create 7 [47,97] true 5]).2 =
    [.created 0, .confirmed 0, .errLocked, .errLocked, .errConfirmationFailed, .errLocked, .ok,
     .created 1] := by decide

end NetVerif.Proofs.C43
