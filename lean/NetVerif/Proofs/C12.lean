import NetVerif.Proofs.Lemmas.WriteSchedRefine
import NetVerif.Proofs.Lemmas.WriteSched7540Reach
/-!
# C12 — HTTP/2 write schedulers deliver every queued frame exactly once, in order

Model: `NetVerif.Model.WriteSched` (round-robin, RFC 9218, random; `writeQueue`, `Consume`).
Specification: `NetVerif.Proofs.WriteSchedSpec` (control FIFO + per-stream FIFOs + windows).

`run_refines` : every contract-respecting history of each of the three schedulers is a run of the
specification (`SpecRun`), whose `Pop` steps are, by construction (`PopSpec`):
control frames first in FIFO order; otherwise the head of one stream's FIFO, whole, or split by
`Consume` with the remainder staying at the head; "nothing" only if no queued frame is sendable.
`specRun_ledger` then gives conservation, order, exactly-once, no zero request, no panic.
-/
namespace NetVerif.Proofs.C12
open NetVerif.Model.WriteSched NetVerif.Proofs.WriteSchedLemmas NetVerif.Proofs.WriteSchedSpec
  NetVerif.Proofs.WriteSchedRefine NetVerif.Proofs.WriteSched7540

/-- Abstraction of a scheduler state. -/
def absS : Sched → Abs
  | .rr s => absRR s
  | .p9 s => absP9 s
  | .rnd s => absRand s

/-- Representation invariant, relative to the set of open streams. -/
def InvS (opn : Nat → Bool) : Sched → Prop
  | .rr s => RRInv s opn
  | .p9 s => P9Inv s opn
  | .rnd s => RandInv s

/-- Every call is a step of the specification and keeps the invariant. -/
theorem step_refines {s : Sched} {opn : Nat → Bool} {op : Op} (e : Env)
    (hi : InvS opn s) (hwf : AbsWF (absS s) opn) (hok : OpOK opn op) :
    StepSpec True e (absS s) op (s.step e op).2.2 (s.step e op).1 (absS (s.step e op).2.1) ∧
      InvS (opnOp opn op) (s.step e op).2.1 := by
  cases s with
  | rr s =>
    obtain ⟨e', s', r, h1, h2, h3⟩ := rr_step e hi hwf hok
    rw [h1]; exact ⟨h2, h3⟩
  | p9 s =>
    obtain ⟨e', s', r, h1, h2, h3⟩ := p9_step e hi hwf hok
    rw [h1]; exact ⟨h2, h3⟩
  | rnd s =>
    obtain ⟨e', s', r, h1, h2, h3⟩ := rand_step (opn := opn) e hi hok
    rw [h1]; exact ⟨h2, h3⟩

/-- **Refinement over histories.**  From any state satisfying the invariant, a contract-respecting
history is a run of the specification; the ledger stays balanced; no `Pop` yields the zero request and
no call panics. -/
theorem run_refines (ops : List Op) : ∀ (s : Sched) (opn : Nat → Bool) (e : Env) (L : Ledger),
    InvS opn s → AbsWF (absS s) opn → LedgerOK (absS s) L → Contract opn ops →
    ∃ L', SpecRun True e (absS s) L ops (s.run e ops).2.2 (s.run e ops).1 (absS (s.run e ops).2.1) L' ∧
      LedgerOK (absS (s.run e ops).2.1) L' ∧
      (∀ r ∈ (s.run e ops).2.2, r ≠ .frame .empty ∧ r ≠ .panic) := by
  induction ops with
  | nil => intro s opn e L _ _ hl _; exact ⟨L, SpecRun.nil, hl, by simp [Sched.run]⟩
  | cons op ops ih =>
    intro s opn e L hi hwf hl hc
    obtain ⟨hok, hc'⟩ := hc
    obtain ⟨hstep, hi'⟩ := step_refines e hi hwf hok
    obtain ⟨hwf', hl', hne, hnp⟩ := step_preserves hwf hl hok hstep
    obtain ⟨L', hrun, hlo, hres⟩ := ih (s.step e op).2.1 (opnOp opn op) (s.step e op).1 _ hi' hwf' hl' hc'
    refine ⟨L', ?_, ?_, ?_⟩
    · simp only [Sched.run]
      exact SpecRun.cons hstep hrun
    · simpa [Sched.run] using hlo
    · intro r hr
      simp only [Sched.run, List.mem_cons] at hr
      rcases hr with rfl | hr
      · exact ⟨hne, hnp⟩
      · exact hres r hr

/-- The three schedulers of this file, freshly constructed. -/
inductive Kind where
  | rr | p9218 | rand
  deriving DecidableEq, Repr

def Kind.init : Kind → Sched
  | .rr => .rr {}
  | .p9218 => .p9 {}
  | .rand => .rnd {}

theorem init_inv (k : Kind) : InvS (fun _ => false) k.init ∧ absS k.init = Abs.empty := by
  cases k
  · exact ⟨⟨by simp [Kind.init], by simp [Kind.init]⟩, rfl⟩
  · exact ⟨⟨by simp [Kind.init], by simp [Kind.init], by simp [Kind.init]⟩, rfl⟩
  · exact ⟨by intro id _; rfl, rfl⟩

/-- What C12 demands of a scheduler run `ops ↦ rs` ending in abstract state `a'`: it is a run of the
specification from the empty state (so: control first, per-stream FIFO order, DATA split only by
`Consume`, "nothing" only when nothing is sendable), every pushed token is accounted for
(written ++ dropped-by-CloseStream ++ still queued, in push order), no `Pop` returns the zero
request, and no call panics. -/
def Holds (strict : Prop) (e : Env) (ops : List Op) (rs : List Res) (e' : Env) (a' : Abs) : Prop :=
  ∃ L', SpecRun strict e Abs.empty Ledger.empty ops rs e' a' L' ∧ LedgerOK a' L' ∧
    (∀ r ∈ rs, r ≠ .frame .empty ∧ r ≠ .panic)

/-- **C12 for the round-robin, RFC 9218 and random schedulers**, all histories, all windows. -/
theorem holds_rr_p9218_rand (k : Kind) (e : Env) (ops : List Op) (hc : Contract (fun _ => false) ops) :
    Holds True e ops (k.init.run e ops).2.2 (k.init.run e ops).1 (absS (k.init.run e ops).2.1) := by
  obtain ⟨hi, ha⟩ := init_inv k
  have hwf : AbsWF (absS k.init) (fun _ => false) := by rw [ha]; exact absWF_empty
  have hl : LedgerOK (absS k.init) Ledger.empty := by rw [ha]; exact ledgerOK_empty
  obtain ⟨L', h1, h2, h3⟩ := run_refines ops k.init _ e Ledger.empty hi hwf hl hc
  rw [ha] at h1
  exact ⟨L', h1, h2, h3⟩

/-! ### Readable consequences of `PopSpec` (the clauses of the property, one by one) -/

/-- Control frames come out before stream frames, in the order pushed. -/
theorem pop_control_first {strict : Prop} {e e' : Env} {a a' : Abs} {r : Res} {f : Frame} {rest : List Frame}
    (h : PopSpec strict e a r e' a') (hc : a.ctl = f :: rest) : r = .frame f ∧ a'.ctl = rest ∧ a'.q = a.q ∧ e' = e := by
  cases h with
  | ctl h1 => rw [hc] at h1; cases h1; exact ⟨rfl, rfl, rfl, rfl⟩
  | whole h1 => rw [hc] at h1; cases h1
  | split h1 => rw [hc] at h1; cases h1
  | none h1 => rw [hc] at h1; cases h1

/-- A popped stream frame is the head of its stream's FIFO or a `Consume` prefix of it; all other FIFOs
are untouched. -/
theorem pop_stream_head {strict : Prop} {e e' : Env} {a a' : Abs} {g : Frame} (h : PopSpec strict e a (.frame g) e' a') (hc : a.ctl = []) :
    ∃ id f rest, a.q id = f :: rest ∧ (∀ x, x ≠ id → a'.q x = a.q x) ∧
      ((g = f ∧ a'.q id = rest) ∨ (∃ r, a'.q id = r :: rest ∧ toks g ++ toks r = toks f)) := by
  cases h with
  | ctl h1 => rw [hc] at h1; cases h1
  | whole h0 hq hn hcons =>
    rename_i id rest n
    exact ⟨id, g, rest, hq, fun x hx => by simp [upd, hx], Or.inl ⟨rfl, by simp [upd]⟩⟩
  | split h0 hq hn hcons =>
    rename_i id f r rest n
    exact ⟨id, f, rest, hq, fun x hx => by simp [upd, hx], Or.inr ⟨r, by simp [upd], (consume_split_toks hcons).1⟩⟩

/-- `Pop` reports a frame whenever some queued frame is sendable: "nothing" implies that the control
queue is empty and the head of every stream FIFO is a non-empty DATA frame with no allowance. -/
theorem pop_none_nothing_sendable {e e' : Env} {a a' : Abs} (h : PopSpec True e a .none e' a') :
    a.ctl = [] ∧ a' = a ∧ e' = e ∧ ∀ id f rest, a.q id = f :: rest →
      ∃ sid tag off len fin last, f = .data sid tag off len fin last ∧ 0 < len ∧ e.allowed sid maxInt32 ≤ 0 := by
  cases h with
  | none hc hall =>
    refine ⟨hc, rfl, rfl, ?_⟩
    intro id f rest hq
    obtain ⟨e1, h1⟩ := hall trivial id f rest hq
    exact (consume_none h1).2

/-- A DATA piece respects the stream window, the connection window and the maximum frame size, and the
windows are charged exactly its length. -/
theorem consume_respects_windows (e : Env) (n : Int) (f : Frame) (e' : Env) (c r : Frame)
    (h : f.consume e n = (e', .split c r)) :
    ∃ sid, f.streamID = sid ∧ (c.dataSize : Int) ≤ e.win sid ∧ (c.dataSize : Int) ≤ e.connWin ∧
      (c.dataSize : Int) ≤ e.maxFrame ∧ (c.dataSize : Int) ≤ n ∧ e' = e.take sid c.dataSize := by
  rcases consume_cases e n f with ⟨h1, _⟩ | ⟨sid, tag, off, len, fin, last, rfl, _, h1⟩
  · rw [h1] at h; cases h
  · rcases h1 with ⟨_, h1⟩ | ⟨_, _, h1⟩ | ⟨a, ha, ha0, hal, h1⟩ <;> rw [h1] at h <;> cases h
    refine ⟨sid, rfl, ?_, ?_, ?_, ?_, rfl⟩ <;>
      (simp only [Frame.dataSize]; unfold Env.allowed Env.avail at ha; omega)

/-! ### Non-vacuity: a concrete contract-respecting history with a split, a close that drops frames,
control-first and a blocked window (values computed by the model). -/

def exEnv : Env := { maxFrame := 4, connWin := 6, win := fun _ => 100 }

def exOps : List Op :=
  [.openS 1 0 6, .openS 3 0 6, .push (.data 1 10 0 7 true true), .push (.hdr 3 11), .push (.ctl 12),
   .pop none, .pop none, .pop none, .pop none, .pop none, .closeS 1, .pop none]

example : Contract (fun _ => false) exOps := by simp [exOps, Contract, OpOK, opnOp, pushOK, upd]

example : (Kind.rr.init.run exEnv exOps).2.2 =
    [.ok, .ok, .ok, .ok, .ok, .frame (.ctl 12), .frame (.data 1 10 0 4 false false), .frame (.hdr 3 11),
     .frame (.data 1 10 4 2 false false), .none, .ok, .none] := by decide

example : (Kind.p9218.init.run exEnv exOps).2.2 =
    [.ok, .ok, .ok, .ok, .ok, .frame (.ctl 12), .frame (.data 1 10 0 4 false false),
     .frame (.data 1 10 4 2 false false), .frame (.hdr 3 11), .none, .ok, .none] := by decide

/-! ## The RFC 7540 priority scheduler (after the two repairs) and the statement over all four schedulers

History: on the unrepaired code the statement below was refuted by two witnesses (`witnessStale`:
`CloseStream` left the closed node's queue populated, so `Pop` returned the zero request;
`witnessIdleEvict`: an opened former idle node stayed on the idle list and was evicted, so queued frames
vanished and `Push` panicked).  Both are now regression inputs (`corpus/C12/stale.ops`) and examples below.

For RFC 7540 everything is proved except the clause "`Pop` returns nothing only if nothing is sendable"
(it needs reachability of every node from the root of the priority tree): `Holds False`. -/

/-- Stream identifiers are never reused (RFC 9113 §5.1.1): `OpenStream` is only called with ids that were
never opened before.  (`priorityWriteSchedulerRFC7540.OpenStream` panics on a retained closed node.) -/
def freshOK (ever : Nat → Bool) : Op → Prop
  | .openS id _ _ => ever id = false
  | _ => True

def everOp (ever : Nat → Bool) : Op → Nat → Bool
  | .openS id _ _ => upd ever id true
  | _ => ever

def Fresh (ever : Nat → Bool) : List Op → Prop
  | [] => True
  | op :: ops => freshOK ever op ∧ Fresh (everOp ever op) ops

/-- Every call of the RFC 7540 scheduler is a step of the specification (without the "nothing sendable"
clause) and keeps the invariants. -/
theorem p7_step {s : P7540} {opn ever : Nat → Bool} {op : Op} (e : Env) (hc : CoreInv s opn ever) (hli : ListInv s)
    (hwf : AbsWF (absP7 s) opn) (hok : OpOK opn op) (hfr : freshOK ever op) :
    StepSpec False e (absP7 s) op (s.step e op).2.2 (s.step e op).1 (absP7 (s.step e op).2.1) ∧
      CoreInv (s.step e op).2.1 (opnOp opn op) (everOp ever op) ∧ ListInv (s.step e op).2.1 := by
  cases op with
  | win id d =>
    have : s.step e (.win id d) = (envOp e (.win id d), s, .ok) := by
      simp only [P7540.step, envOp]; split <;> rfl
    rw [this]; exact ⟨StepSpec.other (by simp), hc, hli⟩
  | maxframe n => exact ⟨StepSpec.other (by simp), hc, hli⟩
  | openS id p c =>
    obtain ⟨s', h1, h2, h3, h4⟩ := p7_open (pusher := p) hc hli hok.1 hok.2.1 hfr
    have : s.step e (.openS id p c) = (e, s', .ok) := by simp [P7540.step, h1]
    rw [this]
    refine ⟨?_, h3, h4⟩
    have h := StepSpec.other (strict := False) (e := e) (a := absP7 s) (op := .openS id p c) (by simp)
    simp only [Abs.applyOp, envOp] at h
    simp only; rw [h2]; exact h
  | closeS id =>
    obtain ⟨s', h1, h2, h3, h4⟩ := p7_close hc hli hok
    have : s.step e (.closeS id) = (e, s', .ok) := by simp [P7540.step, h1]
    rw [this]
    refine ⟨?_, h3, h4⟩
    have h := StepSpec.other (strict := False) (e := e) (a := absP7 s) (op := .closeS id) (by simp)
    simp only [envOp] at h
    simp only; rw [h2]; exact h
  | adjust id d x w c =>
    obtain ⟨s', h1, h2, h3, h4⟩ := p7_adjust (dep := d) (w := w) (excl := x) hc hli hok.1
    have : s.step e (.adjust id d x w c) = (e, s', .ok) := by simp [P7540.step, h1]
    rw [this]
    refine ⟨?_, h3, h4⟩
    have h := StepSpec.other (strict := False) (e := e) (a := absP7 s) (op := .adjust id d x w c) (by simp)
    simp only [Abs.applyOp, envOp] at h
    simp only; rw [h2]; exact h
  | push f =>
    obtain ⟨s', h1, h2, h3, h4⟩ := p7_push hc hli hok
    have : s.step e (.push f) = (e, s', .ok) := by simp [P7540.step, h1]
    rw [this]
    refine ⟨?_, h3, h4⟩
    have h := StepSpec.other (strict := False) (e := e) (a := absP7 s) (op := .push f) (by simp)
    simp only [envOp] at h
    simp only; rw [h2]; exact h
  | pop hint =>
    obtain ⟨e', s', r, h1, h2, h3, h4⟩ := p7_pop e hc hli hwf
    have : s.step e (.pop hint) = (e', s', r) := by simp [P7540.step, h1]
    rw [this]
    exact ⟨StepSpec.pop h2, h3, h4⟩

theorem p7_run_refines (ops : List Op) : ∀ (s : P7540) (opn ever : Nat → Bool) (e : Env) (L : Ledger),
    CoreInv s opn ever → ListInv s → AbsWF (absP7 s) opn → LedgerOK (absP7 s) L → Contract opn ops → Fresh ever ops →
    ∃ L', SpecRun False e (absP7 s) L ops (s.run e ops).2.2 (s.run e ops).1 (absP7 (s.run e ops).2.1) L' ∧
      LedgerOK (absP7 (s.run e ops).2.1) L' ∧
      (∀ r ∈ (s.run e ops).2.2, r ≠ .frame .empty ∧ r ≠ .panic) := by
  induction ops with
  | nil => intro s opn ever e L _ _ _ hl _ _; exact ⟨L, SpecRun.nil, hl, by simp [P7540.run]⟩
  | cons op ops ih =>
    intro s opn ever e L hc hli hwf hl hct hfr
    obtain ⟨hok, hct'⟩ := hct
    obtain ⟨hf, hfr'⟩ := hfr
    obtain ⟨hstep, hc', hli'⟩ := p7_step e hc hli hwf hok hf
    obtain ⟨hwf', hl', hne, hnp⟩ := step_preserves hwf hl hok hstep
    obtain ⟨L', hrun, hlo, hres⟩ := ih (s.step e op).2.1 _ _ (s.step e op).1 _ hc' hli' hwf' hl' hct' hfr'
    refine ⟨L', ?_, ?_, ?_⟩
    · simp only [P7540.run]
      exact SpecRun.cons hstep hrun
    · simpa [P7540.run] using hlo
    · intro r hr
      simp only [P7540.run, List.mem_cons] at hr
      rcases hr with rfl | hr
      · exact ⟨hne, hnp⟩
      · exact hres r hr

theorem p7_init_inv (mc mi : Nat) (th : Bool) :
    CoreInv (P7540.init mc mi th) (fun _ => false) (fun _ => false) ∧ ListInv (P7540.init mc mi th) ∧
      absP7 (P7540.init mc mi th) = Abs.empty := by
  have hlk : ∀ id, (P7540.init mc mi th).lookup id = if id = 0 then some 0 else none := by
    intro id
    simp only [P7540.lookup, P7540.init, List.lookup]
    by_cases h : id = 0
    · subst h; rfl
    · have : (id == 0) = false := by simpa using h
      simp [this, h]
  have hnode : ∀ i, (P7540.init mc mi th).node i = {} := by
    intro i
    cases i with
    | zero => rfl
    | succ k => simp [P7540.node, P7540.init]
  refine ⟨⟨by rw [hlk]; rfl, by simp [P7540.init], by rw [hnode], by rw [hnode], ?_, ?_, ?_, ?_, ?_⟩, ?_, ?_⟩
  · intro id n h
    rw [hlk] at h
    split at h
    · cases h; rename_i h0; subst h0; exact ⟨by simp [P7540.init], by rw [hnode]⟩
    · cases h
  · intro id
    constructor
    · intro h; cases h
    · rintro ⟨h0, n, h1, _⟩
      rw [hlk] at h1; simp [h0] at h1
  · intro n _ hq; rw [hnode] at hq; exact absurd rfl hq
  · intro id n h0 h1 _
    rw [hlk] at h1; simp [h0] at h1
  · simp only [P7540.init]; split <;> decide
  · exact ⟨by simp [P7540.init], by simp [P7540.init], by simp [P7540.init], by simp [P7540.init]⟩
  · refine Abs.ext' ?_ ?_
    · simp [absP7, hnode, Abs.empty, empty_toList]
    · intro id
      simp only [absP7, Abs.empty, hlk]
      split
      · rfl
      · rename_i h; simp [h]

/-- **C12 for the RFC 7540 scheduler** (all configurations, all histories that respect the contract and
never reuse a stream id): run of the FIFO specification, ledger balanced, no zero request, no panic.
`_partial`: the specification is used without its "nothing is returned only if nothing is sendable" clause. -/
theorem holds_p7540_partial (mc mi : Nat) (th : Bool) (e : Env) (ops : List Op)
    (hc : Contract (fun _ => false) ops) (hf : Fresh (fun _ => false) ops) :
    Holds False e ops ((P7540.init mc mi th).run e ops).2.2 ((P7540.init mc mi th).run e ops).1
      (absP7 ((P7540.init mc mi th).run e ops).2.1) := by
  obtain ⟨h1, h2, h3⟩ := p7_init_inv mc mi th
  have hwf : AbsWF (absP7 (P7540.init mc mi th)) (fun _ => false) := by rw [h3]; exact absWF_empty
  have hl : LedgerOK (absP7 (P7540.init mc mi th)) Ledger.empty := by rw [h3]; exact ledgerOK_empty
  obtain ⟨L', r1, r2, r3⟩ := p7_run_refines ops _ _ _ e Ledger.empty h1 h2 hwf hl hc hf
  rw [h3] at r1
  exact ⟨L', r1, r2, r3⟩

/-! ### The missing clause, conditionally: if every mapped node stays reachable from the root

`walk_none` (Lemmas/WriteSched7540Reach) shows that a `Pop` returning nothing has tried every node
reachable from the root through `kids` links.  So the full statement follows for every run along which the
priority tree keeps all mapped nodes attached (`ReachAlong`).  That the scheduler's operations maintain this
(`AdjustStream` re-parenting, eviction, `removeNode`) is NOT proved; the Go harness checks it white-box after
every call. -/

theorem StepSpec.strengthen {e e' : Env} {a a' : Abs} {op : Op} {r : Res} (h : StepSpec False e a op r e' a')
    (hn : r = .none → ∀ id f rest, a.q id = f :: rest → ∃ e1, f.consume e maxInt32 = (e1, .none)) :
    StepSpec True e a op r e' a' := by
  cases h with
  | pop hp => exact StepSpec.pop (PopSpec.strengthen hp hn)
  | reject => exact StepSpec.reject
  | other hnp => exact StepSpec.other hnp

/-- every mapped node is reachable from the root before each call of the history -/
def ReachAlong (e : Env) (s : P7540) : List Op → Prop
  | [] => True
  | op :: ops => ReachInv s ∧ ReachAlong (s.step e op).1 (s.step e op).2.1 ops

theorem p7_run_refines_strict (ops : List Op) : ∀ (s : P7540) (opn ever : Nat → Bool) (e : Env) (L : Ledger),
    CoreInv s opn ever → ListInv s → AbsWF (absP7 s) opn → LedgerOK (absP7 s) L → Contract opn ops → Fresh ever ops →
    ReachAlong e s ops →
    ∃ L', SpecRun True e (absP7 s) L ops (s.run e ops).2.2 (s.run e ops).1 (absP7 (s.run e ops).2.1) L' ∧
      LedgerOK (absP7 (s.run e ops).2.1) L' ∧
      (∀ r ∈ (s.run e ops).2.2, r ≠ .frame .empty ∧ r ≠ .panic) := by
  induction ops with
  | nil => intro s opn ever e L _ _ _ hl _ _ _; exact ⟨L, SpecRun.nil, hl, by simp [P7540.run]⟩
  | cons op ops ih =>
    intro s opn ever e L hc hli hwf hl hct hfr hra
    obtain ⟨hok, hct'⟩ := hct
    obtain ⟨hf, hfr'⟩ := hfr
    obtain ⟨hreach, hra'⟩ := hra
    obtain ⟨hstep0, hc', hli'⟩ := p7_step e hc hli hwf hok hf
    have hstep : StepSpec True e (absP7 s) op (s.step e op).2.2 (s.step e op).1 (absP7 (s.step e op).2.1) := by
      apply StepSpec.strengthen hstep0
      intro hrn
      cases op with
      | pop hint =>
        have hp : s.pop e = ((s.step e (.pop hint)).1, (s.step e (.pop hint)).2.1, .none) := by
          have : s.step e (.pop hint) = s.pop e := rfl
          rw [this] at hrn ⊢
          rcases hh : s.pop e with ⟨e1, s1, r1⟩
          rw [hh] at hrn; simp only at hrn; subst hrn; rfl
        exact p7_pop_none_sendable hc hreach hp
      | win id d =>
        have : (s.step e (.win id d)).2.2 = .ok := by simp only [P7540.step]; split <;> rfl
        rw [this] at hrn; cases hrn
      | maxframe n => cases hrn
      | openS id p c => obtain ⟨s', h1, _⟩ := p7_open (pusher := p) hc hli hok.1 hok.2.1 hf; simp [P7540.step, h1] at hrn
      | closeS id => obtain ⟨s', h1, _⟩ := p7_close hc hli hok; simp [P7540.step, h1] at hrn
      | adjust id d x w c =>
        obtain ⟨s', h1, _⟩ := p7_adjust (dep := d) (w := w) (excl := x) hc hli hok.1; simp [P7540.step, h1] at hrn
      | push f => obtain ⟨s', h1, _⟩ := p7_push hc hli hok; simp [P7540.step, h1] at hrn
    obtain ⟨hwf', hl', hne, hnp⟩ := step_preserves hwf hl hok hstep
    obtain ⟨L', hrun, hlo, hres⟩ := ih (s.step e op).2.1 _ _ (s.step e op).1 _ hc' hli' hwf' hl' hct' hfr' hra'
    refine ⟨L', ?_, ?_, ?_⟩
    · simp only [P7540.run]
      exact SpecRun.cons hstep hrun
    · simpa [P7540.run] using hlo
    · intro r hr
      simp only [P7540.run, List.mem_cons] at hr
      rcases hr with rfl | hr
      · exact ⟨hne, hnp⟩
      · exact hres r hr

/-- **Full C12 for the RFC 7540 scheduler, conditional on tree reachability along the run.** -/
theorem holds_p7540_of_reach (mc mi : Nat) (th : Bool) (e : Env) (ops : List Op)
    (hc : Contract (fun _ => false) ops) (hf : Fresh (fun _ => false) ops)
    (hr : ReachAlong e (P7540.init mc mi th) ops) :
    Holds True e ops ((P7540.init mc mi th).run e ops).2.2 ((P7540.init mc mi th).run e ops).1
      (absP7 ((P7540.init mc mi th).run e ops).2.1) := by
  obtain ⟨h1, h2, h3⟩ := p7_init_inv mc mi th
  have hwf : AbsWF (absP7 (P7540.init mc mi th)) (fun _ => false) := by rw [h3]; exact absWF_empty
  have hl : LedgerOK (absP7 (P7540.init mc mi th)) Ledger.empty := by rw [h3]; exact ledgerOK_empty
  obtain ⟨L', r1, r2, r3⟩ := p7_run_refines_strict ops _ _ _ e Ledger.empty h1 h2 hwf hl hc hf hr
  rw [h3] at r1
  exact ⟨L', r1, r2, r3⟩

/-! ### Preservation of reachability: proved for Push, Pop, OpenStream; stated for CloseStream, AdjustStream -/

/-- States of the RFC 7540 scheduler reachable by contract-respecting calls (ids never reused), together
with the set of open streams and of ids ever opened. -/
inductive Reach7 (mc mi : Nat) (th : Bool) : Env → P7540 → (Nat → Bool) → (Nat → Bool) → Prop
  | init (e : Env) : Reach7 mc mi th e (P7540.init mc mi th) (fun _ => false) (fun _ => false)
  | step {e s opn ever} (op : Op) : Reach7 mc mi th e s opn ever → OpOK opn op → freshOK ever op →
      Reach7 mc mi th (s.step e op).1 (s.step e op).2.1 (opnOp opn op) (everOp ever op)
  | env {e s opn ever} (e' : Env) : Reach7 mc mi th e s opn ever → Reach7 mc mi th e' s opn ever

/-- STATED, not proved: on reachable states `CloseStream` (which may evict the oldest closed node with
`removeNode`, moving its children to its parent) keeps every mapped node attached to the root. -/
def CloseKeepsReach : Prop :=
  ∀ (mc mi : Nat) (th : Bool) (e : Env) (s : P7540) (opn ever : Nat → Bool) (id : Nat),
    Reach7 mc mi th e s opn ever → ReachInv s → opn id = true → ReachInv (s.closeStream id).1

/-- STATED, not proved: on reachable states `AdjustStream` (idle-node creation with eviction, the "new parent
is a descendant" move, exclusive re-parenting, the final `setParent`) keeps every mapped node attached. -/
def AdjustKeepsReach : Prop :=
  ∀ (mc mi : Nat) (th : Bool) (e : Env) (s : P7540) (opn ever : Nat → Bool) (id dep w : Nat) (excl : Bool),
    Reach7 mc mi th e s opn ever → ReachInv s → id ≠ 0 → ReachInv (s.adjustStream id dep excl w).1

theorem reach7_inv {mc mi : Nat} {th : Bool} {e : Env} {s : P7540} {opn ever : Nat → Bool}
    (h : Reach7 mc mi th e s opn ever) : CoreInv s opn ever ∧ ListInv s ∧ AbsWF (absP7 s) opn := by
  induction h with
  | init e =>
    obtain ⟨h1, h2, h3⟩ := p7_init_inv mc mi th
    exact ⟨h1, h2, by rw [h3]; exact absWF_empty⟩
  | @step e s opn ever op _ hok hf ih =>
    obtain ⟨hc, hli, hwf⟩ := ih
    obtain ⟨hstep, hc', hli'⟩ := p7_step e hc hli hwf hok hf
    have hl : LedgerOK (absP7 s) ⟨fun id => flatToks ((absP7 s).q id), fun _ => [], fun _ => []⟩ := by
      intro id; simp
    obtain ⟨hwf', _, _, _⟩ := step_preserves hwf hl hok hstep
    exact ⟨hc', hli', hwf'⟩
  | env e' _ ih => exact ih

/-- One call keeps all mapped nodes reachable (`p7_reachInv_step`): proved for Push, Pop, OpenStream and the
environment changes; CloseStream and AdjustStream by the two stated hypotheses. -/
theorem p7_reachInv_step (hC : CloseKeepsReach) (hA : AdjustKeepsReach) {mc mi : Nat} {th : Bool} {e : Env}
    {s : P7540} {opn ever : Nat → Bool} (hr7 : Reach7 mc mi th e s opn ever) (hr : ReachInv s) (op : Op)
    (hok : OpOK opn op) : ReachInv (s.step e op).2.1 := by
  obtain ⟨hc, _, _⟩ := reach7_inv hr7
  cases op with
  | win id d =>
    have : (s.step e (.win id d)).2.1 = s := by simp only [P7540.step]; split <;> rfl
    rw [this]; exact hr
  | maxframe n => exact hr
  | openS id p c => exact reachInv_open (pusher := p) hc hr
  | closeS id => exact hC mc mi th e s opn ever id hr7 hr hok
  | adjust id d x w c => exact hA mc mi th e s opn ever id d w x hr7 hr hok.1
  | push f => exact reachInv_push f hr
  | pop hint => exact reachInv_pop e hr

theorem reachInv_init (mc mi : Nat) (th : Bool) : ReachInv (P7540.init mc mi th) := by
  intro id n h
  simp only [P7540.lookup, P7540.init, List.lookup] at h
  split at h
  · cases h; exact ReachD.self
  · cases h

/-- `p7_reachInv_run`: along every contract-respecting history all mapped nodes stay reachable. -/
theorem p7_reachInv_run (hC : CloseKeepsReach) (hA : AdjustKeepsReach) {mc mi : Nat} {th : Bool} (ops : List Op) :
    ∀ (e : Env) (s : P7540) (opn ever : Nat → Bool), Reach7 mc mi th e s opn ever → ReachInv s →
      Contract opn ops → Fresh ever ops → ReachAlong e s ops := by
  induction ops with
  | nil => intro e s opn ever _ _ _ _; trivial
  | cons op ops ih =>
    intro e s opn ever hr7 hr hc hf
    exact ⟨hr, ih _ _ _ _ (Reach7.step op hr7 hc.1 hf.1) (p7_reachInv_step hC hA hr7 hr op hc.1) hc.2 hf.2⟩

/-- `p7_pop_none_complete`: in a state where every mapped node is reachable, a `Pop` that returns nothing
means that no stream has a sendable frame (the walk tried every node; sorting only permutes siblings). -/
theorem p7_pop_none_complete {s s' : P7540} {opn ever : Nat → Bool} {e e' : Env} (hc : CoreInv s opn ever)
    (hr : ReachInv s) (hp : s.pop e = (e', s', .none)) :
    ∀ id f rest, (absP7 s).q id = f :: rest → ∃ e1, f.consume e maxInt32 = (e1, .none) :=
  p7_pop_none_sendable hc hr hp

/-- **Full C12 for the RFC 7540 scheduler modulo the two stated preservation lemmas.** -/
theorem holds_p7540_of_preservation (hC : CloseKeepsReach) (hA : AdjustKeepsReach) (mc mi : Nat) (th : Bool)
    (e : Env) (ops : List Op) (hc : Contract (fun _ => false) ops) (hf : Fresh (fun _ => false) ops) :
    Holds True e ops ((P7540.init mc mi th).run e ops).2.2 ((P7540.init mc mi th).run e ops).1
      (absP7 ((P7540.init mc mi th).run e ops).2.1) :=
  holds_p7540_of_reach mc mi th e ops hc hf
    (p7_reachInv_run hC hA ops e _ _ _ (Reach7.init e) (reachInv_init mc mi th) hc hf)

/-- All four schedulers. -/
inductive Kind4 where
  | base (k : Kind)
  | p7540 (maxClosed maxIdle : Nat) (throttle : Bool)

/-- Final environment and results of a history on a freshly constructed scheduler. -/
def runK (k : Kind4) (e : Env) (ops : List Op) : Env × List Res :=
  match k with
  | .base k => ((k.init.run e ops).1, (k.init.run e ops).2.2)
  | .p7540 mc mi th => (((P7540.init mc mi th).run e ops).1, ((P7540.init mc mi th).run e ops).2.2)

/-- **C12, full statement**: for every scheduler and every contract-respecting history (stream ids never
reused) the observable run is a run of the FIFO specification — including "`Pop` returns nothing only if
nothing is sendable" — that conserves every pushed token, never yields the zero request, never panics. -/
def Statement : Prop :=
  ∀ (k : Kind4) (e : Env) (ops : List Op), Contract (fun _ => false) ops → Fresh (fun _ => false) ops →
    ∃ a', Holds True e ops (runK k e ops).2 (runK k e ops).1 a'

/-- What is proved of `Statement`: all of it for round-robin, RFC 9218 and random (even without the
freshness assumption); for RFC 7540 all of it except the "nothing sendable" clause. -/
def strictFor : Kind4 → Prop
  | .base _ => True
  | .p7540 .. => False

theorem holds_partial (k : Kind4) (e : Env) (ops : List Op)
    (hc : Contract (fun _ => false) ops) (hf : Fresh (fun _ => false) ops) :
    ∃ a', Holds (strictFor k) e ops (runK k e ops).2 (runK k e ops).1 a' := by
  cases k with
  | base k => exact ⟨_, holds_rr_p9218_rand k e ops hc⟩
  | p7540 mc mi th => exact ⟨_, holds_p7540_partial mc mi th e ops hc hf⟩

/-- **`Statement` for all four schedulers, without a `False` case**, from the two stated preservation
lemmas (the only unproved ingredients; the three other schedulers need neither them nor `Fresh`). -/
theorem holds_of_preservation (hC : CloseKeepsReach) (hA : AdjustKeepsReach) : Statement := by
  intro k e ops hc hf
  cases k with
  | base k => exact ⟨_, holds_rr_p9218_rand k e ops hc⟩
  | p7540 mc mi th => exact ⟨_, holds_p7540_of_preservation hC hA mc mi th e ops hc hf⟩

def witnessEnv : Env := { maxFrame := 16384, connWin := 65535, win := fun _ => 65535 }

/-- Former witness 1: push 2 DATA frames, close the stream, pop.  (Used to yield two zero requests.) -/
def witnessStale : List Op :=
  [.openS 1 0 6, .push (.data 1 1 0 3 false true), .push (.data 1 2 0 3 true true), .closeS 1, .pop none, .pop none, .pop none]

example : Contract (fun _ => false) witnessStale ∧ Fresh (fun _ => false) witnessStale := by
  simp [witnessStale, Contract, OpOK, opnOp, pushOK, upd, Fresh, freshOK, everOp]

example : (runK (.p7540 10 10 false) witnessEnv witnessStale).2 = [.ok, .ok, .ok, .ok, .none, .none, .none] := by decide

/-- Former witness 2: PRIORITY for idle stream 1, open it, queue a frame, PRIORITY for two more idle
streams with `MaxIdleNodesInTree = 2`, pop, push DATA.  (Used to lose the frame and panic.) -/
def witnessIdleEvict : List Op :=
  [.adjust 1 0 false 15 6, .openS 1 0 6, .push (.hdr 1 1), .adjust 3 0 false 15 6, .adjust 5 0 false 15 6,
   .pop none, .push (.data 1 2 0 3 true true)]

example : Contract (fun _ => false) witnessIdleEvict ∧ Fresh (fun _ => false) witnessIdleEvict := by
  simp [witnessIdleEvict, Contract, OpOK, opnOp, pushOK, upd, Fresh, freshOK, everOp]

example : (runK (.p7540 10 2 false) witnessEnv witnessIdleEvict).2 =
    [.ok, .ok, .ok, .ok, .ok, .frame (.hdr 1 1), .ok] := by decide

/-- `ReachAlong` is satisfiable: open a stream, queue a frame, pop twice. -/
example : ReachAlong witnessEnv (P7540.init 10 10 false) [.openS 1 0 6, .push (.hdr 1 1), .pop none, .pop none] := by
  have key : ∀ s : P7540, s.nodes = [(1, 1), (0, 0)] → 1 ∈ (s.node 0).kids → 0 < s.store.length → ReachInv s := by
    intro s hn hk hl id n h
    simp only [P7540.lookup, hn, List.lookup] at h
    split at h
    · cases h; exact ReachD.mono (ReachD.step (d := 0) hk ReachD.self) (by omega)
    · split at h
      · cases h; exact ReachD.self
      · cases h
  refine ⟨?_, key _ (by decide) (by decide) (by decide), key _ (by decide) (by decide) (by decide),
    key _ (by decide) (by decide) (by decide), trivial⟩
  intro id n h
  simp only [P7540.lookup, P7540.init, List.lookup] at h
  split at h
  · cases h; exact ReachD.self
  · cases h

end NetVerif.Proofs.C12
