import NetVerif.Driver.Util
import NetVerif.Model.H3Body
/-!
Driver for C34 (HTTP/3 end to end).  The harness records, per exchange, what was submitted and the
plans of the two readers; this driver runs the Lean model (`sendBody`, `respond`, `BodyReader`,
body-kind selection) on the same plans and prints what the handler must observe, what the
handler's `Write` calls must return and what the client must receive.  Any difference from the
recorded observation of the real client/server is a violation (V-tie, `mismatch_is_violation`).

Normalisations (identical on the Go side, see harness/C34/rig_test.go):
* field sections are compared as the `x-…` fields only, names lower-case, stably sorted by name
  (QPACK and header canonicalisation are C33's; `Date`, sniffed `Content-Type`, `Trailer`,
  `Content-Length` lines are not compared as fields — the length is compared as a number);
* errors are collapsed to `err`;
* the server-side declared length of a request is what httpcommon.EncodeHeaders sends:
  the client's `actualContentLength` when > 0, `0` for POST/PUT/PATCH, otherwise absent (-1);
* a request whose supplied length disagrees with its declared length is `reqerr` as a whole
  (the client resets the stream at a point that depends on timing; only "no clean EOF" is compared);
* when the handler stops reading before it has consumed the whole request body, the client-side
  result is `unspec` (the client's body writer races with the server's STOP_SENDING; see finding
  `early-response-lost`; frequent with a small stream write buffer `wbuf`, rare with the default).
-/
open NetVerif.Driver NetVerif.Model.H3Body

namespace NetVerif.Driver.C34

abbrev Fields := List (String × String)   -- (lower-case name, value token `x<hex>` | `-`)

def parseHL (s : String) : Option Fields :=
  if s == "-" then some [] else
  (s.splitOn ",").mapM fun tok =>
    match tok.splitOn ":" with
    | [n, v] => if n.isEmpty || (parseBytes v).isNone then none else some (n, v)
    | _ => none

def insertStable (x : String × String) : Fields → Fields
  | [] => [x]
  | y :: ys => if x.1 < y.1 then x :: y :: ys else y :: insertStable x ys

def sortStable (fs : Fields) : Fields := fs.foldl (fun acc x => insertStable x acc) []

def showHL (fs : Fields) : String :=
  let xs := sortStable (fs.filter fun f => f.1.startsWith "x-")
  if xs.isEmpty then "-" else ",".intercalate (xs.map fun f => f.1 ++ ":" ++ f.2)

def distinctNames (fs : Fields) : Nat := (fs.map (·.1)).eraseDups.length

def parseChunks (s : String) : Option (List (List Nat)) :=
  if s == "-" then some [] else
  (s.splitOn ".").mapM fun tok =>
    if tok == "e" then some [] else
    match parseBytes tok with
    | some [] => none
    | r => r

def parseReads (s : String) : Option (List Nat) :=
  match (s.splitOn ".").mapM (fun t => match t.toNat? with | some n => if n ≥ 1 then some n else none | none => none) with
  | some [] => none
  | r => r

def parseOps (s : String) : Option (List HOp) :=
  if s == "-" then some [] else
  (s.splitOn ".").mapM fun tok =>
    if tok == "F" then some HOp.flush
    else if tok == "e" then some (HOp.write [])
    else match parseBytes tok with
      | some [] => none
      | some b => some (HOp.write b)
      | none => none

def parseFrames (s : String) : Option (List (Frame Fields)) :=
  if s == "-" then some [] else
  (s.splitOn ".").mapM fun tok =>
    match tok.toList with
    | 'D' :: [] => some (Frame.data [])
    | 'U' :: [] => some (Frame.unknown 33 [])
    | 'D' :: rest => (parseBytes (String.ofList rest)).map Frame.data
    | 'U' :: rest => (parseBytes (String.ofList rest)).map (Frame.unknown 33)
    | _ => none

structure Plan where
  reads : List Nat := [4096]
  stop : Int := -1

structure RespPlan where
  status : Nat := 0
  cl : Int := -1
  h : Fields := []
  ops : List HOp := []
  trmode : String := "-"
  tr : Fields := []

structure St where
  wbuf : Nat := 0
  hp : Plan := {}
  cp : Plan := {}
  rp : RespPlan := {}
  interim : List Nat := []
  flushFirst : Bool := false   -- handler order "f": WriteHeader, Flush, then read the request
  wres : String := ""
  cres : String := ""

/-- The harness's read loop (`c34ReadPlan.run`) on the model reader. Fuel: one step per Read call. -/
def planLoop (reads : Array Nat) (stop : Int) :
    Nat → Nat → BodyReader Fields → List (List Nat) → Nat → List Nat × String × Option Fields
  | 0, _, _, acc, _ => (acc.reverse.flatten, "err", none)
  | fuel + 1, i, r, acc, got =>
    if stop ≥ 0 ∧ (got : Int) ≥ stop then (acc.reverse.flatten, "stopped", none)
    else
      let sz0 := min (reads[i % reads.size]!) 65536
      let sz := if stop ≥ 0 then min sz0 (stop - got).toNat else sz0
      match r.read sz with
      | (r', bs, .ok) => planLoop reads stop fuel (i + 1) r' (bs :: acc) (got + bs.length)
      | (r', _, .eof) => (acc.reverse.flatten, "eof", r'.trailer)
      | (_, _, _) => (acc.reverse.flatten, "err", none)

def runPlan (p : Plan) (k : BodyKind) (fs : List (Frame Fields)) (e : StreamEnd) :
    List Nat × String × Option Fields :=
  match k with
  | .noBody => if p.stop = 0 then ([], "stopped", none) else ([], "eof", none)
  | .reader d =>
    let fuel := (bodyOf fs).length + fs.length + 8
    planLoop p.reads.toArray p.stop fuel 0 (BodyReader.mk0 d fs e) [] 0

def showTr (e : String) (t : Option Fields) : String :=
  if e == "eof" then (match t with | some t => showHL t | none => "-") else "-"

def showWres (rs : List (Nat × WTag)) : String :=
  if rs.isEmpty then "-" else
  ".".intercalate (rs.map fun (n, t) =>
    toString n ++ ":" ++ (match t with | .nil => "nil" | .contentLength => "cl" | .bodyNotAllowed => "nb"))

def shouldSendCL (method : String) (cl : Int) : Bool :=
  if cl > 0 then true else if cl < 0 then false
  else method == "POST" || method == "PUT" || method == "PATCH"

/-- `parseResponseContentLength` for the statuses the harness uses (≥ 200). -/
def respCL (status : Nat) (cl : Int) : Int := if status = 204 then -1 else cl

def optTr (fs : Fields) : Option Fields := if fs.isEmpty then none else some fs

def clientSide (s : St) (isHead : Bool) (status : Nat) (cl : Int) (h : Fields) (ntrDecl : Nat)
    (fs : List (Frame Fields)) : String :=
  let clp := respCL status cl
  let kind := clientBodyKind clp isHead status ntrDecl
  let (body, e, t) := runPlan s.cp kind fs .fin
  s!"ok {status} {clp} {showHL h} {hexOfBytes body} {e} {showTr e t}"

def e2e (s : St) (method path : String) (cl : Int) (nobody : Bool) (h : Fields)
    (chunks : List (List Nat)) (tr : Fields) : String × String × String :=
  let chunks := if nobody then [] else chunks
  let actual := actualContentLength nobody cl
  let sent : SendRes Fields := sendBody actual chunks (optTr tr)
  match sent.ending with
  | .reset => ("ok reqerr", "ok unspec", "ok unspec")
  | .fin =>
    let sentCL : Int := if shouldSendCL method actual then actual else -1
    let kind := serverBodyKind sentCL (distinctNames tr)
    let (body, e, t) := runPlan s.hp kind sent.frames .fin
    let reqLine := s!"ok {method} {path} {sentCL} {showHL h} {hexOfBytes body} {e} {showTr e t}"
    let isHead := method == "HEAD"
    let (evs, rs) := respondInterim isHead s.rp.cl s.interim
      (if s.rp.status = 0 then none else some s.rp.status)
      (if s.flushFirst then HOp.flush :: s.rp.ops else s.rp.ops) (optTr s.rp.tr)
    let (status, evs) := match clientFinal evs with | some r => r | none => (0, [])
    let total := chunks.flatten.length
    let early := e == "stopped" && body.length < total
    let ntr := if s.rp.trmode == "d" then distinctNames s.rp.tr else 0
    let cres := if early then "ok unspec" else clientSide s isHead status s.rp.cl s.rp.h ntr (evFrames evs)
    (reqLine, "ok " ++ showWres rs, cres)

def parseCL (s : String) : Option Int :=
  if s == "-" then some (-1) else s.toNat?.map Int.ofNat

def step (s : St) (line : String) : St × String :=
  match tokens line with
  | ["net", seed, d, r, u, w] =>
    match seed.toNat?, d.toNat?, r.toNat?, u.toNat?, w.toNat? with
    | some _, some d, some r, some u, some w =>
      if d ≤ 500 ∧ r ≤ 1000 ∧ u ≤ 1000 then ({ s with wbuf := w }, "ok") else (s, "bad-op")
    | _, _, _, _, _ => (s, "bad-op")
  | ["hplan", reads, stop] =>
    match parseReads reads, stop.toInt? with
    | some rs, some st => if st ≥ -1 then ({ s with hp := ⟨rs, st⟩ }, "ok") else (s, "bad-op")
    | _, _ => (s, "bad-op")
  | ["cplan", reads, stop] =>
    match parseReads reads, stop.toInt? with
    | some rs, some st => if st ≥ -1 then ({ s with cp := ⟨rs, st⟩ }, "ok") else (s, "bad-op")
    | _, _ => (s, "bad-op")
  | ["resp", st, cl, h, w, trmode, tr] =>
    match st.toNat?, cl.toInt?, parseHL h, parseOps w, parseHL tr with
    | some st, some cl, some h, some ops, some tr =>
      if cl ≥ -1 ∧ (st = 0 ∨ (200 ≤ st ∧ st ≤ 599)) ∧ (trmode == "d" || trmode == "p" || trmode == "-")
          ∧ ((trmode == "-") == tr.isEmpty) then
        ({ s with rp := ⟨st, cl, h, ops, trmode, tr⟩ }, "ok")
      else (s, "bad-op")
    | _, _, _, _, _ => (s, "bad-op")
  | ["req", m, p, cl, nobody, h, chunks, tr] =>
    match cl.toInt?, parseHL h, parseChunks chunks, parseHL tr with
    | some cl, some h, some chunks, some tr =>
      if cl ≥ -1 ∧ (nobody == "0" || nobody == "1") ∧ p.startsWith "/"
          ∧ ["GET", "POST", "PUT", "HEAD", "DELETE", "PATCH"].contains m then
        let (a, b, c) := e2e s m p cl (nobody == "1") h chunks tr
        ({ s with wres := b, cres := c }, a)
      else (s, "bad-op")
    | _, _, _, _ => (s, "bad-op")
  | ["expect"] => (s, "ok")   -- Expect: 100-continue: the exchange must complete all the same
  | ["order", o] =>
    if o == "r" || o == "w" then ({ s with flushFirst := false }, "ok")
    else if o == "f" then ({ s with flushFirst := true }, "ok") else (s, "bad-op")
  | ["interim", codes] =>
    match (codes.splitOn ".").mapM (fun t => t.toNat?) with
    | some cs => if cs.all (fun c => c == 100 || c == 102 || c == 103) ∧ !cs.isEmpty then ({ s with interim := cs }, "ok")
                 else (s, "bad-op")
    | none => (s, "bad-op")
  | ["wres"] => if s.wres.isEmpty then (s, "bad-op") else (s, s.wres)
  | ["cres"] => if s.cres.isEmpty then (s, "bad-op") else (s, s.cres)
  | ["rawreq", m, cl, trdecl, frames, tr] =>
    match parseCL cl, parseFrames frames, parseHL tr with
    | some cl, some fs, some tr =>
      if (trdecl == "0" || trdecl == "1") ∧ ["POST", "GET", "PUT"].contains m ∧ ((trdecl == "1") == !tr.isEmpty) then
        let decl := trdecl == "1"
        let fs := if decl then fs ++ [Frame.headers tr] else fs
        let kind := serverBodyKind cl (if decl then distinctNames tr else 0)
        let (body, e, t) := runPlan s.hp kind fs .fin
        (s, s!"ok {cl} {hexOfBytes body} {e} {showTr e t}")
      else (s, "bad-op")
    | _, _, _ => (s, "bad-op")
  | ["rawresp", m, st, cl, trdecl, frames, tr] =>
    match st.toNat?, parseCL cl, parseFrames frames, parseHL tr with
    | some st, some cl, some fs, some tr =>
      if (trdecl == "0" || trdecl == "1") ∧ (m == "GET" || m == "HEAD") ∧ 200 ≤ st ∧ st ≤ 599
          ∧ ((trdecl == "1") == !tr.isEmpty) then
        let decl := trdecl == "1"
        let fs := if decl then fs ++ [Frame.headers tr] else fs
        (s, clientSide s (m == "HEAD") st cl [] (if decl then distinctNames tr else 0) fs)
      else (s, "bad-op")
    | _, _, _, _ => (s, "bad-op")
  | _ => (s, "bad-op")

/-- Every case starts from fresh plans (the harness resets them in `exec`). -/
def stepCase (s : St) (line : String) : St × String :=
  match tokens line with
  | "net" :: _ => step {} line
  | _ => step s line

end NetVerif.Driver.C34

def main : IO Unit := NetVerif.Driver.runLoop NetVerif.Driver.C34.stepCase {}
