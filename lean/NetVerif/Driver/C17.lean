import NetVerif.Driver.H2ClientCommon
/-! Driver for C17: lock-step trace monitor of the HTTP/2 client's stream-slot accounting. -/
open NetVerif.Driver NetVerif.Driver.H2Client NetVerif.Model.H2Client

structure C17St where
  mon : Option Mon := none
  dead : Bool := false

def c17Step (s : C17St) (line : String) : C17St × String :=
  match parseLine line with
  | .bad => (s, "bad-op")
  | .reset b =>
    match s.mon with
    | some _ => (s, if s.dead then "reject earlier" else "ok")   -- one transport per case
    | none => ({ mon := some (Mon.init b), dead := false }, "ok")
  | .evs l =>
    match s.mon with
    | none => (s, "ok")
    | some m =>
      if s.dead then (s, "reject earlier")
      else match m.run l with
        | .ok m' => ({ s with mon := some m' }, "ok")
        | .error why => ({ s with dead := true }, s!"reject {why}")

/-- `#` lines (case separators) reset the monitor. -/
partial def c17Loop (stdin stdout : IO.FS.Stream) (s : C17St) : IO Unit := do
  let line ← stdin.getLine
  if line.isEmpty then
    stdout.flush
    return ()
  let l := (line.dropEndWhile (fun c => c == '\n' || c == '\r')).toString
  if l.startsWith "#" then
    stdout.putStrLn "#"
    c17Loop stdin stdout {}
  else
    let (s', o) := c17Step s l
    stdout.putStrLn o
    c17Loop stdin stdout s'

def main : IO Unit := do
  c17Loop (← IO.getStdin) (← IO.getStdout) {}
