import NetVerif.Driver.Util
import NetVerif.Model.AntiAmp
/-!
Line-protocol driver for C27.
* tie `counter` (D): `init <side>` / `recv n` / `sent n` / `validate` / `maxsend` / `blocked`
  on the credit model; prints the credit (and ghost totals) after each op.
* tie `wire` (V): `<action> => <events>`; events separated by `;`:
  `recv a n none|conn|new h` · `send a n conn|ep c k` · `validated` · `cred c|-`.
  Prints `ok` or `reject <why>`; `reset …` starts a new case.
-/
open NetVerif.Driver NetVerif.Model.AntiAmp

structure DSt where
  c : St
  m : Mon
  dead : Bool

def showCredit (c : Int) : String := if c = unlimited then "inf" else toString c

def parseCredit (s : String) : Option Int := if s == "inf" then some unlimited else parseInt s

def parseEv : List String → Option Ev
  | ["recv", a, n, r, h] => do
    let a ← parseNat a
    let n ← parseInt n
    let r ← (match r with | "none" => some Route.none | "conn" => some Route.conn | "new" => some Route.new | _ => none)
    let h ← (match h with | "0" => some false | "1" => some true | _ => none)
    pure (.recv a n r h)
  | ["send", a, n, o, c, k] => do
    let a ← parseNat a
    let n ← parseInt n
    let k ← parseInt k
    match o with
    | "conn" => do
      let c ← parseCredit c
      pure (.send a n true c k)
    | "ep" => if c == "-" then pure (.send a n false 0 k) else none
    | _ => none
  | ["validated"] => some .validated
  | ["cred", c] => if c == "-" then some (.cred none) else (parseCredit c).map (fun c => .cred (some c))
  | _ => none

/-- Split a token list at `;`. -/
def splitSemi : List String → List String → List (List String)
  | [], cur => if cur.isEmpty then [] else [cur.reverse]
  | t :: rest, cur => if t == ";" then cur.reverse :: splitSemi rest [] else splitSemi rest (t :: cur)

def parseEvs (ts : List String) : Option (List Ev) :=
  if ts == ["-"] then some [] else (splitSemi ts []).mapM parseEv

def counterLine (s : St) : String :=
  s!"ok {showCredit s.credit} {s.recvd} {s.sent}"

def c27Step (d : DSt) (line : String) : DSt × String :=
  let ts := tokens line
  match ts.span (· ≠ "=>") with
  | (act, "=>" :: obs) =>
    -- wire tie
    if act.head? == some "reset" then
      match parseEvs obs with
      | some [] => ({ d with m := Mon.init, dead := false }, "ok")
      | _ => (d, "bad-op")
    else if d.dead then (d, "reject dead")
    else match parseEvs obs with
      | none => (d, "bad-op")
      | some evs => match mrun d.m evs with
        | .ok m => ({ d with m := m }, "ok")
        | .error why => ({ d with dead := true }, s!"reject {why}")
  | _ =>
    match ts with
    | ["init", side] =>
      match parseInt side with
      | some side =>
        let s : St := ⟨initCredit 0 side, 0, 0, false⟩
        ({ d with c := s }, counterLine s)
      | none => (d, "bad-op")
    | ["recv", n] =>
      match parseInt n with
      | some n => let s := step d.c (.recv n); ({ d with c := s }, counterLine s)
      | none => (d, "bad-op")
    | ["sent", n, _flags] =>
      match parseInt n with
      | some n => let s := step d.c (.send n); ({ d with c := s }, counterLine s)
      | none => (d, "bad-op")
    | ["validate"] => let s := step d.c .validate; ({ d with c := s }, counterLine s)
    | ["maxsend"] => (d, s!"ok {showCredit (maxSendSize d.c.credit maxDatagramSize)}")
    | ["blocked"] => (d, s!"ok {if blocked d.c.credit then 1 else 0}")
    | _ => (d, "bad-op")

def main : IO Unit := runLoop c27Step ⟨St.server, Mon.init, false⟩
