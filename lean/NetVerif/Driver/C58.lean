import NetVerif.Driver.Util
import NetVerif.Model.ChanSemMonitor
/-! Trace monitor driver for C58 (LimitListener stress traces). -/
open NetVerif.Driver NetVerif.Model.ChanSemMonitor

def c58Ev (ts : List String) : Option LEv :=
  match ts with
  | ["iacc", id] => do pure (.iacc (← parseNat id))
  | ["iclose", id] => do pure (.iclose (← parseNat id))
  | ["ainv", a] => do pure (.ainv (← parseNat a))
  | ["acc", a] => do pure (.acc (← parseNat a))
  | ["aerr", a] => do pure (.aerr (← parseNat a))
  | ["linv"] => some .other
  | ["lret"] => some .lret
  | ["end"] => some .other
  | _ => none

def c58Step (st : Option LMon) (line : String) : Option LMon × String :=
  match tokens line with
  | ["run", "listen", n, _, _, _, _] =>
    match parseNat n with
    | some n => (some { limit := n }, "ok")
    | none => (none, "bad-op")
  | ts =>
    match st with
    | none => (st, "bad-op")
    | some m =>
      match c58Ev ts with
      | none => (st, "bad-op")
      | some e =>
        match m.step e with
        | .ok m' => (some m', "ok")
        | .error why => (st, "reject " ++ why)

def main : IO Unit := runLoop c58Step none
