import NetVerif.Driver.Util
import NetVerif.Model.HttpProxy
/-! Line-protocol driver for the httpproxy model (C52).
`init <cgi> <hpraw> <hpfact> <spraw> <spfact> <noproxy> <fact>*`
   fact: `C:<key>:<ip>:<ones>:<bits>` | `S:<key>:<host>:<port>` | `I:<key>:<ip>` | `A:<key>:<out>`
   (tabulated results of net.ParseCIDR / net.SplitHostPort / net.ParseIP / idna.Lookup.ToASCII; absent = error)
   hpfact/spfact: `n` (nil URL) | `u:<hex of URL.String()>`
`req <mode> <raw1> <raw2> <scheme> <host> <port> <ip|n>`
-/
open NetVerif.Driver NetVerif.Model.NetIP NetVerif.Model.HttpProxy

namespace NetVerif.Driver.C52

structure Tables where
  cidr : List (List Nat × (List Nat × Nat × Nat)) := []
  split : List (List Nat × (List Nat × List Nat)) := []
  ip : List (List Nat × List Nat) := []
  idna : List (List Nat × List Nat) := []

def Tables.oracles (t : Tables) : Oracles :=
  { parseCIDR := fun k => t.cidr.lookup k
    splitHostPort := fun k => t.split.lookup k
    parseIP := fun k => t.ip.lookup k
    idna := fun k => t.idna.lookup k }

def parseFact (t : Tables) (tok : String) : Option Tables :=
  match tok.splitOn ":" with
  | ["C", k, ip, ones, bits] => do
    let k ← parseBytes k; let ip ← parseBytes ip; let ones ← parseNat ones; let bits ← parseNat bits
    pure { t with cidr := t.cidr ++ [(k, (ip, ones, bits))] }
  | ["S", k, h, p] => do
    let k ← parseBytes k; let h ← parseBytes h; let p ← parseBytes p
    pure { t with split := t.split ++ [(k, (h, p))] }
  | ["I", k, ip] => do
    let k ← parseBytes k; let ip ← parseBytes ip
    pure { t with ip := t.ip ++ [(k, ip)] }
  | ["A", k, o] => do
    let k ← parseBytes k; let o ← parseBytes o
    pure { t with idna := t.idna ++ [(k, o)] }
  | _ => none

def parseFacts : List String → Tables → Option Tables
  | [], t => some t
  | x :: xs, t => match parseFact t x with
    | some t' => parseFacts xs t'
    | none => none

def parseProxyFact (s : String) : Option (Option (List Nat)) :=
  match s.splitOn ":" with
  | ["n"] => some none
  | ["u", h] => (parseBytes h).map some
  | _ => none

def parseBool (s : String) : Option Bool :=
  if s == "0" then some false else if s == "1" then some true else none

def showMatcher : Matcher → String
  | .all => "all"
  | .cidr ip ones bits => s!"cidr/{hexOfBytes ip}/{ones}/{bits}"
  | .ip ip port => s!"ip/{hexOfBytes ip}/{hexOfBytes port}"
  | .domain h p mh => s!"dom/{hexOfBytes h}/{hexOfBytes p}/{if mh then 1 else 0}"

def showMatchers (ms : List Matcher) : String :=
  if ms.isEmpty then "-" else ",".intercalate (ms.map showMatcher)

def step (st : Option Cfg) (line : String) : Option Cfg × String :=
  match tokens line with
  | "init" :: cgi :: _hpraw :: hpf :: _spraw :: spf :: np :: facts =>
    match parseBool cgi, parseProxyFact hpf, parseProxyFact spf, parseBytes np, parseFacts facts {} with
    | some cgi, some hp, some sp, some np, some t =>
      let c := init t.oracles cgi hp sp np
      (some c, s!"ok {showMatchers c.ipMatchers} {showMatchers c.domainMatchers}")
    | _, _, _, _, _ => (st, "bad-op")
  | ["req", _mode, _raw1, _raw2, scheme, host, port, ip] =>
    match st with
    | none => (st, "bad-op")
    | some c =>
      let ip? : Option (Option (List Nat)) := if ip == "n" then some none else (parseBytes ip).map some
      match parseBytes scheme, parseBytes host, parseBytes port, ip? with
      | some scheme, some host, some port, some ip =>
        let r : Req := { scheme, host, port, ip }
        let out := match proxyForURL c r with
          | .noProxy => "ok none"
          | .proxy u => s!"ok proxy {hexOfBytes u}"
          | .errCGI => "err cgi"
        (st, out)
      | _, _, _, _ => (st, "bad-op")
  | _ => (st, "bad-op")

end NetVerif.Driver.C52

def main : IO Unit := runLoop NetVerif.Driver.C52.step none
