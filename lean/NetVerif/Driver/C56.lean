import NetVerif.Driver.Util
import NetVerif.Model.Httpsfv
/-! Line-protocol driver for the httpsfv model (C56). Stateless.  `<op> <bytes>`. -/
open NetVerif.Driver NetVerif.Model.Httpsfv

def c56Pairs (l : List (List Nat × List Nat)) : String :=
  l.foldl (fun acc (a, b) => acc ++ " " ++ hexOfBytes a ++ ":" ++ hexOfBytes b) "ok"

def c56Triples (l : List (List Nat × List Nat × List Nat)) : String :=
  l.foldl (fun acc (a, b, c) => acc ++ " " ++ hexOfBytes a ++ ":" ++ hexOfBytes b ++ ":" ++ hexOfBytes c) "ok"

def c56Pad3 (n : Nat) : String :=
  if n < 10 then s!"00{n}" else if n < 100 then s!"0{n}" else s!"{n}"

def c56Consumed (r : Option (List Nat × List Nat)) : String :=
  match r with
  | some (c, rest) => s!"ok {c.length} {rest.length}"
  | none => "err"

def c56Run (op : String) (s : List Nat) : String :=
  match op with
  | "int" => (match parseInteger s with | some n => s!"ok {n}" | none => "err")
  | "dec" =>
    (match parseDecimal s with
     | some (neg, th) =>
       let sign := if neg && th != 0 then "-" else ""
       s!"ok {sign}{th / 1000}.{c56Pad3 (th % 1000)}"
     | none => "err")
  | "str" => (match parseString s with | some v => s!"ok {hexOfBytes v}" | none => "err")
  | "tok" => (match parseToken s with | some v => s!"ok {hexOfBytes v}" | none => "err")
  | "bseq" => (match parseByteSequence s with | some v => s!"ok {hexOfBytes v}" | none => "err")
  | "bool" => (match parseBoolean s with | some v => (if v then "ok true" else "ok false") | none => "err")
  | "date" => (match parseDate s with | some n => s!"ok {n}" | none => "err")
  | "dstr" => (match parseDisplayString s with | some v => s!"ok {hexOfBytes v}" | none => "err")
  | "item" => (match parseItem s with | some (a, b) => s!"ok {hexOfBytes a} {hexOfBytes b}" | none => "err")
  | "params" => (match parseParameter s with | some l => c56Pairs l | none => "err")
  | "inner" => (match parseBareInnerList s with | some l => c56Pairs l | none => "err")
  | "list" => (match parseList s with | some l => c56Pairs l | none => "err")
  | "dict" => (match parseDictionary s with | some l => c56Triples l | none => "err")
  | "cbare" => c56Consumed (consumeBareItem s)
  | "ckey" => c56Consumed (consumeKey s)
  | "cnum" => c56Consumed (consumeIntegerOrDecimal s)
  | "cparam" => c56Consumed ((consumeParameter s).map (fun (_, c, r) => (c, r)))
  | "cinner" => c56Consumed ((consumeBareInnerList s).map (fun (_, c, r) => (c, r)))
  | "citem" => c56Consumed ((consumeItem s).map (fun (_, _, c, r) => (c, r)))
  | _ => "bad-op"

def c56Step (_ : Unit) (line : String) : Unit × String :=
  let out : String :=
    match tokens line with
    | [op, b] => (match parseBytes b with | some s => c56Run op s | none => "bad-op")
    | _ => "bad-op"
  ((), out)

def main : IO Unit := runLoop c56Step ()
