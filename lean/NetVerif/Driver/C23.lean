import NetVerif.Driver.Util
import NetVerif.Model.PacketNumber
/-! Line-protocol driver for the packet-number model (C23). Stateless. -/
open NetVerif.Driver NetVerif.Model.PacketNumber

def c23InDomain (L t n : Int) : Bool :=
  decide (-1 ≤ L ∧ L ≤ maxPacketNumber ∧ 1 ≤ n ∧ n ≤ 4 ∧ 0 ≤ t ∧ t < win n)

def c23Step (_ : Unit) (line : String) : Unit × String :=
  let out : String :=
    match tokens line with
    | ["len", pn, a] =>
      match parseInt pn, parseInt a with
      | some pn, some a => s!"ok {pnLen pn a}"
      | _, _ => "bad-op"
    | ["app", pn, a] =>
      match parseInt pn, parseInt a with
      | some pn, some a => s!"ok {hexOfBytes ((appendPN pn a).map Int.toNat)}"
      | _, _ => "bad-op"
    | ["dec", l, t, n] =>
      match parseInt l, parseInt t, parseInt n with
      | some l, some t, some n =>
        if c23InDomain l t n then s!"ok {decodePN l t n}" else "bad-op"
      | _, _, _ => "bad-op"
    | ["rt", a, l, pn] =>
      match parseInt a, parseInt l, parseInt pn with
      | some a, some l, some pn =>
        let bs := appendPN pn a
        let t := beValue bs
        let n : Int := bs.length
        if c23InDomain l t n then
          s!"ok {pnLen pn a} {hexOfBytes (bs.map Int.toNat)} {decodePN l t n}"
        else "bad-op"
      | _, _, _ => "bad-op"
    | _ => "bad-op"
  ((), out)

def main : IO Unit := runLoop c23Step ()
